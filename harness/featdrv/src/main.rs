//! Per-feature decode driver (C19): prints the Debug form of the decoded message of each frame.
use std::io::BufRead;
fn main() {
    let stdin = std::io::stdin();
    for line in stdin.lock().lines() {
        let line = line.unwrap();
        let b = line.trim().as_bytes();
        let mut d = Vec::new();
        for i in (0..b.len()).step_by(2) {
            let h = (b[i] as char).to_digit(16).unwrap();
            let l = (b[i + 1] as char).to_digit(16).unwrap();
            d.push((h * 16 + l) as u8);
        }
        match rtcm_rs::MessageFrame::new(&d) {
            Ok(f) => println!("{:?}", f.get_message()),
            Err(e) => println!("ERR {:?}", e),
        }
    }
}
