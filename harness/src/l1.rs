//! Frame / scanner / iterator / chunked-feed operations on the real code, and their oracles.
use crate::util::*;
use rtcm_rs::prelude::*;

fn attrs(f: &MessageFrame) -> String {
    format!(
        "{} {} {} {} {}",
        f.frame_len(),
        f.data_len(),
        f.crc(),
        match f.message_number() {
            Some(n) => n.to_string(),
            None => "-".to_string(),
        },
        hex(f.data())
    )
}

pub fn op_frame(d: &[u8]) -> String {
    match MessageFrame::new(d) {
        Ok(f) => format!("OK {}", attrs(&f)),
        Err(RtcmError::Incomplete) => "INCOMPLETE".into(),
        Err(RtcmError::NotValid) => "NOTVALID".into(),
        Err(e) => format!("ERR {:?}", e),
    }
}

pub fn op_scan(d: &[u8]) -> String {
    match next_msg_frame(d) {
        (c, Some(f)) => format!("{} OK {} {}", c, attrs(&f), hex(f.frame_data())),
        (c, None) => format!("{} NONE", c),
    }
}

/// `d` followed by zero bytes up to `total` bytes: a lazily zeroed allocation, of which only the frame's
/// own pages are ever touched when the code under test behaves
fn big_slice(total: usize, d: &[u8]) -> Option<Vec<u8>> {
    if total < d.len() || total > (1usize << 34) {
        return None;
    }
    let mut v = vec![0u8; total];
    v[..d.len()].copy_from_slice(d);
    Some(v)
}

pub fn op_big(scan: bool, oracle: bool, total: usize, d: &[u8]) -> String {
    let v = match big_slice(total, d) {
        Some(v) => v,
        None => return "BAD-OP".into(),
    };
    match (scan, oracle) {
        (false, false) => op_frame(&v),
        (true, false) => op_scan(&v),
        (false, true) => {
            // C13 / C03: the answer is that of the frame's own bytes (suffix irrelevant)
            let a = op_frame(&v);
            let cap = d.len().max(1100).min(total);
            let b = op_frame(&v[..cap]);
            if a == b { "PASS".into() } else { format!("FAIL C03 slice of {} bytes answers {} but its first {} bytes answer {}", total, &a[..a.len().min(60)], cap, &b[..b.len().min(60)]) }
        }
        (true, true) => {
            let a = op_scan(&v);
            let cap = d.len().max(1100).min(total);
            let b = op_scan(&v[..cap]);
            let same = a == b || (a.ends_with("NONE") && b.ends_with("NONE") && !a.starts_with("0 ") && !b.starts_with("0 "));
            if same { "PASS".into() } else { format!("FAIL C05 buffer of {} bytes answers {} but its first {} bytes answer {}", total, &a[..a.len().min(60)], cap, &b[..b.len().min(60)]) }
        }
    }
}

pub fn op_iter(d: &[u8]) -> String {
    let mut it = MsgFrameIter::new(d);
    let mut frames = Vec::new();
    for f in &mut it {
        frames.push(hex(f.frame_data()));
    }
    let mut s = format!("{} {}", it.consumed(), frames.len());
    for f in frames {
        s.push(' ');
        s.push_str(&f);
    }
    // polled twice more after it ran dry
    let e1 = (&mut it).next().is_some();
    let c1 = it.consumed();
    let e2 = (&mut it).next().is_some();
    let c2 = it.consumed();
    s.push_str(&format!(" | {}:{} {}:{}", c1, e1, c2, e2));
    s
}

/// The caller protocol of C06 on the real scanner.
pub fn feed(chunks: &[Vec<u8>]) -> (usize, usize, Vec<Vec<u8>>) {
    let mut buf: Vec<u8> = Vec::new();
    let mut delivered = Vec::new();
    let mut consumed = 0usize;
    for c in chunks {
        buf.extend_from_slice(c);
        loop {
            let (n, fr) = {
                let (n, f) = next_msg_frame(&buf);
                (n, f.map(|f| f.frame_data().to_vec()))
            };
            buf.drain(..n);
            consumed += n;
            match fr {
                Some(f) => delivered.push(f),
                None => break,
            }
        }
    }
    (consumed, buf.len(), delivered)
}

pub fn op_feed(chunks: &[Vec<u8>]) -> String {
    let (c, b, d) = feed(chunks);
    let mut s = format!("{} {} {}", c, b, d.len());
    for f in d {
        s.push(' ');
        s.push_str(&hex(&f));
    }
    s
}

// ---------------------------------------------------------------- oracles (independent of the model)

#[derive(PartialEq, Debug)]
pub enum Spec {
    Ok { flen: usize, crc: u32 },
    Incomplete,
    NotValid,
}

/// C03 as stated, with the scanner's convention that a slice shorter than 6 bytes is incomplete.
pub fn spec_frame(d: &[u8]) -> Spec {
    if d.len() < 6 {
        return Spec::Incomplete;
    }
    if d[0] != 0xd3 {
        return Spec::NotValid;
    }
    let l = (((d[1] & 3) as usize) << 8) | d[2] as usize;
    if d.len() < l + 6 {
        return Spec::Incomplete;
    }
    let c = crc24q(&d[..l + 3]);
    let m = ((d[l + 3] as u32) << 16) | ((d[l + 4] as u32) << 8) | d[l + 5] as u32;
    if c == m {
        Spec::Ok { flen: l + 6, crc: c }
    } else {
        Spec::NotValid
    }
}

pub fn oracle_frame(d: &[u8]) -> String {
    let spec = spec_frame(d);
    let got = MessageFrame::new(d);
    let ok = match (&spec, &got) {
        (Spec::Ok { flen, crc }, Ok(f)) => {
            let l = flen - 6;
            f.frame_len() == *flen
                && f.data_len() == l
                && f.data() == &d[3..3 + l]
                && f.frame_data() == &d[..*flen]
                && f.crc() == *crc
                && f.message_number()
                    == if l >= 2 { Some(((d[3] as u16) << 4) | (d[4] as u16 >> 4)) } else { None }
        }
        (Spec::Incomplete, Err(RtcmError::Incomplete)) => true,
        (Spec::NotValid, Err(RtcmError::NotValid)) => true,
        _ => false,
    };
    // C13: same attributes when bytes follow an accepted frame
    let mut suffix_ok = true;
    if let Ok(f) = &got {
        for sfx in [&[0u8][..], &[1, 2, 3, 4], &[0xd3, 0, 0, 0x47, 0xea, 0x4b]] {
            let mut e = d[..f.frame_len()].to_vec();
            e.extend_from_slice(sfx);
            match MessageFrame::new(&e) {
                Ok(g) => {
                    if attrs(&g) != attrs(f)
                        || g.frame_data() != f.frame_data()
                        || format!("{:?}", g.get_message()) != format!("{:?}", f.get_message())
                    {
                        suffix_ok = false;
                    }
                }
                Err(_) => suffix_ok = false,
            }
        }
    }
    if ok && suffix_ok {
        "PASS".into()
    } else {
        format!("FAIL spec={:?} got={} suffix_ok={}", spec, op_frame(d), suffix_ok)
    }
}

/// C05 as stated: earliest 0xD3 whose candidate is accepted or still incomplete.
pub fn spec_scan(d: &[u8]) -> (usize, Option<usize>) {
    for i in 0..d.len() {
        if d[i] == 0xd3 {
            match spec_frame(&d[i..]) {
                Spec::Ok { flen, .. } => return (i + flen, Some(i)),
                Spec::Incomplete => return (i, None),
                Spec::NotValid => {}
            }
        }
    }
    (d.len(), None)
}

pub fn oracle_scan(d: &[u8]) -> String {
    let (c, st) = spec_scan(d);
    let (gc, gf) = next_msg_frame(d);
    let ok = gc == c
        && gc <= d.len()
        && match (&st, &gf) {
            (Some(i), Some(f)) => f.frame_data() == &d[*i..c],
            (None, None) => true,
            _ => false,
        };
    // C13: every attribute of the delivered frame is that of its own bytes parsed alone (nothing the scanner
    // saw before or after it may leak in)
    if let Some(f) = &gf {
        let own = f.frame_data().to_vec();
        let alone = match MessageFrame::new(&own) { Ok(g) => attrs(&g), Err(e) => format!("ERR {:?}", e) };
        if attrs(f) != alone {
            return format!("FAIL C13 delivered frame reports {} but its own bytes alone give {}", attrs(f).chars().take(60).collect::<String>(), alone.chars().take(60).collect::<String>());
        }
        let m1 = format!("{:?}", f.get_message());
        let m2 = MessageFrame::new(&own).map(|g| format!("{:?}", g.get_message())).unwrap_or_default();
        if m1 != m2 {
            return "FAIL C13 delivered frame decodes differently from its own bytes alone".into();
        }
    }
    if ok {
        "PASS".into()
    } else {
        format!("FAIL spec=({}, {:?}) got={}", c, st, op_scan(d))
    }
}

pub fn oracle_iter(d: &[u8]) -> String {
    // repeated scanner calls
    let mut idx = 0usize;
    let mut frames = Vec::new();
    loop {
        if idx >= d.len() {
            break;
        }
        let (c, st) = spec_scan(&d[idx..]);
        idx += c;
        match st {
            Some(i) => frames.push(d[idx - c + i..idx].to_vec()),
            None => break,
        }
    }
    let mut it = MsgFrameIter::new(d);
    let mut got = Vec::new();
    let mut guard = 0usize;
    for f in &mut it {
        got.push(f.frame_data().to_vec());
        let own = f.frame_data().to_vec();
        let alone = match MessageFrame::new(&own) { Ok(g) => attrs(&g), Err(e) => format!("ERR {:?}", e) };
        if attrs(&f) != alone {
            return format!("FAIL C13 iterated frame reports {} but its own bytes alone give {}", attrs(&f).chars().take(60).collect::<String>(), alone.chars().take(60).collect::<String>());
        }
        guard += 1;
        if guard > d.len() + 1 {
            return "FAIL iterator does not terminate".into();
        }
    }
    let dry_ok = {
        // an iterator that ran dry stays dry and its consumed() does not move, however often it is polled
        let c0 = it.consumed();
        let a = (&mut it).next().is_none() && it.consumed() == c0;
        let b = (&mut it).next().is_none() && it.consumed() == c0;
        a && b && c0 <= d.len()
    };
    if !dry_ok {
        return format!("FAIL C05 polling the iterator again after it returned None changes consumed() or yields a frame: {}", op_iter(d));
    }
    if got == frames && it.consumed() == idx {
        "PASS".into()
    } else {
        format!("FAIL spec=({}, {} frames) got={}", idx, frames.len(), op_iter(d))
    }
}

pub fn oracle_feed(chunks: &[Vec<u8>]) -> String {
    let whole: Vec<u8> = chunks.iter().flatten().copied().collect();
    let a = feed(chunks);
    let b = feed(&[whole]);
    if a == b {
        "PASS".into()
    } else {
        format!("FAIL chunked=({}, {}, {} frames) whole=({}, {}, {} frames)", a.0, a.1, a.2.len(), b.0, b.1, b.2.len())
    }
}

/// C04: `d` is a valid frame, `bits` are bit positions (0 = MSB of byte 0) to flip.
pub fn oracle_flip(d: &[u8], bits: &[usize]) -> String {
    if !matches!(spec_frame(d), Spec::Ok { flen, .. } if flen == d.len()) {
        return "SKIP not a valid frame".into();
    }
    let mut e = d.to_vec();
    for &b in bits {
        if b / 8 >= e.len() {
            return "SKIP bit out of range".into();
        }
        e[b / 8] ^= 0x80 >> (b % 8);
    }
    if e == d {
        return "SKIP no change".into();
    }
    let rejected = matches!(MessageFrame::new(&e), Err(RtcmError::NotValid));
    let (c, f) = next_msg_frame(&e);
    let delivered_at_0 = match &f {
        Some(f) => c == f.frame_len(),
        None => false,
    };
    if rejected && !delivered_at_0 {
        "PASS".into()
    } else {
        format!("FAIL rejected={} delivered_at_0={}", rejected, delivered_at_0)
    }
}

pub fn op_flip(d: &[u8], bits: &[usize]) -> String {
    let mut e = d.to_vec();
    for &b in bits {
        if b / 8 < e.len() {
            e[b / 8] ^= 0x80 >> (b % 8);
        }
    }
    format!("{} | {}", op_frame(&e), op_scan(&e))
}

/// arbitrary schedule of appends and single scanner calls, finished by draining (C06)
pub fn sched(ops: &[Option<Vec<u8>>]) -> (usize, usize, Vec<Vec<u8>>) {
    let mut buf: Vec<u8> = Vec::new();
    let mut delivered = Vec::new();
    let mut consumed = 0usize;
    let mut one = |buf: &mut Vec<u8>, delivered: &mut Vec<Vec<u8>>, consumed: &mut usize| -> bool {
        let (n, fr) = {
            let (n, f) = next_msg_frame(buf);
            (n, f.map(|f| f.frame_data().to_vec()))
        };
        buf.drain(..n);
        *consumed += n;
        match fr {
            Some(f) => {
                delivered.push(f);
                true
            }
            None => false,
        }
    };
    for op in ops {
        match op {
            Some(c) => buf.extend_from_slice(c),
            None => {
                one(&mut buf, &mut delivered, &mut consumed);
            }
        }
    }
    while one(&mut buf, &mut delivered, &mut consumed) {}
    (consumed, buf.len(), delivered)
}

pub fn parse_sched(s: &str) -> Option<Vec<Option<Vec<u8>>>> {
    s.split('|')
        .map(|w| if w == "s" { Some(None) } else if let Some(h) = w.strip_prefix('a') { unhex(h).map(Some) } else { None })
        .collect()
}

pub fn op_sched(ops: &[Option<Vec<u8>>]) -> String {
    let (c, b, d) = sched(ops);
    let mut s = format!("{} {} {}", c, b, d.len());
    for f in d {
        s.push(' ');
        s.push_str(&hex(&f));
    }
    s
}

pub fn oracle_sched(ops: &[Option<Vec<u8>>]) -> String {
    let whole: Vec<u8> = ops.iter().flatten().flatten().copied().collect();
    let a = sched(ops);
    let b = feed(&[whole]);
    if a == b { "PASS".into() } else { format!("FAIL schedule=({}, {}, {} frames) whole=({}, {}, {} frames)", a.0, a.1, a.2.len(), b.0, b.1, b.2.len()) }
}
