//! Bit packer operations through the `verif_hooks` re-exports.
use crate::util::*;
use rtcm_rs::rtcm_error::RtcmError;
use rtcm_rs::verif_hooks::bit_value::*;
use rtcm_rs::verif_hooks::{Assembler, Parser};

fn err(e: RtcmError) -> String {
    format!("ERR {:?}", e)
}

macro_rules! put_as {
    ($it:ty, $pt:ty, $buf:expr, $off:expr, $len:expr, $v:expr) => {{
        let mut asm = Assembler::new($buf, $off);
        let r = asm.put::<$it>($v as $pt, $len);
        (r, asm.offset())
    }};
}
macro_rules! parse_as {
    ($it:ty, $ut:ty, $buf:expr, $off:expr, $len:expr) => {{
        // a cursor position is reached either directly or by skipping bits from an earlier one
        let skip = SKIP.with(|s| s.get());
        let mut par = Parser::new($buf, $off - skip.min($off));
        if skip > 0 {
            par.consume_bits(skip.min($off));
        }
        let r = par.parse::<$it>($len).map(|v| v as $ut as u64);
        (r, par.offset())
    }};
}

thread_local! {
    /// number of bits the next `parse` reaches its offset by `consume_bits` (0 = Parser::new at the offset)
    pub static SKIP: std::cell::Cell<usize> = std::cell::Cell::new(0);
}

/// SKIPPARSE: Parser::new(buf, off); consume_bits(skip); parse(len) -- answers as PARSE at off + skip
pub fn with_skip<T>(skip: usize, f: impl FnOnce() -> T) -> T {
    SKIP.with(|s| s.set(skip));
    let r = f();
    SKIP.with(|s| s.set(0));
    r
}

/// value is the carrier's bit pattern as an unsigned number
pub fn put(kind: &str, w: usize, off: usize, len: usize, v: u64, buf: &mut [u8]) -> (Result<(), RtcmError>, usize) {
    match (kind, w) {
        ("U", 8) => put_as!(U8, u8, buf, off, len, v),
        ("U", 16) => put_as!(U16, u16, buf, off, len, v),
        ("U", 32) => put_as!(U32, u32, buf, off, len, v),
        ("U", 64) => put_as!(U64, u64, buf, off, len, v),
        ("I", 8) => put_as!(I8, i8, buf, off, len, v),
        ("I", 16) => put_as!(I16, i16, buf, off, len, v),
        ("I", 32) => put_as!(I32, i32, buf, off, len, v),
        ("I", 64) => put_as!(I64, i64, buf, off, len, v),
        ("SM", 8) => put_as!(SM8, i8, buf, off, len, v),
        ("SM", 16) => put_as!(SM16, i16, buf, off, len, v),
        ("SM", 32) => put_as!(SM32, i32, buf, off, len, v),
        ("SM", 64) => put_as!(SM64, i64, buf, off, len, v),
        _ => panic!("bad kind"),
    }
}

pub fn parse(kind: &str, w: usize, off: usize, len: usize, buf: &[u8]) -> (Result<u64, RtcmError>, usize) {
    match (kind, w) {
        ("U", 8) => parse_as!(U8, u8, buf, off, len),
        ("U", 16) => parse_as!(U16, u16, buf, off, len),
        ("U", 32) => parse_as!(U32, u32, buf, off, len),
        ("U", 64) => parse_as!(U64, u64, buf, off, len),
        ("I", 8) => parse_as!(I8, u8, buf, off, len),
        ("I", 16) => parse_as!(I16, u16, buf, off, len),
        ("I", 32) => parse_as!(I32, u32, buf, off, len),
        ("I", 64) => parse_as!(I64, u64, buf, off, len),
        ("SM", 8) => parse_as!(SM8, u8, buf, off, len),
        ("SM", 16) => parse_as!(SM16, u16, buf, off, len),
        ("SM", 32) => parse_as!(SM32, u32, buf, off, len),
        ("SM", 64) => parse_as!(SM64, u64, buf, off, len),
        _ => panic!("bad kind"),
    }
}

pub fn op_put(kind: &str, w: usize, off: usize, len: usize, v: u64, buf: &[u8]) -> String {
    let mut b = buf.to_vec();
    match put(kind, w, off, len, v, &mut b) {
        (Ok(()), o) => format!("{} {}", hex(&b), o),
        (Err(e), _) => err(e),
    }
}

pub fn op_parse(kind: &str, w: usize, off: usize, len: usize, buf: &[u8]) -> String {
    match parse(kind, w, off, len, buf) {
        (Ok(v), o) => format!("{} {}", v, o),
        (Err(e), _) => err(e),
    }
}

fn bit(buf: &[u8], g: usize) -> bool {
    buf[g / 8] & (0x80 >> (g % 8)) != 0
}

/// C07 stated independently of the model: expected wire bits from the signed reading of the value.
pub fn oracle_put(kind: &str, w: usize, off: usize, len: usize, v: u64, buf: &[u8]) -> String {
    let mut b = buf.to_vec();
    let (r, o) = put(kind, w, off, len, v, &mut b);
    if buf.len() * 8 < off + len {
        return if matches!(r, Err(RtcmError::BufferOverflow)) && b == buf && o == off {
            "PASS".into()
        } else {
            format!("FAIL overflow path: {:?} cursor {} buffer changed {}", r.err(), o, b != buf)
        };
    }
    if r.is_err() {
        return format!("FAIL unexpected error {:?}", r.err());
    }
    if o != off + len {
        return format!("FAIL cursor {} expected {}", o, off + len);
    }
    // signed reading
    let sv: i128 = if kind == "U" || w == 64 && kind == "U" {
        v as i128
    } else {
        let m = 1u128 << w;
        let x = (v as u128) % m;
        if x >= m / 2 { x as i128 - m as i128 } else { x as i128 }
    };
    let modl: i128 = 1i128 << len;
    let wire: u128 = if kind == "SM" {
        // sign bit then magnitude of the value reduced as the code does (two's complement bit len-1 decides)
        let low = (((sv % modl) + modl) % modl) as u128;
        if low >> (len - 1) & 1 == 0 {
            low
        } else {
            let mag = ((-(sv)) as u128) & ((1u128 << (len - 1)) - 1);
            if mag == 0 { 0 } else { (1u128 << (len - 1)) | mag }
        }
    } else {
        (((sv % modl) + modl) % modl) as u128
    };
    for g in 0..buf.len() * 8 {
        let exp = if g >= off && g < off + len { (wire >> (off + len - 1 - g)) & 1 == 1 } else { bit(buf, g) };
        if bit(&b, g) != exp {
            return format!("FAIL bit {} is {} expected {}", g, bit(&b, g), exp);
        }
    }
    // read back
    let (pr, po) = parse(kind, w, off, len, &b);
    let representable = match kind {
        "U" => (v as u128) < (1u128 << len),
        "I" => sv >= -(1i128 << (len - 1)) && sv < (1i128 << (len - 1)),
        _ => sv > -(1i128 << (len - 1)) && sv < (1i128 << (len - 1)),
    };
    match pr {
        Ok(x) => {
            if po != off + len {
                return format!("FAIL parse cursor {}", po);
            }
            let mask: u64 = if w == 64 { u64::MAX } else { (1u64 << w) - 1 };
            if representable && x != (v & mask) {
                return format!("FAIL read back {} expected {}", x, v & mask);
            }
            "PASS".into()
        }
        Err(e) => format!("FAIL parse error {:?}", e),
    }
}

pub fn oracle_parse(kind: &str, w: usize, off: usize, len: usize, buf: &[u8]) -> String {
    let (r, o) = parse(kind, w, off, len, buf);
    if buf.len() * 8 < off + len {
        return if matches!(r, Err(RtcmError::BufferOverflow)) && o == off { "PASS".into() } else { format!("FAIL overflow path {:?} {}", r, o) };
    }
    let x = match r {
        Ok(x) => x,
        Err(e) => return format!("FAIL error {:?}", e),
    };
    let mut raw: u128 = 0;
    for g in off..off + len {
        raw = (raw << 1) | bit(buf, g) as u128;
    }
    let m = 1u128 << w;
    let exp: u128 = match kind {
        "U" => raw,
        "I" => if raw >> (len - 1) & 1 == 1 { (raw + m - (1u128 << len)) % m } else { raw },
        _ => if raw >> (len - 1) & 1 == 1 { (m - (raw & ((1u128 << (len - 1)) - 1))) % m } else { raw },
    };
    if x as u128 == exp && o == off + len { "PASS".into() } else { format!("FAIL got {} expected {}", x, exp) }
}

/// PARSESEQ: ONE parser reads the fields in turn (64-bit carriers)
pub fn op_parseseq(off: usize, fields: &[(char, usize)], buf: &[u8]) -> String {
    let mut par = Parser::new(buf, off);
    let mut out: Vec<String> = Vec::new();
    for (k, w) in fields {
        let r = match k {
            'u' => par.parse::<U64>(*w).map(|v| v),
            'i' => par.parse::<I64>(*w).map(|v| v as u64),
            _ => par.parse::<SM64>(*w).map(|v| v as u64),
        };
        match r {
            Ok(v) => out.push(v.to_string()),
            Err(e) => {
                out.push(err(e));
                out.push(par.offset().to_string());
                return out.join(" ");
            }
        }
    }
    out.push(par.offset().to_string());
    out.join(" ")
}

/// the same reads, each by a fresh parser at the position the previous one reached
pub fn oracle_parseseq(off: usize, fields: &[(char, usize)], buf: &[u8]) -> String {
    let got = op_parseseq(off, fields, buf);
    let mut o = off;
    let mut out: Vec<String> = Vec::new();
    for (k, w) in fields {
        let kind = match k { 'u' => "U", 'i' => "I", _ => "SM" };
        let (r, o2) = parse(kind, 64, o, *w, buf);
        match r {
            Ok(v) => { out.push(v.to_string()); o = o2; }
            Err(e) => { out.push(err(e)); break; }
        }
    }
    out.push(o.to_string());
    let exp = out.join(" ");
    if got == exp { "PASS".into() } else { format!("FAIL C07 one parser reading in turn gives {} ; fresh parsers give {}", &got[..got.len().min(80)], &exp[..exp.len().min(80)]) }
}

/// PUTSEQ: ONE assembler writes the fields in turn
pub fn op_putseq(off: usize, buf: &[u8], fields: &[(char, usize, u64)]) -> String {
    let mut b = buf.to_vec();
    let (o, e) = {
        let mut asm = Assembler::new(&mut b, off);
        let mut e = None;
        for (k, w, v) in fields {
            let r = match k {
                'u' => asm.put::<U64>(*v, *w),
                'i' => asm.put::<I64>(*v as i64, *w),
                _ => asm.put::<SM64>(*v as i64, *w),
            };
            if let Err(x) = r { e = Some(x); break; }
        }
        (asm.offset(), e)
    };
    match e {
        None => format!("{} {}", hex(&b), o),
        Some(x) => format!("{} {} {}", hex(&b), o, err(x)),
    }
}

pub fn oracle_putseq(off: usize, buf: &[u8], fields: &[(char, usize, u64)]) -> String {
    let got = op_putseq(off, buf, fields);
    let mut b = buf.to_vec();
    let mut o = off;
    let mut tail = String::new();
    for (k, w, v) in fields {
        let kind = match k { 'u' => "U", 'i' => "I", _ => "SM" };
        let (r, o2) = put(kind, 64, o, *w, *v, &mut b);
        match r { Ok(()) => o = o2, Err(x) => { tail = format!(" {}", err(x)); break; } }
    }
    let exp = format!("{} {}{}", hex(&b), o, tail);
    if got == exp { "PASS".into() } else { format!("FAIL C07 one assembler writing in turn differs from fresh assemblers: {} vs {}", &got[..got.len().min(70)], &exp[..exp.len().min(70)]) }
}
