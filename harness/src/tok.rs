//! Positional token streams for message values (same text format as the Lean driver).
use crate::util::*;

#[derive(Clone, Debug, PartialEq)]
pub enum Tok {
    Int(i128),
    F32(u32),
    F64(u64),
    None,
    Some,
    Bytes(Vec<u8>),
    Count(usize),
    Sig(u8, char),
}

impl Tok {
    pub fn text(&self) -> String {
        match self {
            Tok::Int(z) => format!("i{}", z),
            Tok::F32(b) => format!("f{:x}", b),
            Tok::F64(b) => format!("f{:x}", b),
            Tok::None => "N".into(),
            Tok::Some => "S".into(),
            Tok::Bytes(b) => format!("b{}", hex(b)),
            Tok::Count(n) => format!("c{}", n),
            Tok::Sig(b, a) => format!("g{}:{}", b, *a as u32),
        }
    }
}

pub fn toks_text(t: &[Tok]) -> String {
    t.iter().map(|x| x.text()).collect::<Vec<_>>().join(" ")
}

/// Raw tokens as read from the protocol: floats are untyped bit patterns until consumed.
#[derive(Clone, Debug)]
pub enum Raw {
    Int(i128),
    Flt(u64),
    None,
    Some,
    Bytes(Vec<u8>),
    Count(usize),
    Sig(u8, char),
}

pub fn parse_raw(s: &str) -> Option<Raw> {
    let (h, r) = s.split_at(1);
    Some(match h {
        "i" => Raw::Int(r.parse().ok()?),
        "f" => Raw::Flt(u64::from_str_radix(r, 16).ok()?),
        "N" => Raw::None,
        "S" => Raw::Some,
        "b" => Raw::Bytes(unhex(r)?),
        "c" => Raw::Count(r.parse().ok()?),
        "g" => {
            let (b, a) = r.split_once(':')?;
            Raw::Sig(b.parse().ok()?, char::from_u32(a.parse().ok()?)?)
        }
        _ => return None,
    })
}

pub struct TokIter {
    toks: Vec<Raw>,
    pos: usize,
}

impl TokIter {
    pub fn new(words: &[&str]) -> Option<TokIter> {
        let toks: Option<Vec<Raw>> = words.iter().map(|w| parse_raw(w)).collect();
        Some(TokIter { toks: toks?, pos: 0 })
    }
    fn next(&mut self) -> Option<Raw> {
        let t = self.toks.get(self.pos)?.clone();
        self.pos += 1;
        Some(t)
    }
    pub fn done(&self) -> bool {
        self.pos == self.toks.len()
    }
    pub fn int<T: TryFrom<i128>>(&mut self) -> Option<T> {
        match self.next()? {
            Raw::Int(z) => T::try_from(z).ok(),
            _ => None,
        }
    }
    pub fn f32(&mut self) -> Option<f32> {
        match self.next()? {
            Raw::Flt(b) => Some(f32::from_bits(u32::try_from(b).ok()?)),
            _ => None,
        }
    }
    pub fn f64(&mut self) -> Option<f64> {
        match self.next()? {
            Raw::Flt(b) => Some(f64::from_bits(b)),
            _ => None,
        }
    }
    pub fn opt(&mut self) -> Option<bool> {
        match self.next()? {
            Raw::Some => Some(true),
            Raw::None => Some(false),
            _ => None,
        }
    }
    pub fn bytes(&mut self) -> Option<Vec<u8>> {
        match self.next()? {
            Raw::Bytes(b) => Some(b),
            _ => None,
        }
    }
    pub fn count(&mut self) -> Option<usize> {
        match self.next()? {
            Raw::Count(n) => Some(n),
            _ => None,
        }
    }
    pub fn sig(&mut self) -> Option<(u8, char)> {
        match self.next()? {
            Raw::Sig(b, a) => Some((b, a)),
            _ => None,
        }
    }
}

// ---------------------------------------------------------------- containers with a history
thread_local! {
    /// when set, every list built from tokens lives in a container that was filled to capacity, cleared and
    /// refilled: tinyvec keeps the old elements behind the active part (what a caller gets who reuses a
    /// DataVec across epochs with clear() / set_len())
    pub static DIRTY: std::cell::Cell<bool> = std::cell::Cell::new(false);
}

pub fn with_dirty<T>(f: impl FnOnce() -> T) -> T {
    DIRTY.with(|d| d.set(true));
    let r = f();
    DIRTY.with(|d| d.set(false));
    r
}

pub fn stale_tail<T: Clone + Default, const N: usize>(v: rtcm_rs::util::DataVec<T, N>, stale: impl Fn(usize, &T) -> T) -> rtcm_rs::util::DataVec<T, N> {
    if !DIRTY.with(|d| d.get()) || N == 0 {
        return v;
    }
    let proto: Vec<T> = if v.len() == 0 { vec![T::default()] } else { v.iter().cloned().collect() };
    let mut w = rtcm_rs::util::DataVec::<T, N>::new();
    for q in 0..N {
        w.push(stale(q, &proto[q % proto.len()]));
    }
    if N % 2 == 0 { w.clear(); } else { w.set_len(0); }
    for e in v.iter() {
        w.push(e.clone());
    }
    w
}
