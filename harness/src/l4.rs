//! Signal identifier operations (public API only).
use rtcm_rs::msg::*;

macro_rules! by_gnss {
    ($g:expr, $t:ident => $e:expr) => {
        match $g {
            "gps" => { type $t = GpsSigId; Some($e) }
            "glo" => { type $t = GloSigId; Some($e) }
            "gal" => { type $t = GalSigId; Some($e) }
            "sbas" => { type $t = SbasSigId; Some($e) }
            "qzss" => { type $t = QzssSigId; Some($e) }
            "bds" => { type $t = BdsSigId; Some($e) }
            "navic" => { type $t = NavicSigId; Some($e) }
            _ => None,
        }
    };
}

pub fn op_sig(g: &str, band: u8, attr: u32) -> String {
    let a = match char::from_u32(attr) {
        Some(a) => a,
        None => return "BAD-OP".into(),
    };
    match by_gnss!(g, T => T::new(band, a).is_valid()) {
        Some(true) => "valid".into(),
        Some(false) => "invalid".into(),
        None => "BAD-OP".into(),
    }
}

pub fn sig_cmp(g: &str, b1: u8, a1: u32, b2: u8, a2: u32) -> Option<std::cmp::Ordering> {
    let (a1, a2) = (char::from_u32(a1)?, char::from_u32(a2)?);
    by_gnss!(g, T => T::new(b1, a1).cmp(&T::new(b2, a2)))
}

pub fn sig_pcmp(g: &str, b1: u8, a1: u32, b2: u8, a2: u32) -> Option<Option<std::cmp::Ordering>> {
    let (a1, a2) = (char::from_u32(a1)?, char::from_u32(a2)?);
    by_gnss!(g, T => T::new(b1, a1).partial_cmp(&T::new(b2, a2)))
}

/// `Ord::cmp` and `PartialOrd::partial_cmp`
pub fn op_sigcmp(g: &str, b1: u8, a1: u32, b2: u8, a2: u32) -> String {
    match (sig_cmp(g, b1, a1, b2, a2), sig_pcmp(g, b1, a1, b2, a2)) {
        (Some(o), Some(p)) => format!("{:?} {}", o, p.map(|x| format!("{:?}", x)).unwrap_or_else(|| "None".into())),
        _ => "BAD-OP".into(),
    }
}

/// consistency of the order on a pair (C18): reflexive, antisymmetric, swap-consistent
pub fn oracle_sigcmp(g: &str, b1: u8, a1: u32, b2: u8, a2: u32) -> String {
    use std::cmp::Ordering::*;
    let (x, y, xx) = match (sig_cmp(g, b1, a1, b2, a2), sig_cmp(g, b2, a2, b1, a1), sig_cmp(g, b1, a1, b1, a1)) {
        (Some(x), Some(y), Some(z)) => (x, y, z),
        _ => return "BAD-OP".into(),
    };
    if xx != Equal {
        return "FAIL not reflexive".into();
    }
    if x != y.reverse() {
        return format!("FAIL cmp(a,b)={:?} cmp(b,a)={:?}", x, y);
    }
    if x == Equal && (b1, a1) != (b2, a2) {
        return "FAIL distinct descriptors compare Equal".into();
    }
    // every recognised descriptor sorts before every unrecognised one
    let v1 = op_sig(g, b1, a1) == "valid";
    let v2 = op_sig(g, b2, a2) == "valid";
    if v1 && !v2 && x != Less {
        return format!("FAIL recognised vs unrecognised compares {:?}", x);
    }
    if !v1 && v2 && x != Greater {
        return format!("FAIL unrecognised vs recognised compares {:?}", x);
    }
    // partial_cmp: defined exactly between recognised descriptors, and then equal to cmp
    match sig_pcmp(g, b1, a1, b2, a2) {
        Some(Some(p)) if v1 && v2 && p == x => {}
        Some(None) if !(v1 && v2) => {}
        p => return format!("FAIL partial_cmp gives {:?} where cmp gives {:?} (recognised: {} {})", p, x, v1, v2),
    }
    "PASS".into()
}

// ---------------------------------------------------------------- serde (C20)
use crate::util::*;
use rtcm_rs::util::{ArrayString, Df88591String};

fn string_of(cps: &[&str]) -> Option<String> {
    cps.iter().map(|c| c.parse::<u32>().ok().and_then(char::from_u32)).collect()
}

fn serde88591<const N: usize>(s: &str) -> String {
    let v = Df88591String::<N>::from(s);
    let j = serde_json::to_string(&v).unwrap();
    let w: Df88591String<N> = serde_json::from_str(&j).unwrap();
    let val = serde_json::to_value(&v).unwrap();
    let w2: Df88591String<N> = serde_json::from_value(val).unwrap();
    let b: Vec<u8> = w.iter().copied().collect();
    format!("{} {}", hex(&b), if w == v && w2 == v { "EQ" } else { "NE" })
}

fn serdeastr<const N: usize>(s: &str) -> String {
    let v = ArrayString::<N>::from(s);
    let j = serde_json::to_string(&v).unwrap();
    let w: ArrayString<N> = serde_json::from_str(&j).unwrap();
    let st: &str = &w;
    format!("{} {}", hex(st.as_bytes()), if w == v { "EQ" } else { "NE" })
}

macro_rules! with_n {
    ($n:expr, $f:ident, $s:expr) => {
        match $n {
            1 => $f::<1>($s),
            7 => $f::<7>($s),
            8 => $f::<8>($s),
            31 => $f::<31>($s),
            32 => $f::<32>($s),
            127 => $f::<127>($s),
            255 => $f::<255>($s),
            _ => "BAD-OP".to_string(),
        }
    };
}

pub fn op_serde_str(kind: &str, n: usize, cps: &[&str]) -> String {
    let s = match string_of(cps) {
        Some(s) => s,
        None => return "BAD-OP".into(),
    };
    if kind == "88591" { with_n!(n, serde88591, &s) } else { with_n!(n, serdeastr, &s) }
}

pub fn oracle_serde_str(kind: &str, n: usize, cps: &[&str]) -> String {
    let r = op_serde_str(kind, n, cps);
    if r.ends_with(" EQ") { "PASS".into() } else { format!("FAIL C20 string did not survive serde: {}", r) }
}

/// message through serde_json::Value (the self-describing data model)
pub fn serde_msg(m: &rtcm_rs::Message) -> Result<(), String> {
    let v = serde_json::to_value(m).map_err(|e| format!("to_value: {}", e))?;
    let back: rtcm_rs::Message = serde_json::from_value(v).map_err(|e| format!("from_value: {}", e))?;
    if &back != m {
        return Err("message differs after to_value/from_value".into());
    }
    // the same through a value tree that announces itself as a text format and as a binary format
    // (is_human_readable() = false: what CBOR / MessagePack implementations report)
    for hr in [true, false] {
        match crate::valtree::round_trip(m, hr) {
            Ok(b) => if &b != m { return Err(format!("message differs after a value-tree round trip (human_readable = {})", hr)); },
            Err(e) => return Err(format!("value-tree round trip failed (human_readable = {}): {}", hr, e.chars().take(120).collect::<String>())),
        }
    }
    // the JSON *text* path is not used for messages: serde_json's default float parser is not
    // guaranteed to reproduce every f64 bit pattern (feature float_roundtrip is off); the property
    // speaks about the self-describing data model, i.e. serde_json::Value.
    Ok(())
}
