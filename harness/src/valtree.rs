//! A self-describing value tree (every type of the serde data model kept apart, as CBOR / MessagePack do) whose
//! serializer and deserializer can announce themselves as a text format (is_human_readable = true) or a binary one.
//! Adapted from the demonstration of seeded change C20-9 (written by a sub-agent against the crate's public API).
#![allow(dead_code)]
use rtcm_rs::Message;
use serde::de::{self, DeserializeSeed, IntoDeserializer, Visitor};
use serde::ser::{self, Serialize};
use serde::Deserialize;
use std::fmt;

// ---------------------------------------------------------------------------
// the self-describing data model
// ---------------------------------------------------------------------------

#[derive(Clone, Debug, PartialEq)]
enum Value {
    Bool(bool),
    U8(u8),
    U16(u16),
    U32(u32),
    U64(u64),
    I8(i8),
    I16(i16),
    I32(i32),
    I64(i64),
    F32(f32),
    F64(f64),
    Char(char),
    Str(String),
    Bytes(Vec<u8>),
    None,
    Some(Box<Value>),
    Unit,
    Seq(Vec<Value>),
    Map(Vec<(Value, Value)>),
    Variant(String, Option<Box<Value>>),
}

#[derive(Debug)]
struct Error(String);
impl fmt::Display for Error {
    fn fmt(&self, f: &mut fmt::Formatter<'_>) -> fmt::Result {
        f.write_str(&self.0)
    }
}
impl std::error::Error for Error {}
impl ser::Error for Error {
    fn custom<T: fmt::Display>(msg: T) -> Self {
        Error(msg.to_string())
    }
}
impl de::Error for Error {
    fn custom<T: fmt::Display>(msg: T) -> Self {
        Error(msg.to_string())
    }
}

// ---------------------------------------------------------------------------
// Serializer
// ---------------------------------------------------------------------------

#[derive(Clone, Copy)]
struct Ser {
    human_readable: bool,
}

struct SeqSer {
    ser: Ser,
    items: Vec<Value>,
    variant: Option<&'static str>,
}
struct MapSer {
    ser: Ser,
    entries: Vec<(Value, Value)>,
    key: Option<Value>,
    variant: Option<&'static str>,
}

impl SeqSer {
    fn finish(self) -> Value {
        let v = Value::Seq(self.items);
        match self.variant {
            Some(name) => Value::Variant(name.to_string(), Some(Box::new(v))),
            None => v,
        }
    }
}
impl MapSer {
    fn finish(self) -> Value {
        let v = Value::Map(self.entries);
        match self.variant {
            Some(name) => Value::Variant(name.to_string(), Some(Box::new(v))),
            None => v,
        }
    }
}

impl ser::Serializer for Ser {
    type Ok = Value;
    type Error = Error;
    type SerializeSeq = SeqSer;
    type SerializeTuple = SeqSer;
    type SerializeTupleStruct = SeqSer;
    type SerializeTupleVariant = SeqSer;
    type SerializeMap = MapSer;
    type SerializeStruct = MapSer;
    type SerializeStructVariant = MapSer;

    fn is_human_readable(&self) -> bool {
        self.human_readable
    }

    fn serialize_bool(self, v: bool) -> Result<Value, Error> {
        Ok(Value::Bool(v))
    }
    fn serialize_i8(self, v: i8) -> Result<Value, Error> {
        Ok(Value::I8(v))
    }
    fn serialize_i16(self, v: i16) -> Result<Value, Error> {
        Ok(Value::I16(v))
    }
    fn serialize_i32(self, v: i32) -> Result<Value, Error> {
        Ok(Value::I32(v))
    }
    fn serialize_i64(self, v: i64) -> Result<Value, Error> {
        Ok(Value::I64(v))
    }
    fn serialize_u8(self, v: u8) -> Result<Value, Error> {
        Ok(Value::U8(v))
    }
    fn serialize_u16(self, v: u16) -> Result<Value, Error> {
        Ok(Value::U16(v))
    }
    fn serialize_u32(self, v: u32) -> Result<Value, Error> {
        Ok(Value::U32(v))
    }
    fn serialize_u64(self, v: u64) -> Result<Value, Error> {
        Ok(Value::U64(v))
    }
    fn serialize_f32(self, v: f32) -> Result<Value, Error> {
        Ok(Value::F32(v))
    }
    fn serialize_f64(self, v: f64) -> Result<Value, Error> {
        Ok(Value::F64(v))
    }
    fn serialize_char(self, v: char) -> Result<Value, Error> {
        Ok(Value::Char(v))
    }
    fn serialize_str(self, v: &str) -> Result<Value, Error> {
        Ok(Value::Str(v.to_string()))
    }
    fn serialize_bytes(self, v: &[u8]) -> Result<Value, Error> {
        Ok(Value::Bytes(v.to_vec()))
    }
    fn serialize_none(self) -> Result<Value, Error> {
        Ok(Value::None)
    }
    fn serialize_some<T: ?Sized + Serialize>(self, value: &T) -> Result<Value, Error> {
        Ok(Value::Some(Box::new(value.serialize(self)?)))
    }
    fn serialize_unit(self) -> Result<Value, Error> {
        Ok(Value::Unit)
    }
    fn serialize_unit_struct(self, _name: &'static str) -> Result<Value, Error> {
        Ok(Value::Unit)
    }
    fn serialize_unit_variant(
        self,
        _name: &'static str,
        _index: u32,
        variant: &'static str,
    ) -> Result<Value, Error> {
        Ok(Value::Variant(variant.to_string(), None))
    }
    fn serialize_newtype_struct<T: ?Sized + Serialize>(
        self,
        _name: &'static str,
        value: &T,
    ) -> Result<Value, Error> {
        value.serialize(self)
    }
    fn serialize_newtype_variant<T: ?Sized + Serialize>(
        self,
        _name: &'static str,
        _index: u32,
        variant: &'static str,
        value: &T,
    ) -> Result<Value, Error> {
        Ok(Value::Variant(
            variant.to_string(),
            Some(Box::new(value.serialize(self)?)),
        ))
    }
    fn serialize_seq(self, len: Option<usize>) -> Result<SeqSer, Error> {
        Ok(SeqSer {
            ser: self,
            items: Vec::with_capacity(len.unwrap_or(0)),
            variant: None,
        })
    }
    fn serialize_tuple(self, len: usize) -> Result<SeqSer, Error> {
        self.serialize_seq(Some(len))
    }
    fn serialize_tuple_struct(self, _name: &'static str, len: usize) -> Result<SeqSer, Error> {
        self.serialize_seq(Some(len))
    }
    fn serialize_tuple_variant(
        self,
        _name: &'static str,
        _index: u32,
        variant: &'static str,
        len: usize,
    ) -> Result<SeqSer, Error> {
        Ok(SeqSer {
            ser: self,
            items: Vec::with_capacity(len),
            variant: Some(variant),
        })
    }
    fn serialize_map(self, _len: Option<usize>) -> Result<MapSer, Error> {
        Ok(MapSer {
            ser: self,
            entries: Vec::new(),
            key: None,
            variant: None,
        })
    }
    fn serialize_struct(self, _name: &'static str, _len: usize) -> Result<MapSer, Error> {
        self.serialize_map(None)
    }
    fn serialize_struct_variant(
        self,
        _name: &'static str,
        _index: u32,
        variant: &'static str,
        _len: usize,
    ) -> Result<MapSer, Error> {
        Ok(MapSer {
            ser: self,
            entries: Vec::new(),
            key: None,
            variant: Some(variant),
        })
    }
    fn collect_str<T: ?Sized + fmt::Display>(self, value: &T) -> Result<Value, Error> {
        Ok(Value::Str(value.to_string()))
    }
}

impl ser::SerializeSeq for SeqSer {
    type Ok = Value;
    type Error = Error;
    fn serialize_element<T: ?Sized + Serialize>(&mut self, value: &T) -> Result<(), Error> {
        self.items.push(value.serialize(self.ser)?);
        Ok(())
    }
    fn end(self) -> Result<Value, Error> {
        Ok(self.finish())
    }
}
impl ser::SerializeTuple for SeqSer {
    type Ok = Value;
    type Error = Error;
    fn serialize_element<T: ?Sized + Serialize>(&mut self, value: &T) -> Result<(), Error> {
        ser::SerializeSeq::serialize_element(self, value)
    }
    fn end(self) -> Result<Value, Error> {
        Ok(self.finish())
    }
}
impl ser::SerializeTupleStruct for SeqSer {
    type Ok = Value;
    type Error = Error;
    fn serialize_field<T: ?Sized + Serialize>(&mut self, value: &T) -> Result<(), Error> {
        ser::SerializeSeq::serialize_element(self, value)
    }
    fn end(self) -> Result<Value, Error> {
        Ok(self.finish())
    }
}
impl ser::SerializeTupleVariant for SeqSer {
    type Ok = Value;
    type Error = Error;
    fn serialize_field<T: ?Sized + Serialize>(&mut self, value: &T) -> Result<(), Error> {
        ser::SerializeSeq::serialize_element(self, value)
    }
    fn end(self) -> Result<Value, Error> {
        Ok(self.finish())
    }
}
impl ser::SerializeMap for MapSer {
    type Ok = Value;
    type Error = Error;
    fn serialize_key<T: ?Sized + Serialize>(&mut self, key: &T) -> Result<(), Error> {
        self.key = Some(key.serialize(self.ser)?);
        Ok(())
    }
    fn serialize_value<T: ?Sized + Serialize>(&mut self, value: &T) -> Result<(), Error> {
        let key = self.key.take().expect("value without key");
        self.entries.push((key, value.serialize(self.ser)?));
        Ok(())
    }
    fn end(self) -> Result<Value, Error> {
        Ok(self.finish())
    }
}
impl ser::SerializeStruct for MapSer {
    type Ok = Value;
    type Error = Error;
    fn serialize_field<T: ?Sized + Serialize>(
        &mut self,
        key: &'static str,
        value: &T,
    ) -> Result<(), Error> {
        self.entries
            .push((Value::Str(key.to_string()), value.serialize(self.ser)?));
        Ok(())
    }
    fn end(self) -> Result<Value, Error> {
        Ok(self.finish())
    }
}
impl ser::SerializeStructVariant for MapSer {
    type Ok = Value;
    type Error = Error;
    fn serialize_field<T: ?Sized + Serialize>(
        &mut self,
        key: &'static str,
        value: &T,
    ) -> Result<(), Error> {
        ser::SerializeStruct::serialize_field(self, key, value)
    }
    fn end(self) -> Result<Value, Error> {
        Ok(self.finish())
    }
}

// ---------------------------------------------------------------------------
// Deserializer
// ---------------------------------------------------------------------------

struct De {
    value: Value,
    human_readable: bool,
}

impl<'de> de::Deserializer<'de> for De {
    type Error = Error;

    fn is_human_readable(&self) -> bool {
        self.human_readable
    }

    fn deserialize_any<V: Visitor<'de>>(self, visitor: V) -> Result<V::Value, Error> {
        let hr = self.human_readable;
        match self.value {
            Value::Bool(v) => visitor.visit_bool(v),
            Value::U8(v) => visitor.visit_u8(v),
            Value::U16(v) => visitor.visit_u16(v),
            Value::U32(v) => visitor.visit_u32(v),
            Value::U64(v) => visitor.visit_u64(v),
            Value::I8(v) => visitor.visit_i8(v),
            Value::I16(v) => visitor.visit_i16(v),
            Value::I32(v) => visitor.visit_i32(v),
            Value::I64(v) => visitor.visit_i64(v),
            Value::F32(v) => visitor.visit_f32(v),
            Value::F64(v) => visitor.visit_f64(v),
            Value::Char(v) => visitor.visit_char(v),
            Value::Str(v) => visitor.visit_str(&v),
            Value::Bytes(v) => visitor.visit_bytes(&v),
            Value::None => visitor.visit_none(),
            Value::Some(v) => visitor.visit_some(De {
                value: *v,
                human_readable: hr,
            }),
            Value::Unit => visitor.visit_unit(),
            Value::Seq(items) => visitor.visit_seq(SeqAcc {
                iter: items.into_iter(),
                human_readable: hr,
            }),
            Value::Map(entries) => visitor.visit_map(MapAcc {
                iter: entries.into_iter(),
                pending: None,
                human_readable: hr,
            }),
            Value::Variant(name, content) => visitor.visit_enum(EnumAcc {
                name,
                content: content.map(|b| *b),
                human_readable: hr,
            }),
        }
    }

    fn deserialize_option<V: Visitor<'de>>(self, visitor: V) -> Result<V::Value, Error> {
        self.deserialize_any(visitor)
    }
    fn deserialize_newtype_struct<V: Visitor<'de>>(
        self,
        _name: &'static str,
        visitor: V,
    ) -> Result<V::Value, Error> {
        visitor.visit_newtype_struct(self)
    }
    fn deserialize_enum<V: Visitor<'de>>(
        self,
        _name: &'static str,
        _variants: &'static [&'static str],
        visitor: V,
    ) -> Result<V::Value, Error> {
        self.deserialize_any(visitor)
    }

    serde::forward_to_deserialize_any! {
        bool i8 i16 i32 i64 i128 u8 u16 u32 u64 u128 f32 f64 char str string
        bytes byte_buf unit unit_struct seq tuple
        tuple_struct map struct identifier ignored_any
    }
}

struct SeqAcc {
    iter: std::vec::IntoIter<Value>,
    human_readable: bool,
}
impl<'de> de::SeqAccess<'de> for SeqAcc {
    type Error = Error;
    fn next_element_seed<T: DeserializeSeed<'de>>(
        &mut self,
        seed: T,
    ) -> Result<Option<T::Value>, Error> {
        match self.iter.next() {
            Some(value) => seed
                .deserialize(De {
                    value,
                    human_readable: self.human_readable,
                })
                .map(Some),
            None => Ok(None),
        }
    }
    fn size_hint(&self) -> Option<usize> {
        Some(self.iter.len())
    }
}

struct MapAcc {
    iter: std::vec::IntoIter<(Value, Value)>,
    pending: Option<Value>,
    human_readable: bool,
}
impl<'de> de::MapAccess<'de> for MapAcc {
    type Error = Error;
    fn next_key_seed<K: DeserializeSeed<'de>>(&mut self, seed: K) -> Result<Option<K::Value>, Error> {
        match self.iter.next() {
            Some((key, value)) => {
                self.pending = Some(value);
                seed.deserialize(De {
                    value: key,
                    human_readable: self.human_readable,
                })
                .map(Some)
            }
            None => Ok(None),
        }
    }
    fn next_value_seed<V: DeserializeSeed<'de>>(&mut self, seed: V) -> Result<V::Value, Error> {
        let value = self.pending.take().expect("value without key");
        seed.deserialize(De {
            value,
            human_readable: self.human_readable,
        })
    }
}

struct EnumAcc {
    name: String,
    content: Option<Value>,
    human_readable: bool,
}
impl<'de> de::EnumAccess<'de> for EnumAcc {
    type Error = Error;
    type Variant = VariantAcc;
    fn variant_seed<V: DeserializeSeed<'de>>(self, seed: V) -> Result<(V::Value, VariantAcc), Error> {
        let tag = seed.deserialize(IntoDeserializer::<Error>::into_deserializer(self.name.as_str()))?;
        Ok((
            tag,
            VariantAcc {
                content: self.content,
                human_readable: self.human_readable,
            },
        ))
    }
}
struct VariantAcc {
    content: Option<Value>,
    human_readable: bool,
}
impl<'de> de::VariantAccess<'de> for VariantAcc {
    type Error = Error;
    fn unit_variant(self) -> Result<(), Error> {
        match self.content {
            None => Ok(()),
            Some(_) => Err(Error("unexpected variant content".into())),
        }
    }
    fn newtype_variant_seed<T: DeserializeSeed<'de>>(self, seed: T) -> Result<T::Value, Error> {
        match self.content {
            Some(value) => seed.deserialize(De {
                value,
                human_readable: self.human_readable,
            }),
            None => Err(Error("missing variant content".into())),
        }
    }
    fn tuple_variant<V: Visitor<'de>>(self, _len: usize, visitor: V) -> Result<V::Value, Error> {
        match self.content {
            Some(value) => de::Deserializer::deserialize_any(
                De {
                    value,
                    human_readable: self.human_readable,
                },
                visitor,
            ),
            None => Err(Error("missing variant content".into())),
        }
    }
    fn struct_variant<V: Visitor<'de>>(
        self,
        _fields: &'static [&'static str],
        visitor: V,
    ) -> Result<V::Value, Error> {
        self.tuple_variant(0, visitor)
    }
}

// ---------------------------------------------------------------------------
// helpers
// ---------------------------------------------------------------------------
pub fn round_trip(msg: &Message, human_readable: bool) -> Result<Message, String> {
    let value = msg.serialize(Ser { human_readable }).map_err(|e| e.to_string())?;
    Message::deserialize(De { value, human_readable }).map_err(|e| e.to_string())
}
