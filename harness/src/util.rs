pub fn hex(d: &[u8]) -> String {
    if d.is_empty() {
        return "-".to_string();
    }
    let mut s = String::with_capacity(d.len() * 2);
    for b in d {
        s.push_str(&format!("{:02x}", b));
    }
    s
}

pub fn unhex(s: &str) -> Option<Vec<u8>> {
    if s == "-" {
        return Some(vec![]);
    }
    let b = s.as_bytes();
    if b.len() % 2 != 0 {
        return None;
    }
    let mut out = Vec::with_capacity(b.len() / 2);
    for i in (0..b.len()).step_by(2) {
        let h = (b[i] as char).to_digit(16)?;
        let l = (b[i + 1] as char).to_digit(16)?;
        out.push((h * 16 + l) as u8);
    }
    Some(out)
}

/// Independent bitwise CRC-24Q (generator 0x1864CFB, init 0, no reflection, no xor-out).
pub fn crc24q(d: &[u8]) -> u32 {
    let mut crc: u32 = 0;
    for &b in d {
        crc ^= (b as u32) << 16;
        for _ in 0..8 {
            crc <<= 1;
            if crc & 0x100_0000 != 0 {
                crc ^= 0x186_4CFB;
            }
        }
    }
    crc & 0xFF_FFFF
}
