//! Correspondence / oracle harness: reads one operation per line, answers one line per operation.
//! `--oracle` switches from "answer like the model would" to "evaluate the property's own predicate
//! on the real code, independently of the model".
mod gen;
mod l1;
mod l2;
mod l3;
mod l4;
mod tok;
mod util;
mod valtree;

use std::io::{BufRead, Write};
use std::panic::{catch_unwind, AssertUnwindSafe};
use util::*;

fn chunks(s: &str) -> Option<Vec<Vec<u8>>> {
    s.split('|').map(unhex).collect()
}
fn bits(s: &str) -> Option<Vec<usize>> {
    s.split(',').map(|x| x.parse().ok()).collect()
}

fn handle(line: &str, oracle: bool) -> String {
    let t: Vec<&str> = line.trim().split(' ').collect();
    let bad = || "BAD-OP".to_string();
    match (t.as_slice(), oracle) {
        (["FRAME", h], false) => unhex(h).map(|d| l1::op_frame(&d)).unwrap_or_else(bad),
        (["FRAME", h], true) => unhex(h).map(|d| l1::oracle_frame(&d)).unwrap_or_else(bad),
        (["SCAN", h], false) => unhex(h).map(|d| l1::op_scan(&d)).unwrap_or_else(bad),
        (["SCAN", h], true) => unhex(h).map(|d| l1::oracle_scan(&d)).unwrap_or_else(bad),
        (["BIGFRAME", t, h], o) => match (t.parse::<usize>(), unhex(h)) {
            (Ok(t), Some(d)) => l1::op_big(false, o, t, &d),
            _ => bad(),
        },
        (["BIGSCAN", t, h], o) => match (t.parse::<usize>(), unhex(h)) {
            (Ok(t), Some(d)) => l1::op_big(true, o, t, &d),
            _ => bad(),
        },
        // floods of false preambles (hundreds of thousands of complete, rejected candidates in one call): oracle
        // only -- the model's scanner is quadratic on them (it measures the rest of the buffer at every candidate)
        (["XSCAN", h], o) => if o { unhex(h).map(|d| l1::oracle_scan(&d)).unwrap_or_else(bad) } else { "BAD-OP".into() },
        (["XITER", h], o) => if o { unhex(h).map(|d| l1::oracle_iter(&d)).unwrap_or_else(bad) } else { "BAD-OP".into() },
        (["ITER", h], false) => unhex(h).map(|d| l1::op_iter(&d)).unwrap_or_else(bad),
        (["ITER", h], true) => unhex(h).map(|d| l1::oracle_iter(&d)).unwrap_or_else(bad),
        (["FEED", h], false) => chunks(h).map(|c| l1::op_feed(&c)).unwrap_or_else(bad),
        (["FEED", h], true) => chunks(h).map(|c| l1::oracle_feed(&c)).unwrap_or_else(bad),
        (["SCHED", h], o) => match l1::parse_sched(h) {
            Some(ops) => if o { l1::oracle_sched(&ops) } else { l1::op_sched(&ops) },
            None => bad(),
        },
        (["FLIP", h, b], false) => match (unhex(h), bits(b)) {
            (Some(d), Some(b)) => l1::op_flip(&d, &b),
            _ => bad(),
        },
        (["FLIP", h, b], true) => match (unhex(h), bits(b)) {
            (Some(d), Some(b)) => l1::oracle_flip(&d, &b),
            _ => bad(),
        },
        (["PUT", k, w, off, len, v, h], o) => {
            match (w.parse::<usize>(), off.parse::<usize>(), len.parse::<usize>(), v.parse::<u64>(), unhex(h)) {
                (Ok(w), Ok(off), Ok(len), Ok(v), Some(d)) => {
                    if o { l2::oracle_put(k, w, off, len, v, &d) } else { l2::op_put(k, w, off, len, v, &d) }
                }
                _ => bad(),
            }
        }
        (["PARSE", k, w, off, len, h], o) => {
            match (w.parse::<usize>(), off.parse::<usize>(), len.parse::<usize>(), unhex(h)) {
                (Ok(w), Ok(off), Ok(len), Some(d)) => {
                    if o { l2::oracle_parse(k, w, off, len, &d) } else { l2::op_parse(k, w, off, len, &d) }
                }
                _ => bad(),
            }
        }
        (["PARSESEQ", off, fs, h], o) => {
            let fl: Option<Vec<(char, usize)>> = fs.split(',').map(|f| { let mut it = f.split(':'); Some((it.next()?.chars().next()?, it.next()?.parse().ok()?)) }).collect();
            match (off.parse::<usize>(), fl, unhex(h)) {
                (Ok(off), Some(fl), Some(d)) => if o { l2::oracle_parseseq(off, &fl, &d) } else { l2::op_parseseq(off, &fl, &d) },
                _ => bad(),
            }
        }
        (["PUTSEQ", off, h, fs], o) => {
            let fl: Option<Vec<(char, usize, u64)>> = fs.split(',').map(|f| { let mut it = f.split(':'); Some((it.next()?.chars().next()?, it.next()?.parse().ok()?, it.next()?.parse().ok()?)) }).collect();
            match (off.parse::<usize>(), unhex(h), fl) {
                (Ok(off), Some(d), Some(fl)) => if o { l2::oracle_putseq(off, &d, &fl) } else { l2::op_putseq(off, &d, &fl) },
                _ => bad(),
            }
        }
        (["SKIPPARSE", k, w, off, skip, len, h], o) => {
            match (w.parse::<usize>(), off.parse::<usize>(), skip.parse::<usize>(), len.parse::<usize>(), unhex(h)) {
                (Ok(w), Ok(off), Ok(skip), Ok(len), Some(d)) => l2::with_skip(skip, || {
                    if o { l2::oracle_parse(k, w, off + skip, len, &d) } else { l2::op_parse(k, w, off + skip, len, &d) }
                }),
                _ => bad(),
            }
        }
        (["DFDEC", id, len, p], o) => match (len.parse::<usize>(), p.parse::<u64>()) {
            (Ok(len), Ok(p)) => if o { l3::oracle_dfdec(id, len, p) } else { l3::op_dfdec(id, len, p) },
            _ => bad(),
        },
        (["DFENC", id, rest @ ..], false) => l3::op_dfenc(id, rest),
        (["DFENCF", id, rest @ ..], false) => l3::op_dfenc_fill(0xff, id, rest),
        (["DFENCF", id, rest @ ..], true) => {
            // C08 / C07: what a field writes does not depend on what the buffer held
            let a = l3::op_dfenc_fill(0xff, id, rest);
            let b = l3::op_dfenc(id, rest);
            if a == b { "PASS".into() } else { format!("FAIL C08 field {} written into an all-ones buffer reads back {} ; into a zeroed buffer {}", id, a, b) }
        }
        (["DEC", h], false) => unhex(h).map(|d| l3::op_dec(&d)).unwrap_or_else(bad),
        (["DEC", h], true) => unhex(h).map(|d| l3::oracle_dec(&d)).unwrap_or_else(bad),
        // ENC with every list in a container that has a history (stale elements behind the active part)
        (["ENCD", n, rest @ ..], o) => match n.parse::<u16>() {
            Ok(n) => tok::with_dirty(|| if o { l3::oracle_enc(n, rest) } else { l3::op_enc(n, rest) }),
            _ => bad(),
        },
        (["ENC", n, rest @ ..], o) => match n.parse::<u16>() {
            Ok(n) => if o { l3::oracle_enc(n, rest) } else { l3::op_enc(n, rest) },
            _ => match (*n, o) {
                ("E", false) | ("C", false) => l3::op_buildseq(&t[1..]),
                (u, false) if u.starts_with('U') => l3::op_buildseq(&t[1..]),
                ("E", true) | ("C", true) => { let r = l3::op_buildseq(&t[1..]); if r == "ERR EncodingNotSupported" { "PASS".into() } else { format!("FAIL C09 {}", r) } }
                (u, true) if u.starts_with('U') => { let r = l3::op_buildseq(&t[1..]); if r == "ERR EncodingNotSupported" { "PASS".into() } else { format!("FAIL C09 {}", r) } }
                _ => bad(),
            },
        },
        (["SIG", g, b, a], _) => match (b.parse::<u8>(), a.parse::<u32>()) {
            (Ok(b), Ok(a)) => l4::op_sig(g, b, a),
            _ => bad(),
        },
        (["SIGCMP", g, b1, a1, b2, a2], o) => match (b1.parse::<u8>(), a1.parse::<u32>(), b2.parse::<u8>(), a2.parse::<u32>()) {
            (Ok(b1), Ok(a1), Ok(b2), Ok(a2)) => if o { l4::oracle_sigcmp(g, b1, a1, b2, a2) } else { l4::op_sigcmp(g, b1, a1, b2, a2) },
            _ => bad(),
        },
        (["SERDESTR", kind, n, rest @ ..], o) => match n.parse::<usize>() {
            Ok(n) => if o { l4::oracle_serde_str(kind, n, rest) } else { l4::op_serde_str(kind, n, rest) },
            _ => bad(),
        },
        (["SERDEMSG", n, rest @ ..], _) => match n.parse::<u16>().ok().and_then(|n| l3::build_from_tokens(n, rest)) {
            Some(m) => match l4::serde_msg(&m) { Ok(()) => "PASS".into(), Err(e) => format!("FAIL C20 {}", e) },
            None => bad(),
        },
        (["SERDEFRAME", h], _) => match unhex(h) {
            Some(d) => match rtcm_rs::MessageFrame::new(&d) {
                Ok(f) => match l4::serde_msg(&f.get_message()) { Ok(()) => "PASS".into(), Err(e) => format!("FAIL C20 {}", e) },
                Err(_) => "PASS not a frame".into(),
            },
            None => bad(),
        },
        // sessions that also use build_generated_message: oracle only (the model answers BAD-OP as well)
        (["BUILDSEQG", rest @ ..], o) => if o { l3::oracle_buildseq_gen(rest) } else { "BAD-OP".into() },
        (["GROW", kind, k, rest @ ..], o) => match k.parse::<usize>() {
            Ok(k) => if o { l3::oracle_grow(kind, k, rest) } else { "BAD-OP".into() },
            _ => bad(),
        },
        (["BUILDREP", n, rest @ ..], o) => match n.parse::<usize>() {
            Ok(n) => l3::op_buildrep(n, rest, o),
            _ => bad(),
        },
        (["BUILDSEQ", rest @ ..], o) => if o { l3::oracle_buildseq(rest) } else { l3::op_buildseq(rest) },
        (["STR88591", n, rest @ ..], o) => match n.parse::<usize>() {
            Ok(n) => if o { l3::oracle_str88591(n, rest) } else { l3::op_str88591(n, rest) },
            _ => bad(),
        },
        (["ASTR", n, rest @ ..], o) => match n.parse::<usize>() {
            Ok(n) => if o { l3::oracle_astr(n, rest) } else { l3::op_astr(n, rest) },
            _ => bad(),
        },
        _ => bad(),
    }
}

fn main() {
    let oracle = std::env::args().any(|a| a == "--oracle");
    std::panic::set_hook(Box::new(|_| {}));
    let stdin = std::io::stdin();
    let stdout = std::io::stdout();
    let mut out = std::io::BufWriter::new(stdout.lock());
    for line in stdin.lock().lines() {
        let line = match line {
            Ok(l) => l,
            Err(_) => break,
        };
        let r = catch_unwind(AssertUnwindSafe(|| handle(&line, oracle)));
        let s = match r {
            Ok(s) => s,
            Err(e) => {
                let msg = if let Some(s) = e.downcast_ref::<&str>() {
                    s.to_string()
                } else if let Some(s) = e.downcast_ref::<String>() {
                    s.clone()
                } else {
                    "?".to_string()
                };
                if oracle {
                    format!("FAIL PANIC {}", msg.replace('\n', " "))
                } else {
                    "PANIC".to_string()
                }
            }
        };
        writeln!(out, "{}", s).unwrap();
    }
}
