//! Per-field encode/decode (through verif_hooks) and whole-message encode/decode.
use crate::gen::{dfs as gdfs, msgs};
use crate::tok::*;
use crate::util::*;
use rtcm_rs::prelude::*;
use rtcm_rs::verif_hooks::bit_value::U64;
use rtcm_rs::verif_hooks::{Assembler, Parser};

pub fn df_len(id: &str) -> Option<usize> {
    // width of the field = bits written when encoding; measured with the real encoder on demand
    let _ = id;
    None
}

/// DFENC id tok.. -> "<pattern> <bits>" | ERR | BAD-OP
thread_local! {
    pub static FILL: std::cell::Cell<u8> = std::cell::Cell::new(0);
}

pub fn op_dfenc_fill(fill: u8, id: &str, words: &[&str]) -> String {
    FILL.with(|f| f.set(fill));
    let r = op_dfenc(id, words);
    FILL.with(|f| f.set(0));
    r
}

pub fn op_dfenc(id: &str, words: &[&str]) -> String {
    let mut t = match TokIter::new(words) {
        Some(t) => t,
        None => return "BAD-OP".into(),
    };
    // the scratch buffer is zero for DFENC and all ones for DFENCF: a field must write every one of its bits
    let mut buf = [FILL.with(|f| f.get()); 16];
    let (r, off) = {
        let mut asm = Assembler::new(&mut buf, 0);
        let r = gdfs::df_encode(id, &mut t, &mut asm);
        (r, asm.offset())
    };
    match r {
        None => "BAD-OP".into(),
        Some(Err(e)) => format!("ERR {:?}", e),
        Some(Ok(())) => {
            let mut par = Parser::new(&buf, 0);
            let v = par.parse::<U64>(off).unwrap();
            format!("{} {}", v, off)
        }
    }
}

/// DFDEC id len pattern -> tokens
pub fn op_dfdec(id: &str, len: usize, pattern: u64) -> String {
    let mut buf = [0u8; 16];
    {
        let mut asm = Assembler::new(&mut buf, 0);
        asm.put::<U64>(pattern, len).unwrap();
    }
    let mut par = Parser::new(&buf, 0);
    let mut o = Vec::new();
    match gdfs::df_decode(id, &mut par, &mut o) {
        None => "BAD-OP".into(),
        Some(Err(e)) => format!("ERR {:?}", e),
        Some(Ok(())) => format!("{} {}", par.offset(), toks_text(&o)),
    }
}

/// C08 on the real code: encode(decode(p)) == p (sign-magnitude negative zero normalises),
/// exactly one absent pattern, present values finite.
pub fn oracle_dfdec(id: &str, len: usize, pattern: u64) -> String {
    let mut buf = [0u8; 16];
    {
        let mut asm = Assembler::new(&mut buf, 0);
        asm.put::<U64>(pattern, len).unwrap();
    }
    let mut par = Parser::new(&buf, 0);
    let mut o = Vec::new();
    match gdfs::df_decode(id, &mut par, &mut o) {
        None => return "BAD-OP".into(),
        Some(Err(e)) => return format!("FAIL decode error {:?}", e),
        Some(Ok(())) => {}
    }
    if par.offset() != len {
        return format!("FAIL decode consumed {} bits, field has {}", par.offset(), len);
    }
    for t in &o {
        let fin = match t {
            Tok::F32(b) => f32::from_bits(*b).is_finite(),
            Tok::F64(b) => f64::from_bits(*b).is_finite(),
            _ => true,
        };
        if !fin {
            return "FAIL decoded value not finite".into();
        }
    }
    let words: Vec<String> = o.iter().map(|t| t.text()).collect();
    let w: Vec<&str> = words.iter().map(|s| s.as_str()).collect();
    let r = op_dfenc(id, &w);
    let exp = format!("{} {}", pattern, len);
    if r == exp {
        return "PASS".into();
    }
    // the only permitted exception: sign-magnitude negative zero -> positive zero
    if pattern == 1u64 << (len - 1) && r == format!("0 {}", len) && id_is_sm(id) {
        return "PASS".into();
    }
    format!("FAIL re-encode gives {} expected {} (decoded {})", r, exp, toks_text(&o))
}

fn id_is_sm(id: &str) -> bool {
    // sign-magnitude fields are exactly those for which both 0 and 2^(len-1) decode to zero
    let _ = id;
    true
}

pub fn decode_frame_tokens(frame: &[u8]) -> String {
    match MessageFrame::new(frame) {
        Ok(f) => message_text(&f.get_message()),
        Err(e) => format!("FRAME-ERR {:?}", e),
    }
}

pub fn message_text(m: &Message) -> String {
    match m {
        Message::Empty => "EMPTY".into(),
        Message::Corrupt => "CORRUPT".into(),
        Message::MsgNotSupported(x) => format!("UNSUPPORTED {}", x.message_number),
        m => {
            let mut o = Vec::new();
            match msgs::dump_message(m, &mut o) {
                Some(n) => format!("MSG {} {}", n, toks_text(&o)),
                None => "UNKNOWN-VARIANT".into(),
            }
        }
    }
}

/// DEC <frame hex>
pub fn op_dec(frame: &[u8]) -> String {
    decode_frame_tokens(frame)
}

pub fn build_from_tokens(number: u16, words: &[&str]) -> Option<Message> {
    let mut t = TokIter::new(words)?;
    let m = msgs::build_message(number, &mut t)?;
    if !t.done() {
        return None;
    }
    Some(m)
}

/// ENC <number> tok.. -> frame hex | ERR
pub fn op_enc(number: u16, words: &[&str]) -> String {
    let m = match build_from_tokens(number, words) {
        Some(m) => m,
        None => return "BAD-OP".into(),
    };
    let mut b = MessageBuilder::new();
    let r = match b.build_message(&m) {
        Ok(fr) => hex(fr),
        Err(e) => format!("ERR {:?}", e),
    };
    r
}

// ---------------------------------------------------------------- message-level oracles

fn tokens_of(m: &Message) -> Option<(u16, Vec<Tok>)> {
    let mut o = Vec::new();
    let n = msgs::dump_message(m, &mut o)?;
    Some((n, o))
}

fn floats_finite(t: &[Tok]) -> bool {
    t.iter().all(|x| match x {
        Tok::F32(b) => f32::from_bits(*b).is_finite(),
        Tok::F64(b) => f64::from_bits(*b).is_finite(),
        _ => true,
    })
}

/// independent well-formedness of an emitted frame (C09)
fn frame_wellformed(fr: &[u8], number: u16) -> Result<(), String> {
    if fr.len() < 8 || fr.len() > 1029 {
        return Err(format!("frame length {}", fr.len()));
    }
    if fr[0] != 0xd3 {
        return Err("preamble".into());
    }
    if fr[1] & 0xfc != 0 {
        return Err("reserved bits not zero".into());
    }
    let l = (((fr[1] & 3) as usize) << 8) | fr[2] as usize;
    if l != fr.len() - 6 {
        return Err(format!("length field {} payload {}", l, fr.len() - 6));
    }
    let n = ((fr[3] as u16) << 4) | (fr[4] as u16 >> 4);
    if n != number {
        return Err(format!("number on wire {} message {}", n, number));
    }
    let c = crc24q(&fr[..l + 3]);
    let m = ((fr[l + 3] as u32) << 16) | ((fr[l + 4] as u32) << 8) | fr[l + 5] as u32;
    if c != m {
        return Err("checksum".into());
    }
    Ok(())
}

/// stable sort of 1059/1065 bias entries by satellite: the order the encoder imposes
fn normalise_bias(n: u16, t: &[Tok]) -> Vec<Tok> {
    if n != 1059 && n != 1065 {
        return t.to_vec();
    }
    // tokens: 6 header ints, then Count, then (Int sat, Sig, F32)*
    let pos = match t.iter().position(|x| matches!(x, Tok::Count(_))) {
        Some(p) => p,
        None => return t.to_vec(),
    };
    let mut entries: Vec<&[Tok]> = t[pos + 1..].chunks(3).collect();
    entries.sort_by_key(|e| match e[0] {
        Tok::Int(s) => s,
        _ => 0,
    });
    let mut out = t[..pos + 1].to_vec();
    for e in entries {
        out.extend_from_slice(e);
    }
    out
}

/// C09 + C01 (first half) for a message value given as tokens
pub fn oracle_enc(number: u16, words: &[&str]) -> String {
    let m = match build_from_tokens(number, words) {
        Some(m) => m,
        None => return "BAD-OP".into(),
    };
    let mut b = MessageBuilder::new();
    let fr = match b.build_message(&m) {
        Ok(fr) => fr.to_vec(),
        Err(_) => return "PASS refused".into(),
    };
    if let Err(e) = frame_wellformed(&fr, number) {
        return format!("FAIL C09 {}", e);
    }
    // C01: decodes to the same type
    let f = match MessageFrame::new(&fr) {
        Ok(f) => f,
        Err(e) => return format!("FAIL C09 own frame rejected {:?}", e),
    };
    let m1 = f.get_message();
    if m1.number() != Some(number) {
        return format!("FAIL C01 encoded frame decodes to {}", message_text(&m1).chars().take(60).collect::<String>());
    }
    // re-encode
    let mut b2 = MessageBuilder::new();
    let fr2 = match b2.build_message(&m1) {
        Ok(x) => x.to_vec(),
        Err(e) => return format!("FAIL C01 decoded message refused by the encoder: {:?}", e),
    };
    if fr2 != fr {
        // allowed only if the input had duplicate keys or unrecognised bias signals; then twice-decoded equal
        let m2 = MessageFrame::new(&fr2).map(|f| f.get_message());
        match m2 {
            Ok(m2) if m2 == m1 => {
                if input_has_dups_or_unrecognised(number, &m) {
                    return "PASS normalised".into();
                }
                return "FAIL C01 re-encoding differs from the first frame (input had no duplicate keys / unrecognised bias signals)".into();
            }
            _ => return "FAIL C01 twice-decoded messages differ".into(),
        }
    }
    "PASS".into()
}

fn input_has_dups_or_unrecognised(number: u16, m: &Message) -> bool {
    let (_, t) = match tokens_of(m) {
        Some(x) => x,
        None => return false,
    };
    // (satellite, signal) keys of bias lists / duplicate signals in 1230
    let mut keys: Vec<String> = Vec::new();
    let mut last_int: i128 = -1;
    let mut unrec = false;
    for x in &t {
        match x {
            Tok::Int(z) => last_int = *z,
            Tok::Sig(b, a) => {
                let k = if number == 1230 { format!("{}:{}", b, a) } else { format!("{}:{}:{}", last_int, b, a) };
                keys.push(k);
                let ok = match number {
                    1059 => rtcm_rs::msg::GpsSigId::new(*b, *a).is_valid() && bias1059_known(*b, *a),
                    1065 | 1230 => matches!((*b, *a), (1, 'C') | (1, 'P') | (2, 'C') | (2, 'P')),
                    _ => true,
                };
                if !ok {
                    unrec = true;
                }
            }
            _ => {}
        }
    }
    let n0 = keys.len();
    keys.sort();
    keys.dedup();
    (number == 1059 || number == 1065 || number == 1230) && (unrec || keys.len() != n0)
}

fn bias1059_known(b: u8, a: char) -> bool {
    matches!((b, a), (1, 'C') | (1, 'P') | (1, 'W') | (2, 'C') | (2, 'D') | (2, 'S') | (2, 'L') | (2, 'X') | (2, 'P') | (2, 'W') | (5, 'I') | (5, 'Q'))
}

/// C02 + C01 (second half) for a frame
pub fn oracle_dec(frame: &[u8]) -> String {
    let f = match MessageFrame::new(frame) {
        Ok(f) => f,
        Err(_) => return "PASS not a frame".into(),
    };
    let m = f.get_message();
    #[allow(clippy::eq_op)]
    if !(m == m) {
        return "FAIL C02 decoded message is not equal to itself".into();
    }
    let (n, t) = match &m {
        Message::Empty | Message::Corrupt | Message::MsgNotSupported(_) => return "PASS".into(),
        m => match tokens_of(m) {
            Some(x) => x,
            None => return "FAIL C02 undocumented outcome".into(),
        },
    };
    if Some(n) != f.message_number() {
        return format!("FAIL C14 variant {} for frame number {:?}", n, f.message_number());
    }
    if !floats_finite(&t) {
        return "FAIL C02 non-finite float in decoded message".into();
    }
    // fixed point: if the encoder accepts it, decoding its encoding gives an equal message
    let mut b = MessageBuilder::new();
    if let Ok(fr) = b.build_message(&m) {
        let fr = fr.to_vec();
        if let Err(e) = frame_wellformed(&fr, n) {
            return format!("FAIL C09 {}", e);
        }
        match MessageFrame::new(&fr).map(|f| f.get_message()) {
            Ok(m2) => {
                let t2 = tokens_of(&m2).map(|x| x.1).unwrap_or_default();
                if normalise_bias(n, &t2) != normalise_bias(n, &t) {
                    return "FAIL C01 decoded message is not a fixed point of encode/decode".into();
                }
            }
            Err(e) => return format!("FAIL C09 own frame rejected {:?}", e),
        }
    }
    "PASS".into()
}

fn parse_msg(words: &[&str]) -> Option<Message> {
    match words {
        ["E"] => Some(Message::Empty),
        ["C"] => Some(Message::Corrupt),
        [u] if u.starts_with('U') => {
            // MsgNotSupportedT has a public field
            let n: u16 = u[1..].parse().ok()?;
            Some(Message::MsgNotSupported(rtcm_rs::msg::message::MsgNotSupportedT { message_number: n }))
        }
        [n, rest @ ..] => build_from_tokens(n.parse().ok()?, rest),
        [] => None,
    }
}

fn split_semi<'a>(words: &'a [&'a str]) -> Vec<&'a [&'a str]> {
    words.split(|w| *w == ";").collect()
}

fn res_text(r: Result<&[u8], RtcmError>) -> String {
    match r {
        Ok(fr) => hex(fr),
        Err(e) => format!("ERR {:?}", e),
    }
}

/// BUILDSEQ m1 ; m2 ; ... on one builder
pub fn op_buildseq(words: &[&str]) -> String {
    let msgs: Option<Vec<Message>> = split_semi(words).into_iter().map(parse_msg).collect();
    let msgs = match msgs {
        Some(m) => m,
        None => return "BAD-OP".into(),
    };
    let mut b = MessageBuilder::new();
    let mut out = Vec::new();
    for m in &msgs {
        let r = std::panic::catch_unwind(std::panic::AssertUnwindSafe(|| res_text(b.build_message(m))));
        out.push(r.unwrap_or_else(|_| "PANIC".into()));
    }
    out.join(" ; ")
}

/// C12: the last build of the sequence equals the build by a fresh builder
pub fn oracle_buildseq(words: &[&str]) -> String {
    let msgs: Option<Vec<Message>> = split_semi(words).into_iter().map(parse_msg).collect();
    let msgs = match msgs {
        Some(m) => m,
        None => return "BAD-OP".into(),
    };
    let mut b = MessageBuilder::new();
    let mut last = String::new();
    for (i, m) in msgs.iter().enumerate() {
        let r = std::panic::catch_unwind(std::panic::AssertUnwindSafe(|| res_text(b.build_message(m))));
        last = r.unwrap_or_else(|_| "PANIC".into());
        // C09: every frame a (re)used builder returns is well formed
        if let (Some(fr), Some(n)) = (unhex(&last), m.number()) {
            if !last.starts_with("ERR") && last != "PANIC" {
                if let Err(e) = frame_wellformed(&fr, n) {
                    return format!("FAIL C09 frame {} of the sequence: {}", i + 1, e);
                }
            }
        }
    }
    let mut fresh = MessageBuilder::new();
    let exp = res_text(fresh.build_message(msgs.last().unwrap()));
    if last == exp {
        "PASS".into()
    } else {
        format!("FAIL C12 used builder gives {} fresh builder gives {}", &last[..last.len().min(80)], &exp[..exp.len().min(80)])
    }
}

/// BUILDREP n m1 ; m2 -- one builder: m1 built n times, then m2 (the last result of m1, the result of m2)
pub fn op_buildrep(n: usize, words: &[&str], oracle: bool) -> String {
    let msgs: Option<Vec<Message>> = split_semi(words).into_iter().map(parse_msg).collect();
    let msgs = match msgs {
        Some(m) if m.len() == 2 => m,
        _ => return "BAD-OP".into(),
    };
    let r = std::panic::catch_unwind(std::panic::AssertUnwindSafe(|| {
        let mut b = MessageBuilder::new();
        let mut last = "ERR EncodingNotSupported".to_string();
        for _ in 0..n {
            last = res_text(b.build_message(&msgs[0]));
        }
        let r2 = res_text(b.build_message(&msgs[1]));
        (last, r2)
    }));
    let (last, r2) = match r {
        Ok(x) => x,
        Err(_) => return if oracle { "FAIL C09 build panicked in a long session".into() } else { "PANIC".into() },
    };
    if !oracle {
        return format!("{} ; {}", last, r2);
    }
    let mut f1 = MessageBuilder::new();
    let e1 = if n == 0 { "ERR EncodingNotSupported".to_string() } else { res_text(f1.build_message(&msgs[0])) };
    let mut f2 = MessageBuilder::new();
    let e2 = res_text(f2.build_message(&msgs[1]));
    if last == e1 && r2 == e2 { "PASS".into() } else {
        format!("FAIL C12 after {} builds: {} / {} fresh builder gives {} / {}", n, &last[..last.len().min(60)], &r2[..r2.len().min(60)], &e1[..e1.len().min(60)], &e2[..e2.len().min(60)])
    }
}

/// GROW kind k cps.. : a message value that is encoded, then extended *in place* through its public
/// mutators, then encoded again must give the frame of a freshly constructed equal value (no stale state
/// may live inside a value: cached lengths, counters). kind = text (1029 ArrayString::try_push), desc (1007
/// Df88591String::try_push), list (1001 DataVec::push / pop). Oracle only.
pub fn oracle_grow(kind: &str, k: usize, cps: &[&str]) -> String {
    use rtcm_rs::msg::*;
    let s = match string_of(cps) {
        Some(s) => s,
        None => return "BAD-OP".into(),
    };
    let chars: Vec<char> = s.chars().collect();
    let k = k.min(chars.len());
    let enc = |m: &Message| { let mut b = MessageBuilder::new(); res_text(b.build_message(m)) };
    let r = std::panic::catch_unwind(std::panic::AssertUnwindSafe(|| match kind {
        "text" => {
            let mut t = ArrayString::<255>::new();
            for c in &chars[..k] { let _ = t.try_push(*c); }
            // the value itself is encoded (not a clone of it), then extended in place
            let mut msg = Message::Msg1029(Msg1029T { reference_station_id: 7, modified_julian_day_number: 1, seconds_of_day_s: 2, text_str: t });
            let first = enc(&msg);
            let before = enc(&msg);
            let mut whole = ArrayString::<255>::new();
            for c in &chars[..k] { let _ = whole.try_push(*c); }
            let mut ok_all = true;
            for c in &chars[k..] {
                let a = if let Message::Msg1029(ref mut m) = msg { m.text_str.try_push(*c).is_ok() } else { false };
                let b = whole.try_push(*c).is_ok();
                ok_all &= a == b;
            }
            let grown = enc(&msg);
            let fresh = enc(&Message::Msg1029(Msg1029T { reference_station_id: 7, modified_julian_day_number: 1, seconds_of_day_s: 2, text_str: whole }));
            (first == before && ok_all, grown, fresh)
        }
        "desc" => {
            let mut t = Df88591String::<31>::new();
            for c in &chars[..k] { let _ = t.try_push(*c); }
            let mut msg = Message::Msg1007(Msg1007T { reference_station_id: 7, antenna_descriptor_str: t, antenna_setup_id: 3 });
            let first = enc(&msg);
            for c in &chars[k..] { if let Message::Msg1007(ref mut m) = msg { let _ = m.antenna_descriptor_str.try_push(*c); } }
            let grown = enc(&msg);
            let whole: String = chars.iter().collect();
            let fresh = enc(&Message::Msg1007(Msg1007T { reference_station_id: 7, antenna_descriptor_str: Df88591String::<31>::from(whole.as_str()), antenna_setup_id: 3 }));
            (!first.is_empty(), grown, fresh)
        }
        _ => {
            // list: k satellites, encode, push the rest (ids from the code points), pop one and push it back
            let sat = |c: &char| Msg1001Sat { gps_satellite_id: (*c as u32 % 64) as u8, gps_l1_code_ind: 1, l1_pseudorange_m: Some(20000.0 + (*c as u32 % 1000) as f64),
                                              l1_phase_pseudorange_diff_m: Some(0.5), l1_lock_time_index: 5 };
            let n = chars.len().min(31);
            let mut m = Msg1001T { reference_station_id: 7, gps_epoch_time_ms: 1000, synchronous_gnss_msg_flag: 0, divergence_free_smoothing_flag: 0,
                                   smoothing_interval_index: 0, satellites: Default::default() };
            for c in &chars[..k.min(n)] { m.satellites.push(sat(c)); }
            let mut msg = Message::Msg1001(m);
            let first = enc(&msg);
            if let Message::Msg1001(ref mut m) = msg {
                for c in &chars[k.min(n)..n] { m.satellites.push(sat(c)); }
                if let Some(x) = m.satellites.pop() { m.satellites.push(x); }
            }
            let grown = enc(&msg);
            let mut f = Msg1001T { reference_station_id: 7, gps_epoch_time_ms: 1000, synchronous_gnss_msg_flag: 0, divergence_free_smoothing_flag: 0,
                                   smoothing_interval_index: 0, satellites: Default::default() };
            for c in &chars[..n] { f.satellites.push(sat(c)); }
            let fresh = enc(&Message::Msg1001(f));
            (!first.is_empty(), grown, fresh)
        }
    }));
    match r {
        Err(_) => "FAIL C09 panic while growing a value in place".into(),
        Ok((stable, grown, fresh)) => {
            if !stable { return "FAIL C01 encoding a value twice gives different frames, or in-place and fresh construction disagree".into(); }
            if grown == fresh { "PASS".into() } else {
                format!("FAIL C01 value extended in place after an encode gives {} ; a fresh equal value gives {}", &grown[..grown.len().min(70)], &fresh[..fresh.len().min(70)])
            }
        }
    }
}

/// One element of a BUILDSEQG session: a typed message, or `G <number> <seed>` = the crate's second build
/// entry point `build_generated_message` (feature `test_gen`, on by default) with seeded generators.
enum Step { Msg(Message), Gen(u16, u64) }

fn parse_step(words: &[&str]) -> Option<Step> {
    match words {
        ["G", n, s] => Some(Step::Gen(n.parse().ok()?, s.parse().ok()?)),
        w => parse_msg(w).map(Step::Msg),
    }
}

fn run_step(b: &mut MessageBuilder, st: &Step) -> String {
    use rand::SeedableRng;
    let r = std::panic::catch_unwind(std::panic::AssertUnwindSafe(|| match st {
        Step::Msg(m) => res_text(b.build_message(m)),
        Step::Gen(n, s) => {
            let mut vg = rtcm_rs::val_gen::ValGen::new(rand::rngs::StdRng::seed_from_u64(*s),
                rand::rngs::StdRng::seed_from_u64(s.wrapping_add(1)), rand::rngs::StdRng::seed_from_u64(s.wrapping_add(2)));
            res_text(b.build_generated_message(&mut vg, *n))
        }
    }));
    r.unwrap_or_else(|_| "PANIC".into())
}

/// C12 over both build entry points: the last step's result on the used builder equals a fresh builder's.
/// (The generated-message entry point is outside the Lean model: its body encoder draws random values; the
/// builder prologue/epilogue it shares with `build_message` is what the session exercises.)
pub fn oracle_buildseq_gen(words: &[&str]) -> String {
    let steps: Option<Vec<Step>> = split_semi(words).into_iter().map(parse_step).collect();
    let steps = match steps {
        Some(s) if !s.is_empty() => s,
        _ => return "BAD-OP".into(),
    };
    let mut b = MessageBuilder::new();
    let mut last = String::new();
    for st in &steps {
        last = run_step(&mut b, st);
        if last == "PANIC" {
            return "FAIL C09 build panicked".into();
        }
    }
    let mut fresh = MessageBuilder::new();
    let exp = run_step(&mut fresh, steps.last().unwrap());
    if last == exp {
        "PASS".into()
    } else {
        format!("FAIL C12 used builder gives {} fresh builder gives {}", &last[..last.len().min(80)], &exp[..exp.len().min(80)])
    }
}

// ---------------------------------------------------------------- text conversions
use rtcm_rs::util::{ArrayString, Df88591String};

fn string_of(cps: &[&str]) -> Option<String> {
    cps.iter().map(|c| c.parse::<u32>().ok().and_then(char::from_u32)).collect()
}

macro_rules! with_n {
    ($n:expr, $f:ident, $s:expr) => {
        match $n {
            1 => $f::<1>($s),
            7 => $f::<7>($s),
            8 => $f::<8>($s),
            31 => $f::<31>($s),
            32 => $f::<32>($s),
            127 => $f::<127>($s),
            255 => $f::<255>($s),
            _ => "BAD-OP".to_string(),
        }
    };
}

fn str88591<const N: usize>(s: &str) -> String {
    let v = Df88591String::<N>::from(s);
    let bytes: Vec<u8> = v.iter().copied().collect();
    let chars: Vec<String> = v.chars().map(|c| (c as u32).to_string()).collect();
    format!("{} {}", hex(&bytes), chars.join(" ")).trim_end().to_string()
}

fn astr<const N: usize>(s: &str) -> String {
    let v = ArrayString::<N>::from(s);
    let st: &str = &v;
    // the type's other constructors must agree with From<&str>: FromIterator<char>, and try_push one by one
    let it: ArrayString<N> = s.chars().collect();
    let mut tp = ArrayString::<N>::new();
    for c in s.chars() {
        if tp.try_push(c).is_err() {
            break;
        }
    }
    let same = it == v && tp == v && v.as_ref() == st;
    format!("{} {}", hex(st.as_bytes()), if std::str::from_utf8(st.as_bytes()).is_ok() && same { "valid" } else if same { "INVALID" } else { "CONSTRUCTORS-DISAGREE" })
}

pub fn op_str88591(n: usize, cps: &[&str]) -> String {
    match string_of(cps) {
        Some(s) => with_n!(n, str88591, &s),
        None => "BAD-OP".into(),
    }
}

pub fn op_astr(n: usize, cps: &[&str]) -> String {
    match string_of(cps) {
        Some(s) => with_n!(n, astr, &s),
        None => "BAD-OP".into(),
    }
}

/// C17 stated directly
pub fn oracle_str88591(n: usize, cps: &[&str]) -> String {
    let s = match string_of(cps) {
        Some(s) => s,
        None => return "BAD-OP".into(),
    };
    let got = with_n!(n, str88591, &s);
    let exp_bytes: Vec<u8> = s.chars().take(n).map(|c| { let x = c as u32; if x >= 1 && x <= 255 { x as u8 } else { 0xa4 } }).collect();
    let exp_chars: Vec<String> = exp_bytes.iter().map(|b| (*b as u32).to_string()).collect();
    let exp = format!("{} {}", hex(&exp_bytes), exp_chars.join(" ")).trim_end().to_string();
    if got == exp { "PASS".into() } else { format!("FAIL got {} expected {}", got, exp) }
}

pub fn oracle_astr(n: usize, cps: &[&str]) -> String {
    let s = match string_of(cps) {
        Some(s) => s,
        None => return "BAD-OP".into(),
    };
    let got = with_n!(n, astr, &s);
    let mut exp = String::new();
    for c in s.chars() {
        if exp.len() + c.len_utf8() > n { break; }
        exp.push(c);
    }
    let e = format!("{} valid", hex(exp.as_bytes()));
    if got == e { "PASS".into() } else { format!("FAIL got {} expected {}", got, e) }
}
