//! Per-field encode/decode (through verif_hooks) and whole-message encode/decode.
use crate::gen::{dfs as gdfs, msgs};
use crate::tok::*;
use crate::util::*;
use rtcm_rs::prelude::*;
use rtcm_rs::verif_hooks::bit_value::U64;
use rtcm_rs::verif_hooks::{Assembler, Parser};

pub fn df_len(id: &str) -> Option<usize> {
    // width of the field = bits written when encoding; measured with the real encoder on demand
    let _ = id;
    None
}

/// DFENC id tok.. -> "<pattern> <bits>" | ERR | BAD-OP
pub fn op_dfenc(id: &str, words: &[&str]) -> String {
    let mut t = match TokIter::new(words) {
        Some(t) => t,
        None => return "BAD-OP".into(),
    };
    let mut buf = [0u8; 16];
    let (r, off) = {
        let mut asm = Assembler::new(&mut buf, 0);
        let r = gdfs::df_encode(id, &mut t, &mut asm);
        (r, asm.offset())
    };
    match r {
        None => "BAD-OP".into(),
        Some(Err(e)) => format!("ERR {:?}", e),
        Some(Ok(())) => {
            let mut par = Parser::new(&buf, 0);
            let v = par.parse::<U64>(off).unwrap();
            format!("{} {}", v, off)
        }
    }
}

/// DFDEC id len pattern -> tokens
pub fn op_dfdec(id: &str, len: usize, pattern: u64) -> String {
    let mut buf = [0u8; 16];
    {
        let mut asm = Assembler::new(&mut buf, 0);
        asm.put::<U64>(pattern, len).unwrap();
    }
    let mut par = Parser::new(&buf, 0);
    let mut o = Vec::new();
    match gdfs::df_decode(id, &mut par, &mut o) {
        None => "BAD-OP".into(),
        Some(Err(e)) => format!("ERR {:?}", e),
        Some(Ok(())) => format!("{} {}", par.offset(), toks_text(&o)),
    }
}

/// C08 on the real code: encode(decode(p)) == p (sign-magnitude negative zero normalises),
/// exactly one absent pattern, present values finite.
pub fn oracle_dfdec(id: &str, len: usize, pattern: u64) -> String {
    let mut buf = [0u8; 16];
    {
        let mut asm = Assembler::new(&mut buf, 0);
        asm.put::<U64>(pattern, len).unwrap();
    }
    let mut par = Parser::new(&buf, 0);
    let mut o = Vec::new();
    match gdfs::df_decode(id, &mut par, &mut o) {
        None => return "BAD-OP".into(),
        Some(Err(e)) => return format!("FAIL decode error {:?}", e),
        Some(Ok(())) => {}
    }
    if par.offset() != len {
        return format!("FAIL decode consumed {} bits, field has {}", par.offset(), len);
    }
    for t in &o {
        let fin = match t {
            Tok::F32(b) => f32::from_bits(*b).is_finite(),
            Tok::F64(b) => f64::from_bits(*b).is_finite(),
            _ => true,
        };
        if !fin {
            return "FAIL decoded value not finite".into();
        }
    }
    let words: Vec<String> = o.iter().map(|t| t.text()).collect();
    let w: Vec<&str> = words.iter().map(|s| s.as_str()).collect();
    let r = op_dfenc(id, &w);
    let exp = format!("{} {}", pattern, len);
    if r == exp {
        return "PASS".into();
    }
    // the only permitted exception: sign-magnitude negative zero -> positive zero
    if pattern == 1u64 << (len - 1) && r == format!("0 {}", len) && id_is_sm(id) {
        return "PASS".into();
    }
    format!("FAIL re-encode gives {} expected {} (decoded {})", r, exp, toks_text(&o))
}

fn id_is_sm(id: &str) -> bool {
    // sign-magnitude fields are exactly those for which both 0 and 2^(len-1) decode to zero
    let _ = id;
    true
}

pub fn decode_frame_tokens(frame: &[u8]) -> String {
    match MessageFrame::new(frame) {
        Ok(f) => message_text(&f.get_message()),
        Err(e) => format!("FRAME-ERR {:?}", e),
    }
}

pub fn message_text(m: &Message) -> String {
    match m {
        Message::Empty => "EMPTY".into(),
        Message::Corrupt => "CORRUPT".into(),
        Message::MsgNotSupported(x) => format!("UNSUPPORTED {}", x.message_number),
        m => {
            let mut o = Vec::new();
            match msgs::dump_message(m, &mut o) {
                Some(n) => format!("MSG {} {}", n, toks_text(&o)),
                None => "UNKNOWN-VARIANT".into(),
            }
        }
    }
}

/// DEC <frame hex>
pub fn op_dec(frame: &[u8]) -> String {
    decode_frame_tokens(frame)
}

pub fn build_from_tokens(number: u16, words: &[&str]) -> Option<Message> {
    let mut t = TokIter::new(words)?;
    let m = msgs::build_message(number, &mut t)?;
    if !t.done() {
        return None;
    }
    Some(m)
}

/// ENC <number> tok.. -> frame hex | ERR
pub fn op_enc(number: u16, words: &[&str]) -> String {
    let m = match build_from_tokens(number, words) {
        Some(m) => m,
        None => return "BAD-OP".into(),
    };
    let mut b = MessageBuilder::new();
    let r = match b.build_message(&m) {
        Ok(fr) => hex(fr),
        Err(e) => format!("ERR {:?}", e),
    };
    r
}
