import Rtcm.Driver

partial def loop (checked : Bool) (h : IO.FS.Stream) (out : IO.FS.Stream) : IO Unit := do
  let line ← h.getLine
  if line.isEmpty then return ()
  out.putStrLn (Rtcm.Driver.handle checked line)
  loop checked h out

def main (args : List String) : IO Unit := do
  let stdin ← IO.getStdin
  let stdout ← IO.getStdout
  loop (args.contains "--checked") stdin stdout
