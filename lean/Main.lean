import Rtcm.Driver

partial def loop (h : IO.FS.Stream) (out : IO.FS.Stream) : IO Unit := do
  let line ← h.getLine
  if line.isEmpty then return ()
  out.putStrLn (Rtcm.Driver.handle line)
  loop h out

def main : IO Unit := do
  let stdin ← IO.getStdin
  let stdout ← IO.getStdout
  loop stdin stdout
