-- Root of the `Rtcm` library: model, generated tables, proofs, property theorems.
import Rtcm.Model.Basic
import Rtcm.Model.Crc
import Rtcm.Model.Frame
import Rtcm.Model.Scan
