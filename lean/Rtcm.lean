-- Root of the `Rtcm` library: model, generated tables, proofs, property theorems, driver.
import Rtcm.Driver
import Rtcm.Props.C03
import Rtcm.Props.C05
import Rtcm.Props.C06
import Rtcm.Props.C13
