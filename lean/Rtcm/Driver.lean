import Rtcm.Model.Scan
import Rtcm.Model.Bits
import Rtcm.Model.TokText
import Rtcm.Gen.DfTable
import Rtcm.Model.Message
import Rtcm.Model.Serde
import Rtcm.Gen.Messages
/-!
Line-protocol driver for the correspondence check: one operation per input line, one canonical
answer line per operation. Import-free below (no Mathlib) so that it links as an executable.
-/
namespace Rtcm.Driver
open Rtcm

def frameAttrs (f : Frame) : String :=
  s!"{f.frameLen} {f.dataLen} {f.crc} " ++
  (match f.number with | some n => toString n | none => "-") ++ " " ++ hexOrDash f.data

def opFrame (d : List UInt8) : String :=
  match frameNew d with
  | .ok f => "OK " ++ frameAttrs f
  | .error .incomplete => "INCOMPLETE"
  | .error .notValid => "NOTVALID"

def opScan (d : List UInt8) : String :=
  match scan d with
  | (c, some f) => s!"{c} OK " ++ frameAttrs f ++ " " ++ hexOrDash f.frameData
  | (c, none) => s!"{c} NONE"

/-- `BIGFRAME total hex` / `BIGSCAN total hex`: the slice is `hex` followed by zero bytes up to `total` bytes
(gigabytes). `frameNew d` reads `d.length` only to compare it with 6 and with L+6 ≤ 1029, and otherwise
only `d.take (L+6)`; so it is the same function of `hex ++ zeros` capped at 1100 trailing zeros. `BIGSCAN`
is issued for slices that start with 0xD3 only: if the candidate at offset 0 is delivered or pending the
answer is that of the capped slice; if it is rejected the scan runs over zero bytes to the very end. -/
def bigSlice (total : Nat) (d : List UInt8) : List UInt8 :=
  d ++ List.replicate (min (total - d.length) 1100) 0

def opBigFrame (total : Nat) (d : List UInt8) : String :=
  if total < d.length then "BAD-OP" else opFrame (bigSlice total d)

def opBigScan (total : Nat) (d : List UInt8) : String :=
  if total < d.length then "BAD-OP"
  else match scan (bigSlice total d) with
    | (c, some f) => if c = f.frameLen then s!"{c} OK " ++ frameAttrs f ++ " " ++ hexOrDash f.frameData else "BAD-OP"
    | (0, none) => "0 NONE"
    | (_, none) => if d.drop 1 |>.all (· != 0xd3) then s!"{total} NONE" else "BAD-OP"

def opIter (d : List UInt8) : String :=
  let r := IterState.collect (d.length + 1) { data := d, index := 0 }
  -- the iterator is polled twice more after it ran dry: consumed() must not move, nothing may appear
  let p1 := r.2.next
  let p2 := p1.1.next
  s!"{r.2.index} {r.1.length}" ++ String.join (r.1.map fun f => " " ++ hexOrDash f.frameData) ++
    s!" | {p1.1.index}:{p1.2.isSome} {p2.1.index}:{p2.2.isSome}"

def opFeed (chunks : List (List UInt8)) : String :=
  let s := feedAll chunks
  s!"{s.consumed} {s.buf.length} {s.delivered.length}" ++
    String.join (s.delivered.map fun f => " " ++ hexOrDash f.frameData)

def flipBits (d : List UInt8) (bits : List Nat) : List UInt8 :=
  bits.foldl (fun acc b =>
    if b / 8 < acc.length then acc.set (b / 8) ((acc.getD (b / 8) 0) ^^^ (0x80 >>> (UInt8.ofNat (b % 8))))
    else acc) d

def opFlip (d : List UInt8) (bits : List Nat) : String :=
  let e := flipBits d bits
  opFrame e ++ " | " ++ opScan e

def parseNats (s : String) : Option (List Nat) := (s.splitOn ",").mapM String.toNat?

def parseSched (s : String) : Option (List StreamOp) :=
  (s.splitOn "|").mapM fun w =>
    if w == "s" then some StreamOp.scanOnce
    else if w.startsWith "a" then (bytesOfHex (w.drop 1).toString).map StreamOp.append
    else none

def opSched (ops : List StreamOp) : String :=
  let s := (ops.foldl StreamState.step .init).finish
  s!"{s.consumed} {s.buf.length} {s.delivered.length}" ++
    String.join (s.delivered.map fun f => " " ++ hexOrDash f.frameData)

def parseChunks (s : String) : Option (List (List UInt8)) :=
  (s.splitOn "|").mapM bytesOfHex

def parseKind : String → Option Bits.Kind
  | "U" => some .u | "I" => some .i | "SM" => some .sm | _ => none

def resStr {α} (f : α → String) : Res α → String
  | .ok a => f a
  | .err e => "ERR " ++ e.name
  | .panic _ => "PANIC"

def natBytes (d : List UInt8) : List Nat := d.map (·.toNat)
def bytesNat (d : List Nat) : List UInt8 := d.map UInt8.ofNat

def opPut (cfg : Cfg) (it : Bits.IT) (off len value : Nat) (buf : List UInt8) : String :=
  resStr (fun r => hexOrDash (bytesNat r.1) ++ s!" {r.2}") (Bits.put cfg it (natBytes buf) off value len)

def opParse (cfg : Cfg) (it : Bits.IT) (off len : Nat) (buf : List UInt8) : String :=
  resStr (fun r => s!"{r.1} {r.2}") (Bits.parse cfg it (natBytes buf) off len)

/-- `PARSESEQ off k1:w1,k2:w2,... hex`: ONE parser reads the fields in turn (64-bit carriers; kind u / i / s);
the answer lists the values and the final cursor, or the values so far and the error (the cursor of a failed
read does not move). History inside one `Parser` (look-ahead, cached bits) shows only here. -/
def parseSeq (cfg : Cfg) (buf : List Nat) : Nat → List (Bits.Kind × Nat) → List String → String
  | off, [], acc => " ".intercalate (acc.reverse ++ [toString off])
  | off, (k, w) :: rest, acc =>
    match Bits.parse cfg ⟨k, 64⟩ buf off w with
    | .ok (v, off') => parseSeq cfg buf off' rest (toString v :: acc)
    | .err e => " ".intercalate (acc.reverse ++ ["ERR " ++ e.name, toString off])
    | .panic _ => "PANIC"

/-- `PUTSEQ off hex k:w:v,...`: ONE assembler writes the fields in turn -/
def putSeq (cfg : Cfg) : List Nat → Nat → List (Bits.Kind × Nat × Nat) → String
  | buf, off, [] => hexOrDash (bytesNat buf) ++ s!" {off}"
  | buf, off, (k, w, v) :: rest =>
    match Bits.put cfg ⟨k, 64⟩ buf off v w with
    | .ok (buf', off') => putSeq cfg buf' off' rest
    | .err e => hexOrDash (bytesNat buf) ++ s!" {off} ERR " ++ e.name
    | .panic _ => "PANIC"

def parseKindLetter : String → Option Bits.Kind
  | "u" => some .u | "i" => some .i | "s" => some .sm | _ => none

def findDf (id : String) : Option Schema.DfSpec := Gen.dfTable.find? (·.id == id)

def zeroBuf : List Nat := List.replicate 16 0

def opDfEncFill (fill : Nat) (cfg : Cfg) (id : String) (ws : List String) : String :=
  match findDf id, parseToks ws with
  | some s, some ts =>
    match Df.encode cfg s ts { data := (List.replicate 16 fill), off := 0 } with
    | .ok (c, []) =>
      resStr (fun r => s!"{r.1} {c.off}") (Bits.parse cfg ⟨.u, 64⟩ c.data 0 c.off)
    | .ok (_, _) => "BAD-OP"
    | .err e => "ERR " ++ e.name
    | .panic w => if w.startsWith "tokens" then "BAD-OP" else "PANIC"
  | _, _ => "BAD-OP"

def opDfEnc (cfg : Cfg) (id : String) (ws : List String) : String := opDfEncFill 0 cfg id ws

def opDfDec (cfg : Cfg) (id : String) (len pattern : Nat) : String :=
  match findDf id with
  | some s =>
    match Bits.put cfg ⟨.u, 64⟩ zeroBuf 0 pattern len with
    | .ok (buf, _) =>
      resStr (fun r => s!"{r.2.off} " ++ toksText r.1) (Df.decode cfg s { data := buf, off := 0 })
    | _ => "BAD-OP"
  | none => "BAD-OP"

def msgText : Message.Msg → String
  | .empty => "EMPTY"
  | .corrupt => "CORRUPT"
  | .notSupported n => s!"UNSUPPORTED {n}"
  | .typed n ts => s!"MSG {n} " ++ toksText ts

def opDec (cfg : Cfg) (d : List UInt8) : String :=
  match frameNew d with
  | .ok f =>
    match Message.decodeFrame cfg Gen.messageTable f with
    | .ok m => msgText m
    | .err e => "ERR " ++ e.name
    | .panic _ => "PANIC"
  | .error .incomplete => "FRAME-ERR Incomplete"
  | .error .notValid => "FRAME-ERR NotValid"

def buildResText : Res (List Nat) → String
  | .ok fr => hexOrDash (bytesNat fr)
  | .err e => "ERR " ++ e.name
  | .panic w => if w.startsWith "tokens" then "BAD-OP" else "PANIC"

def parseMsg (ws : List String) : Option Message.Msg :=
  match ws with
  | ["E"] => some .empty
  | ["C"] => some .corrupt
  | [u] =>
    if u.startsWith "U" then (u.drop 1).toString.toNat?.map .notSupported
    else u.toNat?.map fun n => .typed n []
  | n :: rest =>
    match n.toNat?, parseToks rest with
    | some n, some ts => some (.typed n ts)
    | _, _ => none
  | [] => none

def opEnc (cfg : Cfg) (ws : List String) : String :=
  match parseMsg ws with
  | some m => buildResText (Message.Builder.new.build cfg Gen.messageTable Gen.sigTable_glo m).2
  | none => "BAD-OP"

def splitOnSemi (ws : List String) : List (List String) :=
  let r := ws.foldl (fun (acc : List (List String) × List String) w =>
    if w == ";" then (acc.2.reverse :: acc.1, []) else (acc.1, w :: acc.2)) ([], [])
  (r.2.reverse :: r.1).reverse

def opBuildSeq (cfg : Cfg) (ws : List String) : String :=
  match (splitOnSemi ws).mapM parseMsg with
  | some ms =>
    " ; ".intercalate ((Message.buildSeq cfg Gen.messageTable Gen.sigTable_glo .new ms).map buildResText)
  | none => "BAD-OP"

/-- one builder: `m1` built `n` times, then `m2`; the last result of `m1` and the result of `m2`
(long sessions: state that only shows after hundreds or tens of thousands of calls) -/
def buildRep (cfg : Cfg) (m1 : Message.Msg) : Nat → Message.Builder → Res (List Nat) →
    Message.Builder × Res (List Nat)
  | 0, b, last => (b, last)
  | k + 1, b, _ =>
    let r := b.build cfg Gen.messageTable Gen.sigTable_glo m1
    buildRep cfg m1 k r.1 r.2

def opBuildRep (cfg : Cfg) (n : Nat) (ws : List String) : String :=
  match (splitOnSemi ws).mapM parseMsg with
  | some [m1, m2] =>
    let r := buildRep cfg m1 n .new (.err .encodingNotSupported)
    let r2 := r.1.build cfg Gen.messageTable Gen.sigTable_glo m2
    buildResText r.2 ++ " ; " ++ buildResText r2.2
  | _ => "BAD-OP"

def parseNatsSp (ws : List String) : Option (List Nat) := ws.mapM String.toNat?

def handleCfg (cfg : Cfg) (toks : List String) : String :=
  match toks with
  | ["DEC", h] => match bytesOfHex h with | some d => opDec cfg d | none => "BAD-OP"
  | "DFENCF" :: id :: ws => opDfEncFill 255 cfg id ws
  | "ENC" :: ws => opEnc cfg ws
  | "ENCD" :: ws => opEnc cfg ws   -- the same value in containers with a history: equal values, equal frames
  | "BUILDSEQ" :: ws => opBuildSeq cfg ws
  | "BUILDREP" :: n :: ws => match n.toNat? with | some n => opBuildRep cfg n ws | none => "BAD-OP"
  | ["SIG", g, b, a] =>
    match Gen.sigTables.find? (·.1 == g), b.toNat?, a.toNat? with
    | some (_, t), some b, some a =>
      if b > 255 ∨ a > 0x10FFFF ∨ (0xD800 ≤ a ∧ a ≤ 0xDFFF) then "BAD-OP"
      else if Sig.isValid t b a then "valid" else "invalid"
    | _, _, _ => "BAD-OP"
  | ["SIGCMP", g, b1, a1, b2, a2] =>
    match Gen.sigTables.find? (·.1 == g), b1.toNat?, a1.toNat?, b2.toNat?, a2.toNat? with
    | some (_, t), some b1, some a1, some b2, some a2 =>
      let o := match Sig.cmp t (b1, a1) (b2, a2) with
        | .lt => "Less" | .eq => "Equal" | .gt => "Greater"
      let p := match Sig.partialCmp t (b1, a1) (b2, a2) with
        | some .lt => "Less" | some .eq => "Equal" | some .gt => "Greater" | none => "None"
      o ++ " " ++ p
    | _, _, _, _, _ => "BAD-OP"
  | "SERDESTR" :: kind :: n :: cps =>
    match n.toNat?, parseNatsSp cps with
    | some n, some cs =>
      if kind == "88591" then
        let v := Text.df88591From n cs
        let w := Serde.de88591 n (Serde.ser88591 v)
        hexOrDash (bytesNat w) ++ (if w == v then " EQ" else " NE")
      else
        let v := Text.arrayStringFrom n cs
        -- the characters the ArrayString holds: the longest fitting prefix of `cs`
        let held := cs.take ((List.range (cs.length + 1)).filter
          (fun k => ((cs.take k).flatMap Text.utf8Enc) == v)).head!
        let w := Serde.deAstr n (Serde.serAstr held)
        hexOrDash (bytesNat w) ++ (if w == v then " EQ" else " NE")
    | _, _ => "BAD-OP"
  | "STR88591" :: n :: cps =>
    match n.toNat?, parseNatsSp cps with
    | some n, some cs =>
      let v := Text.df88591From n cs
      if v.isEmpty then "-" else hexOrDash (bytesNat v) ++ " " ++
        " ".intercalate ((Text.df88591Chars v).map toString)
    | _, _ => "BAD-OP"
  | "ASTR" :: n :: cps =>
    match n.toNat?, parseNatsSp cps with
    | some n, some cs =>
      let b := Text.arrayStringFrom n cs
      hexOrDash (bytesNat b) ++ (if Text.validUtf8 b then " valid" else " INVALID")
    | _, _ => "BAD-OP"
  | "DFENC" :: id :: ws => opDfEnc cfg id ws
  | ["DFDEC", id, len, p] =>
    match len.toNat?, p.toNat? with
    | some len, some p => opDfDec cfg id len p
    | _, _ => "BAD-OP"
  | ["PUT", k, w, off, len, v, h] =>
    match parseKind k, w.toNat?, off.toNat?, len.toNat?, v.toNat?, bytesOfHex h with
    | some k, some w, some off, some len, some v, some d => opPut cfg ⟨k, w⟩ off len v d
    | _, _, _, _, _, _ => "BAD-OP"
  | ["SKIPPARSE", k, w, off, skip, len, h] =>
    -- `consume_bits(skip)` adds to the cursor and does nothing else (Parser::consume_bits)
    match parseKind k, w.toNat?, off.toNat?, skip.toNat?, len.toNat?, bytesOfHex h with
    | some k, some w, some off, some skip, some len, some d => opParse cfg ⟨k, w⟩ (off + skip) len d
    | _, _, _, _, _, _ => "BAD-OP"
  | ["PARSESEQ", off, fs, h] =>
    match off.toNat?, (fs.splitOn ",").mapM (fun f => match f.splitOn ":" with
        | [k, w] => match parseKindLetter k, w.toNat? with | some k, some w => some (k, w) | _, _ => none
        | _ => none), bytesOfHex h with
    | some off, some fl, some d => parseSeq cfg (natBytes d) off fl []
    | _, _, _ => "BAD-OP"
  | ["PUTSEQ", off, h, fs] =>
    match off.toNat?, bytesOfHex h, (fs.splitOn ",").mapM (fun f => match f.splitOn ":" with
        | [k, w, v] => match parseKindLetter k, w.toNat?, v.toNat? with | some k, some w, some v => some (k, w, v) | _, _, _ => none
        | _ => none) with
    | some off, some d, some fl => putSeq cfg (natBytes d) off fl
    | _, _, _ => "BAD-OP"
  | ["PARSE", k, w, off, len, h] =>
    match parseKind k, w.toNat?, off.toNat?, len.toNat?, bytesOfHex h with
    | some k, some w, some off, some len, some d => opParse cfg ⟨k, w⟩ off len d
    | _, _, _, _, _ => "BAD-OP"
  | _ => "BAD-OP"

def handle (checked : Bool) (line : String) : String :=
  match line.trimAscii.toString.splitOn " " with
  | ["FRAME", h] => match bytesOfHex h with | some d => opFrame d | none => "BAD-OP"
  | ["SCAN", h] => match bytesOfHex h with | some d => opScan d | none => "BAD-OP"
  | ["BIGFRAME", t, h] => match t.toNat?, bytesOfHex h with | some t, some d => opBigFrame t d | _, _ => "BAD-OP"
  | ["BIGSCAN", t, h] => match t.toNat?, bytesOfHex h with | some t, some d => opBigScan t d | _, _ => "BAD-OP"
  | ["ITER", h] => match bytesOfHex h with | some d => opIter d | none => "BAD-OP"
  | ["FEED", h] => match parseChunks h with | some cs => opFeed cs | none => "BAD-OP"
  | ["SCHED", h] => match parseSched h with | some ops => opSched ops | none => "BAD-OP"
  | ["FLIP", h, b] =>
    match bytesOfHex h, parseNats b with
    | some d, some bs => opFlip d bs
    | _, _ => "BAD-OP"
  | toks => handleCfg ⟨checked⟩ toks

end Rtcm.Driver
