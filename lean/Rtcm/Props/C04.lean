import Rtcm.Proofs.CrcErr
/-!
# C04  CRC-24Q detects single, double, odd-count and burst-≤24 errors; the scanner drops them

Model: `Rtcm.frameNew` (`MessageFrame::new`), `Rtcm.scan` (`next_msg_frame`), `Rtcm.crc24q`
(bit-serial remainder, generator 0x1864CFB).

A *valid frame* is a byte string `f` with `frameNew f = .ok x` and `f.length = x.frameLen`
(nothing follows the frame), hence `f.length = lenField f + 6 ≤ 1029`.

An *error pattern* is a bit string `e` with one bit per bit of `f` (bit 0 is the most significant
bit of byte 0); `applyErr f e` flips exactly the bits of `f` at which `e` is `true`
(`applyErr_flips`). `Admissible f.length e` says that `e` has `8 * f.length` bits and leaves the
preamble (bits 0..7) and the 10-bit length field (bits 14..23) alone, so that it touches only the
six reserved header bits (8..13), the payload and the checksum (`admissible_iff`).

The number of flipped bits is `e.count true`. A burst is a non-zero pattern whose set bits all lie
in a window `[k, k+24)`.
-/
namespace Rtcm.C04

/-- Meaning of `applyErr`: same length, and bit `j` (LSB = 0) of byte `i` is flipped exactly when
the pattern is set at bit position `8*i + (7-j)` of the frame. -/
theorem applyErr_flips (f : List UInt8) (e : List Bool) (he : e.length = 8 * f.length) :
    (applyErr f e).length = f.length ∧
    bitsOfBytes (applyErr f e) = xorBits (bitsOfBytes f) e ∧
    ∀ i j, j < 8 →
      (byteAt (applyErr f e) i).testBit j
        = ((byteAt f i).testBit j != e.getD (8 * i + (7 - j)) false) :=
  ⟨length_applyErr f e he, bitsOfBytes_applyErr f e he,
   fun i j hj => testBit_byteAt_applyErr f e he i j hj⟩

/-- Admissibility in the words of the property: every flipped position is one of the six
reserved bits of byte 1 or lies in payload or checksum. -/
theorem admissible_iff (n : Nat) (e : List Bool) :
    Admissible n e ↔
      (e.length = 8 * n ∧ ∀ p, e.getD p false = true → (8 ≤ p ∧ p < 14) ∨ 24 ≤ p) := by
  unfold Admissible
  constructor
  · rintro ⟨hl, h⟩
    refine ⟨hl, fun p hp => ?_⟩
    by_cases h24 : p < 24
    · by_cases hc : p < 8 ∨ 14 ≤ p
      · rw [h p h24 hc] at hp; cases hp
      · omega
    · omega
  · rintro ⟨hl, h⟩
    refine ⟨hl, fun p h24 hc => ?_⟩
    cases hv : e.getD p false with
    | false => rfl
    | true => have := h p hv; omega

/-- An admissible alteration keeps length, preamble byte and length field. -/
theorem header_intact (f : List UInt8) (e : List Bool) (ha : Admissible f.length e) :
    (applyErr f e).length = f.length ∧ byteAt (applyErr f e) 0 = byteAt f 0 ∧
      lenField (applyErr f e) = lenField f :=
  ⟨length_applyErr f e ha.1, byteAt0_applyErr f e ha, lenField_applyErr f e ha⟩

/-- The altered frame is accepted iff the error pattern, read as a polynomial, is a multiple of
the generator; otherwise it is rejected as not valid (it is never "incomplete"). -/
theorem altered_accepted_iff (f : List UInt8) (x : Frame) (e : List Bool)
    (hv : frameNew f = .ok x) (hl : f.length = x.frameLen) (ha : Admissible f.length e) :
    ((∃ y, frameNew (applyErr f e) = .ok y) ↔ crcRem 0 e = 0) ∧
    (frameNew (applyErr f e) = .error .notValid ↔ crcRem 0 e ≠ 0) :=
  applyErr_outcome f x e hv hl ha

/-- Any odd number of flipped bits is detected (the generator is divisible by x + 1). -/
theorem odd_flips_rejected (f : List UInt8) (x : Frame) (e : List Bool)
    (hv : frameNew f = .ok x) (hl : f.length = x.frameLen) (ha : Admissible f.length e)
    (hodd : e.count true % 2 = 1) :
    frameNew (applyErr f e) = .error .notValid :=
  (applyErr_outcome f x e hv hl ha).2.mpr (crcRem_odd_ne_zero e hodd)

/-- One flipped bit is detected. -/
theorem single_flip_rejected (f : List UInt8) (x : Frame) (e : List Bool)
    (hv : frameNew f = .ok x) (hl : f.length = x.frameLen) (ha : Admissible f.length e)
    (hone : e.count true = 1) :
    frameNew (applyErr f e) = .error .notValid :=
  odd_flips_rejected f x e hv hl ha (by rw [hone])

/-- Any two flipped bits are detected (x^k ≠ 1 modulo the generator for 1 ≤ k ≤ 8400, and a frame
has at most 8232 bits). -/
theorem double_flip_rejected (f : List UInt8) (x : Frame) (e : List Bool)
    (hv : frameNew f = .ok x) (hl : f.length = x.frameLen) (ha : Admissible f.length e)
    (htwo : e.count true = 2) :
    frameNew (applyErr f e) = .error .notValid := by
  have hb := (valid_facts f x hv hl).2.2.1
  have hlen : e.length ≤ 8400 := by rw [ha.1]; omega
  exact (applyErr_outcome f x e hv hl ha).2.mpr (crcRem_count_two_ne_zero e hlen htwo)

/-- Any burst of at most 24 bits is detected: at least one bit is flipped and all flipped bits lie
in a window `[k, k+24)`. -/
theorem burst_le24_rejected (f : List UInt8) (x : Frame) (e : List Bool)
    (hv : frameNew f = .ok x) (hl : f.length = x.frameLen) (ha : Admissible f.length e)
    (hne : true ∈ e) (k : Nat)
    (hwin : ∀ p, p < e.length → e.getD p false = true → k ≤ p ∧ p < k + 24) :
    frameNew (applyErr f e) = .error .notValid := by
  refine (applyErr_outcome f x e hv hl ha).2.mpr (crcRem_window_ne_zero e k hne fun p hp => ?_)
  by_cases hpl : p < e.length
  · exact hwin p hpl hp
  · rw [List.getD_eq_getElem?_getD, List.getElem?_eq_none (by omega)] at hp
    cases hp

/-- A rejected candidate `f'` at the head of the buffer is not delivered, whatever follows it:
if the scanner delivers a frame at all, that frame starts at an index `i > 0` (the scanner has
moved past the first byte of `f'`), and its bytes are not `f'`. -/
theorem scanner_never_delivers_it (f' : List UInt8) (hrej : frameNew f' = .error .notValid)
    (tail : List UInt8) (c : Nat) (g : Frame) (hs : scan (f' ++ tail) = (c, some g)) :
    (∃ i, 0 < i ∧ c = i + g.frameLen ∧ frameNew ((f' ++ tail).drop i) = .ok g) ∧
      g.frameData ≠ f' := by
  constructor
  · obtain ⟨i, _, _, hok, hc, _⟩ := scan_some _ c g hs
    refine ⟨i, ?_, hc, hok⟩
    cases i with
    | zero =>
      rw [List.drop_zero, frameNew_append_notValid f' tail hrej] at hok
      cases hok
    | succ i => omega
  · intro he
    have := scan_delivers_valid _ c g hs
    rw [he, hrej] at this
    cases this

/-- Wherever the rejected bytes sit in a buffer, no delivered frame consists of them. -/
theorem never_delivered_from_any_buffer (f' : List UInt8) (hrej : frameNew f' = .error .notValid)
    (buf : List UInt8) (c : Nat) (g : Frame) (hs : scan buf = (c, some g)) :
    g.frameData ≠ f' := by
  intro he
  have := scan_delivers_valid buf c g hs
  rw [he, hrej] at this
  cases this

/-- C04 in one statement: an admissible alteration of a valid frame by one bit, two bits, an odd
number of bits or a burst of at most 24 bits is rejected as not valid, the scanner run on it (with
anything appended) does not deliver a frame starting at its first byte, and no scan of any buffer
delivers it. -/
theorem altered_frame_rejected_and_dropped (f : List UInt8) (x : Frame) (e : List Bool)
    (hv : frameNew f = .ok x) (hl : f.length = x.frameLen) (ha : Admissible f.length e)
    (hshape : e.count true = 1 ∨ e.count true = 2 ∨ e.count true % 2 = 1 ∨
      (true ∈ e ∧ ∃ k, ∀ p, p < e.length → e.getD p false = true → k ≤ p ∧ p < k + 24)) :
    frameNew (applyErr f e) = .error .notValid ∧
    (∀ tail c g, scan (applyErr f e ++ tail) = (c, some g) →
      ∃ i, 0 < i ∧ c = i + g.frameLen ∧ frameNew ((applyErr f e ++ tail).drop i) = .ok g) ∧
    (∀ buf c g, scan buf = (c, some g) → g.frameData ≠ applyErr f e) := by
  have hrej : frameNew (applyErr f e) = .error .notValid := by
    rcases hshape with h | h | h | ⟨h, k, hk⟩
    · exact single_flip_rejected f x e hv hl ha h
    · exact double_flip_rejected f x e hv hl ha h
    · exact odd_flips_rejected f x e hv hl ha h
    · exact burst_le24_rejected f x e hv hl ha h k hk
  exact ⟨hrej,
    fun tail c g hs => (scanner_never_delivers_it _ hrej tail c g hs).1,
    fun buf c g hs => never_delivered_from_any_buffer _ hrej buf c g hs⟩

/-! Non-vacuity on the 9-byte frame `mkFrame 0 [0x3e, 0xd0, 0x00]` (72 bits). `flipAt 72 ps` is
the pattern set exactly at the positions `ps`. -/

/-- the frame is valid in the sense of the hypotheses -/
example : frameNew (mkFrame 0 [0x3e, 0xd0, 0x00]) = .ok (mkFrameResult 0 [0x3e, 0xd0, 0x00]) ∧
    (mkFrame 0 [0x3e, 0xd0, 0x00]).length = (mkFrameResult 0 [0x3e, 0xd0, 0x00]).frameLen := by
  decide +kernel

/-- one reserved bit: admissible, weight 1, and the model evaluates to the predicted verdict -/
example : Admissible 9 (flipAt 72 [8]) ∧ (flipAt 72 [8]).count true = 1 ∧
    frameNew (applyErr (mkFrame 0 [0x3e, 0xd0, 0x00]) (flipAt 72 [8])) = .error .notValid := by
  decide +kernel

/-- two bits, one in the payload and the last checksum bit -/
example : Admissible 9 (flipAt 72 [30, 71]) ∧ (flipAt 72 [30, 71]).count true = 2 ∧
    frameNew (applyErr (mkFrame 0 [0x3e, 0xd0, 0x00]) (flipAt 72 [30, 71])) = .error .notValid := by
  decide +kernel

/-- a 24-bit burst over payload and checksum (four bits set, window [40, 64)): every hypothesis of
`burst_le24_rejected` is discharged by evaluation -/
example : frameNew (applyErr (mkFrame 0 [0x3e, 0xd0, 0x00]) (flipAt 72 [40, 45, 50, 63]))
    = .error .notValid :=
  burst_le24_rejected (mkFrame 0 [0x3e, 0xd0, 0x00]) (mkFrameResult 0 [0x3e, 0xd0, 0x00])
    (flipAt 72 [40, 45, 50, 63]) (by decide +kernel) (by decide +kernel) (by decide +kernel)
    (by decide +kernel) 40 (by decide +kernel)

/-- the scanner on the frame with one reserved bit flipped: all 9 bytes consumed, nothing
delivered -/
example : scan (applyErr (mkFrame 0 [0x3e, 0xd0, 0x00]) (flipAt 72 [8])) = (9, none) := by
  decide +kernel

/-- a flip inside the length field is outside the property -/
example : ¬ Admissible 9 (flipAt 72 [20]) := by decide +kernel

/-- The bound 24 is sharp: the generator itself, a 25-bit burst of weight 14 laid over the payload,
is admissible, has zero remainder, and the altered frame is accepted. -/
example :
    let e := flipAt 72 [24, 25, 30, 31, 34, 37, 38, 41, 42, 43, 44, 45, 47, 48]
    Admissible 9 e ∧ e.count true = 14 ∧ crcRem 0 e = 0 ∧
      (match frameNew (applyErr (mkFrame 0 [0x3e, 0xd0, 0x00]) e) with
        | .ok _ => true | .error _ => false) = true := by
  decide +kernel

end Rtcm.C04
