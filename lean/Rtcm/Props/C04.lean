import Rtcm.Proofs.CrcErr
/-!
# C04  CRC-24Q detects single, double, odd-count and burst-≤24 errors; the scanner drops them

Model: `Rtcm.frameNew` (`MessageFrame::new`), `Rtcm.scan` (`next_msg_frame`), `Rtcm.crc24q`
(bit-serial remainder, generator 0x1864CFB).

A *valid frame* is a byte string `f` with `frameNew f = .ok x` and `f.length = x.frameLen`
(nothing follows the frame), hence `f.length = lenField f + 6 ≤ 1029`.

An *error pattern* is a bit string `e` with one bit per bit of `f` (bit 0 is the most significant
bit of byte 0); `applyErr f e` flips exactly the bits of `f` at which `e` is `true`
(`applyErr_flips`). `Admissible f.length e` says that `e` has `8 * f.length` bits and leaves the
preamble (bits 0..7) and the 10-bit length field (bits 14..23) alone, so that it touches only the
six reserved header bits (8..13), the payload and the checksum (`admissible_iff`).

The number of flipped bits is `e.count true`. A burst is a non-zero pattern whose set bits all lie
in a window `[k, k+24)`.
-/
namespace Rtcm.C04

/-- Meaning of `applyErr`: same length, and bit `j` (LSB = 0) of byte `i` is flipped exactly when
the pattern is set at bit position `8*i + (7-j)` of the frame. -/
theorem applyErr_flips (f : List UInt8) (e : List Bool) (he : e.length = 8 * f.length) :
    (applyErr f e).length = f.length ∧
    bitsOfBytes (applyErr f e) = xorBits (bitsOfBytes f) e ∧
    ∀ i j, j < 8 →
      (byteAt (applyErr f e) i).testBit j
        = ((byteAt f i).testBit j != e.getD (8 * i + (7 - j)) false) :=
  ⟨length_applyErr f e he, bitsOfBytes_applyErr f e he,
   fun i j hj => testBit_byteAt_applyErr f e he i j hj⟩

/-- Admissibility in the words of the property: every flipped position is one of the six
reserved bits of byte 1 or lies in payload or checksum. -/
theorem admissible_iff (n : Nat) (e : List Bool) :
    Admissible n e ↔
      (e.length = 8 * n ∧ ∀ p, e.getD p false = true → (8 ≤ p ∧ p < 14) ∨ 24 ≤ p) := by
  unfold Admissible
  constructor
  · rintro ⟨hl, h⟩
    refine ⟨hl, fun p hp => ?_⟩
    by_cases h24 : p < 24
    · by_cases hc : p < 8 ∨ 14 ≤ p
      · rw [h p h24 hc] at hp; cases hp
      · omega
    · omega
  · rintro ⟨hl, h⟩
    refine ⟨hl, fun p h24 hc => ?_⟩
    cases hv : e.getD p false with
    | false => rfl
    | true => have := h p hv; omega

/-- An admissible alteration keeps length, preamble byte and length field. -/
theorem header_intact (f : List UInt8) (e : List Bool) (ha : Admissible f.length e) :
    (applyErr f e).length = f.length ∧ byteAt (applyErr f e) 0 = byteAt f 0 ∧
      lenField (applyErr f e) = lenField f :=
  ⟨length_applyErr f e ha.1, byteAt0_applyErr f e ha, lenField_applyErr f e ha⟩

/-- The altered frame is accepted iff the error pattern, read as a polynomial, is a multiple of
the generator; otherwise it is rejected as not valid (it is never "incomplete"). -/
theorem altered_accepted_iff (f : List UInt8) (x : Frame) (e : List Bool)
    (hv : frameNew f = .ok x) (hl : f.length = x.frameLen) (ha : Admissible f.length e) :
    ((∃ y, frameNew (applyErr f e) = .ok y) ↔ crcRem 0 e = 0) ∧
    (frameNew (applyErr f e) = .error .notValid ↔ crcRem 0 e ≠ 0) :=
  applyErr_outcome f x e hv hl ha

/-- Any odd number of flipped bits is detected (the generator is divisible by x + 1). -/
theorem odd_flips_rejected (f : List UInt8) (x : Frame) (e : List Bool)
    (hv : frameNew f = .ok x) (hl : f.length = x.frameLen) (ha : Admissible f.length e)
    (hodd : e.count true % 2 = 1) :
    frameNew (applyErr f e) = .error .notValid :=
  (applyErr_outcome f x e hv hl ha).2.mpr (crcRem_odd_ne_zero e hodd)

/-- One flipped bit is detected. -/
theorem single_flip_rejected (f : List UInt8) (x : Frame) (e : List Bool)
    (hv : frameNew f = .ok x) (hl : f.length = x.frameLen) (ha : Admissible f.length e)
    (hone : e.count true = 1) :
    frameNew (applyErr f e) = .error .notValid :=
  odd_flips_rejected f x e hv hl ha (by rw [hone])

/-- Any two flipped bits are detected (x^k ≠ 1 modulo the generator for 1 ≤ k ≤ 8400, and a frame
has at most 8232 bits). -/
theorem double_flip_rejected (f : List UInt8) (x : Frame) (e : List Bool)
    (hv : frameNew f = .ok x) (hl : f.length = x.frameLen) (ha : Admissible f.length e)
    (htwo : e.count true = 2) :
    frameNew (applyErr f e) = .error .notValid := by
  have hb := (valid_facts f x hv hl).2.2.1
  have hlen : e.length ≤ 8400 := by rw [ha.1]; omega
  exact (applyErr_outcome f x e hv hl ha).2.mpr (crcRem_count_two_ne_zero e hlen htwo)

/-- Any burst of at most 24 bits is detected: at least one bit is flipped and all flipped bits lie
in a window `[k, k+24)`. -/
theorem burst_le24_rejected (f : List UInt8) (x : Frame) (e : List Bool)
    (hv : frameNew f = .ok x) (hl : f.length = x.frameLen) (ha : Admissible f.length e)
    (hne : true ∈ e) (k : Nat)
    (hwin : ∀ p, p < e.length → e.getD p false = true → k ≤ p ∧ p < k + 24) :
    frameNew (applyErr f e) = .error .notValid := by
  refine (applyErr_outcome f x e hv hl ha).2.mpr (crcRem_window_ne_zero e k hne fun p hp => ?_)
  by_cases hpl : p < e.length
  · exact hwin p hpl hp
  · rw [List.getD_eq_getElem?_getD, List.getElem?_eq_none (by omega)] at hp
    cases hp

/-- A rejected candidate `f'` at the head of the buffer is not delivered, whatever follows it:
if the scanner delivers a frame at all, that frame starts at an index `i > 0` (the scanner has
moved past the first byte of `f'`), and its bytes are not `f'`. -/
theorem scanner_never_delivers_it (f' : List UInt8) (hrej : frameNew f' = .error .notValid)
    (tail : List UInt8) (c : Nat) (g : Frame) (hs : scan (f' ++ tail) = (c, some g)) :
    (∃ i, 0 < i ∧ c = i + g.frameLen ∧ frameNew ((f' ++ tail).drop i) = .ok g) ∧
      g.frameData ≠ f' := by
  constructor
  · obtain ⟨i, _, _, hok, hc, _⟩ := scan_some _ c g hs
    refine ⟨i, ?_, hc, hok⟩
    cases i with
    | zero =>
      rw [List.drop_zero, frameNew_append_notValid f' tail hrej] at hok
      cases hok
    | succ i => omega
  · intro he
    have := scan_delivers_valid _ c g hs
    rw [he, hrej] at this
    cases this

/-- Wherever the rejected bytes sit in a buffer, no delivered frame consists of them. -/
theorem never_delivered_from_any_buffer (f' : List UInt8) (hrej : frameNew f' = .error .notValid)
    (buf : List UInt8) (c : Nat) (g : Frame) (hs : scan buf = (c, some g)) :
    g.frameData ≠ f' := by
  intro he
  have := scan_delivers_valid buf c g hs
  rw [he, hrej] at this
  cases this

/-- C04 in one statement: an admissible alteration of a valid frame by one bit, two bits, an odd
number of bits or a burst of at most 24 bits is rejected as not valid, the scanner run on it (with
anything appended) does not deliver a frame starting at its first byte, and no scan of any buffer
delivers it. -/
theorem altered_frame_rejected_and_dropped (f : List UInt8) (x : Frame) (e : List Bool)
    (hv : frameNew f = .ok x) (hl : f.length = x.frameLen) (ha : Admissible f.length e)
    (hshape : e.count true = 1 ∨ e.count true = 2 ∨ e.count true % 2 = 1 ∨
      (true ∈ e ∧ ∃ k, ∀ p, p < e.length → e.getD p false = true → k ≤ p ∧ p < k + 24)) :
    frameNew (applyErr f e) = .error .notValid ∧
    (∀ tail c g, scan (applyErr f e ++ tail) = (c, some g) →
      ∃ i, 0 < i ∧ c = i + g.frameLen ∧ frameNew ((applyErr f e ++ tail).drop i) = .ok g) ∧
    (∀ buf c g, scan buf = (c, some g) → g.frameData ≠ applyErr f e) := by
  have hrej : frameNew (applyErr f e) = .error .notValid := by
    rcases hshape with h | h | h | ⟨h, k, hk⟩
    · exact single_flip_rejected f x e hv hl ha h
    · exact double_flip_rejected f x e hv hl ha h
    · exact odd_flips_rejected f x e hv hl ha h
    · exact burst_le24_rejected f x e hv hl ha h k hk
  exact ⟨hrej,
    fun tail c g hs => (scanner_never_delivers_it _ hrej tail c g hs).1,
    fun buf c g hs => never_delivered_from_any_buffer _ hrej buf c g hs⟩

/-! Non-vacuity on the 9-byte frame `mkFrame 0 [0x3e, 0xd0, 0x00]` (72 bits). `flipAt 72 ps` is
the pattern set exactly at the positions `ps`. -/

/-- the frame is valid in the sense of the hypotheses -/
example : frameNew (mkFrame 0 [0x3e, 0xd0, 0x00]) = .ok (mkFrameResult 0 [0x3e, 0xd0, 0x00]) ∧
    (mkFrame 0 [0x3e, 0xd0, 0x00]).length = (mkFrameResult 0 [0x3e, 0xd0, 0x00]).frameLen := by
  decide +kernel

/-- one reserved bit: admissible, weight 1, and the model evaluates to the predicted verdict -/
example : Admissible 9 (flipAt 72 [8]) ∧ (flipAt 72 [8]).count true = 1 ∧
    frameNew (applyErr (mkFrame 0 [0x3e, 0xd0, 0x00]) (flipAt 72 [8])) = .error .notValid := by
  decide +kernel

/-- two bits, one in the payload and the last checksum bit -/
example : Admissible 9 (flipAt 72 [30, 71]) ∧ (flipAt 72 [30, 71]).count true = 2 ∧
    frameNew (applyErr (mkFrame 0 [0x3e, 0xd0, 0x00]) (flipAt 72 [30, 71])) = .error .notValid := by
  decide +kernel

/-- a 24-bit burst over payload and checksum (four bits set, window [40, 64)): every hypothesis of
`burst_le24_rejected` is discharged by evaluation -/
example : frameNew (applyErr (mkFrame 0 [0x3e, 0xd0, 0x00]) (flipAt 72 [40, 45, 50, 63]))
    = .error .notValid :=
  burst_le24_rejected (mkFrame 0 [0x3e, 0xd0, 0x00]) (mkFrameResult 0 [0x3e, 0xd0, 0x00])
    (flipAt 72 [40, 45, 50, 63]) (by decide +kernel) (by decide +kernel) (by decide +kernel)
    (by decide +kernel) 40 (by decide +kernel)

/-- the scanner on the frame with one reserved bit flipped: all 9 bytes consumed, nothing
delivered -/
example : scan (applyErr (mkFrame 0 [0x3e, 0xd0, 0x00]) (flipAt 72 [8])) = (9, none) := by
  decide +kernel

/-- a flip inside the length field is outside the property -/
example : ¬ Admissible 9 (flipAt 72 [20]) := by decide +kernel

/-- The bound 24 is sharp: the generator itself, a 25-bit burst of weight 14 laid over the payload,
is admissible, has zero remainder, and the altered frame is accepted. -/
example :
    let e := flipAt 72 [24, 25, 30, 31, 34, 37, 38, 41, 42, 43, 44, 45, 47, 48]
    Admissible 9 e ∧ e.count true = 14 ∧ crcRem 0 e = 0 ∧
      (match frameNew (applyErr (mkFrame 0 [0x3e, 0xd0, 0x00]) e) with
        | .ok _ => true | .error _ => false) = true := by
  decide +kernel

/-! ## Minimum distance -/

/-- **The code's minimum distance over the protected region is at least 4**: every admissible
alteration of a valid frame in one, two or three bit positions (reserved bits, payload, checksum, in
any combination and at any distance from each other) is rejected as not valid. Weight 1 and 3 are odd
(`odd_flips_rejected`), weight 2 is `double_flip_rejected`. -/
theorem weight_le3_rejected (f : List UInt8) (x : Frame) (e : List Bool)
    (hv : frameNew f = .ok x) (hl : f.length = x.frameLen) (ha : Admissible f.length e)
    (hw : 1 ≤ e.count true ∧ e.count true ≤ 3) :
    frameNew (applyErr f e) = .error .notValid := by
  obtain ⟨h1, h3⟩ := hw
  have hc : e.count true = 1 ∨ e.count true = 2 ∨ e.count true = 3 := by omega
  rcases hc with h | h | h
  · exact single_flip_rejected f x e hv hl ha h
  · exact double_flip_rejected f x e hv hl ha h
  · exact odd_flips_rejected f x e hv hl ha (by rw [h])

/-- The same as a distance statement. Let `f` be a valid frame and `applyErr f e` a *different* byte
string (`true ∈ e`) of the same length with the same preamble byte and the same length field
(`Admissible`: the two differ only in reserved bits, payload and checksum). If `applyErr f e` is
accepted as well, the two frames differ in at least 4 bit positions. -/
theorem min_distance_ge4 (f : List UInt8) (x : Frame) (e : List Bool)
    (hv : frameNew f = .ok x) (hl : f.length = x.frameLen) (ha : Admissible f.length e)
    (hne : true ∈ e) (hacc : ∃ y, frameNew (applyErr f e) = .ok y) :
    4 ≤ e.count true := by
  have hpos : 0 < e.count true := List.count_pos_iff.mpr hne
  apply Nat.le_of_not_lt
  intro hlt
  have hrej := weight_le3_rejected f x e hv hl ha ⟨hpos, by omega⟩
  obtain ⟨y, hy⟩ := hacc
  rw [hrej] at hy
  cases hy

/-- three bits (reserved, payload, checksum) on the 9-byte frame: hypotheses of
`weight_le3_rejected` hold and the model evaluates to the predicted verdict -/
example : Admissible 9 (flipAt 72 [9, 30, 71]) ∧
    (1 ≤ (flipAt 72 [9, 30, 71]).count true ∧ (flipAt 72 [9, 30, 71]).count true ≤ 3) ∧
    frameNew (applyErr (mkFrame 0 [0x3e, 0xd0, 0x00]) (flipAt 72 [9, 30, 71])) = .error .notValid := by
  decide +kernel

/-- `min_distance_ge4` is not vacuous: the generator laid over the payload (weight 14) is admissible,
non-zero, and the altered frame is accepted; the theorem then yields `4 ≤ 14`. -/
example :
    4 ≤ (flipAt 72 [24, 25, 30, 31, 34, 37, 38, 41, 42, 43, 44, 45, 47, 48]).count true :=
  min_distance_ge4 (mkFrame 0 [0x3e, 0xd0, 0x00]) (mkFrameResult 0 [0x3e, 0xd0, 0x00])
    (flipAt 72 [24, 25, 30, 31, 34, 37, 38, 41, 42, 43, 44, 45, 47, 48])
    (by decide +kernel) (by decide +kernel) (by decide +kernel) (by decide +kernel)
    (by
      have h : (match frameNew (applyErr (mkFrame 0 [0x3e, 0xd0, 0x00])
          (flipAt 72 [24, 25, 30, 31, 34, 37, 38, 41, 42, 43, 44, 45, 47, 48])) with
        | .ok _ => true | .error _ => false) = true := by decide +kernel
      split at h
      · next y hy => exact ⟨y, hy⟩
      · cases h)

/-- two byte strings of the same length with the same bits are equal -/
theorem eq_of_bits_agree (f g : List UInt8) (hlen : f.length = g.length)
    (h : ∀ p, (bitsOfBytes f).getD p false = (bitsOfBytes g).getD p false) : f = g := by
  apply List.ext_getElem hlen
  intro i h1 h2
  apply UInt8.toNat_inj.mp
  have hb : byteAt f i = byteAt g i := by
    apply Nat.eq_of_testBit_eq
    intro j
    by_cases hj : j < 8
    · have a := getD_bitsOfBytes f i (7 - j) (by omega)
      have b := getD_bitsOfBytes g i (7 - j) (by omega)
      have e7 : 7 - (7 - j) = j := by omega
      rw [e7] at a b
      rw [← a, ← b, h]
    · rw [testBit_byteAt_ge _ _ _ (by omega), testBit_byteAt_ge _ _ _ (by omega)]
  unfold byteAt at hb
  simpa [List.getD_eq_getElem?_getD, List.getElem?_eq_getElem h1, List.getElem?_eq_getElem h2]
    using hb

/-- **Minimum distance, stated on two frames.** Two distinct valid frames (each accepted by
`frameNew` with nothing following it) of the same length differ in at least 4 bit positions.
`xorBits (bitsOfBytes f) (bitsOfBytes g)` is `true` exactly at the bit positions at which `f` and `g`
differ (`getD_xorBits`). No hypothesis on where they differ is needed: frames of equal length have the
same preamble and the same length field. -/
theorem distinct_frames_distance_ge4 (f g : List UInt8) (x y : Frame)
    (hf : frameNew f = .ok x) (hfl : f.length = x.frameLen)
    (hg : frameNew g = .ok y) (hgl : g.length = y.frameLen)
    (hlen : f.length = g.length) (hne : f ≠ g) :
    4 ≤ (xorBits (bitsOfBytes f) (bitsOfBytes g)).count true := by
  have vf := valid_facts f x hf hfl
  have vg := valid_facts g y hg hgl
  have hbl : (bitsOfBytes f).length = (bitsOfBytes g).length := by
    rw [length_bitsOfBytes, length_bitsOfBytes, hlen]
  have hz : crcRem 0 (xorBits (bitsOfBytes f) (bitsOfBytes g)) = 0 := by
    have := crcRem_linear 0 0 _ _ hbl
    rw [Nat.xor_self, vf.2.2.2, vg.2.2.2] at this
    simpa using this
  have hel : (xorBits (bitsOfBytes f) (bitsOfBytes g)).length ≤ 8400 := by
    rw [length_xorBits _ _ hbl, length_bitsOfBytes]; omega
  apply Nat.le_of_not_lt
  intro hlt
  have hc : (xorBits (bitsOfBytes f) (bitsOfBytes g)).count true = 0 ∨
      (xorBits (bitsOfBytes f) (bitsOfBytes g)).count true = 2 ∨
      (xorBits (bitsOfBytes f) (bitsOfBytes g)).count true % 2 = 1 := by omega
  rcases hc with h | h | h
  · apply hne
    apply eq_of_bits_agree f g hlen
    intro p
    have hx := getD_xorBits _ _ hbl p
    rw [count_true_zero _ h] at hx
    have hr : ∀ n, (List.replicate n false).getD p false = false := by
      intro n
      rw [List.getD_eq_getElem?_getD, List.getElem?_replicate]
      split <;> rfl
    rw [hr] at hx
    simpa using hx.symm
  · exact crcRem_count_two_ne_zero _ hel h hz
  · exact crcRem_odd_ne_zero _ h hz

/-- two frames at distance exactly 14 (the generator laid over the payload of the 9-byte frame):
both valid, same length, distinct -/
example :
    let f := mkFrame 0 [0x3e, 0xd0, 0x00]
    let g := applyErr f (flipAt 72 [24, 25, 30, 31, 34, 37, 38, 41, 42, 43, 44, 45, 47, 48])
    (∃ x, frameNew f = .ok x ∧ f.length = x.frameLen) ∧
    (match frameNew g with | .ok y => decide (g.length = y.frameLen) | .error _ => false) = true ∧
    f.length = g.length ∧ f ≠ g ∧ (xorBits (bitsOfBytes f) (bitsOfBytes g)).count true = 14 := by
  refine ⟨⟨mkFrameResult 0 [0x3e, 0xd0, 0x00], ?_⟩, ?_⟩ <;> decide +kernel

end Rtcm.C04
