import Rtcm.Model.Features
import Rtcm.Gen.Features
/-!
# C19  Every message feature can be selected on its own, with or without std

Partial by nature: "the crate builds" is a judgement of rustc. What is logic is modelled — modules,
their `cfg` gates, their `use super::…` dependencies, the dispatch table under a feature set — and
proved on the regenerated tables; the real decision is made by actual `cargo check` / driver builds
(see the evidence of the check).
-/
namespace Rtcm.C19
open Rtcm.Features

/-- the message-type features: the leaves of what `all_msgs` enables (group features such as a
hypothetical `msm = [..]` are followed, not counted) -/
def msgFeatures : List String := Features.msgFeatures Gen.cargoFeatures

/-- what selecting exactly the feature `f` enables -/
def sel (f : String) : FeatureSet := enables Gen.cargoFeatures [f]

/-- the closure computations behind the statements below all ran to completion -/
theorem closures_complete :
    enablesComplete Gen.cargoFeatures ["all_msgs"] = true ∧
    msgFeatures.all (fun f => enablesComplete Gen.cargoFeatures [f]) = true := by decide +kernel

/-- for every single message feature, every module that an enabled module imports is enabled -/
theorem single_feature_closed :
    msgFeatures.all (fun f => closed Gen.moduleGates Gen.includeMsgs Gen.moduleUses (sel f)) = true := by
  decide +kernel

/-- the empty selection compiles no module that imports a disabled one -/
theorem empty_closed : closed Gen.moduleGates Gen.includeMsgs Gen.moduleUses [] = true := by decide +kernel

theorem all_msgs_closed :
    closed Gen.moduleGates Gen.includeMsgs Gen.moduleUses (sel "all_msgs") = true := by
  decide +kernel

/-- gates mention only features that exist in Cargo.toml -/
theorem gates_mention_only_known_features :
    Gen.moduleGates.all (fun g => allFeaturesKnown Gen.cargoFeatures g.2) = true ∧
    allFeaturesKnown Gen.cargoFeatures (Gen.includeMsgs.map (·.2)) = true ∧
    allFeaturesKnown Gen.cargoFeatures (Gen.dispatchRows.map (·.1)) = true := by decide +kernel

/-- with only the feature of a row selected the dispatch table supports exactly that row's number -/
theorem dispatch_single :
    Gen.dispatchRows.all (fun r => supported Gen.dispatchRows (sel r.1) == [r.2.2.2]) = true := by decide +kernel

/-- every message feature is a dispatch row and vice versa (as sets, without repetition) -/
theorem features_are_rows :
    (msgFeatures.length == Gen.dispatchRows.length && msgFeatures.all (Gen.dispatchRows.map (·.1)).contains &&
      (Gen.dispatchRows.map (·.1)).all msgFeatures.contains) = true := by decide +kernel

/-- selecting a single message feature enables neither `std` nor another message feature -/
theorem no_feature_implies_std :
    msgFeatures.all (fun f => !(sel f).contains "std" &&
      ((sel f).filter msgFeatures.contains == [f])) = true := by decide +kernel

-- (No theorem about `std::` paths: whether an unconditional use of std exists is decided by the real
-- `cargo check --no-default-features` builds of the check; a syntactic scan would raise alarms on harmless
-- code. `Gen.ungatedStdPaths` is kept as information only.)

end Rtcm.C19
