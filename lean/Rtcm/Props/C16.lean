import Rtcm.Model.Bias
/-!
# C16  SSR code-bias and GLONASS bias lists keep every entry or report an error
-/
namespace Rtcm.C16
open Rtcm.Bias

theorem decBiases_len (cfg : Cfg) (p : Params) (sat n : Nat) (acc : List Entry) (c : Cur)
    (es : List Entry) (c' : Cur) (hacc : acc.length ≤ p.cap)
    (h : decBiases cfg p sat n acc c = .ok (es, c')) : es.length ≤ p.cap := by
  induction n generalizing acc c with
  | zero => simp [decBiases] at h; obtain ⟨rfl, _⟩ := h; exact hacc
  | succ n ih =>
    simp only [decBiases] at h
    split at h
    · split at h
      · split at h
        · split at h
          · cases h
          · next hlt => exact ih _ _ (by simp at hlt ⊢; omega) h
        · cases h
        · cases h
      · exact ih _ _ hacc h
    · cases h
    · cases h

theorem decSats_len (cfg : Cfg) (p : Params) (n : Nat) (acc : List Entry) (c : Cur)
    (es : List Entry) (c' : Cur) (hacc : acc.length ≤ p.cap)
    (h : decSats cfg p n acc c = .ok (es, c')) : es.length ≤ p.cap := by
  induction n generalizing acc c with
  | zero => simp [decSats] at h; obtain ⟨rfl, _⟩ := h; exact hacc
  | succ n ih =>
    simp only [decSats] at h
    split at h
    · split at h
      · split at h
        · next acc' c3 hb => exact ih _ _ (decBiases_len cfg p _ _ _ _ _ _ hacc hb) h
        · cases h
        · cases h
      · cases h
      · cases h
    · cases h
    · cases h

/-- Decoding any 1059/1065 frame never yields more entries than the list capacity. -/
theorem bias_decode_le_cap (cfg : Cfg) (p : Params) (c : Cur) (es : List Entry) (c' : Cur)
    (h : decode cfg p c = .ok (es, c')) : es.length ≤ p.cap := by
  unfold decode at h
  split at h
  · exact decSats_len cfg p _ [] _ _ _ (by simp) h
  · cases h
  · cases h

end Rtcm.C16
