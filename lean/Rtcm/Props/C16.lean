import Rtcm.Model.Bias
import Rtcm.Proofs.BiasLaws
import Rtcm.Proofs.Bias1230Laws
import Rtcm.Model.Interp
import Rtcm.Gen.SigTables
/-!
# C16  SSR code-bias and GLONASS bias lists keep every entry or report an error

"Encoding a code-bias message (1059, 1065) or a GLONASS code-phase bias message (1230) whose
entries all carry recognised, distinct signals either fails with an error or yields a frame that
decodes to exactly the same multiset of (satellite, signal, bias on its grid) entries, grouped by
ascending satellite; no entry is silently dropped, duplicated or lost to a count field that
wrapped. Decoding any such frame never yields more entries than the list capacity."

Subject: `Rtcm.Bias.encode` / `decode` (1059, 1065), `encode1230` / `decode1230` (Model/Bias.lean).

Vocabulary (Proofs/CurLaws.lean, Proofs/BiasLaws.lean):
* `Good c`: every buffer byte `< 256`.  `Ext c c'`: same buffer length, bytes stay bytes,
  `c.off ≤ c'.off ≤ 8 * length`, every bit outside `[c.off, c'.off)` unchanged.
* `ParamsOk p`: `1 ≤ satBits ≤ 8`, `maxSat < 2^satBits`, `checkSatNum ∨ maxSat < 63`, and the
  signal table has pairwise distinct identifiers, all `< 32` (`TblOk`).  Holds for the two
  parameter sets the crate uses (`params_ok_1059`, `params_ok_1065`).
* `norm14 e`: `e` with `bias` replaced by what the wire carries: the bias quantised to 0.01 m as
  an `i16` (`quantBias`), CUT TO THE 14-BIT FIELD (low 14 bits, sign-extended: `wire14`), times
  0.01 (`dequantBias`).  `normalise e`: the same without the cut.  They coincide when the
  quantised integer is in `-8192 ..= 8191` (`Fits14`, i.e. |bias| ≤ 81.91 m);
  see `bias_14bit_wraps` for a concrete entry outside that range.
-/
namespace Rtcm.C16
open Rtcm.Bias

theorem decBiases_len (cfg : Cfg) (p : Params) (sat n : Nat) (acc : List Entry) (c : Cur)
    (es : List Entry) (c' : Cur) (hacc : acc.length ≤ p.cap)
    (h : decBiases cfg p sat n acc c = .ok (es, c')) : es.length ≤ p.cap := by
  induction n generalizing acc c with
  | zero => simp [decBiases] at h; obtain ⟨rfl, _⟩ := h; exact hacc
  | succ n ih =>
    simp only [decBiases] at h
    split at h
    · split at h
      · split at h
        · split at h
          · cases h
          · next hlt => exact ih _ _ (by simp at hlt ⊢; omega) h
        · cases h
        · cases h
      · exact ih _ _ hacc h
    · cases h
    · cases h

theorem decSats_len (cfg : Cfg) (p : Params) (n : Nat) (acc : List Entry) (c : Cur)
    (es : List Entry) (c' : Cur) (hacc : acc.length ≤ p.cap)
    (h : decSats cfg p n acc c = .ok (es, c')) : es.length ≤ p.cap := by
  induction n generalizing acc c with
  | zero => simp [decSats] at h; obtain ⟨rfl, _⟩ := h; exact hacc
  | succ n ih =>
    simp only [decSats] at h
    split at h
    · split at h
      · split at h
        · next acc' c3 hb => exact ih _ _ (decBiases_len cfg p _ _ _ _ _ _ hacc hb) h
        · cases h
        · cases h
      · cases h
      · cases h
    · cases h
    · cases h

/-- Decoding any 1059/1065 frame never yields more entries than the list capacity. -/
theorem bias_decode_le_cap (cfg : Cfg) (p : Params) (c : Cur) (es : List Entry) (c' : Cur)
    (h : decode cfg p c = .ok (es, c')) : es.length ≤ p.cap := by
  unfold decode at h
  split at h
  · exact decSats_len cfg p _ [] _ _ _ (by simp) h
  · cases h
  · cases h

/-! ## Encode side (1059 / 1065) -/

open Rtcm.CurLaws Rtcm.BiasLaws Rtcm.Bits

/-- entry's signal is in the table -/
def recognised (p : Params) (e : Entry) : Bool := (Sig.toId p.tbl e.band e.attr).isSome

theorem tblOk_1059 : TblOk Gen.biasTable_df_msg1059_biases :=
  ⟨by decide, by decide⟩
theorem tblOk_1065 : TblOk Gen.biasTable_df_msg1065_biases :=
  ⟨by decide, by decide⟩

/-- the parameter sets of the crate satisfy the standing hypotheses -/
theorem params_ok_1059 (cap : Nat) :
    ParamsOk (Interp.params1059 cap Gen.biasTable_df_msg1059_biases) :=
  ⟨by simp [Interp.params1059], by simp [Interp.params1059], by simp [Interp.params1059],
    Or.inl rfl, tblOk_1059⟩
theorem params_ok_1065 (cap : Nat) :
    ParamsOk (Interp.params1065 cap Gen.biasTable_df_msg1065_biases) :=
  ⟨by simp [Interp.params1065], by simp [Interp.params1065], by simp [Interp.params1065],
    Or.inr (by simp [Interp.params1065]), tblOk_1065⟩

/-- (a) No count field wraps silently: if encoding succeeds then every satellite identifier is
within range, the number of distinct satellites fits the 6-bit field (≤ 63) and every satellite
has at most 31 recognised entries (fits the 5-bit field).  No hypothesis on the signals or the
buffer. -/
theorem bias_no_silent_loss (cfg : Cfg) (p : Params) (hsn : p.checkSatNum = true ∨ p.maxSat < 63)
    (v : List Entry) (c c' : Cur) (h : encode cfg p v c = .ok c') :
    (∀ e ∈ v, e.sat ≤ p.maxSat) ∧ (satsOf p v).length ≤ 63 ∧
    ∀ s, ((v.filter fun e => e.sat == s).filter (recognised p)).length ≤ 31 := by
  unfold encode at h
  split at h
  · cases h
  · next hcs =>
    simp only [Bool.not_eq_true', Bool.not_eq_false] at hcs
    have hsat := (checkSats_iff p v).mp hcs
    dsimp only at h
    split at h
    · cases h
    · next hn =>
      refine ⟨hsat, ?_, ?_⟩
      · have hl := satsOf_length_le p v
        rcases hsn with hc | hm
        · simp only [hc, Bool.true_and, decide_eq_true_eq] at hn
          omega
        · omega
      · intro s
        split at h
        · next c1 _ =>
          by_cases hs : s ∈ satsOf p v
          · exact encSats_counts cfg p v _ c1 c' h s hs
          · have : (v.filter fun e => e.sat == s) = [] := by
              rw [List.filter_eq_nil_iff]
              intro e he hes
              simp only [beq_iff_eq] at hes
              exact hs ((mem_satsOf p v s).mpr ⟨hes ▸ hsat e he, e, he, hes⟩)
            simp [this]
        · cases h
        · cases h

/-- encoding never panics (either build profile): it succeeds or reports OutOfRange or
BufferOverflow -/
theorem bias_encode_total (cfg : Cfg) (p : Params) (hp : ParamsOk p) (v : List Entry) (c : Cur)
    (hg : Good c) :
    (∃ c', encode cfg p v c = .ok c') ∨ encode cfg p v c = .err .outOfRange ∨
      encode cfg p v c = .err .bufferOverflow := by
  unfold encode
  split
  · exact Or.inr (Or.inl rfl)
  · dsimp only
    split
    · exact Or.inr (Or.inl rfl)
    · next hsn =>
      have hlt := satsOf_length_lt p hp v hsn
      rcases putU_ok_or_overflow cfg (len := 6) (by decide) (by decide) hg hlt with ⟨c1, h1⟩ | h1
      · obtain ⟨e1, _, _⟩ := putU_law cfg (len := 6) (by decide) (by decide) hg hlt h1
        rw [h1]
        exact encSats_total cfg p hp v _ c1 e1.good e1.fit
          (fun s hs => Nat.lt_of_le_of_lt ((mem_satsOf p v s).mp hs).1 hp.maxSat)
      · rw [h1]
        exact Or.inr (Or.inr rfl)

/-- (a), converse: a count that does not fit its field is an error, never a wrapped count -/
theorem bias_count_overflow_is_error (cfg : Cfg) (p : Params) (hp : ParamsOk p) (v : List Entry)
    (c : Cur) (hg : Good c)
    (hbad : 63 < (satsOf p v).length ∨
      ∃ s, 31 < ((v.filter fun e => e.sat == s).filter (recognised p)).length) :
    encode cfg p v c = .err .outOfRange ∨ encode cfg p v c = .err .bufferOverflow := by
  rcases bias_encode_total cfg p hp v c hg with ⟨c', h⟩ | h
  · obtain ⟨_, h1, h2⟩ := bias_no_silent_loss cfg p hp.satNum v c c' h
    rcases hbad with hb | ⟨s, hb⟩
    · omega
    · have := h2 s
      omega
  · exact h

/-- more than 63 distinct satellites (1059) or an out-of-range satellite: OutOfRange whatever the
buffer -/
theorem bias_sat_overflow_out_of_range (cfg : Cfg) (p : Params) (v : List Entry) (c : Cur)
    (hbad : (∃ e ∈ v, p.maxSat < e.sat) ∨ (p.checkSatNum = true ∧ 63 < (satsOf p v).length)) :
    encode cfg p v c = .err .outOfRange := by
  unfold encode
  split
  · rfl
  · next hcs =>
    simp only [Bool.not_eq_true', Bool.not_eq_false] at hcs
    have hsat := (checkSats_iff p v).mp hcs
    rcases hbad with ⟨e, he, hlt⟩ | ⟨hc, hl⟩
    · have := hsat e he
      omega
    · simp [hc, hl]

/-- (a), converse, sharp: with room in the buffer for the whole list (6 count bits, `satBits + 5`
bits per satellite, 19 bits per entry) a per-satellite count above 31 is reported as OutOfRange -/
theorem bias_count_overflow_out_of_range (cfg : Cfg) (p : Params) (hp : ParamsOk p)
    (v : List Entry) (c : Cur) (hg : Good c)
    (hroom : c.off + 6 + (p.satBits + 5) * (satsOf p v).length + 19 * v.length
      ≤ 8 * c.data.length)
    (hbad : ∃ s, 31 < ((v.filter fun e => e.sat == s).filter (recognised p)).length) :
    encode cfg p v c = .err .outOfRange :=
  encode_room_out_of_range cfg p hp v c hg hroom hbad

/-! ## Round trip (1059 / 1065) -/

/-- the decoded list: satellites ascending, original relative order inside each satellite -/
def grouped (p : Params) (f : Entry → Entry) (v : List Entry) : List Entry :=
  (satsOf p v).flatMap fun s => (v.filter fun e => e.sat == s).map f

theorem grouped_perm (p : Params) (f : Entry → Entry) (v : List Entry)
    (hc : ∀ e ∈ v, e.sat ≤ p.maxSat) : (grouped p f v).Perm (v.map f) := by
  unfold grouped
  rw [← List.map_flatMap]
  exact (group_perm p v ((checkSats_iff p v).mpr hc)).map f

theorem grouped_sorted (p : Params) (f : Entry → Entry) (hf : ∀ e, (f e).sat = e.sat)
    (v : List Entry) : ((grouped p f v).map (·.sat)).Pairwise (· ≤ ·) := by
  unfold grouped
  rw [List.pairwise_map, List.pairwise_flatMap]
  constructor
  · intro s _
    rw [List.pairwise_map]
    apply List.Pairwise.imp_of_mem (R := fun _ _ => True)
    · intro a b ha hb _
      have h1 := (List.mem_filter.mp ha).2
      have h2 := (List.mem_filter.mp hb).2
      simp only [beq_iff_eq] at h1 h2
      rw [hf, hf, h1, h2]
      exact Nat.le_refl _
    · exact List.pairwise_of_forall (fun _ _ => trivial)
  · have : (satsOf p v).Pairwise (· < ·) :=
      List.Pairwise.sublist List.filter_sublist List.pairwise_lt_range
    refine this.imp ?_
    intro s t hst x hx y hy
    obtain ⟨a, ha, rfl⟩ := List.mem_map.mp hx
    obtain ⟨b, hb, rfl⟩ := List.mem_map.mp hy
    have h1 := (List.mem_filter.mp ha).2
    have h2 := (List.mem_filter.mp hb).2
    simp only [beq_iff_eq] at h1 h2
    rw [hf, hf, h1, h2]
    exact Nat.le_of_lt hst

/-- (b) A successfully encoded 1059/1065 list decodes — from the frame the encoder produced, read
at the offset where it started — to the same entries as they sit on the wire (`norm14`), grouped
by ascending satellite, each group in the original relative order; the decoder stops exactly
where the encoder stopped.  The result is a permutation of `v.map norm14`: nothing dropped,
nothing duplicated.  The encoder changed no bit outside `[c.off, c'.off)` (`Ext`).

Hypotheses actually needed: `ParamsOk p`, every signal recognised, `v.length ≤ p.cap`, buffer
bytes `< 256`.  Distinctness of the `(sat, band, attr)` keys and of the table's descriptors is
NOT needed (duplicates are written and read back twice). -/
theorem bias_encode_ok_decodes_same_multiset (cfg : Cfg) (p : Params) (hp : ParamsOk p)
    (v : List Entry) (hrec : ∀ e ∈ v, recognised p e = true) (hcap : v.length ≤ p.cap)
    (c c' : Cur) (hg : Good c) (h : encode cfg p v c = .ok c') :
    decode cfg p { c' with off := c.off } = .ok (grouped p norm14 v, c') ∧
    (grouped p norm14 v).Perm (v.map norm14) ∧
    ((grouped p norm14 v).map (·.sat)).Pairwise (· ≤ ·) ∧
    Ext c c' := by
  obtain ⟨hext, hdec⟩ := encode_decode cfg p hp v hrec hcap c c' hg h
  obtain ⟨hsat, _, _⟩ := bias_no_silent_loss cfg p hp.satNum v c c' h
  exact ⟨hdec c'.data rfl (AgreeOn.rfl' _ _ _), grouped_perm p norm14 v hsat, grouped_sorted p norm14 (fun _ => rfl) v, hext⟩

/-- (b), stable under later writes: the list is read back from ANY buffer of the same length that
agrees with the produced one on the bits `[c.off, c'.off)` the encoder wrote — so fields written
after the list (which leave these bits alone, `Ext`) do not disturb it. -/
theorem bias_encode_ok_decodes_stable (cfg : Cfg) (p : Params) (hp : ParamsOk p)
    (v : List Entry) (hrec : ∀ e ∈ v, recognised p e = true) (hcap : v.length ≤ p.cap)
    (c c' : Cur) (hg : Good c) (h : encode cfg p v c = .ok c')
    (D : List Nat) (hD : D.length = c'.data.length) (ha : AgreeOn D c'.data c.off c'.off) :
    decode cfg p ⟨D, c.off⟩ = .ok (grouped p norm14 v, ⟨D, c'.off⟩) :=
  (encode_decode cfg p hp v hrec hcap c c' hg h).2 D hD ha

theorem grouped_congr (p : Params) (f g : Entry → Entry) (v : List Entry)
    (h : ∀ e ∈ v, f e = g e) : grouped p f v = grouped p g v := by
  unfold grouped
  congr 1
  funext s
  apply List.map_congr_left
  intro e he
  exact h e (List.mem_filter.mp he).1

/-- (b) with every bias inside the 14-bit range (|bias| ≤ 81.91 m): the decoded bias is the
bias on the 0.01 m grid, `dequantBias res001 (toInt 16 (quantBias res001 bias))`. -/
theorem bias_encode_ok_decodes_same_multiset_on_grid (cfg : Cfg) (p : Params) (hp : ParamsOk p)
    (v : List Entry) (hrec : ∀ e ∈ v, recognised p e = true) (hcap : v.length ≤ p.cap)
    (hfit : ∀ e ∈ v, Fits14 e)
    (c c' : Cur) (hg : Good c) (h : encode cfg p v c = .ok c') :
    decode cfg p { c' with off := c.off } = .ok (grouped p normalise v, c') ∧
    (grouped p normalise v).Perm (v.map normalise) ∧
    ((grouped p normalise v).map (·.sat)).Pairwise (· ≤ ·) := by
  obtain ⟨h1, h2, h3, _⟩ := bias_encode_ok_decodes_same_multiset cfg p hp v hrec hcap c c' hg h
  have e : grouped p norm14 v = grouped p normalise v :=
    grouped_congr p _ _ v (fun e he => norm14_of_fits e (hfit e he))
  have e2 : v.map norm14 = v.map normalise :=
    List.map_congr_left (fun e he => norm14_of_fits e (hfit e he))
  rw [e] at h1 h2 h3
  rw [e2] at h2
  exact ⟨h1, h2, h3⟩

/-! ## 1230 (GLONASS code-phase biases) -/

open Rtcm.Bias1230Laws

/-- the GLONASS MSM table of the crate orders 1C < 1P < 2C < 2P (ids 2, 3, 8, 9) -/
theorem glo1230_ok : Glo1230Ok Gen.sigTable_glo :=
  ⟨2, 3, 8, 9, by decide, by decide, by decide, by decide, by decide, by decide, by decide⟩

/-- (c) A successfully encoded 1230 list whose signals are recognised (one of 1C, 1P, 2C, 2P) and
pairwise distinct decodes to the same entries on the 0.02 m grid (`norm1230`: satellite field 0,
`bias = dequantBias res002 (toInt16 (quantBias res002 bias))`; the field is a full 16 bits, no
cut), in mask order: the decoded signals form a sublist of `[1C, 1P, 2C, 2P]`.  The result is a
permutation of `v.map norm1230`; the decoder stops exactly where the encoder stopped; no bit
outside `[c.off, c'.off)` changed. -/
theorem bias_1230_encode_ok_decodes_same_multiset (cfg : Cfg) (t : Schema.SigTable)
    (hg : Glo1230Ok t) (v : List Entry)
    (hrec : ∀ e ∈ v, (e.band, e.attr) ∈ [(1, 67), (1, 80), (2, 67), (2, 80)])
    (hnd : (v.map fun e => (e.band, e.attr)).Nodup)
    (c c' : Cur) (hgood : Good c) (h : encode1230 cfg t v c = .ok c') :
    ∃ out, decode1230 cfg { c' with off := c.off } = .ok (out, c') ∧
      out.Perm (v.map norm1230) ∧
      (out.map fun e => (e.band, e.attr)).Sublist [(1, 67), (1, 80), (2, 67), (2, 80)] ∧
      c'.off = c.off + 4 + 16 * v.length ∧ Ext c c' := by
  obtain ⟨hext, hoff, hdec⟩ := encode1230_decode cfg t hg v hrec hnd c c' hgood h
  refine ⟨_, hdec c'.data rfl (AgreeOn.rfl' _ _ _), (sortBy_perm (le1230 t) v).map norm1230, ?_,
    hoff, hext⟩
  have := sorted_sublist t hg v hrec hnd
  rw [List.map_map]
  exact this

/-- (c), explicit order and stability: the decoded list is, for each mask position 1C, 1P, 2C, 2P
in this order, the entry of `v` carrying that signal (if any), normalised; and it is read back
from ANY buffer of the same length agreeing with the produced one on `[c.off, c'.off)`. -/
theorem bias_1230_decodes_in_mask_order (cfg : Cfg) (t : Schema.SigTable)
    (hg : Glo1230Ok t) (v : List Entry)
    (hrec : ∀ e ∈ v, (e.band, e.attr) ∈ [(1, 67), (1, 80), (2, 67), (2, 80)])
    (hnd : (v.map fun e => (e.band, e.attr)).Nodup)
    (c c' : Cur) (hgood : Good c) (h : encode1230 cfg t v c = .ok c')
    (D : List Nat) (hD : D.length = c'.data.length) (ha : AgreeOn D c'.data c.off c'.off) :
    decode1230 cfg ⟨D, c.off⟩ =
      .ok (([(1, 67), (1, 80), (2, 67), (2, 80)].filterMap fun k =>
              v.find? fun e => (e.band, e.attr) == k).map norm1230, ⟨D, c'.off⟩) := by
  obtain ⟨_, _, hdec⟩ := encode1230_decode cfg t hg v hrec hnd c c' hgood h
  rw [hdec D hD ha, sorted_eq_slots t hg v hrec hnd]
  rfl

/-- the 1230 encoder never panics: it succeeds, or reports InvalidSignalId (an unrecognised
signal) or BufferOverflow -/
theorem bias_1230_encode_total (cfg : Cfg) (t : Schema.SigTable) (v : List Entry) (c : Cur)
    (hgood : Good c) :
    (∃ c', encode1230 cfg t v c = .ok c') ∨ encode1230 cfg t v c = .err .invalidSignalId ∨
      encode1230 cfg t v c = .err .bufferOverflow :=
  encode1230_total cfg t v c hgood

/-- Decoding any 1230 frame never yields more entries than the list capacity (4). -/
theorem bias_1230_decode_le_cap (cfg : Cfg) (c : Cur) (es : List Entry) (c' : Cur)
    (h : decode1230 cfg c = .ok (es, c')) : es.length ≤ 4 := by
  unfold decode1230 at h
  split at h
  · exact dec1230Loop_length cfg _ gloTable1230 _ _ _ h
  · cases h
  · cases h

/-! ## Concrete instances (the hypotheses are satisfiable; both build profiles) -/

section examples

/-- three entries, satellites 5 and 2 scattered, biases 1.5 m, -1.5 m, 100.0 m -/
def exV : List Entry :=
  [⟨5, 1, 67, 0x3FC00000⟩, ⟨2, 2, 87, 0xBFC00000⟩, ⟨5, 2, 67, 0x42C80000⟩]
def exP : Params := Interp.params1059 390 Gen.biasTable_df_msg1059_biases
def exC : Cur := ⟨List.replicate 12 0, 3⟩

example : Good exC := by unfold Good; decide
example : ∀ e ∈ exV, recognised exP e = true := by decide
example : exV.length ≤ exP.cap := by decide

/-- the encoder succeeds on the example, in both build profiles -/
example : ∀ chk : Bool, (match encode ⟨chk⟩ exP exV exC with
    | .ok c' => c'.data == [1, 4, 21, 254, 212, 40, 128, 4, 177, 103, 16, 0] && c'.off == 88
    | _ => false) = true := by decide +kernel

/-- theorem (b) applied to it -/
example (cfg : Cfg) (c' : Cur) (h : encode cfg exP exV exC = .ok c') :
    decode cfg exP { c' with off := 3 } = .ok (grouped exP norm14 exV, c') :=
  (bias_encode_ok_decodes_same_multiset cfg exP (params_ok_1059 390) exV (by decide) (by decide)
    exC c' (by unfold Good; decide) h).1

example : grouped exP norm14 exV =
    [⟨2, 2, 87, 0xBFC00000⟩, ⟨5, 1, 67, 0x3FC00000⟩, ⟨5, 2, 67, 0xC27F5C29⟩] := by decide +kernel

example : Fits14 ⟨5, 1, 67, 0x3FC00000⟩ := by unfold Fits14; decide +kernel

/-- FINDING (model and, by the differential validation, crate): the quantised bias is an `i16`
but the field is 14 bits wide and the encoder does not range-check, so a bias outside
±81.91 m wraps silently: 100.0 m (0x42C80000) is written as 10000 mod 2^14 and comes back as
-63.84 m (0xC27F5C29), while its grid value is 100.0 m. -/
theorem bias_14bit_wraps :
    norm14 ⟨5, 2, 67, 0x42C80000⟩ = ⟨5, 2, 67, 0xC27F5C29⟩ ∧
    normalise ⟨5, 2, 67, 0x42C80000⟩ = ⟨5, 2, 67, 0x42C80000⟩ ∧
    toInt 16 (quantBias res001 0x42C80000) = 10000 ∧
    toInt 16 (wire14 (quantBias res001 0x42C80000)) = -6384 := by decide +kernel

/-- 64 satellites (1059): OutOfRange, not a wrapped count of 0 -/
example (cfg : Cfg) (c : Cur) :
    encode cfg exP ((List.range 64).map fun s => ⟨s, 1, 67, 0⟩) c = .err .outOfRange :=
  bias_sat_overflow_out_of_range cfg exP _ c (Or.inr ⟨rfl, by decide⟩)

/-- 1230: two entries out of mask order -/
def exV1230 : List Entry := [⟨0, 2, 80, 0x3FC00000⟩, ⟨0, 1, 67, 0xBFC00000⟩]

example : ∀ chk : Bool, (match encode1230 ⟨chk⟩ Gen.sigTable_glo exV1230 ⟨List.replicate 5 0, 1⟩ with
    | .ok c' => c'.data == [79, 253, 168, 2, 88] && c'.off == 37
    | _ => false) = true := by decide +kernel

example (cfg : Cfg) (c' : Cur)
    (h : encode1230 cfg Gen.sigTable_glo exV1230 ⟨List.replicate 5 0, 1⟩ = .ok c') :
    ∃ out, decode1230 cfg { c' with off := 1 } = .ok (out, c') ∧
      out.Perm (exV1230.map norm1230) ∧
      (out.map fun e => (e.band, e.attr)).Sublist [(1, 67), (1, 80), (2, 67), (2, 80)] ∧
      c'.off = 1 + 4 + 16 * exV1230.length ∧ Ext ⟨List.replicate 5 0, 1⟩ c' :=
  bias_1230_encode_ok_decodes_same_multiset cfg _ glo1230_ok exV1230 (by decide) (by decide)
    _ c' (by unfold Good; decide) h

example : exV1230.map norm1230 = [⟨0, 2, 80, 0x3FC00000⟩, ⟨0, 1, 67, 0xBFC00000⟩] := by
  decide +kernel

end examples

end Rtcm.C16
