import Rtcm.Proofs.MkFrame
/-!
# C03  A frame is accepted iff preamble, length and CRC-24Q all check out

Model: `Rtcm.frameNew` (`MessageFrame::new`), `Rtcm.crc24q` (bit-serial polynomial
remainder, generator 0x1864CFB, zero initial value, no reflection).
-/
namespace Rtcm.C03

/-- Acceptance is exactly: ≥ 6 bytes, preamble 0xD3, L+6 bytes present, bytes L+3..L+5 equal the
CRC-24Q of the first L+3 bytes; and the accepted frame is then fully determined. -/
theorem accept_iff (d : List UInt8) (f : Frame) :
    frameNew d = .ok f ↔
      (6 ≤ d.length ∧ byteAt d 0 = 0xd3 ∧ lenField d + 6 ≤ d.length ∧
       be24 d (lenField d + 3) = crc24q (d.take (lenField d + 3)) ∧
       f = { frameData := d.take (lenField d + 6)
             data := (d.drop 3).take (lenField d)
             crc := be24 d (lenField d + 3)
             number := if 2 ≤ lenField d then some ((byteAt d 3 <<< 4) ||| (byteAt d 4 >>> 4))
                       else none }) :=
  frameNew_ok_iff d f

/-- The accepted frame reports total length L+6, payload = bytes 3..3+L, and that checksum. -/
theorem accepted_attributes (d : List UInt8) (f : Frame) (h : frameNew d = .ok f) :
    f.frameLen = lenField d + 6 ∧ f.dataLen = lenField d ∧ f.data = (d.drop 3).take (lenField d) ∧
      f.frameData = d.take (lenField d + 6) ∧ f.crc = crc24q (d.take (lenField d + 3)) := by
  have h' := (frameNew_ok_iff d f).mp h
  obtain ⟨h6, _, hl, hc, hf⟩ := h'
  subst hf
  refine ⟨?_, ?_, rfl, rfl, hc⟩
  · simp [Frame.frameLen]; omega
  · simp [Frame.dataLen]; omega

/-- Incomplete: shorter than 6 bytes, or 0xD3 candidate shorter than its declared extent. -/
theorem incomplete_iff (d : List UInt8) :
    frameNew d = .error .incomplete ↔
      (d.length < 6 ∨ (byteAt d 0 = 0xd3 ∧ d.length < lenField d + 6)) :=
  frameNew_incomplete_iff d

/-- Not valid: wrong preamble, or complete candidate with a wrong checksum. -/
theorem notValid_iff (d : List UInt8) :
    frameNew d = .error .notValid ↔
      (6 ≤ d.length ∧ (byteAt d 0 ≠ 0xd3 ∨
        (lenField d + 6 ≤ d.length ∧
          be24 d (lenField d + 3) ≠ crc24q (d.take (lenField d + 3))))) :=
  frameNew_notValid_iff d

/-- The three outcomes are exhaustive (the scanner's `unreachable!()` arm is unreachable). -/
theorem outcomes_exhaustive (d : List UInt8) :
    (∃ f, frameNew d = .ok f) ∨ frameNew d = .error .incomplete ∨ frameNew d = .error .notValid := by
  rcases h : frameNew d with e | f
  · cases e <;> simp
  · exact Or.inl ⟨f, rfl⟩

/-- For every payload length 0..=1023 and every value of the six reserved bits, the frame with a
correct checksum is accepted and reports that payload; so the reserved bits do not influence
acceptance (they are covered by the checksum, as the standard prescribes). -/
theorem every_length_accepted (resv : Nat) (payload : List UInt8) (hL : payload.length ≤ 1023) :
    ∃ f, frameNew (mkFrame resv payload) = .ok f ∧ f.data = payload ∧
      f.frameLen = payload.length + 6 ∧ f.frameData = mkFrame resv payload ∧
      f.crc = crc24q (frameHeader resv payload.length ++ payload) := by
  have := frameNew_mkFrame resv payload [] hL
  rw [List.append_nil] at this
  refine ⟨_, this, rfl, ?_, rfl, rfl⟩
  simp [mkFrameResult, Frame.frameLen, mkFrame, frameHeader, crcBytes]

/-- The length is read from the low two bits of byte 1 and byte 2 only. -/
theorem length_ignores_reserved_bits (b0 b1 b1' b2 : UInt8) (rest : List UInt8)
    (h : b1.toNat &&& 3 = b1'.toNat &&& 3) :
    lenField (b0 :: b1 :: b2 :: rest) = lenField (b0 :: b1' :: b2 :: rest) := by
  simp [lenField, byteAt, h]

/-- The checksum is the remainder of the message bits followed by 24 zero bits under long division
by the generator: the definition of CRC-24Q. -/
theorem crc_is_polynomial_remainder (d : List UInt8) :
    crc24q d = crcRem 0 (bitsOfBytes d ++ List.replicate 24 false) ∧ crc24q d < 2 ^ 24 :=
  ⟨crc24q_eq_bits d, crc24q_lt d⟩

/-! Non-vacuity: a real 1005 frame body is accepted; a one-bit change is not. -/
example : (match frameNew (mkFrame 0 [0x3e, 0xd0, 0x00, 0x03]) with | .ok f => f.number | _ => none)
    = some 1005 := by decide +kernel
example : crc24q [0xd3, 0x00, 0x00] = 0x47ea4b := by decide +kernel
example : frameNew [0xd3, 0x00, 0x00, 0x47, 0xea, 0x4b] =
    .ok { frameData := [0xd3, 0x00, 0x00, 0x47, 0xea, 0x4b], data := [], crc := 0x47ea4b, number := none } := by
  decide +kernel
example : frameNew [0xd3, 0x00, 0x00, 0x47, 0xea, 0x4a] = .error .notValid := by decide +kernel
example : frameNew [0xd3, 0x00, 0x01, 0x47, 0xea, 0x4b] = .error .incomplete := by decide +kernel

end Rtcm.C03
