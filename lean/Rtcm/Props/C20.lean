import Rtcm.Model.Serde
import Rtcm.Props.C17
/-!
# C20  Serialising a message with serde and reading it back gives the same message

Partial by nature: the two hand-written string impls are modelled and proved; the derived impls and
the data format are assumed structure-preserving and exercised through serde_json on generated and
decoded messages (see the evidence).
-/
namespace Rtcm.C20
open Rtcm.Text Rtcm.Serde

/-- what every `Df88591String<N>` satisfies: at most N bytes, no zero byte (`push` stores 0xA4) -/
def Inv88591 (N : Nat) (bytes : List Nat) : Prop := bytes.length ≤ N ∧ ∀ b ∈ bytes, 0 < b ∧ b < 256

/-- a descriptor string survives serialisation, including high Latin-1 characters at capacity -/
theorem df88591_serde_roundtrip (N : Nat) (bytes : List Nat) (h : Inv88591 N bytes) :
    de88591 N (ser88591 bytes) = bytes := by
  obtain ⟨hl, hb⟩ := h
  unfold de88591 ser88591 df88591Chars
  rw [List.take_of_length_le (by simpa using hl), List.map_map]
  conv => rhs; rw [← List.map_id bytes]
  apply List.map_congr_left
  intro b hmem
  have := hb b hmem
  simp only [Function.comp, toChar, fromChar, id]
  split
  · omega
  · simp [this]

/-- both constructors establish the invariant -/
theorem inv88591_of_from (N : Nat) (s : List Nat) : Inv88591 N (df88591From N s) := by
  refine ⟨by simp [df88591From]; omega, ?_⟩
  intro b hb
  simp only [df88591From, List.mem_map] at hb
  obtain ⟨c, _, rfl⟩ := hb
  unfold fromChar
  split <;> omega

theorem inv88591_of_push (N : Nat) (bytes : List Nat) (b : Nat) (h : Inv88591 N bytes) (hb : b < 256)
    (hlen : bytes.length < N) : Inv88591 N (bytes ++ [pushNorm b]) := by
  refine ⟨by simp; omega, ?_⟩
  intro x hx
  rcases List.mem_append.mp hx with hx | hx
  · exact h.2 x hx
  · simp only [List.mem_singleton] at hx
    subst hx
    unfold pushNorm
    split <;> omega

/-- a UTF-8 text field holding the characters `cs` (they fit its capacity) survives serialisation -/
theorem arraystring_serde_roundtrip (N : Nat) (cs : List Nat) (h : (cs.flatMap utf8Enc).length ≤ N) :
    deAstr N (serAstr cs) = cs.flatMap utf8Enc := by
  unfold deAstr serAstr
  obtain ⟨k, hk, he, hn⟩ := C17.arraystring_from_longest_prefix N cs
  by_cases hlt : k < cs.length
  · exfalso
    have h1 := hn hlt
    have hg : cs.getD k 0 = cs[k] := by
      simp [List.getD_eq_getElem?_getD, List.getElem?_eq_getElem hlt]
    have hd : cs.drop k = cs.getD k 0 :: cs.drop (k + 1) := by
      rw [hg]; exact List.drop_eq_getElem_cons hlt
    have key : ∀ (a b : List Nat), ((a ++ b).flatMap utf8Enc).length =
        (a.flatMap utf8Enc).length + (b.flatMap utf8Enc).length := by
      intro a b; rw [List.flatMap_append, List.length_append]
    have hlen := key (cs.take k) (cs.drop k)
    rw [List.take_append_drop] at hlen
    have hc : (utf8Enc (cs.getD k 0)).length = utf8Len (cs.getD k 0) := by
      unfold utf8Enc utf8Len
      repeat' split
      all_goals rfl
    rw [hd] at hlen
    simp only [List.flatMap_cons, List.length_append, hc] at hlen
    omega
  · have : k = cs.length := by omega
    rw [he, this, List.take_length]

/-! Non-vacuity: 31 × U+00E9 in a 31-byte descriptor field (the input of defect D6) -/
example : Inv88591 31 (List.replicate 31 0xE9) := by
  refine ⟨by simp, ?_⟩
  intro b hb
  rw [List.mem_replicate] at hb
  omega
example : de88591 31 (ser88591 (List.replicate 31 0xE9)) = List.replicate 31 0xE9 := by decide

end Rtcm.C20
