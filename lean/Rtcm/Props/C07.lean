import Rtcm.Model.Bits
/-!
# C07  Bit-field packing is exact (placeholder: theorems under construction)
-/
namespace Rtcm.C07
open Rtcm.Bits

/-- overflow path: a write that would extend past the end reports BufferOverflow (buffer and
cursor are returned unchanged by construction: the result carries no new state) -/
theorem put_overflow_error (cfg : Cfg) (it : IT) (data : List Nat) (off v len : Nat)
    (h : data.length * 8 < off + len) : put cfg it data off v len = .err .bufferOverflow := by
  simp [put, h]

theorem parse_overflow_error (cfg : Cfg) (it : IT) (data : List Nat) (off len : Nat)
    (h : data.length * 8 < off + len) : parse cfg it data off len = .err .bufferOverflow := by
  simp [parse, h]

end Rtcm.C07
