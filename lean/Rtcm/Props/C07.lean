import Rtcm.Proofs.Bits
/-!
# C07  Bit-field packing is exact

"Writing a w-bit integer field at any bit offset of a message body sets exactly those bits, most
significant bit first, in two's complement for signed fields and sign-plus-magnitude for the
fields the standard defines so, and leaves every other bit unchanged; reading the same position
returns the written value for every representable value. A read or write that would extend past
the end of the buffer reports a buffer-overflow error and changes neither the buffer nor the
cursor."

Subject: `Rtcm.Bits.put` / `Rtcm.Bits.parse` (Model/Bits.lean), the code-shaped model of
`Assembler::put`, `Parser::parse` and the `BitValue` implementors.

Standing hypotheses (all theorems below except the overflow pair):
* `8 ≤ it.w ≤ 64`   — carrier width (the crate instantiates 8, 16, 32, 64);
* `1 ≤ len ≤ it.w`  — field width;
* every byte of `data` is `< 256`; `off + len ≤ 8 * data.length` (the field fits);
* `v < 2 ^ it.w`    — `v` is a carrier bit pattern.
Every theorem holds for every `cfg : Cfg`, i.e. with and without `overflow-checks`; a result
`.ok _` in particular means that no `usize` subtraction underflows and every shift amount is
below the carrier width.

Specification vocabulary (Model/Bits.lean, bottom): `bitAt data g` is bit `7 - g % 8` of byte
`g / 8` (MSB first); `wireValue`/`wireBit` are the `len` wire bits of a pattern (two's complement
for U/I, sign bit + magnitude for SM, never `-0`); `fieldValue data off len` is the number formed
by bits `off .. off+len`; `readValue` is the pattern decoded from such a number;
`Representable it len v` (Proofs/Bits.lean): U `v < 2^len`, I `-2^(len-1) ≤ toInt v < 2^(len-1)`,
SM `|toInt v| < 2^(len-1)`.
-/
namespace Rtcm.C07
open Rtcm.Bits

/-- overflow path: a write that would extend past the end reports BufferOverflow (buffer and
cursor are returned unchanged by construction: the result carries no new state) -/
theorem put_overflow_error (cfg : Cfg) (it : IT) (data : List Nat) (off v len : Nat)
    (h : data.length * 8 < off + len) : put cfg it data off v len = .err .bufferOverflow := by
  simp [put, h]

theorem parse_overflow_error (cfg : Cfg) (it : IT) (data : List Nat) (off len : Nat)
    (h : data.length * 8 < off + len) : parse cfg it data off len = .err .bufferOverflow := by
  simp [parse, h]

/-- everything about a successful `put` in one statement (the theorems below are its parts) -/
theorem put_spec (cfg : Cfg) (it : IT) (data : List Nat) (off v len : Nat)
    (hw8 : 8 ≤ it.w) (hw64 : it.w ≤ 64) (h1 : 1 ≤ len) (hlw : len ≤ it.w)
    (hdata : ∀ d ∈ data, d < 256) (hfit : off + len ≤ 8 * data.length) (hv : v < 2 ^ it.w) :
    ∃ data', put cfg it data off v len = .ok (data', off + len) ∧
      data'.length = data.length ∧ (∀ d ∈ data', d < 256) ∧
      ∀ g, bitAt data' g =
        if off ≤ g ∧ g < off + len then wireBit it len v (g - off) else bitAt data g := by
  obtain ⟨value, hsf, hvalue, hwire⟩ := signFixRev_spec cfg it h1 hlw hv
  obtain ⟨data', hput, hlen, hbits⟩ :=
    put_of_signFixRev cfg it hw8 hw64 h1 hlw hdata hfit hsf hvalue
  have hget : ∀ j, data.getD j 0 < 256 := by
    intro j
    rw [List.getD_eq_getElem?_getD]
    cases h : data[j]? with
    | none => simp
    | some d => simpa using hdata d (List.mem_of_getElem? h)
  refine ⟨data', hput, hlen, ?_, ?_⟩
  · intro d hd
    obtain ⟨j, hj, rfl⟩ := List.getElem_of_mem hd
    have e : data'[j] = data'.getD j 0 := by simp [List.getD_eq_getElem?_getD, hj]
    rw [e]
    apply lt_256_of_testBit
    intro t ht
    rw [hbits, specBit, if_neg (by omega)]
    exact testBit_false_of_lt_256 (hget j) ht
  · intro g
    unfold bitAt
    rw [hbits, specBit]
    have e : 8 * (g / 8) + 7 - (7 - g % 8) = g := by omega
    rw [e]
    by_cases hg : off ≤ g ∧ g < off + len
    · have h7 : 7 - g % 8 < 8 := by omega
      rw [if_pos ⟨h7, hg⟩, if_pos hg, wireBit, ← hwire, Nat.testBit_mod_two_pow]
      have e2 : len - 1 - (g - off) = off + len - 1 - g := by omega
      have e3 : off + len - 1 - g < len := by omega
      simp [e2, e3]
    · rw [if_neg (fun h => hg h.2), if_neg hg]

/-- 1. `put` succeeds (no panic in either build profile), advances the cursor by `len`, keeps the
buffer length and keeps every byte a byte. -/
theorem put_no_panic (cfg : Cfg) (it : IT) (data : List Nat) (off v len : Nat)
    (hw8 : 8 ≤ it.w) (hw64 : it.w ≤ 64) (h1 : 1 ≤ len) (hlw : len ≤ it.w)
    (hdata : ∀ d ∈ data, d < 256) (hfit : off + len ≤ 8 * data.length) (hv : v < 2 ^ it.w) :
    ∃ data', put cfg it data off v len = .ok (data', off + len) ∧
      data'.length = data.length ∧ ∀ d ∈ data', d < 256 := by
  obtain ⟨data', h, hl, hb, _⟩ := put_spec cfg it data off v len hw8 hw64 h1 hlw hdata hfit hv
  exact ⟨data', h, hl, hb⟩

/-- 2. the buffer after `put`: bits `off .. off+len` are the wire bits of `v`, most significant
first; every other bit is unchanged. -/
theorem put_bits (cfg : Cfg) (it : IT) (data : List Nat) (off v len : Nat)
    (hw8 : 8 ≤ it.w) (hw64 : it.w ≤ 64) (h1 : 1 ≤ len) (hlw : len ≤ it.w)
    (hdata : ∀ d ∈ data, d < 256) (hfit : off + len ≤ 8 * data.length) (hv : v < 2 ^ it.w)
    (data' : List Nat) (c : Nat) (hput : put cfg it data off v len = .ok (data', c)) (g : Nat) :
    bitAt data' g =
      if off ≤ g ∧ g < off + len then wireBit it len v (g - off) else bitAt data g := by
  obtain ⟨data'', h, _, _, hb⟩ := put_spec cfg it data off v len hw8 hw64 h1 hlw hdata hfit hv
  rw [hput] at h
  cases h
  exact hb g

/-- 3. `parse` succeeds (no panic in either build profile), advances the cursor by `len` and
returns the pattern decoded from the field's bits. -/
theorem parse_bits (cfg : Cfg) (it : IT) (data : List Nat) (off len : Nat)
    (hw8 : 8 ≤ it.w) (hw64 : it.w ≤ 64) (h1 : 1 ≤ len) (hlw : len ≤ it.w)
    (hfit : off + len ≤ 8 * data.length) :
    parse cfg it data off len = .ok (readValue it len (fieldValue data off len), off + len) := by
  rw [parse_eq_signFix cfg it hw8 hw64 h1 hlw hfit,
    signFix_eq cfg it h1 hlw (fieldValue_lt data off len)]
  rfl

theorem parse_no_panic (cfg : Cfg) (it : IT) (data : List Nat) (off len : Nat)
    (hw8 : 8 ≤ it.w) (hw64 : it.w ≤ 64) (h1 : 1 ≤ len) (hlw : len ≤ it.w)
    (hfit : off + len ≤ 8 * data.length) :
    ∃ x, parse cfg it data off len = .ok (x, off + len) :=
  ⟨_, parse_bits cfg it data off len hw8 hw64 h1 hlw hfit⟩

/-- 4. round trip: reading the position just written returns the written value, for every
representable value. -/
theorem parse_put (cfg : Cfg) (it : IT) (data : List Nat) (off v len : Nat)
    (hw8 : 8 ≤ it.w) (hw64 : it.w ≤ 64) (h1 : 1 ≤ len) (hlw : len ≤ it.w)
    (hdata : ∀ d ∈ data, d < 256) (hfit : off + len ≤ 8 * data.length) (hv : v < 2 ^ it.w)
    (hrep : Representable it len v)
    (data' : List Nat) (c : Nat) (hput : put cfg it data off v len = .ok (data', c)) :
    parse cfg it data' off len = .ok (v, off + len) := by
  obtain ⟨data'', h, hl, _, hb⟩ := put_spec cfg it data off v len hw8 hw64 h1 hlw hdata hfit hv
  rw [hput] at h
  cases h
  rw [parse_bits cfg it data' off len hw8 hw64 h1 hlw (by omega)]
  have hfv : fieldValue data' off len = wireValue it len v := by
    apply Nat.eq_of_testBit_eq
    intro m
    rw [testBit_fieldValue, hb]
    by_cases hm : m < len
    · have hg : off ≤ off + len - 1 - m ∧ off + len - 1 - m < off + len := by omega
      have e : len - 1 - (off + len - 1 - m - off) = m := by omega
      simp only [hm, decide_true, Bool.true_and, if_pos hg, wireBit, e]
    · have : wireValue it len v < 2 ^ m :=
        Nat.lt_of_lt_of_le (wireValue_lt it h1 v) (Nat.pow_le_pow_right (by decide) (by omega))
      simp [hm, Nat.testBit_lt_two_pow this]
  rw [hfv, readValue_wireValue it h1 hlw hv hrep]

/-! ### The three kinds spelled out -/

theorem parse_put_unsigned (cfg : Cfg) (w : Nat) (data : List Nat) (off v len : Nat)
    (hw8 : 8 ≤ w) (hw64 : w ≤ 64) (h1 : 1 ≤ len) (hlw : len ≤ w)
    (hdata : ∀ d ∈ data, d < 256) (hfit : off + len ≤ 8 * data.length)
    (hrep : v < 2 ^ len)
    (data' : List Nat) (c : Nat) (hput : put cfg ⟨.u, w⟩ data off v len = .ok (data', c)) :
    parse cfg ⟨.u, w⟩ data' off len = .ok (v, off + len) :=
  parse_put cfg ⟨.u, w⟩ data off v len hw8 hw64 h1 hlw hdata hfit
    (Nat.lt_of_lt_of_le hrep (Nat.pow_le_pow_right (by decide) hlw)) hrep data' c hput

theorem parse_put_signed (cfg : Cfg) (w : Nat) (data : List Nat) (off v len : Nat)
    (hw8 : 8 ≤ w) (hw64 : w ≤ 64) (h1 : 1 ≤ len) (hlw : len ≤ w)
    (hdata : ∀ d ∈ data, d < 256) (hfit : off + len ≤ 8 * data.length) (hv : v < 2 ^ w)
    (hlo : -((2 ^ (len - 1) : Nat) : Int) ≤ toInt w v)
    (hhi : toInt w v < ((2 ^ (len - 1) : Nat) : Int))
    (data' : List Nat) (c : Nat) (hput : put cfg ⟨.i, w⟩ data off v len = .ok (data', c)) :
    parse cfg ⟨.i, w⟩ data' off len = .ok (v, off + len) :=
  parse_put cfg ⟨.i, w⟩ data off v len hw8 hw64 h1 hlw hdata hfit hv ⟨hlo, hhi⟩ data' c hput

theorem parse_put_sign_magnitude (cfg : Cfg) (w : Nat) (data : List Nat) (off v len : Nat)
    (hw8 : 8 ≤ w) (hw64 : w ≤ 64) (h1 : 1 ≤ len) (hlw : len ≤ w)
    (hdata : ∀ d ∈ data, d < 256) (hfit : off + len ≤ 8 * data.length) (hv : v < 2 ^ w)
    (hlo : -((2 ^ (len - 1) : Nat) : Int) < toInt w v)
    (hhi : toInt w v < ((2 ^ (len - 1) : Nat) : Int))
    (data' : List Nat) (c : Nat) (hput : put cfg ⟨.sm, w⟩ data off v len = .ok (data', c)) :
    parse cfg ⟨.sm, w⟩ data' off len = .ok (v, off + len) :=
  parse_put cfg ⟨.sm, w⟩ data off v len hw8 hw64 h1 hlw hdata hfit hv ⟨hlo, hhi⟩ data' c hput

/-! ### What the wire bits mean -/

/-- signed (`I`) fields are written in two's complement: the `len` wire bits are the signed
reading of `v` modulo `2^len` -/
theorem wire_twos_complement (w len v : Nat) (hlw : len ≤ w) :
    ((wireValue ⟨.i, w⟩ len v : Nat) : Int) = toInt w v % ((2 ^ len : Nat) : Int) :=
  wireValue_i_eq w hlw

/-- sign-magnitude (`SM`) fields: a non-negative value is written as itself (sign bit 0), a
negative one as sign bit `2^(len-1)` plus its magnitude -/
theorem wire_sign_magnitude (w len v : Nat) (h1 : 1 ≤ len) (hlw : len ≤ w) (hv : v < 2 ^ w)
    (hr : Representable ⟨.sm, w⟩ len v) :
    ((wireValue ⟨.sm, w⟩ len v : Nat) : Int) =
      if toInt w v < 0 then ((2 ^ (len - 1) : Nat) : Int) + -(toInt w v) else toInt w v :=
  wireValue_sm_eq w h1 hlw hv hr

/-! ### The crate's unit-test vectors (`test_put`, `test_parse`), both build profiles -/

-- test_put 7: U16 27245, 16 bits at offset 9
example (cfg : Cfg) : put cfg ⟨.u, 16⟩ [0, 0, 0, 0] 9 27245 16 = .ok ([0, 53, 54, 128], 25) := by rfl
example (cfg : Cfg) : parse cfg ⟨.u, 16⟩ [0, 53, 54, 128] 9 16 = .ok (27245, 25) := by rfl
-- test_put: SM16 -1820 (pattern 63716), 12 bits at offset 12
example (cfg : Cfg) :
    put cfg ⟨.sm, 16⟩ [0xc3, 0x9a, 0xe3, 0xaa, 0xf0, 0xcc] 12 63716 12
      = .ok ([0xc3, 0x9f, 0x1c, 0xaa, 0xf0, 0xcc], 24) := by rfl
example (cfg : Cfg) :
    parse cfg ⟨.sm, 16⟩ [0xc3, 0x9f, 0x1c, 0xaa, 0xf0, 0xcc] 12 12 = .ok (63716, 24) := by rfl
example : toInt 16 63716 = -1820 := by decide
-- test_put: I8 -12 (pattern 244), 5 bits at offset 18
example (cfg : Cfg) :
    put cfg ⟨.i, 8⟩ [0xc3, 0x9a, 0xe3, 0xaa, 0xf0, 0xcc] 18 244 5
      = .ok ([0xc3, 0x9a, 0xe9, 0xaa, 0xf0, 0xcc], 23) := by rfl
example (cfg : Cfg) :
    parse cfg ⟨.i, 8⟩ [0xc3, 0x9a, 0xe9, 0xaa, 0xf0, 0xcc] 18 5 = .ok (244, 23) := by rfl
-- test_parse 1, 6, 7, 8, 9
example (cfg : Cfg) :
    parse cfg ⟨.u, 16⟩ [0xc3, 0x9a, 0xe3, 0xaa, 0xf0, 0xcc, 0xfe, 0xc3] 15 10
      = .ok (0b0111000111, 25) := by rfl
example (cfg : Cfg) :
    parse cfg ⟨.u, 32⟩ [0xc3, 0x9a, 0xe3, 0xaa, 0xf0, 0xcc, 0xfe, 0xc3] 4 32
      = .ok (0b00111001101011100011101010101111, 36) := by rfl
example (cfg : Cfg) :
    parse cfg ⟨.i, 8⟩ [0xc3, 0x9a, 0xe3, 0xaa, 0xf0, 0xcc, 0xfe, 0xc3] 18 5
      = .ok (0b11110001, 23) := by rfl
example (cfg : Cfg) :
    parse cfg ⟨.i, 8⟩ [0xc3, 0x9a, 0xe3, 0xaa, 0xf0, 0xcc, 0xfe, 0xc3] 54 8
      = .ok (0b10110000, 62) := by rfl
example (cfg : Cfg) :
    parse cfg ⟨.sm, 16⟩ [0xc3, 0x9a, 0xe3, 0xaa, 0xf0, 0xcc, 0xfe, 0xc3] 12 12
      = .ok (ofInt 16 (-0b1011100011), 24) := by rfl
-- a field that does not fit: error, no new state
example (cfg : Cfg) : put cfg ⟨.u, 16⟩ [0, 0, 0, 0] 17 1 16 = .err .bufferOverflow := by rfl
example (cfg : Cfg) : parse cfg ⟨.u, 16⟩ [0, 0, 0, 0] 17 16 = .err .bufferOverflow := by rfl

end Rtcm.C07
