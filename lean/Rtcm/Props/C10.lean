import Rtcm.Model.Msm
import Rtcm.Gen.Messages
import Rtcm.Props.C18
import Rtcm.Proofs.MsmLaws
import Mathlib.Data.List.Dedup
/-!
# C10  MSM satellite, signal and cell masks follow the standard for any input order

Model: `Msm.masks` (the mask computation of `msm_data_seg_frag!::encode`), `Msm.encode`, `Msm.decode`,
`Msm.maskIds` (`mask_to_id_vec_*`), `Msm.cellIds` (`cell_mask_id_vec`), `Msm.popcount` (`mask_len_*`).
All theorems are for an arbitrary signal table `tbl` with `C18.tableOk tbl = true` (identifiers distinct,
descriptors distinct, identifiers within 2..=32); `C18.tables_ok` proves this for the seven regenerated
constellation tables, `for_all_constellations` below instantiates the headline statement for them.

Vocabulary (definitions in `Rtcm/Proofs/MsmLaws.lean`, unfolded here by `pre_iff`, `sigIdSet_def`, `rankIn_def`):
* `Pre tbl sats sigs` : the encoder's preconditions (see `pre_iff`);
* `sigIdSet tbl sigs` : `G`, the distinct recognised signal identifiers used by the signal rows, ascending;
* `rankIn ids x`      : number of members of `ids` below `x`;
* satellites `S` are `sats.map (·.id)` (pairwise distinct under `Pre`, so `|S| = sats.length`).
-/
namespace Rtcm.C10
open Rtcm.Msm Rtcm.Schema Rtcm.MsmLaws

/-- the all-empty data segment has no masks to compute -/
theorem empty_segment (tbl : SigTable) : masks tbl [] [] = .ok none := by
  simp [masks]

/-- a satellite identifier of 0 or above 64 in the first satellite row is reported as such -/
theorem first_sat_invalid (tbl : SigTable) (s : SatRow) (rest : List SatRow) (sigs : List SigRow)
    (h : s.id = 0 ∨ 64 < s.id) : masks tbl (s :: rest) sigs = .err .invalidSatelliteId := by
  have hstep : satMaskStep (.ok 0) s = .err .invalidSatelliteId := by
    unfold satMaskStep
    have : ¬ (0 < s.id ∧ s.id ≤ 64) := by omega
    simp [this]
  have hfold : ∀ (l : List SatRow) (e : RtcmError), l.foldl satMaskStep (.err e) = .err e := by
    intro l e
    induction l with
    | nil => rfl
    | cons x xs ih => simpa [List.foldl_cons, satMaskStep] using ih
  simp [masks, List.foldl_cons, hstep, hfold]

/-! ## Vocabulary, spelled out -/

theorem sigIdSet_def (tbl : SigTable) (sigs : List SigRow) :
    sigIdSet tbl sigs =
      (List.range 33).filter fun i => sigs.any fun g => Sig.toId tbl g.band g.attr == some i := rfl

theorem rankIn_def (ids : List Nat) (x : Nat) : rankIn ids x = (ids.filter (· < x)).length := rfl

/-- `G` is exactly the set of identifiers of the signals used, without repetition, ascending -/
theorem sigIdSet_spec (tbl : SigTable) (hT : C18.tableOk tbl = true) (sigs : List SigRow) :
    (∀ i, i ∈ sigIdSet tbl sigs ↔ ∃ g ∈ sigs, Sig.toId tbl g.band g.attr = some i) ∧
    (sigIdSet tbl sigs).Pairwise (· < ·) ∧ (sigIdSet tbl sigs).Nodup := by
  refine ⟨fun i => mem_sigIdSet tbl (tableOk_of_bool tbl hT) sigs i, ?_, sigIdSet_nodup tbl sigs⟩
  exact List.Pairwise.filter _ List.pairwise_lt_range

/-- `|G|` is the number of distinct identifiers among the signal rows -/
theorem sigIdSet_length (tbl : SigTable) (hT : C18.tableOk tbl = true) (sigs : List SigRow) :
    (sigIdSet tbl sigs).length =
      ((sigs.filterMap fun g => Sig.toId tbl g.band g.attr).dedup).length := by
  apply List.Perm.length_eq
  rw [List.perm_ext_iff_of_nodup (sigIdSet_nodup tbl sigs) (List.nodup_dedup _)]
  intro i
  rw [mem_sigIdSet tbl (tableOk_of_bool tbl hT), List.mem_dedup, List.mem_filterMap]

/-- the precondition of the property: satellites `S` within 1..=64 and pairwise distinct; every signal row
has its satellite within 1..=64 and a recognised signal; the cells `(sat, band, attr)` pairwise distinct;
every satellite used by some cell and every cell's satellite listed; at least one satellite;
`|S| * |G| ≤ 64`. -/
theorem pre_iff (tbl : SigTable) (sats : List SatRow) (sigs : List SigRow) :
    Pre tbl sats sigs ↔
      (∀ r ∈ sats, 1 ≤ r.id ∧ r.id ≤ 64) ∧
      (sats.map (·.id)).Nodup ∧
      (∀ g ∈ sigs, 1 ≤ g.sat ∧ g.sat ≤ 64) ∧
      (∀ g ∈ sigs, ∃ i, Sig.toId tbl g.band g.attr = some i) ∧
      (sigs.map fun g => (g.sat, g.band, g.attr)).Nodup ∧
      (∀ r ∈ sats, ∃ g ∈ sigs, g.sat = r.id) ∧
      (∀ g ∈ sigs, ∃ r ∈ sats, r.id = g.sat) ∧
      sats ≠ [] ∧
      sats.length * (sigIdSet tbl sigs).length ≤ 64 :=
  ⟨fun P => ⟨P.1, P.2, P.3, P.4, P.5, P.6, P.7, P.8, P.9⟩,
   fun ⟨h1, h2, h3, h4, h5, h6, h7, h8, h9⟩ => ⟨h1, h2, h3, h4, h5, h6, h7, h8, h9⟩⟩

/-! ## 1. The masks under the preconditions -/

/-- what the property says about the four values `encode` writes -/
structure MaskSpec (tbl : SigTable) (sats : List SatRow) (sigs : List SigRow)
    (satMask sigMask cellMask cellLen : Nat) : Prop where
  /-- satellite mask: exactly bit `s` (MSB = 1) set for `s ∈ S` -/
  sat_bits : ∀ s, 1 ≤ s → s ≤ 64 → (satMask.testBit (64 - s) = true ↔ ∃ r ∈ sats, r.id = s)
  sat_lt : satMask < 2 ^ 64
  /-- signal mask: exactly the bits of the signals' identifiers -/
  sig_bits : ∀ i, 1 ≤ i → i ≤ 32 →
    (sigMask.testBit (32 - i) = true ↔ ∃ g ∈ sigs, Sig.toId tbl g.band g.attr = some i)
  sig_lt : sigMask < 2 ^ 32
  /-- the number of mask cells is `|S| * |G|`, as counted from the masks, within 1..=64 -/
  popcount_sat : popcount 64 satMask = sats.length
  popcount_sig : popcount 32 sigMask = (sigIdSet tbl sigs).length
  cellLen_eq : cellLen = sats.length * (sigIdSet tbl sigs).length
  cellLen_pos : 1 ≤ cellLen
  cellLen_le : cellLen ≤ 64
  cell_lt : cellMask < 2 ^ cellLen
  /-- the row index the encoder computes from the satellite mask is the rank of the satellite in `S` -/
  sat_rank : ∀ r ∈ sats, rankOf 64 satMask r.id = rankIn (sats.map (·.id)) r.id ∧
    rankIn (sats.map (·.id)) r.id < sats.length
  /-- the column index the encoder computes from the signal mask is the rank of the identifier in `G` -/
  sig_rank : ∀ i ∈ sigIdSet tbl sigs, rankOf 32 sigMask i = rankIn (sigIdSet tbl sigs) i ∧
    rankIn (sigIdSet tbl sigs) i < (sigIdSet tbl sigs).length
  /-- cell mask: row-major `S × G` incidence of the cells, MSB first -/
  cell_bits : ∀ s i, (∃ r ∈ sats, r.id = s) → i ∈ sigIdSet tbl sigs →
    (cellMask.testBit (cellLen - 1 -
        (rankIn (sats.map (·.id)) s * (sigIdSet tbl sigs).length + rankIn (sigIdSet tbl sigs) i)) = true ↔
      ∃ g ∈ sigs, g.sat = s ∧ Sig.toId tbl g.band g.attr = some i)
  /-- every listed cell's index is below `cellLen` (`cell_cont_len - 1 - cell_indx` does not underflow) -/
  cell_idx_lt : ∀ g ∈ sigs,
    rankOf 64 satMask g.sat * popcount 32 sigMask + rankOf 32 sigMask (sigIdOf tbl g) < cellLen

theorem spec_of_pre (tbl : SigTable) (hT : C18.tableOk tbl = true) (sats : List SatRow) (sigs : List SigRow)
    (P : Pre tbl sats sigs) :
    MaskSpec tbl sats sigs (satMaskOf sats) (sigMaskOf tbl sigs) (cellMaskOf tbl sats sigs)
      ((sigIdSet tbl sigs).length * sats.length) := by
  have hT' := tableOk_of_bool tbl hT
  have G := P.good
  have hlen : (sigIdSet tbl sigs).length * sats.length = sats.length * (sigIdSet tbl sigs).length :=
    Nat.mul_comm _ _
  refine
    { sat_bits := fun s h1 h2 => satMaskOf_bit_id sats P.sat_range s h1 h2
      sat_lt := satMaskOf_lt sats P.sat_range
      sig_bits := fun i h1 h2 => sigMaskOf_bit_id tbl hT' sigs P.sig_known i h1 h2
      sig_lt := sigMaskOf_lt tbl hT' sigs P.sig_known
      popcount_sat := G.popcount_sat hT'
      popcount_sig := G.popcount_sig hT'
      cellLen_eq := hlen
      cellLen_pos := G.cellLen_pos hT'
      cellLen_le := by rw [hlen]; exact P.cells_le
      cell_lt := G.cellMaskOf_lt hT'
      sat_rank := fun r hr => ?_
      sig_rank := fun i hi => ?_
      cell_bits := fun s i hs hi => ?_
      cell_idx_lt := fun g hg => ?_ }
  · have := (P.sat_range r hr)
    refine ⟨G.sat_rank hT' r.id (by omega), ?_⟩
    have h := rankIn_lt_length (sats.map (·.id)) r.id (List.mem_map.mpr ⟨r, hr, rfl⟩)
    rwa [List.length_map] at h
  · have := sigIdSet_range tbl hT' sigs i hi
    exact ⟨G.sig_rank hT' i (by omega), rankIn_lt_length _ _ hi⟩
  · rw [hlen]
    obtain ⟨r, hr, rfl⟩ := hs
    exact G.cell_incidence hT' r.id i (List.mem_map.mpr ⟨r, hr, rfl⟩) hi
  · rw [G.popcount_sig hT', (G.cell_idx hT' g hg).1, hlen]
    exact (G.cell_idx hT' g hg).2

/-- **masks_ok**: under the preconditions the encoder computes masks, and they satisfy `MaskSpec` -/
theorem masks_ok (tbl : SigTable) (hT : C18.tableOk tbl = true) (sats : List SatRow) (sigs : List SigRow)
    (P : Pre tbl sats sigs) :
    ∃ satMask sigMask cellMask cellLen,
      masks tbl sats sigs = .ok (some (satMask, sigMask, cellMask, cellLen)) ∧
      MaskSpec tbl sats sigs satMask sigMask cellMask cellLen :=
  ⟨_, _, _, _, masks_pre tbl (tableOk_of_bool tbl hT) sats sigs P, spec_of_pre tbl hT sats sigs P⟩

/-- the same, for whatever values `masks` returned -/
theorem masks_spec (tbl : SigTable) (hT : C18.tableOk tbl = true) (sats : List SatRow) (sigs : List SigRow)
    (P : Pre tbl sats sigs) (satMask sigMask cellMask cellLen : Nat)
    (h : masks tbl sats sigs = .ok (some (satMask, sigMask, cellMask, cellLen))) :
    MaskSpec tbl sats sigs satMask sigMask cellMask cellLen := by
  rw [masks_pre tbl (tableOk_of_bool tbl hT) sats sigs P] at h
  injection h with h; injection h with h
  simp only [Prod.mk.injEq] at h
  obtain ⟨rfl, rfl, rfl, rfl⟩ := h
  exact spec_of_pre tbl hT sats sigs P

/-- satellite mask: exactly bit `s` (counting the most significant bit of the 64 as 1) is set for `s ∈ S` -/
theorem sat_mask_bits (tbl : SigTable) (hT : C18.tableOk tbl = true) (sats : List SatRow) (sigs : List SigRow)
    (P : Pre tbl sats sigs) (satMask sigMask cellMask cellLen : Nat)
    (h : masks tbl sats sigs = .ok (some (satMask, sigMask, cellMask, cellLen))) :
    (∀ s, 1 ≤ s → s ≤ 64 → (satMask.testBit (64 - s) = true ↔ ∃ r ∈ sats, r.id = s)) ∧ satMask < 2 ^ 64 :=
  have S := masks_spec tbl hT sats sigs P _ _ _ _ h
  ⟨S.sat_bits, S.sat_lt⟩

/-- signal mask: exactly the bits of the signals' identifiers (most significant bit of the 32 is 1) -/
theorem sig_mask_bits (tbl : SigTable) (hT : C18.tableOk tbl = true) (sats : List SatRow) (sigs : List SigRow)
    (P : Pre tbl sats sigs) (satMask sigMask cellMask cellLen : Nat)
    (h : masks tbl sats sigs = .ok (some (satMask, sigMask, cellMask, cellLen))) :
    (∀ i, 1 ≤ i → i ≤ 32 →
      (sigMask.testBit (32 - i) = true ↔ ∃ g ∈ sigs, Sig.toId tbl g.band g.attr = some i)) ∧
    sigMask < 2 ^ 32 :=
  have S := masks_spec tbl hT sats sigs P _ _ _ _ h
  ⟨S.sig_bits, S.sig_lt⟩

/-- the cell mask has `|S| * |G|` bits, 1..=64, which is also what the decoder recomputes from the masks -/
theorem cell_len (tbl : SigTable) (hT : C18.tableOk tbl = true) (sats : List SatRow) (sigs : List SigRow)
    (P : Pre tbl sats sigs) (satMask sigMask cellMask cellLen : Nat)
    (h : masks tbl sats sigs = .ok (some (satMask, sigMask, cellMask, cellLen))) :
    cellLen = sats.length * (sigIdSet tbl sigs).length ∧
    cellLen = popcount 64 satMask * popcount 32 sigMask ∧
    1 ≤ cellLen ∧ cellLen ≤ 64 ∧ cellMask < 2 ^ cellLen := by
  have S := masks_spec tbl hT sats sigs P _ _ _ _ h
  exact ⟨S.cellLen_eq, by rw [S.popcount_sat, S.popcount_sig]; exact S.cellLen_eq, S.cellLen_pos,
    S.cellLen_le, S.cell_lt⟩

/-- cell mask: for satellite `s ∈ S` of rank `a` and identifier `i ∈ G` of rank `b`, bit `a * |G| + b`
counted from the most significant of the `cellLen` bits is set exactly when `(s, i)` is a listed cell;
`a`, `b` are the indices the encoder derives from the two masks (`rankOf`). -/
theorem cell_mask_incidence (tbl : SigTable) (hT : C18.tableOk tbl = true) (sats : List SatRow)
    (sigs : List SigRow) (P : Pre tbl sats sigs) (satMask sigMask cellMask cellLen : Nat)
    (h : masks tbl sats sigs = .ok (some (satMask, sigMask, cellMask, cellLen)))
    (s i : Nat) (hs : ∃ r ∈ sats, r.id = s) (hi : i ∈ sigIdSet tbl sigs) :
    rankOf 64 satMask s = rankIn (sats.map (·.id)) s ∧ rankIn (sats.map (·.id)) s < sats.length ∧
    rankOf 32 sigMask i = rankIn (sigIdSet tbl sigs) i ∧
    rankIn (sigIdSet tbl sigs) i < (sigIdSet tbl sigs).length ∧
    (cellMask.testBit (cellLen - 1 -
        (rankIn (sats.map (·.id)) s * (sigIdSet tbl sigs).length + rankIn (sigIdSet tbl sigs) i)) = true ↔
      ∃ g ∈ sigs, g.sat = s ∧ Sig.toId tbl g.band g.attr = some i) := by
  have S := masks_spec tbl hT sats sigs P _ _ _ _ h
  obtain ⟨r, hr, rfl⟩ := hs
  exact ⟨(S.sat_rank r hr).1, (S.sat_rank r hr).2, (S.sig_rank i hi).1, (S.sig_rank i hi).2,
    S.cell_bits r.id i ⟨r, hr, rfl⟩ hi⟩

/-! ## 2. Order independence -/

/-- **perm_invariant**: the masks depend only on the sets of rows, not on the order the caller listed them -/
theorem perm_invariant (tbl : SigTable) (hT : C18.tableOk tbl = true) (sats sats' : List SatRow)
    (sigs sigs' : List SigRow) (P : Pre tbl sats sigs) (hs : sats'.Perm sats) (hg : sigs'.Perm sigs) :
    masks tbl sats' sigs' = masks tbl sats sigs :=
  masks_perm tbl (tableOk_of_bool tbl hT) sats sats' sigs sigs' P hs hg

/-- the preconditions themselves do not depend on the order -/
theorem pre_perm (tbl : SigTable) (sats sats' : List SatRow) (sigs sigs' : List SigRow)
    (P : Pre tbl sats sigs) (hs : sats'.Perm sats) (hg : sigs'.Perm sigs) : Pre tbl sats' sigs' :=
  P.perm hs hg

/-- the sorted rows written after the masks are the same for every listing order -/
theorem sorted_rows_perm_invariant (tbl : SigTable) (hT : C18.tableOk tbl = true) (sats sats' : List SatRow)
    (sigs sigs' : List SigRow) (P : Pre tbl sats sigs) (hs : sats'.Perm sats) (hg : sigs'.Perm sigs) :
    Sig.sortBy (fun a b : SatRow => a.id ≤ b.id) sats' = Sig.sortBy (fun a b : SatRow => a.id ≤ b.id) sats ∧
    Sig.sortBy (sigLe tbl) sigs' = Sig.sortBy (sigLe tbl) sigs :=
  ⟨sats_sort_perm sats sats' P.sat_distinct hs,
   sigs_sort_perm tbl (tableOk_of_bool tbl hT) sigs sigs' P.cell_distinct hg⟩

/-- **encode_perm_invariant**: the whole data segment is encoded identically for every listing order -/
theorem encode_perm_invariant (cfg : Cfg) (tbl : SigTable) (hT : C18.tableOk tbl = true)
    (satFields sigFields : List (String × DfSpec)) (sats sats' : List SatRow) (sigs sigs' : List SigRow)
    (P : Pre tbl sats sigs) (hs : sats'.Perm sats) (hg : sigs'.Perm sigs) (c : Cur) :
    Msm.encode cfg tbl satFields sigFields sats' sigs' c = Msm.encode cfg tbl satFields sigFields sats sigs c := by
  have h := sorted_rows_perm_invariant tbl hT sats sats' sigs sigs' P hs hg
  unfold Msm.encode
  rw [perm_invariant tbl hT sats sats' sigs sigs' P hs hg, h.1, h.2]

/-! ## 3. Row order -/

/-- **rows_sorted**: the rows `encode` writes are a rearrangement of the caller's rows in ascending
satellite order, resp. ascending (satellite, signal identifier) order — strictly, so without ties. -/
theorem rows_sorted (tbl : SigTable) (hT : C18.tableOk tbl = true) (sats : List SatRow) (sigs : List SigRow)
    (P : Pre tbl sats sigs) :
    (Sig.sortBy (fun a b : SatRow => a.id ≤ b.id) sats).Perm sats ∧
    (Sig.sortBy (fun a b : SatRow => a.id ≤ b.id) sats).Pairwise (fun a b => a.id < b.id) ∧
    (Sig.sortBy (sigLe tbl) sigs).Perm sigs ∧
    (Sig.sortBy (sigLe tbl) sigs).Pairwise
      (fun a b => a.sat < b.sat ∨ (a.sat = b.sat ∧ sigIdOf tbl a < sigIdOf tbl b)) :=
  ⟨sortBy_perm _ sats, sats_sorted_strict sats P.sat_distinct, sortBy_perm _ sigs,
   sigs_sorted_strict tbl (tableOk_of_bool tbl hT).ids_nodup sigs P.sig_known P.cell_distinct⟩

/-- the sort is unambiguous: *any* rearrangement of the rows that is ascending for the comparison the Rust
code passes to `sort_unstable_by` is the list `Sig.sortBy` returns (keys are distinct under `Pre`), so modelling
the unstable sort by an insertion sort loses nothing -/
theorem sorted_rows_unique (tbl : SigTable) (hT : C18.tableOk tbl = true) (sats : List SatRow)
    (sigs : List SigRow) (P : Pre tbl sats sigs) :
    (∀ s : List SatRow, s.Perm sats → s.Pairwise (fun a b => a.id ≤ b.id) →
      Sig.sortBy (fun a b : SatRow => a.id ≤ b.id) sats = s) ∧
    (∀ s : List SigRow, s.Perm sigs → s.Pairwise (fun a b => sigLe tbl a b = true) →
      Sig.sortBy (sigLe tbl) sigs = s) := by
  have hT' := tableOk_of_bool tbl hT
  constructor
  · intro s hp hs
    apply sortBy_unique satLe satLe_total satLe_trans sats s hp
    · exact hs.imp (fun h => by simpa [satLe] using h)
    · intro a ha b hb h1 h2
      simp only [satLe, decide_eq_true_eq] at h1 h2
      exact List.inj_on_of_nodup_map P.sat_distinct ha hb (by omega)
  · intro s hp hs
    apply sortBy_unique (sigLe tbl) (sigLe_total tbl hT'.ids_nodup) (sigLe_trans tbl hT'.ids_nodup) sigs s hp hs
    intro a ha b hb h1 h2
    exact List.inj_on_of_nodup_map P.cell_distinct ha hb (sigLe_antisymm_key tbl hT'.ids_nodup a b h1 h2)

/-- `sigIdOf` is the row's signal identifier -/
theorem sigIdOf_spec (tbl : SigTable) (g : SigRow) (i : Nat) (h : Sig.toId tbl g.band g.attr = some i) :
    sigIdOf tbl g = i := sigIdOf_eq tbl g i h

/-! ## 4. Rejections, in the order in which the encoder tests

Each theorem assumes that no earlier test fired. `pre ++ r :: post` singles out the first offending row. -/

/-- a satellite row with identifier 0 or above 64, all earlier rows being in range and distinct -/
theorem err_invalid_satellite (tbl : SigTable) (pre post : List SatRow) (r : SatRow) (sigs : List SigRow)
    (hpre : ∀ x ∈ pre, 1 ≤ x.id ∧ x.id ≤ 64) (hnd : (pre.map (·.id)).Nodup)
    (hr : r.id = 0 ∨ 64 < r.id) :
    masks tbl (pre ++ r :: post) sigs = .err .invalidSatelliteId :=
  masks_sat_err tbl _ sigs _ (satFold_invalid pre post r hpre hnd (by unfold SatIn; omega))

/-- a satellite row repeating an earlier identifier -/
theorem err_duplicate_satellite (tbl : SigTable) (pre post : List SatRow) (r : SatRow) (sigs : List SigRow)
    (hpre : ∀ x ∈ pre, 1 ≤ x.id ∧ x.id ≤ 64) (hnd : (pre.map (·.id)).Nodup)
    (hr : 1 ≤ r.id ∧ r.id ≤ 64) (hdup : ∃ x ∈ pre, x.id = r.id) :
    masks tbl (pre ++ r :: post) sigs = .err .duplicateSatellite :=
  masks_sat_err tbl _ sigs _ (satFold_dup pre post r hpre hnd hr (by
    obtain ⟨x, hx, e⟩ := hdup; exact List.mem_map.mpr ⟨x, hx, e⟩))

/-- satellite rows fine; a signal row whose satellite is 0 or above 64, earlier signal rows being fine -/
theorem err_signal_row_invalid_satellite (tbl : SigTable) (hT : C18.tableOk tbl = true) (sats : List SatRow)
    (pre post : List SigRow) (g : SigRow)
    (hs : ∀ r ∈ sats, 1 ≤ r.id ∧ r.id ≤ 64) (hsd : (sats.map (·.id)).Nodup)
    (hpre : ∀ x ∈ pre, (1 ≤ x.sat ∧ x.sat ≤ 64) ∧ ∃ i, Sig.toId tbl x.band x.attr = some i)
    (hg : g.sat = 0 ∨ 64 < g.sat) :
    masks tbl sats (pre ++ g :: post) = .err .invalidSatelliteId :=
  masks_sig_err tbl sats _ _ _ (satFold_good sats hs hsd)
    (sigFold_invalid tbl (tableOk_of_bool tbl hT) pre post g _ hpre (by unfold SigIn; omega))

/-- satellite rows fine; a signal row with an unrecognised signal, earlier signal rows being fine -/
theorem err_unrecognised_signal (tbl : SigTable) (hT : C18.tableOk tbl = true) (sats : List SatRow)
    (pre post : List SigRow) (g : SigRow)
    (hs : ∀ r ∈ sats, 1 ≤ r.id ∧ r.id ≤ 64) (hsd : (sats.map (·.id)).Nodup)
    (hpre : ∀ x ∈ pre, (1 ≤ x.sat ∧ x.sat ≤ 64) ∧ ∃ i, Sig.toId tbl x.band x.attr = some i)
    (hg : 1 ≤ g.sat ∧ g.sat ≤ 64) (hu : Sig.toId tbl g.band g.attr = none) :
    masks tbl sats (pre ++ g :: post) = .err .invalidSignalId :=
  masks_sig_err tbl sats _ _ _ (satFold_good sats hs hsd)
    (sigFold_unknown tbl (tableOk_of_bool tbl hT) pre post g _ hpre hg hu)

/-- all rows individually fine, but the satellites of the satellite rows and of the signal rows differ -/
theorem err_satellite_mismatch (tbl : SigTable) (hT : C18.tableOk tbl = true) (sats : List SatRow)
    (sigs : List SigRow)
    (hs : ∀ r ∈ sats, 1 ≤ r.id ∧ r.id ≤ 64) (hsd : (sats.map (·.id)).Nodup)
    (hg : ∀ x ∈ sigs, (1 ≤ x.sat ∧ x.sat ≤ 64) ∧ ∃ i, Sig.toId tbl x.band x.attr = some i)
    (hne : sats ≠ [] ∨ sigs ≠ [])
    (hmis : (∃ r ∈ sats, ∀ g ∈ sigs, g.sat ≠ r.id) ∨ (∃ g ∈ sigs, ∀ r ∈ sats, r.id ≠ g.sat)) :
    masks tbl sats sigs = .err .satelliteMismatch := by
  apply masks_mismatch tbl (tableOk_of_bool tbl hT) sats sigs ⟨hs, hsd⟩ hg hne
  rintro ⟨h1, h2⟩
  rcases hmis with ⟨r, hr, h⟩ | ⟨g, hg', h⟩
  · obtain ⟨g, hg', e⟩ := h1 r hr; exact h g hg' e
  · obtain ⟨r, hr, e⟩ := h2 g hg'; exact h r hr e

/-- rows fine and consistent, but more than 64 mask cells -/
theorem err_too_many_cells (tbl : SigTable) (hT : C18.tableOk tbl = true) (sats : List SatRow)
    (sigs : List SigRow)
    (hs : ∀ r ∈ sats, 1 ≤ r.id ∧ r.id ≤ 64) (hsd : (sats.map (·.id)).Nodup)
    (hg : ∀ x ∈ sigs, (1 ≤ x.sat ∧ x.sat ≤ 64) ∧ ∃ i, Sig.toId tbl x.band x.attr = some i)
    (h1 : ∀ r ∈ sats, ∃ g ∈ sigs, g.sat = r.id) (h2 : ∀ g ∈ sigs, ∃ r ∈ sats, r.id = g.sat)
    (hne : sats ≠ []) (hlen : 64 < sats.length * (sigIdSet tbl sigs).length) :
    masks tbl sats sigs = .err .invalidSatelliteSignalCount :=
  masks_too_many tbl (tableOk_of_bool tbl hT) sats sigs ⟨hs, hsd, hg, h1, h2, hne⟩ hlen

/-- rows fine and consistent, at most 64 mask cells, but a cell listed twice -/
theorem err_duplicate_cell (tbl : SigTable) (hT : C18.tableOk tbl = true) (sats : List SatRow)
    (sigs : List SigRow)
    (hs : ∀ r ∈ sats, 1 ≤ r.id ∧ r.id ≤ 64) (hsd : (sats.map (·.id)).Nodup)
    (hg : ∀ x ∈ sigs, (1 ≤ x.sat ∧ x.sat ≤ 64) ∧ ∃ i, Sig.toId tbl x.band x.attr = some i)
    (h1 : ∀ r ∈ sats, ∃ g ∈ sigs, g.sat = r.id) (h2 : ∀ g ∈ sigs, ∃ r ∈ sats, r.id = g.sat)
    (hne : sats ≠ []) (hlen : sats.length * (sigIdSet tbl sigs).length ≤ 64)
    (hdup : ¬ (sigs.map fun g => (g.sat, g.band, g.attr)).Nodup) :
    masks tbl sats sigs = .err .duplicateSatelliteSignal := by
  obtain ⟨pre, g, post, e, hp, hd⟩ := exists_first_dup_map _ sigs hdup
  exact masks_dup_cell tbl (tableOk_of_bool tbl hT) sats sigs ⟨hs, hsd, hg, h1, h2, hne⟩ hlen pre post g e hp hd

/-- **Complete decision list.** Exactly one of: both lists empty (nothing to compute); the preconditions
hold and the masks are produced; the preconditions fail and one of the six MSM errors is reported.
In particular `masks` never panics for a table with identifiers within 2..=32. -/
theorem masks_classification (tbl : SigTable) (hT : C18.tableOk tbl = true) (sats : List SatRow)
    (sigs : List SigRow) :
    (sats = [] ∧ sigs = [] ∧ masks tbl sats sigs = .ok none) ∨
    (Pre tbl sats sigs ∧ ∃ v, masks tbl sats sigs = .ok (some v)) ∨
    (¬ Pre tbl sats sigs ∧ ¬ (sats = [] ∧ sigs = []) ∧
      ∃ e ∈ [RtcmError.invalidSatelliteId, .duplicateSatellite, .invalidSignalId, .satelliteMismatch,
             .invalidSatelliteSignalCount, .duplicateSatelliteSignal], masks tbl sats sigs = .err e) := by
  rcases masks_classify tbl (tableOk_of_bool tbl hT) sats sigs with h | ⟨P, h⟩ | h
  · exact Or.inl h
  · exact Or.inr (Or.inl ⟨P, _, h⟩)
  · exact Or.inr (Or.inr h)

/-- masks are produced exactly for inputs satisfying the preconditions -/
theorem masks_ok_iff_pre (tbl : SigTable) (hT : C18.tableOk tbl = true) (sats : List SatRow)
    (sigs : List SigRow) : (∃ v, masks tbl sats sigs = .ok (some v)) ↔ Pre tbl sats sigs := by
  constructor
  · rintro ⟨v, hv⟩
    rcases masks_classification tbl hT sats sigs with ⟨_, _, h⟩ | ⟨P, _⟩ | ⟨_, _, e, _, h⟩
    · rw [h] at hv; injection hv with hv; cases hv
    · exact P
    · rw [h] at hv; cases hv
  · intro P
    exact ⟨_, masks_pre tbl (tableOk_of_bool tbl hT) sats sigs P⟩

/-- inputs that break the preconditions are rejected instead of being encoded: `encode` returns the error
of `masks` without writing anything -/
theorem encode_rejects (cfg : Cfg) (tbl : SigTable) (satFields sigFields : List (String × DfSpec))
    (sats : List SatRow) (sigs : List SigRow) (c : Cur) (e : RtcmError)
    (h : masks tbl sats sigs = .err e) :
    Msm.encode cfg tbl satFields sigFields sats sigs c = .err e := by
  unfold Msm.encode; rw [h]

/-! ## 5. Decode side -/

/-- `mask_to_id_vec_*`: the identifiers of the set bits, strictly ascending, each within `1..=bits`, as many
as `mask_len_*` counts -/
theorem mask_ids_sorted (bits m : Nat) :
    (maskIds bits m).Pairwise (· < ·) ∧
    (∀ s, s ∈ maskIds bits m ↔ 1 ≤ s ∧ s ≤ bits ∧ m.testBit (bits - s) = true) ∧
    (maskIds bits m).length = popcount bits m :=
  ⟨maskIds_sorted bits m, mem_maskIds bits m, maskIds_length bits m⟩

/-- `cell_mask_id_vec`: the cells come out in strictly ascending (satellite, identifier) order — hence without
duplicates — and only combine satellites of the satellite mask with identifiers of the signal mask -/
theorem cell_ids_sorted (satMask sigMask cellMask : Nat) :
    (cellIds (maskIds 64 satMask) (maskIds 32 sigMask) cellMask).Pairwise
      (fun a b => a.1 < b.1 ∨ (a.1 = b.1 ∧ a.2 < b.2)) ∧
    (cellIds (maskIds 64 satMask) (maskIds 32 sigMask) cellMask).Nodup ∧
    ∀ c ∈ cellIds (maskIds 64 satMask) (maskIds 32 sigMask) cellMask,
      c.1 ∈ maskIds 64 satMask ∧ c.2 ∈ maskIds 32 sigMask := by
  have h : (cellIds (maskIds 64 satMask) (maskIds 32 sigMask) cellMask).Pairwise lexLt :=
    cellIds_sorted _ _ _ (maskIds_sorted _ _) (maskIds_sorted _ _)
  refine ⟨h, h.imp ?_, fun c hc => cellIds_mem_prod _ _ _ c hc⟩
  rintro a b hab rfl
  unfold lexLt at hab; omega

/-- **decode_returns_sorted_sets**: a successful `decode` either read two zero masks (empty segment) or
* checked `1 ≤ satLen * sigLen ≤ 64` before reading the cell mask with exactly that length (so the bit
  reader is never asked for 0 or more than 64 bits),
* returns the satellites of the satellite mask, strictly ascending, each within 1..=64,
* returns one signal row per set cell, in strictly ascending (satellite, identifier) order, whose
  satellite is the cell's and whose `(band, attr)` is the table's signal for the cell's identifier. -/
theorem decode_returns_sorted_sets (cfg : Cfg) (tbl : SigTable) (satFields sigFields : List (String × DfSpec))
    (c c' : Cur) (sats : List SatRow) (sigs : List SigRow)
    (h : Msm.decode cfg tbl satFields sigFields c = .ok (sats, sigs, c')) :
    ∃ satMask c1 sigMask c2,
      Text.parseU cfg 64 64 c = .ok (satMask, c1) ∧ Text.parseU cfg 32 32 c1 = .ok (sigMask, c2) ∧
      ((satMask = 0 ∧ sigMask = 0 ∧ sats = [] ∧ sigs = [] ∧ c' = c2) ∨
       (¬ (satMask = 0 ∧ sigMask = 0) ∧
        1 ≤ popcount 64 satMask * popcount 32 sigMask ∧ popcount 64 satMask * popcount 32 sigMask ≤ 64 ∧
        ∃ cellMask c3,
          Text.parseU cfg 64 (popcount 64 satMask * popcount 32 sigMask) c2 = .ok (cellMask, c3) ∧
          sats.map (·.id) = maskIds 64 satMask ∧
          (sats.map (·.id)).Pairwise (· < ·) ∧
          (∀ r ∈ sats, 1 ≤ r.id ∧ r.id ≤ 64) ∧
          sats.length = popcount 64 satMask ∧
          List.Forall₂ (fun cell g => g.sat = cell.1 ∧ Sig.toSig tbl cell.2 = some (g.band, g.attr))
            (cellIds (maskIds 64 satMask) (maskIds 32 sigMask) cellMask) sigs ∧
          (cellIds (maskIds 64 satMask) (maskIds 32 sigMask) cellMask).Pairwise
            (fun a b => a.1 < b.1 ∨ (a.1 = b.1 ∧ a.2 < b.2)))) := by
  obtain ⟨satMask, c1, sigMask, c2, h1, h2, h3⟩ := decode_ok_shape cfg tbl satFields sigFields c c' sats sigs h
  refine ⟨satMask, c1, sigMask, c2, h1, h2, ?_⟩
  rcases h3 with h3 | ⟨hz, hlo, hhi, cellMask, c3, h4, h5, h6⟩
  · exact Or.inl h3
  · right
    refine ⟨hz, hlo, hhi, cellMask, c3, h4, h5, ?_, ?_, ?_, ?_, (cell_ids_sorted satMask sigMask cellMask).1⟩
    · rw [h5]; exact maskIds_sorted _ _
    · intro r hr
      have : r.id ∈ maskIds 64 satMask := by rw [← h5]; exact List.mem_map.mpr ⟨r, hr, rfl⟩
      have := (mem_maskIds 64 satMask r.id).mp this
      exact ⟨this.1, this.2.1⟩
    · rw [← maskIds_length, ← h5, List.length_map]
    · have := lookupSigs_ok tbl _ _ h6
      rw [List.forall₂_map_right_iff] at this
      exact this

/-- a mask pair announcing no cell or more than 64 cells is rejected before the cell mask is read -/
theorem decode_rejects_bad_count (cfg : Cfg) (tbl : SigTable) (satFields sigFields : List (String × DfSpec))
    (c c1 c2 : Cur) (satMask sigMask : Nat)
    (h1 : Text.parseU cfg 64 64 c = .ok (satMask, c1)) (h2 : Text.parseU cfg 32 32 c1 = .ok (sigMask, c2))
    (hz : ¬ (satMask = 0 ∧ sigMask = 0))
    (hbad : popcount 64 satMask * popcount 32 sigMask > 64 ∨ popcount 64 satMask * popcount 32 sigMask = 0) :
    Msm.decode cfg tbl satFields sigFields c = .err .invalidSatelliteSignalCount := by
  unfold Msm.decode
  rw [h1]; simp only []; rw [h2]; simp only []
  rw [if_neg hz, if_pos hbad]

/-- **decode inverts the masks**: from the masks computed by the encoder, the decoder's `mask_len_*`,
`mask_to_id_vec_*`, `cell_mask_id_vec` and `to_sig` recover the satellites in ascending order, the set `G`,
the cell-mask length, and the cells in ascending (satellite, identifier) order — i.e. exactly the keys of the
rows in the order in which `encode` wrote them. -/
theorem decode_inverts_masks (tbl : SigTable) (hT : C18.tableOk tbl = true) (sats : List SatRow)
    (sigs : List SigRow) (P : Pre tbl sats sigs) (satMask sigMask cellMask cellLen : Nat)
    (h : masks tbl sats sigs = .ok (some (satMask, sigMask, cellMask, cellLen))) :
    ¬ (satMask = 0 ∧ sigMask = 0) ∧
    popcount 64 satMask * popcount 32 sigMask = cellLen ∧
    maskIds 64 satMask = (Sig.sortBy (fun a b : SatRow => a.id ≤ b.id) sats).map (·.id) ∧
    maskIds 32 sigMask = sigIdSet tbl sigs ∧
    cellIds (maskIds 64 satMask) (maskIds 32 sigMask) cellMask =
      (Sig.sortBy (sigLe tbl) sigs).map (fun g => (g.sat, sigIdOf tbl g)) ∧
    lookupSigs tbl (cellIds (maskIds 64 satMask) (maskIds 32 sigMask) cellMask) =
      .ok ((Sig.sortBy (sigLe tbl) sigs).map fun g => (g.sat, g.band, g.attr)) := by
  have hT' := tableOk_of_bool tbl hT
  have S := masks_spec tbl hT sats sigs P _ _ _ _ h
  rw [masks_pre tbl hT' sats sigs P] at h
  injection h with h; injection h with h
  simp only [Prod.mk.injEq] at h
  obtain ⟨rfl, rfl, rfl, rfl⟩ := h
  have hc := P.cellIds_eq hT'
  refine ⟨?_, ?_, P.good.maskIds_sat, P.good.maskIds_sig hT', hc, ?_⟩
  · rintro ⟨h0, _⟩
    have hp := S.popcount_sat
    rw [h0] at hp
    have hpos : 1 ≤ sats.length := List.length_pos_iff.mpr P.nonempty
    have : popcount 64 0 = 0 := by decide
    omega
  · rw [S.popcount_sat, S.popcount_sig, Nat.mul_comm]
  · rw [hc]
    apply lookupSigs_sorted tbl hT'.ids_nodup
    intro g hg
    exact P.sig_known g ((sortBy_perm _ sigs).mem_iff.mp hg)

/-- **encode → decode returns the same sets in sorted order**: if `decode` reads back the three masks that
`masks` computed for `(sats, sigs)` (the bit-level put/parse round trip is C07), then the satellites it returns
are those of `sats` in ascending order and the signal rows' `(satellite, band, attr)` are those of `sigs` in
ascending (satellite, identifier) order — whatever order the caller listed them in. -/
theorem decode_of_encoded_masks (cfg : Cfg) (tbl : SigTable) (hT : C18.tableOk tbl = true)
    (satFields sigFields : List (String × DfSpec)) (sats : List SatRow) (sigs : List SigRow)
    (P : Pre tbl sats sigs) (satMask sigMask cellMask cellLen : Nat)
    (hm : masks tbl sats sigs = .ok (some (satMask, sigMask, cellMask, cellLen)))
    (c c1 c2 c3 c' : Cur) (sats' : List SatRow) (sigs' : List SigRow)
    (h1 : Text.parseU cfg 64 64 c = .ok (satMask, c1)) (h2 : Text.parseU cfg 32 32 c1 = .ok (sigMask, c2))
    (h3 : Text.parseU cfg 64 cellLen c2 = .ok (cellMask, c3))
    (hd : Msm.decode cfg tbl satFields sigFields c = .ok (sats', sigs', c')) :
    sats'.map (·.id) = (Sig.sortBy (fun a b : SatRow => a.id ≤ b.id) sats).map (·.id) ∧
    (sigs'.map fun g => (g.sat, g.band, g.attr)) =
      (Sig.sortBy (sigLe tbl) sigs).map fun g => (g.sat, g.band, g.attr) := by
  obtain ⟨hz, hlen, hS, _, _, hL⟩ := decode_inverts_masks tbl hT sats sigs P _ _ _ _ hm
  obtain ⟨satMask', c1', sigMask', c2', e1, e2, hcase⟩ :=
    decode_ok_shape cfg tbl satFields sigFields c c' sats' sigs' hd
  rw [h1] at e1; injection e1 with e1
  simp only [Prod.mk.injEq] at e1
  obtain ⟨rfl, rfl⟩ := e1
  rw [h2] at e2; injection e2 with e2
  simp only [Prod.mk.injEq] at e2
  obtain ⟨rfl, rfl⟩ := e2
  rcases hcase with ⟨a, b, _⟩ | ⟨_, _, _, cellMask', c3', e3, e4, e5⟩
  · exact absurd ⟨a, b⟩ hz
  · rw [hlen, h3] at e3; injection e3 with e3
    simp only [Prod.mk.injEq] at e3
    obtain ⟨rfl, rfl⟩ := e3
    rw [hL] at e5; injection e5 with e5
    exact ⟨e4.trans hS, e5.symm⟩

/-! ## Non-vacuity: the preconditions hold on a concrete unsorted GPS input -/

def exSats : List SatRow := [⟨5, []⟩, ⟨2, []⟩, ⟨17, []⟩]
/-- GPS 2W (id 10) and 1C (id 2), cells listed in no particular order; (17, 2W) is absent -/
def exSigs : List SigRow := [⟨5, 2, 87, []⟩, ⟨2, 1, 67, []⟩, ⟨17, 1, 67, []⟩, ⟨5, 1, 67, []⟩, ⟨2, 2, 87, []⟩]

example : C18.tableOk Gen.sigTable_gps = true := by decide +kernel

/-- executable form of the preconditions -/
def preB (tbl : SigTable) (sats : List SatRow) (sigs : List SigRow) : Bool :=
  sats.all (fun r => decide (1 ≤ r.id ∧ r.id ≤ 64)) &&
  decide (sats.map (·.id)).Nodup &&
  sigs.all (fun g => decide (1 ≤ g.sat ∧ g.sat ≤ 64)) &&
  sigs.all (fun g => (Sig.toId tbl g.band g.attr).isSome) &&
  decide (sigs.map fun g => (g.sat, g.band, g.attr)).Nodup &&
  sats.all (fun r => sigs.any fun g => g.sat == r.id) &&
  sigs.all (fun g => sats.any fun r => r.id == g.sat) &&
  !sats.isEmpty &&
  decide (sats.length * (sigIdSet tbl sigs).length ≤ 64)

theorem pre_iff_preB (tbl : SigTable) (sats : List SatRow) (sigs : List SigRow) :
    Pre tbl sats sigs ↔ preB tbl sats sigs = true := by
  rw [pre_iff]
  simp only [preB, Bool.and_eq_true, List.all_eq_true, List.any_eq_true, decide_eq_true_eq, beq_iff_eq,
    Option.isSome_iff_exists, Bool.not_eq_true', List.isEmpty_eq_false_iff, and_assoc]

example : Pre Gen.sigTable_gps exSats exSigs :=
  (pre_iff_preB _ _ _).mpr (by decide +kernel)

example : sigIdSet Gen.sigTable_gps exSigs = [2, 10] := by decide +kernel

/-- satellites 2, 5, 17 → bits 62, 59, 47; signals 2, 10 → bits 30, 22; six cells `11 11 10` -/
example : (match masks Gen.sigTable_gps exSats exSigs with
    | .ok (some v) => v == (2 ^ 62 + 2 ^ 59 + 2 ^ 47, 2 ^ 30 + 2 ^ 22, 0b111110, 6)
    | _ => false) = true := by decide +kernel

example : (Sig.sortBy (fun a b : SatRow => a.id ≤ b.id) exSats).map (·.id) = [2, 5, 17] := by decide +kernel
example : (Sig.sortBy (sigLe Gen.sigTable_gps) exSigs).map (fun g => (g.sat, sigIdOf Gen.sigTable_gps g)) =
    [(2, 2), (2, 10), (5, 2), (5, 10), (17, 2)] := by decide +kernel

/-- the headline statements for each of the seven constellation tables -/
theorem for_all_constellations : ∀ t ∈ Gen.sigTables, ∀ sats sigs, Pre t.2 sats sigs →
    ∃ satMask sigMask cellMask cellLen,
      masks t.2 sats sigs = .ok (some (satMask, sigMask, cellMask, cellLen)) ∧
      MaskSpec t.2 sats sigs satMask sigMask cellMask cellLen := by
  intro t ht sats sigs P
  have h := C18.tables_ok
  rw [List.all_eq_true] at h
  exact masks_ok t.2 (h t ht) sats sigs P

end Rtcm.C10
