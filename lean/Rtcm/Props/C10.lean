import Rtcm.Model.Msm
import Rtcm.Gen.Messages
/-!
# C10  MSM satellite, signal and cell masks follow the standard for any input order
(theorems under construction)
-/
namespace Rtcm.C10
open Rtcm.Msm Rtcm.Schema

/-- the all-empty data segment has no masks to compute -/
theorem empty_segment (tbl : SigTable) : masks tbl [] [] = .ok none := by
  simp [masks]

/-- a satellite identifier of 0 or above 64 in the first satellite row is reported as such -/
theorem first_sat_invalid (tbl : SigTable) (s : SatRow) (rest : List SatRow) (sigs : List SigRow)
    (h : s.id = 0 ∨ 64 < s.id) : masks tbl (s :: rest) sigs = .err .invalidSatelliteId := by
  have hstep : satMaskStep (.ok 0) s = .err .invalidSatelliteId := by
    unfold satMaskStep
    have : ¬ (0 < s.id ∧ s.id ≤ 64) := by omega
    simp [this]
  have hfold : ∀ (l : List SatRow) (e : RtcmError), l.foldl satMaskStep (.err e) = .err e := by
    intro l e
    induction l with
    | nil => rfl
    | cons x xs ih => simpa [List.foldl_cons, satMaskStep] using ih
  simp [masks, List.foldl_cons, hstep, hfold]

end Rtcm.C10
