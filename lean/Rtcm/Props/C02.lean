import Rtcm.Model.Message
import Rtcm.Proofs.Scan
import Rtcm.Proofs.NoPanicDec
import Rtcm.Gen.Messages
import Rtcm.Proofs.WFTable
/-!
# C02  Decoding is total: no panic and no hang on any byte input
-/
namespace Rtcm.C02
open Rtcm.Message Rtcm.Schema

/-- The frame parser has exactly the outcomes the scanner handles (its `unreachable!()` arm is dead). -/
theorem frame_outcomes (d : List UInt8) :
    (∃ f, frameNew d = .ok f) ∨ frameNew d = .error .incomplete ∨ frameNew d = .error .notValid := by
  rcases h : frameNew d with e | f
  · cases e <;> simp
  · exact Or.inl ⟨f, rfl⟩

/-- Decoding a frame yields one of the four documented outcomes unless the body decoder panics;
an error of the body decoder of whatever kind becomes Corrupt. -/
theorem decode_outcomes (cfg : Cfg) (tbl : List MsgRow) (f : Frame) :
    (∃ w, decodeFrame cfg tbl f = .panic w) ∨ decodeFrame cfg tbl f = .ok .empty ∨
    decodeFrame cfg tbl f = .ok .corrupt ∨ (∃ n, decodeFrame cfg tbl f = .ok (.notSupported n)) ∨
    (∃ n toks, decodeFrame cfg tbl f = .ok (.typed n toks)) := by
  unfold decodeFrame
  cases f.number with
  | none => simp
  | some n =>
    simp only
    cases findRow tbl n with
    | none => simp
    | some row =>
      simp only
      split <;> simp

/-- The scanner and the iterator terminate on every input: they are total structurally recursive
functions of the model; every delivered frame consumes at least 6 bytes, so the iterator's fuel
`|d| + 1` is never exhausted. -/
theorem scan_total (d : List UInt8) : (scan d).1 ≤ d.length := scan_consumed_le d

theorem iter_frames_bounded (d : List UInt8) : (drainAll d).2.length ≤ d.length := drainAll_rem_le d

/-! ### The body decoder never panics (both build profiles: `cfg` is universally quantified)

`WF.WFFrag : Frag → Bool` (Rtcm/Proofs/WFFrag.lean) collects the static facts used: every `df!`
leaf / MSM column / count field satisfies `DfWf.wf`; count prefixes are 1..=8 (strings) and 1..=16
(vectors) bits wide; a `msg_len_middle!` count is an unscaled integer field without invalid marker;
MSM signal tables satisfy `C18.tableOk`. -/

open Rtcm.WF Rtcm.NoPanic Rtcm.Interp

/-- every layout of the regenerated message table is well formed (kernel evaluation) -/
theorem table_wfFrag : Gen.messageTable.all (fun r => WFFrag r.frag) = true := WF.table_wfFrag

theorem wfFrag_of_mem {row : MsgRow} (h : row ∈ Gen.messageTable) : WFFrag row.frag = true :=
  List.all_eq_true.mp table_wfFrag row h

/-- The body decoder of a well-formed layout never panics: on any buffer (not even required to
consist of bytes), at any cursor, with and without overflow checks. -/
theorem decFrag_no_panic' (f : Frag) (hw : WFFrag f = true) (cfg : Cfg) (c : Cur) (w : String) :
    decFrag cfg f c ≠ .panic w :=
  decFrag_np cfg f hw c w

/-- the statement in the shape of the proof plan (the byte hypothesis is not needed) -/
theorem decFrag_no_panic (f : Frag) (hw : WFFrag f = true) (cfg : Cfg) (c : Cur)
    (_hbytes : ∀ d ∈ c.data, d < 256) (w : String) : decFrag cfg f c ≠ .panic w :=
  decFrag_np cfg f hw c w

theorem decFields_no_panic (fs : Fields) (hw : WFFields fs = true) (cfg : Cfg) (c : Cur) (w : String) :
    decFields cfg fs c ≠ .panic w :=
  decFields_np cfg fs hw c w

/-- `Message::from_message_frame` never panics, for every frame value whatsoever and both build
profiles, with the regenerated message table. -/
theorem decodeFrame_no_panic (cfg : Cfg) (f : Frame) (w : String) :
    decodeFrame cfg Gen.messageTable f ≠ .panic w := by
  unfold decodeFrame
  split
  · intro h; cases h
  · split
    · intro h; cases h
    · next row hrow =>
      have hmem : row ∈ Gen.messageTable := List.mem_of_find?_eq_some hrow
      have hnp := decFrag_np cfg row.frag (wfFrag_of_mem hmem)
        { data := f.data.map (·.toNat), off := 12 }
      split
      · intro h; cases h
      · intro h; cases h
      · next w' hw' => exact absurd hw' (hnp w')

/-- the four documented outcomes -/
def Documented (m : Msg) : Prop :=
  m = .empty ∨ m = .corrupt ∨ (∃ n, m = .notSupported n) ∨ (∃ n toks, m = .typed n toks)

/-- every frame decodes to one of the four documented outcomes -/
theorem decodeFrame_total (cfg : Cfg) (f : Frame) :
    ∃ m, decodeFrame cfg Gen.messageTable f = .ok m ∧ Documented m := by
  rcases decode_outcomes cfg Gen.messageTable f with ⟨w, h⟩ | h | h | ⟨n, h⟩ | ⟨n, toks, h⟩
  · exact absurd h (decodeFrame_no_panic cfg f w)
  · exact ⟨_, h, Or.inl rfl⟩
  · exact ⟨_, h, Or.inr (Or.inl rfl)⟩
  · exact ⟨_, h, Or.inr (Or.inr (Or.inl ⟨n, rfl⟩))⟩
  · exact ⟨_, h, Or.inr (Or.inr (Or.inr ⟨n, toks, rfl⟩))⟩

/-- Headline: for every byte string, the scanner / iterator terminates (they are total functions,
`scan_total`, `iter_frames_bounded`) and every frame they deliver (caller protocol `drainAll`, and
the iterator `iterFrames`) decodes without panic, in both build profiles, to one of Empty, Corrupt,
NotSupported(n) or a typed message. -/
theorem scan_decode_total (cfg : Cfg) (d : List UInt8) :
    (∀ f ∈ (drainAll d).1, ∃ m, decodeFrame cfg Gen.messageTable f = .ok m ∧ Documented m) ∧
    (∀ f ∈ (iterFrames d).1, ∃ m, decodeFrame cfg Gen.messageTable f = .ok m ∧ Documented m) :=
  ⟨fun f _ => decodeFrame_total cfg f, fun f _ => decodeFrame_total cfg f⟩

/-! ### Every floating-point field of a decoded message is finite

`FinIn fmt toks`: every `.flt` token of `toks` is the bit pattern of a finite datum of format `fmt`.
Float values enter a decoded message in exactly three places: `Df.decode` of a float field (`df`
leaves and MSM satellite / signal columns; format `fmtOf s.dt`), and the `f32` biases of the
1059 / 1065 / 1230 lists. -/

/-- a `df` leaf: every decoded token is finite in the field's own float format (and never `-0`,
`C08.df_decoded_finite`); integer fields produce no float token -/
theorem decoded_floats_finite_df (cfg : Cfg) (s : DfSpec) (hw : WFFrag (.df s) = true) (c : Cur)
    (toks : List Tok) (c' : Cur) (h : decFrag cfg (.df s) c = .ok (toks, c')) :
    FinIn (Df.fmtOf s.dt) toks := by
  unfold WFFrag at hw
  unfold decFrag at h
  exact dfDecode_finite cfg s c hw toks c' h

/-- MSM columns: column `j` of the satellite (signal) table holds only finite data of the format of
field `j` -/
theorem decoded_floats_finite_msm_columns (cfg : Cfg) (n : Nat) (fs : List (String × DfSpec))
    (hw : wfSpecs fs = true) (c : Cur) (cols : List (List (List Tok))) (c' : Cur)
    (h : Msm.decColumns cfg n fs c = .ok (cols, c')) :
    List.Forall₂ (fun f col => ∀ t ∈ col, FinIn (Df.fmtOf f.2.dt) t) fs cols :=
  decColumns_finite cfg n fs hw c cols c' h

/-- bias lists: every `bias_m` of a decoded 1059 / 1065 / 1230 list is a finite `f32` -/
theorem decoded_floats_finite_bias (cfg : Cfg) (f : Frag)
    (hf : (∃ cap tbl, f = .bias1059 cap tbl) ∨ (∃ cap tbl, f = .bias1065 cap tbl) ∨ f = .bias1230)
    (c : Cur) (toks : List Tok) (c' : Cur) (h : decFrag cfg f c = .ok (toks, c')) :
    FinIn SoftFloat.binary32 toks := by
  rcases hf with ⟨cap, tbl, rfl⟩ | ⟨cap, tbl, rfl⟩ | rfl
  · unfold decFrag at h
    split at h
    · next es c1 hd =>
      cases h
      exact biasToks_finite true es (biasDecode_finite cfg _ c es _ hd)
    · cases h
    · cases h
  · unfold decFrag at h
    split at h
    · next es c1 hd =>
      cases h
      exact biasToks_finite true es (biasDecode_finite cfg _ c es _ hd)
    · cases h
    · cases h
  · unfold decFrag at h
    split at h
    · next es c1 hd =>
      cases h
      exact biasToks_finite false es (decode1230_finite cfg c es _ hd)
    · cases h
    · cases h

/-- Every floating-point field of a decoded message is finite, for every well-formed layout.
`FinFrag f toks` (Rtcm/Proofs/NoPanicDec.lean) reads: `toks` splits along the layout `f` — field by
field for `msg!`, element by element for the list forms, row by row and column by column for an MSM
segment — and every `.flt` token is the bit pattern of a finite datum *in the format of the field
that produced it* (`fmtOf s.dt` for a `df!` field, `f32` for the bias lists). -/
theorem decoded_floats_finite (cfg : Cfg) (f : Frag) (hw : WFFrag f = true) (c : Cur)
    (toks : List Tok) (c' : Cur) (h : decFrag cfg f c = .ok (toks, c')) : FinFrag f toks :=
  decFrag_finite cfg f hw c toks c' h

/-- instantiated for `Message::from_message_frame` with the regenerated table -/
theorem decodeFrame_floats_finite (cfg : Cfg) (fr : Frame) (n : Nat) (toks : List Tok)
    (h : decodeFrame cfg Gen.messageTable fr = .ok (.typed n toks)) :
    ∃ row ∈ Gen.messageTable, row.number = n ∧ FinFrag row.frag toks := by
  unfold decodeFrame at h
  split at h
  · cases h
  · next n' _ =>
    split at h
    · cases h
    · next row hrow =>
      have hmem : row ∈ Gen.messageTable := List.mem_of_find?_eq_some hrow
      have hnum : (row.number == n') = true := by
        unfold findRow at hrow
        have := List.find?_some hrow
        exact this
      split at h
      · next toks' c' hd =>
        cases h
        exact ⟨row, hmem, by simpa using hnum, decFrag_finite cfg row.frag (wfFrag_of_mem hmem) _ _ _ hd⟩
      · cases h
      · cases h

end Rtcm.C02
