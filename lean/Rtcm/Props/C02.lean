import Rtcm.Model.Message
import Rtcm.Proofs.Scan
/-!
# C02  Decoding is total: no panic and no hang on any byte input
-/
namespace Rtcm.C02
open Rtcm.Message Rtcm.Schema

/-- The frame parser has exactly the outcomes the scanner handles (its `unreachable!()` arm is dead). -/
theorem frame_outcomes (d : List UInt8) :
    (∃ f, frameNew d = .ok f) ∨ frameNew d = .error .incomplete ∨ frameNew d = .error .notValid := by
  rcases h : frameNew d with e | f
  · cases e <;> simp
  · exact Or.inl ⟨f, rfl⟩

/-- Decoding a frame yields one of the four documented outcomes unless the body decoder panics;
an error of the body decoder of whatever kind becomes Corrupt. -/
theorem decode_outcomes (cfg : Cfg) (tbl : List MsgRow) (f : Frame) :
    (∃ w, decodeFrame cfg tbl f = .panic w) ∨ decodeFrame cfg tbl f = .ok .empty ∨
    decodeFrame cfg tbl f = .ok .corrupt ∨ (∃ n, decodeFrame cfg tbl f = .ok (.notSupported n)) ∨
    (∃ n toks, decodeFrame cfg tbl f = .ok (.typed n toks)) := by
  unfold decodeFrame
  cases f.number with
  | none => simp
  | some n =>
    simp only
    cases findRow tbl n with
    | none => simp
    | some row =>
      simp only
      split <;> simp

/-- The scanner and the iterator terminate on every input: they are total structurally recursive
functions of the model; every delivered frame consumes at least 6 bytes, so the iterator's fuel
`|d| + 1` is never exhausted. -/
theorem scan_total (d : List UInt8) : (scan d).1 ≤ d.length := scan_consumed_le d

theorem iter_frames_bounded (d : List UInt8) : (drainAll d).2.length ≤ d.length := drainAll_rem_le d

end Rtcm.C02
