import Rtcm.Model.Message
import Rtcm.Gen.Messages
import Rtcm.Proofs.WFTable
import Rtcm.Gen.SigTables
import Rtcm.Proofs.NoPanicEnc
import Rtcm.Proofs.MkFrame
/-!
# C09  Encoding is total and every emitted frame is well formed
-/
namespace Rtcm.C09
open Rtcm.Message Rtcm.Schema

/-- Messages without a wire form are refused with EncodingNotSupported, from any builder state. -/
theorem no_wire_form_refused (cfg : Cfg) (tbl : List MsgRow) (glo : SigTable) (b : Builder) :
    (b.build cfg tbl glo .empty).2 = .err .encodingNotSupported ∧
    (b.build cfg tbl glo .corrupt).2 = .err .encodingNotSupported ∧
    ∀ n, (b.build cfg tbl glo (.notSupported n)).2 = .err .encodingNotSupported := by
  refine ⟨?_, ?_, fun n => ?_⟩ <;> simp [Builder.build]

/-- a typed message whose number is not compiled in is refused as well -/
theorem unknown_number_refused (cfg : Cfg) (tbl : List MsgRow) (glo : SigTable) (b : Builder) (n : Nat)
    (toks : List Tok) (h : findRow tbl n = none) :
    (b.build cfg tbl glo (.typed n toks)).2 = .err .encodingNotSupported := by
  simp [Builder.build, number, h]

/-! ### The body encoder's only panics are the model's token-shape rejections

`encFrag` answers `panic "tokens…"` for a token stream that no Rust value corresponds to (wrong token
kind, list longer than its capacity); the driver reports those as BAD-OP. Every other outcome of a
well-formed layout (`WF.WFFrag`, Rtcm/Proofs/WFFrag.lean) on a byte buffer is `ok` or `err`, in both
build profiles (`cfg` is universally quantified): no modelled Rust panic — `usize` underflow,
oversized shift, `sig_id` shift overflow, zero-width cell mask — is reachable. -/

open Rtcm.WF Rtcm.NoPanic Rtcm.Interp

/-- every layout of the regenerated message table is well formed (kernel evaluation) -/
theorem table_wfFrag : Gen.messageTable.all (fun r => WFFrag r.frag) = true := WF.table_wfFrag

theorem wfFrag_of_mem {row : MsgRow} (h : row ∈ Gen.messageTable) : WFFrag row.frag = true :=
  List.all_eq_true.mp table_wfFrag row h

theorem encFrag_panic_only_tokens (cfg : Cfg) (glo : SigTable) (f : Frag) (hw : WFFrag f = true)
    (ts : List Tok) (c : Cur) (hc : ∀ d ∈ c.data, d < 256) (w : String)
    (h : encFrag cfg glo f ts c = .panic w) : w.startsWith "tokens" = true := by
  have := encFrag_es cfg glo f hw ts c hc
  rw [h] at this
  exact this

theorem encFrag_ok_ext (cfg : Cfg) (glo : SigTable) (f : Frag) (hw : WFFrag f = true)
    (ts : List Tok) (c : Cur) (hc : ∀ d ∈ c.data, d < 256) (c' : Cur) (ts' : List Tok)
    (h : encFrag cfg glo f ts c = .ok (c', ts')) :
    (∀ d ∈ c'.data, d < 256) ∧ c'.data.length = c.data.length ∧ c.off ≤ c'.off ∧
    (c.off ≤ 8 * c.data.length → c'.off ≤ 8 * c'.data.length) ∧
    ∀ g, g < c.off → Bits.bitAt c'.data g = Bits.bitAt c.data g := by
  have := encFrag_es cfg glo f hw ts c hc
  rw [h] at this
  exact ⟨this.good, this.len, this.mono, this.fit, this.keep⟩

/-- the data the builder works on: cleared if it has run before -/
def workData (b : Builder) : List Nat := if b.hasRun then clearData b.data else b.data

theorem clearData_lt (d : List Nat) (h : ∀ x ∈ d, x < 256) : ∀ x ∈ clearData d, x < 256 := by
  intro x hx
  unfold clearData at hx
  rcases List.mem_append.mp hx with hx | hx
  · exact h x (List.mem_of_mem_take hx)
  · have := List.eq_of_mem_replicate hx
    omega

theorem clearData_length (d : List Nat) (h : 1 ≤ d.length) : (clearData d).length = d.length := by
  unfold clearData
  simp only [List.length_append, List.length_take, List.length_replicate]
  omega

theorem workData_lt (b : Builder) (h : ∀ x ∈ b.data, x < 256) : ∀ x ∈ workData b, x < 256 := by
  unfold workData
  split
  · exact clearData_lt _ h
  · exact h

theorem build_total (cfg : Cfg) (tbl : List MsgRow) (htbl : ∀ row ∈ tbl, WFFrag row.frag = true)
    (glo : SigTable) (b : Builder) (hb : ∀ x ∈ b.data, x < 256) (m : Msg) (w : String)
    (h : (b.build cfg tbl glo m).2 = .panic w) : w.startsWith "tokens" = true := by
  have hwd := workData_lt b hb
  unfold workData at hwd
  unfold Builder.build at h
  simp only [] at h
  split at h
  · next n toks _ hnum =>
    have hwin : Good { data := ((if b.hasRun = true then clearData b.data else b.data).drop 3).take 1023, off := 0 } := by
      intro x hx
      exact hwd x (List.mem_of_mem_drop (List.mem_of_mem_take hx))
    rcases put_ext cfg ⟨.u, 16⟩ _ n 12 (by decide) (by decide) (by decide) (by decide) hwin with
      hp | ⟨d, o, hp, hext⟩
    · simp only [] at hp
      rw [hp] at h
      cases h
    · simp only [] at hp
      rw [hp] at h
      simp only [] at h
      split at h
      · next row hrow =>
        have hes := encFrag_es cfg glo row.frag (htbl row (List.mem_of_find?_eq_some hrow)) toks
          { data := d, off := o } hext.good
        split at h
        · next c rest henc =>
          split at h
          · cases h
            show TokPanic _
            unfold TokPanic
            decide +kernel
          · cases h
        · cases h
        · next q hq =>
          cases h
          rw [hq] at hes
          exact hes
      · cases h
  · cases h


/-! ### The builder: invariant, totality of a session, well-formed frames -/

/-- builder invariant: 1029 bytes, first is the preamble -/
structure BInv (b : Builder) : Prop where
  len : b.data.length = 1029
  bytes : ∀ x ∈ b.data, x < 256
  head : b.data.getD 0 0 = 0xd3

theorem binv_new : BInv Builder.new := by
  refine ⟨?_, ?_, ?_⟩
  · show (0xd3 :: List.replicate 1028 0).length = 1029
    rw [List.length_cons, List.length_replicate]
  · intro x hx
    have hx' : x ∈ 0xd3 :: List.replicate 1028 0 := hx
    rcases List.mem_cons.mp hx' with rfl | hx'
    · decide
    · have := List.eq_of_mem_replicate hx'; omega
  · rfl

theorem take_set3 (l : List Nat) (k a b c : Nat) (h : k + 3 ≤ l.length) :
    (((l.set k a).set (k + 1) b).set (k + 2) c).take (k + 3) = l.take k ++ [a, b, c] := by
  induction k generalizing l with
  | zero =>
    match l, h with
    | x :: y :: z :: tl, _ => simp
  | succ k ih =>
    match l, h with
    | x :: tl, h =>
      simp only [List.length_cons] at h
      have := ih tl (by omega)
      simp only [List.set_cons_succ, List.take_succ_cons, List.cons_append]
      exact congrArg (x :: ·) this

/-- the frame the builder assembles around `L` payload bytes `P` -/
def frameOf (L : Nat) (P : List Nat) : List Nat :=
  let hdr := [0xd3, (L >>> 8) % 256, L % 256]
  let crc := crc24q ((hdr ++ P).map UInt8.ofNat)
  hdr ++ P ++ [(crc >>> 16) % 256, (crc >>> 8) % 256, crc % 256]

theorem assemble (x1 x2 : Nat) (tl pay : List Nat) (L : Nat) (htl : tl.length = 1026)
    (hpay : pay.length = 1023) (hL : L ≤ 1023) :
    let data := 0xd3 :: x1 :: x2 :: tl
    let d1 := data.take 3 ++ pay ++ data.drop 1026
    let d2 := (d1.set 1 ((L >>> 8) % 256)).set 2 (L % 256)
    let crc := crc24q ((d2.take (L + 3)).map UInt8.ofNat)
    let d3 := ((d2.set (L + 3) ((crc >>> 16) % 256)).set (L + 4) ((crc >>> 8) % 256)).set (L + 5) (crc % 256)
    d3.take (L + 6) = frameOf L (pay.take L) ∧ d3.length = 1029 ∧ d3.getD 0 0 = 0xd3 ∧
      ((∀ x ∈ pay, x < 256) → (∀ x ∈ tl, x < 256) → ∀ x ∈ d3, x < 256) := by
  intro data d1 d2 crc d3
  have e1 : d1 = 0xd3 :: x1 :: x2 :: (pay ++ tl.drop 1023) := by
    simp [d1, data]
  have e2 : d2 = 0xd3 :: (L >>> 8) % 256 :: L % 256 :: (pay ++ tl.drop 1023) := by
    simp [d2, e1]
  have e2l : d2.length = 1029 := by
    rw [e2]; simp [hpay, htl]
  have e3 : d2.take (L + 3) = [0xd3, (L >>> 8) % 256, L % 256] ++ pay.take L := by
    rw [e2]
    simp only [List.take_succ_cons, List.cons_append, List.nil_append]
    rw [List.take_append_of_le_length (by omega)]
  have e4 : d3.take (L + 6) = d2.take (L + 3) ++ [(crc >>> 16) % 256, (crc >>> 8) % 256, crc % 256] :=
    take_set3 d2 (L + 3) _ _ _ (by omega)
  refine ⟨?_, ?_, ?_, ?_⟩
  · rw [e4]
    unfold frameOf
    simp only [crc, e3]
  · simp [d3, e2l]
  · simp only [d3, List.getD_eq_getElem?_getD]
    rw [List.getElem?_set_ne (by omega), List.getElem?_set_ne (by omega), List.getElem?_set_ne (by omega), e2]
    rfl
  · intro hp ht x hx
    have h2 : ∀ y ∈ d2, y < 256 := by
      intro y hy
      rw [e2] at hy
      simp only [List.mem_cons, List.mem_append] at hy
      rcases hy with rfl | rfl | rfl | hy | hy
      · decide
      · exact Nat.mod_lt _ (by decide)
      · exact Nat.mod_lt _ (by decide)
      · exact hp y hy
      · exact ht y (List.mem_of_mem_drop hy)
    have hset : ∀ (l : List Nat) (i v : Nat), (∀ y ∈ l, y < 256) → v < 256 → ∀ y ∈ l.set i v, y < 256 := by
      intro l i v hl hv y hy
      rcases List.mem_or_eq_of_mem_set hy with h | h
      · exact hl y h
      · omega
    exact hset _ _ _ (hset _ _ _ (hset _ _ _ h2 (Nat.mod_lt _ (by decide))) (Nat.mod_lt _ (by decide)))
      (Nat.mod_lt _ (by decide)) x hx

theorem frameOf_spec (L : Nat) (P : List Nat) (hP : P.length = L) (hL2 : 2 ≤ L) (hL : L ≤ 1023) :
    (frameOf L P).length = L + 6 ∧ (frameOf L P).getD 0 0 = 0xd3 ∧
    (frameOf L P).getD 1 0 &&& 0xFC = 0 ∧
    (((frameOf L P).getD 1 0 &&& 3) <<< 8 ||| (frameOf L P).getD 2 0) = L ∧
    (frameOf L P).map UInt8.ofNat = mkFrame 0 (P.map UInt8.ofNat) := by
  have hs : L >>> 8 < 4 := by
    rw [Nat.shiftRight_eq_div_pow]
    have : (2 : Nat) ^ 8 = 256 := by decide
    omega
  have hm : (L >>> 8) % 256 = L >>> 8 := Nat.mod_eq_of_lt (by omega)
  refine ⟨?_, ?_, ?_, ?_, ?_⟩
  · simp [frameOf, hP]
  · simp [frameOf]
  · have e : (frameOf L P).getD 1 0 = (L >>> 8) % 256 := by simp [frameOf]
    rw [e, hm]
    have : ∀ x, x < 4 → x &&& 0xFC = 0 := by decide
    exact this _ hs
  · have e1 : (frameOf L P).getD 1 0 = (L >>> 8) % 256 := by simp [frameOf]
    have e2 : (frameOf L P).getD 2 0 = L % 256 := by simp [frameOf]
    rw [e1, e2]
    have := header_len 0 L (by omega)
    simpa using this
  · unfold frameOf mkFrame frameHeader crcBytes
    simp only [List.map_append, List.map_cons, List.map_nil, List.length_map, hP]
    have e0 : (0 % 64) <<< 2 ||| L >>> 8 = L >>> 8 := by simp
    rw [e0, hm]
    simp

theorem clearData_head (d : List Nat) (h : 1 ≤ d.length) : (clearData d).getD 0 0 = d.getD 0 0 := by
  match d, h with
  | x :: tl, _ => simp [clearData]

theorem workData_inv (b : Builder) (hb : BInv b) :
    (workData b).length = 1029 ∧ (∀ x ∈ workData b, x < 256) ∧ (workData b).getD 0 0 = 0xd3 := by
  refine ⟨?_, workData_lt b hb.bytes, ?_⟩
  · unfold workData
    split
    · rw [clearData_length _ (by rw [hb.len]; omega), hb.len]
    · exact hb.len
  · unfold workData
    split
    · rw [clearData_head _ (by rw [hb.len]; omega), hb.head]
    · exact hb.head

theorem data_shape (data : List Nat) (hl : data.length = 1029) (hh : data.getD 0 0 = 0xd3) :
    ∃ x1 x2 tl, data = 0xd3 :: x1 :: x2 :: tl ∧ tl.length = 1026 := by
  match data, hl, hh with
  | x0 :: x1 :: x2 :: tl, hl, hh =>
    simp only [List.getD_cons_zero] at hh
    subst hh
    exact ⟨x1, x2, tl, rfl, by simpa using hl⟩

open Rtcm.Bits in
/-- the two bytes that carry a 12-bit number at the start of a buffer -/
theorem number_of_bits (n : Nat) (hn : n < 4096) (data : List Nat) (h0 : data.getD 0 0 < 256)
    (h1 : data.getD 1 0 < 256)
    (hbits : ∀ g, g < 12 → bitAt data g = (n % 2 ^ 12).testBit (11 - g)) :
    (data.getD 0 0 <<< 4) ||| (data.getD 1 0 >>> 4) = n := by
  apply Nat.eq_of_testBit_eq
  intro i
  simp only [Nat.testBit_or, Nat.testBit_shiftLeft, Nat.testBit_shiftRight]
  have hmod : n % 2 ^ 12 = n := Nat.mod_eq_of_lt (by simpa using hn)
  rw [hmod] at hbits
  by_cases h4 : i < 4
  · have := hbits (11 - i) (by omega)
    unfold bitAt at this
    have e1 : (11 - i) / 8 = 1 := by omega
    have e2 : 7 - (11 - i) % 8 = 4 + i := by omega
    have e3 : 11 - (11 - i) = i := by omega
    rw [e1, e2, e3] at this
    have h5 : ¬ (4 ≤ i) := by omega
    simp only [ge_iff_le, h5, decide_false, Bool.false_and, Bool.false_or]
    exact this
  · have h5 : 4 ≤ i := by omega
    have hz : (data.getD 1 0).testBit (4 + i) = false := testBit_false_of_lt_256 h1 (by omega)
    simp only [ge_iff_le, h5, decide_true, Bool.true_and, hz, Bool.or_false]
    by_cases h12 : i < 12
    · have := hbits (11 - i) (by omega)
      unfold bitAt at this
      have e1 : (11 - i) / 8 = 0 := by omega
      have e2 : 7 - (11 - i) % 8 = i - 4 := by omega
      have e3 : 11 - (11 - i) = i := by omega
      rw [e1, e2, e3] at this
      exact this
    · rw [testBit_false_of_lt_256 h0 (by omega)]
      symm
      apply Nat.testBit_lt_two_pow
      calc n < 2 ^ 12 := by simpa using hn
        _ ≤ 2 ^ i := Nat.pow_le_pow_right (by decide) (by omega)


theorem byteAt_map_ofNat (P : List Nat) (i : Nat) (hi : i < P.length) (hP : ∀ x ∈ P, x < 256) :
    byteAt (P.map UInt8.ofNat) i = P.getD i 0 := by
  unfold byteAt
  simp only [List.getD_eq_getElem?_getD, List.getElem?_map, List.getElem?_eq_getElem hi, Option.map_some,
    Option.getD_some]
  have := hP P[i] (List.getElem_mem hi)
  simp [UInt8.toNat_ofNat']
  omega

/-- shape of every successfully built frame -/
theorem build_ok_frameOf (cfg : Cfg) (tbl : List MsgRow) (htbl : ∀ row ∈ tbl, WFFrag row.frag = true)
    (glo : SigTable) (b : Builder) (hb : BInv b) (m : Msg) (fr : List Nat)
    (h : (b.build cfg tbl glo m).2 = .ok fr) :
    ∃ L P, 2 ≤ L ∧ L ≤ 1023 ∧ P.length = L ∧ (∀ x ∈ P, x < 256) ∧ fr = frameOf L P ∧
      ∀ n toks, m = .typed n toks → n < 4096 → (P.getD 0 0 <<< 4) ||| (P.getD 1 0 >>> 4) = n := by
  obtain ⟨wl, wb, wh⟩ := workData_inv b hb
  unfold workData at wl wb wh
  unfold Builder.build at h
  simp only [] at h
  generalize (if b.hasRun = true then clearData b.data else b.data) = data at h wl wb wh
  obtain ⟨x1, x2, tl, rfl, htl⟩ := data_shape data wl wh
  split at h
  · next n toks _ hnum =>
    have hwin : Good { data := ((0xd3 :: x1 :: x2 :: tl).drop 3).take 1023, off := 0 } := by
      intro x hx
      exact wb x (List.mem_of_mem_drop (List.mem_of_mem_take hx))
    have hwl : (((0xd3 :: x1 :: x2 :: tl).drop 3).take 1023).length = 1023 := by
      simp [htl]
    rcases put_ext cfg ⟨.u, 16⟩ _ n 12 (by decide) (by decide) (by decide) (by decide) hwin with
      hp | ⟨d, o, hp, hext⟩
    · simp only [] at hp
      rw [hp] at h
      cases h
    · simp only [] at hp
      have ho : o = 12 := by
        rcases put_total cfg ⟨.u, 16⟩ (((0xd3 :: x1 :: x2 :: tl).drop 3).take 1023) 0 n 12 (by decide)
          (by decide) (by decide) (by decide) hwin with hq | ⟨d', hq, -⟩
        · rw [hq] at hp; cases hp
        · rw [hq] at hp; cases hp; rfl
      subst ho
      rw [hp] at h
      simp only [] at h
      split at h
      · next row hrow =>
        have hes := encFrag_es cfg glo row.frag (htbl row (List.mem_of_find?_eq_some hrow)) toks
          { data := d, off := 12 } hext.good
        split at h
        · next c rest henc =>
          rw [henc] at hes
          have hE : Ext { data := d, off := 12 } c := hes
          have hdl : d.length = 1023 := by have := hext.len; simp only [] at this; rw [this, hwl]
          have hcl : c.data.length = 1023 := by have := hE.len; simp only [] at this; rw [this, hdl]
          have hlo : 12 ≤ c.off := hE.mono
          have hhi : c.off ≤ 8184 := by
            have := hE.fit (by simp only []; omega)
            omega
          split at h
          · cases h
          · injection h with h
            have A := assemble x1 x2 tl c.data ((c.off - 1) / 8 + 1) htl hcl (by omega)
            refine ⟨(c.off - 1) / 8 + 1, c.data.take ((c.off - 1) / 8 + 1), by omega, by omega, ?_, ?_, ?_, ?_⟩
            · rw [List.length_take]; omega
            · intro x hx; exact hE.good x (List.mem_of_mem_take hx)
            · rw [← h]; exact A.1
            · intro n' toks' hm hn'
              injection hm with hn _
              subst hn
              have g0 : ∀ j, j < 2 → (c.data.take ((c.off - 1) / 8 + 1)).getD j 0 = c.data.getD j 0 := by
                intro j hj
                simp only [List.getD_eq_getElem?_getD, List.getElem?_take]
                rw [if_pos (by omega)]
              have gl : ∀ j, c.data.getD j 0 < 256 := by
                intro j
                rw [List.getD_eq_getElem?_getD]
                cases hj : c.data[j]? with
                | none => simp
                | some x => simpa using hE.good x (List.mem_of_getElem? hj)
              rw [g0 0 (by omega), g0 1 (by omega)]
              apply number_of_bits n hn' c.data (gl 0) (gl 1)
              intro g hg
              have k := hE.keep g hg
              simp only [] at k
              rw [k, C07.put_bits cfg ⟨.u, 16⟩ _ 0 n 12 (by decide) (by decide) (by decide) (by decide)
                hwin (by rw [hwl]; omega) (by simp only []; omega) d 12 hp g]
              rw [if_pos ⟨Nat.zero_le _, by omega⟩]
              unfold Bits.wireBit Bits.wireValue
              simp
        · cases h
        · cases h
      · cases h
  · cases h

theorem frameOf_bytes (L : Nat) (P : List Nat) (hP : ∀ x ∈ P, x < 256) : ∀ x ∈ frameOf L P, x < 256 := by
  intro x hx
  unfold frameOf at hx
  simp only [List.mem_append, List.mem_cons, List.not_mem_nil, or_false] at hx
  rcases hx with (((rfl | rfl | rfl) | hx) | (rfl | rfl | rfl))
  · decide
  · exact Nat.mod_lt _ (by decide)
  · exact Nat.mod_lt _ (by decide)
  · exact hP x hx
  · exact Nat.mod_lt _ (by decide)
  · exact Nat.mod_lt _ (by decide)
  · exact Nat.mod_lt _ (by decide)

/-- C09, second half: every frame the builder returns is well formed and passes the specification's
frame check (preamble, reserved bits zero, length field = payload length, CRC-24Q). -/
theorem build_wellformed (cfg : Cfg) (tbl : List MsgRow) (htbl : ∀ row ∈ tbl, WFFrag row.frag = true)
    (glo : SigTable) (b : Builder) (hb : BInv b) (m : Msg) (fr : List Nat)
    (h : (b.build cfg tbl glo m).2 = .ok fr) :
    8 ≤ fr.length ∧ fr.length ≤ 1029 ∧ (∀ x ∈ fr, x < 256) ∧
    fr.getD 0 0 = 0xd3 ∧ fr.getD 1 0 &&& 0xFC = 0 ∧
    ((fr.getD 1 0 &&& 3) <<< 8 ||| fr.getD 2 0) = fr.length - 6 ∧
    ∃ f, frameNew (fr.map UInt8.ofNat) = .ok f ∧ f.frameData = fr.map UInt8.ofNat ∧
      f.data.length = fr.length - 6 ∧ f.number.isSome = true ∧
      ∀ n toks, m = .typed n toks → n < 4096 → f.number = some n := by
  obtain ⟨L, P, hL2, hL, hP, hPb, rfl, hnum⟩ := build_ok_frameOf cfg tbl htbl glo b hb m fr h
  obtain ⟨s1, s2, s3, s4, s5⟩ := frameOf_spec L P hP hL2 hL
  refine ⟨by omega, by omega, frameOf_bytes L P hPb, s2, s3, by rw [s4, s1]; omega, ?_⟩
  have hpl : (P.map UInt8.ofNat).length = L := by simp [hP]
  have hf := frameNew_mkFrame 0 (P.map UInt8.ofNat) [] (by omega)
  rw [List.append_nil] at hf
  refine ⟨_, by rw [s5]; exact hf, ?_, ?_, ?_, ?_⟩
  · rw [s5]; rfl
  · show (P.map UInt8.ofNat).length = _
    rw [hpl, s1]; omega
  · show (if 2 ≤ (P.map UInt8.ofNat).length then _ else none : Option Nat).isSome = true
    rw [if_pos (by omega)]; rfl
  · intro n toks hm hn
    show (if 2 ≤ (P.map UInt8.ofNat).length then _ else none : Option Nat) = some n
    rw [if_pos (by omega), byteAt_map_ofNat P 0 (by omega) hPb, byteAt_map_ofNat P 1 (by omega) hPb,
      hnum n toks hm hn]

theorem putW_inv (x1 x2 : Nat) (tl w : List Nat) (htl : tl.length = 1026) (hw : w.length = 1023)
    (hwb : ∀ x ∈ w, x < 256) (hb : ∀ x ∈ (0xd3 :: x1 :: x2 :: tl), x < 256) (r : Bool) :
    BInv { data := (0xd3 :: x1 :: x2 :: tl).take 3 ++ w ++ (0xd3 :: x1 :: x2 :: tl).drop 1026, hasRun := r } := by
  refine ⟨?_, ?_, ?_⟩
  · simp [hw, htl]
  · intro x hx
    simp only [List.mem_append] at hx
    rcases hx with (hx | hx) | hx
    · exact hb x (List.mem_of_mem_take hx)
    · exact hwb x hx
    · exact hb x (List.mem_of_mem_drop hx)
  · simp

/-- the builder invariant is preserved by every call, whatever its outcome -/
theorem build_inv (cfg : Cfg) (tbl : List MsgRow) (htbl : ∀ row ∈ tbl, WFFrag row.frag = true)
    (glo : SigTable) (b : Builder) (hb : BInv b) (m : Msg) : BInv (b.build cfg tbl glo m).1 := by
  obtain ⟨wl, wb, wh⟩ := workData_inv b hb
  unfold workData at wl wb wh
  unfold Builder.build
  simp only []
  generalize (if b.hasRun = true then clearData b.data else b.data) = data at wl wb wh
  have hdef : BInv { data := data, hasRun := true } := ⟨wl, wb, wh⟩
  obtain ⟨x1, x2, tl, rfl, htl⟩ := data_shape data wl wh
  split
  · next n toks _ hnum =>
    have hwin : Good { data := ((0xd3 :: x1 :: x2 :: tl).drop 3).take 1023, off := 0 } := by
      intro x hx
      exact wb x (List.mem_of_mem_drop (List.mem_of_mem_take hx))
    have hwl : (((0xd3 :: x1 :: x2 :: tl).drop 3).take 1023).length = 1023 := by
      simp [htl]
    rcases put_ext cfg ⟨.u, 16⟩ _ n 12 (by decide) (by decide) (by decide) (by decide) hwin with
      hp | ⟨d, o, hp, hext⟩
    · simp only [] at hp
      rw [hp]
      exact hdef
    · simp only [] at hp
      rw [hp]
      simp only []
      have hdl : d.length = 1023 := by have := hext.len; simp only [] at this; rw [this, hwl]
      have hdb : ∀ x ∈ d, x < 256 := hext.good
      split
      · next row hrow =>
        have hes := encFrag_es cfg glo row.frag (htbl row (List.mem_of_find?_eq_some hrow)) toks
          { data := d, off := o } hext.good
        split
        · next c rest henc =>
          rw [henc] at hes
          have hE : Ext { data := d, off := o } c := hes
          have hcl : c.data.length = 1023 := by have := hE.len; simp only [] at this; rw [this, hdl]
          split
          · exact putW_inv x1 x2 tl c.data htl hcl hE.good wb true
          · by_cases hL : (c.off - 1) / 8 + 1 ≤ 1023
            · have A := assemble x1 x2 tl c.data ((c.off - 1) / 8 + 1) htl hcl hL
              exact ⟨A.2.1, A.2.2.2 hE.good (fun x hx => wb x (by simp [hx])), A.2.2.1⟩
            · exfalso
              have h1 := hE.fit
              have h2 := hext.fit
              simp only [] at h1 h2
              omega
        · exact putW_inv x1 x2 tl d htl hdl hdb wb true
        · exact putW_inv x1 x2 tl d htl hdl hdb wb true
      · exact hdef
  · exact hdef

/-- a whole session on one builder: no call ever ends in a modelled Rust panic -/
theorem buildSeq_total (cfg : Cfg) (tbl : List MsgRow) (htbl : ∀ row ∈ tbl, WFFrag row.frag = true)
    (glo : SigTable) (b : Builder) (hb : BInv b) (ms : List Msg) :
    ∀ r ∈ buildSeq cfg tbl glo b ms, ∀ w, r = .panic w → w.startsWith "tokens" = true := by
  induction ms generalizing b with
  | nil => intro r hr; cases hr
  | cons m ms ih =>
    intro r hr w hw
    unfold buildSeq at hr
    simp only [List.mem_cons] at hr
    rcases hr with rfl | hr
    · exact build_total cfg tbl htbl glo b hb.bytes m w hw
    · exact ih _ (build_inv cfg tbl htbl glo b hb m) r hr w hw


/-! ### Instantiation for the regenerated tables -/

/-- Headline (first half of C09): with the regenerated message table and GLONASS table, from any
builder state reachable from `Builder.new` (`BInv`: 1029 bytes, preamble first — `binv_new`,
`build_inv`), in both build profiles, `build_message` never ends in a modelled Rust panic; the only
`panic` outcomes of the model are its own rejections of token streams no Rust value corresponds to. -/
theorem build_total_gen (cfg : Cfg) (b : Builder) (hb : BInv b) (m : Msg) (w : String)
    (h : (b.build cfg Gen.messageTable Gen.sigTable_glo m).2 = .panic w) :
    w.startsWith "tokens" = true :=
  build_total cfg Gen.messageTable (fun _ h => wfFrag_of_mem h) Gen.sigTable_glo b hb.bytes m w h

/-- the same for a whole session on one builder -/
theorem buildSeq_total_gen (cfg : Cfg) (ms : List Msg) :
    ∀ r ∈ buildSeq cfg Gen.messageTable Gen.sigTable_glo Builder.new ms, ∀ w, r = .panic w →
      w.startsWith "tokens" = true :=
  buildSeq_total cfg Gen.messageTable (fun _ h => wfFrag_of_mem h) Gen.sigTable_glo Builder.new
    binv_new ms

/-- Headline (second half of C09): every frame `build_message` returns is 8..=1029 bytes of which the
first is 0xD3, the six reserved bits are zero, the 10-bit length field is the frame length minus 6,
and the frame passes the specification's frame check `frameNew` (CRC-24Q included) as exactly that
frame, with a message number present. -/
theorem build_wellformed_gen (cfg : Cfg) (b : Builder) (hb : BInv b) (m : Msg) (fr : List Nat)
    (h : (b.build cfg Gen.messageTable Gen.sigTable_glo m).2 = .ok fr) :
    8 ≤ fr.length ∧ fr.length ≤ 1029 ∧ (∀ x ∈ fr, x < 256) ∧
    fr.getD 0 0 = 0xd3 ∧ fr.getD 1 0 &&& 0xFC = 0 ∧
    ((fr.getD 1 0 &&& 3) <<< 8 ||| fr.getD 2 0) = fr.length - 6 ∧
    ∃ f, frameNew (fr.map UInt8.ofNat) = .ok f ∧ f.frameData = fr.map UInt8.ofNat ∧
      f.data.length = fr.length - 6 ∧ f.number.isSome = true ∧
      ∀ n toks, m = .typed n toks → n < 4096 → f.number = some n :=
  build_wellformed cfg Gen.messageTable (fun _ h => wfFrag_of_mem h) Gen.sigTable_glo b hb m fr h

/-- message numbers of the regenerated table fit the 12-bit number field -/
theorem gen_numbers_lt : Gen.messageTable.all (fun r => decide (r.number < 4096)) = true := by
  decide +kernel

/-- the frame of a typed message carries that message's number -/
theorem build_number_gen (cfg : Cfg) (b : Builder) (hb : BInv b) (n : Nat) (toks : List Tok)
    (fr : List Nat)
    (h : (b.build cfg Gen.messageTable Gen.sigTable_glo (.typed n toks)).2 = .ok fr) :
    ∃ f, frameNew (fr.map UInt8.ofNat) = .ok f ∧ f.number = some n := by
  obtain ⟨-, -, -, -, -, -, f, hf, -, -, -, hnum⟩ := build_wellformed_gen cfg b hb _ fr h
  refine ⟨f, hf, hnum n toks rfl ?_⟩
  cases hrow : findRow Gen.messageTable n with
  | none =>
    rw [unknown_number_refused cfg _ _ b n toks hrow] at h
    cases h
  | some row =>
    have hmem : row ∈ Gen.messageTable := List.mem_of_find?_eq_some hrow
    have hnum : (row.number == n) = true := by
      unfold findRow at hrow
      have := List.find?_some hrow
      exact this
    have hlt := List.all_eq_true.mp gen_numbers_lt row hmem
    simp only [decide_eq_true_eq] at hlt
    have : row.number = n := by simpa using hnum
    omega

end Rtcm.C09
