import Rtcm.Model.Message
import Rtcm.Gen.Messages
/-!
# C09  Encoding is total and every emitted frame is well formed
-/
namespace Rtcm.C09
open Rtcm.Message Rtcm.Schema

/-- Messages without a wire form are refused with EncodingNotSupported, from any builder state. -/
theorem no_wire_form_refused (cfg : Cfg) (tbl : List MsgRow) (glo : SigTable) (b : Builder) :
    (b.build cfg tbl glo .empty).2 = .err .encodingNotSupported ∧
    (b.build cfg tbl glo .corrupt).2 = .err .encodingNotSupported ∧
    ∀ n, (b.build cfg tbl glo (.notSupported n)).2 = .err .encodingNotSupported := by
  refine ⟨?_, ?_, fun n => ?_⟩ <;> simp [Builder.build]

/-- a typed message whose number is not compiled in is refused as well -/
theorem unknown_number_refused (cfg : Cfg) (tbl : List MsgRow) (glo : SigTable) (b : Builder) (n : Nat)
    (toks : List Tok) (h : findRow tbl n = none) :
    (b.build cfg tbl glo (.typed n toks)).2 = .err .encodingNotSupported := by
  simp [Builder.build, number, h]

end Rtcm.C09
