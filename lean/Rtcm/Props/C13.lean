import Rtcm.Proofs.MkFrame
import Rtcm.Model.Message
/-!
# C13  A frame's interpretation does not depend on the bytes that follow it

`frameNew` returns the whole record of observable attributes (`frame_data`, `data`, `crc`,
`message_number`; the two lengths are the lengths of the first two); the decoded message is a
function of that record (`Message::from_message_frame` reads only `message_number()` and `data()`).
-/
namespace Rtcm.C13

/-- Appending arbitrary bytes after an accepted slice changes no attribute. -/
theorem suffix_irrelevant (d : List UInt8) (x : Frame) (h : frameNew d = .ok x) (sfx : List UInt8) :
    frameNew (d ++ sfx) = .ok x :=
  frameNew_append_ok d sfx x h

/-- In particular for the frame's own L+6 bytes. -/
theorem frame_bytes_suffice (d : List UInt8) (x : Frame) (h : frameNew d = .ok x) :
    frameNew x.frameData = .ok x := by
  have hl := frameNew_ok_frameLen d x h
  have hsplit : x.frameData ++ d.drop x.frameLen = d := by
    rw [hl.2.2.2, List.take_append_drop]
  have h' : frameNew (x.frameData ++ d.drop x.frameLen) = .ok x := by rw [hsplit]; exact h
  apply frameNew_prefix_ok _ _ _ h'
  rw [hsplit, ← hl.1]
  exact Nat.le_refl _

/-- The message number is the first 12 payload bits when the payload has at least two bytes and
is absent otherwise. -/
theorem message_number_spec (d : List UInt8) (x : Frame) (h : frameNew d = .ok x) :
    x.number = if 2 ≤ x.dataLen then some ((byteAt x.data 0 <<< 4) ||| (byteAt x.data 1 >>> 4))
               else none := by
  rw [frameNew_ok_iff] at h
  obtain ⟨h6, hp, hle, hc, hf⟩ := h
  subst hf
  have hdl : ((d.drop 3).take (lenField d)).length = lenField d := by simp; omega
  simp only [Frame.dataLen, hdl]
  by_cases h2 : 2 ≤ lenField d
  · simp only [h2, if_true]
    have e : ∀ i, i < lenField d → byteAt ((d.drop 3).take (lenField d)) i = byteAt d (3 + i) := by
      intro i hi
      simp [byteAt, List.getD_eq_getElem?_getD, hi]
    rw [e 0 (by omega), e 1 (by omega)]
  · simp [h2]

/-- the message number is a 12-bit quantity -/
theorem message_number_lt (d : List UInt8) (x : Frame) (h : frameNew d = .ok x) (n : Nat)
    (hn : x.number = some n) : n < 4096 := by
  rw [frameNew_ok_iff] at h
  obtain ⟨_, _, _, _, hf⟩ := h
  subst hf
  simp only at hn
  split at hn
  · simp only [Option.some.injEq] at hn
    subst hn
    have h3 : byteAt d 3 < 256 := UInt8.toNat_lt _
    have h4 : byteAt d 4 < 256 := UInt8.toNat_lt _
    apply Nat.lt_pow_two_of_testBit (n := 12)
    intro i hi
    simp only [Nat.testBit_or, Nat.testBit_shiftLeft, Nat.testBit_shiftRight]
    have a : (byteAt d 3).testBit (i - 4) = false :=
      Nat.testBit_lt_two_pow (Nat.lt_of_lt_of_le h3 (Nat.pow_le_pow_right (by decide : 2 > 0) (by omega : 8 ≤ i - 4)))
    have b : (byteAt d 4).testBit (4 + i) = false :=
      Nat.testBit_lt_two_pow (Nat.lt_of_lt_of_le h4 (Nat.pow_le_pow_right (by decide : 2 > 0) (by omega : 8 ≤ 4 + i)))
    simp [a, b]
  · simp at hn

/-- The decoded message is a function of the accepted frame record, hence it too is unchanged by
appended bytes (for any dispatch table and build profile). -/
theorem decoded_message_suffix_irrelevant (cfg : Cfg) (tbl : List Schema.MsgRow) (d sfx : List UInt8)
    (x : Frame) (h : frameNew d = .ok x) :
    (match frameNew (d ++ sfx) with
      | .ok y => some (Message.decodeFrame cfg tbl y)
      | .error _ => none) = some (Message.decodeFrame cfg tbl x) := by
  rw [suffix_irrelevant d x h sfx]

/-! Non-vacuity: the L = 0 and L = 1 frames of defect D1 with the suffix that used to change the
message number, and an ordinary frame. -/
example : (frameNew ([0xd3, 0x00, 0x00, 0x47, 0xea, 0x4b] ++ [1, 2, 3, 4])).toOption.map (·.number)
    = some none := by decide +kernel
example : (frameNew (mkFrame 0 [0x3e] ++ [0xd0, 2, 3, 4])).toOption.map (·.number) = some none := by
  decide +kernel
example : (frameNew (mkFrame 0 [0x3e, 0xd0] ++ [9, 9])).toOption.map (·.number) = some (some 1005) := by
  decide +kernel

end Rtcm.C13
