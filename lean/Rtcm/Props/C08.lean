import Rtcm.Model.Df
import Rtcm.Gen.DfTable
import Rtcm.Proofs.DfFloat
/-!
# C08  Every data field is lossless on its grid and has exactly one 'absent' pattern

For every `df!` row `s` with `wf s` (a decidable Boolean predicate, instantiated on the whole
generated table by `table_wf`) and every signed carrier reading `sv` that `Bits.parse` can return
for a `len`-bit field of the row's kind (`InRange s sv`):

* `df_value_roundtrip` : decoding `sv` and encoding the result reproduces the carrier value;
* `df_decoded_finite`  : float fields decode to a finite datum which is not `-0`;
* `df_absent_unique`, `df_decode_absent_iff`, `df_encode_absent`, `inv_inRange` : the decoder
  answers "absent" for the reading `inv` and for no other, the encoder writes `inv` for "absent";
* `df_decode_encode`   : the token-level round trip (`Df.decode` then `Df.encode`) puts
  `Bits.ofInt w sv` again (to be composed with the bit-packer theorems of C07).

The float argument (Rtcm/Proofs/DfLaws.lean, `deq_chain` / `enc_chain`): with `k = sv`,
`r = fl(res)`, `b = fl(bias)`, `u = 2^-p`, `K = 2^len`: decode computes `x = fl(fl(k·r) + b)`,
encode computes `q = fl(fl(x - b)/r)`; then `|q - k| ≤ E` with the explicit rational
`E = D/r + u·(K·r + D)/r`, `D = u·(M3 + M2 + M1)`, `M1 = K·r`, `M2 = M1(1+u) + b`,
`M3 = M2(1+u) + b`, and `E + u·(K+1) < 1/2` (checked per row in exact `Rat` arithmetic inside
`wf`) forces `trunc(fl(q ± 1/2)) = k`.
-/
namespace Rtcm.C08
open Rtcm.Schema Rtcm.Bits Rtcm.Df Rtcm.SoftFloat Rtcm.DfWf Rtcm.DfLaws

/-- structural well-formedness of a `df!` row -/
def wfBasic (s : DfSpec) : Bool :=
  decide (1 ≤ s.len) && decide (s.len ≤ s.it.w) &&
  (s.it.w == 8 || s.it.w == 16 || s.it.w == 32 || s.it.w == 64)

theorem table_wfBasic : Gen.dfTable.all wfBasic = true := by decide +kernel

/-- full well-formedness of a `df!` row: `DfWf.wf` (Rtcm/Proofs/DfWf.lean) =
`wfBasic s && wfInv s && (if s.dt.isFloat then wfFlt s else wfInt s)` -/
abbrev wf (s : DfSpec) : Bool := DfWf.wf s

/-- the signed carrier readings `Bits.parse` can return for the field -/
abbrev InRange (s : DfSpec) (sv : Int) : Prop := DfWf.InRange s sv

/-- `InRange` spelled out per kind -/
theorem inRange_iff (s : DfSpec) (sv : Int) :
    InRange s sv ↔
      match s.it.kind with
      | .u => 0 ≤ sv ∧ sv < 2 ^ s.len
      | .i => -(2 ^ (s.len - 1)) ≤ sv ∧ sv < 2 ^ (s.len - 1)
      | .sm => -(2 ^ (s.len - 1)) < sv ∧ sv < 2 ^ (s.len - 1) := by
  unfold InRange DfWf.InRange svLo svHi
  rcases s.it.kind <;> simp only <;> omega

/-- (d) every row of the generated table is well-formed -/
theorem table_wf : Gen.dfTable.all wf = true := by decide +kernel

theorem wf_of_mem {s : DfSpec} (h : s ∈ Gen.dfTable) : wf s = true :=
  List.all_eq_true.mp table_wf s h

private theorem wf_parts {s : DfSpec} (hw : wf s = true) :
    DfWf.wfBasic s = true ∧ wfInv s = true ∧
      (if s.dt.isFloat then wfFlt s else wfInt s) = true := by
  unfold wf DfWf.wf at hw
  simp only [Bool.and_eq_true] at hw
  exact ⟨hw.1.1, hw.1.2, hw.2⟩

theorem wf_wfBasic {s : DfSpec} (hw : wf s = true) : wfBasic s = true := (wf_parts hw).1

/-- (a) decoding a carrier reading and encoding the result reproduces the carrier value -/
theorem df_value_roundtrip (cfg : Cfg) (s : DfSpec) (sv : Int) (hw : wf s = true)
    (hr : InRange s sv) :
    ∃ t, Df.dequantise cfg s sv = .ok t ∧ Df.quantise s t = .ok (Bits.ofInt s.it.w sv) := by
  obtain ⟨hb, -, hk⟩ := wf_parts hw
  by_cases hf : s.dt.isFloat = true
  · rw [if_pos hf] at hk
    obtain ⟨bits, h1, h2, -, -⟩ := flt_roundtrip cfg s sv hf hb hk hr
    exact ⟨_, h1, h2⟩
  · rw [if_neg hf] at hk
    exact int_roundtrip cfg s sv (by simpa using hf) hk hr

example : wf Gen.df_df011 = true ∧ InRange Gen.df_df011 16777214 :=
  ⟨by decide +kernel, by decide +kernel, by decide +kernel⟩
example : wf Gen.df_df025 = true ∧ InRange Gen.df_df025 (-137438953472) :=
  ⟨by decide +kernel, by decide +kernel, by decide +kernel⟩
example : wf Gen.df_df134 = true ∧ InRange Gen.df_df134 31 :=
  ⟨by decide +kernel, by decide +kernel, by decide +kernel⟩

/-- (b) float fields decode to a finite datum (no NaN, no infinity) which is never `-0` -/
theorem df_decoded_finite (cfg : Cfg) (s : DfSpec) (sv : Int) (hw : wf s = true)
    (hr : InRange s sv) (hf : s.dt.isFloat = true) :
    ∃ b, Df.dequantise cfg s sv = .ok (.flt b) ∧
      (SoftFloat.ofBits (fmtOf s.dt) b).isFinite = true ∧
      (SoftFloat.ofBits (fmtOf s.dt) b).isNegZero = false := by
  obtain ⟨hb, -, hk⟩ := wf_parts hw
  rw [if_pos hf] at hk
  obtain ⟨bits, h1, -, h3, h4⟩ := flt_roundtrip cfg s sv hf hb hk hr
  exact ⟨bits, h1, h3, h4⟩

example : wf Gen.df_df564 = true ∧ InRange Gen.df_df564 65535 ∧ Gen.df_df564.dt.isFloat = true :=
  ⟨by decide +kernel, ⟨by decide +kernel, by decide +kernel⟩, by decide +kernel⟩

/-- (c) `Df.decode`: the tokens are `[absent]` exactly for the reading `inv`, `[present, t]`
otherwise (`[t]` for a field without `inv`), where `t` is the decoded value -/
theorem df_absent_unique (cfg : Cfg) (s : DfSpec) (c : Cur) (p o : Nat) (hw : wf s = true)
    (hp : Bits.parse cfg s.it c.data c.off s.len = .ok (p, o))
    (hr : InRange s (carrierVal s.it p)) :
    ∃ t, Df.dequantise cfg s (carrierVal s.it p) = .ok t ∧
      Df.decode cfg s c = .ok
        ((match s.inv with
          | some inv => if carrierVal s.it p = inv then [Tok.absent] else [Tok.present, t]
          | none => [t]), { c with off := o }) := by
  obtain ⟨t, ht, -⟩ := df_value_roundtrip cfg s _ hw hr
  exact ⟨t, ht, decode_tokens cfg s c p o t hp ht⟩

/-- (c) "absent" is decoded iff the reading is the `inv` marker -/
theorem df_decode_absent_iff (cfg : Cfg) (s : DfSpec) (c : Cur) (p o : Nat) (hw : wf s = true)
    (hp : Bits.parse cfg s.it c.data c.off s.len = .ok (p, o))
    (hr : InRange s (carrierVal s.it p)) :
    ∃ toks, Df.decode cfg s c = .ok (toks, { c with off := o }) ∧
      (toks = [Tok.absent] ↔ s.inv = some (carrierVal s.it p)) := by
  obtain ⟨t, ht, hd⟩ := df_absent_unique cfg s c p o hw hp hr
  refine ⟨_, hd, ?_⟩
  rcases hi : s.inv with _ | inv
  · have hne : t ≠ Tok.absent := by
      obtain ⟨t', ht', hq⟩ := df_value_roundtrip cfg s _ hw hr
      rw [ht] at ht'
      cases ht'
      rintro rfl
      unfold Df.quantise at hq
      split_ifs at hq
    simp [hne]
  · simp only
    by_cases h : carrierVal s.it p = inv
    · simp [h]
    · simp only [h, if_false]
      constructor
      · intro h'; cases h'
      · intro h'; cases h'; exact absurd rfl h

/-- (c) the encoder writes the `inv` pattern for "absent" -/
theorem df_encode_absent (cfg : Cfg) (s : DfSpec) (inv : Int) (rest : List Tok) (c : Cur)
    (hinv : s.inv = some inv) :
    Df.encode cfg s (.absent :: rest) c = putPat cfg s c (Bits.ofInt s.it.w inv) rest :=
  encode_absent cfg s inv rest c hinv

/-- (c) the `inv` marker is one of the readings of the field: exactly one absent pattern -/
theorem inv_inRange (s : DfSpec) (inv : Int) (hw : wf s = true) (hinv : s.inv = some inv) :
    InRange s inv := by
  obtain ⟨-, hi, -⟩ := wf_parts hw
  unfold wfInv at hi
  rw [hinv] at hi
  simp only [Bool.and_eq_true, decide_eq_true_eq] at hi
  exact hi

example : wf Gen.df_df011 = true ∧ Gen.df_df011.inv = some 16777215 :=
  ⟨by decide +kernel, by decide +kernel⟩

/-- token-level round trip: whatever `Df.decode` produced for the reading `sv`, `Df.encode` puts
the pattern `Bits.ofInt w sv` -/
theorem df_decode_encode (cfg : Cfg) (s : DfSpec) (c c' : Cur) (p o : Nat) (rest : List Tok)
    (hw : wf s = true) (hp : Bits.parse cfg s.it c.data c.off s.len = .ok (p, o))
    (hr : InRange s (carrierVal s.it p)) :
    ∃ toks, Df.decode cfg s c = .ok (toks, { c with off := o }) ∧
      Df.encode cfg s (toks ++ rest) c' =
        putPat cfg s c' (Bits.ofInt s.it.w (carrierVal s.it p)) rest := by
  obtain ⟨t, ht, hq⟩ := df_value_roundtrip cfg s _ hw hr
  refine ⟨_, decode_tokens cfg s c p o t hp ht, ?_⟩
  rcases hi : s.inv with _ | inv
  · exact encode_ord cfg s t rest c' _ hi hq
  · simp only
    by_cases h : carrierVal s.it p = inv
    · simp only [h, if_true]
      exact encode_absent cfg s inv rest c' hi
    · simp only [h, if_false]
      exact encode_present cfg s inv t rest c' _ hi hq

end Rtcm.C08
