import Rtcm.Model.Df
import Rtcm.Gen.DfTable
/-!
# C08  Every data field is lossless on its grid and has exactly one 'absent' pattern
(under construction: table well-formedness instantiation; round-trip theorems follow)
-/
namespace Rtcm.C08
open Rtcm.Schema Rtcm.Bits

/-- structural well-formedness of a `df!` row -/
def wfBasic (s : DfSpec) : Bool :=
  decide (1 ≤ s.len) && decide (s.len ≤ s.it.w) &&
  (s.it.w == 8 || s.it.w == 16 || s.it.w == 32 || s.it.w == 64)

theorem table_wfBasic : Gen.dfTable.all wfBasic = true := by decide +kernel

end Rtcm.C08
