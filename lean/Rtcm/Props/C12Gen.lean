import Rtcm.Model.BuilderGen
import Rtcm.Props.C12
/-!
# C12 over both entry points of the builder

Subject: `Rtcm.Message.Builder.buildGen` and `Builder.step` (Model/BuilderGen.lean), the model of
`MessageBuilder::build_generated_message` next to `build_message` (src/msg/message.rs).

The body of a generated message is an arbitrary function on the bit-writer state (`BodyWriter`).
The one thing asked of it is `WindowSafe`: when it succeeds, the buffer it hands back has the
length of the buffer it was given. In Rust this is not an assumption: the assembler writes through
`&mut [u8]` of fixed length 1023 and cannot change it; the hypothesis only excludes functions of
the model's type that no Rust body corresponds to. Nothing is asked on the `.err` / `.panic` path:
the model then keeps the buffer as it was after the number (`put w1`, see the note at `buildGen`).
Every writer made of `Bits.put` calls is `WindowSafe` (`windowSafe_putAll`).

* `buildGen_eq_fresh`: one step, needs no hypothesis on the writer of *that* step.
* `inv_buildGen`: the invariant of C12 survives a generated build, for every outcome.
* `inv_step`, `inv_steps`, `step_eq_fresh`.
* `step_history_independent` (**the property**): after any history of `build_message` and
  `build_generated_message` calls (successful, failing, panicking) the result of one more call of
  either kind is what a new builder returns. `stepSeq_eq_map`: the same for a whole run.
* `build_eq_buildGen`: `build_message` of a typed message returns what `build_generated_message`
  returns for the writer "encode this value" (the two entry points share prologue and epilogue).
-/
namespace Rtcm.C12
open Rtcm.Message Rtcm.Schema

/-- a body writer that, when it succeeds, returns a buffer of the length it was given (the
assembler's slice `data[3..1026]` has a fixed length). Nothing is required when it fails. -/
def WindowSafe (w : BodyWriter) : Prop :=
  ∀ c c', w c = .ok c' → c'.data.length = c.data.length

/-- `WindowSafe` for the optional writer of `buildGen` (`none`: unknown number, nothing to ask) -/
def WindowSafeOpt : Option BodyWriter → Prop
  | none => True
  | some w => WindowSafe w

/-- a step whose writer, if it has one, is `WindowSafe` -/
def _root_.Rtcm.Message.Step.Safe : Step → Prop
  | .msg _ => True
  | .gen _ w => WindowSafeOpt w

/-- One generated build: from any state satisfying the invariant the result (frame bytes, error,
panic) is the result a fresh builder gives. No hypothesis on `w`. -/
theorem buildGen_eq_fresh (cfg : Cfg) (b : Builder) (h : Inv b) (n : Nat) (w : Option BodyWriter) :
    (b.buildGen cfg n w).2 = (Builder.new.buildGen cfg n w).2 := by
  have hdata := start_eq_fresh b h
  unfold Builder.buildGen
  simp only [hdata]
  simp only [Builder.new, Bool.false_eq_true, if_false]

/-- `Inv` is preserved by `build_generated_message` for every number and every outcome: a frame,
`EncodingNotSupported` after the number was written, an error or a panic of the body. -/
theorem inv_buildGen (cfg : Cfg) (b : Builder) (h : Inv b) (n : Nat) (w : Option BodyWriter)
    (hw : WindowSafeOpt w) : Inv (b.buildGen cfg n w).1 := by
  have hg : Good (if b.hasRun then clearData b.data else b.data) := by
    rw [start_eq_fresh b h]; exact good_fresh
  unfold Builder.buildGen
  simp only []
  generalize (if b.hasRun then clearData b.data else b.data) = data at hg ⊢
  have hwin := window_length hg
  split
  · next w1 o1 hp =>
    have hw1 : w1.length = 1023 := by rw [Bits.put_length hp, hwin]
    split
    · next body =>
      split
      · next c hc =>
        have hcl : c.data.length = 1023 := by rw [hw _ _ hc]; exact hw1
        apply inv_of_good
        have e3 : ∀ k, k + 3 = (k + 2) + 1 := fun k => by omega
        have e4 : ∀ k, k + 4 = (k + 3) + 1 := fun k => by omega
        have e5 : ∀ k, k + 5 = (k + 4) + 1 := fun k => by omega
        rw [e3, e4, e5]
        exact good_set (good_set (good_set (good_set (good_set (good_put hg hcl) 0 _) 1 _) _ _) _ _) _ _
      · exact inv_of_good (good_put hg hw1)
      · exact inv_of_good (good_put hg hw1)
    · exact inv_of_good (good_put hg hw1)
  · exact inv_of_good hg
  · exact inv_of_good hg

/-- one step of either kind: result as from a fresh builder -/
theorem step_eq_fresh (cfg : Cfg) (tbl : List MsgRow) (glo : SigTable) (b : Builder) (h : Inv b)
    (s : Step) : (b.step cfg tbl glo s).2 = (Builder.new.step cfg tbl glo s).2 := by
  cases s with
  | msg m => exact build_eq_fresh cfg tbl glo b h m
  | gen n w => exact buildGen_eq_fresh cfg b h n w

/-- one step of either kind preserves the invariant -/
theorem inv_step (cfg : Cfg) (tbl : List MsgRow) (glo : SigTable) (b : Builder) (h : Inv b)
    (s : Step) (hs : s.Safe) : Inv (b.step cfg tbl glo s).1 := by
  cases s with
  | msg m => exact inv_build cfg tbl glo b h m
  | gen n w => exact inv_buildGen cfg b h n w hs

theorem inv_steps (cfg : Cfg) (tbl : List MsgRow) (glo : SigTable) :
    ∀ (hist : List Step) (b : Builder), Inv b → (∀ s ∈ hist, s.Safe) →
      Inv (hist.foldl (fun b x => (b.step cfg tbl glo x).1) b) := by
  intro hist
  induction hist with
  | nil => intro b h _; exact h
  | cons x xs ih =>
    intro b h hs
    exact ih _ (inv_step cfg tbl glo b h x (hs x (List.mem_cons_self ..)))
      (fun s hm => hs s (List.mem_cons_of_mem _ hm))

/-- every builder state reachable through the two entry points satisfies the invariant -/
theorem inv_reachable_steps (cfg : Cfg) (tbl : List MsgRow) (glo : SigTable) (hist : List Step)
    (hs : ∀ s ∈ hist, s.Safe) :
    Inv (hist.foldl (fun b x => (b.step cfg tbl glo x).1) Builder.new) :=
  inv_steps cfg tbl glo hist _ inv_new hs

/-- **C12, both entry points**: whatever the builder was used for earlier (any finite history of
`build_message` and `build_generated_message` calls, with any outcomes), the result of one more
call `s` of either kind (frame bytes, error or panic) is the result a new builder gives.
The writers of the history are `WindowSafe`; the final step is arbitrary. -/
theorem step_history_independent (cfg : Cfg) (tbl : List MsgRow) (glo : SigTable)
    (hist : List Step) (hs : ∀ s ∈ hist, s.Safe) (s : Step) :
    ((hist.foldl (fun b x => (b.step cfg tbl glo x).1) Builder.new).step cfg tbl glo s).2
      = (Builder.new.step cfg tbl glo s).2 :=
  step_eq_fresh cfg tbl glo _ (inv_reachable_steps cfg tbl glo hist hs) s

/-- every result of a run over both entry points is what a new builder returns for that step -/
theorem stepSeq_eq_map (cfg : Cfg) (tbl : List MsgRow) (glo : SigTable) :
    ∀ (ss : List Step) (b : Builder), Inv b → (∀ s ∈ ss, s.Safe) →
      stepSeq cfg tbl glo b ss = ss.map fun s => (Builder.new.step cfg tbl glo s).2 := by
  intro ss
  induction ss with
  | nil => intro b _ _; rfl
  | cons s ss ih =>
    intro b h hs
    simp only [stepSeq, List.map_cons, step_eq_fresh cfg tbl glo b h s,
      ih _ (inv_step cfg tbl glo b h s (hs s (List.mem_cons_self ..)))
        (fun t hm => hs t (List.mem_cons_of_mem _ hm))]

/-! ### The two entry points agree on a typed message -/

/-- the body writer "encode the value `toks` with the layout `frag`" (a leftover token is the
`tokens: trailing tokens` panic of `Builder.build`) -/
def encWriter (cfg : Cfg) (glo : SigTable) (frag : Frag) (toks : List Tok) : BodyWriter := fun c =>
  match Interp.encFrag cfg glo frag toks c with
  | .ok (c', rest) => if !rest.isEmpty then .panic "tokens: trailing tokens" else .ok c'
  | .err e => .err e
  | .panic s => .panic s

theorem windowSafe_encWriter (cfg : Cfg) (glo : SigTable) (frag : Frag) (toks : List Tok) :
    WindowSafe (encWriter cfg glo frag toks) := by
  intro c c' h
  unfold encWriter at h
  split at h
  · next c1 rest henc =>
    split at h
    · cases h
    · cases h
      exact Interp.encFrag_length cfg glo _ _ _ _ _ henc
  · cases h
  · cases h

/-- `build_message` of a typed message whose number has a row returns what
`build_generated_message` returns for that number and the writer `encWriter` of its layout. -/
theorem build_eq_buildGen (cfg : Cfg) (tbl : List MsgRow) (glo : SigTable) (b : Builder)
    (n : Nat) (toks : List Tok) (row : MsgRow) (hrow : findRow tbl n = some row) :
    (b.build cfg tbl glo (.typed n toks)).2
      = (b.buildGen cfg n (some (encWriter cfg glo row.frag toks))).2 := by
  have hnum : number tbl (.typed n toks) = some n := by simp [number, hrow]
  unfold Builder.build Builder.buildGen encWriter
  simp only [hnum, hrow]
  generalize (if b.hasRun then clearData b.data else b.data) = data
  cases hp : Bits.put cfg ⟨.u, 16⟩ ((data.drop 3).take 1023) 0 n 12 with
  | ok p =>
    obtain ⟨w1, o1⟩ := p
    simp only []
    cases henc : Interp.encFrag cfg glo row.frag toks { data := w1, off := o1 } with
    | ok q =>
      obtain ⟨c, rest⟩ := q
      by_cases hr : rest.isEmpty = true <;> simp [hr]
    | err e => rfl
    | panic s => rfl
  | err e => rfl
  | panic s => rfl

/-! ### A concrete writer: a few `Assembler::put` calls -/

/-- write the fields `(value, bit length)` one after the other with `Assembler::put::<U16>` -/
def putAll (cfg : Cfg) : List (Nat × Nat) → BodyWriter
  | [], c => .ok c
  | (v, len) :: fs, c =>
    match Bits.put cfg ⟨.u, 16⟩ c.data c.off v len with
    | .ok (d, o) => putAll cfg fs { data := d, off := o }
    | .err e => .err e
    | .panic s => .panic s

theorem windowSafe_putAll (cfg : Cfg) (fs : List (Nat × Nat)) : WindowSafe (putAll cfg fs) := by
  induction fs with
  | nil => intro c c' h; cases h; rfl
  | cons f fs ih =>
    intro c c' h
    obtain ⟨v, len⟩ := f
    unfold putAll at h
    split at h
    · next d o hp => rw [ih _ _ h]; exact Bits.put_length hp
    · cases h
    · cases h

/-! ### Non-vacuity: stale ones under the last byte of the next frame -/

/-- A two-step history over both entry points: a `build_message` that fails half way (1230 with a
signal its bias list does not know), then a generated 1005 whose body is 36 one bits, so that bytes
`data[4..9]` of the builder are `df ff ff ff ff`. The next call generates a shorter 1006 (26 bits:
the last payload byte `data[6]` receives two bits). The builder holds `0xff` at that index, the
returned frame has `0xc0` there (the six bits behind the cursor are zero), and the frame is the one
a new builder returns. -/
example (cfg : Cfg) :
    let wLong : BodyWriter := putAll cfg [(0xFFFF, 16), (0xFFF, 12), (0xFF, 8)]
    let wShort : BodyWriter := putAll cfg [(0x2A5, 10), (0x3, 4)]
    let hist : List Step :=
      [.msg (.typed 1230 [.int 7, .int 1, .count 1, .sig 9 9, .flt 0]), .gen 1005 (some wLong)]
    let b := hist.foldl (fun b x => (b.step cfg Gen.messageTable Gen.sigTable_glo x).1) Builder.new
    let r := b.step cfg Gen.messageTable Gen.sigTable_glo (.gen 1006 (some wShort))
    (∀ s ∈ hist, s.Safe) ∧ b.data.take 9 = [0xd3, 0, 6, 0x3e, 0xdf, 0xff, 0xff, 0xff, 0xff] ∧
      (match r.2 with | .ok f => f | _ => []) = [0xd3, 0, 4, 0x3e, 0xea, 0x94, 0xc0, 0xfe, 0xd5, 0x54] ∧
      r.2 = (Builder.new.step cfg Gen.messageTable Gen.sigTable_glo (.gen 1006 (some wShort))).2 := by
  intro wLong wShort hist b r
  have hs : ∀ s ∈ hist, s.Safe := by
    intro s hm
    simp only [hist, List.mem_cons, List.mem_nil_iff, or_false] at hm
    rcases hm with rfl | rfl
    · trivial
    · exact windowSafe_putAll cfg _
  refine ⟨hs, ?_, ?_, step_history_independent cfg _ _ hist hs _⟩
  · cases cfg with
    | mk ck => cases ck <;> decide +kernel
  · cases cfg with
    | mk ck => cases ck <;> decide +kernel

/-- an unknown number: `EncodingNotSupported`, and the number stays in the buffer (≠ fresh) -/
example (cfg : Cfg) :
    let r := Builder.new.buildGen cfg 4000 none
    r.2.isOk = false ∧ r.2.isPanic = false ∧ r.1.data.take 6 = [0xd3, 0, 0, 0xfa, 0, 0] ∧ Inv r.1 :=
  ⟨by cases cfg with | mk ck => cases ck <;> decide +kernel,
   by cases cfg with | mk ck => cases ck <;> decide +kernel,
   by cases cfg with | mk ck => cases ck <;> decide +kernel,
   inv_buildGen cfg _ inv_new _ _ trivial⟩

end Rtcm.C12
