import Rtcm.Proofs.Scan
/-!
# C06  Frame delivery does not depend on how the stream is split into chunks

Caller protocol (`StreamState.feed`): append the new piece to what remains, call the scanner,
drop the reported consumed bytes, repeat while a frame is delivered.
-/
namespace Rtcm.C06

/-- the state reached by scanning the whole stream `p` at once -/
def stateOf (p : List UInt8) : StreamState :=
  { buf := (drainAll p).2, delivered := (drainAll p).1,
    consumed := p.length - (drainAll p).2.length }

theorem feed_stateOf (p c : List UInt8) : (stateOf p).feed c = stateOf (p ++ c) := by
  simp only [StreamState.feed, stateOf]
  rw [drainAll_append p c]
  have h1 := drainAll_rem_le p
  have h2 := drainAll_rem_le ((drainAll p).2 ++ c)
  simp only [List.length_append] at h2 ⊢
  congr 1
  omega

theorem foldl_feed (chunks : List (List UInt8)) (p : List UInt8) :
    chunks.foldl StreamState.feed (stateOf p) = stateOf (p ++ chunks.flatten) := by
  induction chunks generalizing p with
  | nil => simp
  | cons c cs ih =>
    simp only [List.foldl_cons, List.flatten_cons]
    rw [feed_stateOf, ih, List.append_assoc]

theorem init_eq : StreamState.init = stateOf [] := by
  simp [StreamState.init, stateOf, drainAll, drain, scan]

/-- Feeding a stream in arbitrary consecutive pieces delivers the same frames, in the same order,
consumes the same total and leaves the same unconsumed remainder as scanning it whole. -/
theorem chunking_irrelevant (chunks : List (List UInt8)) :
    feedAll chunks = feedAll [chunks.flatten] := by
  unfold feedAll
  rw [init_eq, foldl_feed, foldl_feed]
  simp

/-- Explicit form: what is delivered and consumed is a function of the concatenated stream. -/
theorem feedAll_eq (chunks : List (List UInt8)) :
    (feedAll chunks).delivered = (drainAll chunks.flatten).1 ∧
    (feedAll chunks).buf = (drainAll chunks.flatten).2 ∧
    (feedAll chunks).consumed + (feedAll chunks).buf.length = chunks.flatten.length := by
  unfold feedAll
  rw [init_eq, foldl_feed]
  simp only [List.nil_append, stateOf]
  have := drainAll_rem_le chunks.flatten
  refine ⟨trivial, trivial, by omega⟩

/-- Two different ways of cutting the same stream agree. -/
theorem any_two_chunkings_agree (cs cs' : List (List UInt8)) (h : cs.flatten = cs'.flatten) :
    feedAll cs = feedAll cs' := by
  rw [chunking_irrelevant cs, chunking_irrelevant cs', h]

/-- Generalisation to arbitrary schedules: any interleaving of appending pieces and single scanner
calls (each time dropping what was reported consumed), finished by draining, delivers the frames of
the whole stream, leaves the same remainder and has consumed the same total. -/
theorem any_schedule_from (ops : List StreamOp) (s : StreamState) :
    ((ops.foldl StreamState.step s).finish).delivered = s.delivered ++ (drainAll (s.buf ++ appended ops)).1 ∧
    ((ops.foldl StreamState.step s).finish).buf = (drainAll (s.buf ++ appended ops)).2 ∧
    ((ops.foldl StreamState.step s).finish).consumed + ((ops.foldl StreamState.step s).finish).buf.length
      = s.consumed + s.buf.length + (appended ops).length := by
  induction ops generalizing s with
  | nil =>
    simp only [List.foldl_nil, appended, List.append_nil, StreamState.finish, List.length_nil, Nat.add_zero]
    have := drainAll_rem_le s.buf
    exact ⟨trivial, trivial, by omega⟩
  | cons op rest ih =>
    simp only [List.foldl_cons]
    cases op with
    | append c =>
      have := ih (s.step (.append c))
      simp only [StreamState.step, appended] at this ⊢
      rw [List.append_assoc] at this
      refine ⟨this.1, this.2.1, ?_⟩
      rw [this.2.2]; simp only [List.length_append]; omega
    | scanOnce =>
      rcases hs : scan s.buf with ⟨c, _ | f⟩
      · have := ih (s.step .scanOnce)
        simp only [StreamState.step, appended, hs, Option.toList, List.append_nil] at this ⊢
        rw [drainAll_skip_dead s.buf (appended rest) c hs]
        have hcle : c ≤ s.buf.length := by have := scan_consumed_le s.buf; rw [hs] at this; exact this
        refine ⟨this.1, this.2.1, ?_⟩
        rw [this.2.2]; simp only [List.length_drop]; omega
      · have := ih (s.step .scanOnce)
        simp only [StreamState.step, appended, hs, Option.toList] at this ⊢
        rw [drainAll_take_frame s.buf (appended rest) c f hs]
        have hp := scan_some_pos s.buf c f hs
        refine ⟨by rw [this.1]; simp, this.2.1, ?_⟩
        rw [this.2.2]; simp only [List.length_drop]; omega

theorem any_schedule (ops : List StreamOp) :
    ((ops.foldl StreamState.step .init).finish).delivered = (drainAll (appended ops)).1 ∧
    ((ops.foldl StreamState.step .init).finish).buf = (drainAll (appended ops)).2 ∧
    ((ops.foldl StreamState.step .init).finish).consumed + ((ops.foldl StreamState.step .init).finish).buf.length
      = (appended ops).length := by
  have := any_schedule_from ops .init
  simpa [StreamState.init] using this

/-! Non-vacuity: a cut inside the preamble/length field, the payload and the checksum. -/
example :
    let v := mkFrame 0 [0x3e, 0xd0, 7]
    let s := [9, 5] ++ v ++ v
    (feedAll [s.take 3, (s.drop 3).take 4, (s.drop 7).take 3, s.drop 10]).delivered.length = 2 := by
  decide +kernel

end Rtcm.C06
