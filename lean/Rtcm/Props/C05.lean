import Rtcm.Proofs.Scan
/-!
# C05  The stream scanner finds the first deliverable frame and skips only dead bytes

Model: `Rtcm.scan` (`next_msg_frame`), `Rtcm.IterState` (`MsgFrameIter`).
`DeadAt d j`: position `j` is not a 0xD3 byte, or the candidate there is complete and rejected.
-/
namespace Rtcm.C05

/-- A frame is delivered exactly when position `i` is the earliest 0xD3 whose candidate is not
dead, that candidate is accepted, and then consumed = end of that frame. -/
theorem delivers_iff (d : List UInt8) (c : Nat) (f : Frame) :
    scan d = (c, some f) ↔
      ∃ i, i < d.length ∧ d.getD i 0 = 0xd3 ∧ frameNew (d.drop i) = .ok f ∧ c = i + f.frameLen ∧
        ∀ j, j < i → DeadAt d j := by
  constructor
  · exact scan_some d c f
  · rintro ⟨i, hi, hd3, hok, hc, hdead⟩
    rcases hs : scan d with ⟨c', _ | f'⟩
    · exfalso
      obtain ⟨hle, hdead', hend⟩ := scan_none d c' hs
      by_cases hlt : i < c'
      · rcases hdead' i hlt with h | h
        · exact h hd3
        · rw [hok] at h; cases h
      · rcases hend with h | ⟨h1, h2⟩
        · omega
        · by_cases heq : i = c'
          · subst heq; rw [hok] at h2; cases h2
          · rcases hdead c' (by omega) with h | h
            · exact h h1
            · rw [h2] at h; cases h
    · obtain ⟨i', hi', hd3', hok', hc', hdead'⟩ := scan_some d c' f' hs
      have hii : i = i' := by
        by_cases h1 : i < i'
        · rcases hdead' i h1 with h | h
          · exact absurd hd3 h
          · rw [hok] at h; cases h
        · by_cases h2 : i' < i
          · rcases hdead i' h2 with h | h
            · exact absurd hd3' h
            · rw [hok'] at h; cases h
          · omega
      subst hii
      rw [hok] at hok'
      cases hok'
      rw [hc, hc']

/-- No frame is delivered exactly when either an earlier-than-any-valid 0xD3 candidate is still
incomplete (consumed = bytes before it), or there is no candidate at all (whole buffer consumed). -/
theorem delivers_nothing (d : List UInt8) (c : Nat) (h : scan d = (c, none)) :
    c ≤ d.length ∧ (∀ j, j < c → DeadAt d j) ∧
      (c = d.length ∨ (d.getD c 0 = 0xd3 ∧ frameNew (d.drop c) = .error .incomplete)) :=
  scan_none d c h

/-- consumed never exceeds the buffer length -/
theorem consumed_le_length (d : List UInt8) : (scan d).1 ≤ d.length := scan_consumed_le d

/-- the delivered frame's bytes are the buffer bytes ending at the consumed mark -/
theorem delivered_bytes_end_at_consumed (d : List UInt8) (c : Nat) (f : Frame)
    (h : scan d = (c, some f)) :
    f.frameLen ≤ c ∧ c ≤ d.length ∧ f.frameData = (d.drop (c - f.frameLen)).take f.frameLen := by
  obtain ⟨i, hi, _, hok, hc, _⟩ := scan_some d c f h
  have hl := frameNew_ok_frameLen _ _ hok
  have hp := scan_some_pos d c f h
  refine ⟨by omega, hp.2, ?_⟩
  have : c - f.frameLen = i := by omega
  rw [this]; exact hl.2.2.2

/-- Every byte consumed without being part of the delivered frame cannot begin a valid frame,
whatever data follows. -/
theorem dead_bytes_stay_dead (d : List UInt8) (c : Nat) (r : Option Frame) (h : scan d = (c, r))
    (j : Nat) (hj : j < c - (match r with | some f => f.frameLen | none => 0))
    (ext : List UInt8) (g : Frame) : frameNew ((d ++ ext).drop j) ≠ .ok g := by
  cases r with
  | none =>
    obtain ⟨hle, hdead, _⟩ := scan_none d c h
    exact (hdead j (by simpa using hj)).never_ok (by simp at hj; omega) ext g
  | some f =>
    obtain ⟨i, hi, _, hok, hc, hdead⟩ := scan_some d c f h
    simp only at hj
    exact (hdead j (by omega)).never_ok (by omega) ext g

/-- A delivered frame is delivered again, with the same consumed count, when more data follows. -/
theorem delivery_stable (d e : List UInt8) (c : Nat) (f : Frame) (h : scan d = (c, some f)) :
    scan (d ++ e) = (c, some f) := scan_append_some d e c f h

/-- The iterator yields exactly the frames, in order, of repeated scanner calls (dropping what each
call consumed) and reports their consumed total. -/
theorem iter_eq_repeated_scan (d : List UInt8) :
    (iterFrames d).1 = (drainAll d).1 ∧
      (iterFrames d).2 = d.length - (drainAll d).2.length ∧ (iterFrames d).2 ≤ d.length := by
  have h := collect_eq_drain (d.length + 1) d 0 (by omega)
  simp only [List.drop_zero] at h
  obtain ⟨h1, _, h3, h4⟩ := h
  refine ⟨h1, ?_, h3⟩
  have : (d.drop (iterFrames d).2).length = (drainAll d).2.length := by
    unfold iterFrames drainAll; rw [h4]
  simp only [List.length_drop] at this
  have h3' : (iterFrames d).2 ≤ d.length := h3
  omega

/-- The iterator terminates: the model is a structurally recursive function whose fuel
`|d| + 1` is never exhausted, because each yielded frame consumes at least 6 bytes. -/
theorem each_frame_consumes (d : List UInt8) (c : Nat) (f : Frame) (h : scan d = (c, some f)) :
    6 ≤ c ∧ c ≤ d.length := scan_some_pos d c f h

theorem fuel_suffices (fuel : Nat) (d : List UInt8) (h : d.length < fuel) :
    drain fuel d = drainAll d := drain_fuel fuel d h

/-- a stray 0xD3 announcing a long body blocks delivery until enough bytes arrive -/
example : scan ([1, 0xd3, 2] ++ mkFrame 0 [0x3e, 0xd0]) = (1, none) := by decide +kernel

/-! Non-vacuity: garbage, a stray 0xD3, a corrupted frame, a valid frame, then a truncated one. -/
example :
    let v := mkFrame 0 [0x3e, 0xd0]
    let bad := (mkFrame 0 [0x3e, 0xd1]).dropLast ++ [0]
    (scan ([1, 0xd3, 0, 0, 9, 9, 9] ++ bad ++ v ++ v.take 5)).1 = 7 + 8 + 8 := by decide +kernel
example : scan ([7, 7] ++ (mkFrame 0 [0x3e, 0xd0]).take 5) = (2, none) := by decide +kernel
example : (iterFrames (mkFrame 0 [1, 2] ++ [9] ++ mkFrame 0 [])).2 = 15 := by decide +kernel

end Rtcm.C05
