import Rtcm.Proofs.CrcErr
import Rtcm.Props.C03
/-!
# C03 / C04 completeness fact: every 24-bit value is the checksum of some frame of every length ≥ 3

For a fixed prefix the map "last three bytes ↦ CRC-24Q" is a bijection onto the 24-bit values:

    crc24q (pre ++ x) = Z (crc24q pre xor be24 x)            (`crc24q_append_three`)

where `Z s = crcRem s 0^24` runs the division over 24 zero input bits. `Z` is a permutation of the
24-bit states: the zero-input step `s ↦ 2s` or `2s xor G` is undone by `crcUnstep` (the generator is
odd, so bit 0 of the result tells which case applied). `crcUnrem 24` is the inverse of `Z`, and
`crcComplete pre c` is the explicit, computable completion.

Consequence for C03/C04: the checksum field of accepted frames takes all `2^24` values, at every
payload length `3..=1023` and for every value of the reserved bits (`every_checksum_occurs`); no
checksum value is "impossible", and a test corpus cannot rely on one being absent.

Core Lean only.
-/
namespace Rtcm

/-! ### The zero-input step of the division is invertible -/

/-- undo one zero-input step: bit 0 set means the generator was subtracted -/
def crcUnstep (t : Nat) : Nat := if t.testBit 0 then (t ^^^ crcG) / 2 else t / 2

/-- undo `n` zero-input steps -/
def crcUnrem : Nat → Nat → Nat
  | 0, t => t
  | n + 1, t => crcUnrem n (crcUnstep t)

theorem crcG_bit0 : crcG.testBit 0 = true := by decide

theorem xor_xor_cancel_right (a b : Nat) : (a ^^^ b) ^^^ b = a := by
  rw [Nat.xor_assoc, Nat.xor_self, Nat.xor_zero]

theorem two_mul_div_two_of_bit0 (x : Nat) (h : x.testBit 0 = false) : 2 * (x / 2) = x := by
  rw [Nat.testBit_zero] at h
  have : x % 2 ≠ 1 := by simpa using h
  omega

theorem crcUnstep_lt (t : Nat) (h : t < 2 ^ 24) : crcUnstep t < 2 ^ 24 := by
  unfold crcUnstep
  split
  · have : t ^^^ crcG < 2 ^ 25 :=
      Nat.xor_lt_two_pow (Nat.lt_of_lt_of_le h (by decide)) crcG_lt
    omega
  · omega

/-- `crcUnstep` is a right inverse of the zero-input step on 24-bit states -/
theorem crcStep_crcUnstep (t : Nat) (h : t < 2 ^ 24) : crcStep (crcUnstep t) false = t := by
  have ht24 : t.testBit 24 = false := Nat.testBit_lt_two_pow h
  unfold crcStep crcUnstep
  simp only [Bool.false_eq_true, if_false, Nat.add_zero]
  cases h0 : t.testBit 0 with
  | true =>
    simp only [if_true]
    have heven : (t ^^^ crcG).testBit 0 = false := by
      rw [Nat.testBit_xor, h0, crcG_bit0]; rfl
    rw [two_mul_div_two_of_bit0 _ heven]
    have h24 : (t ^^^ crcG).testBit 24 = true := by
      rw [Nat.testBit_xor, ht24, crcG_bit24]; rfl
    rw [if_pos h24, xor_xor_cancel_right]
  | false =>
    simp only [Bool.false_eq_true, if_false]
    rw [two_mul_div_two_of_bit0 _ h0, ht24]
    simp

/-- `crcUnstep` is a left inverse of the zero-input step (on all states) -/
theorem crcUnstep_crcStep (s : Nat) : crcUnstep (crcStep s false) = s := by
  have hb0 : (2 * s).testBit 0 = false := by
    rw [Nat.testBit_zero]; simp
  unfold crcStep
  simp only [Bool.false_eq_true, if_false, Nat.add_zero]
  split
  · unfold crcUnstep
    have : ((2 * s) ^^^ crcG).testBit 0 = true := by
      rw [Nat.testBit_xor, hb0, crcG_bit0]; rfl
    rw [if_pos this, xor_xor_cancel_right]
    omega
  · unfold crcUnstep
    rw [hb0]
    simp

theorem crcUnrem_lt (n t : Nat) (h : t < 2 ^ 24) : crcUnrem n t < 2 ^ 24 := by
  induction n generalizing t with
  | zero => exact h
  | succ n ih => exact ih _ (crcUnstep_lt t h)

/-- running `n` zero bits from `crcUnrem n t` arrives at `t` -/
theorem crcRem_crcUnrem (n t : Nat) (h : t < 2 ^ 24) :
    crcRem (crcUnrem n t) (List.replicate n false) = t := by
  induction n generalizing t with
  | zero => rfl
  | succ n ih =>
    rw [crcRem_replicate_succ']
    show crcStep (crcRem (crcUnrem n (crcUnstep t)) (List.replicate n false)) false = t
    rw [ih _ (crcUnstep_lt t h), crcStep_crcUnstep t h]

/-- `crcUnrem n` recovers the state `n` zero bits earlier: the zero-input run is injective -/
theorem crcUnrem_crcRem (n s : Nat) : crcUnrem n (crcRem s (List.replicate n false)) = s := by
  induction n generalizing s with
  | zero => rfl
  | succ n ih =>
    rw [crcRem_replicate_succ']
    show crcUnrem n (crcUnstep (crcStep (crcRem s (List.replicate n false)) false)) = s
    rw [crcUnstep_crcStep, ih]

/-! ### Three bytes as a 24-bit number -/

theorem be24_three (a b c : UInt8) :
    be24 [a, b, c] 0 = a.toNat * 65536 + b.toNat * 256 + c.toNat := by
  have la : a.toNat < 2 ^ 8 := UInt8.toNat_lt a
  have lb : b.toNat < 2 ^ 8 := UInt8.toNat_lt b
  have lc : c.toNat < 2 ^ 8 := UInt8.toNat_lt c
  have hbe : be24 [a, b, c] 0 = (a.toNat <<< 16) ||| ((b.toNat <<< 8) ||| c.toNat) := by
    simp [be24, byteAt, Nat.or_assoc]
  have hlow : b.toNat <<< 8 ||| c.toNat < 2 ^ 16 := by
    rw [← Nat.shiftLeft_add_eq_or_of_lt lc, Nat.shiftLeft_eq]; omega
  rw [hbe, ← Nat.shiftLeft_add_eq_or_of_lt hlow, ← Nat.shiftLeft_add_eq_or_of_lt lc,
    Nat.shiftLeft_eq, Nat.shiftLeft_eq]
  omega

theorem eq_three_of_length {α : Type} (x : List α) (h : x.length = 3) :
    ∃ a b c, x = [a, b, c] := by
  match x, h with
  | [a, b, c], _ => exact ⟨a, b, c, rfl⟩

theorem be24_lt_of_three (x : List UInt8) (h : x.length = 3) : be24 x 0 < 2 ^ 24 := by
  obtain ⟨a, b, c, rfl⟩ := eq_three_of_length x h
  have la : a.toNat < 2 ^ 8 := UInt8.toNat_lt a
  have lb : b.toNat < 2 ^ 8 := UInt8.toNat_lt b
  have lc : c.toNat < 2 ^ 8 := UInt8.toNat_lt c
  rw [be24_three]; omega

/-- three bytes are recovered from their big-endian value -/
theorem crcBytes_be24 (x : List UInt8) (h : x.length = 3) : crcBytes (be24 x 0) = x := by
  obtain ⟨a, b, c, rfl⟩ := eq_three_of_length x h
  have la : a.toNat < 2 ^ 8 := UInt8.toNat_lt a
  have lb : b.toNat < 2 ^ 8 := UInt8.toNat_lt b
  have lc : c.toNat < 2 ^ 8 := UInt8.toNat_lt c
  rw [be24_three]
  unfold crcBytes
  have e1 : ((a.toNat * 65536 + b.toNat * 256 + c.toNat) >>> 16) % 256 = a.toNat := by
    rw [Nat.shiftRight_eq_div_pow]; omega
  have e2 : ((a.toNat * 65536 + b.toNat * 256 + c.toNat) >>> 8) % 256 = b.toNat := by
    rw [Nat.shiftRight_eq_div_pow]; omega
  have e3 : (a.toNat * 65536 + b.toNat * 256 + c.toNat) % 256 = c.toNat := by omega
  rw [e1, e2, e3]
  simp

theorem be24_crcBytes_zero (v : Nat) (h : v < 2 ^ 24) : be24 (crcBytes v) 0 = v := by
  have := be24_crcBytes [] [] v h
  simpa using this

theorem length_crcBytes (v : Nat) : (crcBytes v).length = 3 := rfl

/-! ### The checksum as a function of the last three bytes -/

/-- The CRC of a prefix followed by three bytes: xor the three bytes onto the prefix's CRC, then
run 24 zero bits. -/
theorem crc24q_append_three (pre x : List UInt8) (hx : x.length = 3) :
    crc24q (pre ++ x) = crcRem (crc24q pre ^^^ be24 x 0) (List.replicate 24 false) := by
  show crcRem (crcRemBytes 0 (pre ++ x)) (List.replicate 24 false) = _
  rw [crcRemBytes_eq_bits, crcRem_body_crc pre x hx]

/-- the three bytes that bring the checksum of `pre ++ _` to `c` -/
def crcComplete (pre : List UInt8) (c : Nat) : List UInt8 :=
  crcBytes (crcUnrem 24 c ^^^ crc24q pre)

theorem length_crcComplete (pre : List UInt8) (c : Nat) : (crcComplete pre c).length = 3 := rfl

theorem crc24q_crcComplete (pre : List UInt8) (c : Nat) (hc : c < 2 ^ 24) :
    crc24q (pre ++ crcComplete pre c) = c := by
  have hv : crcUnrem 24 c ^^^ crc24q pre < 2 ^ 24 :=
    Nat.xor_lt_two_pow (crcUnrem_lt 24 c hc) (crc24q_lt pre)
  rw [crc24q_append_three pre _ (length_crcComplete pre c), crcComplete, be24_crcBytes_zero _ hv,
    Nat.xor_comm (crcUnrem 24 c), ← Nat.xor_assoc, Nat.xor_self, Nat.zero_xor]
  exact crcRem_crcUnrem 24 c hc

theorem crcComplete_unique (pre : List UInt8) (c : Nat) (y : List UInt8) (hy : y.length = 3)
    (h : crc24q (pre ++ y) = c) : y = crcComplete pre c := by
  rw [crc24q_append_three pre y hy] at h
  have h2 : crc24q pre ^^^ be24 y 0 = crcUnrem 24 c := by
    rw [← h, crcUnrem_crcRem]
  have h3 : be24 y 0 = crcUnrem 24 c ^^^ crc24q pre := by
    rw [← h2, Nat.xor_comm (crc24q pre), xor_xor_cancel_right]
  rw [crcComplete, ← h3, crcBytes_be24 y hy]

end Rtcm

namespace Rtcm.C03

/-- For every prefix, "last three bytes ↦ checksum" is a bijection onto the 24-bit values: every
`c < 2^24` is the CRC-24Q of `pre ++ x` for exactly one three-byte `x`. -/
theorem crc_last3_bijective (pre : List UInt8) (c : Nat) (hc : c < 2 ^ 24) :
    ∃ x : List UInt8, x.length = 3 ∧ crc24q (pre ++ x) = c ∧
      ∀ y : List UInt8, y.length = 3 → crc24q (pre ++ y) = c → y = x :=
  ⟨crcComplete pre c, length_crcComplete pre c, crc24q_crcComplete pre c hc,
    fun y hy h => crcComplete_unique pre c y hy h⟩

/-- the payload of length `L ≥ 3` (zeros, then the completion) whose frame has checksum `c` -/
def payloadWithCrc (resv L c : Nat) : List UInt8 :=
  List.replicate (L - 3) 0 ++ crcComplete (frameHeader resv L ++ List.replicate (L - 3) 0) c

theorem length_payloadWithCrc (resv L c : Nat) (hL : 3 ≤ L) : (payloadWithCrc resv L c).length = L := by
  simp only [payloadWithCrc, List.length_append, List.length_replicate, length_crcComplete]
  omega

/-- Every 24-bit value occurs as the checksum of an accepted frame, at every payload length
`3 ..= 1023` and for every value of the reserved bits. -/
theorem every_checksum_occurs (L : Nat) (h3 : 3 ≤ L) (hL : L ≤ 1023) (resv c : Nat) (hc : c < 2 ^ 24) :
    ∃ payload : List UInt8, payload.length = L ∧
      ∃ f, frameNew (mkFrame resv payload) = .ok f ∧ f.crc = c := by
  have hlen := length_payloadWithCrc resv L c h3
  refine ⟨payloadWithCrc resv L c, hlen, mkFrameResult resv (payloadWithCrc resv L c), ?_, ?_⟩
  · have := frameNew_mkFrame resv (payloadWithCrc resv L c) [] (by omega)
    rwa [List.append_nil] at this
  · show crc24q (frameHeader resv (payloadWithCrc resv L c).length ++ payloadWithCrc resv L c) = c
    rw [hlen, payloadWithCrc, ← List.append_assoc]
    exact crc24q_crcComplete _ c hc

/-- the same, with the payload's leading bytes chosen freely (e.g. a message number): any payload
prefix `p` of length `L - 3` can be completed -/
theorem every_checksum_occurs_with_prefix (p : List UInt8) (hL : p.length + 3 ≤ 1023) (resv c : Nat)
    (hc : c < 2 ^ 24) :
    ∃ x : List UInt8, x.length = 3 ∧
      ∃ f, frameNew (mkFrame resv (p ++ x)) = .ok f ∧ f.crc = c ∧ f.data = p ++ x := by
  let x := crcComplete (frameHeader resv (p.length + 3) ++ p) c
  have hlen : (p ++ x).length = p.length + 3 := by simp [x, length_crcComplete]
  refine ⟨x, rfl, mkFrameResult resv (p ++ x), ?_, ?_, rfl⟩
  · have := frameNew_mkFrame resv (p ++ x) [] (by omega)
    rwa [List.append_nil] at this
  · show crc24q (frameHeader resv (p ++ x).length ++ (p ++ x)) = c
    rw [hlen, ← List.append_assoc]
    exact crc24q_crcComplete _ c hc

/-! Non-vacuity: completions of the prefix `d3 00 05 3e d0` (header for L = 5, number 1005) to the
checksums 0 and 0xFFFFFF, and the accepted frames. -/
example : crcComplete [0xd3, 0x00, 0x05, 0x3e, 0xd0] 0 = [0x21, 0x44, 0xd3] ∧
    crc24q ([0xd3, 0x00, 0x05, 0x3e, 0xd0] ++ [0x21, 0x44, 0xd3]) = 0 := by decide +kernel
example : crcComplete [0xd3, 0x00, 0x05, 0x3e, 0xd0] 0xFFFFFF = [0x63, 0x1a, 0xeb] ∧
    crc24q ([0xd3, 0x00, 0x05, 0x3e, 0xd0] ++ [0x63, 0x1a, 0xeb]) = 0xFFFFFF := by decide +kernel
example : (match frameNew (mkFrame 0 ([0x3e, 0xd0] ++ crcComplete [0xd3, 0x00, 0x05, 0x3e, 0xd0] 0)) with
    | .ok f => (f.crc, f.number, f.dataLen) | _ => (1, none, 0)) = (0, some 1005, 5) := by decide +kernel

end Rtcm.C03
