import Rtcm.Model.Df
import Rtcm.Gen.DfTable
import Rtcm.Proofs.DfQuant
import Rtcm.Props.C08
import Rtcm.Proofs.BiasFloat
/-!
# C11  Quantisation picks the nearest representable value

For a float-typed scaled field `s` with `wf s` (the same Boolean predicate as C08, `DfWf.wf`) and a
finite float input `v` (given by its bit pattern), let `r = fl(res)`, `b = fl(bias)` be the rounded
constants and `t = (v - b)/r` the exact rational grid coordinate. If `t` lies in the field's
representable signed range `[svLo s, svHi s]` then

* `quantise_eq`        : `Df.quantise` succeeds and puts `Bits.ofInt w (kOf s bits)`;
* `quantise_neighbour` : `|k - t| ≤ 1/2 + delta s` with the explicit `delta s < 1/2`
                         (a few units of `2^-p·2^len`), hence `k = ⌊t⌋ ∨ k = ⌈t⌉`;
                         exact round-half-away is *not* claimed at (or within `delta s` of) the
                         half-way points, where the three float roundings of the encoder decide;
* `inrange_no_wrap`    : `k` is one of the readings of the field, `Bits.ofInt` does not wrap;
* `quantise_error`     : `|value(dequantise k) - v| ≤ r/2 + slack s`;
* `quantise_monotone`  : `v ≤ v' → k ≤ k'`.
-/
namespace Rtcm.C11
open Rtcm.Schema Rtcm.Bits Rtcm.Df Rtcm.SoftFloat Rtcm.DfWf Rtcm.DfLaws

/-- structural well-formedness of a `df!` row -/
def wfBasic (s : DfSpec) : Bool :=
  decide (1 ≤ s.len) && decide (s.len ≤ s.it.w) &&
  (s.it.w == 8 || s.it.w == 16 || s.it.w == 32 || s.it.w == 64)

theorem table_wfBasic : Gen.dfTable.all wfBasic = true := by decide +kernel

/-- the same predicate as in C08 -/
abbrev wf (s : DfSpec) : Bool := DfWf.wf s

theorem table_wf : Gen.dfTable.all wf = true := C08.table_wf

/-- the finite value denoted by an IEEE bit pattern of the field's float type -/
def valOf (s : DfSpec) (bits : Nat) : ℚ := (ofBits (fmtOf s.dt) bits).toRat

/-- exact grid coordinate `t = (v - b)/r` with the rounded constants -/
def tOf (s : DfSpec) (bits : Nat) : ℚ := (valOf s bits - biasVal s) / resVal s

/-- the integer the encoder computes (rational model of the `df!` encode body) -/
def kOf (s : DfSpec) (bits : Nat) : Int :=
  qk (fmtOf s.dt) s.bias.isSome (resVal s) (biasVal s) (valOf s bits)

/-- `δ(s) = u·K(1+u) + u·K + u·(K+1)`, `u = 2^-p`, `K = 2^len` -/
def delta (s : DfSpec) : ℚ := deltaNum (num (fmtOf s.dt) s.len (resVal s) (biasVal s))

/-- `slack(s) = δ(s)·r + u·(M1 + M2)`, `M1 = K·r`, `M2 = M1(1+u) + b` -/
def slack (s : DfSpec) : ℚ := slackNum (num (fmtOf s.dt) s.len (resVal s) (biasVal s)) (resVal s)

/-- admissible input: a finite float whose grid coordinate is within the signed range of the field -/
structure Input (s : DfSpec) (bits : Nat) : Prop where
  finite : (ofBits (fmtOf s.dt) bits).isFinite = true
  lo : ((svLo s : Int) : ℚ) ≤ tOf s bits
  hi : tOf s bits ≤ ((svHi s : Int) : ℚ)

private theorem wf_parts {s : DfSpec} (hw : wf s = true) (hf : s.dt.isFloat = true) :
    DfWf.wfBasic s = true ∧ wfFlt s = true := by
  unfold wf DfWf.wf at hw
  simp only [Bool.and_eq_true, hf, if_true] at hw
  exact ⟨hw.1.1, hw.2⟩

private theorem sv_bounds {s : DfSpec} (hl : 1 ≤ s.len) :
    -((2 : Int) ^ s.len) ≤ svLo s ∧ svHi s ≤ (2 : Int) ^ s.len ∧
      (s.it.kind = .u → svLo s = 0) := by
  obtain ⟨l, hl'⟩ : ∃ l, s.len = l + 1 := ⟨s.len - 1, by omega⟩
  unfold svLo svHi
  rw [hl']
  have hp : (0 : Int) < 2 ^ l := by positivity
  have h2 : (2 : Int) ^ (l + 1) = 2 * 2 ^ l := by ring
  simp only [Nat.add_sub_cancel]
  rw [h2]
  generalize (2 : Int) ^ l = P at *
  rcases hk : s.it.kind <;> simp <;> omega

private theorem carrierVal_ofInt {s : DfSpec} {k : Int} (hb : DfWf.wfBasic s = true)
    (h1 : (carrierRange s.it).1 ≤ k) (h2 : k ≤ (carrierRange s.it).2) :
    carrierVal s.it (Bits.ofInt s.it.w k) = k := by
  unfold DfWf.wfBasic at hb
  simp only [Bool.and_eq_true, Bool.or_eq_true, beq_iff_eq, decide_eq_true_eq] at hb
  obtain ⟨-, hw⟩ := hb
  unfold carrierVal
  unfold carrierRange at h1 h2
  rcases hs : s.it.signed <;> rw [hs] at h1 h2 <;>
    rcases hw with ((hw | hw) | hw) | hw <;> rw [hw] at h1 h2 ⊢ <;>
    simp [Bits.ofInt, Bits.toInt] at h1 h2 ⊢ <;> omega

/-- everything the theorems below need, derived once -/
private theorem core {s : DfSpec} {bits : Nat} (hw : wf s = true) (hf : s.dt.isFloat = true)
    (hin : Input s bits) :
    ∃ re, FltOK s re (resVal s) (biasVal s) ∧
      (ofBits (fmtOf s.dt) bits).Val (valOf s bits) ∧
      valOf s bits - biasVal s = tOf s bits * resVal s ∧
      |tOf s bits| ≤ (num (fmtOf s.dt) s.len (resVal s) (biasVal s)).K ∧
      (s.bias.isSome = true → biasVal s ≤ valOf s bits) ∧
      (s.bias.isSome = false → biasVal s = 0) := by
  obtain ⟨hbas, hflt⟩ := wf_parts hw hf
  obtain ⟨re, ok⟩ := wfFlt_spec' hflt
  obtain ⟨hl1, -⟩ := wfBasic_spec hbas
  have hr := ok.numOK.r_pos
  have ht : valOf s bits - biasVal s = tOf s bits * resVal s := by
    unfold tOf; field_simp
  obtain ⟨b1, b2, b3⟩ := sv_bounds (s := s) hl1
  refine ⟨re, ok, ofBits_val _ _ hin.finite, ht, ?_, ?_, ?_⟩
  · rw [num_K, abs_le]
    have c1 : ((-((2 : Int) ^ s.len) : Int) : ℚ) ≤ ((svLo s : Int) : ℚ) := by exact_mod_cast b1
    have c2 : ((svHi s : Int) : ℚ) ≤ (((2 : Int) ^ s.len : Int) : ℚ) := by exact_mod_cast b2
    push_cast at c1 c2 ⊢
    exact ⟨le_trans c1 hin.lo, le_trans hin.hi c2⟩
  · intro h
    obtain ⟨be, hbe⟩ := Option.isSome_iff_exists.mp h
    have hlo := hin.lo
    rw [b3 (ok.bias_some be hbe).2] at hlo
    have : 0 ≤ tOf s bits * resVal s := mul_nonneg (by exact_mod_cast hlo) hr.le
    linarith
  · intro h
    exact ok.bias_none (Option.isNone_iff_eq_none.mp (Option.isSome_eq_false_iff.mp h))

/-- the numeric slack is small: `δ(s) < 1/2` -/
theorem delta_lt_half (s : DfSpec) (hw : wf s = true) (hf : s.dt.isFloat = true) :
    delta s < 1 / 2 := by
  obtain ⟨-, hflt⟩ := wf_parts hw hf
  obtain ⟨re, ok⟩ := wfFlt_spec' hflt
  exact ok.numOK.hdq

/-- the encoder's integer is within `1/2 + δ(s)` of the exact grid coordinate, hence it is the
floor or the ceiling of it -/
theorem quantise_neighbour (s : DfSpec) (bits : Nat) (hw : wf s = true)
    (hf : s.dt.isFloat = true) (hin : Input s bits) :
    |(kOf s bits : ℚ) - tOf s bits| ≤ 1 / 2 + delta s ∧
      (kOf s bits = ⌊tOf s bits⌋ ∨ kOf s bits = ⌈tOf s bits⌉) := by
  obtain ⟨re, ok, hv, ht, hK, hge, hb0⟩ := core hw hf hin
  obtain ⟨-, -, -, hk⟩ := quant_chain ok.numOK s.bias.isSome hb0 _ _ ht hK
  refine ⟨hk, floor_or_ceil_of_abs_lt_one ?_⟩
  have := delta_lt_half s hw hf
  unfold delta at this
  exact lt_of_le_of_lt hk (by linarith)

/-- the hypotheses are satisfiable: `df011` (f64, unsigned 24 bits, res 0.02) on `v = 1234.56`;
`df025` (f64, signed 38 bits, res 1e-4) on `v = -1234.5678`;
`df564` (f32, unsigned 16 bits, res 0.01, bias 1900.0) on `v = 2000.0` -/
example : wf Gen.df_df011 = true ∧ Gen.df_df011.dt.isFloat = true ∧
    Input Gen.df_df011 4653144467747100426 :=
  ⟨by decide +kernel, by decide +kernel, ⟨by decide +kernel, by decide +kernel, by decide +kernel⟩⟩
example : wf Gen.df_df025 = true ∧ Gen.df_df025.dt.isFloat = true ∧
    Input Gen.df_df025 13876516538906639021 :=
  ⟨by decide +kernel, by decide +kernel, ⟨by decide +kernel, by decide +kernel, by decide +kernel⟩⟩
example : wf Gen.df_df564 = true ∧ Gen.df_df564.dt.isFloat = true ∧
    Input Gen.df_df564 1157234688 :=
  ⟨by decide +kernel, by decide +kernel, ⟨by decide +kernel, by decide +kernel, by decide +kernel⟩⟩

/-- the encoder's integer is one of the field's readings; `Bits.ofInt` does not wrap -/
theorem inrange_no_wrap (s : DfSpec) (bits : Nat) (hw : wf s = true)
    (hf : s.dt.isFloat = true) (hin : Input s bits) :
    DfWf.InRange s (kOf s bits) ∧
      carrierVal s.it (Bits.ofInt s.it.w (kOf s bits)) = kOf s bits := by
  obtain ⟨hk, -⟩ := quantise_neighbour s bits hw hf hin
  have hd := delta_lt_half s hw hf
  obtain ⟨h1, h2⟩ := abs_le.mp hk
  have hr : DfWf.InRange s (kOf s bits) := by
    constructor
    · have : ((svLo s : Int) : ℚ) - 1 < (kOf s bits : ℚ) := by linarith [hin.lo]
      have : svLo s - 1 < kOf s bits := by exact_mod_cast this
      omega
    · have : (kOf s bits : ℚ) < ((svHi s : Int) : ℚ) + 1 := by linarith [hin.hi]
      have : kOf s bits < svHi s + 1 := by exact_mod_cast this
      omega
  obtain ⟨hbas, -⟩ := wf_parts hw hf
  obtain ⟨c1, c2⟩ := inRange_carrier hbas hr
  exact ⟨hr, carrierVal_ofInt hbas c1 c2⟩

/-- `Df.quantise` on an admissible input succeeds with the model integer -/
theorem quantise_eq (s : DfSpec) (bits : Nat) (hw : wf s = true)
    (hf : s.dt.isFloat = true) (hin : Input s bits) :
    Df.quantise s (.flt bits) = .ok (Bits.ofInt s.it.w (kOf s bits)) := by
  obtain ⟨re, ok, hv, ht, hK, hge, hb0⟩ := core hw hf hin
  obtain ⟨n1, n2, n3, -⟩ := quant_chain ok.numOK s.bias.isSome hb0 _ _ ht hK
  have hbias : ∀ be, s.bias = some be →
      evalF (fmtOf s.dt) be = .fin false (biasVal s) ∧ 0 ≤ biasVal s :=
    fun be h => ⟨(ok.bias_some be h).1, ok.numOK.b_nonneg⟩
  rw [quantise_flt s hf re _ _ ok.res_eq ok.res_val ok.numOK.r_pos ok.round_eq hbias _ _ hv hge
    (fun _ => n1) n2 n3]
  obtain ⟨hr, -⟩ := inrange_no_wrap s bits hw hf hin
  obtain ⟨hbas, -⟩ := wf_parts hw hf
  obtain ⟨c1, c2⟩ := inRange_carrier hbas hr
  show Res.ok (Bits.ofInt s.it.w (clampI (kOf s bits) _ _)) = _
  rw [clampI_of_mem c1 c2]

/-- decoding what was encoded lands within half a resolution step (plus explicit slack) of the
input -/
theorem quantise_error (cfg : Cfg) (s : DfSpec) (bits : Nat) (hw : wf s = true)
    (hf : s.dt.isFloat = true) (hin : Input s bits) :
    ∃ bits', Df.dequantise cfg s (kOf s bits) = .ok (.flt bits') ∧
      (ofBits (fmtOf s.dt) bits').isFinite = true ∧
      |valOf s bits' - valOf s bits| ≤ resVal s / 2 + slack s := by
  obtain ⟨re, ok, hv, ht, hK, hge, hb0⟩ := core hw hf hin
  obtain ⟨hk, -⟩ := quantise_neighbour s bits hw hf hin
  obtain ⟨hr, -⟩ := inrange_no_wrap s bits hw hf hin
  obtain ⟨hbas, -⟩ := wf_parts hw hf
  obtain ⟨hl1, -⟩ := wfBasic_spec hbas
  have nok := ok.numOK
  have hKk := inRange_abs hl1 hr
  have hbias : ∀ be, s.bias = some be →
      evalF (fmtOf s.dt) be = .fin false (biasVal s) ∧ 0 ≤ biasVal s :=
    fun be h => ⟨(ok.bias_some be h).1, nok.b_nonneg⟩
  have hsvp : (kOf s bits).natAbs < 2 ^ (fmtOf s.dt).p :=
    lt_of_le_of_lt (inRange_natAbs hl1 hr) (Nat.pow_lt_pow_right (by norm_num) ok.len_lt)
  have hbk : s.bias.isSome = true → 0 ≤ kOf s bits := by
    intro h
    obtain ⟨be, hbe⟩ := Option.isSome_iff_exists.mp h
    exact inRange_u_nonneg (ok.bias_some be hbe).2 hr
  obtain ⟨no1, no2, e1, a1, e2, a2⟩ := deq_chain nok s.bias.isSome hb0 (kOf s bits) hKk
  obtain ⟨X, hdq, hrt, hXv, -⟩ := dequantise_flt cfg s hf re _ _ ok.res_eq ok.res_val nok.r_pos
    nok.r_norm hbias _ hsvp hbk no1 (fun _ => no2)
  refine ⟨_, hdq, by rw [hrt]; exact hXv.isFinite, ?_⟩
  have hval : valOf s (toBits (fmtOf s.dt) X)
      = dx (fmtOf s.dt) s.bias.isSome (resVal s) (biasVal s) (kOf s bits) := by
    unfold valOf; rw [hrt]; exact hXv.toRat
  rw [hval]
  unfold slack slackNum
  rw [num_u]
  have hr0 := nok.r_pos
  have e1' := abs_le.mp e1
  have e2' := abs_le.mp e2
  have hk' := abs_le.mp hk
  unfold delta at hk'
  generalize dx (fmtOf s.dt) s.bias.isSome (resVal s) (biasVal s) (kOf s bits) = X' at *
  generalize dy (fmtOf s.dt) (resVal s) (kOf s bits) = Y at *
  have hv' : valOf s bits = tOf s bits * resVal s + biasVal s := by linarith
  rw [hv', abs_le]
  constructor <;> nlinarith [e1'.1, e1'.2, e2'.1, e2'.2, hk'.1, hk'.2,
    mul_le_mul_of_nonneg_right hk'.1 hr0.le, mul_le_mul_of_nonneg_right hk'.2 hr0.le]

/-- quantisation is monotone in the input value -/
theorem quantise_monotone (s : DfSpec) (bits bits' : Nat) (hw : wf s = true)
    (hf : s.dt.isFloat = true) (h : valOf s bits ≤ valOf s bits') :
    kOf s bits ≤ kOf s bits' := by
  obtain ⟨-, hflt⟩ := wf_parts hw hf
  obtain ⟨re, ok⟩ := wfFlt_spec' hflt
  have hp1 : 1 ≤ (fmtOf s.dt).p := by have := (good_fmtOf s.dt).p_ge; omega
  exact qk_mono hp1 ok.numOK.r_pos _ h

example : valOf Gen.df_df011 4653144467747100426 ≤ valOf Gen.df_df011 4653144511727565537 := by
  decide +kernel

/-- monotonicity stated on the encoder's outputs: both inputs admissible, `v ≤ v'`; then both
calls succeed, with integers `k ≤ k'` -/
theorem quantise_monotone' (s : DfSpec) (bits bits' : Nat) (hw : wf s = true)
    (hf : s.dt.isFloat = true) (hin : Input s bits) (hin' : Input s bits')
    (h : valOf s bits ≤ valOf s bits') :
    ∃ k k' : Int, Df.quantise s (.flt bits) = .ok (Bits.ofInt s.it.w k) ∧
      Df.quantise s (.flt bits') = .ok (Bits.ofInt s.it.w k') ∧
      carrierVal s.it (Bits.ofInt s.it.w k) = k ∧ carrierVal s.it (Bits.ofInt s.it.w k') = k' ∧
      k ≤ k' :=
  ⟨_, _, quantise_eq s bits hw hf hin, quantise_eq s bits' hw hf hin',
    (inrange_no_wrap s bits hw hf hin).2, (inrange_no_wrap s bits' hw hf hin').2,
    quantise_monotone s bits bits' hw hf h⟩

/-! ## The hand-written scaled fields

`bias_m` of 1059 / 1065 (`f32`, 0.01 m, 14 bits) and of 1230 (`f32`, 0.02 m, 16 bits) are not `df!`
rows: `Bias.quantBias` / `Bias.dequantBias` model their own arithmetic (`bias /= res; if bias > 0.0
{ bias + 0.5 } else { bias - 0.5 } as i16`). `BiasFloat.quantBias_eq` identifies that arithmetic with
the `df!` quantiser of a synthetic well-formed row, so the theorems above apply to them. -/

/-- the synthetic rows of the two bias grids -/
abbrev bias14 : DfSpec := BiasFloat.spec 14 1
abbrev bias16 : DfSpec := BiasFloat.spec 16 2

theorem bias14_wf : wf bias14 = true := BiasFloat.wf14
theorem bias16_wf : wf bias16 = true := BiasFloat.wf16

/-- what the bias encoder puts for an admissible `bias_m` (any of the two grids) -/
theorem bias_quantise_eq (len m : Nat) (res : F)
    (hres : evalF binary32 (.dec m (-2)) = res) (hw : wf (BiasFloat.spec len m) = true)
    (bits : Nat) (hin : Input (BiasFloat.spec len m) bits) :
    Bias.quantBias res bits = Bits.ofInt 16 (kOf (BiasFloat.spec len m) bits) := by
  have h1 := quantise_eq (BiasFloat.spec len m) bits hw rfl hin
  rw [BiasFloat.quantBias_eq len m res hres bits] at h1
  injection h1

/-- 1059 / 1065: the selected step is a neighbour of the exact grid coordinate, the value written
does not wrap, and the value read back is within half a step plus the float slack of the input -/
theorem bias14_nearest (bits : Nat) (hin : Input bias14 bits) :
    Bias.quantBias Bias.res001 bits = Bits.ofInt 16 (kOf bias14 bits) ∧
      (kOf bias14 bits = ⌊tOf bias14 bits⌋ ∨ kOf bias14 bits = ⌈tOf bias14 bits⌉) ∧
      (-8192 ≤ kOf bias14 bits ∧ kOf bias14 bits ≤ 8191) ∧
      (ofBits binary32 (Bias.dequantBias Bias.res001 (kOf bias14 bits))).isFinite = true ∧
      |valOf bias14 (Bias.dequantBias Bias.res001 (kOf bias14 bits)) - valOf bias14 bits| ≤
        resVal bias14 / 2 + slack bias14 := by
  refine ⟨bias_quantise_eq 14 1 _ BiasFloat.evalF_001 bias14_wf bits hin,
    (quantise_neighbour bias14 bits bias14_wf rfl hin).2, ?_, ?_⟩
  · have h := (inrange_no_wrap bias14 bits bias14_wf rfl hin).1
    unfold DfWf.InRange DfWf.svLo DfWf.svHi at h
    simp only [bias14, BiasFloat.spec] at h ⊢
    omega
  · obtain ⟨b', h1, h2, h3⟩ := quantise_error ⟨true⟩ bias14 bits bias14_wf rfl hin
    rw [BiasFloat.dequantBias_eq ⟨true⟩ 14 1 _ BiasFloat.evalF_001] at h1
    injection h1 with h1
    injection h1 with h1
    subst h1
    exact ⟨h2, h3⟩

/-- 1230: the same on the 0.02 m / 16-bit grid -/
theorem bias16_nearest (bits : Nat) (hin : Input bias16 bits) :
    Bias.quantBias Bias.res002 bits = Bits.ofInt 16 (kOf bias16 bits) ∧
      (kOf bias16 bits = ⌊tOf bias16 bits⌋ ∨ kOf bias16 bits = ⌈tOf bias16 bits⌉) ∧
      (-32768 ≤ kOf bias16 bits ∧ kOf bias16 bits ≤ 32767) ∧
      (ofBits binary32 (Bias.dequantBias Bias.res002 (kOf bias16 bits))).isFinite = true ∧
      |valOf bias16 (Bias.dequantBias Bias.res002 (kOf bias16 bits)) - valOf bias16 bits| ≤
        resVal bias16 / 2 + slack bias16 := by
  refine ⟨bias_quantise_eq 16 2 _ BiasFloat.evalF_002 bias16_wf bits hin,
    (quantise_neighbour bias16 bits bias16_wf rfl hin).2, ?_, ?_⟩
  · have h := (inrange_no_wrap bias16 bits bias16_wf rfl hin).1
    unfold DfWf.InRange DfWf.svLo DfWf.svHi at h
    simp only [bias16, BiasFloat.spec] at h ⊢
    omega
  · obtain ⟨b', h1, h2, h3⟩ := quantise_error ⟨true⟩ bias16 bits bias16_wf rfl hin
    rw [BiasFloat.dequantBias_eq ⟨true⟩ 16 2 _ BiasFloat.evalF_002] at h1
    injection h1 with h1
    injection h1 with h1
    subst h1
    exact ⟨h2, h3⟩

/-- bias quantisation is monotone (both grids; no range hypothesis needed) -/
theorem bias_monotone (bits bits' : Nat) :
    (valOf bias14 bits ≤ valOf bias14 bits' → kOf bias14 bits ≤ kOf bias14 bits') ∧
    (valOf bias16 bits ≤ valOf bias16 bits' → kOf bias16 bits ≤ kOf bias16 bits') :=
  ⟨quantise_monotone bias14 bits bits' bias14_wf rfl, quantise_monotone bias16 bits bits' bias16_wf rfl⟩

/-- a bias just below zero (−0.001 m = 0xBA83126F) is admissible and is encoded as step 0, not −1 -/
example : Input bias14 0xBA83126F ∧ kOf bias14 0xBA83126F = 0 :=
  ⟨⟨by decide +kernel, by decide +kernel, by decide +kernel⟩, by decide +kernel⟩

end Rtcm.C11
