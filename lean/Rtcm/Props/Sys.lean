import Rtcm.Props.C01
import Rtcm.Props.C03
import Rtcm.Props.C05
import Rtcm.Props.C06
import Rtcm.Props.C09
import Rtcm.Props.C12
import Rtcm.Props.C13
/-!
# Sys  End-to-end theorems: builder → byte stream → chunked scanner → decoder

The per-component properties (C01 codec normal form, C03 frame check, C05 scanner, C06 chunking,
C09 built frames are well formed, C12 builder history, C13 suffix irrelevance) composed into
statements about whole streams.

* `ExactFrame bs f`: `bs` is accepted by `frameNew` as the frame `f` and has no trailing bytes.
* `drain_exact_frames`: back-to-back exact frames followed by an arbitrary tail: the caller protocol
  (`drainAll`) delivers every frame, in order, whatever the payloads contain (0xD3 bytes, nested
  frames), and then goes on with the tail exactly as if the frames had not been there.
* `iter_exact_frames`: the same for the iterator model `iterFrames` (`MsgFrameIter`).
* `feed_exact_frames`, `schedule_exact_frames`: the same for every chunking of the stream and for every
  schedule of appends and single scanner calls.
* `built_stream_roundtrip`: messages → one builder → concatenated frames → any chunking → scanner →
  decoder: one frame per message, in order, each decoding to a message of the same type, nothing left
  over, and (clean input) the decoded message rebuilds the very same bytes.
-/
namespace Rtcm.Sys
open Rtcm.Message Rtcm.Schema Rtcm.CodecLaw

/-! ## Exact frames -/

/-- `bs` is a frame with no trailing bytes: `frameNew` accepts it as `f`, and `f` spans all of `bs`. -/
def ExactFrame (bs : List UInt8) (f : Frame) : Prop :=
  frameNew bs = .ok f ∧ bs.length = f.frameLen

theorem ExactFrame.frameData_eq {bs : List UInt8} {f : Frame} (h : ExactFrame bs f) :
    f.frameData = bs := by
  have hl := frameNew_ok_frameLen bs f h.1
  rw [hl.2.2.2, ← h.2, List.take_length]

theorem ExactFrame.six_le {bs : List UInt8} {f : Frame} (h : ExactFrame bs f) : 6 ≤ bs.length := by
  have hl := frameNew_ok_frameLen bs f h.1
  rw [h.2]; exact hl.2.2.1

/-- Every `mkFrame` (any reserved bits, any payload of at most 1023 bytes) is an exact frame. -/
theorem exactFrame_mkFrame (resv : Nat) (payload : List UInt8) (hL : payload.length ≤ 1023) :
    ExactFrame (mkFrame resv payload) (mkFrameResult resv payload) := by
  have h := frameNew_mkFrame resv payload [] hL
  rw [List.append_nil] at h
  exact ⟨h, rfl⟩

/-- The bytes of an accepted frame record, taken alone, are an exact frame (C13). -/
theorem exactFrame_of_frameNew (d : List UInt8) (f : Frame) (h : frameNew d = .ok f) :
    ExactFrame f.frameData f :=
  ⟨C13.frame_bytes_suffice d f h, rfl⟩

/-- One scanner call on an exact frame followed by anything: that frame, consumed = its length.
(C05 `delivers_iff` at position 0, C13 `suffix_irrelevant`.) -/
theorem scan_exact (bs : List UInt8) (f : Frame) (h : ExactFrame bs f) (rest : List UInt8) :
    scan (bs ++ rest) = (bs.length, some f) := by
  have h6 := h.six_le
  have hok : frameNew (bs ++ rest) = .ok f := C13.suffix_irrelevant bs f h.1 rest
  rw [C05.delivers_iff]
  refine ⟨0, by simp; omega, ?_, by simpa using hok, by rw [h.2]; omega, fun j hj => by omega⟩
  have h0 : byteAt (bs ++ rest) 0 = 0xd3 := ((frameNew_ok_iff _ _).mp hok).2.1
  unfold byteAt at h0
  exact UInt8.toNat_inj.mp (by simpa using h0)

/-- One round of the caller protocol on an exact frame followed by anything. -/
theorem drainAll_exact_cons (bs : List UInt8) (f : Frame) (h : ExactFrame bs f) (rest : List UInt8) :
    drainAll (bs ++ rest) = (f :: (drainAll rest).1, (drainAll rest).2) := by
  rw [drainAll_unfold, scan_exact bs f h rest]
  simp only [List.drop_left]

theorem drainAll_nil : drainAll [] = ([], []) := rfl

/-! ## 1. Back-to-back frames, then a tail -/

/-- **Back-to-back valid frames are all delivered, in order, and scanning continues on the tail as if
they had not been there** — whatever the payloads contain (0xD3 bytes, complete nested frames,
truncated candidates) and whatever the tail is. -/
theorem drain_exact_frames (ps : List (List UInt8 × Frame)) (h : ∀ p ∈ ps, ExactFrame p.1 p.2)
    (tail : List UInt8) :
    drainAll ((ps.map (·.1)).flatten ++ tail)
      = (ps.map (·.2) ++ (drainAll tail).1, (drainAll tail).2) := by
  induction ps with
  | nil => simp
  | cons p ps ih =>
    have hp : ExactFrame p.1 p.2 := h p (List.mem_cons_self ..)
    have ih' := ih (fun q hq => h q (List.mem_cons_of_mem _ hq))
    simp only [List.map_cons, List.flatten_cons, List.append_assoc, List.cons_append]
    rw [drainAll_exact_cons p.1 p.2 hp, ih']

/-- Corollary (`tail = []`): everything is delivered and nothing remains. -/
theorem drain_exact_frames_all (ps : List (List UInt8 × Frame)) (h : ∀ p ∈ ps, ExactFrame p.1 p.2) :
    drainAll (ps.map (·.1)).flatten = (ps.map (·.2), []) := by
  have := drain_exact_frames ps h []
  simpa [drainAll_nil] using this

/-- the stream length is the sum of the frames' own lengths -/
theorem stream_length (ps : List (List UInt8 × Frame)) (h : ∀ p ∈ ps, ExactFrame p.1 p.2) :
    (ps.map (·.1)).flatten.length = (ps.map (·.2.frameLen)).sum := by
  induction ps with
  | nil => rfl
  | cons p ps ih =>
    have hp : ExactFrame p.1 p.2 := h p (List.mem_cons_self ..)
    simp only [List.map_cons, List.flatten_cons, List.length_append, List.sum_cons,
      ih (fun q hq => h q (List.mem_cons_of_mem _ hq)), hp.2]

/-- Non-vacuity: two exact frames; the payload of the first starts with a stray 0xD3 and then contains
a complete, valid nested frame (itself with a 0xD3 payload); the second has non-zero reserved bits. -/
example :
    let inner := mkFrame 0 [0xd3, 0x00, 0x00]
    let p1 := 0xd3 :: inner
    let p2 : List UInt8 := [0x3e, 0xd0, 0xd3]
    let ps := [(mkFrame 0 p1, mkFrameResult 0 p1), (mkFrame 5 p2, mkFrameResult 5 p2)]
    (∀ p ∈ ps, ExactFrame p.1 p.2) ∧
      (∃ g, frameNew ((mkFrame 0 p1).drop 4) = .ok g) ∧   -- the nested frame really is one
      (ps.map (·.1)).flatten.length = 25 := by
  refine ⟨?_, ⟨_, (frameNew_mkFrame 0 [0xd3, 0x00, 0x00] _ (by decide))⟩, by decide⟩
  intro p hp
  simp only [List.mem_cons, List.not_mem_nil, or_false] at hp
  rcases hp with rfl | rfl <;> exact exactFrame_mkFrame _ _ (by decide)

/-! ## 2. The iterator -/

/-- The iterator (`MsgFrameIter`) on back-to-back frames followed by a tail: the frames, then what it
yields on the tail alone; its final index is the stream length plus its final index on the tail. -/
theorem iter_exact_frames_tail (ps : List (List UInt8 × Frame)) (h : ∀ p ∈ ps, ExactFrame p.1 p.2)
    (tail : List UInt8) :
    iterFrames ((ps.map (·.1)).flatten ++ tail)
      = (ps.map (·.2) ++ (iterFrames tail).1,
         (ps.map (·.1)).flatten.length + (iterFrames tail).2) := by
  obtain ⟨a1, a2, _⟩ := C05.iter_eq_repeated_scan ((ps.map (·.1)).flatten ++ tail)
  obtain ⟨b1, b2, _⟩ := C05.iter_eq_repeated_scan tail
  have hd := drain_exact_frames ps h tail
  have hr := drainAll_rem_le tail
  apply Prod.ext
  · rw [a1, hd, b1]
  · rw [a2, hd, b2]
    simp only [List.length_append]
    omega

/-- **The iterator on back-to-back valid frames yields exactly those frames, in order, and stops at
the end of the data.** -/
theorem iter_exact_frames (ps : List (List UInt8 × Frame)) (h : ∀ p ∈ ps, ExactFrame p.1 p.2) :
    iterFrames (ps.map (·.1)).flatten = (ps.map (·.2), (ps.map (·.1)).flatten.length) := by
  have := iter_exact_frames_tail ps h []
  have hn : iterFrames [] = ([], 0) := rfl
  simpa [hn] using this

example :
    let p1 : List UInt8 := 0xd3 :: mkFrame 0 [0xd3, 0x00, 0x00]
    (iterFrames (mkFrame 0 p1 ++ mkFrame 5 [0x3e, 0xd0, 0xd3])).1
      = [mkFrameResult 0 p1, mkFrameResult 5 [0x3e, 0xd0, 0xd3]] := by
  intro p1
  have := iter_exact_frames [(mkFrame 0 p1, mkFrameResult 0 p1),
    (mkFrame 5 [0x3e, 0xd0, 0xd3], mkFrameResult 5 [0x3e, 0xd0, 0xd3])] (by
      intro p hp
      simp only [List.mem_cons, List.not_mem_nil, or_false] at hp
      rcases hp with rfl | rfl <;> exact exactFrame_mkFrame _ _ (by decide))
  simp only [List.map_cons, List.map_nil, List.flatten_cons, List.flatten_nil, List.append_nil] at this
  rw [this]

/-! ## 3. Arbitrary chunking, arbitrary schedules -/

/-- **However the stream of back-to-back frames is cut into chunks** (cuts inside the preamble, the
length field, payloads, checksums; empty chunks), the chunked caller protocol delivers exactly those
frames, in order, leaves an empty buffer and has consumed every byte. -/
theorem feed_exact_frames (ps : List (List UInt8 × Frame)) (h : ∀ p ∈ ps, ExactFrame p.1 p.2)
    (chunks : List (List UInt8)) (hc : chunks.flatten = (ps.map (·.1)).flatten) :
    (feedAll chunks).delivered = ps.map (·.2) ∧ (feedAll chunks).buf = [] ∧
      (feedAll chunks).consumed = (ps.map (·.1)).flatten.length := by
  obtain ⟨h1, h2, h3⟩ := C06.feedAll_eq chunks
  rw [hc, drain_exact_frames_all ps h] at h1 h2
  rw [hc, h2] at h3
  exact ⟨h1, h2, by simpa using h3⟩

/-- The same for every schedule interleaving appends and single scanner calls, finished by a drain. -/
theorem schedule_exact_frames (ps : List (List UInt8 × Frame)) (h : ∀ p ∈ ps, ExactFrame p.1 p.2)
    (ops : List StreamOp) (hc : appended ops = (ps.map (·.1)).flatten) :
    ((ops.foldl StreamState.step .init).finish).delivered = ps.map (·.2) ∧
      ((ops.foldl StreamState.step .init).finish).buf = [] ∧
      ((ops.foldl StreamState.step .init).finish).consumed = (ps.map (·.1)).flatten.length := by
  obtain ⟨h1, h2, h3⟩ := C06.any_schedule ops
  rw [hc, drain_exact_frames_all ps h] at h1 h2
  rw [hc, h2] at h3
  exact ⟨h1, h2, by simpa using h3⟩

/-- With a tail: any chunking of frames ++ tail delivers the frames, then what the tail alone delivers,
and keeps what the tail alone keeps. -/
theorem feed_exact_frames_tail (ps : List (List UInt8 × Frame)) (h : ∀ p ∈ ps, ExactFrame p.1 p.2)
    (tail : List UInt8) (chunks : List (List UInt8))
    (hc : chunks.flatten = (ps.map (·.1)).flatten ++ tail) :
    (feedAll chunks).delivered = ps.map (·.2) ++ (drainAll tail).1 ∧
      (feedAll chunks).buf = (drainAll tail).2 := by
  obtain ⟨h1, h2, _⟩ := C06.feedAll_eq chunks
  rw [hc, drain_exact_frames ps h tail] at h1 h2
  exact ⟨h1, h2⟩

/-- Non-vacuity: a chunking with cuts inside the header, the nested frame and the checksum, and an
empty chunk. -/
example :
    let p1 : List UInt8 := 0xd3 :: mkFrame 0 [0xd3, 0x00, 0x00]
    let ps := [(mkFrame 0 p1, mkFrameResult 0 p1), (mkFrame 5 [0x3e, 0xd0, 0xd3], mkFrameResult 5 [0x3e, 0xd0, 0xd3])]
    let s := (ps.map (·.1)).flatten
    let chunks := [s.take 2, [], (s.drop 2).take 5, (s.drop 7).take 8, s.drop 15]
    chunks.flatten = s ∧ (feedAll chunks).delivered = ps.map (·.2) := by
  intro p1 ps s chunks
  have hc : chunks.flatten = s := by decide +kernel
  refine ⟨hc, (feed_exact_frames ps ?_ chunks hc).1⟩
  intro p hp
  simp only [ps, List.mem_cons, List.not_mem_nil, or_false] at hp
  rcases hp with rfl | rfl <;> exact exactFrame_mkFrame _ _ (by decide)

/-! ## 4. Builder → stream → chunked scanner → decoder -/

/-- three lists of the same length, related position by position (core has no `List.Forall₃`) -/
inductive Forall₃ {α β γ : Type} (R : α → β → γ → Prop) : List α → List β → List γ → Prop where
  | nil : Forall₃ R [] [] []
  | cons {a b c as bs cs} : R a b c → Forall₃ R as bs cs → Forall₃ R (a :: as) (b :: bs) (c :: cs)

theorem Forall₃.length_eq {α β γ : Type} {R : α → β → γ → Prop} {as : List α} {bs : List β}
    {cs : List γ} (h : Forall₃ R as bs cs) : as.length = bs.length ∧ bs.length = cs.length := by
  induction h with
  | nil => exact ⟨rfl, rfl⟩
  | cons _ _ ih => simp only [List.length_cons]; omega

/-- every element of the third list is related to elements of the first two -/
theorem Forall₃.of_mem_right {α β γ : Type} {R : α → β → γ → Prop} {as : List α} {bs : List β}
    {cs : List γ} (h : Forall₃ R as bs cs) (c : γ) (hc : c ∈ cs) : ∃ a b, a ∈ as ∧ b ∈ bs ∧ R a b c := by
  induction h with
  | nil => simp at hc
  | cons hr _ ih =>
    rcases List.mem_cons.mp hc with rfl | hc
    · exact ⟨_, _, List.mem_cons_self .., List.mem_cons_self .., hr⟩
    · obtain ⟨a, b, ha, hb, hr'⟩ := ih hc
      exact ⟨a, b, List.mem_cons_of_mem _ ha, List.mem_cons_of_mem _ hb, hr'⟩

/-- `Forall₃` spelled out with indices: equal lengths, and the relation at every position. -/
theorem forall₃_iff_getElem {α β γ : Type} {R : α → β → γ → Prop} {as : List α} {bs : List β}
    {cs : List γ} :
    Forall₃ R as bs cs ↔
      ∃ (h1 : as.length = bs.length) (h2 : bs.length = cs.length),
        ∀ (i : Nat) (hi : i < as.length), R as[i] (bs[i]'(by omega)) (cs[i]'(by omega)) := by
  constructor
  · intro h
    induction h with
    | nil => exact ⟨rfl, rfl, fun i hi => by simp at hi⟩
    | cons hr _ ih =>
      obtain ⟨h1, h2, hall⟩ := ih
      refine ⟨by simp [h1], by simp [h2], ?_⟩
      intro i hi
      cases i with
      | zero => exact hr
      | succ i => exact hall i (by simpa using hi)
  · rintro ⟨h1, h2, hall⟩
    induction as generalizing bs cs with
    | nil =>
      cases bs with
      | nil =>
        cases cs with
        | nil => exact .nil
        | cons _ _ => simp at h2
      | cons _ _ => simp at h1
    | cons a as ih =>
      cases bs with
      | nil => simp at h1
      | cons b bs =>
        cases cs with
        | nil => simp at h2
        | cons c cs =>
          refine .cons (hall 0 (by simp)) (ih (by simpa using h1) (by simpa using h2) ?_)
          intro i hi
          exact hall (i + 1) (by simpa using hi)

/-- What the end-to-end theorem says about message `m = (n, toks)`, its built frame `fr` (bytes as
numbers) and the frame `f` the scanner delivered for it:
* `f` is what `frameNew` makes of exactly the built bytes (nothing more, nothing less);
* `f` carries the message's number and decodes to a typed message of the same number `n` — never
  `corrupt`, `empty` or `notSupported` — with some token list `nt`;
* if the input was clean (`C01.Clean`, no condition except for 1059/1065/1230), building
  `.typed n nt` on a builder with any history (`hist = []`: a fresh builder) returns `fr` byte for
  byte. -/
def Roundtrip (cfg : Cfg) (m : Nat × List Tok) (fr : List Nat) (f : Frame) : Prop :=
  frameNew (fr.map UInt8.ofNat) = .ok f ∧ f.frameData = fr.map UInt8.ofNat ∧ f.number = some m.1 ∧
  ∃ nt, decodeFrame cfg Gen.messageTable f = .ok (.typed m.1 nt) ∧
    (C01.Clean m.1 m.2 → ∀ hist : List Msg,
      ((C01.after cfg hist).build cfg Gen.messageTable Gen.sigTable_glo (.typed m.1 nt)).2 = .ok fr)

/-- one message on a fresh builder: the built bytes are an exact frame with the `Roundtrip` property
(C09 `build_wellformed_gen`, C01 `build_decodes_same_type`, `rebuild_reproduces`) -/
theorem built_one (cfg : Cfg) (m : Nat × List Tok) (fr : List Nat) (hok : TokOK m.2)
    (h : (Builder.new.build cfg Gen.messageTable Gen.sigTable_glo (.typed m.1 m.2)).2 = .ok fr) :
    ∃ f, ExactFrame (fr.map UInt8.ofNat) f ∧ Roundtrip cfg m fr f := by
  obtain ⟨f, hf, hnum⟩ := C09.build_number_gen cfg Builder.new C09.binv_new m.1 m.2 fr h
  obtain ⟨-, -, -, -, -, -, f', hf', hfd, -⟩ :=
    C09.build_wellformed_gen cfg Builder.new C09.binv_new _ fr h
  rw [hf] at hf'
  injection hf' with hf'
  subst hf'
  obtain ⟨f'', nt, hf'', hdec⟩ := C01.build_decodes_same_type cfg [] m.1 m.2 fr hok h
  rw [hf] at hf''
  injection hf'' with hf''
  subst hf''
  refine ⟨f, ⟨hf, ?_⟩, hf, hfd, hnum, nt, hdec, ?_⟩
  · rw [Frame.frameLen, hfd]
  · intro hcl hist
    exact C01.rebuild_reproduces cfg [] hist m.1 m.2 nt fr f hok hcl h hf hdec

/-- all messages of a run: the built byte strings are exact frames of `Roundtrip` frames -/
theorem built_all (cfg : Cfg) :
    ∀ (ms : List (Nat × List Tok)) (frs : List (List Nat)), (∀ m ∈ ms, TokOK m.2) →
      (ms.map fun m => (Builder.new.build cfg Gen.messageTable Gen.sigTable_glo (.typed m.1 m.2)).2)
        = frs.map Res.ok →
      ∃ ps : List (List UInt8 × Frame), ps.map (·.1) = frs.map (·.map UInt8.ofNat) ∧
        (∀ p ∈ ps, ExactFrame p.1 p.2) ∧ Forall₃ (Roundtrip cfg) ms frs (ps.map (·.2)) := by
  intro ms
  induction ms with
  | nil =>
    intro frs _ h
    cases frs with
    | nil => exact ⟨[], rfl, fun _ hp => by simp at hp, .nil⟩
    | cons _ _ => simp at h
  | cons m ms ih =>
    intro frs hok h
    cases frs with
    | nil => simp at h
    | cons fr frs =>
      simp only [List.map_cons, List.cons.injEq] at h
      obtain ⟨f, hex, hrt⟩ := built_one cfg m fr (hok m (List.mem_cons_self ..)) h.1
      obtain ⟨ps, hps, hall, hrel⟩ := ih frs (fun q hq => hok q (List.mem_cons_of_mem _ hq)) h.2
      refine ⟨(fr.map UInt8.ofNat, f) :: ps, by simp [hps], ?_, .cons hrt hrel⟩
      intro p hp
      rcases List.mem_cons.mp hp with rfl | hp
      · exact hex
      · exact hall p hp

/-- **End to end.**  Take any list of typed messages `ms` (of any of the 108 supported types, byte
strings being bytes: `TokOK`), build them one after the other on ONE builder (`buildSeq` from
`Builder.new`), and suppose every build returns a frame (`frs`).  Concatenate the frames into a byte
stream and feed it to the chunked caller protocol in ANY chunking.  Then
* nothing is left in the buffer and every byte has been consumed;
* the delivered frames are exactly one per message, in order (`Forall₃`), and for the i-th
  (`Roundtrip`): it is `frameNew` of exactly the i-th built byte string, carries the i-th message's
  number, decodes to `.typed n_i nt_i` (never corrupt / empty / unsupported), and — when the i-th input
  is `Clean` — building `.typed n_i nt_i` from any builder state reproduces the i-th frame byte for byte.

No hypothesis relates the messages to each other; payload bytes equal to 0xD3, or payloads containing
whole valid frames, do not disturb delivery. -/
theorem built_stream_roundtrip (cfg : Cfg) (ms : List (Nat × List Tok)) (frs : List (List Nat))
    (hok : ∀ m ∈ ms, TokOK m.2)
    (hb : buildSeq cfg Gen.messageTable Gen.sigTable_glo Builder.new (ms.map fun m => .typed m.1 m.2)
            = frs.map Res.ok)
    (chunks : List (List UInt8)) (hc : chunks.flatten = (frs.map (·.map UInt8.ofNat)).flatten) :
    (feedAll chunks).buf = [] ∧
    (feedAll chunks).consumed = (frs.map (·.length)).sum ∧
    Forall₃ (Roundtrip cfg) ms frs (feedAll chunks).delivered := by
  rw [C12.buildSeq_eq_map cfg _ _ _ _ C12.inv_new, List.map_map] at hb
  obtain ⟨ps, hps, hall, hrel⟩ := built_all cfg ms frs hok hb
  obtain ⟨h1, h2, h3⟩ := feed_exact_frames ps hall chunks (by rw [hc, hps])
  refine ⟨h2, ?_, by rw [h1]; exact hrel⟩
  rw [h3, hps, List.length_flatten, List.map_map]
  congr 1
  apply List.map_congr_left
  intro fr _
  simp

/-- The same for every schedule of appends and single scanner calls, finished by a drain. -/
theorem built_stream_roundtrip_schedule (cfg : Cfg) (ms : List (Nat × List Tok)) (frs : List (List Nat))
    (hok : ∀ m ∈ ms, TokOK m.2)
    (hb : buildSeq cfg Gen.messageTable Gen.sigTable_glo Builder.new (ms.map fun m => .typed m.1 m.2)
            = frs.map Res.ok)
    (ops : List StreamOp) (hc : appended ops = (frs.map (·.map UInt8.ofNat)).flatten) :
    ((ops.foldl StreamState.step .init).finish).buf = [] ∧
    Forall₃ (Roundtrip cfg) ms frs ((ops.foldl StreamState.step .init).finish).delivered := by
  rw [C12.buildSeq_eq_map cfg _ _ _ _ C12.inv_new, List.map_map] at hb
  obtain ⟨ps, hps, hall, hrel⟩ := built_all cfg ms frs hok hb
  obtain ⟨h1, h2, _⟩ := schedule_exact_frames ps hall ops (by rw [hc, hps])
  exact ⟨h2, by rw [h1]; exact hrel⟩

/-- The stream may be followed by arbitrary bytes (noise, a truncated frame, foreign frames): the built
frames are still delivered first, one per message, and the rest is what the tail alone gives. -/
theorem built_stream_roundtrip_tail (cfg : Cfg) (ms : List (Nat × List Tok)) (frs : List (List Nat))
    (hok : ∀ m ∈ ms, TokOK m.2)
    (hb : buildSeq cfg Gen.messageTable Gen.sigTable_glo Builder.new (ms.map fun m => .typed m.1 m.2)
            = frs.map Res.ok)
    (tail : List UInt8) (chunks : List (List UInt8))
    (hc : chunks.flatten = (frs.map (·.map UInt8.ofNat)).flatten ++ tail) :
    ∃ fs, (feedAll chunks).delivered = fs ++ (drainAll tail).1 ∧
      (feedAll chunks).buf = (drainAll tail).2 ∧ Forall₃ (Roundtrip cfg) ms frs fs := by
  rw [C12.buildSeq_eq_map cfg _ _ _ _ C12.inv_new, List.map_map] at hb
  obtain ⟨ps, hps, hall, hrel⟩ := built_all cfg ms frs hok hb
  obtain ⟨h1, h2⟩ := feed_exact_frames_tail ps hall tail chunks (by rw [hc, hps])
  exact ⟨_, h1, h2, hrel⟩

/-! ### The hypotheses are satisfiable: a 1005, a 1001 and again a 1005 message on one builder -/

/-- the three example messages -/
def exMsgs : List (Nat × List Tok) := [(1005, C01.ex1005), (1001, C01.ex1001), (1005, C01.ex1005)]

example : ∀ m ∈ exMsgs, TokOK m.2 := by
  intro m hm t ht
  revert m t
  decide

example : ∀ m ∈ exMsgs, C01.Clean m.1 m.2 := by
  intro m hm
  simp only [exMsgs, List.mem_cons, List.not_mem_nil, or_false] at hm
  rcases hm with rfl | rfl | rfl <;> exact C01.clean_trivial _ _ (by decide)

/-- a list of results that are all `ok` is the image of a list of values -/
theorem exists_of_all_isOk {α : Type} : ∀ rs : List (Res α), rs.all Res.isOk = true →
    ∃ xs : List α, xs.length = rs.length ∧ rs = xs.map Res.ok
  | [], _ => ⟨[], rfl, rfl⟩
  | r :: rs, h => by
    simp only [List.all_cons, Bool.and_eq_true] at h
    obtain ⟨xs, hl, hxs⟩ := exists_of_all_isOk rs h.2
    cases r with
    | ok x => exact ⟨x :: xs, by simp [hl], by simp [hxs]⟩
    | err e => simp [Res.isOk] at h
    | panic w => simp [Res.isOk] at h

/-- every build of the run succeeds, in both build profiles: `frs` exists, with three frames -/
theorem exMsgs_built (cfg : Cfg) : ∃ frs : List (List Nat), frs.length = 3 ∧
    buildSeq cfg Gen.messageTable Gen.sigTable_glo Builder.new (exMsgs.map fun m => .typed m.1 m.2)
      = frs.map Res.ok := by
  have key : ∀ chk : Bool,
      (buildSeq ⟨chk⟩ Gen.messageTable Gen.sigTable_glo Builder.new
        (exMsgs.map fun m => .typed m.1 m.2)).all Res.isOk = true ∧
      (buildSeq ⟨chk⟩ Gen.messageTable Gen.sigTable_glo Builder.new
        (exMsgs.map fun m => .typed m.1 m.2)).length = 3 := by decide +kernel
  obtain ⟨hk, hlen⟩ := key cfg.checked
  obtain ⟨frs, hl, hfrs⟩ := exists_of_all_isOk _ hk
  exact ⟨frs, by rw [hl, hlen], hfrs⟩

/-- the end-to-end theorem applied to the example run: whatever the chunking, three frames come out,
numbered 1005, 1001, 1005, each decoding to a typed message of that number -/
example (cfg : Cfg) : ∃ frs : List (List Nat), frs.length = 3 ∧
    ∀ chunks : List (List UInt8), chunks.flatten = (frs.map (·.map UInt8.ofNat)).flatten →
      (feedAll chunks).buf = [] ∧
      (feedAll chunks).delivered.map (·.number) = [some 1005, some 1001, some 1005] ∧
      ∀ f ∈ (feedAll chunks).delivered, ∃ n nt, decodeFrame cfg Gen.messageTable f = .ok (.typed n nt) := by
  obtain ⟨frs, hl, hb⟩ := exMsgs_built cfg
  refine ⟨frs, hl, fun chunks hc => ?_⟩
  obtain ⟨h1, _, h3⟩ := built_stream_roundtrip cfg exMsgs frs
    (by intro m hm t ht; revert m t; decide) hb chunks hc
  refine ⟨h1, ?_, ?_⟩
  · generalize (feedAll chunks).delivered = fs at h3
    unfold exMsgs at h3
    cases h3 with
    | cons r1 h3 =>
      cases h3 with
      | cons r2 h3 =>
        cases h3 with
        | cons r3 h3 =>
          cases h3
          simp [r1.2.2.1, r2.2.2.1, r3.2.2.1]
  · intro f hf
    obtain ⟨m, fr, _, _, _, _, _, nt, hd, _⟩ := h3.of_mem_right f hf
    exact ⟨_, nt, hd⟩

/-! ## 5. Idle bytes between frames -/

/-- **A prefix without the preamble value is skipped.** If no byte of `g` is 0xD3, one scanner call on
`g ++ rest` does what it does on `rest` alone, with `g.length` more bytes consumed. -/
theorem scan_skips_dead_prefix (g : List UInt8) (hg : ∀ b ∈ g, b ≠ 0xd3) (rest : List UInt8) :
    scan (g ++ rest) = ((scan rest).1 + g.length, (scan rest).2) := by
  induction g with
  | nil => simp
  | cons b g ih =>
    have hb : b ≠ 0xd3 := hg b (List.mem_cons_self ..)
    have ih' := ih (fun c hc => hg c (List.mem_cons_of_mem _ hc))
    rw [List.cons_append]
    conv => lhs; unfold scan
    simp only [hb, ↓reduceIte, ih', List.length_cons, Nat.add_assoc]

/-- One scanner call on idle bytes, an exact frame, then anything: that frame; consumed = gap + frame. -/
theorem scan_gap_exact (g bs : List UInt8) (f : Frame) (hg : ∀ b ∈ g, b ≠ 0xd3)
    (h : ExactFrame bs f) (rest : List UInt8) :
    scan (g ++ (bs ++ rest)) = (bs.length + g.length, some f) := by
  rw [scan_skips_dead_prefix g hg, scan_exact bs f h rest]

/-- One round of the caller protocol on idle bytes, an exact frame, then anything. -/
theorem drainAll_gap_exact_cons (g bs : List UInt8) (f : Frame) (hg : ∀ b ∈ g, b ≠ 0xd3)
    (h : ExactFrame bs f) (rest : List UInt8) :
    drainAll (g ++ (bs ++ rest)) = (f :: (drainAll rest).1, (drainAll rest).2) := by
  rw [drainAll_unfold, scan_gap_exact g bs f hg h rest]
  have hd : (g ++ (bs ++ rest)).drop (bs.length + g.length) = rest := by
    rw [Nat.add_comm, ← List.drop_drop, List.drop_left, List.drop_left]
  simp only [hd]

/-- Idle bytes alone: nothing is delivered and nothing is kept. -/
theorem drainAll_dead (g : List UInt8) (hg : ∀ b ∈ g, b ≠ 0xd3) : drainAll g = ([], []) := by
  have hs := scan_skips_dead_prefix g hg []
  rw [List.append_nil] at hs
  rw [drainAll_unfold, hs]
  have : (scan ([] : List UInt8)) = (0, none) := rfl
  simp [this]

/-- **Idle bytes between frames are skipped and every frame is still delivered, in order.** Each
element of `ps` is (gap, frame bytes, frame): the gap is any byte string without the preamble value
0xD3 (it may be empty), the frame bytes are an exact frame. The caller protocol on
gap₁ ++ frame₁ ++ gap₂ ++ frame₂ ++ … ++ tail delivers frame₁, frame₂, … and then goes on with the tail
exactly as if gaps and frames had not been there. -/
theorem drain_frames_with_gaps (ps : List (List UInt8 × List UInt8 × Frame))
    (hg : ∀ p ∈ ps, ∀ b ∈ p.1, b ≠ 0xd3) (h : ∀ p ∈ ps, ExactFrame p.2.1 p.2.2)
    (tail : List UInt8) :
    drainAll ((ps.map fun p => p.1 ++ p.2.1).flatten ++ tail)
      = (ps.map (·.2.2) ++ (drainAll tail).1, (drainAll tail).2) := by
  induction ps with
  | nil => simp
  | cons p ps ih =>
    have hgp := hg p (List.mem_cons_self ..)
    have hp : ExactFrame p.2.1 p.2.2 := h p (List.mem_cons_self ..)
    have ih' := ih (fun q hq => hg q (List.mem_cons_of_mem _ hq))
      (fun q hq => h q (List.mem_cons_of_mem _ hq))
    simp only [List.map_cons, List.flatten_cons, List.append_assoc, List.cons_append]
    rw [drainAll_gap_exact_cons p.1 p.2.1 p.2.2 hgp hp, ih']

/-- Corollary: the stream may also end in idle bytes; then everything is consumed. -/
theorem drain_frames_with_gaps_all (ps : List (List UInt8 × List UInt8 × Frame))
    (hg : ∀ p ∈ ps, ∀ b ∈ p.1, b ≠ 0xd3) (h : ∀ p ∈ ps, ExactFrame p.2.1 p.2.2)
    (last : List UInt8) (hlast : ∀ b ∈ last, b ≠ 0xd3) :
    drainAll ((ps.map fun p => p.1 ++ p.2.1).flatten ++ last) = (ps.map (·.2.2), []) := by
  rw [drain_frames_with_gaps ps hg h last, drainAll_dead last hlast, List.append_nil]

/-- The same for every chunking of the stream (cuts inside gaps, headers, payloads, checksums; empty
chunks): the frames, then what the tail alone delivers; the buffer keeps what the tail alone keeps. -/
theorem feed_frames_with_gaps (ps : List (List UInt8 × List UInt8 × Frame))
    (hg : ∀ p ∈ ps, ∀ b ∈ p.1, b ≠ 0xd3) (h : ∀ p ∈ ps, ExactFrame p.2.1 p.2.2)
    (tail : List UInt8) (chunks : List (List UInt8))
    (hc : chunks.flatten = (ps.map fun p => p.1 ++ p.2.1).flatten ++ tail) :
    (feedAll chunks).delivered = ps.map (·.2.2) ++ (drainAll tail).1 ∧
      (feedAll chunks).buf = (drainAll tail).2 := by
  obtain ⟨h1, h2, _⟩ := C06.feedAll_eq chunks
  rw [hc, drain_frames_with_gaps ps hg h tail] at h1 h2
  exact ⟨h1, h2⟩

/-- Non-vacuity: idle bytes, a frame whose payload holds 0xD3, an empty gap's neighbour with more idle
bytes, a second frame with non-zero reserved bits, trailing idle bytes; cut into chunks inside a gap,
a header and a checksum. Both frames are delivered, nothing is kept. -/
example :
    let p1 : List UInt8 := [0xd3, 0x00, 0xd3]
    let p2 : List UInt8 := [0x3e, 0xd0, 0xd3]
    let ps : List (List UInt8 × List UInt8 × Frame) :=
      [([0x00, 0xff, 0x12], mkFrame 0 p1, mkFrameResult 0 p1),
       ([0x55], mkFrame 5 p2, mkFrameResult 5 p2)]
    let tail : List UInt8 := [0x0d, 0x0a]
    let s := (ps.map fun p => p.1 ++ p.2.1).flatten ++ tail
    let chunks := [s.take 2, [], (s.drop 2).take 3, (s.drop 5).take 14, s.drop 19]
    (∀ p ∈ ps, ∀ b ∈ p.1, b ≠ 0xd3) ∧ (∀ p ∈ ps, ExactFrame p.2.1 p.2.2) ∧ s.length = 24 ∧
      drainAll s = (ps.map (·.2.2), []) ∧
      chunks.flatten = s ∧ (feedAll chunks).delivered = ps.map (·.2.2) ∧ (feedAll chunks).buf = [] := by
  intro p1 p2 ps tail s chunks
  have hg : ∀ p ∈ ps, ∀ b ∈ p.1, b ≠ 0xd3 := by decide
  have hex : ∀ p ∈ ps, ExactFrame p.2.1 p.2.2 := by
    intro p hp
    simp only [ps, List.mem_cons, List.not_mem_nil, or_false] at hp
    rcases hp with rfl | rfl <;> exact exactFrame_mkFrame _ _ (by decide)
  have htail : ∀ b ∈ tail, b ≠ 0xd3 := by decide
  have hc : chunks.flatten = s := by decide +kernel
  have hd := drain_frames_with_gaps_all ps hg hex tail htail
  obtain ⟨f1, f2⟩ := feed_frames_with_gaps ps hg hex tail chunks hc
  rw [drainAll_dead tail htail] at f1 f2
  exact ⟨hg, hex, by decide +kernel, hd, hc, by simpa using f1, f2⟩

end Rtcm.Sys
