import Rtcm.Model.Message
import Rtcm.Gen.Messages
import Rtcm.Proofs.CodecMsgX
import Rtcm.Proofs.BiasCodec
import Rtcm.Proofs.WFTable
/-!
# C01  Encode/decode normal form: what the encoder writes, the decoder reads back

"For every message value the encoder accepts, of every supported message type, the produced frame decodes
to a message of the same type (never to the corrupt, empty or unsupported outcomes), and re-encoding that
decoded message reproduces the frame byte for byte provided the input had no duplicate satellite/signal
keys and no unrecognised signal identifiers in its bias lists (otherwise the twice-decoded messages are
still equal). A message obtained by decoding any frame is, whenever the encoder accepts it, a fixed point:
decoding its encoding returns an equal message, up to the order of satellite groups in the 1059/1065
code-bias lists."

Subject: `Message.Builder.build` (`MessageBuilder::build_message`), `frameNew` (`MessageFrame::new`),
`Message.decodeFrame` (`Message::from_message_frame`) over the regenerated table `Gen.messageTable`
(108 message types) and `Gen.sigTable_glo`; every theorem holds for both build profiles (`cfg`).

Vocabulary
* `TokOK toks` (Proofs/CodecLaw.lean): every byte-string token consists of bytes `< 256` — the token
  stream denotes a Rust value (`Df88591String` / `ArrayString` hold `u8`s).
* `Clean n toks`: the clean-input predicate.  `True` for every type except the three bias-list messages;
  for 1059/1065: every entry of the bias list carries a signal of the message's table (`CleanBias`);
  for 1230: no signal listed twice (`Clean1230`).  The bias list is what remains of `toks` after the
  header fields (`CleanDfs` threads `Interp.takeDf` over them).
  MSM messages need no such predicate: duplicate satellite / cell keys and unrecognised signals are
  rejected by the encoder (C10 `masks_ok_iff_pre`).
* `Regroup n toks toks'`: `toks' = toks`, except for 1059/1065 where the bias entries of `toks'` are those
  of `toks` regrouped by ascending satellite, original order inside each satellite (`C16.grouped p id`).
* `after cfg hist`: the builder after any history `hist` of earlier builds (C12).

Status: all four parts are the FULL statements, for all 108 message types:
(1) `build_decodes_same_type`, (2) `rebuild_reproduces`, (3) `twice_decoded_equal`,
(4) `decoded_is_fixpoint` (+ `regroup_spec`).  The only standing hypothesis on the input value is
`TokOK toks` in (1)–(3) (a typing fact about the positional token encoding of a Rust value).
-/
namespace Rtcm.C01
open Rtcm.Message Rtcm.Schema Rtcm.Interp Rtcm.CodecLaw Rtcm.DecLocal Rtcm.CodecMsg Rtcm.FragLaw
open Rtcm.SpecialRows Rtcm.CodecMsgX Rtcm.BiasCodec

/-- a successfully built frame has the message's own number as its table row -/
theorem build_ok_has_row (cfg : Cfg) (tbl : List MsgRow) (glo : SigTable) (b : Builder) (m : Msg) (fr : List Nat)
    (h : (b.build cfg tbl glo m).2 = .ok fr) : ∃ n toks row, m = .typed n toks ∧ findRow tbl n = some row := by
  cases m with
  | empty => simp [Builder.build] at h
  | corrupt => simp [Builder.build] at h
  | notSupported n => simp [Builder.build] at h
  | typed n toks =>
    cases hr : findRow tbl n with
    | none => simp [Builder.build, number, hr] at h
    | some row => exact ⟨n, toks, row, rfl, hr⟩

/-! ## Static facts about the generated table -/

theorem countsFit_of_mem {row : MsgRow} (h : row ∈ Gen.messageTable) : Size.countsFit row.frag = true :=
  List.all_eq_true.mp C15.count_fields_wide_enough row h

theorem countFieldsPlain_of_mem {row : MsgRow} (h : row ∈ Gen.messageTable) :
    C15.countFieldsPlain row.frag = true :=
  List.all_eq_true.mp C15.count_fields_plain row h

theorem number_lt_of_findRow {n : Nat} {row : MsgRow} (h : findRow Gen.messageTable n = some row) :
    n < 4096 := by
  have hmem : row ∈ Gen.messageTable := List.mem_of_find?_eq_some h
  have hnum : (row.number == n) = true := by
    unfold findRow at h
    have := List.find?_some h
    exact this
  have hlt := List.all_eq_true.mp C09.gen_numbers_lt row hmem
  simp only [decide_eq_true_eq] at hlt
  have : row.number = n := by simpa using hnum
  omega

/-! ## The law of every row -/

/-- the layout of a `lawKind` row obeys the codec law and its decoder is local -/
theorem law_row (cfg : Cfg) {row : MsgRow} (hmem : row ∈ Gen.messageTable)
    (hs : lawKind row.frag = true) :
    Law (encFrag cfg Gen.sigTable_glo row.frag) (decFrag cfg row.frag) ∧ Local (decFrag cfg row.frag) :=
  ⟨encFrag_law cfg Gen.sigTable_glo row.frag (WF.wfFrag_of_mem hmem) (countsFit_of_mem hmem)
      (countFieldsPlain_of_mem hmem) hs,
    decFrag_local cfg row.frag (WF.wfFrag_of_mem hmem) hs⟩

/-- the rows whose layout is not `lawKind`: the 1029 text message and the three bias-list messages;
the other 104 of the 108 rows (data fields, strings, lists, all 49 MSM messages) are `lawKind` -/
theorem not_lawKind_numbers :
    (Gen.messageTable.filter fun r => !lawKind r.frag).map (·.number) = [1029, 1059, 1065, 1230] := by
  decide +kernel

/-! ### the four rows with side conditions: header fields, then one special fragment -/

def hdr1029 : List (String × DfSpec) :=
  [("reference_station_id", Gen.df_df003), ("modified_julian_day_number", Gen.df_df051),
   ("seconds_of_day_s", Gen.df_df052)]
def hdr1059 : List (String × DfSpec) :=
  [("gps_epoch_time_s", Gen.df_df385), ("ssr_update_interval_index", Gen.df_df_u4),
   ("multiple_message_flag", Gen.df_df_flag), ("iod_ssr", Gen.df_df_u4), ("ssr_provider_id", Gen.df_df_u16),
   ("ssr_solution_id", Gen.df_df_u4)]
def hdr1065 : List (String × DfSpec) :=
  [("glo_epoch_time_s", Gen.df_df_u17), ("ssr_update_interval_index", Gen.df_df_u4),
   ("multiple_message_flag", Gen.df_df_flag), ("iod_ssr", Gen.df_df_u4), ("ssr_provider_id", Gen.df_df_u16),
   ("ssr_solution_id", Gen.df_df_u4)]
def hdr1230 : List (String × DfSpec) :=
  [("reference_station_id", Gen.df_df003), ("glo_code_phase_bias_ind", Gen.df_df421)]

/-- the parameter sets of the two code-bias messages -/
abbrev p1059 : Bias.Params := params1059 390 Gen.biasTable_df_msg1059_biases
abbrev p1065 : Bias.Params := params1065 390 Gen.biasTable_df_msg1065_biases

theorem frag_1029_shape : Gen.frag_msg1029 = .seq (dfsThen hdr1029 "text_str" .text1029) := rfl
theorem frag_1059_shape : Gen.frag_msg1059 =
    .seq (dfsThen hdr1059 "biases" (.bias1059 390 Gen.biasTable_df_msg1059_biases)) := rfl
theorem frag_1065_shape : Gen.frag_msg1065 =
    .seq (dfsThen hdr1065 "biases" (.bias1065 390 Gen.biasTable_df_msg1065_biases)) := rfl
theorem frag_1230_shape : Gen.frag_msg1230 = .seq (dfsThen hdr1230 "glo_code_phase_biases" .bias1230) := rfl

theorem row_1029 : findRow Gen.messageTable 1029 =
    some ⟨"msg1029", "Msg1029", "msg1029", 1029, Gen.frag_msg1029⟩ := by rfl
theorem row_1059 : findRow Gen.messageTable 1059 =
    some ⟨"msg1059", "Msg1059", "msg1059", 1059, Gen.frag_msg1059⟩ := by rfl
theorem row_1065 : findRow Gen.messageTable 1065 =
    some ⟨"msg1065", "Msg1065", "msg1065", 1065, Gen.frag_msg1065⟩ := by rfl
theorem row_1230 : findRow Gen.messageTable 1230 =
    some ⟨"msg1230", "Msg1230", "msg1230", 1230, Gen.frag_msg1230⟩ := by rfl

/-- the clean-input predicate of message type `n` -/
def Clean (n : Nat) (toks : List Tok) : Prop :=
  if n = 1059 then CleanDfs hdr1059 (CleanBias p1059) toks
  else if n = 1065 then CleanDfs hdr1065 (CleanBias p1065) toks
  else if n = 1230 then CleanDfs hdr1230 Clean1230 toks
  else True

/-- how a decoded message comes back after encode-then-decode -/
def Regroup (n : Nat) (toks toks' : List Tok) : Prop :=
  if n = 1059 then RelDfs (RelBias p1059) toks toks'
  else if n = 1065 then RelDfs (RelBias p1065) toks toks'
  else toks' = toks

/-- message 1029: the text field starts at bit 12 + 12 + 16 + 17 = 57 of the payload, its bytes at bit 72 -/
theorem law_1029 (cfg : Cfg) :
    LawX (encFrag cfg Gen.sigTable_glo Gen.frag_msg1029) (decFrag cfg Gen.frag_msg1029) (· = 12)
      (fun _ => True) (fun a b => b = a) ∧ Local (decFrag cfg Gen.frag_msg1029) := by
  have hw : WF.wfSpecs hdr1029 = true := by decide +kernel
  rw [frag_1029_shape]
  constructor
  · refine (lawX_seq (law_dfsThen cfg Gen.sigTable_glo "text_str" .text1029 _ _ _
      (text_law cfg Gen.sigTable_glo) hdr1029 hw)).mono ?_ ?_ ?_
    · intro o ho
      subst ho
      decide
    · intro ts _
      exact cleanDfs_true hdr1029 ts
    · intro a b h
      exact relDfs_eq h
  · exact local_seq_frag (local_dfsThen cfg "text_str" .text1029 (text_frag_local cfg) hdr1029 hw)

theorem law_1059 (cfg : Cfg) :
    LawX (encFrag cfg Gen.sigTable_glo Gen.frag_msg1059) (decFrag cfg Gen.frag_msg1059) (· = 12)
      (CleanDfs hdr1059 (CleanBias p1059)) (RelDfs (RelBias p1059)) ∧
    Local (decFrag cfg Gen.frag_msg1059) := by
  have hw : WF.wfSpecs hdr1059 = true := by decide +kernel
  have hp := C16.params_ok_1059 390
  rw [frag_1059_shape]
  constructor
  · refine (lawX_seq (law_dfsThen cfg Gen.sigTable_glo "biases" _ _ _ _
      ((bias_law cfg p1059 hp).congr (frag1059_E cfg _ 390 _) (frag1059_D cfg 390 _)) hdr1059 hw)).mono
      (fun _ _ => trivial) (fun _ h => h) (fun _ _ h => h)
  · exact local_seq_frag (local_dfsThen cfg "biases" _
      ((biasD_local cfg p1059 hp.satBits1 hp.satBits8).congr (frag1059_D cfg 390 _)) hdr1059 hw)

theorem law_1065 (cfg : Cfg) :
    LawX (encFrag cfg Gen.sigTable_glo Gen.frag_msg1065) (decFrag cfg Gen.frag_msg1065) (· = 12)
      (CleanDfs hdr1065 (CleanBias p1065)) (RelDfs (RelBias p1065)) ∧
    Local (decFrag cfg Gen.frag_msg1065) := by
  have hw : WF.wfSpecs hdr1065 = true := by decide +kernel
  have hp := C16.params_ok_1065 390
  rw [frag_1065_shape]
  constructor
  · refine (lawX_seq (law_dfsThen cfg Gen.sigTable_glo "biases" _ _ _ _
      ((bias_law cfg p1065 hp).congr (frag1065_E cfg _ 390 _) (frag1065_D cfg 390 _)) hdr1065 hw)).mono
      (fun _ _ => trivial) (fun _ h => h) (fun _ _ h => h)
  · exact local_seq_frag (local_dfsThen cfg "biases" _
      ((biasD_local cfg p1065 hp.satBits1 hp.satBits8).congr (frag1065_D cfg 390 _)) hdr1065 hw)

theorem law_1230 (cfg : Cfg) :
    LawX (encFrag cfg Gen.sigTable_glo Gen.frag_msg1230) (decFrag cfg Gen.frag_msg1230) (· = 12)
      (CleanDfs hdr1230 Clean1230) (fun a b => b = a) ∧
    Local (decFrag cfg Gen.frag_msg1230) := by
  have hw : WF.wfSpecs hdr1230 = true := by decide +kernel
  rw [frag_1230_shape]
  constructor
  · refine (lawX_seq (law_dfsThen cfg Gen.sigTable_glo "glo_code_phase_biases" .bias1230 _ _ _
      (bias1230_law cfg Gen.sigTable_glo C16.glo1230_ok) hdr1230 hw)).mono
      (fun _ _ => trivial) (fun _ h => h) (fun _ _ h => relDfs_eq h)
  · exact local_seq_frag (local_dfsThen cfg "glo_code_phase_biases" .bias1230 (bias1230_local cfg) hdr1230 hw)

/-- the three bias-list rows without any hypothesis on the tokens: the decoder accepts what the encoder
wrote; a decoded 1059/1065 bias list is its own regrouping -/
theorem lawW_1059 (cfg : Cfg) :
    LawW (encFrag cfg Gen.sigTable_glo Gen.frag_msg1059) (decFrag cfg Gen.frag_msg1059) (· = 12)
      (QDfs (QBias p1059)) := by
  have hw : WF.wfSpecs hdr1059 = true := by decide +kernel
  rw [frag_1059_shape]
  intro ts c c' rest hg hfit hP h
  exact lawW_seq (lawW_dfsThen cfg Gen.sigTable_glo "biases" _ _ _
    ((bias_lawW cfg p1059 (C16.params_ok_1059 390)).congr (frag1059_E cfg _ 390 _) (frag1059_D cfg 390 _))
    hdr1059 hw) ts c c' rest hg hfit trivial h

theorem lawW_1065 (cfg : Cfg) :
    LawW (encFrag cfg Gen.sigTable_glo Gen.frag_msg1065) (decFrag cfg Gen.frag_msg1065) (· = 12)
      (QDfs (QBias p1065)) := by
  have hw : WF.wfSpecs hdr1065 = true := by decide +kernel
  rw [frag_1065_shape]
  intro ts c c' rest hg hfit hP h
  exact lawW_seq (lawW_dfsThen cfg Gen.sigTable_glo "biases" _ _ _
    ((bias_lawW cfg p1065 (C16.params_ok_1065 390)).congr (frag1065_E cfg _ 390 _) (frag1065_D cfg 390 _))
    hdr1065 hw) ts c c' rest hg hfit trivial h

theorem lawW_1230 (cfg : Cfg) :
    LawW (encFrag cfg Gen.sigTable_glo Gen.frag_msg1230) (decFrag cfg Gen.frag_msg1230) (· = 12)
      (fun _ => True) := by
  have hw : WF.wfSpecs hdr1230 = true := by decide +kernel
  rw [frag_1230_shape]
  intro ts c c' rest hg hfit hP h
  obtain ⟨a, nt, c'', d, h1, h2, _⟩ := lawW_seq (lawW_dfsThen cfg Gen.sigTable_glo "glo_code_phase_biases"
    .bias1230 _ _ (bias1230_lawW cfg Gen.sigTable_glo) hdr1230 hw) ts c c' rest hg hfit trivial h
  exact ⟨a, nt, c'', d, h1, h2, trivial⟩

/-- a table row is `lawKind`, or one of the four special rows -/
theorem row_cases (n : Nat) (row : MsgRow) (hrow : findRow Gen.messageTable n = some row) :
    (lawKind row.frag = true ∧ n ≠ 1059 ∧ n ≠ 1065 ∧ n ≠ 1230) ∨
    (n = 1029 ∧ row.frag = Gen.frag_msg1029) ∨ (n = 1059 ∧ row.frag = Gen.frag_msg1059) ∨
    (n = 1065 ∧ row.frag = Gen.frag_msg1065) ∨ (n = 1230 ∧ row.frag = Gen.frag_msg1230) := by
  have hmem : row ∈ Gen.messageTable := List.mem_of_find?_eq_some hrow
  have hnum : row.number = n := by
    have : (row.number == n) = true := by
      unfold findRow at hrow
      have := List.find?_some hrow
      exact this
    simpa using this
  by_cases hs : lawKind row.frag = true
  · left
    refine ⟨hs, ?_, ?_, ?_⟩
    · rintro rfl
      rw [row_1059] at hrow
      injection hrow with hrow
      subst hrow
      revert hs
      decide +kernel
    · rintro rfl
      rw [row_1065] at hrow
      injection hrow with hrow
      subst hrow
      revert hs
      decide +kernel
    · rintro rfl
      rw [row_1230] at hrow
      injection hrow with hrow
      subst hrow
      revert hs
      decide +kernel
  · right
    have hin : row.number ∈ (Gen.messageTable.filter fun r => !lawKind r.frag).map (·.number) :=
      List.mem_map.mpr ⟨row, List.mem_filter.mpr ⟨hmem, by simpa using hs⟩, rfl⟩
    rw [not_lawKind_numbers, hnum] at hin
    simp only [List.mem_cons, List.not_mem_nil, or_false] at hin
    rcases hin with rfl | rfl | rfl | rfl
    · rw [row_1029] at hrow; injection hrow with hrow; subst hrow; exact Or.inl ⟨rfl, rfl⟩
    · rw [row_1059] at hrow; injection hrow with hrow; subst hrow; exact Or.inr (Or.inl ⟨rfl, rfl⟩)
    · rw [row_1065] at hrow; injection hrow with hrow; subst hrow; exact Or.inr (Or.inr (Or.inl ⟨rfl, rfl⟩))
    · rw [row_1230] at hrow; injection hrow with hrow; subst hrow; exact Or.inr (Or.inr (Or.inr ⟨rfl, rfl⟩))

/-- THE LAW OF EVERY ROW: started at bit 12 of the payload window, on clean input, with fixed points
up to `Regroup` -/
theorem row_lawX (cfg : Cfg) (n : Nat) (row : MsgRow) (hrow : findRow Gen.messageTable n = some row) :
    LawX (encFrag cfg Gen.sigTable_glo row.frag) (decFrag cfg row.frag) (· = 12) (Clean n) (Regroup n) ∧
    Local (decFrag cfg row.frag) := by
  have hmem : row ∈ Gen.messageTable := List.mem_of_find?_eq_some hrow
  rcases row_cases n row hrow with ⟨hs, h1, h2, h3⟩ | ⟨rfl, hf⟩ | ⟨rfl, hf⟩ | ⟨rfl, hf⟩ | ⟨rfl, hf⟩
  · obtain ⟨hl, hloc⟩ := law_row cfg hmem hs
    refine ⟨(LawX.of_law hl).mono (fun _ _ => trivial) (fun _ _ => trivial) ?_, hloc⟩
    intro a b h
    unfold Regroup
    rw [if_neg h1, if_neg h2]
    exact h.symm
  · rw [hf]
    obtain ⟨hl, hloc⟩ := law_1029 cfg
    exact ⟨hl.mono (fun _ h => h) (fun _ _ => trivial) (fun _ _ h => by unfold Regroup; simpa using h), hloc⟩
  · rw [hf]
    obtain ⟨hl, hloc⟩ := law_1059 cfg
    exact ⟨hl.mono (fun _ h => h) (fun _ h => by unfold Clean at h; simpa using h)
      (fun _ _ h => by unfold Regroup; simpa using h), hloc⟩
  · rw [hf]
    obtain ⟨hl, hloc⟩ := law_1065 cfg
    exact ⟨hl.mono (fun _ h => h) (fun _ h => by unfold Clean at h; simpa using h)
      (fun _ _ h => by unfold Regroup; simpa using h), hloc⟩
  · rw [hf]
    obtain ⟨hl, hloc⟩ := law_1230 cfg
    exact ⟨hl.mono (fun _ h => h) (fun _ h => by unfold Clean at h; simpa using h)
      (fun _ _ h => by unfold Regroup; simpa using h), hloc⟩

/-! ### what a typed decode returns: a Rust value, and clean -/

theorem bias_tokOK (ws : Bool) (es : List Bias.Entry) : TokOK (biasToks ws es) := by
  intro t ht
  unfold biasToks at ht
  rcases List.mem_cons.mp ht with rfl | ht
  · rfl
  · rw [List.mem_flatMap] at ht
    obtain ⟨e, _, he⟩ := ht
    cases ws
    · simp at he
      rcases he with rfl | rfl <;> rfl
    · simp at he
      rcases he with rfl | rfl | rfl <;> rfl

theorem decoded_tokOK (cfg : Cfg) (n : Nat) (row : MsgRow) (hrow : findRow Gen.messageTable n = some row)
    (f0 : Frame) (toks : List Tok) (c' : Cur)
    (h : decFrag cfg row.frag { data := f0.data.map (·.toNat), off := 12 } = .ok (toks, c')) : TokOK toks := by
  have hb := bytes_map_toNat f0.data
  rcases row_cases n row hrow with ⟨hs, _, _, _⟩ | ⟨rfl, hf⟩ | ⟨rfl, hf⟩ | ⟨rfl, hf⟩ | ⟨rfl, hf⟩
  · exact decFrag_tokOK cfg row.frag hs _ _ _ h
  · rw [hf, frag_1029_shape, decFrag] at h
    exact tokOK_dfsThen cfg "text_str" .text1029 (text_tokOK cfg) hdr1029 (by decide +kernel) _ _ _ hb h
  · rw [hf, frag_1059_shape, decFrag] at h
    refine tokOK_dfsThen cfg "biases" _ ?_ hdr1059 (by decide +kernel) _ _ _ hb h
    intro c t c'' _ hd
    rw [decFrag] at hd
    split at hd
    · simp only [Res.ok.injEq, Prod.mk.injEq] at hd; rw [← hd.1]; exact bias_tokOK _ _
    · cases hd
    · cases hd
  · rw [hf, frag_1065_shape, decFrag] at h
    refine tokOK_dfsThen cfg "biases" _ ?_ hdr1065 (by decide +kernel) _ _ _ hb h
    intro c t c'' _ hd
    rw [decFrag] at hd
    split at hd
    · simp only [Res.ok.injEq, Prod.mk.injEq] at hd; rw [← hd.1]; exact bias_tokOK _ _
    · cases hd
    · cases hd
  · rw [hf, frag_1230_shape, decFrag] at h
    refine tokOK_dfsThen cfg "glo_code_phase_biases" _ ?_ hdr1230 (by decide +kernel) _ _ _ hb h
    intro c t c'' _ hd
    rw [decFrag] at hd
    split at hd
    · simp only [Res.ok.injEq, Prod.mk.injEq] at hd; rw [← hd.1]; exact bias_tokOK _ _
    · cases hd
    · cases hd

/-- a decoded message is clean: the decoders only produce recognised signals, each 1230 signal once -/
theorem decoded_clean (cfg : Cfg) (n : Nat) (row : MsgRow) (hrow : findRow Gen.messageTable n = some row)
    (c0 : Cur) (toks : List Tok) (c' : Cur)
    (h : decFrag cfg row.frag c0 = .ok (toks, c')) : Clean n toks := by
  rcases row_cases n row hrow with ⟨_, h1, h2, h3⟩ | ⟨rfl, hf⟩ | ⟨rfl, hf⟩ | ⟨rfl, hf⟩ | ⟨rfl, hf⟩
  · unfold Clean; rw [if_neg h1, if_neg h2, if_neg h3]; trivial
  · unfold Clean; simp
  · rw [hf, frag_1059_shape, decFrag] at h
    unfold Clean
    rw [if_pos rfl]
    refine cleanDfs_of_decoded cfg "biases" _ _ ?_ hdr1059 _ _ _ h
    intro c t c'' hd
    rw [frag1059_D] at hd
    exact cleanBias_of_decoded hd
  · rw [hf, frag_1065_shape, decFrag] at h
    unfold Clean
    rw [if_neg (by decide), if_pos rfl]
    refine cleanDfs_of_decoded cfg "biases" _ _ ?_ hdr1065 _ _ _ h
    intro c t c'' hd
    rw [frag1065_D] at hd
    exact cleanBias_of_decoded hd
  · rw [hf, frag_1230_shape, decFrag] at h
    unfold Clean
    rw [if_neg (by decide), if_neg (by decide), if_pos rfl]
    exact cleanDfs_of_decoded cfg "glo_code_phase_biases" _ _ (fun _ _ _ hd => clean1230_of_decoded hd)
      hdr1230 _ _ _ h

/-! ## The message-level theorems -/

/-- core statement, fresh builder -/
theorem law_normal_form (cfg : Cfg) (n : Nat) (toks : List Tok) (fr : List Nat)
    (hok : TokOK toks) (hcl : Clean n toks)
    (h : (Builder.new.build cfg Gen.messageTable Gen.sigTable_glo (.typed n toks)).2 = .ok fr) :
    ∃ f nt, frameNew (fr.map UInt8.ofNat) = .ok f ∧
      decodeFrame cfg Gen.messageTable f = .ok (.typed n nt) ∧
      (Builder.new.build cfg Gen.messageTable Gen.sigTable_glo (.typed n nt)).2 = .ok fr := by
  obtain ⟨_, _, row, hm, hrow⟩ := build_ok_has_row cfg _ _ _ _ fr h
  injection hm with hn _
  subst hn
  obtain ⟨hlaw, hloc⟩ := row_lawX cfg _ row hrow
  exact normal_form_of_lawX cfg Gen.messageTable (fun _ h => WF.wfFrag_of_mem h) Gen.sigTable_glo _
    (number_lt_of_findRow hrow) toks fr row hrow hlaw rfl hloc hok hcl h

/-- the builder after any history of builds -/
abbrev after (cfg : Cfg) (hist : List Msg) : Builder :=
  hist.foldl (fun b x => (b.build cfg Gen.messageTable Gen.sigTable_glo x).1) Builder.new

/-- `Clean` is no condition for any type but the three bias-list messages -/
theorem clean_trivial (n : Nat) (toks : List Tok) (h : n ≠ 1059 ∧ n ≠ 1065 ∧ n ≠ 1230) : Clean n toks := by
  unfold Clean
  rw [if_neg h.1, if_neg h.2.1, if_neg h.2.2]
  trivial

/-- what a frame built from ANY accepted message value decodes to (fresh builder): a message of the same
type; for 1059/1065 its bias list is its own regrouping -/
theorem built_decodes (cfg : Cfg) (n : Nat) (toks : List Tok) (fr : List Nat) (hok : TokOK toks)
    (h : (Builder.new.build cfg Gen.messageTable Gen.sigTable_glo (.typed n toks)).2 = .ok fr) :
    ∃ f nt, frameNew (fr.map UInt8.ofNat) = .ok f ∧
      decodeFrame cfg Gen.messageTable f = .ok (.typed n nt) ∧
      (n = 1059 → QDfs (QBias p1059) nt) ∧ (n = 1065 → QDfs (QBias p1065) nt) := by
  obtain ⟨_, _, row, hm, hrow⟩ := build_ok_has_row cfg _ _ _ _ fr h
  injection hm with hn _
  subst hn
  have hlt := number_lt_of_findRow hrow
  have htbl : ∀ row ∈ Gen.messageTable, WF.WFFrag row.frag = true := fun _ h => WF.wfFrag_of_mem h
  obtain ⟨_, hloc⟩ := row_lawX cfg _ row hrow
  rcases row_cases _ row hrow with ⟨hs, h1, h2, h3⟩ | ⟨rfl, hf⟩ | ⟨rfl, hf⟩ | ⟨rfl, hf⟩ | ⟨rfl, hf⟩
  · obtain ⟨f, nt, a, b, _⟩ := law_normal_form cfg _ toks fr hok (clean_trivial _ _ ⟨h1, h2, h3⟩) h
    exact ⟨f, nt, a, b, fun e => absurd e h1, fun e => absurd e h2⟩
  · obtain ⟨f, nt, a, b, _⟩ := law_normal_form cfg _ toks fr hok (clean_trivial _ _ (by decide)) h
    exact ⟨f, nt, a, b, fun e => absurd e (by decide), fun e => absurd e (by decide)⟩
  · have hl := lawW_1059 cfg
    rw [← hf] at hl
    obtain ⟨f, nt, a, b, q⟩ := decodes_of_lawW cfg Gen.messageTable htbl Gen.sigTable_glo _ hlt toks fr row
      hrow hl rfl hloc h
    exact ⟨f, nt, a, b, fun _ => q, fun e => absurd e (by decide)⟩
  · have hl := lawW_1065 cfg
    rw [← hf] at hl
    obtain ⟨f, nt, a, b, q⟩ := decodes_of_lawW cfg Gen.messageTable htbl Gen.sigTable_glo _ hlt toks fr row
      hrow hl rfl hloc h
    exact ⟨f, nt, a, b, fun e => absurd e (by decide), fun _ => q⟩
  · have hl := lawW_1230 cfg
    rw [← hf] at hl
    obtain ⟨f, nt, a, b, _⟩ := decodes_of_lawW cfg Gen.messageTable htbl Gen.sigTable_glo _ hlt toks fr row
      hrow hl rfl hloc h
    exact ⟨f, nt, a, b, fun e => absurd e (by decide), fun e => absurd e (by decide)⟩

/-- **C01 (1), FULL.**  For every message type: whatever the builder did before, if it accepts the message
value `toks` of type `n` (byte strings being bytes: `TokOK`), the frame passes the frame check and
decodes to a message of the same type — never to `corrupt`, `empty` or `notSupported`.  No clean-input
hypothesis: a 1059/1065 list with unrecognised signals decodes to the list without them, a 1230 list with
a repeated signal to one entry per signal. -/
theorem build_decodes_same_type (cfg : Cfg) (hist : List Msg) (n : Nat) (toks : List Tok)
    (fr : List Nat) (hok : TokOK toks)
    (h : ((after cfg hist).build cfg Gen.messageTable Gen.sigTable_glo (.typed n toks)).2 = .ok fr) :
    ∃ f nt, frameNew (fr.map UInt8.ofNat) = .ok f ∧
      decodeFrame cfg Gen.messageTable f = .ok (.typed n nt) := by
  rw [C12.build_history_independent] at h
  obtain ⟨f, nt, h1, h2, _⟩ := built_decodes cfg n toks fr hok h
  exact ⟨f, nt, h1, h2⟩

/-- **C01 (2), FULL.**  For every message type: re-encoding the decoded message reproduces the frame byte
for byte, from any builder state, provided the input was clean (`Clean n toks`: recognised signals in
the 1059/1065 lists, no repeated signal in the 1230 list; no condition for any other type). -/
theorem rebuild_reproduces (cfg : Cfg) (hist hist' : List Msg) (n : Nat) (toks nt : List Tok)
    (fr : List Nat) (f : Frame) (hok : TokOK toks) (hcl : Clean n toks)
    (h : ((after cfg hist).build cfg Gen.messageTable Gen.sigTable_glo (.typed n toks)).2 = .ok fr)
    (hf : frameNew (fr.map UInt8.ofNat) = .ok f)
    (hd : decodeFrame cfg Gen.messageTable f = .ok (.typed n nt)) :
    ((after cfg hist').build cfg Gen.messageTable Gen.sigTable_glo (.typed n nt)).2 = .ok fr := by
  rw [C12.build_history_independent] at h ⊢
  obtain ⟨f', nt', h1, h2, h3⟩ := law_normal_form cfg n toks fr hok hcl h
  rw [hf] at h1
  injection h1 with h1
  subst h1
  rw [hd] at h2
  injection h2 with h2
  injection h2 with _ h2
  subst h2
  exact h3

/-- **C01 (4), FULL.**  For every message type: a message obtained by decoding ANY frame (built by this
encoder or not, canonical or not) is, whenever the encoder accepts it, a fixed point: decoding its
encoding returns `toks'` with `Regroup n toks toks'`, i.e. the same message, except that the 1059/1065
bias entries come back regrouped by ascending satellite (`regroup_spec`). -/
theorem decoded_is_fixpoint (cfg : Cfg) (hist : List Msg) (f0 : Frame) (n : Nat) (toks : List Tok)
    (fr : List Nat)
    (hd0 : decodeFrame cfg Gen.messageTable f0 = .ok (.typed n toks))
    (h : ((after cfg hist).build cfg Gen.messageTable Gen.sigTable_glo (.typed n toks)).2 = .ok fr) :
    ∃ f toks', frameNew (fr.map UInt8.ofNat) = .ok f ∧
      decodeFrame cfg Gen.messageTable f = .ok (.typed n toks') ∧ Regroup n toks toks' := by
  rw [C12.build_history_independent] at h
  obtain ⟨row, c', hrow, hdec⟩ := decodeFrame_typed hd0
  obtain ⟨hlaw, hloc⟩ := row_lawX cfg n row hrow
  exact fixpoint_of_lawX cfg Gen.messageTable (fun _ h => WF.wfFrag_of_mem h)
    Gen.sigTable_glo n (number_lt_of_findRow hrow) toks fr row hrow hlaw rfl hloc
    (decoded_tokOK cfg n row hrow f0 toks c' hdec) (decoded_clean cfg n row hrow _ toks c' hdec)
    ⟨_, _, hdec⟩ h

/-- `Regroup` spelled out: equality for every type but 1059/1065; for those, a common header followed by
the bias list, which comes back as `C16.grouped p id es` (satellites ascending, original order inside each
satellite — a permutation of `es`, `C16.grouped_perm`) -/
theorem regroup_spec (n : Nat) (toks toks' : List Tok) (h : Regroup n toks toks') :
    (n ≠ 1059 ∧ n ≠ 1065 ∧ toks' = toks) ∨
    (n = 1059 ∧ ∃ hdr es, toks = hdr ++ biasToks true es ∧
      toks' = hdr ++ biasToks true (C16.grouped p1059 id es)) ∨
    (n = 1065 ∧ ∃ hdr es, toks = hdr ++ biasToks true es ∧
      toks' = hdr ++ biasToks true (C16.grouped p1065 id es)) := by
  unfold Regroup at h
  by_cases h1 : n = 1059
  · rw [if_pos h1] at h
    obtain ⟨hdr, tl, tl', _, rfl, rfl, es, rfl, rfl⟩ := h
    exact Or.inr (Or.inl ⟨h1, hdr, es, rfl, rfl⟩)
  · rw [if_neg h1] at h
    by_cases h2 : n = 1065
    · rw [if_pos h2] at h
      obtain ⟨hdr, tl, tl', _, rfl, rfl, es, rfl, rfl⟩ := h
      exact Or.inr (Or.inr ⟨h2, hdr, es, rfl, rfl⟩)
    · rw [if_neg h2] at h
      exact Or.inl ⟨h1, h2, h⟩

/-- **C01 (3), FULL.**  For every message type, clean input or not: decoding the re-encoded message gives
the same message again.  (By (4), since the first decode `nt` is a decoded message; for 1059/1065
additionally because a frame written by the encoder decodes to a bias list that is already grouped by
ascending satellite, `built_decodes`.) -/
theorem twice_decoded_equal (cfg : Cfg) (hist hist' : List Msg) (n : Nat) (toks nt : List Tok)
    (fr fr' : List Nat) (f f' : Frame) (hok : TokOK toks)
    (h : ((after cfg hist).build cfg Gen.messageTable Gen.sigTable_glo (.typed n toks)).2 = .ok fr)
    (hf : frameNew (fr.map UInt8.ofNat) = .ok f)
    (hd : decodeFrame cfg Gen.messageTable f = .ok (.typed n nt))
    (h' : ((after cfg hist').build cfg Gen.messageTable Gen.sigTable_glo (.typed n nt)).2 = .ok fr')
    (hf' : frameNew (fr'.map UInt8.ofNat) = .ok f') :
    decodeFrame cfg Gen.messageTable f' = .ok (.typed n nt) := by
  obtain ⟨f'', toks', hf'', hd'', hR⟩ := decoded_is_fixpoint cfg hist' f n nt fr' hd h'
  rw [hf'] at hf''
  injection hf'' with hf''
  subst hf''
  rw [C12.build_history_independent] at h
  obtain ⟨f1, nt1, hf1, hd1, q1, q2⟩ := built_decodes cfg n toks fr hok h
  rw [hf] at hf1
  injection hf1 with hf1
  subst hf1
  rw [hd] at hd1
  injection hd1 with hd1
  injection hd1 with _ hd1
  subst hd1
  have : toks' = nt := by
    unfold Regroup at hR
    by_cases h1 : n = 1059
    · rw [if_pos h1] at hR
      exact regroup_fixed p1059 (q1 h1) hR
    · rw [if_neg h1] at hR
      by_cases h2 : n = 1065
      · rw [if_pos h2] at hR
        exact regroup_fixed p1065 (q2 h2) hR
      · rw [if_neg h2] at hR
        exact hR
  rw [this] at hd''
  exact hd''

/-! ### The hypotheses are satisfiable -/

/-- a 1005 message value: station 2003, ECEF (1.0, 0.0, -1.0) m -/
def ex1005 : List Tok :=
  [.int 2003, .int 0, .int 1, .int 1, .int 0, .int 0, .flt 0x3FF0000000000000, .int 0, .int 0, .flt 0,
   .int 1, .flt 0xBFF0000000000000]

/-- a 1001 message value with one satellite, pseudorange 1.0 m, phase-range difference absent -/
def ex1001 : List Tok :=
  [.int 5, .int 1000, .int 0, .count 1, .int 0, .int 3,
   .int 7, .int 0, .present, .flt 0x3FF0000000000000, .absent, .int 9]

example : ∀ chk : Bool,
    (Builder.new.build ⟨chk⟩ Gen.messageTable Gen.sigTable_glo (.typed 1005 ex1005)).2.isOk = true := by
  decide +kernel

example : ∀ chk : Bool,
    (Builder.new.build ⟨chk⟩ Gen.messageTable Gen.sigTable_glo (.typed 1001 ex1001)).2.isOk = true := by
  decide +kernel

example : TokOK ex1005 ∧ TokOK ex1001 := by
  constructor <;> (intro t ht; revert t ht; decide)

example : Clean 1005 ex1005 := clean_trivial _ _ (by decide)
example : Clean 1001 ex1001 := clean_trivial _ _ (by decide)

/-- a 1071 (GPS MSM1) message value: satellites 5 and 2 listed out of order, cells (5,1C) (2,1C) (5,2W) -/
def ex1071 : List Tok :=
  [.int 7, .int 1000, .int 0, .absent, .int 0, .int 0, .int 0, .int 0, .int 0,
   .count 2, .int 5, .flt 0x3FE0000000000000, .int 2, .flt 0,
   .count 3, .int 5, .sig 1 67, .absent, .int 2, .sig 1 67, .present, .flt 0, .int 5, .sig 2 87, .absent]

example : ∀ chk : Bool,
    (Builder.new.build ⟨chk⟩ Gen.messageTable Gen.sigTable_glo (.typed 1071 ex1071)).2.isOk = true := by
  decide +kernel
example : Clean 1071 ex1071 := clean_trivial _ _ (by decide)

/-- a 1029 message value: station 5, MJD 60000, 1000 s, text "Hé" (3 bytes, 2 characters) -/
def ex1029 : List Tok := [.int 5, .int 60000, .int 1000, .bytes [0x48, 0xC3, 0xA9]]

example : ∀ chk : Bool,
    (Builder.new.build ⟨chk⟩ Gen.messageTable Gen.sigTable_glo (.typed 1029 ex1029)).2.isOk = true := by
  decide +kernel
example : TokOK ex1029 := by intro t ht; revert t ht; decide
example : Clean 1029 ex1029 := clean_trivial _ _ (by decide)

/-- the bias entries of the 1059 example: satellites 5 and 2 out of order, recognised GPS signals 1C, 2W, 2C -/
def exBias1059 : List Bias.Entry :=
  [⟨5, 1, 67, 0x3FC00000⟩, ⟨2, 2, 87, 0xBFC00000⟩, ⟨5, 2, 67, 0x3F000000⟩]

/-- a 1059 message value (header, then the bias list) -/
def ex1059 : List Tok :=
  [.int 1000, .int 2, .int 0, .int 1, .int 100, .int 3] ++ biasToks true exBias1059

example : ∀ chk : Bool,
    (Builder.new.build ⟨chk⟩ Gen.messageTable Gen.sigTable_glo (.typed 1059 ex1059)).2.isOk = true := by
  decide +kernel
example : TokOK ex1059 := by intro t ht; revert t ht; decide

/-- the clean-input predicate holds for it: every signal is in the 1059 table -/
example : Clean 1059 ex1059 := by
  unfold Clean
  rw [if_pos rfl]
  exact cleanDfs_of_takeFields _ hdr1059 ex1059 _ (biasToks true exBias1059) (by rfl)
    (cleanBias_biasToks p1059 exBias1059 (by decide))

/-- a 1230 message value: biases for 2P and 1C, listed out of mask order -/
def exBias1230 : List Bias.Entry := [⟨0, 2, 80, 0x3FC00000⟩, ⟨0, 1, 67, 0xBFC00000⟩]
def ex1230 : List Tok := [.int 7, .int 1] ++ biasToks false exBias1230

example : ∀ chk : Bool,
    (Builder.new.build ⟨chk⟩ Gen.messageTable Gen.sigTable_glo (.typed 1230 ex1230)).2.isOk = true := by
  decide +kernel

example : Clean 1230 ex1230 := by
  unfold Clean
  rw [if_neg (by decide), if_neg (by decide), if_pos rfl]
  exact cleanDfs_of_takeFields _ hdr1230 ex1230 _ (biasToks false exBias1230) (by rfl)
    (clean1230_biasToks exBias1230 (by decide) (by decide))

/-- `Regroup` on the 1059 example: satellite 2 first, then the two entries of satellite 5 in their order -/
example : C16.grouped p1059 id exBias1059 =
    [⟨2, 2, 87, 0xBFC00000⟩, ⟨5, 1, 67, 0x3FC00000⟩, ⟨5, 2, 67, 0x3F000000⟩] := by decide +kernel

end Rtcm.C01
