import Rtcm.Model.Message
import Rtcm.Gen.Messages
/-!
# C01  Encode/decode normal form (theorems under construction; see DESIGN.md §6 C01 for the staging)
-/
namespace Rtcm.C01
open Rtcm.Message Rtcm.Schema

/-- a successfully built frame has the message's own number as its table row -/
theorem build_ok_has_row (cfg : Cfg) (tbl : List MsgRow) (glo : SigTable) (b : Builder) (m : Msg) (fr : List Nat)
    (h : (b.build cfg tbl glo m).2 = .ok fr) : ∃ n toks row, m = .typed n toks ∧ findRow tbl n = some row := by
  cases m with
  | empty => simp [Builder.build] at h
  | corrupt => simp [Builder.build] at h
  | notSupported n => simp [Builder.build] at h
  | typed n toks =>
    cases hr : findRow tbl n with
    | none => simp [Builder.build, number, hr] at h
    | some row => exact ⟨n, toks, row, rfl, hr⟩

end Rtcm.C01
