import Rtcm.Model.Text
import Rtcm.Proofs.TextLaws
/-!
# C17  Text fields are preserved exactly or cut on a character boundary
-/
namespace Rtcm.C17
open Rtcm.Text Rtcm.CurLaws Rtcm.TextLaws

/-- Converting a string to a descriptor field keeps its first N characters and stores each
character with code 1..255 as that byte and every other character as 0xA4. -/
theorem df88591_from (N : Nat) (s : List Nat) :
    df88591From N s = (s.take N).map (fun c => if 0 < c ∧ c < 256 then c else 0xA4) := rfl

theorem df88591_from_length (N : Nat) (s : List Nat) : (df88591From N s).length = min N s.length := by
  simp [df88591From]

/-- stored bytes are never zero, so reading the characters back returns the stored mapping -/
theorem df88591_chars_from (N : Nat) (s : List Nat) :
    df88591Chars (df88591From N s) = df88591From N s := by
  unfold df88591Chars df88591From
  rw [List.map_map]
  apply List.map_congr_left
  intro c _
  simp only [Function.comp, toChar, fromChar]
  split <;> split <;> simp_all <;> omega

theorem arrayStringFromAux_length (N : Nat) (s acc : List Nat) (h : acc.length ≤ N) :
    (arrayStringFromAux N s acc).length ≤ N := by
  induction s generalizing acc with
  | nil => simpa [arrayStringFromAux]
  | cons c cs ih =>
    simp only [arrayStringFromAux]
    split
    · exact h
    · apply ih
      have : (utf8Enc c).length = utf8Len c := by
        unfold utf8Enc utf8Len
        repeat' split
        all_goals rfl
      simp only [List.length_append, this]; omega

/-- the UTF-8 text field never exceeds its byte capacity -/
theorem arraystring_from_le_cap (N : Nat) (s : List Nat) : (arrayStringFrom N s).length ≤ N :=
  arrayStringFromAux_length N s [] (by simp)

theorem arrayStringFromAux_prefix (N : Nat) (s acc : List Nat) :
    ∃ k, k ≤ s.length ∧ arrayStringFromAux N s acc = acc ++ (s.take k).flatMap utf8Enc ∧
      (k < s.length → (acc ++ (s.take k).flatMap utf8Enc).length + utf8Len (s.getD k 0) > N) := by
  induction s generalizing acc with
  | nil => exact ⟨0, by simp, by simp [arrayStringFromAux], by simp⟩
  | cons c cs ih =>
    simp only [arrayStringFromAux]
    split
    · next hgt => exact ⟨0, by simp, by simp, fun _ => by simpa using hgt⟩
    · obtain ⟨k, hk, he, hn⟩ := ih (acc ++ utf8Enc c)
      refine ⟨k + 1, by simp; omega, by simp [he], ?_⟩
      intro hlt
      have := hn (by simpa using hlt)
      simpa using this

/-- It keeps the longest prefix of whole characters that fits: the result is the encoding of the
first `k` characters, and either the whole string was taken or character `k` no longer fits. -/
theorem arraystring_from_longest_prefix (N : Nat) (s : List Nat) :
    ∃ k, k ≤ s.length ∧ arrayStringFrom N s = (s.take k).flatMap utf8Enc ∧
      (k < s.length → ((s.take k).flatMap utf8Enc).length + utf8Len (s.getD k 0) > N) := by
  have := arrayStringFromAux_prefix N s []
  simpa [arrayStringFrom] using this

/-- 1029: text of more than 255 bytes or more than 127 characters is refused with an error. -/
theorem text_1029_refused (cfg : Cfg) (bytes : List Nat) (c : Cur)
    (h : bytes.length > 255 ∨ charCount bytes > 127) :
    text1029Encode cfg bytes c = .err .bufferOverflow := by
  simp [text1029Encode, h]

/-- Converting to a UTF-8 text field always yields valid UTF-8 (`core::str::from_utf8` modelled by
core Lean's verified `ByteArray.validateUTF8`): for every string of Unicode scalar values and
every capacity. -/
theorem arraystring_valid_utf8 (N : Nat) (s : List Nat)
    (hs : ∀ c ∈ s, c < 0x110000 ∧ ¬ (0xD800 ≤ c ∧ c ≤ 0xDFFF)) :
    validUtf8 (arrayStringFrom N s) = true := by
  obtain ⟨k, _, he, _⟩ := arraystring_from_longest_prefix N s
  rw [he]
  exact validUtf8_flatMap _ (fun c hc => hs c (List.mem_of_mem_take hc))

/-! ### Descriptor strings through a message (`df_88591_string_with_len!`) -/

/-- with room in the buffer the descriptor encoder succeeds -/
theorem str_encode_ok (cfg : Cfg) (cap lenBits : Nat) (h1 : 1 ≤ lenBits) (h8 : lenBits ≤ 8)
    (hcap : cap < 2 ^ lenBits) (b : List Nat) (hb : ∀ x ∈ b, 1 ≤ x ∧ x ≤ 255)
    (hlen : b.length ≤ cap) (c : Cur) (hg : Good c)
    (hroom : c.off + lenBits + 8 * b.length ≤ 8 * c.data.length) :
    ∃ c', strEncode cfg lenBits b c = .ok c' :=
  strEncode_ok cfg lenBits h1 h8 b (fun x hx => by have := (hb x hx).2; omega) (by omega) c hg hroom

/-- Through a message round trip a descriptor field comes back unchanged: stored bytes `b`
(each 1..=255, at most `cap < 2^lenBits` of them) written at `c` are read back at `c.off` from the
produced buffer, and the reader stops where the writer stopped; no bit outside the field
changed. -/
theorem str_roundtrip (cfg : Cfg) (cap lenBits : Nat) (h1 : 1 ≤ lenBits) (h8 : lenBits ≤ 8)
    (hcap : cap < 2 ^ lenBits) (b : List Nat) (hb : ∀ x ∈ b, 1 ≤ x ∧ x ≤ 255)
    (hlen : b.length ≤ cap) (c c' : Cur) (hg : Good c)
    (h : strEncode cfg lenBits b c = .ok c') :
    strDecode cfg cap lenBits { c' with off := c.off } = .ok (b, c') ∧
    c'.off = c.off + lenBits + 8 * b.length ∧ Ext c c' := by
  obtain ⟨e, o, r⟩ := strEncode_law cfg cap lenBits h1 h8 hcap b hb hlen c c' hg h
  exact ⟨r c'.data rfl (AgreeOn.rfl' _ _ _), o, e⟩

/-- the same, readable after any later writes: in ANY buffer of the same length that agrees with
the produced one on the field's bits -/
theorem str_roundtrip_stable (cfg : Cfg) (cap lenBits : Nat) (h1 : 1 ≤ lenBits) (h8 : lenBits ≤ 8)
    (hcap : cap < 2 ^ lenBits) (b : List Nat) (hb : ∀ x ∈ b, 1 ≤ x ∧ x ≤ 255)
    (hlen : b.length ≤ cap) (c c' : Cur) (hg : Good c)
    (h : strEncode cfg lenBits b c = .ok c') (D : List Nat) (hD : D.length = c'.data.length)
    (ha : AgreeOn D c'.data c.off c'.off) :
    strDecode cfg cap lenBits ⟨D, c.off⟩ = .ok (b, ⟨D, c'.off⟩) :=
  (strEncode_law cfg cap lenBits h1 h8 hcap b hb hlen c c' hg h).2.2 D hD ha

/-- A frame whose length prefix exceeds the capacity decodes to an error (CapacityExceeded, which
the message layer reports as Corrupt): stated on the bits of the buffer. -/
theorem desc_len_above_cap_corrupt (cfg : Cfg) (cap lenBits : Nat) (h1 : 1 ≤ lenBits)
    (h8 : lenBits ≤ 8) (c : Cur) (hroom : c.off + lenBits ≤ 8 * c.data.length)
    (hbad : cap < Bits.fieldValue c.data c.off lenBits) :
    strDecode cfg cap lenBits c = .err .capacityExceeded := by
  unfold strDecode
  rw [parseU_eq, parseF_at cfg ⟨.u, 8⟩ (by decide) (by decide) h1 h8 c.data c.off hroom]
  have e : Bits.readValue ⟨.u, 8⟩ lenBits (Bits.fieldValue c.data c.off lenBits)
      = Bits.fieldValue c.data c.off lenBits := rfl
  simp only [e]
  exact if_pos hbad

/-! ### The 1029 UTF-8 text field through a message -/

/-- Through a message round trip the 1029 text comes back unchanged: valid UTF-8 `b` (at most 255
bytes and 127 characters, else the encoder refuses: `text_1029_refused`) written at `c`, with
the cursor byte-aligned after the 7-bit character count and the 8-bit byte count (as in message
1029, where the field starts at body bit 73), is read back at `c.off` from the produced buffer,
and the reader stops where the writer stopped. -/
theorem text_1029_roundtrip (cfg : Cfg) (b : List Nat) (hb : ∀ x ∈ b, x < 256)
    (hutf : validUtf8 b = true) (c c' : Cur) (hg : Good c) (hal : (c.off + 15) % 8 = 0)
    (h : text1029Encode cfg b c = .ok c') :
    text1029Decode cfg { c' with off := c.off } = .ok (b, c') ∧
    c'.off = c.off + 15 + 8 * b.length ∧ Ext c c' := by
  obtain ⟨e, o, r⟩ := text1029_law cfg b hb hutf c c' hg hal h
  exact ⟨r c'.data rfl e.good (AgreeOn.rfl' _ _ _), o, e⟩

/-- the same, readable after any later writes -/
theorem text_1029_roundtrip_stable (cfg : Cfg) (b : List Nat) (hb : ∀ x ∈ b, x < 256)
    (hutf : validUtf8 b = true) (c c' : Cur) (hg : Good c) (hal : (c.off + 15) % 8 = 0)
    (h : text1029Encode cfg b c = .ok c') (D : List Nat) (hD : D.length = c'.data.length)
    (hDg : ∀ d ∈ D, d < 256) (ha : AgreeOn D c'.data c.off c'.off) :
    text1029Decode cfg ⟨D, c.off⟩ = .ok (b, ⟨D, c'.off⟩) :=
  (text1029_law cfg b hb hutf c c' hg hal h).2.2 D hD hDg ha

/-- with room in the buffer the text encoder succeeds -/
theorem text_1029_encode_ok (cfg : Cfg) (b : List Nat) (hb : ∀ x ∈ b, x < 256)
    (hl : b.length ≤ 255) (hc : charCount b ≤ 127) (c : Cur) (hg : Good c)
    (hroom : c.off + 15 + 8 * b.length ≤ 8 * c.data.length) :
    ∃ c', text1029Encode cfg b c = .ok c' := by
  unfold text1029Encode
  dsimp only
  rw [if_neg (by omega)]
  rcases putF_cases cfg ⟨.u, 8⟩ (by decide) (by decide) (len := 7) (by decide) (by decide) hg
    (show charCount b < 2 ^ 8 by show _ < 256; omega) with ⟨_, c1, h1, o1, e1, _⟩ | ⟨hno, _⟩
  · rw [putU_eq, h1]
    simp only
    rcases putF_cases cfg ⟨.u, 8⟩ (by decide) (by decide) (len := 8) (by decide) (by decide)
      e1.good (show b.length < 2 ^ 8 by show _ < 256; omega) with ⟨_, c2, h2, o2, e2, _⟩ | ⟨hno, _⟩
    · rw [putU_eq, h2]
      simp only
      exact putBytes_ok cfg b c2 e2.good hb (by rw [o2, o1, e2.len, e1.len]; omega)
    · rw [o1, e1.len] at hno; omega
  · omega

/-- A frame whose announced text bytes are not valid UTF-8 decodes to an error
(InvalidUtf8String, which the message layer reports as Corrupt): `len` is the 8-bit byte count on
the wire, the bytes are those from byte index `(c.off + 15) / 8`. -/
theorem invalid_utf8_corrupt (cfg : Cfg) (c : Cur) (hroom : c.off + 15 ≤ 8 * c.data.length)
    (hlen : Bits.fieldValue c.data (c.off + 7) 8 ≤ (c.data.drop ((c.off + 15) / 8)).length)
    (hbad : validUtf8 ((c.data.drop ((c.off + 15) / 8)).take
      (Bits.fieldValue c.data (c.off + 7) 8)) = false) :
    text1029Decode cfg c = .err .invalidUtf8String := by
  unfold text1029Decode
  rw [parseU_eq, parseF_at cfg ⟨.u, 8⟩ (by decide) (by decide) (len := 7) (by decide) (by decide)
    c.data c.off (by omega)]
  simp only
  rw [parseU_eq, parseF_at cfg ⟨.u, 8⟩ (by decide) (by decide) (len := 8) (by decide) (by decide)
    c.data (c.off + 7) (by omega)]
  have e : Bits.readValue ⟨.u, 8⟩ 8 (Bits.fieldValue c.data (c.off + 7) 8)
      = Bits.fieldValue c.data (c.off + 7) 8 := rfl
  have e2 : c.off + 7 + 8 = c.off + 15 := by omega
  simp only [e, e2]
  rw [if_neg (by omega), hbad]
  simp

/-! Non-vacuity -/
example : df88591From 3 [0x41, 0, 0x20AC, 0xE9] = [0x41, 0xA4, 0xA4] := by decide
example : arrayStringFrom 4 [0x41, 0xE9, 0x65E5] = [0x41, 0xC3, 0xA9] := by decide
example : validUtf8 (arrayStringFrom 4 [0x41, 0xE9, 0x65E5]) = true := by decide +kernel

/-- `arraystring_valid_utf8` applied: a 3-byte character that does not fit is cut whole -/
example : validUtf8 (arrayStringFrom 4 [0x41, 0xE9, 0x65E5]) = true :=
  arraystring_valid_utf8 4 _ (by decide)
/-- an astral character (U+1F600) is a scalar value; a surrogate is not in the domain -/
example : validUtf8 (arrayStringFrom 255 [0x1F600, 0x41]) = true :=
  arraystring_valid_utf8 255 _ (by decide)

/-- descriptor "A\u{e9}" in a 5-bit length field at bit offset 3: the encoder succeeds (both
profiles) and the round-trip theorem applies -/
example : ∀ chk : Bool, (match strEncode ⟨chk⟩ 5 [0x41, 0xE9] ⟨List.replicate 4 0, 3⟩ with
    | .ok c' => c'.data == [2, 65, 233, 0] && c'.off == 24
    | _ => false) = true := by decide
example (cfg : Cfg) (c' : Cur) (h : strEncode cfg 5 [0x41, 0xE9] ⟨List.replicate 4 0, 3⟩ = .ok c') :
    strDecode cfg 31 5 { c' with off := 3 } = .ok ([0x41, 0xE9], c') :=
  (str_roundtrip cfg 31 5 (by decide) (by decide) (by decide) _ (by decide) (by decide) _ c'
    (by unfold Good; decide) h).1
/-- a length prefix of 9 against capacity 7 -/
example (cfg : Cfg) : strDecode cfg 7 4 ⟨[0x90, 0, 0, 0, 0, 0, 0, 0, 0, 0], 0⟩ = .err .capacityExceeded :=
  desc_len_above_cap_corrupt cfg 7 4 (by decide) (by decide) _ (by decide) (by decide)

/-- 1029 text "A\u{e9}" (3 bytes, 2 characters) with the field starting at bit 1 -/
example : ∀ chk : Bool, (match text1029Encode ⟨chk⟩ [0x41, 0xC3, 0xA9] ⟨List.replicate 5 0, 1⟩ with
    | .ok c' => c'.data == [2, 3, 0x41, 0xC3, 0xA9] && c'.off == 40
    | _ => false) = true := by decide
example (cfg : Cfg) (c' : Cur)
    (h : text1029Encode cfg [0x41, 0xC3, 0xA9] ⟨List.replicate 5 0, 1⟩ = .ok c') :
    text1029Decode cfg { c' with off := 1 } = .ok ([0x41, 0xC3, 0xA9], c') :=
  (text_1029_roundtrip cfg _ (by decide) (by decide +kernel) _ c' (by unfold Good; decide)
    (by decide) h).1
/-- a lone continuation byte is refused -/
example (cfg : Cfg) : text1029Decode cfg ⟨[2, 2, 0x41, 0xA9], 1⟩ = .err .invalidUtf8String :=
  invalid_utf8_corrupt cfg _ (by decide) (by decide +kernel) (by decide +kernel)

end Rtcm.C17
