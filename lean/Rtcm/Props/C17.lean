import Rtcm.Model.Text
/-!
# C17  Text fields are preserved exactly or cut on a character boundary
-/
namespace Rtcm.C17
open Rtcm.Text

/-- Converting a string to a descriptor field keeps its first N characters and stores each
character with code 1..255 as that byte and every other character as 0xA4. -/
theorem df88591_from (N : Nat) (s : List Nat) :
    df88591From N s = (s.take N).map (fun c => if 0 < c ∧ c < 256 then c else 0xA4) := rfl

theorem df88591_from_length (N : Nat) (s : List Nat) : (df88591From N s).length = min N s.length := by
  simp [df88591From]

/-- stored bytes are never zero, so reading the characters back returns the stored mapping -/
theorem df88591_chars_from (N : Nat) (s : List Nat) :
    df88591Chars (df88591From N s) = df88591From N s := by
  unfold df88591Chars df88591From
  rw [List.map_map]
  apply List.map_congr_left
  intro c _
  simp only [Function.comp, toChar, fromChar]
  split <;> split <;> simp_all <;> omega

theorem arrayStringFromAux_length (N : Nat) (s acc : List Nat) (h : acc.length ≤ N) :
    (arrayStringFromAux N s acc).length ≤ N := by
  induction s generalizing acc with
  | nil => simpa [arrayStringFromAux]
  | cons c cs ih =>
    simp only [arrayStringFromAux]
    split
    · exact h
    · apply ih
      have : (utf8Enc c).length = utf8Len c := by
        unfold utf8Enc utf8Len
        repeat' split
        all_goals rfl
      simp only [List.length_append, this]; omega

/-- the UTF-8 text field never exceeds its byte capacity -/
theorem arraystring_from_le_cap (N : Nat) (s : List Nat) : (arrayStringFrom N s).length ≤ N :=
  arrayStringFromAux_length N s [] (by simp)

theorem arrayStringFromAux_prefix (N : Nat) (s acc : List Nat) :
    ∃ k, k ≤ s.length ∧ arrayStringFromAux N s acc = acc ++ (s.take k).flatMap utf8Enc ∧
      (k < s.length → (acc ++ (s.take k).flatMap utf8Enc).length + utf8Len (s.getD k 0) > N) := by
  induction s generalizing acc with
  | nil => exact ⟨0, by simp, by simp [arrayStringFromAux], by simp⟩
  | cons c cs ih =>
    simp only [arrayStringFromAux]
    split
    · next hgt => exact ⟨0, by simp, by simp, fun _ => by simpa using hgt⟩
    · obtain ⟨k, hk, he, hn⟩ := ih (acc ++ utf8Enc c)
      refine ⟨k + 1, by simp; omega, by simp [he], ?_⟩
      intro hlt
      have := hn (by simpa using hlt)
      simpa using this

/-- It keeps the longest prefix of whole characters that fits: the result is the encoding of the
first `k` characters, and either the whole string was taken or character `k` no longer fits. -/
theorem arraystring_from_longest_prefix (N : Nat) (s : List Nat) :
    ∃ k, k ≤ s.length ∧ arrayStringFrom N s = (s.take k).flatMap utf8Enc ∧
      (k < s.length → ((s.take k).flatMap utf8Enc).length + utf8Len (s.getD k 0) > N) := by
  have := arrayStringFromAux_prefix N s []
  simpa [arrayStringFrom] using this

/-- 1029: text of more than 255 bytes or more than 127 characters is refused with an error. -/
theorem text_1029_refused (cfg : Cfg) (bytes : List Nat) (c : Cur)
    (h : bytes.length > 255 ∨ charCount bytes > 127) :
    text1029Encode cfg bytes c = .err .bufferOverflow := by
  simp [text1029Encode, h]

/-! Non-vacuity -/
example : df88591From 3 [0x41, 0, 0x20AC, 0xE9] = [0x41, 0xA4, 0xA4] := by decide
example : arrayStringFrom 4 [0x41, 0xE9, 0x65E5] = [0x41, 0xC3, 0xA9] := by decide
example : validUtf8 (arrayStringFrom 4 [0x41, 0xE9, 0x65E5]) = true := by decide +kernel

end Rtcm.C17
