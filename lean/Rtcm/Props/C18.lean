import Rtcm.Model.Sig
import Rtcm.Gen.SigTables
/-!
# C18  Signal identifier tables are one-to-one and ordered as on the wire
-/
namespace Rtcm.C18
open Rtcm.Schema Rtcm.Sig

/-- identifiers pairwise distinct, descriptors pairwise distinct, identifiers within 2..=32 -/
def tableOk (t : SigTable) : Bool :=
  decide (t.map (·.1)).Nodup && decide (t.map (·.2)).Nodup && t.all fun r => decide (2 ≤ r.1 ∧ r.1 ≤ 32)

theorem tables_ok : Gen.sigTables.all (fun t => tableOk t.2) = true := by decide +kernel

/-- seven constellations -/
theorem seven_tables : Gen.sigTables.map (·.1) = ["gps", "glo", "gal", "sbas", "qzss", "bds", "navic"] := by
  decide +kernel

/-- both directions of the mapping agree row by row (first-match lookup finds the row itself) -/
def roundTrips (t : SigTable) : Bool :=
  t.all fun r => toSig t r.1 == some r.2 && toId t r.2.1 r.2.2 == some r.1

theorem tables_round_trip : Gen.sigTables.all (fun t => roundTrips t.2) = true := by decide +kernel

/-- a descriptor is valid exactly when it is in the table -/
theorem valid_iff_in_table (t : SigTable) (band attr : Nat) :
    isValid t band attr = true ↔ ∃ id, (id, band, attr) ∈ t := by
  unfold isValid toId
  rw [Option.isSome_map, List.find?_isSome]
  constructor
  · rintro ⟨r, hr, h⟩
    simp only [Bool.and_eq_true, beq_iff_eq] at h
    exact ⟨r.1, by obtain ⟨a, b, c⟩ := r; simp_all⟩
  · rintro ⟨id, h⟩
    exact ⟨(id, band, attr), h, by simp⟩

theorem toId_mem (t : SigTable) (band attr id : Nat) (h : toId t band attr = some id) :
    (id, band, attr) ∈ t := by
  unfold toId at h
  rw [Option.map_eq_some_iff] at h
  obtain ⟨r, hf, rfl⟩ := h
  have hm := List.mem_of_find?_eq_some hf
  have hp := List.find?_some hf
  simp only [Bool.and_eq_true, beq_iff_eq] at hp
  obtain ⟨a, b, c⟩ := r
  simp_all

theorem nodup_map_inj {α β} (f : α → β) (l : List α) (h : (l.map f).Nodup) (x y : α)
    (hx : x ∈ l) (hy : y ∈ l) (hf : f x = f y) : x = y := by
  induction l with
  | nil => cases hx
  | cons z zs ih =>
    simp only [List.map_cons, List.nodup_cons, List.mem_map, not_exists, not_and] at h
    rcases List.mem_cons.mp hx with rfl | hx' <;> rcases List.mem_cons.mp hy with rfl | hy'
    · rfl
    · exact absurd hf.symm (h.1 y hy')
    · exact absurd hf (h.1 x hx')
    · exact ih h.2 hx' hy'

/-- with distinct identifiers, `to_id` is injective on recognised descriptors -/
theorem toId_injective (t : SigTable) (hnd : (t.map (·.1)).Nodup) (a b : Nat × Nat) (i : Nat)
    (ha : toId t a.1 a.2 = some i) (hb : toId t b.1 b.2 = some i) : a = b := by
  have h1 := toId_mem t _ _ _ ha
  have h2 := toId_mem t _ _ _ hb
  have := nodup_map_inj (·.1) t hnd _ _ h1 h2 rfl
  simp only [Prod.mk.injEq, true_and] at this
  exact Prod.ext this.1 this.2

/-- recognised descriptors compare in the order of their positions -/
theorem cmp_matches_id_order (t : SigTable) (a b : Nat × Nat) (i j : Nat)
    (ha : toId t a.1 a.2 = some i) (hb : toId t b.1 b.2 = some j) : cmp t a b = compare i j := by
  simp [cmp, ha, hb]

/-- `partial_cmp` is defined exactly when both descriptors are recognised, and then agrees with `cmp` -/
theorem partial_cmp_consistent (t : SigTable) (a b : Nat × Nat) :
    (partialCmp t a b = none ↔ (isValid t a.1 a.2 && isValid t b.1 b.2) = false) ∧
    (∀ o, partialCmp t a b = some o → cmp t a b = o) := by
  unfold partialCmp cmp isValid
  cases toId t a.1 a.2 <;> cases toId t b.1 b.2 <;> simp

/-- every recognised descriptor sorts before every unrecognised one -/
theorem recognised_before_unrecognised (t : SigTable) (a b : Nat × Nat) (i : Nat)
    (ha : toId t a.1 a.2 = some i) (hb : toId t b.1 b.2 = none) :
    cmp t a b = .lt ∧ cmp t b a = .gt := by
  simp [cmp, ha, hb]

/-- sort key: recognised descriptors by position first, the others by (band, attribute) -/
def key (t : SigTable) (a : Nat × Nat) : Nat × Nat × Nat :=
  match toId t a.1 a.2 with
  | some i => (0, i, 0)
  | none => (1, a.1, a.2)

def lex3 (x y : Nat × Nat × Nat) : Ordering :=
  match compare x.1 y.1 with
  | .lt => .lt
  | .gt => .gt
  | .eq => match compare x.2.1 y.2.1 with
    | .lt => .lt
    | .gt => .gt
    | .eq => compare x.2.2 y.2.2

/-- the comparison is the lexicographic order of the keys -/
theorem cmp_eq_lex (t : SigTable) (a b : Nat × Nat) : cmp t a b = lex3 (key t a) (key t b) := by
  unfold cmp key lex3
  cases ha : toId t a.1 a.2 with
  | none =>
    cases hb : toId t b.1 b.2 with
    | none => simp only []; cases compare a.1 b.1 <;> rfl
    | some j => rfl
  | some i =>
    cases hb : toId t b.1 b.2 with
    | none => rfl
    | some j => simp only []; cases compare i j <;> rfl

theorem lex3_eq_iff (x y : Nat × Nat × Nat) : lex3 x y = .eq ↔ x = y := by
  obtain ⟨a, b, c⟩ := x; obtain ⟨d, e, f⟩ := y
  simp only [lex3]
  rcases Nat.lt_trichotomy a d with h | h | h
  · simp [Nat.compare_eq_lt.mpr h]; omega
  · subst h
    simp only [Nat.compare_eq_eq.mpr rfl]
    rcases Nat.lt_trichotomy b e with h | h | h
    · simp [Nat.compare_eq_lt.mpr h]; omega
    · subst h; simp [Nat.compare_eq_eq]
    · simp [Nat.compare_eq_gt.mpr h]; omega
  · simp [Nat.compare_eq_gt.mpr h]; omega

theorem lex3_lt_iff (x y : Nat × Nat × Nat) :
    lex3 x y = .lt ↔ (x.1 < y.1 ∨ (x.1 = y.1 ∧ (x.2.1 < y.2.1 ∨ (x.2.1 = y.2.1 ∧ x.2.2 < y.2.2)))) := by
  obtain ⟨a, b, c⟩ := x; obtain ⟨d, e, f⟩ := y
  simp only [lex3]
  rcases Nat.lt_trichotomy a d with h | h | h
  · simp [Nat.compare_eq_lt.mpr h, h]
  · subst h
    simp only [Nat.compare_eq_eq.mpr rfl]
    rcases Nat.lt_trichotomy b e with h | h | h
    · simp [Nat.compare_eq_lt.mpr h, h]
    · subst h; simp [Nat.compare_eq_lt]
    · simp [Nat.compare_eq_gt.mpr h]; omega
  · simp [Nat.compare_eq_gt.mpr h]; omega

theorem lex3_swap (x y : Nat × Nat × Nat) : lex3 y x = (lex3 x y).swap := by
  obtain ⟨a, b, c⟩ := x; obtain ⟨d, e, f⟩ := y
  simp only [lex3]
  rw [← Nat.compare_swap a d, ← Nat.compare_swap b e, ← Nat.compare_swap c f]
  cases compare a d <;> simp [Ordering.swap]
  cases compare b e <;> simp [Ordering.swap]

/-- `cmp` is a consistent total order on descriptors: reflexive, antisymmetric (equal only when
identical), transitive, and total with swapped results for swapped arguments. -/
theorem cmp_total_order (t : SigTable) (hnd : (t.map (·.1)).Nodup) :
    (∀ a, cmp t a a = .eq) ∧
    (∀ a b, cmp t a b = .eq → a = b) ∧
    (∀ a b, cmp t b a = (cmp t a b).swap) ∧
    (∀ a b c, cmp t a b = .lt → cmp t b c = .lt → cmp t a c = .lt) := by
  refine ⟨fun a => ?_, fun a b h => ?_, fun a b => ?_, fun a b c h1 h2 => ?_⟩
  · rw [cmp_eq_lex, lex3_eq_iff]
  · rw [cmp_eq_lex, lex3_eq_iff] at h
    unfold key at h
    cases ha : toId t a.1 a.2 <;> cases hb : toId t b.1 b.2 <;> simp [ha, hb] at h
    · exact Prod.ext h.1 h.2
    · subst h; exact toId_injective t hnd a b _ ha hb
  · rw [cmp_eq_lex, cmp_eq_lex, lex3_swap]
  · rw [cmp_eq_lex, lex3_lt_iff] at *
    omega

/-- instantiated for the seven regenerated tables -/
theorem cmp_total_order_tables :
    ∀ t ∈ Gen.sigTables, (∀ a, cmp t.2 a a = .eq) ∧ (∀ a b, cmp t.2 a b = .eq → a = b) ∧
      (∀ a b, cmp t.2 b a = (cmp t.2 a b).swap) ∧
      (∀ a b c, cmp t.2 a b = .lt → cmp t.2 b c = .lt → cmp t.2 a c = .lt) := by
  intro t ht
  apply cmp_total_order
  have h := tables_ok
  rw [List.all_eq_true] at h
  have := h t ht
  simp only [tableOk, Bool.and_eq_true, decide_eq_true_eq] at this
  exact this.1.1

/-! ### the standardised positions (RTCM 10403.3 MSM signal tables / RINEX 3 codes), written out here
independently of the source; each must occur in the regenerated table (adding a signal to the crate
is not an alarm, moving one is). `(id, band, attribute)`. -/
def refGps : SigTable := [(2,1,'C'.toNat),(3,1,'P'.toNat),(4,1,'W'.toNat),(8,2,'C'.toNat),(9,2,'P'.toNat),
  (10,2,'W'.toNat),(15,2,'S'.toNat),(16,2,'L'.toNat),(17,2,'X'.toNat),(22,5,'I'.toNat),(23,5,'Q'.toNat),
  (24,5,'X'.toNat),(30,1,'S'.toNat),(31,1,'L'.toNat),(32,1,'X'.toNat)]
def refGlo : SigTable := [(2,1,'C'.toNat),(3,1,'P'.toNat),(8,2,'C'.toNat),(9,2,'P'.toNat)]
def refGal : SigTable := [(2,1,'C'.toNat),(3,1,'A'.toNat),(4,1,'B'.toNat),(5,1,'X'.toNat),(6,1,'Z'.toNat),
  (8,6,'C'.toNat),(9,6,'A'.toNat),(10,6,'B'.toNat),(11,6,'X'.toNat),(12,6,'Z'.toNat),(14,7,'I'.toNat),
  (15,7,'Q'.toNat),(16,7,'X'.toNat),(18,8,'I'.toNat),(19,8,'Q'.toNat),(20,8,'X'.toNat),(22,5,'I'.toNat),
  (23,5,'Q'.toNat),(24,5,'X'.toNat)]
def refSbas : SigTable := [(2,1,'C'.toNat),(22,5,'I'.toNat),(23,5,'Q'.toNat),(24,5,'X'.toNat)]
def refQzss : SigTable := [(2,1,'C'.toNat),(9,6,'S'.toNat),(10,6,'L'.toNat),(11,6,'X'.toNat),(15,2,'S'.toNat),
  (16,2,'L'.toNat),(17,2,'X'.toNat),(22,5,'I'.toNat),(23,5,'Q'.toNat),(24,5,'X'.toNat),(30,1,'S'.toNat),
  (31,1,'L'.toNat),(32,1,'X'.toNat)]
def refBds : SigTable := [(2,2,'I'.toNat),(3,2,'Q'.toNat),(4,2,'X'.toNat),(8,6,'I'.toNat),(9,6,'Q'.toNat),
  (10,6,'X'.toNat),(14,7,'I'.toNat),(15,7,'Q'.toNat),(16,7,'X'.toNat),(22,5,'D'.toNat),(23,5,'P'.toNat),
  (24,5,'X'.toNat),(25,7,'D'.toNat),(30,1,'D'.toNat),(31,1,'P'.toNat),(32,1,'X'.toNat)]
def refNavic : SigTable := [(22,5,'A'.toNat)]

def subsetOf (ref t : SigTable) : Bool := ref.all fun r => t.contains r

theorem standard_positions :
    subsetOf refGps Gen.sigTable_gps ∧ subsetOf refGlo Gen.sigTable_glo ∧ subsetOf refGal Gen.sigTable_gal ∧
    subsetOf refSbas Gen.sigTable_sbas ∧ subsetOf refQzss Gen.sigTable_qzss ∧ subsetOf refBds Gen.sigTable_bds ∧
    subsetOf refNavic Gen.sigTable_navic := by decide +kernel

/-! Non-vacuity: the examples named in the property -/
example : toId Gen.sigTable_gps 1 'C'.toNat = some 2 ∧ toId Gen.sigTable_gps 2 'W'.toNat = some 10 ∧
    toId Gen.sigTable_gps 5 'X'.toNat = some 24 := by decide +kernel
example : toId Gen.sigTable_glo 1 'C'.toNat = some 2 ∧ toId Gen.sigTable_glo 1 'P'.toNat = some 3 ∧
    toId Gen.sigTable_glo 2 'C'.toNat = some 8 ∧ toId Gen.sigTable_glo 2 'P'.toNat = some 9 := by decide +kernel

end Rtcm.C18
