import Rtcm.Model.Size
import Rtcm.Gen.Messages
import Rtcm.Model.Message
import Rtcm.Proofs.InterpList
import Rtcm.Proofs.InterpFrame
import Rtcm.Props.C07
/-!
# C15  Lists of every admissible length survive; counts and capacities agree

Static part (kernel evaluation over the generated message table):
* `list_fits`: every list-bearing message fits the payload at full capacity;
* `count_fields_wide_enough`, `count_fields_plain`: every count field is wide enough for its
  capacity and is a plain unsigned field.

Dynamic part, about the list combinators of the one interpreter (`Interp.decFrag` / `Interp.encFrag`
on `.vecWithLen` = `frag_vec_with_len!`, `.lenMiddle` = `msg_len_middle!`, `.str` =
`df_88591_string_with_len!`), generic in the element layout and the build profile:
* (a) `count_above_cap_corrupt`, `…_lenMiddle`, `…_str`, `decodeFrame_corrupt_of_err`,
  `count_above_cap_message_corrupt`: a count above the capacity is `CapacityExceeded`, hence `Corrupt`;
* (b) `vec_decode_count`, `lenMiddle_decode_count`, `grid16_decode_count`: a successful decode
  yields the count `n ≤ cap` found on the wire followed by exactly `n` element decodes;
* (c) `count_on_wire`, `count_on_wire_str`, `count_on_wire_lenMiddle` (`'`), `count_agrees`: in the
  buffer resulting from a successful encode of the whole list the count field holds the number of
  elements (uses `Interp.encFrag_below`: encoders never write before their cursor);
* (d) `decRepeat_all_elements`, `decRepeat_first_error`, `truncated_body_corrupt` (`_lenMiddle`),
  `vec_ok_no_element_fails`, `df_truncated`, `truncated_fixed_not_ok`, `vec_fixed_size`,
  `truncated_message_corrupt`: the first failing element decides the result; a body that ends
  before the last element is never accepted as a shorter list.
-/
namespace Rtcm.C15
open Rtcm.Schema Rtcm.Size Rtcm.Interp Rtcm.Message

/-- Every list-bearing message (MSM and bias structures excluded) fits the 1023-byte payload at full
capacity: 12 bits of message number + the layout's maximal size ≤ 8184 bits. -/
theorem list_fits :
    Gen.messageTable.all (fun r => !plain r.frag || decide (12 + maxBits r.frag ≤ 8184)) = true := by
  decide +kernel

/-- Every count field is wide enough for the capacity of its list or string, so the count written
on the wire equals the number of elements (no wrap), and count fields carry no scaling, bias or
invalid marker. -/
theorem count_fields_wide_enough : Gen.messageTable.all (fun r => countsFit r.frag) = true := by
  decide +kernel

/-- the largest list-bearing message at capacity -/
example : (Gen.messageTable.filter (fun r => plain r.frag)).foldl (fun m r => max m (12 + maxBits r.frag)) 0 ≤ 8184 := by
  decide +kernel

/-! ## The list combinators of the interpreter

Generic in the element layout `elem : Frag` (hence in the element codec `decFrag cfg elem` /
`encFrag cfg glo elem`) and in the build profile `cfg`.
`Steps f n c ps c'` (Proofs/InterpList.lean): `n` consecutive successful element decodes from cursor
`c` to `c'`, with token groups `ps` (one per element, `ps.length = n`). -/

/-! ### (a) a count above the capacity is answered with `CapacityExceeded`, i.e. `Message::Corrupt` -/

/-- `frag_vec_with_len!`: the `lenBits`-bit count read at the cursor exceeds the capacity -/
theorem count_above_cap_corrupt (cfg : Cfg) (elem : Frag) (cap lenBits : Nat) (c : Cur) (n o : Nat)
    (hcount : Bits.parse cfg ⟨.u, 16⟩ c.data c.off lenBits = .ok (n, o)) (hn : cap < n) :
    decFrag cfg (.vecWithLen elem cap lenBits) c = .err .capacityExceeded := by
  unfold decFrag
  simp only [hcount, gt_iff_lt, hn, if_true]

/-- `msg_len_middle!`: the count field (decoded between `fields1` and `fields2`) exceeds the
capacity; the test happens after `fields2` has been decoded -/
theorem count_above_cap_corrupt_lenMiddle (cfg : Cfg) (f1 f2 : Fields) (lenDf : DfSpec) (elem : Frag)
    (cap : Nat) (c c1 c2 c3 : Cur) (t1 t2 : List Tok) (n : Int)
    (h1 : decFields cfg f1 c = .ok (t1, c1))
    (hcount : Df.decode cfg lenDf c1 = .ok ([.int n], c2))
    (h2 : decFields cfg f2 c2 = .ok (t2, c3)) (hn : cap < n.toNat) :
    decFrag cfg (.lenMiddle f1 lenDf f2 elem cap) c = .err .capacityExceeded := by
  unfold decFrag
  simp only [h1, hcount, h2, gt_iff_lt, hn, if_true]

/-- `df_88591_string_with_len!`: the length prefix exceeds the capacity -/
theorem count_above_cap_corrupt_str (cfg : Cfg) (cap lenBits : Nat) (c c1 : Cur) (len : Nat)
    (hcount : Text.parseU cfg 8 lenBits c = .ok (len, c1)) (hn : cap < len) :
    Text.strDecode cfg cap lenBits c = .err .capacityExceeded ∧
    decFrag cfg (.str cap lenBits) c = .err .capacityExceeded := by
  have h : Text.strDecode cfg cap lenBits c = .err .capacityExceeded := by
    unfold Text.strDecode
    simp only [hcount, gt_iff_lt, hn, if_true]
  refine ⟨h, ?_⟩
  unfold decFrag
  simp only [h]

/-- every decode error of the body becomes `Message::Corrupt` in `Message::from_message_frame` -/
theorem decodeFrame_corrupt_of_err (cfg : Cfg) (tbl : List MsgRow) (f : Frame) (n : Nat) (row : MsgRow)
    (e : RtcmError) (hnum : f.number = some n) (hrow : findRow tbl n = some row)
    (herr : decFrag cfg row.frag { data := f.data.map (·.toNat), off := 12 } = .err e) :
    decodeFrame cfg tbl f = .ok .corrupt := by
  unfold decodeFrame
  simp only [hnum, hrow, herr]

/-- (a) at message level: a frame whose body is a `frag_vec_with_len!` list with a count above the
capacity decodes to `Corrupt` -/
theorem count_above_cap_message_corrupt (cfg : Cfg) (tbl : List MsgRow) (f : Frame) (num : Nat) (row : MsgRow)
    (elem : Frag) (cap lenBits n o : Nat)
    (hnum : f.number = some num) (hrow : findRow tbl num = some row)
    (hfrag : row.frag = .vecWithLen elem cap lenBits)
    (hcount : Bits.parse cfg ⟨.u, 16⟩ (f.data.map (·.toNat)) 12 lenBits = .ok (n, o)) (hn : cap < n) :
    decodeFrame cfg tbl f = .ok .corrupt := by
  apply decodeFrame_corrupt_of_err cfg tbl f num row .capacityExceeded hnum hrow
  rw [hfrag]
  exact count_above_cap_corrupt cfg elem cap lenBits _ n o hcount hn

/-! ### (b) a successful list decode: the count, then exactly that many elements -/

/-- `frag_vec_with_len!`: the tokens are `count n` followed by the tokens of exactly `n` element
decodes, where `n ≤ cap` is the value of the count field at the cursor -/
theorem vec_decode_count (cfg : Cfg) (elem : Frag) (cap lenBits : Nat) (c c' : Cur) (toks : List Tok)
    (h : decFrag cfg (.vecWithLen elem cap lenBits) c = .ok (toks, c')) :
    ∃ n o ps, Bits.parse cfg ⟨.u, 16⟩ c.data c.off lenBits = .ok (n, o) ∧ n ≤ cap ∧
      Steps (decFrag cfg elem) n { c with off := o } ps c' ∧ ps.length = n ∧
      decRepeat (decFrag cfg elem) n { c with off := o } = .ok (ps.flatten, c') ∧
      toks = .count n :: ps.flatten := by
  unfold decFrag at h
  split at h
  · next n o hp =>
    split at h
    · simp at h
    · next hle =>
      split at h
      · next te c2 hr =>
        simp only [Res.ok.injEq, Prod.mk.injEq] at h
        obtain ⟨rfl, rfl⟩ := h
        obtain ⟨ps, hs, rfl⟩ := decRepeat_ok_iff.1 hr
        exact ⟨n, o, ps, hp, by omega, hs, hs.length, hr, rfl⟩
      · simp at h
      · simp at h
  · simp at h
  · simp at h

/-- `msg_len_middle!`: the tokens are those of `fields1`, `count n`, those of `fields2`, then the
tokens of exactly `n` element decodes, where `n ≤ cap` is the value of the count field -/
theorem lenMiddle_decode_count (cfg : Cfg) (f1 f2 : Fields) (lenDf : DfSpec) (elem : Frag) (cap : Nat)
    (c c' : Cur) (toks : List Tok)
    (h : decFrag cfg (.lenMiddle f1 lenDf f2 elem cap) c = .ok (toks, c')) :
    ∃ (t1 t2 : List Tok) (c1 c2 c3 : Cur) (n : Int) (ps : List (List Tok)),
      decFields cfg f1 c = .ok (t1, c1) ∧ Df.decode cfg lenDf c1 = .ok ([.int n], c2) ∧
      decFields cfg f2 c2 = .ok (t2, c3) ∧ n.toNat ≤ cap ∧
      Steps (decFrag cfg elem) n.toNat c3 ps c' ∧ ps.length = n.toNat ∧
      toks = t1 ++ [.count n.toNat] ++ t2 ++ ps.flatten := by
  unfold decFrag at h
  split at h
  · next t1 c1 h1 =>
    split at h
    · next n c2 hc =>
      split at h
      · next t2 c3 h2 =>
        split at h
        · simp at h
        · next hle =>
          split at h
          · next te c4 hr =>
            simp only [Res.ok.injEq, Prod.mk.injEq] at h
            obtain ⟨rfl, rfl⟩ := h
            obtain ⟨ps, hs, rfl⟩ := decRepeat_ok_iff.1 hr
            exact ⟨t1, t2, c1, c2, c3, n, ps, h1, hc, h2, by omega, hs, hs.length, rfl⟩
          · simp at h
          · simp at h
      · simp at h
      · simp at h
    · simp at h
    · simp at h
    · simp at h
  · simp at h
  · simp at h

/-- `frag_grid16p!`: exactly 16 elements -/
theorem grid16_decode_count (cfg : Cfg) (elem : Frag) (c c' : Cur) (toks : List Tok)
    (h : decFrag cfg (.grid16 elem) c = .ok (toks, c')) :
    ∃ ps, Steps (decFrag cfg elem) 16 c ps c' ∧ ps.length = 16 ∧ toks = ps.flatten := by
  unfold decFrag at h
  obtain ⟨ps, hs, rfl⟩ := decRepeat_ok_iff.1 h
  exact ⟨ps, hs, hs.length, rfl⟩

/-! ### (d) a body that ends before the last element is never accepted with fewer elements -/

/-- generic: a list decode that succeeds has decoded all `n` elements (no early `Ok`) -/
theorem decRepeat_all_elements (f : Dec) (n : Nat) (c c' : Cur) (ts : List Tok)
    (h : decRepeat f n c = .ok (ts, c')) :
    ∃ ps, Steps f n c ps c' ∧ ps.length = n ∧ ts = ps.flatten := by
  obtain ⟨ps, hs, rfl⟩ := decRepeat_ok_iff.1 h
  exact ⟨ps, hs, hs.length, rfl⟩

/-- generic: if element `k < n` (after `k` successful ones) fails with an error, the list fails with
that error -/
theorem decRepeat_first_error (f : Dec) (n k : Nat) (c ck : Cur) (ps : List (List Tok)) (e : RtcmError)
    (hk : k < n) (hs : Steps f k c ps ck) (hfail : f ck = .err e) : decRepeat f n c = .err e := by
  have : n = k + 1 + (n - k - 1) := by omega
  rw [this]
  exact decRepeat_err_of_steps hs hfail _

/-- `frag_vec_with_len!`: if the `k`-th element (`k < n`, `n` the count on the wire) fails — in
particular with `BufferOverflow` because the buffer ends inside it — the whole fragment is an error:
`CapacityExceeded` if the count is above the capacity, the element's error otherwise. -/
theorem truncated_body_corrupt (cfg : Cfg) (elem : Frag) (cap lenBits : Nat) (c ck : Cur) (n o k : Nat)
    (ps : List (List Tok)) (e : RtcmError)
    (hcount : Bits.parse cfg ⟨.u, 16⟩ c.data c.off lenBits = .ok (n, o)) (hk : k < n)
    (hs : Steps (decFrag cfg elem) k { c with off := o } ps ck)
    (hfail : decFrag cfg elem ck = .err e) :
    decFrag cfg (.vecWithLen elem cap lenBits) c = .err (if cap < n then .capacityExceeded else e) := by
  by_cases hn : cap < n
  · rw [if_pos hn]
    exact count_above_cap_corrupt cfg elem cap lenBits c n o hcount hn
  · rw [if_neg hn]
    unfold decFrag
    simp only [hcount, gt_iff_lt, hn, if_false,
      decRepeat_first_error (decFrag cfg elem) n k _ ck ps e hk hs hfail]

/-- the same for `msg_len_middle!` -/
theorem truncated_body_corrupt_lenMiddle (cfg : Cfg) (f1 f2 : Fields) (lenDf : DfSpec) (elem : Frag)
    (cap : Nat) (c c1 c2 c3 ck : Cur) (t1 t2 : List Tok) (n : Int) (k : Nat) (ps : List (List Tok))
    (e : RtcmError)
    (h1 : decFields cfg f1 c = .ok (t1, c1))
    (hcount : Df.decode cfg lenDf c1 = .ok ([.int n], c2))
    (h2 : decFields cfg f2 c2 = .ok (t2, c3)) (hk : k < n.toNat)
    (hs : Steps (decFrag cfg elem) k c3 ps ck) (hfail : decFrag cfg elem ck = .err e) :
    decFrag cfg (.lenMiddle f1 lenDf f2 elem cap) c
      = .err (if cap < n.toNat then .capacityExceeded else e) := by
  by_cases hn : cap < n.toNat
  · rw [if_pos hn]
    exact count_above_cap_corrupt_lenMiddle cfg f1 f2 lenDf elem cap c c1 c2 c3 t1 t2 n h1 hcount h2 hn
  · rw [if_neg hn]
    unfold decFrag
    simp only [h1, hcount, h2, gt_iff_lt, hn, if_false,
      decRepeat_first_error (decFrag cfg elem) n.toNat k _ ck ps e hk hs hfail]

/-- hence: `Ok` is only possible if no element fails, and then the list has exactly `n` elements
(this is `vec_decode_count`); a truncated body can never produce a shorter list. -/
theorem vec_ok_no_element_fails (cfg : Cfg) (elem : Frag) (cap lenBits : Nat) (c c' ck : Cur) (toks : List Tok)
    (n o k : Nat) (ps : List (List Tok))
    (h : decFrag cfg (.vecWithLen elem cap lenBits) c = .ok (toks, c'))
    (hcount : Bits.parse cfg ⟨.u, 16⟩ c.data c.off lenBits = .ok (n, o)) (hk : k < n)
    (hs : Steps (decFrag cfg elem) k { c with off := o } ps ck) :
    ∃ t ck', decFrag cfg elem ck = .ok (t, ck') := by
  cases hf : decFrag cfg elem ck with
  | ok r => exact ⟨r.1, r.2, rfl⟩
  | err e =>
    rw [truncated_body_corrupt cfg elem cap lenBits c ck n o k ps e hcount hk hs hf] at h
    simp at h
  | panic w =>
    exfalso
    unfold decFrag at h
    have : n = k + 1 + (n - k - 1) := by omega
    rw [hcount] at h
    simp only [] at h
    rw [this, decRepeat_panic_of_steps hs hf] at h
    split at h <;> simp at h

/-- the leaf case that makes a truncated element fail: a data field that would extend past the end
of the buffer reports `BufferOverflow` (C07 `parse_overflow_error`) -/
theorem df_truncated (cfg : Cfg) (s : DfSpec) (c : Cur) (h : c.data.length * 8 < c.off + s.len) :
    decFrag cfg (.df s) c = .err .bufferOverflow := by
  unfold decFrag Df.decode
  rw [C07.parse_overflow_error cfg s.it c.data c.off s.len h]

/-- (d) made concrete for fixed-size elements (`dfOnly`: data fields, sequences and 16-grids of
them; size `maxBits elem > 0`): if the buffer ends before the end of the `n`-th element, where `n`
is the count on the wire, the decode is never `Ok` — in particular never a shorter list. -/
theorem truncated_fixed_not_ok (cfg : Cfg) (elem : Frag) (cap lenBits : Nat) (c : Cur) (n o : Nat)
    (hd : dfOnly elem = true)
    (hcount : Bits.parse cfg ⟨.u, 16⟩ c.data c.off lenBits = .ok (n, o))
    (hshort : 8 * c.data.length < o + n * maxBits elem) :
    (decFrag cfg (.vecWithLen elem cap lenBits) c).isOk = false := by
  cases hres : decFrag cfg (.vecWithLen elem cap lenBits) c with
  | err e => rfl
  | panic w => rfl
  | ok r =>
    exfalso
    obtain ⟨toks, c'⟩ := r
    obtain ⟨n', o', ps, hp, _, _, _, hr, _⟩ := vec_decode_count cfg elem cap lenBits c c' toks hres
    rw [hcount] at hp
    simp only [Res.ok.injEq, Prod.mk.injEq] at hp
    obtain ⟨rfl, rfl⟩ := hp
    obtain ⟨_, hfit⟩ := parse_ok_cursor hcount
    obtain ⟨_, hoff, hin⟩ := decRepeat_fixed (fun c t c' h => decFrag_fixed cfg elem c c' t hd h) _ _ _ _ hr
    simp only at hoff hin
    obtain ⟨ho, _⟩ := parse_ok_cursor hcount
    rcases hin with h0 | hle
    · rw [h0] at hshort; omega
    · omega

/-- a successful decode of a list of fixed-size elements consumed exactly
`lenBits + n * maxBits elem` bits, all inside the buffer -/
theorem vec_fixed_size (cfg : Cfg) (elem : Frag) (cap lenBits : Nat) (c c' : Cur) (toks : List Tok)
    (hd : dfOnly elem = true)
    (h : decFrag cfg (.vecWithLen elem cap lenBits) c = .ok (toks, c')) :
    ∃ n ps, toks = .count n :: List.flatten ps ∧ ps.length = n ∧ n ≤ cap ∧
      c'.off = c.off + lenBits + n * maxBits elem ∧ c'.off ≤ 8 * c.data.length ∧ c'.data = c.data := by
  obtain ⟨n, o, ps, hp, hn, _, hlen, hr, ht⟩ := vec_decode_count cfg elem cap lenBits c c' toks h
  obtain ⟨ho, hfit⟩ := parse_ok_cursor hp
  obtain ⟨hdat, hoff, hin⟩ := decRepeat_fixed (fun c t c' h => decFrag_fixed cfg elem c c' t hd h) _ _ _ _ hr
  simp only at hoff hin hdat
  refine ⟨n, ps, ht, hlen, hn, by omega, ?_, hdat⟩
  rcases hin with h0 | hle
  · rw [h0] at hoff; omega
  · exact hle

/-- message level: a truncated list body gives `Message::Corrupt` -/
theorem truncated_message_corrupt (cfg : Cfg) (tbl : List MsgRow) (f : Frame) (num : Nat) (row : MsgRow)
    (elem : Frag) (cap lenBits n o k : Nat) (ps : List (List Tok)) (ck : Cur) (e : RtcmError)
    (hnum : f.number = some num) (hrow : findRow tbl num = some row)
    (hfrag : row.frag = .vecWithLen elem cap lenBits)
    (hcount : Bits.parse cfg ⟨.u, 16⟩ (f.data.map (·.toNat)) 12 lenBits = .ok (n, o)) (hk : k < n)
    (hs : Steps (decFrag cfg elem) k { data := f.data.map (·.toNat), off := o } ps ck)
    (hfail : decFrag cfg elem ck = .err e) :
    decodeFrame cfg tbl f = .ok .corrupt := by
  apply decodeFrame_corrupt_of_err cfg tbl f num row _ hnum hrow
  rw [hfrag]
  exact truncated_body_corrupt cfg elem cap lenBits _ ck n o k ps e hcount hk hs hfail

/-! ### (c) the count on the wire is the number of elements

Full statement (not only "right after the count write"): in the buffer that results from encoding
the *whole* list, the `lenBits` bits at the list's start read back as `n`. This uses
`Interp.encFrag_below` (Proofs/InterpFrame.lean): every encoder of the interpreter leaves all bits
before its cursor unchanged. "Buffer large enough" is not a hypothesis: it follows from the
encoder having succeeded. -/

/-- A field written by `put` reads back from every later buffer that has the same length and agrees
with the buffer right after the write on all bits before the field's end. -/
theorem field_survives (cfg : Cfg) (it : Bits.IT) (data : List Nat) (off v len : Nat) (d : List Nat) (o : Nat)
    (data' : List Nat) (hw8 : 8 ≤ it.w) (hw64 : it.w ≤ 64) (h1 : 1 ≤ len) (hlw : len ≤ it.w)
    (hdata : ∀ x ∈ data, x < 256) (hv : v < 2 ^ it.w) (hrep : Bits.Representable it len v)
    (hput : Bits.put cfg it data off v len = .ok (d, o))
    (hlen : data'.length = d.length) (hbits : ∀ g, g < o → Bits.bitAt data' g = Bits.bitAt d g) :
    Bits.parse cfg it data' off len = .ok (v, off + len) := by
  have hfit : off + len ≤ 8 * data.length := by
    apply Decidable.byContradiction
    intro hnot
    rw [C07.put_overflow_error cfg it data off v len (by omega)] at hput
    simp at hput
  have hdl := Bits.put_length hput
  obtain ⟨ho, _⟩ := Bits.put_below hput
  have hparse := C07.parse_put cfg it data off v len hw8 hw64 h1 hlw hdata hfit hv hrep d o hput
  rw [C07.parse_bits cfg it data' off len hw8 hw64 h1 hlw (by omega)]
  rw [C07.parse_bits cfg it d off len hw8 hw64 h1 hlw (by omega)] at hparse
  rw [Bits.fieldValue_congr (a := data') (b := d) (fun g _ hg => hbits g (by omega))]
  exact hparse

/-- `frag_vec_with_len!`: after a successful encode of a list of `n ≤ cap` elements
(`cap < 2^lenBits`, i.e. `countsFit`), the count field of the resulting buffer holds `n`. -/
theorem count_on_wire (cfg : Cfg) (glo : SigTable) (elem : Frag) (cap lenBits n : Nat) (rest ts' : List Tok)
    (c c' : Cur) (hn : n ≤ cap) (hcap : cap < 2 ^ lenBits) (h1 : 1 ≤ lenBits) (h16 : lenBits ≤ 16)
    (hdata : ∀ d ∈ c.data, d < 256)
    (henc : encFrag cfg glo (.vecWithLen elem cap lenBits) (.count n :: rest) c = .ok (c', ts')) :
    Bits.parse cfg ⟨.u, 16⟩ c'.data c.off lenBits = .ok (n, c.off + lenBits) ∧
    c'.data.length = c.data.length := by
  unfold encFrag at henc
  simp only [gt_iff_lt, show ¬ cap < n from by omega, if_false] at henc
  have hlt : n < 2 ^ lenBits := by omega
  have h216 : 2 ^ lenBits ≤ 2 ^ 16 := Nat.pow_le_pow_right (by decide) h16
  have h65536 : n % 65536 = n := Nat.mod_eq_of_lt (by omega)
  rw [h65536] at henc
  split at henc
  · next d o hp =>
    obtain ⟨hl, _, hb⟩ := encRepeat_below henc
    simp only at hl hb
    exact ⟨field_survives cfg ⟨.u, 16⟩ c.data c.off n lenBits d o c'.data (by decide) (by decide) h1 h16
      hdata (by simp only; omega) hlt hp hl hb, by rw [hl, Bits.put_length hp]⟩
  · simp at henc
  · simp at henc

/-- `df_88591_string_with_len!`: after a successful encode of a string of `b.length ≤ cap` bytes
(`cap < 2^lenBits`, `lenBits ≤ 8`), the length prefix of the resulting buffer holds `b.length`. -/
theorem count_on_wire_str (cfg : Cfg) (glo : SigTable) (cap lenBits : Nat) (b : List Nat) (rest ts' : List Tok)
    (c c' : Cur) (hn : b.length ≤ cap) (hcap : cap < 2 ^ lenBits) (h1 : 1 ≤ lenBits) (h8 : lenBits ≤ 8)
    (hdata : ∀ d ∈ c.data, d < 256)
    (henc : encFrag cfg glo (.str cap lenBits) (.bytes b :: rest) c = .ok (c', ts')) :
    Text.parseU cfg 8 lenBits { data := c'.data, off := c.off }
      = .ok (b.length, { data := c'.data, off := c.off + lenBits }) := by
  unfold encFrag at henc
  simp only [gt_iff_lt, show ¬ cap < b.length from by omega, if_false] at henc
  obtain ⟨c2, hstr, hk⟩ := lift_ok henc
  simp only [Res.ok.injEq, Prod.mk.injEq] at hk
  obtain ⟨rfl, _⟩ := hk
  have hlt : b.length < 2 ^ lenBits := by omega
  have h28 : 2 ^ lenBits ≤ 2 ^ 8 := Nat.pow_le_pow_right (by decide) h8
  have h256 : b.length % 256 = b.length := Nat.mod_eq_of_lt (by omega)
  unfold Text.strEncode at hstr
  simp only [List.length_map, h256] at hstr
  split at hstr
  · next c1 hu =>
    unfold Text.putU at hu
    split at hu
    · next d o hp =>
      simp only [Res.ok.injEq] at hu
      subst hu
      obtain ⟨hl, _, hb⟩ := Text.putBytes_rel below_putInv _ _ _ _ hstr
      simp only at hl hb
      unfold Text.parseU
      simp only [field_survives cfg ⟨.u, 8⟩ c.data c.off b.length lenBits d o c2.data (by decide) (by decide) h1 h8
        hdata (by simp only; omega) hlt hp hl hb]
    · simp at hu
    · simp at hu
  · simp at hstr
  · simp at hstr

/-- `msg_len_middle!`: after a successful encode, the count field (an unsigned field without
scaling, bias or invalid marker: `countsFit`) of the resulting buffer holds the number of elements
`n ≤ cap` that was encoded; `c1` is the cursor after `fields1`, where the count field starts. -/
theorem count_on_wire_lenMiddle (cfg : Cfg) (glo : SigTable) (f1 f2 : Fields) (lenDf : DfSpec) (elem : Frag)
    (cap : Nat) (ts ts' : List Tok) (c c' : Cur)
    (hk : lenDf.it.kind = .u) (hw8 : 8 ≤ lenDf.it.w) (hw64 : lenDf.it.w ≤ 64)
    (h1 : 1 ≤ lenDf.len) (hlw : lenDf.len ≤ lenDf.it.w)
    (hfl : lenDf.dt.isFloat = false) (hres : lenDf.res = none) (hbias : lenDf.bias = none)
    (hinv : lenDf.inv = none) (hcap : cap < 2 ^ lenDf.len)
    (hdata : ∀ d ∈ c.data, d < 256)
    (henc : encFrag cfg glo (.lenMiddle f1 lenDf f2 elem cap) ts c = .ok (c', ts')) :
    ∃ c1 n ts2, encFields cfg glo f1 ts c = .ok (c1, .count n :: ts2) ∧ n ≤ cap ∧
      Bits.parse cfg lenDf.it c'.data c1.off lenDf.len = .ok (n, c1.off + lenDf.len) := by
  unfold encFrag at henc
  split at henc
  · next c1 ts1 hf1 =>
    split at henc
    · next n ts2 =>
      split at henc
      · simp at henc
      · next hncap =>
        split at henc
        · next c2 tsx hdf =>
          split at henc
          · next c3 ts3 hf2 =>
            refine ⟨c1, n, ts2, hf1, by omega, ?_⟩
            have hlt : n < 2 ^ lenDf.len := by omega
            have hpw : 2 ^ lenDf.len ≤ 2 ^ lenDf.it.w := Nat.pow_le_pow_right (by decide) hlw
            have hv : n < 2 ^ lenDf.it.w := by omega
            -- the count write
            unfold Df.encode at hdf
            simp only [hinv, Df.quantise, hfl, hbias, hres, Bool.false_eq_true, if_false,
              Bits.ofInt_natCast hv] at hdf
            split at hdf
            · next d o hp =>
              simp only [Res.ok.injEq, Prod.mk.injEq] at hdf
              obtain ⟨rfl, _⟩ := hdf
              obtain ⟨hl2, ho2, hb2⟩ := encFields_below hf2
              obtain ⟨hl3, _, hb3⟩ := encRepeat_below henc
              simp only at hl2 ho2 hb2
              have hrep : Bits.Representable lenDf.it lenDf.len n := by
                simp only [Bits.Representable, hk]; exact hlt
              exact field_survives cfg lenDf.it c1.data c1.off n lenDf.len d o c'.data hw8 hw64 h1 hlw
                (encFields_bytes hf1 hdata) hv hrep hp (by rw [hl3, hl2])
                (fun g hg => (hb3 g (by omega)).trans (hb2 g hg))
            · simp at hdf
            · simp at hdf
          · simp at henc
          · simp at henc
        · simp at henc
        · simp at henc
    · simp at henc
  · simp at henc
  · simp at henc

/-- counts agree: decoding the encoded list (from the list's start, in the final buffer) yields
`count n` first, with the `n` that was encoded — whatever the elements are. -/
theorem count_agrees (cfg : Cfg) (glo : SigTable) (elem : Frag) (cap lenBits n : Nat) (rest ts' : List Tok)
    (c c' c'' : Cur) (toks : List Tok) (hn : n ≤ cap) (hcap : cap < 2 ^ lenBits) (h1 : 1 ≤ lenBits)
    (h16 : lenBits ≤ 16) (hdata : ∀ d ∈ c.data, d < 256)
    (henc : encFrag cfg glo (.vecWithLen elem cap lenBits) (.count n :: rest) c = .ok (c', ts'))
    (hdec : decFrag cfg (.vecWithLen elem cap lenBits) { data := c'.data, off := c.off } = .ok (toks, c'')) :
    ∃ ps : List (List Tok), ps.length = n ∧ toks = .count n :: ps.flatten := by
  obtain ⟨hp, _⟩ := count_on_wire cfg glo elem cap lenBits n rest ts' c c' hn hcap h1 h16 hdata henc
  obtain ⟨n', o, ps, hp', _, _, hlen, _, ht⟩ := vec_decode_count cfg elem cap lenBits _ c'' toks hdec
  simp only at hp'
  rw [hp] at hp'
  simp only [Res.ok.injEq, Prod.mk.injEq] at hp'
  obtain ⟨rfl, rfl⟩ := hp'
  exact ⟨ps, hlen, ht⟩

/-- the hypotheses `cap < 2^lenBits`, `1 ≤ lenBits ≤ 16` of `count_on_wire` hold for every
`frag_vec_with_len!` list of every message (`count_fields_wide_enough` unfolds to this). -/
theorem countsFit_vecWithLen (elem : Frag) (cap lenBits : Nat) (h : countsFit (.vecWithLen elem cap lenBits) = true) :
    cap < 2 ^ lenBits ∧ lenBits ≤ 16 := by
  unfold countsFit at h
  simp only [Bool.and_eq_true, decide_eq_true_eq] at h
  exact ⟨h.1.1, h.1.2⟩

/-! ### The side conditions hold for every message of the crate -/

mutual
/-- every count field is a plain unsigned field the bit packer's theorems apply to: `msg_len_middle!`
count fields have an unsigned carrier of 8..64 bits, `1 ≤ len ≤` carrier width and an integer `dt`;
`frag_vec_with_len!` and string length prefixes have at least one bit. Together with `countsFit`
these are the hypotheses of `count_on_wire`, `count_on_wire_str`, `count_on_wire_lenMiddle`. -/
def countFieldsPlain : Frag → Bool
  | .df _ | .text1029 | .bias1059 _ _ | .bias1065 _ _ | .bias1230 | .msm _ _ _ => true
  | .str _ lenBits => decide (1 ≤ lenBits)
  | .seq fs => countFieldsPlainFields fs
  | .lenMiddle f1 l f2 e _ =>
    decide (l.it.kind = .u) && decide (8 ≤ l.it.w) && decide (l.it.w ≤ 64) && decide (1 ≤ l.len) &&
      decide (l.len ≤ l.it.w) && !l.dt.isFloat &&
      countFieldsPlainFields f1 && countFieldsPlainFields f2 && countFieldsPlain e
  | .vecWithLen e _ lenBits => decide (1 ≤ lenBits) && countFieldsPlain e
  | .grid16 e => countFieldsPlain e
def countFieldsPlainFields : Fields → Bool
  | .nil => true
  | .cons _ f rest => countFieldsPlain f && countFieldsPlainFields rest
end

theorem count_fields_plain : Gen.messageTable.all (fun r => countFieldsPlain r.frag) = true := by
  decide +kernel

/-- `count_on_wire_lenMiddle` with its side conditions discharged by the two table checks -/
theorem count_on_wire_lenMiddle' (cfg : Cfg) (glo : SigTable) (f1 f2 : Fields) (lenDf : DfSpec) (elem : Frag)
    (cap : Nat) (ts ts' : List Tok) (c c' : Cur)
    (hfit : countsFit (.lenMiddle f1 lenDf f2 elem cap) = true)
    (hplain : countFieldsPlain (.lenMiddle f1 lenDf f2 elem cap) = true)
    (hdata : ∀ d ∈ c.data, d < 256)
    (henc : encFrag cfg glo (.lenMiddle f1 lenDf f2 elem cap) ts c = .ok (c', ts')) :
    ∃ c1 n ts2, encFields cfg glo f1 ts c = .ok (c1, .count n :: ts2) ∧ n ≤ cap ∧
      Bits.parse cfg lenDf.it c'.data c1.off lenDf.len = .ok (n, c1.off + lenDf.len) := by
  unfold countsFit at hfit
  unfold countFieldsPlain at hplain
  simp only [Bool.and_eq_true, decide_eq_true_eq, Option.isNone_iff_eq_none, Bool.not_eq_true'] at hfit hplain
  obtain ⟨⟨⟨⟨⟨⟨hcap, hres⟩, hbias⟩, hinv⟩, _⟩, _⟩, _⟩ := hfit
  obtain ⟨⟨⟨⟨⟨⟨⟨⟨hk, hw8⟩, hw64⟩, h1⟩, hlw⟩, hfl⟩, _⟩, _⟩, _⟩ := hplain
  exact count_on_wire_lenMiddle cfg glo f1 f2 lenDf elem cap ts ts' c c' hk hw8 hw64 h1 hlw hfl hres hbias
    hinv hcap hdata henc

/-! ### Instances on the generated table (kernel evaluation, both build profiles) -/

/-- the result is `Err(e)` -/
def errIs {α} (e : RtcmError) : Res α → Bool
  | .err e' => e' == e
  | _ => false

/-- SSR orbit list of 1057 (capacity 60, 6-bit count): a count of 61 on the wire → `CapacityExceeded` -/
example (cfg : Cfg) :
    errIs .capacityExceeded
      (decFrag cfg Gen.frag_msg1057_sat_vec { data := (61 * 4) :: List.replicate 1000 0, off := 0 }) = true := by
  cases cfg with
  | mk ck => cases ck <;> decide +kernel

/-- the same list, count 2, but the buffer ends inside the first element (135 bits) → `BufferOverflow`,
not a list of 0 elements -/
example (cfg : Cfg) :
    errIs .bufferOverflow
      (decFrag cfg Gen.frag_msg1057_sat_vec { data := (2 * 4) :: List.replicate 9 0, off := 0 }) = true := by
  cases cfg with
  | mk ck => cases ck <;> decide +kernel

/-- … and ends inside the second element -/
example (cfg : Cfg) :
    errIs .bufferOverflow
      (decFrag cfg Gen.frag_msg1057_sat_vec { data := (2 * 4) :: List.replicate 30 0, off := 0 }) = true := by
  cases cfg with
  | mk ck => cases ck <;> decide +kernel

/-- with enough bytes the same prefix decodes to exactly two elements -/
example (cfg : Cfg) :
    (match decFrag cfg Gen.frag_msg1057_sat_vec { data := (2 * 4) :: List.replicate 40 0, off := 0 } with
     | .ok (.count n :: _, c') => n == 2 && c'.off == 6 + 2 * 135
     | _ => false) = true := by
  cases cfg with
  | mk ck => cases ck <;> decide +kernel

end Rtcm.C15
