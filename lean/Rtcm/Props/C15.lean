import Rtcm.Model.Size
import Rtcm.Gen.Messages
/-!
# C15  Lists of every admissible length survive; counts and capacities agree
-/
namespace Rtcm.C15
open Rtcm.Schema Rtcm.Size

/-- Every list-bearing message (MSM and bias structures excluded) fits the 1023-byte payload at full
capacity: 12 bits of message number + the layout's maximal size ≤ 8184 bits. -/
theorem list_fits :
    Gen.messageTable.all (fun r => !plain r.frag || decide (12 + maxBits r.frag ≤ 8184)) = true := by
  decide +kernel

/-- Every count field is wide enough for the capacity of its list or string, so the count written
on the wire equals the number of elements (no wrap), and count fields carry no scaling, bias or
invalid marker. -/
theorem count_fields_wide_enough : Gen.messageTable.all (fun r => countsFit r.frag) = true := by
  decide +kernel

/-- the largest list-bearing message at capacity -/
example : (Gen.messageTable.filter (fun r => plain r.frag)).foldl (fun m r => max m (12 + maxBits r.frag)) 0 ≤ 8184 := by
  decide +kernel

end Rtcm.C15
