import Rtcm.Model.Message
/-!
# C12  A builder's output depends only on the message, not on what it built before
-/
namespace Rtcm.C12
open Rtcm.Message Rtcm.Schema

/-- what every reachable builder state satisfies -/
def Inv (b : Builder) : Prop :=
  b.data.length = 1029 ∧ b.data.head? = some 0xd3 ∧ (b.hasRun = false → b.data = freshData)

theorem inv_new : Inv Builder.new := by
  refine ⟨by simp [-List.reduceReplicate, Builder.new, freshData],
          by simp [-List.reduceReplicate, Builder.new, freshData], fun _ => rfl⟩

/-- the wipe restores the fresh buffer from any state satisfying the invariant -/
theorem clear_eq_fresh (b : Builder) (h : Inv b) : clearData b.data = freshData := by
  obtain ⟨hl, hh, _⟩ := h
  unfold clearData freshData
  cases hd : b.data with
  | nil => simp [hd] at hl
  | cons x xs =>
    simp only [hd, List.head?_cons, Option.some.injEq] at hh
    simp only [hd, List.length_cons] at hl
    subst hh
    have hx : xs.length = 1028 := by omega
    simp only [List.take_succ_cons, List.take_zero, List.length_cons, Nat.add_sub_cancel, hx,
      List.singleton_append]

/-- One step: from any state satisfying the invariant the result of a build (frame bytes or error)
is the result a fresh builder gives. -/
theorem build_eq_fresh (cfg : Cfg) (tbl : List MsgRow) (glo : SigTable) (b : Builder) (h : Inv b) (m : Msg) :
    (b.build cfg tbl glo m).2 = (Builder.new.build cfg tbl glo m).2 := by
  have hdata : (if b.hasRun then clearData b.data else b.data) = freshData := by
    cases hr : b.hasRun with
    | true => simp [clear_eq_fresh b h]
    | false => simp [h.2.2 hr]
  unfold Builder.build
  simp only [hdata]
  simp only [Builder.new, Bool.false_eq_true, if_false]

end Rtcm.C12
