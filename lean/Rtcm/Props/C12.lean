import Rtcm.Model.Message
import Rtcm.Proofs.InterpLen
import Rtcm.Gen.Messages
/-!
# C12  A builder's output depends only on the message, not on what it built before

Subject: `Rtcm.Message.Builder.build` (Model/Message.lean), the model of
`MessageBuilder::build_message` / `clear_data` (src/msg/message.rs).

* `Inv b`: the buffer has 1029 bytes, starts with the sync byte `0xd3`, and is the fresh buffer as
  long as no build has run. `inv_new`: a new builder satisfies it.
* `clear_eq_fresh`, `build_eq_fresh`: one step — from any state satisfying `Inv`, the wipe restores
  the fresh buffer, so the result of a build (frame bytes, error or panic) is a fresh builder's.
* `inv_build`: `Inv` is preserved by every build, for every message and every outcome (frame;
  `EncodingNotSupported`; a field error or a panic that leaves a partially written body). Length:
  `Bits.put_length` and `Interp.encFrag_length` (Proofs/InterpLen.lean: every encoder of the
  interpreter preserves the buffer length, unconditionally). Sync byte: only indices ≥ 1 are written.
* `build_history_independent` (**the property**): after any finite history of builds the result of
  building `m` equals the result of a fresh builder. `buildSeq_last`, `buildSeq_eq_map`: the same
  for the sequence runner `buildSeq`.

All theorems hold for every build profile `cfg`, every message table `tbl` and every GLONASS
signal table `glo`; nothing is assumed about the messages (token streams may be ill-formed).
-/
namespace Rtcm.C12
open Rtcm.Message Rtcm.Schema

/-- what every reachable builder state satisfies -/
def Inv (b : Builder) : Prop :=
  b.data.length = 1029 ∧ b.data.head? = some 0xd3 ∧ (b.hasRun = false → b.data = freshData)

theorem inv_new : Inv Builder.new := by
  refine ⟨by simp [-List.reduceReplicate, Builder.new, freshData],
          by simp [-List.reduceReplicate, Builder.new, freshData], fun _ => rfl⟩

/-- the wipe restores the fresh buffer from any state satisfying the invariant -/
theorem clear_eq_fresh (b : Builder) (h : Inv b) : clearData b.data = freshData := by
  obtain ⟨hl, hh, _⟩ := h
  unfold clearData freshData
  cases hd : b.data with
  | nil => simp [hd] at hl
  | cons x xs =>
    simp only [hd, List.head?_cons, Option.some.injEq] at hh
    simp only [hd, List.length_cons] at hl
    subst hh
    have hx : xs.length = 1028 := by omega
    simp only [List.take_succ_cons, List.take_zero, List.length_cons, Nat.add_sub_cancel, hx,
      List.singleton_append]

/-- One step: from any state satisfying the invariant the result of a build (frame bytes or error)
is the result a fresh builder gives. -/
theorem build_eq_fresh (cfg : Cfg) (tbl : List MsgRow) (glo : SigTable) (b : Builder) (h : Inv b) (m : Msg) :
    (b.build cfg tbl glo m).2 = (Builder.new.build cfg tbl glo m).2 := by
  have hdata : (if b.hasRun then clearData b.data else b.data) = freshData := by
    cases hr : b.hasRun with
    | true => simp [clear_eq_fresh b h]
    | false => simp [h.2.2 hr]
  unfold Builder.build
  simp only [hdata]
  simp only [Builder.new, Bool.false_eq_true, if_false]

/-! ### The invariant is preserved by every build, whatever its outcome -/

/-- length and sync byte of the builder's buffer -/
def Good (d : List Nat) : Prop := d.length = 1029 ∧ d.head? = some 0xd3

theorem good_fresh : Good freshData := inv_new.1 |> fun h => ⟨h, inv_new.2.1⟩

theorem inv_of_good {d : List Nat} (h : Good d) : Inv { data := d, hasRun := true } :=
  ⟨h.1, h.2, fun hr => by simp at hr⟩

/-- the buffer `build_message` starts from (after the conditional wipe) is the fresh buffer -/
theorem start_eq_fresh (b : Builder) (h : Inv b) :
    (if b.hasRun then clearData b.data else b.data) = freshData := by
  cases hr : b.hasRun with
  | true => simp [clear_eq_fresh b h]
  | false => simp [h.2.2 hr]

/-- writing a 1023-byte window back between the 3 header bytes and the 3 trailing bytes -/
theorem good_put {data w : List Nat} (h : Good data) (hw : w.length = 1023) :
    Good (data.take 3 ++ w ++ data.drop 1026) := by
  obtain ⟨hl, hh⟩ := h
  constructor
  · simp only [List.length_append, List.length_take, List.length_drop, hl, hw]
    omega
  · cases data with
    | nil => simp at hl
    | cons x xs => simpa using hh

/-- a write at an index ≥ 1 keeps length and sync byte -/
theorem good_set {d : List Nat} (h : Good d) (n x : Nat) : Good (d.set (n + 1) x) := by
  obtain ⟨hl, hh⟩ := h
  constructor
  · simpa using hl
  · cases d with
    | nil => simp at hl
    | cons y ys => simpa using hh

theorem window_length {data : List Nat} (h : Good data) : ((data.drop 3).take 1023).length = 1023 := by
  simp only [List.length_take, List.length_drop, h.1]
  omega

/-- (c) `Inv` is preserved by `build_message` for every message and every outcome: a frame, an
error (`EncodingNotSupported`, a field error with a partially written body), or a panic. -/
theorem inv_build (cfg : Cfg) (tbl : List MsgRow) (glo : SigTable) (b : Builder) (h : Inv b) (m : Msg) :
    Inv (b.build cfg tbl glo m).1 := by
  have hg : Good (if b.hasRun then clearData b.data else b.data) := by
    rw [start_eq_fresh b h]; exact good_fresh
  unfold Builder.build
  simp only []
  generalize (if b.hasRun then clearData b.data else b.data) = data at hg ⊢
  have hwin := window_length hg
  split
  · split
    · next w1 o1 hp =>
      have hw1 : w1.length = 1023 := by rw [Bits.put_length hp, hwin]
      split
      · next row hrow =>
        split
        · next c rest henc =>
          have hc : c.data.length = 1023 := by
            rw [Interp.encFrag_length cfg glo _ _ _ _ _ henc]; exact hw1
          split
          · exact inv_of_good (good_put hg hc)
          · apply inv_of_good
            have e3 : ∀ k, k + 3 = (k + 2) + 1 := fun k => by omega
            have e4 : ∀ k, k + 4 = (k + 3) + 1 := fun k => by omega
            have e5 : ∀ k, k + 5 = (k + 4) + 1 := fun k => by omega
            rw [e3, e4, e5]
            exact good_set (good_set (good_set (good_set (good_set (good_put hg hc) 0 _) 1 _) _ _) _ _) _ _
        · exact inv_of_good (good_put hg hw1)
        · exact inv_of_good (good_put hg hw1)
      · exact inv_of_good hg
    · exact inv_of_good hg
    · exact inv_of_good hg
  · exact inv_of_good hg

theorem inv_foldl (cfg : Cfg) (tbl : List MsgRow) (glo : SigTable) :
    ∀ (hist : List Msg) (b : Builder), Inv b → Inv (hist.foldl (fun b x => (b.build cfg tbl glo x).1) b) := by
  intro hist
  induction hist with
  | nil => intro b h; exact h
  | cons x xs ih => intro b h; exact ih _ (inv_build cfg tbl glo b h x)

/-- every reachable builder state satisfies the invariant -/
theorem inv_reachable (cfg : Cfg) (tbl : List MsgRow) (glo : SigTable) (hist : List Msg) :
    Inv (hist.foldl (fun b x => (b.build cfg tbl glo x).1) Builder.new) :=
  inv_foldl cfg tbl glo hist _ inv_new

/-- (d) **C12**: after any finite history of builds (successful, failing or panicking ones alike)
the result of building `m` (the frame bytes, or the error) is the result a fresh builder gives. -/
theorem build_history_independent (cfg : Cfg) (tbl : List MsgRow) (glo : SigTable) (hist : List Msg) (m : Msg) :
    ((hist.foldl (fun b x => (b.build cfg tbl glo x).1) Builder.new).build cfg tbl glo m).2
      = (Builder.new.build cfg tbl glo m).2 :=
  build_eq_fresh cfg tbl glo _ (inv_reachable cfg tbl glo hist) m

theorem buildSeq_append (cfg : Cfg) (tbl : List MsgRow) (glo : SigTable) :
    ∀ (hist : List Msg) (b : Builder) (m : Msg),
      buildSeq cfg tbl glo b (hist ++ [m])
        = buildSeq cfg tbl glo b hist
          ++ [((hist.foldl (fun b x => (b.build cfg tbl glo x).1) b).build cfg tbl glo m).2] := by
  intro hist
  induction hist with
  | nil => intro b m; rfl
  | cons x xs ih =>
    intro b m
    simp only [List.cons_append, buildSeq, List.foldl_cons, ih]

/-- the same for the sequence runner: the last result of a run is what a fresh builder returns
for the last message -/
theorem buildSeq_last (cfg : Cfg) (tbl : List MsgRow) (glo : SigTable) (hist : List Msg) (m : Msg) :
    (buildSeq cfg tbl glo Builder.new (hist ++ [m])).getLast?
      = some (Builder.new.build cfg tbl glo m).2 := by
  rw [buildSeq_append, List.getLast?_append, build_history_independent]
  rfl

/-- every result of a run is what a fresh builder returns for that message -/
theorem buildSeq_eq_map (cfg : Cfg) (tbl : List MsgRow) (glo : SigTable) :
    ∀ (ms : List Msg) (b : Builder), Inv b →
      buildSeq cfg tbl glo b ms = ms.map fun m => (Builder.new.build cfg tbl glo m).2 := by
  intro ms
  induction ms with
  | nil => intro b _; rfl
  | cons m ms ih =>
    intro b h
    simp only [buildSeq, List.map_cons, build_eq_fresh cfg tbl glo b h m,
      ih _ (inv_build cfg tbl glo b h m)]

/-! ### States reached after failing builds (kernel evaluation on the generated message table) -/

/-- a message without wire form: `EncodingNotSupported`, the buffer stays fresh -/
example (cfg : Cfg) (tbl : List MsgRow) (glo : SigTable) : Inv (Builder.new.build cfg tbl glo .corrupt).1 := by
  show Inv { data := freshData, hasRun := true }
  refine ⟨?_, ?_, ?_⟩ <;> decide +kernel

/-- 1230 with a signal the bias list does not know: `Err(InvalidSignalId)` after the station id has
been written; the builder is left with a partially written body (≠ fresh) and satisfies `Inv` -/
example (cfg : Cfg) :
    let r := Builder.new.build cfg Gen.messageTable Gen.sigTable_glo
      (.typed 1230 [.int 7, .int 1, .count 1, .sig 9 9, .flt 0])
    r.2.isOk = false ∧ r.2.isPanic = false ∧ r.1.data ≠ freshData ∧ Inv r.1 := by
  cases cfg with
  | mk ck => cases ck <;> (refine ⟨?_, ?_, ?_, ?_, ?_, ?_⟩ <;> decide +kernel)

/-- the next build from that state gives the frame a fresh builder gives (instance of the theorem) -/
example (cfg : Cfg) (m : Msg) :
    let b := (Builder.new.build cfg Gen.messageTable Gen.sigTable_glo
      (.typed 1230 [.int 7, .int 1, .count 1, .sig 9 9, .flt 0])).1
    (b.build cfg Gen.messageTable Gen.sigTable_glo m).2
      = (Builder.new.build cfg Gen.messageTable Gen.sigTable_glo m).2 :=
  build_history_independent cfg Gen.messageTable Gen.sigTable_glo [_] m

end Rtcm.C12
