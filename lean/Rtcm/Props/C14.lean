import Rtcm.Model.Message
import Rtcm.Gen.Messages
import Rtcm.Gen.Features
import Rtcm.Props.C13
/-!
# C14  Decode outcome is classified by message number, exhaustively

Model: `Message.decodeFrame` (`Message::from_message_frame`) over the regenerated `message!` table.
-/
namespace Rtcm.C14
open Rtcm.Message Rtcm.Schema

/-- Empty exactly when the frame carries no message number (payload shorter than two bytes, C13). -/
theorem empty_iff_no_number (cfg : Cfg) (tbl : List MsgRow) (f : Frame) :
    decodeFrame cfg tbl f = .ok .empty ↔ f.number = none := by
  unfold decodeFrame
  cases h : f.number with
  | none => simp
  | some n =>
    simp only
    cases findRow tbl n with
    | none => simp
    | some row =>
      simp only
      split <;> simp

/-- Decoding an accepted frame yields Empty exactly when its payload is shorter than two bytes. -/
theorem empty_iff_short (cfg : Cfg) (tbl : List MsgRow) (d : List UInt8) (f : Frame)
    (h : frameNew d = .ok f) : decodeFrame cfg tbl f = .ok .empty ↔ f.dataLen < 2 := by
  rw [empty_iff_no_number, C13.message_number_spec d f h]
  split <;> simp <;> omega

/-- For a number outside the table the outcome is MsgNotSupported carrying that number. -/
theorem unsupported_of_not_in_table (cfg : Cfg) (tbl : List MsgRow) (f : Frame) (n : Nat)
    (hn : f.number = some n) (h : findRow tbl n = none) :
    decodeFrame cfg tbl f = .ok (.notSupported n) := by
  simp [decodeFrame, hn, h]

/-- For a number in the table the outcome is the typed variant of that very number, or Corrupt
(or a panic of the body decoder, excluded by C02) — never a variant of another number, never
MsgNotSupported, never Empty. -/
theorem typed_or_corrupt_same_number (cfg : Cfg) (tbl : List MsgRow) (f : Frame) (n : Nat) (row : MsgRow)
    (hn : f.number = some n) (h : findRow tbl n = some row) (m : Msg)
    (hm : decodeFrame cfg tbl f = .ok m) : m = .corrupt ∨ ∃ toks, m = .typed n toks := by
  simp only [decodeFrame, hn, h] at hm
  split at hm
  · simp only [Res.ok.injEq] at hm; exact Or.inr ⟨_, hm.symm⟩
  · simp only [Res.ok.injEq] at hm; exact Or.inl hm.symm
  · cases hm

/-- conversely a typed outcome carries the frame's own number and that number is in the table -/
theorem typed_number_matches (cfg : Cfg) (tbl : List MsgRow) (f : Frame) (k : Nat) (toks : List Tok)
    (hm : decodeFrame cfg tbl f = .ok (.typed k toks)) :
    f.number = some k ∧ (findRow tbl k).isSome := by
  unfold decodeFrame at hm
  cases hn : f.number with
  | none => simp [hn] at hm
  | some n =>
    simp only [hn] at hm
    cases hr : findRow tbl n with
    | none => simp [hr] at hm
    | some row =>
      simp only [hr] at hm
      split at hm
      · simp only [Res.ok.injEq, Msg.typed.injEq] at hm
        obtain ⟨rfl, _⟩ := hm
        simp [hr]
      · simp at hm
      · cases hm

/-- the row found for `n` has number `n` -/
theorem findRow_number (tbl : List MsgRow) (n : Nat) (row : MsgRow) (h : findRow tbl n = some row) :
    row.number = n := by
  unfold findRow at h
  have := List.find?_some h
  simpa using this

/-- `Message::number` of a typed message is the number it is encoded under (the builder writes
`number` into the first 12 payload bits, C09) -/
theorem number_of_typed (tbl : List MsgRow) (n : Nat) (toks : List Tok) (k : Nat)
    (h : number tbl (.typed n toks) = some k) : k = n := by
  simp only [number] at h
  split at h <;> simp_all

/-! ### hygiene of the regenerated table -/

def digits (n : Nat) : String := toString n

/-- every row reads `"msgN": MsgN(msgN) = N` -/
def rowConsistent (r : String × String × String × Nat) : Bool :=
  r.1 == "msg" ++ digits r.2.2.2 && r.2.1 == "Msg" ++ digits r.2.2.2 && r.2.2.1 == "msg" ++ digits r.2.2.2

theorem rows_consistent : Gen.dispatchRows.all rowConsistent = true := by decide +kernel

theorem numbers_distinct : (Gen.dispatchRows.map (·.2.2.2)).Nodup := by decide +kernel

theorem numbers_lt_4096 : Gen.dispatchRows.all (fun r => decide (r.2.2.2 < 4096)) = true := by decide +kernel

/-- same elements (the order in which rows and features are listed does not matter) -/
def sameSet (a b : List String) : Bool :=
  a.length == b.length && a.all b.contains && b.all a.contains

/-- the set of supported numbers equals the set of message features: what `all_msgs` enables (group
features followed, leaves counted), the `message!` table and the `include_msg!` list name the same
features (without repetition) and the same modules -/
theorem features_agree :
    sameSet (Features.msgFeatures Gen.cargoFeatures) (Gen.dispatchRows.map (·.1)) = true ∧
    sameSet (Gen.includeMsgs.map (·.2)) (Gen.dispatchRows.map (·.1)) = true ∧
    sameSet (Gen.includeMsgs.map (·.1)) (Gen.dispatchRows.map (·.2.2.1)) = true ∧
    (Gen.dispatchRows.map (·.1)).Nodup ∧ Gen.includeMsgs.all (fun r => r.1 == r.2) = true := by decide +kernel

/-- the model's table is the translated one -/
theorem table_matches_rows :
    Gen.messageTable.map (fun r => (r.feature, r.variant, r.module, r.number)) = Gen.dispatchRows := by
  decide +kernel

/-! Non-vacuity -/
example : (findRow Gen.messageTable 1005).isSome = true := by decide +kernel
example : (findRow Gen.messageTable 1150).isSome = false := by decide +kernel

end Rtcm.C14
