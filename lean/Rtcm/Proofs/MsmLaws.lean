import Rtcm.Model.Msm
import Rtcm.Props.C18
import Mathlib.Data.List.Sort
import Mathlib.Data.List.Induction
import Mathlib.Data.List.Nodup
/-!
# Helper lemmas for C10 (MSM satellite / signal / cell masks)

* Part A: the three mask folds (`satMaskStep`, `sigStep`, `cellStep`) as instances of an abstract
  "set bit `f c` unless it is already set" fold (`posStep`, `orF`); the masks as functions of the rows
  (`satMaskOf`, `sigMaskOf`, `satSigMaskOf`);
* Part B: counting set bits (`popcount`, `rankOf`) against duplicate-free identifier lists (`rankIn`);
  the cell fold, the precondition `Pre`, `G = sigIdSet`, and the success case `masks_pre`, `cell_incidence`;
* Part D: first offending element of a list, the error cases of `masks`;
* Part C: insertion sort (`Sig.sortBy`) yields the unique sorted permutation; order independence
  (`masks_perm`); complete classification `masks_classify`;
* Part E: decoder side: `maskIds`, `cellIds` are sorted and invert the masks; shape of a successful `decode`.
-/
namespace Rtcm.MsmLaws
open Rtcm.Msm Rtcm.Schema Rtcm.Text

/-! ## Part A: bit folds -/

theorem and_two_pow_pos (x k : Nat) : (x &&& 2 ^ k > 0) ↔ x.testBit k = true := by
  constructor
  · intro h
    by_contra hb
    have hb : x.testBit k = false := by simpa using hb
    have : x &&& 2 ^ k = 0 := by
      apply Nat.eq_of_testBit_eq
      intro i
      rw [Nat.testBit_and, Nat.testBit_two_pow, Nat.zero_testBit]
      by_cases hki : k = i
      · subst hki; simp [hb]
      · simp [hki]
    omega
  · intro h
    have : (x &&& 2 ^ k).testBit k = true := by
      rw [Nat.testBit_and, Nat.testBit_two_pow]; simp [h]
    have := Nat.ge_two_pow_of_testBit this
    have := Nat.two_pow_pos k
    omega

/-- `l.foldl (fun m c => m ||| 2 ^ f c) m` -/
def orF {γ} (f : γ → Nat) (l : List γ) (m : Nat) : Nat := l.foldl (fun m c => m ||| 2 ^ f c) m

@[simp] theorem orF_nil {γ} (f : γ → Nat) (m : Nat) : orF f [] m = m := rfl
@[simp] theorem orF_cons {γ} (f : γ → Nat) (c : γ) (l : List γ) (m : Nat) :
    orF f (c :: l) m = orF f l (m ||| 2 ^ f c) := rfl

theorem testBit_orF {γ} (f : γ → Nat) (l : List γ) (m k : Nat) :
    (orF f l m).testBit k = true ↔ (m.testBit k = true ∨ ∃ c ∈ l, f c = k) := by
  induction l generalizing m with
  | nil => simp
  | cons c l ih =>
    rw [orF_cons, ih, Nat.testBit_or, Nat.testBit_two_pow]
    simp only [Bool.or_eq_true, decide_eq_true_eq, List.mem_cons, exists_eq_or_imp]
    tauto

theorem orF_map {γ δ} (g : γ → δ) (f : δ → Nat) (l : List γ) (m : Nat) :
    orF f (l.map g) m = orF (fun c => f (g c)) l m := by
  induction l generalizing m with
  | nil => rfl
  | cons c l ih => simp [ih]

theorem orF_lt {γ} (f : γ → Nat) (l : List γ) (m n : Nat) (hm : m < 2 ^ n) (hf : ∀ c ∈ l, f c < n) :
    orF f l m < 2 ^ n := by
  apply Nat.lt_pow_two_of_testBit
  intro i hi
  cases hb : (orF f l m).testBit i with
  | false => rfl
  | true =>
    rw [testBit_orF] at hb
    rcases hb with hb | ⟨c, hc, rfl⟩
    · have := Nat.testBit_lt_two_pow (Nat.lt_of_lt_of_le hm (Nat.pow_le_pow_right (by omega) hi))
      simp [this] at hb
    · have := hf c hc; omega

/-- generic "set bit `f c`, report `e` when it is already set" step -/
def posStep {γ} (e : RtcmError) (f : γ → Nat) (acc : Res Nat) (c : γ) : Res Nat :=
  match acc with
  | .ok mask => if mask &&& 2 ^ f c > 0 then .err e else .ok (mask ||| 2 ^ f c)
  | r => r

theorem posFold_err {γ} (e e' : RtcmError) (f : γ → Nat) (l : List γ) :
    l.foldl (posStep e f) (.err e') = .err e' := by
  induction l with
  | nil => rfl
  | cons c l ih => simpa [List.foldl_cons, posStep] using ih

theorem posFold_good {γ} (e : RtcmError) (f : γ → Nat) (l : List γ) (m : Nat)
    (hnd : (l.map f).Nodup) (hm : ∀ c ∈ l, m.testBit (f c) = false) :
    l.foldl (posStep e f) (.ok m) = .ok (orF f l m) := by
  induction l generalizing m with
  | nil => rfl
  | cons c l ih =>
    simp only [List.map_cons, List.nodup_cons, List.mem_map, not_exists, not_and] at hnd
    have hc : ¬ (m &&& 2 ^ f c > 0) := by
      rw [and_two_pow_pos]; simp [hm c (by simp)]
    rw [List.foldl_cons, orF_cons]
    have : posStep e f (.ok m) c = .ok (m ||| 2 ^ f c) := by simp [posStep, hc]
    rw [this]
    apply ih _ hnd.2
    intro d hd
    rw [Nat.testBit_or, Nat.testBit_two_pow, hm d (by simp [hd])]
    have := hnd.1 d hd
    simp [Ne.symm this]

theorem posFold_dup {γ} (e : RtcmError) (f : γ → Nat) (pre post : List γ) (c : γ) (m : Nat)
    (hnd : (pre.map f).Nodup) (hm : ∀ c ∈ pre, m.testBit (f c) = false)
    (hdup : m.testBit (f c) = true ∨ ∃ d ∈ pre, f d = f c) :
    (pre ++ c :: post).foldl (posStep e f) (.ok m) = .err e := by
  rw [List.foldl_append, posFold_good e f pre m hnd hm, List.foldl_cons]
  have : posStep e f (.ok (orF f pre m)) c = .err e := by
    have : orF f pre m &&& 2 ^ f c > 0 := by
      rw [and_two_pow_pos, testBit_orF]; exact hdup
    simp [posStep, this]
  rw [this, posFold_err]

/-! ### satellite fold -/

def SatIn (r : SatRow) : Prop := 1 ≤ r.id ∧ r.id ≤ 64
instance (r : SatRow) : Decidable (SatIn r) := by unfold SatIn; infer_instance

theorem satFold_err (e : RtcmError) (l : List SatRow) : l.foldl satMaskStep (.err e) = .err e := by
  induction l with
  | nil => rfl
  | cons c l ih => simpa [List.foldl_cons, satMaskStep] using ih

theorem satStep_in (acc : Res Nat) (r : SatRow) (h : SatIn r) :
    satMaskStep acc r = posStep .duplicateSatellite (fun r : SatRow => 64 - r.id) acc r := by
  have h' : 0 < r.id ∧ r.id ≤ 64 := h
  cases acc <;> simp [satMaskStep, posStep, h']

theorem satStep_out (m : Nat) (r : SatRow) (h : ¬ SatIn r) :
    satMaskStep (.ok m) r = .err .invalidSatelliteId := by
  have h' : ¬ (0 < r.id ∧ r.id ≤ 64) := h
  simp [satMaskStep, h']

theorem satFold_eq_pos (l : List SatRow) (acc : Res Nat) (h : ∀ r ∈ l, SatIn r) :
    l.foldl satMaskStep acc = l.foldl (posStep .duplicateSatellite (fun r : SatRow => 64 - r.id)) acc := by
  induction l generalizing acc with
  | nil => rfl
  | cons c l ih =>
    rw [List.foldl_cons, List.foldl_cons, satStep_in acc c (h c (by simp))]
    exact ih _ (fun r hr => h r (by simp [hr]))

theorem sat_pos_nodup (l : List SatRow) (h : ∀ r ∈ l, SatIn r) (hnd : (l.map (·.id)).Nodup) :
    (l.map (fun r : SatRow => 64 - r.id)).Nodup := by
  rw [← List.map_id (l.map _)] at hnd
  rw [List.map_map] at hnd
  apply List.Nodup.map_on _ (List.Nodup.of_map _ hnd)
  intro x hx y hy hxy
  have h1 := h x hx; have h2 := h y hy
  unfold SatIn at h1 h2
  have : x.id = y.id := by omega
  exact List.inj_on_of_nodup_map hnd hx hy (by simpa using this)

/-- the satellite mask as a function of the rows -/
def satMaskOf (sats : List SatRow) : Nat := orF (fun r : SatRow => 64 - r.id) sats 0

theorem satFold_good (sats : List SatRow) (h : ∀ r ∈ sats, SatIn r) (hnd : (sats.map (·.id)).Nodup) :
    sats.foldl satMaskStep (.ok 0) = .ok (satMaskOf sats) := by
  rw [satFold_eq_pos sats _ h]
  exact posFold_good _ _ sats 0 (sat_pos_nodup sats h hnd) (by simp)

theorem satFold_invalid (pre post : List SatRow) (r : SatRow) (h : ∀ r ∈ pre, SatIn r)
    (hnd : (pre.map (·.id)).Nodup) (hr : ¬ SatIn r) :
    (pre ++ r :: post).foldl satMaskStep (.ok 0) = .err .invalidSatelliteId := by
  rw [List.foldl_append, satFold_good pre h hnd, List.foldl_cons, satStep_out _ _ hr, satFold_err]

theorem satFold_dup (pre post : List SatRow) (r : SatRow) (h : ∀ r ∈ pre, SatIn r)
    (hnd : (pre.map (·.id)).Nodup) (hr : SatIn r) (hd : r.id ∈ pre.map (·.id)) :
    (pre ++ r :: post).foldl satMaskStep (.ok 0) = .err .duplicateSatellite := by
  rw [List.foldl_append, satFold_eq_pos pre _ h, posFold_good _ _ pre 0 (sat_pos_nodup pre h hnd) (by simp),
    List.foldl_cons, satStep_in _ _ hr]
  have : posStep .duplicateSatellite (fun r : SatRow => 64 - r.id) (.ok (orF (fun r : SatRow => 64 - r.id) pre 0)) r
      = .err .duplicateSatellite := by
    have : orF (fun r : SatRow => 64 - r.id) pre 0 &&& 2 ^ (64 - r.id) > 0 := by
      rw [and_two_pow_pos, testBit_orF]
      right
      obtain ⟨d, hd, hdr⟩ := List.mem_map.mp hd
      exact ⟨d, hd, by simp [hdr]⟩
    simp [posStep, this]
  rw [this, satFold_err]

theorem satMaskOf_bit (sats : List SatRow) (k : Nat) :
    (satMaskOf sats).testBit k = true ↔ ∃ r ∈ sats, 64 - r.id = k := by
  unfold satMaskOf; rw [testBit_orF]; simp

theorem satMaskOf_bit_id (sats : List SatRow) (h : ∀ r ∈ sats, SatIn r) (s : Nat) (h1 : 1 ≤ s) (h2 : s ≤ 64) :
    (satMaskOf sats).testBit (64 - s) = true ↔ ∃ r ∈ sats, r.id = s := by
  rw [satMaskOf_bit]
  constructor
  · rintro ⟨r, hr, e⟩
    have := h r hr; unfold SatIn at this
    exact ⟨r, hr, by omega⟩
  · rintro ⟨r, hr, e⟩; exact ⟨r, hr, by omega⟩

theorem satMaskOf_lt (sats : List SatRow) (h : ∀ r ∈ sats, SatIn r) : satMaskOf sats < 2 ^ 64 :=
  orF_lt _ _ _ _ (by omega) (fun c hc => by
    have := h c hc; unfold SatIn at this
    show 64 - c.id < 64
    omega)

/-! ### signal fold -/

/-- what the proofs need from `C18.tableOk` -/
structure TableOk (tbl : SigTable) : Prop where
  ids_nodup : (tbl.map (·.1)).Nodup
  range : ∀ band attr i, Sig.toId tbl band attr = some i → 2 ≤ i ∧ i ≤ 32

theorem tableOk_of_bool (tbl : SigTable) (h : C18.tableOk tbl = true) : TableOk tbl := by
  simp only [C18.tableOk, Bool.and_eq_true, decide_eq_true_eq, List.all_eq_true] at h
  refine ⟨h.1.1, fun band attr i hi => ?_⟩
  have := h.2 _ (C18.toId_mem tbl band attr i hi)
  simpa using this

/-- identifier of the signal of a row (0 when unrecognised) -/
def sigIdOf (tbl : SigTable) (g : SigRow) : Nat := (Sig.toId tbl g.band g.attr).getD 0
def cellOf (tbl : SigTable) (g : SigRow) : Nat × Nat := (g.sat, sigIdOf tbl g)

def SigIn (g : SigRow) : Prop := 1 ≤ g.sat ∧ g.sat ≤ 64
def SigKnown (tbl : SigTable) (g : SigRow) : Prop := ∃ i, Sig.toId tbl g.band g.attr = some i
def SigGood (tbl : SigTable) (g : SigRow) : Prop := SigIn g ∧ SigKnown tbl g

theorem sigFold_err (tbl : SigTable) (e : RtcmError) (l : List SigRow) :
    l.foldl (sigStep tbl) (.err e) = .err e := by
  induction l with
  | nil => rfl
  | cons c l ih => simpa [List.foldl_cons, sigStep] using ih

theorem sigStep_good (tbl : SigTable) (hT : TableOk tbl) (a : SigAcc) (g : SigRow) (h : SigGood tbl g) :
    sigStep tbl (.ok a) g = .ok ⟨a.sigMask ||| 2 ^ (32 - sigIdOf tbl g),
      a.satSigMask ||| 2 ^ (64 - g.sat), a.cells ++ [cellOf tbl g]⟩ := by
  obtain ⟨hin, i, hi⟩ := h
  have h' : 0 < g.sat ∧ g.sat ≤ 64 := hin
  have hr := hT.range _ _ _ hi
  have : ¬ (i > 32 ∨ i = 0) := by omega
  simp [sigStep, h', hi, this, sigIdOf, cellOf]

theorem sigStep_out (tbl : SigTable) (a : SigAcc) (g : SigRow) (h : ¬ SigIn g) :
    sigStep tbl (.ok a) g = .err .invalidSatelliteId := by
  have h' : ¬ (0 < g.sat ∧ g.sat ≤ 64) := h
  simp [sigStep, h']

theorem sigStep_unknown (tbl : SigTable) (a : SigAcc) (g : SigRow) (h : SigIn g)
    (hu : Sig.toId tbl g.band g.attr = none) :
    sigStep tbl (.ok a) g = .err .invalidSignalId := by
  have h' : 0 < g.sat ∧ g.sat ≤ 64 := h
  simp [sigStep, h', hu]

theorem sigFold_good (tbl : SigTable) (hT : TableOk tbl) (sigs : List SigRow) (a : SigAcc)
    (h : ∀ g ∈ sigs, SigGood tbl g) :
    sigs.foldl (sigStep tbl) (.ok a) = .ok ⟨orF (fun g => 32 - sigIdOf tbl g) sigs a.sigMask,
      orF (fun g : SigRow => 64 - g.sat) sigs a.satSigMask, a.cells ++ sigs.map (cellOf tbl)⟩ := by
  induction sigs generalizing a with
  | nil => simp
  | cons g l ih =>
    rw [List.foldl_cons, sigStep_good tbl hT a g (h g (by simp)), ih _ (fun x hx => h x (by simp [hx]))]
    simp

theorem sigFold_invalid (tbl : SigTable) (hT : TableOk tbl) (pre post : List SigRow) (g : SigRow) (a : SigAcc)
    (h : ∀ g ∈ pre, SigGood tbl g) (hg : ¬ SigIn g) :
    (pre ++ g :: post).foldl (sigStep tbl) (.ok a) = .err .invalidSatelliteId := by
  rw [List.foldl_append, sigFold_good tbl hT pre a h, List.foldl_cons, sigStep_out _ _ _ hg, sigFold_err]

theorem sigFold_unknown (tbl : SigTable) (hT : TableOk tbl) (pre post : List SigRow) (g : SigRow) (a : SigAcc)
    (h : ∀ g ∈ pre, SigGood tbl g) (hg : SigIn g) (hu : Sig.toId tbl g.band g.attr = none) :
    (pre ++ g :: post).foldl (sigStep tbl) (.ok a) = .err .invalidSignalId := by
  rw [List.foldl_append, sigFold_good tbl hT pre a h, List.foldl_cons, sigStep_unknown _ _ _ hg hu, sigFold_err]

def sigMaskOf (tbl : SigTable) (sigs : List SigRow) : Nat := orF (fun g => 32 - sigIdOf tbl g) sigs 0
def satSigMaskOf (sigs : List SigRow) : Nat := orF (fun g : SigRow => 64 - g.sat) sigs 0

theorem sigIdOf_eq (tbl : SigTable) (g : SigRow) (i : Nat) (h : Sig.toId tbl g.band g.attr = some i) :
    sigIdOf tbl g = i := by simp [sigIdOf, h]

theorem sigIdOf_range (tbl : SigTable) (hT : TableOk tbl) (g : SigRow) (h : SigKnown tbl g) :
    2 ≤ sigIdOf tbl g ∧ sigIdOf tbl g ≤ 32 ∧ Sig.toId tbl g.band g.attr = some (sigIdOf tbl g) := by
  obtain ⟨i, hi⟩ := h
  rw [sigIdOf_eq tbl g i hi]
  exact ⟨(hT.range _ _ _ hi).1, (hT.range _ _ _ hi).2, hi⟩

theorem sigMaskOf_bit_id (tbl : SigTable) (hT : TableOk tbl) (sigs : List SigRow) (h : ∀ g ∈ sigs, SigKnown tbl g)
    (i : Nat) (h1 : 1 ≤ i) (h2 : i ≤ 32) :
    (sigMaskOf tbl sigs).testBit (32 - i) = true ↔ ∃ g ∈ sigs, Sig.toId tbl g.band g.attr = some i := by
  unfold sigMaskOf
  rw [testBit_orF]
  simp only [Nat.zero_testBit, Bool.false_eq_true, false_or]
  constructor
  · rintro ⟨g, hg, e⟩
    have := sigIdOf_range tbl hT g (h g hg)
    exact ⟨g, hg, by rw [this.2.2]; congr 1; omega⟩
  · rintro ⟨g, hg, e⟩
    exact ⟨g, hg, by rw [sigIdOf_eq tbl g i e]⟩

theorem sigMaskOf_lt (tbl : SigTable) (hT : TableOk tbl) (sigs : List SigRow) (h : ∀ g ∈ sigs, SigKnown tbl g) :
    sigMaskOf tbl sigs < 2 ^ 32 :=
  orF_lt _ _ _ _ (by omega) (fun g hg => by
    have := sigIdOf_range tbl hT g (h g hg)
    show 32 - sigIdOf tbl g < 32
    omega)

theorem satSigMaskOf_bit_id (sigs : List SigRow) (h : ∀ g ∈ sigs, SigIn g) (s : Nat) (h1 : 1 ≤ s) (h2 : s ≤ 64) :
    (satSigMaskOf sigs).testBit (64 - s) = true ↔ ∃ g ∈ sigs, g.sat = s := by
  unfold satSigMaskOf
  rw [testBit_orF]
  simp only [Nat.zero_testBit, Bool.false_eq_true, false_or]
  constructor
  · rintro ⟨g, hg, e⟩
    have := h g hg; unfold SigIn at this
    exact ⟨g, hg, by omega⟩
  · rintro ⟨g, hg, e⟩; exact ⟨g, hg, by omega⟩

theorem satSigMaskOf_lt (sigs : List SigRow) (h : ∀ g ∈ sigs, SigIn g) : satSigMaskOf sigs < 2 ^ 64 :=
  orF_lt _ _ _ _ (by omega) (fun g hg => by
    have := h g hg; unfold SigIn at this
    show 64 - g.sat < 64
    omega)

/-- two masks below `2^B` are equal iff they agree on the bits of the identifiers `1..=B` -/
theorem mask_eq_iff (B m m' : Nat) (hm : m < 2 ^ B) (hm' : m' < 2 ^ B) :
    m = m' ↔ ∀ s, 1 ≤ s → s ≤ B → m.testBit (B - s) = m'.testBit (B - s) := by
  constructor
  · rintro rfl; intros; rfl
  · intro h
    apply Nat.eq_of_testBit_eq
    intro i
    by_cases hi : i < B
    · have := h (B - i) (by omega) (by omega)
      rwa [show B - (B - i) = i by omega] at this
    · rw [Nat.testBit_lt_two_pow (Nat.lt_of_lt_of_le hm (Nat.pow_le_pow_right (by omega) (by omega))),
        Nat.testBit_lt_two_pow (Nat.lt_of_lt_of_le hm' (Nat.pow_le_pow_right (by omega) (by omega)))]

theorem satMask_eq_iff (sats : List SatRow) (sigs : List SigRow) (h : ∀ r ∈ sats, SatIn r)
    (h' : ∀ g ∈ sigs, SigIn g) :
    satMaskOf sats = satSigMaskOf sigs ↔
      ((∀ r ∈ sats, ∃ g ∈ sigs, g.sat = r.id) ∧ (∀ g ∈ sigs, ∃ r ∈ sats, r.id = g.sat)) := by
  rw [mask_eq_iff 64 _ _ (satMaskOf_lt sats h) (satSigMaskOf_lt sigs h')]
  constructor
  · intro hb
    constructor
    · intro r hr
      have hi := h r hr; unfold SatIn at hi
      have := hb r.id hi.1 hi.2
      rw [(satMaskOf_bit_id sats h r.id hi.1 hi.2).mpr ⟨r, hr, rfl⟩] at this
      exact (satSigMaskOf_bit_id sigs h' r.id hi.1 hi.2).mp this.symm
    · intro g hg
      have hi := h' g hg; unfold SigIn at hi
      have := hb g.sat hi.1 hi.2
      rw [(satSigMaskOf_bit_id sigs h' g.sat hi.1 hi.2).mpr ⟨g, hg, rfl⟩] at this
      exact (satMaskOf_bit_id sats h g.sat hi.1 hi.2).mp this
  · rintro ⟨h1, h2⟩ s hs1 hs2
    rw [Bool.eq_iff_iff, satMaskOf_bit_id sats h s hs1 hs2, satSigMaskOf_bit_id sigs h' s hs1 hs2]
    constructor
    · rintro ⟨r, hr, rfl⟩; exact h1 r hr
    · rintro ⟨g, hg, rfl⟩; exact h2 g hg

/-! ## Part B: counting set bits -/

/-- number of set bits among the first `n` identifiers (MSB first) -/
def cnt (bits m n : Nat) : Nat := (List.range n).countP fun i => m.testBit (bits - 1 - i)

theorem rankOf_eq_cnt (bits m id : Nat) : rankOf bits m id = cnt bits m (id - 1) := by
  simp [rankOf, cnt, List.countP_eq_length_filter]

theorem popcount_eq_cnt (bits m : Nat) : popcount bits m = cnt bits m bits := by
  unfold popcount cnt
  rw [← List.countP_eq_length_filter, ← List.countP_reverse, List.range_eq_range', List.reverse_range',
    List.countP_map]
  simp only [Nat.zero_add, ← List.range_eq_range']
  rfl

/-- number of members below `x` -/
def rankIn (ids : List Nat) (x : Nat) : Nat := (ids.filter (· < x)).length

theorem cnt_eq_filter (B m : Nat) (ids : List Nat) (hnd : ids.Nodup)
    (hb : ∀ s, 1 ≤ s → s ≤ B → (m.testBit (B - s) = true ↔ s ∈ ids))
    (n : Nat) (hn : n ≤ B) :
    cnt B m n = (ids.filter (fun s => decide (1 ≤ s ∧ s ≤ n))).length := by
  unfold cnt
  rw [List.countP_eq_length_filter, ← List.length_map (f := (· + 1))]
  apply List.Perm.length_eq
  rw [List.perm_ext_iff_of_nodup]
  · intro a
    simp only [List.mem_map, List.mem_filter, List.mem_range, decide_eq_true_eq]
    constructor
    · rintro ⟨i, ⟨hi, hbit⟩, rfl⟩
      have := (hb (i + 1) (by omega) (by omega)).mp (by rwa [show B - (i + 1) = B - 1 - i by omega])
      exact ⟨this, by omega, by omega⟩
    · rintro ⟨ha, h1, h2⟩
      refine ⟨a - 1, ⟨by omega, ?_⟩, by omega⟩
      have := (hb a h1 (by omega)).mpr ha
      rwa [show B - a = B - 1 - (a - 1) by omega] at this
  · exact (List.nodup_range.filter _).map (fun a b h => by simpa using h)
  · exact hnd.filter _

theorem popcount_eq_length (B m : Nat) (ids : List Nat) (hnd : ids.Nodup)
    (hb : ∀ s, 1 ≤ s → s ≤ B → (m.testBit (B - s) = true ↔ s ∈ ids))
    (hr : ∀ s ∈ ids, 1 ≤ s ∧ s ≤ B) : popcount B m = ids.length := by
  rw [popcount_eq_cnt, cnt_eq_filter B m ids hnd hb B (Nat.le_refl _)]
  congr 1
  rw [List.filter_eq_self]
  intro a ha; simpa using hr a ha

theorem rankOf_eq_rankIn (B m : Nat) (ids : List Nat) (hnd : ids.Nodup)
    (hb : ∀ s, 1 ≤ s → s ≤ B → (m.testBit (B - s) = true ↔ s ∈ ids))
    (hr : ∀ s ∈ ids, 1 ≤ s ∧ s ≤ B) (x : Nat) (hx : x ≤ B + 1) : rankOf B m x = rankIn ids x := by
  rw [rankOf_eq_cnt, cnt_eq_filter B m ids hnd hb (x - 1) (by omega)]
  unfold rankIn
  congr 1
  apply List.filter_congr
  intro a ha
  have := hr a ha
  simp only [decide_eq_decide]
  omega

theorem rankIn_le (ids : List Nat) (x y : Nat) (h : x ≤ y) : rankIn ids x ≤ rankIn ids y := by
  unfold rankIn
  rw [← List.countP_eq_length_filter, ← List.countP_eq_length_filter]
  apply List.countP_mono_left
  intro a _ ha
  simp only [decide_eq_true_eq] at *
  omega

theorem rankIn_lt (ids : List Nat) (x y : Nat) (hx : x ∈ ids) (h : x < y) : rankIn ids x < rankIn ids y := by
  unfold rankIn
  rw [← List.countP_eq_length_filter, ← List.countP_eq_length_filter]
  induction ids with
  | nil => cases hx
  | cons a l ih =>
    simp only [List.countP_cons, decide_eq_true_eq]
    have hle := rankIn_le l x y (Nat.le_of_lt h)
    unfold rankIn at hle
    rw [← List.countP_eq_length_filter, ← List.countP_eq_length_filter] at hle
    rcases List.mem_cons.mp hx with rfl | hx'
    · simp only [Nat.lt_irrefl, if_false, h, if_true]; omega
    · have := ih hx'
      split <;> split <;> omega

theorem rankIn_inj (ids : List Nat) (x y : Nat) (hx : x ∈ ids) (hy : y ∈ ids) (h : rankIn ids x = rankIn ids y) :
    x = y := by
  rcases Nat.lt_trichotomy x y with hlt | heq | hgt
  · have := rankIn_lt ids x y hx hlt; omega
  · exact heq
  · have := rankIn_lt ids y x hy hgt; omega

theorem rankIn_lt_length (ids : List Nat) (x : Nat) (hx : x ∈ ids) : rankIn ids x < ids.length := by
  unfold rankIn
  rw [← List.countP_eq_length_filter]
  induction ids with
  | nil => cases hx
  | cons a l ih =>
    simp only [List.countP_cons, decide_eq_true_eq, List.length_cons]
    have hle : List.countP (fun s => decide (s < x)) l ≤ l.length := List.countP_le_length
    rcases List.mem_cons.mp hx with rfl | hx'
    · simp only [Nat.lt_irrefl, if_false]; omega
    · have := ih hx'
      split <;> omega

theorem idx_inj (n a b a' b' : Nat) (hb : b < n) (hb' : b' < n) (h : a * n + b = a' * n + b') :
    a = a' ∧ b = b' := by
  have key : ∀ a b a' b', b < n → b' < n → a * n + b = a' * n + b' → ¬ a < a' := by
    intro a b a' b' hb hb' h hlt
    have : (a + 1) * n ≤ a' * n := Nat.mul_le_mul_right n hlt
    rw [Nat.add_mul] at this
    omega
  have h1 := key a b a' b' hb hb' h
  have h2 := key a' b' a b hb' hb h.symm
  have : a = a' := by omega
  subst this
  exact ⟨rfl, by omega⟩

theorem idx_lt (n k a b : Nat) (ha : a < k) (hb : b < n) : a * n + b < k * n := by
  have : (a + 1) * n ≤ k * n := Nat.mul_le_mul_right n ha
  rw [Nat.add_mul] at this
  omega

/-! ### cell fold and the complete success case -/

/-- the distinct recognised signal identifiers used by the signal rows, ascending (`G`) -/
def sigIdSet (tbl : SigTable) (sigs : List SigRow) : List Nat :=
  (List.range 33).filter fun i => sigs.any fun g => Sig.toId tbl g.band g.attr == some i

theorem mem_sigIdSet (tbl : SigTable) (hT : TableOk tbl) (sigs : List SigRow) (i : Nat) :
    i ∈ sigIdSet tbl sigs ↔ ∃ g ∈ sigs, Sig.toId tbl g.band g.attr = some i := by
  unfold sigIdSet
  simp only [List.mem_filter, List.mem_range, List.any_eq_true, beq_iff_eq]
  constructor
  · exact fun h => h.2
  · rintro ⟨g, hg, e⟩
    have := hT.range _ _ _ e
    exact ⟨by omega, g, hg, e⟩

theorem sigIdSet_nodup (tbl : SigTable) (sigs : List SigRow) : (sigIdSet tbl sigs).Nodup :=
  List.nodup_range.filter _

theorem sigIdSet_range (tbl : SigTable) (hT : TableOk tbl) (sigs : List SigRow) (i : Nat)
    (h : i ∈ sigIdSet tbl sigs) : 1 ≤ i ∧ i ≤ 32 := by
  obtain ⟨g, _, e⟩ := (mem_sigIdSet tbl hT sigs i).mp h
  have := hT.range _ _ _ e
  omega

/-- preconditions of the encoder (satellites `S`, cells `C` over recognised signals `G`) -/
structure Pre (tbl : SigTable) (sats : List SatRow) (sigs : List SigRow) : Prop where
  sat_range : ∀ r ∈ sats, 1 ≤ r.id ∧ r.id ≤ 64
  sat_distinct : (sats.map (·.id)).Nodup
  sig_sat_range : ∀ g ∈ sigs, 1 ≤ g.sat ∧ g.sat ≤ 64
  sig_known : ∀ g ∈ sigs, ∃ i, Sig.toId tbl g.band g.attr = some i
  cell_distinct : (sigs.map fun g => (g.sat, g.band, g.attr)).Nodup
  sats_used : ∀ r ∈ sats, ∃ g ∈ sigs, g.sat = r.id
  sigs_listed : ∀ g ∈ sigs, ∃ r ∈ sats, r.id = g.sat
  nonempty : sats ≠ []
  cells_le : sats.length * (sigIdSet tbl sigs).length ≤ 64

def cellPos (tbl : SigTable) (satMask sigMask sigLen cellLen : Nat) (g : SigRow) : Nat :=
  cellLen - 1 - (rankOf 64 satMask g.sat * sigLen + rankOf 32 sigMask (sigIdOf tbl g))

theorem cellFold_eq (tbl : SigTable) (satMask sigMask sigLen cellLen : Nat) (sigs : List SigRow) (acc : Res Nat) :
    (sigs.map (cellOf tbl)).foldl (cellStep satMask sigMask sigLen cellLen) acc =
      sigs.foldl (posStep .duplicateSatelliteSignal (cellPos tbl satMask sigMask sigLen cellLen)) acc := by
  induction sigs generalizing acc with
  | nil => rfl
  | cons g l ih =>
    rw [List.map_cons, List.foldl_cons, List.foldl_cons, ih]
    congr 1

/-- everything before the cell loop succeeded -/
structure Good (tbl : SigTable) (sats : List SatRow) (sigs : List SigRow) : Prop where
  sat_range : ∀ r ∈ sats, SatIn r
  sat_distinct : (sats.map (·.id)).Nodup
  sig_good : ∀ g ∈ sigs, SigGood tbl g
  sats_used : ∀ r ∈ sats, ∃ g ∈ sigs, g.sat = r.id
  sigs_listed : ∀ g ∈ sigs, ∃ r ∈ sats, r.id = g.sat
  nonempty : sats ≠ []

theorem Pre.good {tbl : SigTable} {sats : List SatRow} {sigs : List SigRow} (P : Pre tbl sats sigs) :
    Good tbl sats sigs :=
  ⟨P.sat_range, P.sat_distinct, fun g hg => ⟨P.sig_sat_range g hg, P.sig_known g hg⟩, P.sats_used,
    P.sigs_listed, P.nonempty⟩

section good
set_option linter.unusedSectionVars false
variable {tbl : SigTable} (hT : TableOk tbl) {sats : List SatRow} {sigs : List SigRow} (P : Good tbl sats sigs)
include hT P

omit hT in
theorem Good.sat_bits (s : Nat) (h1 : 1 ≤ s) (h2 : s ≤ 64) :
    (satMaskOf sats).testBit (64 - s) = true ↔ s ∈ sats.map (·.id) := by
  rw [satMaskOf_bit_id sats P.sat_range s h1 h2]; simp

theorem Good.sig_bits (i : Nat) (h1 : 1 ≤ i) (h2 : i ≤ 32) :
    (sigMaskOf tbl sigs).testBit (32 - i) = true ↔ i ∈ sigIdSet tbl sigs := by
  rw [sigMaskOf_bit_id tbl hT sigs (fun g hg => (P.sig_good g hg).2) i h1 h2, mem_sigIdSet tbl hT]

theorem Good.popcount_sat : popcount 64 (satMaskOf sats) = sats.length := by
  rw [popcount_eq_length 64 _ (sats.map (·.id)) P.sat_distinct P.sat_bits, List.length_map]
  intro s hs
  obtain ⟨r, hr, rfl⟩ := List.mem_map.mp hs
  exact P.sat_range r hr

theorem Good.popcount_sig : popcount 32 (sigMaskOf tbl sigs) = (sigIdSet tbl sigs).length :=
  popcount_eq_length 32 _ _ (sigIdSet_nodup tbl sigs) (P.sig_bits hT) (sigIdSet_range tbl hT sigs)

theorem Good.sat_rank (s : Nat) (hs : s ≤ 65) :
    rankOf 64 (satMaskOf sats) s = rankIn (sats.map (·.id)) s := by
  apply rankOf_eq_rankIn 64 _ _ P.sat_distinct P.sat_bits _ s hs
  intro s hs
  obtain ⟨r, hr, rfl⟩ := List.mem_map.mp hs
  exact P.sat_range r hr

theorem Good.sig_rank (i : Nat) (hi : i ≤ 33) :
    rankOf 32 (sigMaskOf tbl sigs) i = rankIn (sigIdSet tbl sigs) i :=
  rankOf_eq_rankIn 32 _ _ (sigIdSet_nodup tbl sigs) (P.sig_bits hT) (sigIdSet_range tbl hT sigs) i hi

theorem Good.sig_mem (g : SigRow) (hg : g ∈ sigs) :
    g.sat ∈ sats.map (·.id) ∧ sigIdOf tbl g ∈ sigIdSet tbl sigs ∧
      Sig.toId tbl g.band g.attr = some (sigIdOf tbl g) := by
  obtain ⟨r, hr, e⟩ := P.sigs_listed g hg
  have := sigIdOf_range tbl hT g (P.sig_good g hg).2
  exact ⟨List.mem_map.mpr ⟨r, hr, e⟩, (mem_sigIdSet tbl hT sigs _).mpr ⟨g, hg, this.2.2⟩, this.2.2⟩

omit hT in
theorem Good.sigs_nonempty : sigs ≠ [] := by
  obtain ⟨r, hr⟩ := List.exists_mem_of_ne_nil _ P.nonempty
  obtain ⟨g, hg, _⟩ := P.sats_used r hr
  exact List.ne_nil_of_mem hg

theorem Good.sigIdSet_pos : 1 ≤ (sigIdSet tbl sigs).length := by
  obtain ⟨g, hg⟩ := List.exists_mem_of_ne_nil _ P.sigs_nonempty
  have := (P.sig_mem hT g hg).2.1
  exact List.length_pos_of_mem this

/-- the cell index of a listed cell, in terms of ranks, and its bound (no underflow in
`cell_cont_len - 1 - cell_indx`) -/
theorem Good.cell_idx (g : SigRow) (hg : g ∈ sigs) :
    rankOf 64 (satMaskOf sats) g.sat * (sigIdSet tbl sigs).length + rankOf 32 (sigMaskOf tbl sigs) (sigIdOf tbl g)
      = rankIn (sats.map (·.id)) g.sat * (sigIdSet tbl sigs).length + rankIn (sigIdSet tbl sigs) (sigIdOf tbl g) ∧
    rankIn (sats.map (·.id)) g.sat * (sigIdSet tbl sigs).length + rankIn (sigIdSet tbl sigs) (sigIdOf tbl g)
      < sats.length * (sigIdSet tbl sigs).length := by
  have hm := P.sig_mem hT g hg
  have h1 := (P.sig_good g hg).1; unfold SigIn at h1
  have h2 := sigIdSet_range tbl hT sigs _ hm.2.1
  rw [P.sat_rank hT g.sat (by omega), P.sig_rank hT _ (by omega)]
  refine ⟨rfl, idx_lt _ _ _ _ ?_ (rankIn_lt_length _ _ hm.2.1)⟩
  have := rankIn_lt_length _ _ hm.1
  rwa [List.length_map] at this

theorem Good.cellPos_inj (hnd : (sigs.map fun g => (g.sat, g.band, g.attr)).Nodup)
    (g g' : SigRow) (hg : g ∈ sigs) (hg' : g' ∈ sigs)
    (h : cellPos tbl (satMaskOf sats) (sigMaskOf tbl sigs) (sigIdSet tbl sigs).length
          ((sigIdSet tbl sigs).length * sats.length) g =
         cellPos tbl (satMaskOf sats) (sigMaskOf tbl sigs) (sigIdSet tbl sigs).length
          ((sigIdSet tbl sigs).length * sats.length) g') : g = g' := by
  unfold cellPos at h
  have c1 := P.cell_idx hT g hg
  have c2 := P.cell_idx hT g' hg'
  rw [c1.1, c2.1] at h
  rw [Nat.mul_comm (sigIdSet tbl sigs).length] at h
  have hidx := idx_inj (sigIdSet tbl sigs).length (rankIn (sats.map (·.id)) g.sat)
    (rankIn (sigIdSet tbl sigs) (sigIdOf tbl g)) (rankIn (sats.map (·.id)) g'.sat)
    (rankIn (sigIdSet tbl sigs) (sigIdOf tbl g')) (rankIn_lt_length _ _ (P.sig_mem hT g hg).2.1)
    (rankIn_lt_length _ _ (P.sig_mem hT g' hg').2.1) (by omega)
  have e1 := rankIn_inj _ _ _ (P.sig_mem hT g hg).1 (P.sig_mem hT g' hg').1 hidx.1
  have e2 := rankIn_inj _ _ _ (P.sig_mem hT g hg).2.1 (P.sig_mem hT g' hg').2.1 hidx.2
  have e3 := C18.toId_injective tbl hT.ids_nodup (g.band, g.attr) (g'.band, g'.attr) _
    (P.sig_mem hT g hg).2.2 (by rw [e2]; exact (P.sig_mem hT g' hg').2.2)
  apply List.inj_on_of_nodup_map hnd hg hg'
  simp only [Prod.mk.injEq] at e3 ⊢
  exact ⟨e1, e3.1, e3.2⟩

end good

/-- the cell mask as a function of the rows -/
def cellMaskOf (tbl : SigTable) (sats : List SatRow) (sigs : List SigRow) : Nat :=
  orF (cellPos tbl (satMaskOf sats) (sigMaskOf tbl sigs) (sigIdSet tbl sigs).length
    ((sigIdSet tbl sigs).length * sats.length)) sigs 0

/-- `masks` once both row loops succeeded -/
theorem masks_of_folds (tbl : SigTable) (sats : List SatRow) (sigs : List SigRow) (satMask : Nat) (a : SigAcc)
    (hne : sats ≠ [] ∨ sigs ≠ [])
    (h1 : sats.foldl satMaskStep (.ok 0) = .ok satMask)
    (h2 : sigs.foldl (sigStep tbl) (.ok { sigMask := 0, satSigMask := 0, cells := [] }) = .ok a) :
    masks tbl sats sigs =
      if satMask ≠ a.satSigMask then .err .satelliteMismatch
      else if popcount 32 a.sigMask * sats.length > 64 then .err .invalidSatelliteSignalCount
      else match a.cells.foldl (cellStep satMask a.sigMask (popcount 32 a.sigMask)
              (popcount 32 a.sigMask * sats.length)) (.ok 0) with
        | .ok cellMask => .ok (some (satMask, a.sigMask, cellMask, popcount 32 a.sigMask * sats.length))
        | .err e => .err e
        | .panic p => .panic p := by
  have : ¬ (sats.length = 0 ∧ sigs.length = 0) := by
    simp only [List.length_eq_zero_iff]; tauto
  unfold masks
  rw [if_neg this, h1, h2]
  rfl

theorem masks_good (tbl : SigTable) (hT : TableOk tbl) (sats : List SatRow) (sigs : List SigRow)
    (P : Good tbl sats sigs) :
    masks tbl sats sigs =
      if (sigIdSet tbl sigs).length * sats.length > 64 then .err .invalidSatelliteSignalCount
      else match sigs.foldl (posStep .duplicateSatelliteSignal (cellPos tbl (satMaskOf sats) (sigMaskOf tbl sigs)
              (sigIdSet tbl sigs).length ((sigIdSet tbl sigs).length * sats.length))) (.ok 0) with
        | .ok cellMask => .ok (some (satMaskOf sats, sigMaskOf tbl sigs, cellMask,
            (sigIdSet tbl sigs).length * sats.length))
        | .err e => .err e
        | .panic p => .panic p := by
  rw [masks_of_folds tbl sats sigs _ _ (Or.inl P.nonempty) (satFold_good sats P.sat_range P.sat_distinct)
    (sigFold_good tbl hT sigs _ P.sig_good)]
  have hm : satMaskOf sats = satSigMaskOf sigs :=
    (satMask_eq_iff sats sigs P.sat_range (fun g hg => (P.sig_good g hg).1)).mpr ⟨P.sats_used, P.sigs_listed⟩
  simp only [List.nil_append]
  rw [if_neg (by simpa [satSigMaskOf] using hm)]
  have hp : popcount 32 (orF (fun g => 32 - sigIdOf tbl g) sigs 0) = (sigIdSet tbl sigs).length :=
    P.popcount_sig hT
  rw [hp, cellFold_eq]
  rfl

theorem masks_pre (tbl : SigTable) (hT : TableOk tbl) (sats : List SatRow) (sigs : List SigRow)
    (P : Pre tbl sats sigs) :
    masks tbl sats sigs = .ok (some (satMaskOf sats, sigMaskOf tbl sigs, cellMaskOf tbl sats sigs,
      (sigIdSet tbl sigs).length * sats.length)) := by
  rw [masks_good tbl hT sats sigs P.good, if_neg (by have := P.cells_le; rw [Nat.mul_comm]; omega)]
  rw [posFold_good]
  · rfl
  · rw [← List.map_id (sigs.map _)] 
    apply List.Nodup.map_on _ (List.Nodup.of_map _ P.cell_distinct) |> fun h => by simpa using h
    intro g hg g' hg' h
    exact P.good.cellPos_inj hT P.cell_distinct g g' hg hg' h
  · simp

theorem cellMaskOf_bit (tbl : SigTable) (sats : List SatRow) (sigs : List SigRow) (k : Nat) :
    (cellMaskOf tbl sats sigs).testBit k = true ↔
      ∃ g ∈ sigs, cellPos tbl (satMaskOf sats) (sigMaskOf tbl sigs) (sigIdSet tbl sigs).length
        ((sigIdSet tbl sigs).length * sats.length) g = k := by
  unfold cellMaskOf; rw [testBit_orF]; simp

theorem Good.cellPos_eq {tbl : SigTable} (hT : TableOk tbl) {sats : List SatRow} {sigs : List SigRow}
    (P : Good tbl sats sigs) (g : SigRow) (hg : g ∈ sigs) :
    cellPos tbl (satMaskOf sats) (sigMaskOf tbl sigs) (sigIdSet tbl sigs).length
        ((sigIdSet tbl sigs).length * sats.length) g =
      sats.length * (sigIdSet tbl sigs).length - 1 -
        (rankIn (sats.map (·.id)) g.sat * (sigIdSet tbl sigs).length + rankIn (sigIdSet tbl sigs) (sigIdOf tbl g)) := by
  unfold cellPos
  rw [(P.cell_idx hT g hg).1, Nat.mul_comm (sigIdSet tbl sigs).length]

theorem Good.cell_incidence {tbl : SigTable} (hT : TableOk tbl) {sats : List SatRow} {sigs : List SigRow}
    (P : Good tbl sats sigs) (s i : Nat) (hs : s ∈ sats.map (·.id)) (hi : i ∈ sigIdSet tbl sigs) :
    (cellMaskOf tbl sats sigs).testBit (sats.length * (sigIdSet tbl sigs).length - 1 -
        (rankIn (sats.map (·.id)) s * (sigIdSet tbl sigs).length + rankIn (sigIdSet tbl sigs) i)) = true ↔
      ∃ g ∈ sigs, g.sat = s ∧ Sig.toId tbl g.band g.attr = some i := by
  rw [cellMaskOf_bit]
  have hlt : rankIn (sats.map (·.id)) s * (sigIdSet tbl sigs).length + rankIn (sigIdSet tbl sigs) i
      < sats.length * (sigIdSet tbl sigs).length := by
    apply idx_lt _ _ _ _ _ (rankIn_lt_length _ _ hi)
    have := rankIn_lt_length _ _ hs
    rwa [List.length_map] at this
  constructor
  · rintro ⟨g, hg, e⟩
    rw [P.cellPos_eq hT g hg] at e
    have c := (P.cell_idx hT g hg).2
    have hm := P.sig_mem hT g hg
    have hidx := idx_inj (sigIdSet tbl sigs).length (rankIn (sats.map (·.id)) g.sat)
      (rankIn (sigIdSet tbl sigs) (sigIdOf tbl g)) (rankIn (sats.map (·.id)) s)
      (rankIn (sigIdSet tbl sigs) i) (rankIn_lt_length _ _ hm.2.1) (rankIn_lt_length _ _ hi) (by omega)
    have e1 := rankIn_inj _ _ _ hm.1 hs hidx.1
    have e2 := rankIn_inj _ _ _ hm.2.1 hi hidx.2
    exact ⟨g, hg, e1, by rw [← e2]; exact hm.2.2⟩
  · rintro ⟨g, hg, e1, e2⟩
    refine ⟨g, hg, ?_⟩
    rw [P.cellPos_eq hT g hg, e1, sigIdOf_eq tbl g i e2]

theorem Good.cellMaskOf_lt {tbl : SigTable} (hT : TableOk tbl) {sats : List SatRow} {sigs : List SigRow}
    (P : Good tbl sats sigs) : cellMaskOf tbl sats sigs < 2 ^ ((sigIdSet tbl sigs).length * sats.length) := by
  apply orF_lt _ _ _ _ (Nat.two_pow_pos _)
  intro g hg
  rw [P.cellPos_eq hT g hg]
  have c := (P.cell_idx hT g hg).2
  rw [Nat.mul_comm (sigIdSet tbl sigs).length]
  omega

theorem Good.cellLen_pos {tbl : SigTable} (hT : TableOk tbl) {sats : List SatRow} {sigs : List SigRow}
    (P : Good tbl sats sigs) : 1 ≤ (sigIdSet tbl sigs).length * sats.length := by
  have h1 := P.sigIdSet_pos hT
  have h2 : 1 ≤ sats.length := List.length_pos_iff.mpr P.nonempty
  exact Nat.mul_le_mul h1 h2

/-! ## Part D: first offending element, error cases of `masks` -/

theorem exists_first_bad {α} (P : List α → Prop) (h0 : P []) (l : List α) (h : ¬ P l) :
    ∃ pre x post, l = pre ++ x :: post ∧ P pre ∧ ¬ P (pre ++ [x]) := by
  induction l using List.reverseRecOn with
  | nil => exact absurd h0 h
  | append_singleton init x ih =>
    by_cases hi : P init
    · exact ⟨init, x, [], rfl, hi, h⟩
    · obtain ⟨pre, y, post, e, h1, h2⟩ := ih hi
      exact ⟨pre, y, post ++ [x], by rw [e]; simp, h1, h2⟩

theorem exists_first_dup_map {α β} (f : α → β) (l : List α) (h : ¬ (l.map f).Nodup) :
    ∃ pre x post, l = pre ++ x :: post ∧ (pre.map f).Nodup ∧ f x ∈ pre.map f := by
  obtain ⟨pre, x, post, e, h1, h2⟩ := exists_first_bad (fun l => (l.map f).Nodup) (by simp) l h
  refine ⟨pre, x, post, e, h1, ?_⟩
  by_contra hx
  apply h2
  rw [List.map_append, List.nodup_append]
  refine ⟨h1, by simp, ?_⟩
  intro a ha b hb
  simp only [List.map_cons, List.map_nil, List.mem_singleton] at hb
  subst hb
  rintro rfl
  exact hx ha

def SatsOk (sats : List SatRow) : Prop := (∀ r ∈ sats, SatIn r) ∧ (sats.map (·.id)).Nodup

/-- a list of satellite rows is fine, or has a first offending row -/
theorem sats_ok_or_first_bad (sats : List SatRow) :
    SatsOk sats ∨ ∃ pre r post, sats = pre ++ r :: post ∧ SatsOk pre ∧
      (¬ SatIn r ∨ (SatIn r ∧ r.id ∈ pre.map (·.id))) := by
  by_cases h : SatsOk sats
  · exact Or.inl h
  · right
    obtain ⟨pre, r, post, e, h1, h2⟩ := exists_first_bad SatsOk ⟨by simp, by simp⟩ sats h
    refine ⟨pre, r, post, e, h1, ?_⟩
    by_cases hr : SatIn r
    · right
      refine ⟨hr, ?_⟩
      by_contra hm
      apply h2
      refine ⟨?_, ?_⟩
      · intro x hx
        rcases List.mem_append.mp hx with hx | hx
        · exact h1.1 x hx
        · simp only [List.mem_singleton] at hx; subst hx; exact hr
      · rw [List.map_append, List.nodup_append]
        refine ⟨h1.2, by simp, ?_⟩
        intro a ha b hb
        simp only [List.map_cons, List.map_nil, List.mem_singleton] at hb
        subst hb
        rintro rfl
        exact hm ha
    · exact Or.inl hr

theorem sigs_ok_or_first_bad (tbl : SigTable) (sigs : List SigRow) :
    (∀ g ∈ sigs, SigGood tbl g) ∨ ∃ pre g post, sigs = pre ++ g :: post ∧ (∀ g ∈ pre, SigGood tbl g) ∧
      (¬ SigIn g ∨ (SigIn g ∧ Sig.toId tbl g.band g.attr = none)) := by
  by_cases h : ∀ g ∈ sigs, SigGood tbl g
  · exact Or.inl h
  · right
    obtain ⟨pre, g, post, e, h1, h2⟩ := exists_first_bad (fun l => ∀ g ∈ l, SigGood tbl g) (by simp) sigs h
    refine ⟨pre, g, post, e, h1, ?_⟩
    by_cases hg : SigIn g
    · right
      refine ⟨hg, ?_⟩
      cases hk : Sig.toId tbl g.band g.attr with
      | none => rfl
      | some i =>
        exfalso; apply h2
        intro x hx
        rcases List.mem_append.mp hx with hx | hx
        · exact h1 x hx
        · simp only [List.mem_singleton] at hx; subst hx; exact ⟨hg, i, hk⟩
    · exact Or.inl hg

theorem masks_sat_err (tbl : SigTable) (sats : List SatRow) (sigs : List SigRow) (e : RtcmError)
    (h : sats.foldl satMaskStep (.ok 0) = .err e) : masks tbl sats sigs = .err e := by
  have : ¬ (sats.length = 0 ∧ sigs.length = 0) := by
    rintro ⟨h0, _⟩
    rw [List.length_eq_zero_iff] at h0
    subst h0
    simp at h
  unfold masks
  rw [if_neg this, h]

theorem masks_sig_err (tbl : SigTable) (sats : List SatRow) (sigs : List SigRow) (m : Nat) (e : RtcmError)
    (h1 : sats.foldl satMaskStep (.ok 0) = .ok m)
    (h2 : sigs.foldl (sigStep tbl) (.ok { sigMask := 0, satSigMask := 0, cells := [] }) = .err e) :
    masks tbl sats sigs = .err e := by
  have : ¬ (sats.length = 0 ∧ sigs.length = 0) := by
    rintro ⟨_, h0⟩
    rw [List.length_eq_zero_iff] at h0
    subst h0
    simp at h2
  unfold masks
  rw [if_neg this, h1, h2]

theorem masks_mismatch (tbl : SigTable) (hT : TableOk tbl) (sats : List SatRow) (sigs : List SigRow)
    (hs : SatsOk sats) (hg : ∀ g ∈ sigs, SigGood tbl g) (hne : sats ≠ [] ∨ sigs ≠ [])
    (hmis : ¬ ((∀ r ∈ sats, ∃ g ∈ sigs, g.sat = r.id) ∧ (∀ g ∈ sigs, ∃ r ∈ sats, r.id = g.sat))) :
    masks tbl sats sigs = .err .satelliteMismatch := by
  rw [masks_of_folds tbl sats sigs _ _ hne (satFold_good sats hs.1 hs.2) (sigFold_good tbl hT sigs _ hg)]
  have hm : satMaskOf sats ≠ satSigMaskOf sigs := fun h =>
    hmis ((satMask_eq_iff sats sigs hs.1 (fun g h => (hg g h).1)).mp h)
  rw [if_pos (by simpa [satSigMaskOf] using hm)]

theorem cellPos_congr (tbl : SigTable) (a b c d : Nat) (g g' : SigRow)
    (h : (g.sat, g.band, g.attr) = (g'.sat, g'.band, g'.attr)) : cellPos tbl a b c d g = cellPos tbl a b c d g' := by
  simp only [Prod.mk.injEq] at h
  unfold cellPos sigIdOf
  rw [h.1, h.2.1, h.2.2]

theorem Good.cellPos_key {tbl : SigTable} (hT : TableOk tbl) {sats : List SatRow} {sigs : List SigRow}
    (P : Good tbl sats sigs) (g g' : SigRow) (hg : g ∈ sigs) (hg' : g' ∈ sigs)
    (h : cellPos tbl (satMaskOf sats) (sigMaskOf tbl sigs) (sigIdSet tbl sigs).length
          ((sigIdSet tbl sigs).length * sats.length) g =
         cellPos tbl (satMaskOf sats) (sigMaskOf tbl sigs) (sigIdSet tbl sigs).length
          ((sigIdSet tbl sigs).length * sats.length) g') :
    (g.sat, g.band, g.attr) = (g'.sat, g'.band, g'.attr) := by
  rw [P.cellPos_eq hT g hg, P.cellPos_eq hT g' hg'] at h
  have c1 := (P.cell_idx hT g hg).2
  have c2 := (P.cell_idx hT g' hg').2
  have hidx := idx_inj (sigIdSet tbl sigs).length (rankIn (sats.map (·.id)) g.sat)
    (rankIn (sigIdSet tbl sigs) (sigIdOf tbl g)) (rankIn (sats.map (·.id)) g'.sat)
    (rankIn (sigIdSet tbl sigs) (sigIdOf tbl g')) (rankIn_lt_length _ _ (P.sig_mem hT g hg).2.1)
    (rankIn_lt_length _ _ (P.sig_mem hT g' hg').2.1) (by omega)
  have e1 := rankIn_inj _ _ _ (P.sig_mem hT g hg).1 (P.sig_mem hT g' hg').1 hidx.1
  have e2 := rankIn_inj _ _ _ (P.sig_mem hT g hg).2.1 (P.sig_mem hT g' hg').2.1 hidx.2
  have e3 := C18.toId_injective tbl hT.ids_nodup (g.band, g.attr) (g'.band, g'.attr) _
    (P.sig_mem hT g hg).2.2 (by rw [e2]; exact (P.sig_mem hT g' hg').2.2)
  simp only [Prod.mk.injEq] at e3 ⊢
  exact ⟨e1, e3.1, e3.2⟩

theorem masks_too_many (tbl : SigTable) (hT : TableOk tbl) (sats : List SatRow) (sigs : List SigRow)
    (P : Good tbl sats sigs) (h : 64 < sats.length * (sigIdSet tbl sigs).length) :
    masks tbl sats sigs = .err .invalidSatelliteSignalCount := by
  rw [masks_good tbl hT sats sigs P, if_pos (by rw [Nat.mul_comm]; exact h)]

theorem masks_dup_cell (tbl : SigTable) (hT : TableOk tbl) (sats : List SatRow) (sigs : List SigRow)
    (P : Good tbl sats sigs) (h : sats.length * (sigIdSet tbl sigs).length ≤ 64)
    (pre post : List SigRow) (g : SigRow) (hsplit : sigs = pre ++ g :: post)
    (hpre : (pre.map fun g => (g.sat, g.band, g.attr)).Nodup)
    (hdup : (g.sat, g.band, g.attr) ∈ pre.map fun g => (g.sat, g.band, g.attr)) :
    masks tbl sats sigs = .err .duplicateSatelliteSignal := by
  rw [masks_good tbl hT sats sigs P, if_neg (by rw [Nat.mul_comm]; omega)]
  have hmem : ∀ x ∈ pre, x ∈ sigs := fun x hx => by rw [hsplit]; simp [hx]
  have hgm : g ∈ sigs := by rw [hsplit]; simp
  have : sigs.foldl (posStep .duplicateSatelliteSignal (cellPos tbl (satMaskOf sats) (sigMaskOf tbl sigs)
      (sigIdSet tbl sigs).length ((sigIdSet tbl sigs).length * sats.length))) (.ok 0)
      = .err .duplicateSatelliteSignal := by
    conv => lhs; arg 3; rw [hsplit]
    apply posFold_dup
    · apply List.Nodup.map_on _ (List.Nodup.of_map _ hpre)
      intro x hx y hy hxy
      exact List.inj_on_of_nodup_map hpre hx hy (P.cellPos_key hT x y (hmem x hx) (hmem y hy) hxy)
    · simp
    · right
      obtain ⟨d, hd, hk⟩ := List.mem_map.mp hdup
      exact ⟨d, hd, cellPos_congr _ _ _ _ _ _ _ hk⟩
  rw [this]

/-! ## Part C: insertion sort yields the unique sorted permutation; order independence -/

theorem insertBy_perm {α} (le : α → α → Bool) (x : α) (l : List α) : (Sig.insertBy le x l).Perm (x :: l) := by
  induction l with
  | nil => exact List.Perm.refl _
  | cons y ys ih =>
    unfold Sig.insertBy
    split
    · exact List.Perm.refl _
    · exact (List.Perm.cons y ih).trans (List.Perm.swap x y ys)

theorem sortBy_perm {α} (le : α → α → Bool) (l : List α) : (Sig.sortBy le l).Perm l := by
  induction l with
  | nil => exact List.Perm.refl _
  | cons x xs ih =>
    unfold Sig.sortBy
    exact (insertBy_perm le x _).trans (List.Perm.cons x ih)

theorem insertBy_sorted {α} (le : α → α → Bool) (total : ∀ a b, le a b = true ∨ le b a = true)
    (trans : ∀ a b c, le a b = true → le b c = true → le a c = true) (x : α) (l : List α)
    (h : l.Pairwise (fun a b => le a b = true)) : (Sig.insertBy le x l).Pairwise (fun a b => le a b = true) := by
  induction l with
  | nil => simp [Sig.insertBy]
  | cons y ys ih =>
    unfold Sig.insertBy
    rw [List.pairwise_cons] at h
    split
    · rename_i hxy
      rw [List.pairwise_cons]
      refine ⟨?_, List.pairwise_cons.mpr h⟩
      intro a ha
      rcases List.mem_cons.mp ha with rfl | ha
      · exact hxy
      · exact trans _ _ _ hxy (h.1 a ha)
    · rename_i hxy
      have hyx : le y x = true := (total x y).resolve_left hxy
      rw [List.pairwise_cons]
      refine ⟨?_, ih h.2⟩
      intro a ha
      rcases List.mem_cons.mp ((insertBy_perm le x ys).mem_iff.mp ha) with rfl | ha
      · exact hyx
      · exact h.1 a ha

theorem sortBy_sorted {α} (le : α → α → Bool) (total : ∀ a b, le a b = true ∨ le b a = true)
    (trans : ∀ a b c, le a b = true → le b c = true → le a c = true) (l : List α) :
    (Sig.sortBy le l).Pairwise (fun a b => le a b = true) := by
  induction l with
  | nil => simp [Sig.sortBy]
  | cons x xs ih => unfold Sig.sortBy; exact insertBy_sorted le total trans x _ ih

/-- a sorted permutation is unique when the order is antisymmetric on the elements -/
theorem sortBy_eq_of_perm {α} (le : α → α → Bool) (total : ∀ a b, le a b = true ∨ le b a = true)
    (trans : ∀ a b c, le a b = true → le b c = true → le a c = true) (l l' : List α) (hp : l'.Perm l)
    (anti : ∀ a ∈ l, ∀ b ∈ l, le a b = true → le b a = true → a = b) :
    Sig.sortBy le l' = Sig.sortBy le l := by
  apply List.Perm.eq_of_pairwise (le := fun a b => le a b = true) _ (sortBy_sorted le total trans l')
    (sortBy_sorted le total trans l) ((sortBy_perm le l').trans (hp.trans (sortBy_perm le l).symm))
  intro a b ha hb h1 h2
  exact anti a (hp.mem_iff.mp ((sortBy_perm le l').mem_iff.mp ha)) b ((sortBy_perm le l).mem_iff.mp hb) h1 h2

/-- any sorted permutation is what `sortBy` returns -/
theorem sortBy_unique {α} (le : α → α → Bool) (total : ∀ a b, le a b = true ∨ le b a = true)
    (trans : ∀ a b c, le a b = true → le b c = true → le a c = true) (l s : List α) (hp : s.Perm l)
    (hs : s.Pairwise (fun a b => le a b = true))
    (anti : ∀ a ∈ l, ∀ b ∈ l, le a b = true → le b a = true → a = b) : Sig.sortBy le l = s := by
  apply List.Perm.eq_of_pairwise (le := fun a b => le a b = true) _ (sortBy_sorted le total trans l) hs
    ((sortBy_perm le l).trans hp.symm)
  intro a b ha hb h1 h2
  exact anti a ((sortBy_perm le l).mem_iff.mp ha) b (hp.mem_iff.mp hb) h1 h2

def satLe (a b : SatRow) : Bool := decide (a.id ≤ b.id)

theorem satLe_total (a b : SatRow) : satLe a b = true ∨ satLe b a = true := by
  simp only [satLe, decide_eq_true_eq]; omega
theorem satLe_trans (a b c : SatRow) : satLe a b = true → satLe b c = true → satLe a c = true := by
  simp only [satLe, decide_eq_true_eq]; omega

theorem sigLe_iff (tbl : SigTable) (a b : SigRow) :
    sigLe tbl a b = true ↔ a.sat < b.sat ∨ (a.sat = b.sat ∧ Sig.cmp tbl (a.band, a.attr) (b.band, b.attr) ≠ .gt) := by
  unfold sigLe
  split
  · simp_all
  · split
    · constructor
      · intro h; cases h
      · rintro (h | ⟨h, _⟩) <;> omega
    · simp only [bne_iff_ne, ne_eq]
      constructor
      · intro h; exact Or.inr ⟨by omega, h⟩
      · rintro (h | ⟨_, h⟩)
        · omega
        · exact h

theorem cmp_ne_gt_trans (tbl : SigTable) (hnd : (tbl.map (·.1)).Nodup) (a b c : Nat × Nat)
    (h1 : Sig.cmp tbl a b ≠ .gt) (h2 : Sig.cmp tbl b c ≠ .gt) : Sig.cmp tbl a c ≠ .gt := by
  obtain ⟨hrefl, heq, hswap, htrans⟩ := C18.cmp_total_order tbl hnd
  cases hab : Sig.cmp tbl a b with
  | gt => exact absurd hab h1
  | eq => rw [heq a b hab]; exact h2
  | lt =>
    cases hbc : Sig.cmp tbl b c with
    | gt => exact absurd hbc h2
    | eq => rw [← heq b c hbc, hab]; simp
    | lt => rw [htrans a b c hab hbc]; simp

theorem sigLe_total (tbl : SigTable) (hnd : (tbl.map (·.1)).Nodup) (a b : SigRow) :
    sigLe tbl a b = true ∨ sigLe tbl b a = true := by
  obtain ⟨hrefl, heq, hswap, htrans⟩ := C18.cmp_total_order tbl hnd
  rw [sigLe_iff, sigLe_iff]
  rcases Nat.lt_trichotomy a.sat b.sat with h | h | h
  · exact Or.inl (Or.inl h)
  · have := hswap (a.band, a.attr) (b.band, b.attr)
    cases hab : Sig.cmp tbl (a.band, a.attr) (b.band, b.attr) with
    | gt => right; right; refine ⟨h.symm, ?_⟩; rw [this, hab]; simp [Ordering.swap]
    | eq => left; right; exact ⟨h, by simp⟩
    | lt => left; right; exact ⟨h, by simp⟩
  · exact Or.inr (Or.inl h)

theorem sigLe_trans (tbl : SigTable) (hnd : (tbl.map (·.1)).Nodup) (a b c : SigRow) :
    sigLe tbl a b = true → sigLe tbl b c = true → sigLe tbl a c = true := by
  rw [sigLe_iff, sigLe_iff, sigLe_iff]
  rintro (h1 | ⟨h1, c1⟩) (h2 | ⟨h2, c2⟩)
  · left; omega
  · left; omega
  · left; omega
  · right; exact ⟨by omega, cmp_ne_gt_trans tbl hnd _ _ _ c1 c2⟩

theorem sigLe_antisymm_key (tbl : SigTable) (hnd : (tbl.map (·.1)).Nodup) (a b : SigRow)
    (h1 : sigLe tbl a b = true) (h2 : sigLe tbl b a = true) :
    (a.sat, a.band, a.attr) = (b.sat, b.band, b.attr) := by
  obtain ⟨hrefl, heq, hswap, htrans⟩ := C18.cmp_total_order tbl hnd
  rw [sigLe_iff] at h1 h2
  rcases h1 with h1 | ⟨h1, c1⟩ <;> rcases h2 with h2 | ⟨h2, c2⟩
  · omega
  · omega
  · omega
  · have hsw := hswap (a.band, a.attr) (b.band, b.attr)
    cases hab : Sig.cmp tbl (a.band, a.attr) (b.band, b.attr) with
    | gt => exact absurd hab c1
    | eq =>
      have := heq _ _ hab
      simp only [Prod.mk.injEq] at this ⊢
      exact ⟨h1, this.1, this.2⟩
    | lt => rw [hsw, hab] at c2; simp [Ordering.swap] at c2

/-- `orF` depends only on the set of elements -/
theorem orF_congr_mem {γ} (f : γ → Nat) (l l' : List γ) (m : Nat) (h : ∀ c, c ∈ l ↔ c ∈ l') :
    orF f l m = orF f l' m := by
  apply Nat.eq_of_testBit_eq
  intro k
  rw [Bool.eq_iff_iff, testBit_orF, testBit_orF]
  simp only [h]

theorem sigIdSet_congr_mem (tbl : SigTable) (l l' : List SigRow) (h : ∀ c, c ∈ l ↔ c ∈ l') :
    sigIdSet tbl l = sigIdSet tbl l' := by
  unfold sigIdSet
  apply List.filter_congr
  intro i _
  rw [Bool.eq_iff_iff, List.any_eq_true, List.any_eq_true]
  simp only [h]

theorem Pre.perm {tbl : SigTable} {sats sats' : List SatRow} {sigs sigs' : List SigRow}
    (P : Pre tbl sats sigs) (hs : sats'.Perm sats) (hg : sigs'.Perm sigs) : Pre tbl sats' sigs' where
  sat_range r hr := P.sat_range r (hs.mem_iff.mp hr)
  sat_distinct := ((hs.map _).nodup_iff).mpr P.sat_distinct
  sig_sat_range g h := P.sig_sat_range g (hg.mem_iff.mp h)
  sig_known g h := P.sig_known g (hg.mem_iff.mp h)
  cell_distinct := ((hg.map _).nodup_iff).mpr P.cell_distinct
  sats_used r hr := by
    obtain ⟨g, h1, h2⟩ := P.sats_used r (hs.mem_iff.mp hr)
    exact ⟨g, hg.mem_iff.mpr h1, h2⟩
  sigs_listed g h := by
    obtain ⟨r, h1, h2⟩ := P.sigs_listed g (hg.mem_iff.mp h)
    exact ⟨r, hs.mem_iff.mpr h1, h2⟩
  nonempty := by
    intro h; rw [h] at hs; exact P.nonempty hs.symm.eq_nil
  cells_le := by
    rw [hs.length_eq, sigIdSet_congr_mem tbl sigs' sigs (fun c => hg.mem_iff)]
    exact P.cells_le

theorem masks_perm (tbl : SigTable) (hT : TableOk tbl) (sats sats' : List SatRow) (sigs sigs' : List SigRow)
    (P : Pre tbl sats sigs) (hs : sats'.Perm sats) (hg : sigs'.Perm sigs) :
    masks tbl sats' sigs' = masks tbl sats sigs := by
  rw [masks_pre tbl hT sats sigs P, masks_pre tbl hT sats' sigs' (P.perm hs hg)]
  have e1 : satMaskOf sats' = satMaskOf sats := orF_congr_mem _ _ _ _ (fun c => hs.mem_iff)
  have e2 : sigMaskOf tbl sigs' = sigMaskOf tbl sigs := orF_congr_mem _ _ _ _ (fun c => hg.mem_iff)
  have e3 : sigIdSet tbl sigs' = sigIdSet tbl sigs := sigIdSet_congr_mem tbl sigs' sigs (fun c => hg.mem_iff)
  have e4 : cellMaskOf tbl sats' sigs' = cellMaskOf tbl sats sigs := by
    unfold cellMaskOf
    rw [e1, e2, e3, hs.length_eq]
    exact orF_congr_mem _ _ _ _ (fun c => hg.mem_iff)
  rw [e1, e2, e3, e4, hs.length_eq]

/-! ### the sorted rows -/

theorem sats_sort_perm (sats sats' : List SatRow) (hnd : (sats.map (·.id)).Nodup) (hs : sats'.Perm sats) :
    Sig.sortBy satLe sats' = Sig.sortBy satLe sats := by
  apply sortBy_eq_of_perm satLe satLe_total satLe_trans sats sats' hs
  intro a ha b hb h1 h2
  simp only [satLe, decide_eq_true_eq] at h1 h2
  exact List.inj_on_of_nodup_map hnd ha hb (by omega)

theorem sigs_sort_perm (tbl : SigTable) (hT : TableOk tbl) (sigs sigs' : List SigRow)
    (hnd : (sigs.map fun g => (g.sat, g.band, g.attr)).Nodup) (hg : sigs'.Perm sigs) :
    Sig.sortBy (sigLe tbl) sigs' = Sig.sortBy (sigLe tbl) sigs := by
  apply sortBy_eq_of_perm (sigLe tbl) (sigLe_total tbl hT.ids_nodup) (sigLe_trans tbl hT.ids_nodup) sigs sigs' hg
  intro a ha b hb h1 h2
  exact List.inj_on_of_nodup_map hnd ha hb (sigLe_antisymm_key tbl hT.ids_nodup a b h1 h2)

theorem sats_sorted_strict (sats : List SatRow) (hnd : (sats.map (·.id)).Nodup) :
    (Sig.sortBy satLe sats).Pairwise (fun a b => a.id < b.id) := by
  have h1 := sortBy_sorted satLe satLe_total satLe_trans sats
  have h2 : ((Sig.sortBy satLe sats).map (·.id)).Nodup := (((sortBy_perm satLe sats).map _).nodup_iff).mpr hnd
  unfold List.Nodup at h2
  rw [List.pairwise_map] at h2
  apply (h1.and h2).imp
  intro a b ⟨h, hne⟩
  simp only [satLe, decide_eq_true_eq] at h
  omega

theorem sigs_sorted_strict (tbl : SigTable) (hT : (tbl.map (·.1)).Nodup) (sigs : List SigRow)
    (hk : ∀ g ∈ sigs, SigKnown tbl g) (hnd : (sigs.map fun g => (g.sat, g.band, g.attr)).Nodup) :
    (Sig.sortBy (sigLe tbl) sigs).Pairwise
      (fun a b => a.sat < b.sat ∨ (a.sat = b.sat ∧ sigIdOf tbl a < sigIdOf tbl b)) := by
  have h1 := sortBy_sorted (sigLe tbl) (sigLe_total tbl hT) (sigLe_trans tbl hT) sigs
  have hp := sortBy_perm (sigLe tbl) sigs
  have h2 : ((Sig.sortBy (sigLe tbl) sigs).map fun g => (g.sat, g.band, g.attr)).Nodup :=
    ((hp.map _).nodup_iff).mpr hnd
  unfold List.Nodup at h2
  rw [List.pairwise_map] at h2
  apply (h1.and h2).imp_of_mem
  intro a b ha hb ⟨h, hne⟩
  rw [sigLe_iff] at h
  rcases h with h | ⟨h, hc⟩
  · exact Or.inl h
  · right
    refine ⟨h, ?_⟩
    obtain ⟨i, hi⟩ := hk a (hp.mem_iff.mp ha)
    obtain ⟨j, hj⟩ := hk b (hp.mem_iff.mp hb)
    rw [sigIdOf_eq tbl a i hi, sigIdOf_eq tbl b j hj]
    rw [C18.cmp_matches_id_order tbl (a.band, a.attr) (b.band, b.attr) i j hi hj] at hc
    rcases Nat.lt_trichotomy i j with hlt | heq | hgt
    · exact hlt
    · exfalso
      subst heq
      have := C18.toId_injective tbl hT (a.band, a.attr) (b.band, b.attr) i hi hj
      simp only [Prod.mk.injEq] at this
      apply hne
      simp only [Prod.mk.injEq]
      exact ⟨h, this.1, this.2⟩
    · exact absurd (Nat.compare_eq_gt.mpr hgt) hc

/-! ### complete classification of `masks` -/

def maskErrors : List RtcmError :=
  [.invalidSatelliteId, .duplicateSatellite, .invalidSignalId, .satelliteMismatch,
   .invalidSatelliteSignalCount, .duplicateSatelliteSignal]

theorem masks_empty (tbl : SigTable) : masks tbl [] [] = .ok none := by simp [masks]

theorem masks_classify (tbl : SigTable) (hT : TableOk tbl) (sats : List SatRow) (sigs : List SigRow) :
    (sats = [] ∧ sigs = [] ∧ masks tbl sats sigs = .ok none) ∨
    (Pre tbl sats sigs ∧ masks tbl sats sigs = .ok (some (satMaskOf sats, sigMaskOf tbl sigs,
        cellMaskOf tbl sats sigs, (sigIdSet tbl sigs).length * sats.length))) ∨
    (¬ Pre tbl sats sigs ∧ ¬ (sats = [] ∧ sigs = []) ∧ ∃ e ∈ maskErrors, masks tbl sats sigs = .err e) := by
  by_cases hemp : sats = [] ∧ sigs = []
  · left; obtain ⟨rfl, rfl⟩ := hemp; exact ⟨rfl, rfl, masks_empty tbl⟩
  right
  by_cases hP : Pre tbl sats sigs
  · exact Or.inl ⟨hP, masks_pre tbl hT sats sigs hP⟩
  right
  refine ⟨hP, hemp, ?_⟩
  -- satellite rows
  rcases sats_ok_or_first_bad sats with hs | ⟨pre, r, post, rfl, hpre, hbad⟩
  swap
  · rcases hbad with hbad | ⟨hin, hdup⟩
    · exact ⟨_, by simp [maskErrors], masks_sat_err tbl _ sigs _ (satFold_invalid pre post r hpre.1 hpre.2 hbad)⟩
    · exact ⟨_, by simp [maskErrors], masks_sat_err tbl _ sigs _ (satFold_dup pre post r hpre.1 hpre.2 hin hdup)⟩
  -- signal rows
  rcases sigs_ok_or_first_bad tbl sigs with hg | ⟨pre, g, post, rfl, hpre, hbad⟩
  swap
  · rcases hbad with hbad | ⟨hin, hun⟩
    · exact ⟨_, by simp [maskErrors], masks_sig_err tbl sats _ _ _ (satFold_good sats hs.1 hs.2)
        (sigFold_invalid tbl hT pre post g _ hpre hbad)⟩
    · exact ⟨_, by simp [maskErrors], masks_sig_err tbl sats _ _ _ (satFold_good sats hs.1 hs.2)
        (sigFold_unknown tbl hT pre post g _ hpre hin hun)⟩
  have hne : sats ≠ [] ∨ sigs ≠ [] := by
    by_contra h; exact hemp ⟨by_contra fun h1 => h (Or.inl h1), by_contra fun h2 => h (Or.inr h2)⟩
  by_cases hcov : (∀ r ∈ sats, ∃ g ∈ sigs, g.sat = r.id) ∧ (∀ g ∈ sigs, ∃ r ∈ sats, r.id = g.sat)
  swap
  · exact ⟨_, by simp [maskErrors], masks_mismatch tbl hT sats sigs hs hg hne hcov⟩
  have hsne : sats ≠ [] := by
    rintro rfl
    rcases hne with h | h
    · exact h rfl
    · obtain ⟨g, hg'⟩ := List.exists_mem_of_ne_nil _ h
      obtain ⟨r, hr, _⟩ := hcov.2 g hg'
      cases hr
  have G : Good tbl sats sigs := ⟨hs.1, hs.2, hg, hcov.1, hcov.2, hsne⟩
  by_cases hlen : sats.length * (sigIdSet tbl sigs).length ≤ 64
  swap
  · exact ⟨_, by simp [maskErrors], masks_too_many tbl hT sats sigs G (by omega)⟩
  by_cases hnd : (sigs.map fun g => (g.sat, g.band, g.attr)).Nodup
  · exact absurd ⟨hs.1, hs.2, fun g h => (hg g h).1, fun g h => (hg g h).2, hnd, hcov.1, hcov.2, hsne, hlen⟩ hP
  · obtain ⟨pre, g, post, e, h1, h2⟩ := exists_first_dup_map _ sigs hnd
    exact ⟨_, by simp [maskErrors], masks_dup_cell tbl hT sats sigs G hlen pre post g e h1 h2⟩

/-! ## Part E: the decoder's identifier lists -/

theorem mem_maskIds (bits m s : Nat) :
    s ∈ maskIds bits m ↔ 1 ≤ s ∧ s ≤ bits ∧ m.testBit (bits - s) = true := by
  unfold maskIds
  simp only [List.mem_map, List.mem_filter, List.mem_range]
  constructor
  · rintro ⟨i, ⟨hi, hb⟩, rfl⟩
    exact ⟨by omega, by omega, by rwa [show bits - (i + 1) = bits - 1 - i by omega]⟩
  · rintro ⟨h1, h2, hb⟩
    exact ⟨s - 1, ⟨by omega, by rwa [show bits - 1 - (s - 1) = bits - s by omega]⟩, by omega⟩

theorem maskIds_sorted (bits m : Nat) : (maskIds bits m).Pairwise (· < ·) := by
  unfold maskIds
  rw [List.pairwise_map]
  apply (List.Pairwise.filter _ List.pairwise_lt_range).imp
  intro a b h; omega

theorem maskIds_length (bits m : Nat) : (maskIds bits m).length = popcount bits m := by
  rw [popcount_eq_cnt]
  unfold maskIds cnt
  rw [List.length_map, List.countP_eq_length_filter]

theorem sorted_lt_ext (l l' : List Nat) (h : l.Pairwise (· < ·)) (h' : l'.Pairwise (· < ·))
    (hm : ∀ x, x ∈ l ↔ x ∈ l') : l = l' := by
  apply List.Perm.eq_of_pairwise (le := (· < ·)) _ h h'
  · rw [List.perm_ext_iff_of_nodup (h.imp (fun h => Nat.ne_of_lt h)) (h'.imp (fun h => Nat.ne_of_lt h))]
    exact hm
  · intro a b _ _ h1 h2; omega

theorem rankIn_getElem (l : List Nat) (h : l.Pairwise (· < ·)) (j : Nat) (hj : j < l.length) :
    rankIn l l[j] = j := by
  unfold rankIn
  rw [← List.countP_eq_length_filter]
  induction l generalizing j with
  | nil => simp at hj
  | cons a t ih =>
    rw [List.pairwise_cons] at h
    cases j with
    | zero =>
      simp only [List.getElem_cons_zero, List.countP_cons, Nat.lt_irrefl, decide_false]
      have : List.countP (fun x => decide (x < a)) t = 0 := by
        rw [List.countP_eq_zero]
        intro x hx
        have := h.1 x hx
        simp only [decide_eq_true_eq]; omega
      simp [this]
    | succ k =>
      simp only [List.getElem_cons_succ, List.countP_cons]
      have hk : k < t.length := by simpa using hj
      have := h.1 t[k] (List.getElem_mem hk)
      rw [ih h.2 k hk]
      simp [this]

theorem getD_rankIn (l : List Nat) (h : l.Pairwise (· < ·)) (x : Nat) (hx : x ∈ l) :
    l.getD (rankIn l x) 0 = x := by
  obtain ⟨j, hj, rfl⟩ := List.mem_iff_getElem.mp hx
  rw [rankIn_getElem l h j hj, ← List.getElem_eq_getD]

theorem rankIn_perm (l l' : List Nat) (h : l.Perm l') (x : Nat) : rankIn l x = rankIn l' x := by
  unfold rankIn
  rw [← List.countP_eq_length_filter, ← List.countP_eq_length_filter]
  exact h.countP_eq _

def lexLt (a b : Nat × Nat) : Prop := a.1 < b.1 ∨ (a.1 = b.1 ∧ a.2 < b.2)

theorem lex_sorted_ext (l l' : List (Nat × Nat)) (h : l.Pairwise lexLt) (h' : l'.Pairwise lexLt)
    (hm : ∀ x, x ∈ l ↔ x ∈ l') : l = l' := by
  have hne : ∀ a b : Nat × Nat, lexLt a b → a ≠ b := by
    rintro a b h rfl; unfold lexLt at h; omega
  apply List.Perm.eq_of_pairwise (le := lexLt) _ h h'
  · rw [List.perm_ext_iff_of_nodup (h.imp (hne _ _)) (h'.imp (hne _ _))]
    exact hm
  · intro a b _ _ h1 h2; unfold lexLt at h1 h2; omega

theorem mem_cellIds (satIds sigIds : List Nat) (cellMask : Nat) (c : Nat × Nat) :
    c ∈ cellIds satIds sigIds cellMask ↔
      ∃ idx, idx < satIds.length * sigIds.length ∧
        cellMask.testBit (satIds.length * sigIds.length - 1 - idx) = true ∧
        (satIds.getD (idx / sigIds.length) 0, sigIds.getD (idx % sigIds.length) 0) = c := by
  unfold cellIds
  simp only [List.mem_map, List.mem_filter, List.mem_range, and_assoc]

theorem cellIds_sorted (satIds sigIds : List Nat) (cellMask : Nat)
    (h1 : satIds.Pairwise (· < ·)) (h2 : sigIds.Pairwise (· < ·)) :
    (cellIds satIds sigIds cellMask).Pairwise lexLt := by
  unfold cellIds
  simp only []
  rw [List.pairwise_map]
  apply (List.Pairwise.filter _ List.pairwise_lt_range).imp_of_mem
  intro i j hi hj hij
  simp only [List.mem_filter, List.mem_range] at hi hj
  have hL : 0 < sigIds.length := by
    rcases Nat.eq_zero_or_pos sigIds.length with h0 | h0
    · rw [h0] at hi; omega
    · exact h0
  have hi' : i / sigIds.length < satIds.length := Nat.div_lt_of_lt_mul (by rw [Nat.mul_comm]; exact hi.1)
  have hj' : j / sigIds.length < satIds.length := Nat.div_lt_of_lt_mul (by rw [Nat.mul_comm]; exact hj.1)
  have mi : i % sigIds.length < sigIds.length := Nat.mod_lt _ hL
  have mj : j % sigIds.length < sigIds.length := Nat.mod_lt _ hL
  rw [List.pairwise_iff_getElem] at h1 h2
  unfold lexLt
  simp only [← List.getElem_eq_getD (h := hi'), ← List.getElem_eq_getD (h := hj'),
    ← List.getElem_eq_getD (h := mi), ← List.getElem_eq_getD (h := mj)]
  have hle : i / sigIds.length ≤ j / sigIds.length := Nat.div_le_div_right (Nat.le_of_lt hij)
  rcases Nat.lt_or_eq_of_le hle with hlt | heq
  · exact Or.inl (h1 _ _ hi' hj' hlt)
  · right
    have e1 := Nat.div_add_mod i sigIds.length
    have e2 := Nat.div_add_mod j sigIds.length
    rw [heq] at e1
    have : i % sigIds.length < j % sigIds.length := by omega
    exact ⟨by simp only [heq], h2 _ _ mi mj this⟩

/-! ### decode inverts the masks -/

theorem Good.maskIds_sat {tbl : SigTable} {sats : List SatRow} {sigs : List SigRow} (P : Good tbl sats sigs) :
    maskIds 64 (satMaskOf sats) = (Sig.sortBy satLe sats).map (·.id) := by
  apply sorted_lt_ext _ _ (maskIds_sorted _ _)
  · rw [List.pairwise_map]; exact sats_sorted_strict sats P.sat_distinct
  · intro s
    rw [mem_maskIds, ((sortBy_perm satLe sats).map _).mem_iff]
    constructor
    · rintro ⟨h1, h2, hb⟩; exact (P.sat_bits s h1 h2).mp hb
    · intro hs
      obtain ⟨r, hr, rfl⟩ := List.mem_map.mp hs
      have := P.sat_range r hr
      exact ⟨this.1, this.2, (P.sat_bits r.id this.1 this.2).mpr hs⟩

theorem Good.maskIds_sig {tbl : SigTable} (hT : TableOk tbl) {sats : List SatRow} {sigs : List SigRow}
    (P : Good tbl sats sigs) : maskIds 32 (sigMaskOf tbl sigs) = sigIdSet tbl sigs := by
  apply sorted_lt_ext _ _ (maskIds_sorted _ _) (List.Pairwise.filter _ List.pairwise_lt_range)
  intro i
  rw [mem_maskIds]
  constructor
  · rintro ⟨h1, h2, hb⟩; exact (P.sig_bits hT i h1 h2).mp hb
  · intro hi
    have := sigIdSet_range tbl hT sigs i hi
    exact ⟨this.1, this.2, (P.sig_bits hT i this.1 this.2).mpr hi⟩

theorem Pre.cellIds_eq {tbl : SigTable} (hT : TableOk tbl) {sats : List SatRow} {sigs : List SigRow}
    (P : Pre tbl sats sigs) :
    cellIds (maskIds 64 (satMaskOf sats)) (maskIds 32 (sigMaskOf tbl sigs)) (cellMaskOf tbl sats sigs) =
      (Sig.sortBy (sigLe tbl) sigs).map (cellOf tbl) := by
  have G := P.good
  have hS := G.maskIds_sat
  have hG := G.maskIds_sig hT
  have hSs : ((Sig.sortBy satLe sats).map (·.id)).Pairwise (· < ·) := by
    rw [List.pairwise_map]; exact sats_sorted_strict sats P.sat_distinct
  have hGs : (sigIdSet tbl sigs).Pairwise (· < ·) := List.Pairwise.filter _ List.pairwise_lt_range
  have hSp : ((Sig.sortBy satLe sats).map (·.id)).Perm (sats.map (·.id)) := (sortBy_perm satLe sats).map _
  have hSl : ((Sig.sortBy satLe sats).map (·.id)).length = sats.length := by
    rw [hSp.length_eq, List.length_map]
  have hLpos := G.sigIdSet_pos hT
  apply lex_sorted_ext
  · exact cellIds_sorted _ _ _ (maskIds_sorted _ _) (maskIds_sorted _ _)
  · rw [List.pairwise_map]
    exact sigs_sorted_strict tbl hT.ids_nodup sigs P.sig_known P.cell_distinct
  intro c
  rw [mem_cellIds, hS, hG, hSl, ((sortBy_perm (sigLe tbl) sigs).map _).mem_iff, List.mem_map]
  -- the index of a listed cell and what the decoder reads back from it
  have key : ∀ g ∈ sigs,
      (((Sig.sortBy satLe sats).map (·.id)).getD
          ((rankIn (sats.map (·.id)) g.sat * (sigIdSet tbl sigs).length + rankIn (sigIdSet tbl sigs) (sigIdOf tbl g))
            / (sigIdSet tbl sigs).length) 0,
        (sigIdSet tbl sigs).getD
          ((rankIn (sats.map (·.id)) g.sat * (sigIdSet tbl sigs).length + rankIn (sigIdSet tbl sigs) (sigIdOf tbl g))
            % (sigIdSet tbl sigs).length) 0) = cellOf tbl g := by
    intro g hg
    have hm := G.sig_mem hT g hg
    have hb := rankIn_lt_length _ _ hm.2.1
    rw [Nat.add_comm, Nat.add_mul_div_right _ _ (by omega), Nat.add_mul_mod_self_right,
      Nat.div_eq_of_lt hb, Nat.mod_eq_of_lt hb, Nat.zero_add,
      ← rankIn_perm _ _ hSp g.sat, getD_rankIn _ hSs _ (hSp.mem_iff.mpr hm.1), getD_rankIn _ hGs _ hm.2.1]
    rfl
  constructor
  · rintro ⟨idx, hidx, hbit, rfl⟩
    obtain ⟨g, hg, e⟩ := (cellMaskOf_bit tbl sats sigs _).mp hbit
    rw [G.cellPos_eq hT g hg] at e
    have c := (G.cell_idx hT g hg).2
    have : idx = rankIn (sats.map (·.id)) g.sat * (sigIdSet tbl sigs).length +
        rankIn (sigIdSet tbl sigs) (sigIdOf tbl g) := by omega
    exact ⟨g, hg, by rw [this]; exact (key g hg).symm⟩
  · rintro ⟨g, hg, rfl⟩
    refine ⟨_, (G.cell_idx hT g hg).2, ?_, key g hg⟩
    rw [cellMaskOf_bit]
    exact ⟨g, hg, G.cellPos_eq hT g hg⟩

theorem toSig_of_toId (tbl : SigTable) (hnd : (tbl.map (·.1)).Nodup) (b a i : Nat)
    (h : Sig.toId tbl b a = some i) : Sig.toSig tbl i = some (b, a) := by
  have hm := C18.toId_mem tbl b a i h
  unfold Sig.toSig
  cases hf : tbl.find? (fun r => r.1 == i) with
  | none =>
    rw [List.find?_eq_none] at hf
    have := hf _ hm
    simp at this
  | some r =>
    have h1 := List.mem_of_find?_eq_some hf
    have h2 := List.find?_some hf
    simp only [beq_iff_eq] at h2
    have := C18.nodup_map_inj (·.1) tbl hnd r (i, b, a) h1 hm h2
    rw [this]; rfl

theorem lookupSigs_sorted (tbl : SigTable) (hnd : (tbl.map (·.1)).Nodup) (l : List SigRow)
    (hk : ∀ g ∈ l, SigKnown tbl g) :
    lookupSigs tbl (l.map (cellOf tbl)) = .ok (l.map fun g => (g.sat, g.band, g.attr)) := by
  induction l with
  | nil => rfl
  | cons g t ih =>
    obtain ⟨i, hi⟩ := hk g (by simp)
    have : Sig.toSig tbl (sigIdOf tbl g) = some (g.band, g.attr) := by
      rw [sigIdOf_eq tbl g i hi]; exact toSig_of_toId tbl hnd _ _ _ hi
    simp only [List.map_cons, cellOf, lookupSigs, this]
    rw [ih (fun x hx => hk x (by simp [hx]))]

/-! ### shape of a successful `decode` -/

theorem cellIds_mem_prod (satIds sigIds : List Nat) (cellMask : Nat) (c : Nat × Nat)
    (h : c ∈ cellIds satIds sigIds cellMask) : c.1 ∈ satIds ∧ c.2 ∈ sigIds := by
  obtain ⟨idx, hidx, _, rfl⟩ := (mem_cellIds _ _ _ _).mp h
  have hL : 0 < sigIds.length := by
    rcases Nat.eq_zero_or_pos sigIds.length with h0 | h0
    · rw [h0] at hidx; omega
    · exact h0
  have h1 : idx / sigIds.length < satIds.length := Nat.div_lt_of_lt_mul (by rw [Nat.mul_comm]; exact hidx)
  have h2 : idx % sigIds.length < sigIds.length := Nat.mod_lt _ hL
  simp only [← List.getElem_eq_getD (h := h1), ← List.getElem_eq_getD (h := h2)]
  exact ⟨List.getElem_mem h1, List.getElem_mem h2⟩

theorem lookupSigs_ok (tbl : SigTable) (cells : List (Nat × Nat)) (r : List (Nat × Nat × Nat))
    (h : lookupSigs tbl cells = .ok r) :
    List.Forall₂ (fun c k => k.1 = c.1 ∧ Sig.toSig tbl c.2 = some k.2) cells r := by
  induction cells generalizing r with
  | nil =>
    simp only [lookupSigs] at h
    injection h with h; subst h; exact List.Forall₂.nil
  | cons c t ih =>
    obtain ⟨sat, sid⟩ := c
    simp only [lookupSigs] at h
    split at h
    · rename_i b a hs
      split at h
      · rename_i r' hr
        injection h with h; subst h
        exact List.Forall₂.cons ⟨rfl, hs⟩ (ih r' hr)
      all_goals cases h
    · cases h

theorem map_range_getD {α} (l : List α) (d : α) : (List.range l.length).map (fun i => l.getD i d) = l := by
  apply List.ext_getElem (by simp)
  intro i h1 h2
  simp only [List.getElem_map, List.getElem_range]
  exact (List.getElem_eq_getD d).symm

theorem decode_ok_shape (cfg : Cfg) (tbl : SigTable) (satFields sigFields : List (String × DfSpec)) (c c' : Cur)
    (sats : List SatRow) (sigs : List SigRow)
    (h : decode cfg tbl satFields sigFields c = .ok (sats, sigs, c')) :
    ∃ satMask c1 sigMask c2, parseU cfg 64 64 c = .ok (satMask, c1) ∧ parseU cfg 32 32 c1 = .ok (sigMask, c2) ∧
      ((satMask = 0 ∧ sigMask = 0 ∧ sats = [] ∧ sigs = [] ∧ c' = c2) ∨
       (¬ (satMask = 0 ∧ sigMask = 0) ∧
        1 ≤ popcount 64 satMask * popcount 32 sigMask ∧ popcount 64 satMask * popcount 32 sigMask ≤ 64 ∧
        ∃ cellMask c3, parseU cfg 64 (popcount 64 satMask * popcount 32 sigMask) c2 = .ok (cellMask, c3) ∧
          sats.map (·.id) = maskIds 64 satMask ∧
          lookupSigs tbl (cellIds (maskIds 64 satMask) (maskIds 32 sigMask) cellMask) =
            .ok (sigs.map fun g => (g.sat, g.band, g.attr)))) := by
  unfold decode at h
  split at h
  · rename_i satMask c1 h1
    split at h
    · rename_i sigMask c2 h2
      refine ⟨satMask, c1, sigMask, c2, h1, h2, ?_⟩
      split at h
      · rename_i hz
        left
        injection h with h
        simp only [Prod.mk.injEq] at h
        exact ⟨hz.1, hz.2, h.1.symm, h.2.1.symm, h.2.2.symm⟩
      · rename_i hz
        right
        simp only [] at h
        split at h
        · cases h
        · rename_i hguard
          split at h
          · rename_i cellMask c3 h3
            split at h
            · rename_i satCols c4 h4
              split at h
              · rename_i cellSigs h5
                split at h
                · rename_i sigCols c5 h6
                  injection h with h
                  simp only [Prod.mk.injEq] at h
                  refine ⟨hz, by omega, by omega, cellMask, c3, h3, ?_, ?_⟩
                  · rw [← h.1, List.map_map]
                    exact map_range_getD _ 0
                  · rw [h5, ← h.2.1, List.map_map]
                    congr 1
                    exact (map_range_getD cellSigs (0, 0, 0)).symm
                all_goals cases h
              all_goals cases h
            all_goals cases h
          all_goals cases h
    all_goals cases h
  all_goals cases h

end Rtcm.MsmLaws
