import Rtcm.Props.C09
/-!
# The shape of a successful build on a fresh builder

`Builder.new.build (.typed n toks)` returns a frame iff the table has a row for `n`, the 12-bit number
goes into the zeroed 1023-byte window, and the row's fragment encoder accepts exactly the tokens
`toks` from bit 12 on; the frame is then `C09.frameOf L (c.data.take L)` with `c` the final cursor
state and `L = (c.off - 1) / 8 + 1` payload bytes.
-/
namespace Rtcm.BuildShape
open Rtcm.Message Rtcm.Schema Rtcm.Interp Rtcm.WF Rtcm.NoPanic Rtcm.C09

/-- the zeroed payload window of a fresh builder -/
def window0 : List Nat := (freshData.drop 3).take 1023

theorem window0_length : window0.length = 1023 := by
  unfold window0 freshData
  simp only [List.length_take, List.length_drop, List.length_cons, List.length_replicate]
  omega

theorem window0_good : Good { data := window0, off := 0 } := by
  intro x hx
  have hx' : x ∈ (freshData.drop 3).take 1023 := hx
  have := List.mem_of_mem_drop (List.mem_of_mem_take hx')
  unfold freshData at this
  simp only [List.mem_cons, List.mem_replicate] at this
  rcases this with rfl | ⟨_, rfl⟩ <;> decide

/-- payload length for a final cursor -/
def payLen (c : Cur) : Nat := (c.off - 1) / 8 + 1

theorem freshData_shape : ∃ tl, freshData = 0xd3 :: 0 :: 0 :: tl ∧ tl.length = 1026 ∧ ∀ x ∈ tl, x < 256 := by
  refine ⟨List.replicate 1026 0, ?_, List.length_replicate, ?_⟩
  · unfold freshData
    rw [show (1028 : Nat) = 1026 + 1 + 1 from rfl, List.replicate_succ, List.replicate_succ]
  · intro x hx
    rw [List.mem_replicate] at hx
    omega

/-- the result of a build once the three stages are known -/
theorem build_new_eq (cfg : Cfg) (tbl : List MsgRow) (glo : SigTable) (n : Nat) (toks : List Tok)
    (row : MsgRow) (w1 : List Nat) (c : Cur)
    (hrow : findRow tbl n = some row)
    (hput : Bits.put cfg ⟨.u, 16⟩ window0 0 n 12 = .ok (w1, 12))
    (henc : encFrag cfg glo row.frag toks { data := w1, off := 12 } = .ok (c, []))
    (hlen : c.data.length = 1023) (hoff : c.off ≤ 8184) :
    (Builder.new.build cfg tbl glo (.typed n toks)).2 = .ok (frameOf (payLen c) (c.data.take (payLen c))) := by
  obtain ⟨tl, hfd, htl, _⟩ := freshData_shape
  have hw : window0 = (freshData.drop 3).take 1023 := rfl
  unfold Builder.build
  simp only [Builder.new, Bool.false_eq_true, if_false, number, hrow, Option.isSome_some, if_true]
  rw [← hw, hput]
  simp only [henc, List.isEmpty_nil, Bool.not_true, Bool.false_eq_true, if_false]
  have A := assemble 0 0 tl c.data (payLen c) htl hlen (by unfold payLen; omega)
  simp only at A
  rw [← hfd] at A
  exact congrArg Res.ok A.1

/-- a successful build on a fresh builder went through the three stages -/
theorem build_new_shape (cfg : Cfg) (tbl : List MsgRow) (htbl : ∀ row ∈ tbl, WFFrag row.frag = true)
    (glo : SigTable) (n : Nat) (toks : List Tok) (fr : List Nat)
    (h : (Builder.new.build cfg tbl glo (.typed n toks)).2 = .ok fr) :
    ∃ row w1 c, findRow tbl n = some row ∧ Good { data := w1, off := 12 } ∧ w1.length = 1023 ∧
      Bits.put cfg ⟨.u, 16⟩ window0 0 n 12 = .ok (w1, 12) ∧
      encFrag cfg glo row.frag toks { data := w1, off := 12 } = .ok (c, []) ∧
      Ext { data := w1, off := 12 } c ∧ c.off ≤ 8184 ∧
      fr = frameOf (payLen c) (c.data.take (payLen c)) := by
  cases hrow : findRow tbl n with
  | none =>
    rw [unknown_number_refused cfg _ _ Builder.new n toks hrow] at h
    cases h
  | some row =>
    have hwf := htbl row (List.mem_of_find?_eq_some hrow)
    rcases put_ext cfg ⟨.u, 16⟩ { data := window0, off := 0 } n 12 (by decide) (by decide) (by decide)
      (by decide) window0_good with hp | ⟨d, o, hp, hext⟩
    · exfalso
      have hw : window0 = (freshData.drop 3).take 1023 := rfl
      unfold Builder.build at h
      simp only [Builder.new, Bool.false_eq_true, if_false, number, hrow, Option.isSome_some, if_true] at h
      rw [← hw] at h
      simp only at hp
      rw [hp] at h
      cases h
    · simp only at hp
      have ho : o = 12 := by
        rcases put_total cfg ⟨.u, 16⟩ window0 0 n 12 (by decide) (by decide) (by decide) (by decide)
          window0_good with hq | ⟨d', hq, -⟩
        · rw [hq] at hp; cases hp
        · rw [hq] at hp; cases hp; rfl
      subst ho
      have hdl : d.length = 1023 := by have := hext.len; simp only at this; rw [this, window0_length]
      have hes := encFrag_es cfg glo row.frag hwf toks { data := d, off := 12 } hext.good
      cases henc : encFrag cfg glo row.frag toks { data := d, off := 12 } with
      | ok r =>
        obtain ⟨c, rest⟩ := r
        rw [henc] at hes
        have hE : Ext { data := d, off := 12 } c := hes
        have hcl : c.data.length = 1023 := by have := hE.len; simp only at this; rw [this, hdl]
        have hhi : c.off ≤ 8184 := by
          have := hE.fit (by simp only; omega)
          omega
        cases rest with
        | nil =>
          rw [build_new_eq cfg tbl glo n toks row d c hrow hp henc hcl hhi] at h
          injection h with h
          exact ⟨row, d, c, rfl, hext.good, hdl, hp, henc, hE, hhi, h.symm⟩
        | cons t ts =>
          exfalso
          have hw : window0 = (freshData.drop 3).take 1023 := rfl
          unfold Builder.build at h
          simp only [Builder.new, Bool.false_eq_true, if_false, number, hrow, Option.isSome_some, if_true] at h
          rw [← hw, hp] at h
          simp only [henc, List.isEmpty_cons, Bool.not_false, if_true] at h
          cases h
      | err e =>
        exfalso
        have hw : window0 = (freshData.drop 3).take 1023 := rfl
        unfold Builder.build at h
        simp only [Builder.new, Bool.false_eq_true, if_false, number, hrow, Option.isSome_some, if_true] at h
        rw [← hw, hp] at h
        simp only [henc] at h
        cases h
      | panic w =>
        exfalso
        have hw : window0 = (freshData.drop 3).take 1023 := rfl
        unfold Builder.build at h
        simp only [Builder.new, Bool.false_eq_true, if_false, number, hrow, Option.isSome_some, if_true] at h
        rw [← hw, hp] at h
        simp only [henc] at h
        cases h

end Rtcm.BuildShape
