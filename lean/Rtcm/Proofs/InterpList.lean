import Rtcm.Model.Interp
import Rtcm.Model.Size
import Rtcm.Proofs.InterpLen
/-!
# The list combinators of the interpreter (helper lemmas for C15)

Core Lean only.
* `Steps f n c ps c'`: `n` consecutive successful runs of the element decoder `f`, from cursor `c`
  to cursor `c'`, yielding the token groups `ps` (one per element);
* `decRepeat_ok_iff`: `decRepeat f n c = .ok (ts, c')` iff there are exactly `n` successful element
  decodes whose tokens concatenate to `ts`;
* `decRepeat_err_of_steps` / `decRepeat_panic_of_steps`: the first failing element decides the result
  of the whole list; `decRepeat_cases`: nothing else can happen;
* fixed-size elements (`dfOnly`: data fields and sequences / 16-grids of them): a successful decode
  keeps the buffer, advances the cursor by exactly `Size.maxBits` and stays inside the buffer
  (`decFrag_fixed`, `decRepeat_fixed`).
-/
namespace Rtcm.Interp

/-- `n` consecutive successful element decodes -/
inductive Steps (f : Dec) : Nat → Cur → List (List Tok) → Cur → Prop
  | zero (c : Cur) : Steps f 0 c [] c
  | succ {n : Nat} {c c1 c' : Cur} {t : List Tok} {ps : List (List Tok)} :
      f c = .ok (t, c1) → Steps f n c1 ps c' → Steps f (n + 1) c (t :: ps) c'

theorem Steps.length {f : Dec} {n : Nat} {c c' : Cur} {ps : List (List Tok)} (h : Steps f n c ps c') :
    ps.length = n := by
  induction h with
  | zero => rfl
  | succ _ _ ih => simp [ih]

/-- `Steps` is deterministic -/
theorem Steps.unique {f : Dec} {n : Nat} {c c1 c2 : Cur} {ps qs : List (List Tok)}
    (h1 : Steps f n c ps c1) (h2 : Steps f n c qs c2) : ps = qs ∧ c1 = c2 := by
  induction h1 generalizing qs c2 with
  | zero => cases h2; exact ⟨rfl, rfl⟩
  | succ hf _ ih =>
    cases h2 with
    | succ hf' hs' =>
      rw [hf] at hf'
      simp only [Res.ok.injEq, Prod.mk.injEq] at hf'
      obtain ⟨rfl, rfl⟩ := hf'
      obtain ⟨rfl, rfl⟩ := ih hs'
      exact ⟨rfl, rfl⟩

theorem decRepeat_of_steps {f : Dec} {n : Nat} {c c' : Cur} {ps : List (List Tok)}
    (h : Steps f n c ps c') : decRepeat f n c = .ok (ps.flatten, c') := by
  induction h with
  | zero => rfl
  | succ hf _ ih => simp only [decRepeat, hf, ih, List.flatten_cons]

theorem steps_of_decRepeat {f : Dec} : ∀ (n : Nat) (c c' : Cur) (ts : List Tok),
    decRepeat f n c = .ok (ts, c') → ∃ ps, Steps f n c ps c' ∧ ts = ps.flatten := by
  intro n
  induction n with
  | zero =>
    intro c c' ts h
    simp only [decRepeat, Res.ok.injEq, Prod.mk.injEq] at h
    obtain ⟨rfl, rfl⟩ := h
    exact ⟨[], .zero _, rfl⟩
  | succ n ih =>
    intro c c' ts h
    unfold decRepeat at h
    split at h
    · next t c1 hf =>
      split at h
      · next ts1 c2 hr =>
        simp only [Res.ok.injEq, Prod.mk.injEq] at h
        obtain ⟨rfl, rfl⟩ := h
        obtain ⟨ps, hs, rfl⟩ := ih _ _ _ hr
        exact ⟨t :: ps, .succ hf hs, rfl⟩
      · simp at h
      · simp at h
    · simp at h
    · simp at h

/-- a list decode succeeds iff all of its `n` element decodes succeed, one after the other; its
tokens are the concatenation of theirs -/
theorem decRepeat_ok_iff {f : Dec} {n : Nat} {c c' : Cur} {ts : List Tok} :
    decRepeat f n c = .ok (ts, c') ↔ ∃ ps, Steps f n c ps c' ∧ ts = ps.flatten := by
  constructor
  · exact steps_of_decRepeat n c c' ts
  · rintro ⟨ps, hs, rfl⟩
    exact decRepeat_of_steps hs

/-- the first failing element decides the result: an error … -/
theorem decRepeat_err_of_steps {f : Dec} {k : Nat} {c ck : Cur} {ps : List (List Tok)} {e : RtcmError}
    (hs : Steps f k c ps ck) (hf : f ck = .err e) (m : Nat) : decRepeat f (k + 1 + m) c = .err e := by
  induction hs with
  | zero =>
    have : 0 + 1 + m = m + 1 := by omega
    rw [this]
    simp only [decRepeat, hf]
  | @succ n c c1 c' t ps hfc _ ih =>
    have : n + 1 + 1 + m = (n + 1 + m) + 1 := by omega
    rw [this]
    simp only [decRepeat, hfc, ih hf]

/-- … or a panic -/
theorem decRepeat_panic_of_steps {f : Dec} {k : Nat} {c ck : Cur} {ps : List (List Tok)} {w : String}
    (hs : Steps f k c ps ck) (hf : f ck = .panic w) (m : Nat) : decRepeat f (k + 1 + m) c = .panic w := by
  induction hs with
  | zero =>
    have : 0 + 1 + m = m + 1 := by omega
    rw [this]
    simp only [decRepeat, hf]
  | @succ n c c1 c' t ps hfc _ ih =>
    have : n + 1 + 1 + m = (n + 1 + m) + 1 := by omega
    rw [this]
    simp only [decRepeat, hfc, ih hf]

/-- trichotomy: all `n` elements decode, or some element `k < n` is the first to fail and its
failure is the result -/
theorem decRepeat_cases (f : Dec) : ∀ (n : Nat) (c : Cur),
    (∃ ps c', Steps f n c ps c' ∧ decRepeat f n c = .ok (ps.flatten, c')) ∨
    (∃ k ps ck, k < n ∧ Steps f k c ps ck ∧
      ((∃ e, f ck = .err e ∧ decRepeat f n c = .err e) ∨
       (∃ w, f ck = .panic w ∧ decRepeat f n c = .panic w))) := by
  intro n
  induction n with
  | zero => intro c; exact .inl ⟨[], c, .zero c, rfl⟩
  | succ n ih =>
    intro c
    cases hf : f c with
    | ok r =>
      obtain ⟨t, c1⟩ := r
      rcases ih c1 with ⟨ps, c', hs, hd⟩ | ⟨k, ps, ck, hk, hs, hfail⟩
      · exact .inl ⟨t :: ps, c', .succ hf hs, decRepeat_of_steps (.succ hf hs)⟩
      · refine .inr ⟨k + 1, t :: ps, ck, by omega, .succ hf hs, ?_⟩
        rcases hfail with ⟨e, he, hd⟩ | ⟨w, hw, hd⟩
        · exact .inl ⟨e, he, by simp only [decRepeat, hf, hd]⟩
        · exact .inr ⟨w, hw, by simp only [decRepeat, hf, hd]⟩
    | err e =>
      exact .inr ⟨0, [], c, by omega, .zero c, .inl ⟨e, hf, by simp only [decRepeat, hf]⟩⟩
    | panic w =>
      exact .inr ⟨0, [], c, by omega, .zero c, .inr ⟨w, hf, by simp only [decRepeat, hf]⟩⟩

/-! ### Fixed-size elements -/

theorem parse_ok_cursor {cfg : Cfg} {it : Bits.IT} {data : List Nat} {off len v o : Nat}
    (h : Bits.parse cfg it data off len = .ok (v, o)) : o = off + len ∧ off + len ≤ 8 * data.length := by
  unfold Bits.parse at h
  split at h
  · simp at h
  next hfit =>
  split at h
  · simp at h
  obtain ⟨s, _, h⟩ := Res.bind_eq_ok h
  obtain ⟨val, _, h⟩ := Res.bind_eq_ok h
  obtain ⟨x, _, h⟩ := Res.bind_eq_ok h
  simp only [Res.ok.injEq, Prod.mk.injEq] at h
  exact ⟨h.2.symm, by omega⟩

/-- `Fixed sz c c'`: same buffer, cursor advanced by exactly `sz`, and not past the end if `sz > 0` -/
def Fixed (sz : Nat) (c c' : Cur) : Prop :=
  c'.data = c.data ∧ c'.off = c.off + sz ∧ (sz = 0 ∨ c'.off ≤ 8 * c.data.length)

theorem Fixed.zero (c : Cur) : Fixed 0 c c := ⟨rfl, rfl, .inl rfl⟩

theorem Fixed.trans {a b : Nat} {c c1 c2 : Cur} (h1 : Fixed a c c1) (h2 : Fixed b c1 c2) :
    Fixed (a + b) c c2 := by
  obtain ⟨d1, o1, e1⟩ := h1
  obtain ⟨d2, o2, e2⟩ := h2
  refine ⟨d2.trans d1, by omega, ?_⟩
  rw [d1] at e2
  omega

theorem df_decode_fixed {cfg : Cfg} {s : Schema.DfSpec} {c c' : Cur} {t : List Tok}
    (h : Df.decode cfg s c = .ok (t, c')) : Fixed s.len c c' := by
  unfold Df.decode at h
  split at h
  · next p o hp =>
    obtain ⟨ho, hfit⟩ := parse_ok_cursor hp
    simp only [] at h
    have key : ∀ t', Res.ok (t', ({ c with off := o } : Cur)) = Res.ok (t, c') → Fixed s.len c c' := by
      intro t' ht
      simp only [Res.ok.injEq, Prod.mk.injEq] at ht
      rw [← ht.2]
      exact ⟨rfl, ho, .inr (by simp only [ho]; exact hfit)⟩
    repeat' split at h
    all_goals first
      | (simp at h; done)
      | exact key _ h
  · simp at h
  · simp at h

theorem decRepeat_fixed {f : Dec} {sz : Nat}
    (hf : ∀ c t c', f c = .ok (t, c') → Fixed sz c c') :
    ∀ (n : Nat) (c c' : Cur) (ts : List Tok), decRepeat f n c = .ok (ts, c') → Fixed (n * sz) c c' := by
  intro n
  induction n with
  | zero =>
    intro c c' ts h
    simp only [decRepeat, Res.ok.injEq, Prod.mk.injEq] at h
    rw [← h.2, Nat.zero_mul]; exact Fixed.zero c
  | succ n ih =>
    intro c c' ts h
    unfold decRepeat at h
    split at h
    · next t c1 h1 =>
      split at h
      · next ts1 c2 hr =>
        simp only [Res.ok.injEq, Prod.mk.injEq] at h
        rw [← h.2]
        have := Fixed.trans (hf _ _ _ h1) (ih _ _ _ hr)
        rwa [show sz + n * sz = (n + 1) * sz from by rw [Nat.succ_mul, Nat.add_comm]] at this
      · simp at h
      · simp at h
    · simp at h
    · simp at h

open Rtcm.Schema in
mutual
/-- data fields, and sequences and 16-grids of them: the fragments of fixed size `Size.maxBits` -/
def dfOnly : Frag → Bool
  | .df _ => true
  | .seq fs => dfOnlyFields fs
  | .grid16 e => dfOnly e
  | _ => false
def dfOnlyFields : Fields → Bool
  | .nil => true
  | .cons _ f rest => dfOnly f && dfOnlyFields rest
end

open Rtcm.Schema Rtcm.Size in
mutual
theorem decFrag_fixed (cfg : Cfg) : ∀ (f : Frag) (c c' : Cur) (t : List Tok),
    dfOnly f = true → decFrag cfg f c = .ok (t, c') → Fixed (maxBits f) c c'
  | .df s, c, c', t, _, h => by
    unfold decFrag at h
    unfold maxBits
    exact df_decode_fixed h
  | .seq fs, c, c', t, hd, h => by
    unfold decFrag at h
    unfold dfOnly at hd
    unfold maxBits
    exact decFields_fixed cfg fs c c' t hd h
  | .grid16 e, c, c', t, hd, h => by
    unfold decFrag at h
    unfold dfOnly at hd
    unfold maxBits
    exact decRepeat_fixed (fun c t c' h => decFrag_fixed cfg e c c' t hd h) 16 c c' t h
  | .str _ _, _, _, _, hd, _ => by simp [dfOnly] at hd
  | .text1029, _, _, _, hd, _ => by simp [dfOnly] at hd
  | .bias1059 _ _, _, _, _, hd, _ => by simp [dfOnly] at hd
  | .bias1065 _ _, _, _, _, hd, _ => by simp [dfOnly] at hd
  | .bias1230, _, _, _, hd, _ => by simp [dfOnly] at hd
  | .lenMiddle _ _ _ _ _, _, _, _, hd, _ => by simp [dfOnly] at hd
  | .vecWithLen _ _ _, _, _, _, hd, _ => by simp [dfOnly] at hd
  | .msm _ _ _, _, _, _, hd, _ => by simp [dfOnly] at hd
theorem decFields_fixed (cfg : Cfg) : ∀ (fs : Fields) (c c' : Cur) (t : List Tok),
    dfOnlyFields fs = true → decFields cfg fs c = .ok (t, c') → Fixed (maxBitsFields fs) c c'
  | .nil, c, c', t, _, h => by
    unfold decFields at h
    simp only [Res.ok.injEq, Prod.mk.injEq] at h
    unfold maxBitsFields
    rw [← h.2]; exact Fixed.zero c
  | .cons _ f rest, c, c', t, hd, h => by
    unfold decFields at h
    unfold dfOnlyFields at hd
    simp only [Bool.and_eq_true] at hd
    unfold maxBitsFields
    split at h
    · next t1 c1 h1 =>
      split at h
      · next ts c2 h2 =>
        simp only [Res.ok.injEq, Prod.mk.injEq] at h
        rw [← h.2]
        exact Fixed.trans (decFrag_fixed cfg f _ _ _ hd.1 h1) (decFields_fixed cfg rest _ _ _ hd.2 h2)
      · simp at h
      · simp at h
    · simp at h
    · simp at h
end

end Rtcm.Interp
