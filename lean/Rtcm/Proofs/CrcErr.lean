import Rtcm.Proofs.Crc
import Rtcm.Proofs.Frame
import Rtcm.Proofs.MkFrame
import Rtcm.Proofs.Scan
/-!
Error detection of CRC-24Q: bit-level error patterns applied to a frame, the reduction of
acceptance of the altered frame to `crcRem 0 e = 0`, and the four classes of patterns for which
that remainder is never zero (burst ≤ 24, odd weight, two bits at distance ≤ 8400; a single bit
is both a burst and of odd weight). Core Lean only.
-/
namespace Rtcm

/-! ### Bits to bytes, applying an error pattern -/

/-- shift `bits` (most significant first) into `s`, without any reduction -/
def shiftIn (s : Nat) (bits : List Bool) : Nat :=
  bits.foldl (fun s b => 2 * s + (if b then 1 else 0)) s

/-- value of a bit string, most significant bit first -/
def natOfBits (bits : List Bool) : Nat := shiftIn 0 bits

/-- Pack bits, most significant first, into bytes (an incomplete last group is dropped). -/
def bytesOfBits : List Bool → List UInt8
  | b7 :: b6 :: b5 :: b4 :: b3 :: b2 :: b1 :: b0 :: rest =>
      UInt8.ofNat (natOfBits [b7, b6, b5, b4, b3, b2, b1, b0]) :: bytesOfBits rest
  | _ => []

/-- Flip in `f` exactly the bits at which `e` is `true` (bit 0 = most significant bit of byte 0). -/
def applyErr (f : List UInt8) (e : List Bool) : List UInt8 :=
  bytesOfBits (xorBits (bitsOfBytes f) e)

/-- Error pattern of `n` bits that is `true` exactly at the positions listed in `ps`. -/
def flipAt (n : Nat) (ps : List Nat) : List Bool := (List.range n).map (fun i => ps.contains i)

/-- An error pattern for an `n`-byte frame that leaves the preamble (bits 0..7) and the length
field (bits 14..23) alone: it may hit the six reserved bits, the payload and the checksum. -/
def Admissible (n : Nat) (e : List Bool) : Prop :=
  e.length = 8 * n ∧ ∀ p, p < 24 → (p < 8 ∨ 14 ≤ p) → e.getD p false = false

instance (n : Nat) (e : List Bool) : Decidable (Admissible n e) :=
  inferInstanceAs (Decidable (_ ∧ _))

theorem exists_cons_of_succ_le {α : Type} (l : List α) (n : Nat) (h : n + 1 ≤ l.length) :
    ∃ a t, l = a :: t ∧ n ≤ t.length := by
  cases l with
  | nil => simp at h
  | cons a t => exact ⟨a, t, rfl, by simpa using h⟩

theorem bitsOfByte_ofBits : ∀ b7 b6 b5 b4 b3 b2 b1 b0 : Bool,
    bitsOfByte (UInt8.ofNat (natOfBits [b7, b6, b5, b4, b3, b2, b1, b0]))
      = [b7, b6, b5, b4, b3, b2, b1, b0] := by decide

theorem bitsOfBytes_cons (b : UInt8) (d : List UInt8) :
    bitsOfBytes (b :: d) = bitsOfByte b ++ bitsOfBytes d := by simp [bitsOfBytes]

theorem bitsOfBytes_append (a b : List UInt8) :
    bitsOfBytes (a ++ b) = bitsOfBytes a ++ bitsOfBytes b := by simp [bitsOfBytes]

theorem length_bitsOfBytes (d : List UInt8) : (bitsOfBytes d).length = 8 * d.length := by
  induction d with
  | nil => rfl
  | cons b d ih =>
    rw [bitsOfBytes_cons, List.length_append, ih]
    simp [bitsOfByte]; omega

theorem bitsOfBytes_bytesOfBits_aux (n : Nat) :
    ∀ bs : List Bool, bs.length = 8 * n → bitsOfBytes (bytesOfBits bs) = bs := by
  induction n with
  | zero =>
    intro bs h
    have : bs = [] := List.eq_nil_of_length_eq_zero (by omega)
    subst this; rfl
  | succ n ih =>
    intro bs h
    obtain ⟨b7, t, rfl, h7⟩ := exists_cons_of_succ_le bs 7 (by omega)
    obtain ⟨b6, t, rfl, h6⟩ := exists_cons_of_succ_le t 6 h7
    obtain ⟨b5, t, rfl, h5⟩ := exists_cons_of_succ_le t 5 h6
    obtain ⟨b4, t, rfl, h4⟩ := exists_cons_of_succ_le t 4 h5
    obtain ⟨b3, t, rfl, h3⟩ := exists_cons_of_succ_le t 3 h4
    obtain ⟨b2, t, rfl, h2⟩ := exists_cons_of_succ_le t 2 h3
    obtain ⟨b1, t, rfl, h1⟩ := exists_cons_of_succ_le t 1 h2
    obtain ⟨b0, t, rfl, _⟩ := exists_cons_of_succ_le t 0 h1
    rw [bytesOfBits, bitsOfBytes_cons, bitsOfByte_ofBits, ih t (by simp at h; omega)]
    rfl

/-- Packing then unpacking whole bytes is the identity. -/
theorem bitsOfBytes_bytesOfBits (bs : List Bool) (h : bs.length % 8 = 0) :
    bitsOfBytes (bytesOfBits bs) = bs :=
  bitsOfBytes_bytesOfBits_aux (bs.length / 8) bs (by omega)

theorem length_bytesOfBits (bs : List Bool) (h : bs.length % 8 = 0) :
    (bytesOfBits bs).length = bs.length / 8 := by
  have := congrArg List.length (bitsOfBytes_bytesOfBits bs h)
  rw [length_bitsOfBytes] at this
  omega

theorem length_xorBits (a e : List Bool) (h : a.length = e.length) :
    (xorBits a e).length = a.length := by simp [xorBits, h]

theorem getD_xorBits (a e : List Bool) (h : a.length = e.length) (p : Nat) :
    (xorBits a e).getD p false = (a.getD p false != e.getD p false) := by
  induction a generalizing e p with
  | nil => cases e <;> simp_all [xorBits]
  | cons x xs ih =>
    cases e with
    | nil => simp at h
    | cons y ys =>
      cases p with
      | zero => simp [xorBits]
      | succ p =>
        have := ih ys (by simpa using h) p
        simpa [xorBits] using this

theorem xorBits_false_left (l : List Bool) : xorBits (List.replicate l.length false) l = l := by
  induction l with
  | nil => rfl
  | cons x xs ih =>
    simp only [xorBits] at ih
    simp [xorBits, List.replicate_succ, ih]

theorem byteAt_lt (d : List UInt8) (i : Nat) : byteAt d i < 2 ^ 8 := by
  unfold byteAt; exact UInt8.toNat_lt _

theorem testBit_byteAt_ge (d : List UInt8) (i j : Nat) (hj : 8 ≤ j) :
    (byteAt d i).testBit j = false :=
  Nat.testBit_lt_two_pow
    (Nat.lt_of_lt_of_le (byteAt_lt d i) (Nat.pow_le_pow_right (by decide) hj))

/-- Bit `8*i + k` of the bit string is bit `7-k` of byte `i` (both `false` outside). -/
theorem getD_bitsOfBytes (d : List UInt8) (i k : Nat) (hk : k < 8) :
    (bitsOfBytes d).getD (8 * i + k) false = (byteAt d i).testBit (7 - k) := by
  induction d generalizing i with
  | nil => simp [bitsOfBytes, byteAt]
  | cons b d ih =>
    rw [bitsOfBytes_cons]
    cases i with
    | zero =>
      have hk' : k = 0 ∨ k = 1 ∨ k = 2 ∨ k = 3 ∨ k = 4 ∨ k = 5 ∨ k = 6 ∨ k = 7 := by omega
      rcases hk' with rfl | rfl | rfl | rfl | rfl | rfl | rfl | rfl <;> simp [bitsOfByte, byteAt]
    | succ i =>
      have hl : (bitsOfByte b).length = 8 := rfl
      have e1 : 8 * (i + 1) + k = (bitsOfByte b).length + (8 * i + k) := by rw [hl]; omega
      have e2 : byteAt (b :: d) (i + 1) = byteAt d i := by simp [byteAt]
      rw [e1, e2, ← ih i]
      simp [List.getD_eq_getElem?_getD, List.getElem?_append_right]

theorem bitsOfBytes_applyErr (f : List UInt8) (e : List Bool) (h : e.length = 8 * f.length) :
    bitsOfBytes (applyErr f e) = xorBits (bitsOfBytes f) e :=
  bitsOfBytes_bytesOfBits_aux f.length _
    (by rw [length_xorBits _ _ (by rw [length_bitsOfBytes, h]), length_bitsOfBytes])

theorem length_applyErr (f : List UInt8) (e : List Bool) (h : e.length = 8 * f.length) :
    (applyErr f e).length = f.length := by
  have := congrArg List.length (bitsOfBytes_applyErr f e h)
  rw [length_bitsOfBytes, length_xorBits _ _ (by rw [length_bitsOfBytes, h]),
    length_bitsOfBytes] at this
  omega

/-- `applyErr` flips bit `j` of byte `i` exactly when the pattern is set at `8*i + (7-j)`. -/
theorem testBit_byteAt_applyErr (f : List UInt8) (e : List Bool) (h : e.length = 8 * f.length)
    (i j : Nat) (hj : j < 8) :
    (byteAt (applyErr f e) i).testBit j
      = ((byteAt f i).testBit j != e.getD (8 * i + (7 - j)) false) := by
  have h1 := getD_bitsOfBytes (applyErr f e) i (7 - j) (by omega)
  have h2 := getD_bitsOfBytes f i (7 - j) (by omega)
  have e7 : 7 - (7 - j) = j := by omega
  rw [e7] at h1 h2
  rw [← h1, bitsOfBytes_applyErr f e h, getD_xorBits _ _ (by rw [length_bitsOfBytes, h]), h2]

theorem byteAt_applyErr_of_clean (f : List UInt8) (e : List Bool) (h : e.length = 8 * f.length)
    (i : Nat) (hc : ∀ k, k < 8 → e.getD (8 * i + k) false = false) :
    byteAt (applyErr f e) i = byteAt f i := by
  apply Nat.eq_of_testBit_eq
  intro j
  by_cases hj : j < 8
  · rw [testBit_byteAt_applyErr f e h i j hj, hc _ (by omega)]; simp
  · rw [testBit_byteAt_ge _ _ _ (by omega), testBit_byteAt_ge _ _ _ (by omega)]

theorem byteAt0_applyErr (f : List UInt8) (e : List Bool) (h : Admissible f.length e) :
    byteAt (applyErr f e) 0 = byteAt f 0 :=
  byteAt_applyErr_of_clean f e h.1 0 (fun k hk => h.2 _ (by omega) (by omega))

theorem lenField_applyErr (f : List UInt8) (e : List Bool) (h : Admissible f.length e) :
    lenField (applyErr f e) = lenField f := by
  have hb2 : byteAt (applyErr f e) 2 = byteAt f 2 :=
    byteAt_applyErr_of_clean f e h.1 2 (fun k hk => h.2 _ (by omega) (by omega))
  have hb1 : byteAt (applyErr f e) 1 &&& 3 = byteAt f 1 &&& 3 := by
    apply Nat.eq_of_testBit_eq
    intro j
    simp only [Nat.testBit_and, testBit_3]
    by_cases hj : j < 2
    · rw [testBit_byteAt_applyErr f e h.1 1 j (by omega), h.2 _ (by omega) (by omega)]; simp
    · simp [hj]
  unfold lenField
  rw [hb1, hb2]

/-! ### Short inputs are not reduced; the check over body and checksum -/

theorem crcRem_small (s : Nat) (bits : List Bool) (k : Nat) (hs : s < 2 ^ k)
    (hk : k + bits.length ≤ 24) : crcRem s bits = shiftIn s bits := by
  induction bits generalizing s k with
  | nil => rfl
  | cons b bs ih =>
    have ht : 2 * s + (if b then 1 else 0) < 2 ^ (k + 1) := by
      cases b <;> simp [Nat.pow_succ] <;> omega
    have hk' : k + 1 + bs.length ≤ 24 := by simp at hk; omega
    have hstep : crcStep s b = 2 * s + (if b then 1 else 0) := by
      unfold crcStep
      have : (2 * s + (if b then 1 else 0)).testBit 24 = false :=
        Nat.testBit_lt_two_pow
          (Nat.lt_of_lt_of_le ht (Nat.pow_le_pow_right (by decide) (by omega)))
      simp [this]
    show crcRem (crcStep s b) bs = shiftIn (2 * s + (if b then 1 else 0)) bs
    rw [hstep]
    exact ih _ (k + 1) ht hk'

theorem bit_eq_div_mod (n i : Nat) : (if n.testBit i then 1 else 0) = n / 2 ^ i % 2 := by
  rw [Nat.testBit_eq_decide_div_mod_eq]
  by_cases h : n / 2 ^ i % 2 = 1
  · simp [h]
  · simp [h]; omega

theorem shiftIn_bitsOfByte (s : Nat) (b : UInt8) :
    shiftIn s (bitsOfByte b) = 256 * s + b.toNat := by
  have hb : b.toNat < 256 := UInt8.toNat_lt b
  simp only [shiftIn, bitsOfByte, List.foldl_cons, List.foldl_nil, bit_eq_div_mod, Nat.reducePow]
  generalize b.toNat = n at hb ⊢
  have h1 : n / 2 = n / 1 / 2 := by omega
  have h2 : n / 4 = n / 2 / 2 := by omega
  have h3 : n / 8 = n / 4 / 2 := by omega
  have h4 : n / 16 = n / 8 / 2 := by omega
  have h5 : n / 32 = n / 16 / 2 := by omega
  have h6 : n / 64 = n / 32 / 2 := by omega
  have h7 : n / 128 = n / 64 / 2 := by omega
  have h8 : n / 128 / 2 = 0 := by omega
  have g0 : n / 1 % 2 = n / 1 - 2 * (n / 2) := by omega
  have g1 : n / 2 % 2 = n / 2 - 2 * (n / 4) := by omega
  have g2 : n / 4 % 2 = n / 4 - 2 * (n / 8) := by omega
  have g3 : n / 8 % 2 = n / 8 - 2 * (n / 16) := by omega
  have g4 : n / 16 % 2 = n / 16 - 2 * (n / 32) := by omega
  have g5 : n / 32 % 2 = n / 32 - 2 * (n / 64) := by omega
  have g6 : n / 64 % 2 = n / 64 - 2 * (n / 128) := by omega
  have g7 : n / 128 % 2 = n / 128 := by omega
  rw [g0, g1, g2, g3, g4, g5, g6, g7]
  omega

theorem shiftIn_append (s : Nat) (a b : List Bool) :
    shiftIn s (a ++ b) = shiftIn (shiftIn s a) b := by simp [shiftIn]

theorem natOfBits_three (c : List UInt8) (h : c.length = 3) :
    natOfBits (bitsOfBytes c) = be24 c 0 := by
  obtain ⟨c0, t, rfl, h0⟩ := exists_cons_of_succ_le c 2 (by omega)
  obtain ⟨c1, t, rfl, h1⟩ := exists_cons_of_succ_le t 1 h0
  obtain ⟨c2, t, rfl, _⟩ := exists_cons_of_succ_le t 0 h1
  have : t = [] := List.eq_nil_of_length_eq_zero (by simp only [List.length_cons] at h; omega)
  subst this
  have l0 : c0.toNat < 2 ^ 8 := UInt8.toNat_lt c0
  have l1 : c1.toNat < 2 ^ 8 := UInt8.toNat_lt c1
  have l2 : c2.toNat < 2 ^ 8 := UInt8.toNat_lt c2
  have hbe : be24 [c0, c1, c2] 0 = (c0.toNat <<< 16) ||| ((c1.toNat <<< 8) ||| c2.toNat) := by
    simp [be24, byteAt, Nat.or_assoc]
  have hlow : c1.toNat <<< 8 ||| c2.toNat < 2 ^ 16 := by
    rw [← Nat.shiftLeft_add_eq_or_of_lt l2, Nat.shiftLeft_eq]; omega
  rw [hbe, ← Nat.shiftLeft_add_eq_or_of_lt hlow, ← Nat.shiftLeft_add_eq_or_of_lt l2,
    Nat.shiftLeft_eq, Nat.shiftLeft_eq]
  simp only [natOfBits, bitsOfBytes_cons, shiftIn_append, shiftIn_bitsOfByte]
  simp [bitsOfBytes, shiftIn]
  omega

theorem xor_eq_zero_iff (a b : Nat) : a ^^^ b = 0 ↔ a = b := by
  constructor
  · intro h
    have : a ^^^ (a ^^^ b) = b := by rw [← Nat.xor_assoc, Nat.xor_self, Nat.zero_xor]
    rw [h, Nat.xor_zero] at this
    exact this
  · intro h; rw [h, Nat.xor_self]

/-- Remainder of body followed by three checksum bytes: the body's CRC xor the checksum. -/
theorem crcRem_body_crc (b c : List UInt8) (hc : c.length = 3) :
    crcRem 0 (bitsOfBytes (b ++ c)) = crc24q b ^^^ be24 c 0 := by
  rw [bitsOfBytes_append, crcRem_append]
  have hl : (bitsOfBytes c).length = 24 := by rw [length_bitsOfBytes, hc]
  have hx := xorBits_false_left (bitsOfBytes c)
  rw [hl] at hx
  have := crcRem_linear (crcRem 0 (bitsOfBytes b)) 0 (List.replicate 24 false) (bitsOfBytes c)
    (by simp [hl])
  rw [Nat.xor_zero, hx] at this
  rw [this, ← crcRemBytes_eq_bits, crcRem_small 0 _ 0 (by decide) (by omega),
    ← natOfBits_three c hc]
  rfl

/-- A complete candidate of exactly the announced extent and with the right preamble is accepted
iff the remainder of all its bits is zero, and is rejected as not valid otherwise. -/
theorem frameNew_exact (d : List UInt8) (hlen : d.length = lenField d + 6)
    (h0 : byteAt d 0 = 0xd3) :
    ((∃ x, frameNew d = .ok x) ↔ crcRem 0 (bitsOfBytes d) = 0) ∧
    (frameNew d = .error .notValid ↔ crcRem 0 (bitsOfBytes d) ≠ 0) := by
  have hsplit : d = d.take (lenField d + 3) ++ d.drop (lenField d + 3) :=
    (List.take_append_drop _ _).symm
  have hcl : (d.drop (lenField d + 3)).length = 3 := by simp; omega
  have htl : (d.take (lenField d + 3)).length = lenField d + 3 := by simp; omega
  have hbe : be24 d (lenField d + 3) = be24 (d.drop (lenField d + 3)) 0 := by
    have a0 := byteAt_append_right (d.take (lenField d + 3)) (d.drop (lenField d + 3)) 0
    have a1 := byteAt_append_right (d.take (lenField d + 3)) (d.drop (lenField d + 3)) 1
    have a2 := byteAt_append_right (d.take (lenField d + 3)) (d.drop (lenField d + 3)) 2
    rw [← hsplit, htl] at a0 a1 a2
    unfold be24
    rw [← a0, ← a1, ← a2]
  have hkey : be24 d (lenField d + 3) = crc24q (d.take (lenField d + 3)) ↔
      crcRem 0 (bitsOfBytes d) = 0 := by
    have := crcRem_body_crc (d.take (lenField d + 3)) (d.drop (lenField d + 3)) hcl
    rw [← hsplit] at this
    rw [this, xor_eq_zero_iff, hbe]
    exact eq_comm
  constructor
  · constructor
    · rintro ⟨x, hx⟩
      exact hkey.mp ((frameNew_ok_iff d x).mp hx).2.2.2.1
    · intro h
      exact ⟨_, (frameNew_ok_iff d _).mpr ⟨by omega, h0, by omega, hkey.mpr h, rfl⟩⟩
  · rw [frameNew_notValid_iff]
    constructor
    · rintro ⟨_, h | ⟨_, h⟩⟩
      · exact absurd h0 h
      · exact fun hz => h (hkey.mpr hz)
    · intro h
      exact ⟨by omega, Or.inr ⟨by omega, fun hz => h (hkey.mp hz)⟩⟩

theorem lenField_lt (d : List UInt8) : lenField d < 1024 := by
  unfold lenField
  have h1 := byteAt_lt d 1
  have h2 := byteAt_lt d 2
  have h3 : byteAt d 1 &&& 3 ≤ 3 := Nat.and_le_right
  have : (byteAt d 1 &&& 3) <<< 8 < 2 ^ 10 := by rw [Nat.shiftLeft_eq]; omega
  exact Nat.or_lt_two_pow this (Nat.lt_of_lt_of_le h2 (by decide))

/-- What "valid frame" gives: exact extent, preamble, bound, zero remainder. -/
theorem valid_facts (f : List UInt8) (x : Frame) (hv : frameNew f = .ok x)
    (hl : f.length = x.frameLen) :
    f.length = lenField f + 6 ∧ byteAt f 0 = 0xd3 ∧ f.length ≤ 1029 ∧
      crcRem 0 (bitsOfBytes f) = 0 := by
  have h1 := frameNew_ok_frameLen f x hv
  have h2 := (frameNew_ok_iff f x).mp hv
  have hlen : f.length = lenField f + 6 := by omega
  have := lenField_lt f
  exact ⟨hlen, h2.2.1, by omega, (frameNew_exact f hlen h2.2.1).1.mp ⟨x, hv⟩⟩

/-- The remainder of the altered frame is the remainder of the error pattern. -/
theorem crcRem_applyErr (f : List UInt8) (x : Frame) (e : List Bool)
    (hv : frameNew f = .ok x) (hl : f.length = x.frameLen) (he : e.length = 8 * f.length) :
    crcRem 0 (bitsOfBytes (applyErr f e)) = crcRem 0 e := by
  have hz := (valid_facts f x hv hl).2.2.2
  have := crcRem_linear 0 0 (bitsOfBytes f) e (by rw [length_bitsOfBytes, he])
  rw [Nat.xor_self, hz, Nat.zero_xor] at this
  rw [bitsOfBytes_applyErr f e he, this]

/-- Step 2: the altered frame is accepted iff the error pattern is a multiple of the generator. -/
theorem applyErr_outcome (f : List UInt8) (x : Frame) (e : List Bool)
    (hv : frameNew f = .ok x) (hl : f.length = x.frameLen) (ha : Admissible f.length e) :
    ((∃ y, frameNew (applyErr f e) = .ok y) ↔ crcRem 0 e = 0) ∧
    (frameNew (applyErr f e) = .error .notValid ↔ crcRem 0 e ≠ 0) := by
  obtain ⟨hlen, h0, _, _⟩ := valid_facts f x hv hl
  have hlen' : (applyErr f e).length = lenField (applyErr f e) + 6 := by
    rw [length_applyErr f e ha.1, lenField_applyErr f e ha]; exact hlen
  have h0' : byteAt (applyErr f e) 0 = 0xd3 := by rw [byteAt0_applyErr f e ha]; exact h0
  have := frameNew_exact (applyErr f e) hlen' h0'
  rw [crcRem_applyErr f x e hv hl ha.1] at this
  exact this

/-! ### Patterns whose remainder is not zero -/

theorem crcRem_cons (s : Nat) (b : Bool) (bs : List Bool) :
    crcRem s (b :: bs) = crcRem (crcStep s b) bs := rfl

theorem crcRem_replicate_succ (s n : Nat) :
    crcRem s (List.replicate (n + 1) false) = crcRem (crcStep s false) (List.replicate n false) :=
  rfl

theorem crcRem_replicate_succ' (s n : Nat) :
    crcRem s (List.replicate (n + 1) false) = crcStep (crcRem s (List.replicate n false)) false := by
  rw [List.replicate_succ', crcRem_append]; rfl

theorem crcRem_zero_replicate (k : Nat) : crcRem 0 (List.replicate k false) = 0 := by
  induction k with
  | zero => rfl
  | succ k ih => rw [crcRem_replicate_succ]; exact ih

/-- Step 3: a zero input bit never kills a non-zero state (`2s` is even, the generator odd). -/
theorem crcStep_false_ne_zero (s : Nat) (hs : s ≠ 0) : crcStep s false ≠ 0 := by
  unfold crcStep
  simp only [Bool.false_eq_true, ↓reduceIte, Nat.add_zero]
  split
  · intro h
    have h1 : ((2 * s) ^^^ crcG).testBit 0 = true := by
      rw [Nat.testBit_xor]; simp [crcG]
    rw [h] at h1
    simp at h1
  · omega

theorem crcRem_replicate_ne_zero (s m : Nat) (hs : s ≠ 0) :
    crcRem s (List.replicate m false) ≠ 0 := by
  induction m generalizing s with
  | zero => exact hs
  | succ m ih => rw [crcRem_replicate_succ]; exact ih _ (crcStep_false_ne_zero s hs)

theorem le_shiftIn (s : Nat) (bits : List Bool) : s ≤ shiftIn s bits := by
  induction bits generalizing s with
  | nil => exact Nat.le_refl _
  | cons b bs ih =>
    have := ih (2 * s + (if b then 1 else 0))
    show s ≤ shiftIn (2 * s + (if b then 1 else 0)) bs
    omega

theorem shiftIn_ne_zero (s : Nat) (bits : List Bool) (h : s ≠ 0 ∨ true ∈ bits) :
    shiftIn s bits ≠ 0 := by
  induction bits generalizing s with
  | nil => simpa [shiftIn] using h
  | cons b bs ih =>
    show shiftIn (2 * s + (if b then 1 else 0)) bs ≠ 0
    apply ih
    rcases h with h | h
    · left; omega
    · cases b
      · right; simpa using h
      · left; simp

/-- Step 4: a non-zero pattern confined to a window of at most 24 bits. -/
theorem crcRem_burst_ne_zero (k m : Nat) (pat : List Bool) (hp : pat.length ≤ 24)
    (ht : true ∈ pat) :
    crcRem 0 (List.replicate k false ++ pat ++ List.replicate m false) ≠ 0 := by
  rw [crcRem_append, crcRem_append, crcRem_zero_replicate,
    crcRem_small 0 pat 0 (by decide) (by omega)]
  exact crcRem_replicate_ne_zero _ _ (shiftIn_ne_zero 0 pat (Or.inr ht))

/-! Parity (evaluation at x = 1): the generator has an even number of terms. -/

/-- parity of the number of one bits -/
def par (n : Nat) : Bool := if n = 0 then false else (n % 2 == 1) != par (n / 2)
termination_by n
decreasing_by omega

theorem par_zero : par 0 = false := by rw [par]; rfl

theorem par_crcG : par crcG = false := by decide +kernel

theorem par_bit (s : Nat) (b : Bool) : par (2 * s + (if b then 1 else 0)) = (par s != b) := by
  by_cases h : 2 * s + (if b then 1 else 0) = 0
  · have hs : s = 0 := by omega
    have hb : b = false := by cases b <;> simp_all
    subst hs hb; simp [par_zero]
  · rw [par, if_neg h]
    have h1 : (2 * s + (if b then 1 else 0)) / 2 = s := by cases b <;> simp <;> omega
    have h2 : ((2 * s + (if b then 1 else 0)) % 2 == 1) = b := by
      cases b <;> simp <;> omega
    rw [h1, h2]
    cases par s <;> cases b <;> rfl

theorem par_xor (a b : Nat) : par (a ^^^ b) = (par a != par b) := by
  induction a using Nat.strongRecOn generalizing b with
  | _ a ih =>
    by_cases ha : a = 0
    · subst ha; simp [par_zero]
    · have ea : a = 2 * (a / 2) + (if (a % 2 == 1) then 1 else 0) := by
        by_cases h : a % 2 = 1 <;> simp [h] <;> omega
      have eb : b = 2 * (b / 2) + (if (b % 2 == 1) then 1 else 0) := by
        by_cases h : b % 2 = 1 <;> simp [h] <;> omega
      have hx := two_mul_add_bit_xor (a / 2) (b / 2) (a % 2 == 1) (b % 2 == 1)
      rw [← ea, ← eb] at hx
      rw [← hx, par_bit, ih (a / 2) (by omega)]
      conv => rhs; rw [ea, eb, par_bit, par_bit]
      cases par (a / 2) <;> cases par (b / 2) <;> cases (a % 2 == 1) <;> cases (b % 2 == 1) <;> rfl

theorem par_crcStep (s : Nat) (b : Bool) : par (crcStep s b) = (par s != b) := by
  unfold crcStep
  have hp := par_bit s b
  generalize (2 * s + if b = true then 1 else 0) = t at hp ⊢
  simp only
  split
  · rw [par_xor, hp, par_crcG]; simp
  · exact hp

/-- Step 5: the parity of the remainder is the parity of the start plus that of the input. -/
theorem par_crcRem (s : Nat) (bits : List Bool) :
    par (crcRem s bits) = (par s != (bits.count true % 2 == 1)) := by
  induction bits generalizing s with
  | nil => simp [crcRem]
  | cons b bs ih =>
    rw [crcRem_cons, ih, par_crcStep]
    cases b
    · simp
    · have : (List.count true (true :: bs)) = List.count true bs + 1 := by simp
      rw [this]
      by_cases h : List.count true bs % 2 = 1
      · have h' : (List.count true bs + 1) % 2 = 0 := by omega
        simp [h, h']
      · have h' : (List.count true bs + 1) % 2 = 1 := by omega
        have h'' : List.count true bs % 2 = 0 := by omega
        simp [h', h'']

theorem crcRem_odd_ne_zero (e : List Bool) (h : e.count true % 2 = 1) : crcRem 0 e ≠ 0 := by
  intro hz
  have := par_crcRem 0 e
  rw [hz, par_zero, h] at this
  simp at this

/-! Two bits: `x^k mod g ≠ 1` for `1 ≤ k ≤ 8400`, one kernel computation. -/

/-- Starting from `s`, none of the next `n` zero-input states equals 1. -/
def noReturn : Nat → Nat → Bool
  | 0, _ => true
  | n + 1, s => let s' := crcStep s false; s' != 1 && noReturn n s'

theorem noReturn_8400 : noReturn 8400 1 = true := by decide +kernel

theorem noReturn_spec (n s : Nat) (h : noReturn n s = true) (k : Nat) (h1 : 1 ≤ k) (hk : k ≤ n) :
    crcRem s (List.replicate k false) ≠ 1 := by
  induction n generalizing s k with
  | zero => omega
  | succ n ih =>
    simp only [noReturn, Bool.and_eq_true, bne_iff_ne, ne_eq] at h
    obtain ⟨k, rfl⟩ : ∃ k', k = k' + 1 := ⟨k - 1, by omega⟩
    rw [crcRem_replicate_succ]
    cases k with
    | zero => exact h.1
    | succ k => exact ih _ h.2 (k + 1) (by omega) (by omega)

theorem xk_ne_one (k : Nat) (h1 : 1 ≤ k) (hk : k ≤ 8400) :
    crcRem 1 (List.replicate k false) ≠ 1 :=
  noReturn_spec 8400 1 noReturn_8400 k h1 hk

theorem crcStep_true (s : Nat) : crcStep s true = crcStep s false ^^^ 1 := by
  have := crcStep_linear s 0 false true
  rw [Nat.xor_zero] at this
  exact this

/-- Step 6: two set bits at distance `d + 1 ≤ 8400`. -/
theorem crcRem_two_ne_zero (k d m : Nat) (hd : d + 1 ≤ 8400) :
    crcRem 0 (List.replicate k false ++ true :: (List.replicate d false ++
      true :: List.replicate m false)) ≠ 0 := by
  rw [crcRem_append, crcRem_zero_replicate, crcRem_cons, crcRem_append, crcRem_cons]
  have h1 : crcStep 0 true = 1 := by decide
  rw [h1, crcStep_true, ← crcRem_replicate_succ']
  apply crcRem_replicate_ne_zero
  intro h
  exact xk_ne_one (d + 1) (by omega) hd ((xor_eq_zero_iff _ _).mp h)

/-! ### From counting / positions to shapes -/

theorem count_true_zero (l : List Bool) (h : l.count true = 0) :
    l = List.replicate l.length false := by
  induction l with
  | nil => rfl
  | cons b t ih =>
    cases b
    · simp at h; simp [List.replicate_succ]; exact ih h
    · simp at h

theorem count_true_succ (l : List Bool) (n : Nat) (h : l.count true = n + 1) :
    ∃ k rest, l = List.replicate k false ++ true :: rest ∧ rest.count true = n := by
  induction l with
  | nil => simp at h
  | cons b t ih =>
    cases b
    · obtain ⟨k, rest, ht, hc⟩ := ih (by simpa using h)
      exact ⟨k + 1, rest, by rw [ht]; simp [List.replicate_succ], hc⟩
    · exact ⟨0, t, by simp, by simpa using h⟩

theorem eq_replicate_false (l : List Bool) (h : ∀ p, p < l.length → l.getD p false = false) :
    l = List.replicate l.length false := by
  apply count_true_zero
  rw [List.count_eq_zero]
  intro hm
  obtain ⟨i, hi, hv⟩ := List.mem_iff_getElem.mp hm
  have := h i hi
  rw [List.getD_eq_getElem?_getD, List.getElem?_eq_getElem hi] at this
  simp [hv] at this

/-- A pattern whose set bits all lie in `[k, k+24)` is zeros, a window of ≤ 24 bits, zeros. -/
theorem window_shape (e : List Bool) (k : Nat)
    (hw : ∀ p, e.getD p false = true → k ≤ p ∧ p < k + 24) :
    e = List.replicate (e.take k).length false ++ (e.drop k).take 24 ++
          List.replicate ((e.drop k).drop 24).length false := by
  have hA : e.take k = List.replicate (e.take k).length false := by
    apply eq_replicate_false
    intro p hp
    have hpk : p < k := by simp at hp; omega
    cases hv : (e.take k).getD p false with
    | false => rfl
    | true =>
      have : e.getD p false = true := by
        rw [← hv]; simp [List.getD_eq_getElem?_getD, hpk]
      have := hw p this
      omega
  have hC : (e.drop k).drop 24 = List.replicate ((e.drop k).drop 24).length false := by
    apply eq_replicate_false
    intro p hp
    cases hv : ((e.drop k).drop 24).getD p false with
    | false => rfl
    | true =>
      have : e.getD (k + (24 + p)) false = true := by
        rw [← hv]; simp [List.getD_eq_getElem?_getD, List.getElem?_drop, Nat.add_assoc]
      have := hw _ this
      omega
  have : e = e.take k ++ ((e.drop k).take 24 ++ (e.drop k).drop 24) := by
    rw [List.take_append_drop, List.take_append_drop]
  rw [← hA, ← hC, List.append_assoc]
  exact this

theorem crcRem_window_ne_zero (e : List Bool) (k : Nat) (hne : true ∈ e)
    (hw : ∀ p, e.getD p false = true → k ≤ p ∧ p < k + 24) : crcRem 0 e ≠ 0 := by
  have hs := window_shape e k hw
  have hm : true ∈ (e.drop k).take 24 := by
    rw [hs] at hne
    simp only [List.mem_append, List.mem_replicate] at hne
    rcases hne with (h | h) | h
    · simp at h
    · exact h
    · simp at h
  rw [hs]
  exact crcRem_burst_ne_zero _ _ _ (by simp; omega) hm

theorem crcRem_count_two_ne_zero (e : List Bool) (hlen : e.length ≤ 8400)
    (h : e.count true = 2) : crcRem 0 e ≠ 0 := by
  obtain ⟨k, r1, h1, c1⟩ := count_true_succ e 1 h
  obtain ⟨d, r2, h2, c2⟩ := count_true_succ r1 0 c1
  have h3 := count_true_zero r2 c2
  rw [h1, h2, h3]
  apply crcRem_two_ne_zero
  have : e.length = k + (d + (r2.length + 1) + 1) := by
    rw [h1, h2]; simp
  omega

/-! ### Scanner -/

/-- Every frame the scanner delivers is accepted when presented alone. -/
theorem scan_delivers_valid (buf : List UInt8) (c : Nat) (g : Frame)
    (h : scan buf = (c, some g)) : frameNew g.frameData = .ok g := by
  obtain ⟨i, _, _, hok, _, _⟩ := scan_some buf c g h
  have hfl := frameNew_ok_frameLen _ _ hok
  have hsplit : buf.drop i = g.frameData ++ (buf.drop i).drop g.frameLen := by
    rw [hfl.2.2.2, List.take_append_drop]
  rw [hsplit] at hok
  apply frameNew_prefix_ok _ _ _ hok
  rw [← hsplit]
  have : g.frameData.length = g.frameLen := rfl
  omega

end Rtcm
