import Rtcm.Props.C07
import Rtcm.Model.Text
/-!
# Writer / reader agreement on the bit cursor `Cur`

A small toolkit for sequencing many field writes and then many field reads.

* `Good c`      : every buffer byte is a byte.
* `AgreeOn D E lo hi` : buffers `D` and `E` carry the same bits on `[lo, hi)`.
* `Ext c c'`    : `c'` is what a writer leaves when started at `c`: same buffer length, bytes stay
  bytes, the cursor only moves forward, the cursor stays inside the buffer, and every bit outside
  `[c.off, c'.off)` is unchanged.  `Ext` is a preorder (`Ext.refl`, `Ext.trans`).
* `putF` / `parseF` : one field of any `BitValue` kind on a `Cur` (`putU`, `parseU`, `putI16`,
  `parseI16` are instances, by `rfl`).
* `putF_law`    : a successful `putF` at `c` extends `c`, and a `parseF` at `c.off` in ANY buffer of
  the same length that agrees with the written buffer on `[c.off, c'.off)` returns the value.
* `Ext.agree_left` / `AgreeOn.mono` : the two lines that make "write a; write b ⇒ read a; read b"
  compose: a buffer that agrees with the final one on `[c.off, c2.off)` agrees with the
  intermediate one on `[c.off, c1.off)` (later writes do not touch earlier bits) and with the
  final one on `[c1.off, c2.off)`.
-/
namespace Rtcm.CurLaws
open Rtcm.Bits Rtcm.Text

def Good (c : Cur) : Prop := ∀ d ∈ c.data, d < 256

def AgreeOn (D E : List Nat) (lo hi : Nat) : Prop :=
  ∀ g, lo ≤ g → g < hi → bitAt D g = bitAt E g

theorem AgreeOn.rfl' (D : List Nat) (lo hi : Nat) : AgreeOn D D lo hi := fun _ _ _ => rfl

theorem AgreeOn.mono {D E : List Nat} {lo hi lo' hi' : Nat} (h : AgreeOn D E lo hi)
    (h1 : lo ≤ lo') (h2 : hi' ≤ hi) : AgreeOn D E lo' hi' :=
  fun g a b => h g (Nat.le_trans h1 a) (Nat.lt_of_lt_of_le b h2)

structure Ext (c c' : Cur) : Prop where
  good : Good c'
  len : c'.data.length = c.data.length
  le : c.off ≤ c'.off
  fit : c'.off ≤ 8 * c'.data.length
  keep : ∀ g, g < c.off ∨ c'.off ≤ g → bitAt c'.data g = bitAt c.data g

theorem Ext.refl {c : Cur} (hg : Good c) (hfit : c.off ≤ 8 * c.data.length) : Ext c c :=
  ⟨hg, rfl, Nat.le_refl _, hfit, fun _ _ => rfl⟩

theorem Ext.trans {a b c : Cur} (h1 : Ext a b) (h2 : Ext b c) : Ext a c where
  good := h2.good
  len := h2.len.trans h1.len
  le := Nat.le_trans h1.le h2.le
  fit := h2.fit
  keep g hg := by
    have l1 := h1.le
    have l2 := h2.le
    rw [h2.keep g (by omega), h1.keep g (by omega)]

/-- later writes do not disturb earlier fields: a buffer agreeing with the final state on
`[lo, c2.off)` agrees with the intermediate state on `[lo, c1.off)` -/
theorem Ext.agree_left {c1 c2 : Cur} (h : Ext c1 c2) {D : List Nat} {lo : Nat}
    (ha : AgreeOn D c2.data lo c2.off) : AgreeOn D c1.data lo c1.off := by
  intro g hlo hhi
  rw [ha g hlo (Nat.lt_of_lt_of_le hhi h.le), h.keep g (Or.inl hhi)]

theorem Ext.agree_right {c1 c2 : Cur} (_h : Ext c1 c2) {D : List Nat} {lo : Nat}
    (ha : AgreeOn D c2.data lo c2.off) (hlo : lo ≤ c1.off) : AgreeOn D c2.data c1.off c2.off :=
  ha.mono hlo (Nat.le_refl _)

theorem fieldValue_congr {D E : List Nat} {o len : Nat} (h : AgreeOn D E o (o + len)) :
    fieldValue D o len = fieldValue E o len := by
  apply Nat.eq_of_testBit_eq
  intro m
  rw [testBit_fieldValue, testBit_fieldValue]
  by_cases hm : m < len
  · rw [h _ (by omega) (by omega)]
  · simp [hm]

/-! ### one field on a `Cur` -/

def putF (cfg : Cfg) (it : IT) (v len : Nat) (c : Cur) : Res Cur :=
  match Bits.put cfg it c.data c.off v len with
  | .ok (d, o) => .ok { data := d, off := o }
  | .err e => .err e
  | .panic p => .panic p

def parseF (cfg : Cfg) (it : IT) (len : Nat) (c : Cur) : Res (Nat × Cur) :=
  match Bits.parse cfg it c.data c.off len with
  | .ok (v, o) => .ok (v, { c with off := o })
  | .err e => .err e
  | .panic p => .panic p

theorem putU_eq (cfg : Cfg) (w v len : Nat) (c : Cur) : putU cfg w v len c = putF cfg ⟨.u, w⟩ v len c := rfl
theorem parseU_eq (cfg : Cfg) (w len : Nat) (c : Cur) : parseU cfg w len c = parseF cfg ⟨.u, w⟩ len c := rfl

section
variable (cfg : Cfg) (it : IT) (hw8 : 8 ≤ it.w) (hw64 : it.w ≤ 64) {len : Nat} (h1 : 1 ≤ len)
  (hlw : len ≤ it.w)
include hw8 hw64 h1 hlw

/-- a write either fits and succeeds, or reports `BufferOverflow`; it never panics -/
theorem putF_cases {c : Cur} {v : Nat} (hg : Good c) (hv : v < 2 ^ it.w) :
    (c.off + len ≤ 8 * c.data.length ∧ ∃ c', putF cfg it v len c = .ok c' ∧
        c'.off = c.off + len ∧ Ext c c' ∧ fieldValue c'.data c.off len = wireValue it len v) ∨
    (8 * c.data.length < c.off + len ∧ putF cfg it v len c = .err .bufferOverflow) := by
  by_cases hfit : c.off + len ≤ 8 * c.data.length
  · left
    refine ⟨hfit, ?_⟩
    obtain ⟨d', hput, hl, hb, hbits⟩ :=
      C07.put_spec cfg it c.data c.off v len hw8 hw64 h1 hlw hg hfit hv
    refine ⟨⟨d', c.off + len⟩, by simp [putF, hput], rfl, ⟨hb, hl, by simp, by simp [hl]; omega, ?_⟩, ?_⟩
    · intro g hgo
      rw [hbits g, if_neg]
      simp only at hgo
      omega
    · apply Nat.eq_of_testBit_eq
      intro m
      rw [testBit_fieldValue, hbits]
      by_cases hm : m < len
      · have hg' : c.off ≤ c.off + len - 1 - m ∧ c.off + len - 1 - m < c.off + len := by omega
        have e : len - 1 - (c.off + len - 1 - m - c.off) = m := by omega
        simp only [hm, decide_true, Bool.true_and, if_pos hg', wireBit, e]
      · have : wireValue it len v < 2 ^ m :=
          Nat.lt_of_lt_of_le (wireValue_lt it h1 v) (Nat.pow_le_pow_right (by decide) (by omega))
        simp [hm, Nat.testBit_lt_two_pow this]
  · right
    refine ⟨by omega, ?_⟩
    have := C07.put_overflow_error cfg it c.data c.off v len (by omega)
    simp [putF, this]

/-- reading a field from any buffer that has room -/
theorem parseF_at (D : List Nat) (o : Nat) (hfit : o + len ≤ 8 * D.length) :
    parseF cfg it len ⟨D, o⟩ = .ok (readValue it len (fieldValue D o len), ⟨D, o + len⟩) := by
  simp [parseF, C07.parse_bits cfg it D o len hw8 hw64 h1 hlw hfit]

omit hw8 hw64 h1 hlw in
theorem parseF_overflow (D : List Nat) (o : Nat) (hfit : 8 * D.length < o + len) :
    parseF cfg it len ⟨D, o⟩ = .err .bufferOverflow := by
  simp [parseF, C07.parse_overflow_error cfg it D o len (by omega)]

/-- THE field law: a successful write extends the cursor state, and a read at the same offset in
any buffer that agrees with the written one on the field's bits returns the written wire value -/
theorem putF_law {c c' : Cur} {v : Nat} (hg : Good c) (hv : v < 2 ^ it.w)
    (h : putF cfg it v len c = .ok c') :
    Ext c c' ∧ c'.off = c.off + len ∧
    ∀ D, D.length = c'.data.length → AgreeOn D c'.data c.off c'.off →
      parseF cfg it len ⟨D, c.off⟩ = .ok (readValue it len (wireValue it len v), ⟨D, c'.off⟩) := by
  rcases putF_cases cfg it hw8 hw64 h1 hlw hg hv with ⟨_, c'', h', hoff, hext, hfv⟩ | ⟨_, h'⟩
  · rw [h] at h'
    cases h'
    refine ⟨hext, hoff, ?_⟩
    intro D hD ha
    have hfit := hext.fit
    rw [parseF_at cfg it hw8 hw64 h1 hlw D c.off (by omega),
      fieldValue_congr (E := c'.data) (by rw [← hoff]; exact ha), hfv, hoff]
  · rw [h] at h'
    cases h'

/-- a write is `.ok` or `BufferOverflow` -/
theorem putF_ok_or_overflow {c : Cur} {v : Nat} (hg : Good c) (hv : v < 2 ^ it.w) :
    (∃ c', putF cfg it v len c = .ok c') ∨ putF cfg it v len c = .err .bufferOverflow := by
  rcases putF_cases cfg it hw8 hw64 h1 hlw hg hv with ⟨_, c'', h', _⟩ | ⟨_, h'⟩
  · exact Or.inl ⟨c'', h'⟩
  · exact Or.inr h'

end

/-! ### unsigned fields on an 8-bit carrier (`U8`) -/

theorem readValue_wireValue_u (w len v : Nat) (hv : v < 2 ^ len) :
    readValue ⟨.u, w⟩ len (wireValue ⟨.u, w⟩ len v) = v := by
  simp [readValue, wireValue, Nat.mod_eq_of_lt hv]

theorem putU_law (cfg : Cfg) {len : Nat} (h1 : 1 ≤ len) (h8 : len ≤ 8) {c c' : Cur} {v : Nat}
    (hg : Good c) (hv : v < 2 ^ len) (h : putU cfg 8 v len c = .ok c') :
    Ext c c' ∧ c'.off = c.off + len ∧
    ∀ D, D.length = c'.data.length → AgreeOn D c'.data c.off c'.off →
      parseU cfg 8 len ⟨D, c.off⟩ = .ok (v, ⟨D, c'.off⟩) := by
  have hv' : v < 2 ^ (8 : Nat) := Nat.lt_of_lt_of_le hv (Nat.pow_le_pow_right (by decide) h8)
  have := putF_law cfg ⟨.u, 8⟩ (by decide) (by decide) h1 h8 hg hv' h
  rw [readValue_wireValue_u 8 len v hv] at this
  exact this

theorem putU_ok_or_overflow (cfg : Cfg) {len : Nat} (h1 : 1 ≤ len) (h8 : len ≤ 8) {c : Cur}
    {v : Nat} (hg : Good c) (hv : v < 2 ^ len) :
    (∃ c', putU cfg 8 v len c = .ok c') ∨ putU cfg 8 v len c = .err .bufferOverflow :=
  putF_ok_or_overflow cfg ⟨.u, 8⟩ (by decide) (by decide) h1 h8 hg
    (Nat.lt_of_lt_of_le hv (Nat.pow_le_pow_right (by decide) h8))

end Rtcm.CurLaws
