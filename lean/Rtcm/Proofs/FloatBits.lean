import Rtcm.Proofs.Float
import Mathlib.Tactic.Ring
import Mathlib.Tactic.Linarith
import Mathlib.Tactic.NormNum
import Mathlib.Tactic.Positivity
import Mathlib.Tactic.FieldSimp
import Mathlib.Tactic.Push
/-!
# Bit-pattern round trip for rounded values

Every finite value produced by `roundMag` (`rmv` below the overflow threshold) survives
`toBits` / `ofBits`, including the sign (also of zero).
-/
namespace Rtcm.SoftFloat

theorem p_eq (fmt : Fmt) (hg : fmt.Good) : fmt.p = mantBits fmt + 1 := by
  have := hg.p_ge; unfold mantBits; omega

theorem texp_eq (fmt : Fmt) (hg : fmt.Good) (x : ℚ) :
    texp fmt x = max (ilog2 x) fmt.emin - (mantBits fmt : Int) := by
  unfold texp; have := p_eq fmt hg; omega

/-- canonical representations of the finite magnitudes of a format -/
inductive Canon (fmt : Fmt) (m : ℚ) : Prop
  | zero : m = 0 → Canon fmt m
  | sub (n : Nat) : 0 < n → n < 2 ^ mantBits fmt →
      m = (n : ℚ) * pow2 (fmt.emin - (mantBits fmt : Int)) → Canon fmt m
  | norm (n : Nat) (e : Int) : 2 ^ mantBits fmt ≤ n → n < 2 * 2 ^ mantBits fmt →
      fmt.emin ≤ e → e ≤ fmt.emax →
      m = (n : ℚ) * pow2 (e - (mantBits fmt : Int)) → Canon fmt m

theorem rmv_canon (fmt : Fmt) (hg : fmt.Good) (y : ℚ) (hy : 0 ≤ y)
    (h : rmv fmt y < omega fmt) : Canon fmt (rmv fmt y) := by
  rcases hy.eq_or_lt with h0 | hpos
  · subst h0; exact .zero (rmv_zero fmt)
  have ht : texp fmt y = max (ilog2 y) fmt.emin - (mantBits fmt : Int) := texp_eq fmt hg y
  unfold rmv at h ⊢
  unfold omega at h
  generalize texp fmt y = t at *
  generalize hmb : mantBits fmt = mb at *
  obtain ⟨e, he, hle, hemin, hc1, hc2⟩ : ∃ e : Int, e = t + (mb : Int) ∧ ilog2 y ≤ e ∧
      fmt.emin ≤ e ∧ (fmt.emin ≤ ilog2 y → e = ilog2 y) ∧ (ilog2 y < fmt.emin → e = fmt.emin) :=
    ⟨max (ilog2 y) fmt.emin, by omega, le_max_left _ _, le_max_right _ _,
      fun h => max_eq_left h, fun h => max_eq_right h.le⟩
  have hpt := pow2_pos t
  have hpe : pow2 e = (((2 ^ mb : Nat) : Int) : ℚ) * pow2 t := by
    rw [he, add_comm, pow2_add, pow2_natCast]; push_cast; ring
  have hpe1 : pow2 (e + 1) = (((2 * 2 ^ mb : Nat) : Int) : ℚ) * pow2 t := by
    rw [pow2_succ, hpe]; push_cast; ring
  have hqlt : y / pow2 t < (((2 * 2 ^ mb : Nat) : Int) : ℚ) := by
    rw [div_lt_iff₀ hpt]
    have h1 := lt_pow2_ilog2_succ y hpos
    have h2 : pow2 (ilog2 y + 1) ≤ pow2 (e + 1) := pow2_le_pow2 (by omega)
    linarith
  have hn_le := rneInt_le_of_le_int hqlt.le
  have hq0 : (((0 : Int)) : ℚ) ≤ y / pow2 t := by
    push_cast; exact div_nonneg hy hpt.le
  have hn_ge := rneInt_ge_of_ge_int hq0
  have hnorm : fmt.emin ≤ ilog2 y → ((2 ^ mb : Nat) : Int) ≤ rneInt (y / pow2 t) := by
    intro hh
    apply rneInt_ge_of_ge_int
    rw [le_div_iff₀ hpt, ← hpe, hc1 hh]
    exact pow2_ilog2_le y hpos
  generalize rneInt (y / pow2 t) = n at *
  obtain ⟨N, rfl⟩ := Int.eq_ofNat_of_zero_le hn_ge
  have hN_le : N ≤ 2 * 2 ^ mb := by exact_mod_cast hn_le
  have hcast : (((N : Int)) : ℚ) = (N : ℚ) := by push_cast; rfl
  rw [hcast] at h ⊢
  subst hmb
  rcases Nat.eq_zero_or_pos N with hN0 | hNpos
  · subst hN0; exact .zero (by simp)
  rcases Nat.lt_or_ge N (2 ^ mantBits fmt) with hlt | hge
  · -- subnormal
    have hsub : ilog2 y < fmt.emin := by
      by_contra hcon
      have := hnorm (not_lt.mp hcon)
      have : 2 ^ mantBits fmt ≤ N := by exact_mod_cast this
      omega
    refine .sub N hNpos hlt ?_
    have : t = fmt.emin - (mantBits fmt : Int) := by have := hc2 hsub; omega
    rw [this]
  rcases Nat.lt_or_ge N (2 * 2 ^ mantBits fmt) with hlt2 | hge2
  · -- normal
    refine .norm N e hge hlt2 hemin ?_ ?_
    · have h1 : pow2 e ≤ (N : ℚ) * pow2 t := by
        rw [hpe]
        have : (((2 ^ mantBits fmt : Nat) : Int) : ℚ) ≤ (N : ℚ) := by exact_mod_cast hge
        exact mul_le_mul_of_nonneg_right this hpt.le
      have : e < fmt.emax + 1 := pow2_lt_pow2_iff.mp (lt_of_le_of_lt h1 h)
      omega
    · have : t = e - (mantBits fmt : Int) := by omega
      rw [this]
  · -- carry into the next binade
    have hN : N = 2 * 2 ^ mantBits fmt := le_antisymm hN_le hge2
    have hval : (N : ℚ) * pow2 t = pow2 (e + 1) := by
      rw [hpe1, hN]; push_cast; ring
    refine .norm (2 ^ mantBits fmt) (e + 1) le_rfl (by have : 0 < 2 ^ mantBits fmt := Nat.pos_of_ne_zero (by positivity); omega)
      (by omega) ?_ ?_
    · have : e + 1 < fmt.emax + 1 := pow2_lt_pow2_iff.mp (by rw [← hval]; exact h)
      omega
    · rw [hval, pow2_succ, hpe]
      have : e + 1 - (mantBits fmt : Int) = t + 1 := by omega
      rw [this, pow2_succ]; push_cast; ring

/-! ### decoding a composed bit pattern -/

private theorem bits_decompose (A B ex mant σ : Nat) (hex : ex < B) (hm : mant < A) :
    (σ * (A * B) + ex * A + mant) % A = mant ∧
    ((σ * (A * B) + ex * A + mant) / A) % B = ex ∧
    (σ * (A * B) + ex * A + mant) / (A * B) = σ := by
  have hA : 0 < A := by omega
  have hB : 0 < B := by omega
  have e1 : σ * (A * B) + ex * A + mant = mant + (σ * B + ex) * A := by ring
  refine ⟨?_, ?_, ?_⟩
  · rw [e1, Nat.add_mul_mod_self_right, Nat.mod_eq_of_lt hm]
  · rw [e1, Nat.add_mul_div_right _ _ hA, Nat.div_eq_of_lt hm, Nat.zero_add,
      Nat.add_comm, Nat.add_mul_mod_self_right, Nat.mod_eq_of_lt hex]
  · have hlt : ex * A + mant < A * B := by
      have : (ex + 1) * A ≤ B * A := Nat.mul_le_mul_right A hex
      nlinarith
    have e2 : σ * (A * B) + ex * A + mant = (ex * A + mant) + σ * (A * B) := by ring
    rw [e2, Nat.add_mul_div_right _ _ (Nat.mul_pos hA hB), Nat.div_eq_of_lt hlt, Nat.zero_add]

theorem ofBits_mk (fmt : Fmt) (s : Bool) (ex mant : Nat) (hex : ex < 2 ^ fmt.ebits)
    (hm : mant < 2 ^ mantBits fmt) :
    ofBits fmt ((if s then 2 ^ (mantBits fmt + fmt.ebits) else 0) + ex * 2 ^ mantBits fmt + mant) =
      if ex = 2 ^ fmt.ebits - 1 then (if mant = 0 then .inf s else .nan)
      else if ex = 0 then .fin s ((mant : ℚ) * pow2 (fmt.emin - (mantBits fmt : Int)))
      else .fin s (((2 ^ mantBits fmt + mant : Nat) : ℚ) *
        pow2 ((ex : Int) - bias fmt - (mantBits fmt : Int))) := by
  have hb : (if s then 2 ^ (mantBits fmt + fmt.ebits) else 0) =
      (if s then 1 else 0) * (2 ^ mantBits fmt * 2 ^ fmt.ebits) := by
    cases s <;> simp [Nat.pow_add]
  obtain ⟨h1, h2, h3⟩ := bits_decompose (2 ^ mantBits fmt) (2 ^ fmt.ebits) ex mant
    (if s then 1 else 0) hex hm
  rw [← hb] at h1 h2 h3
  rw [← Nat.pow_add] at h3
  generalize (if s then 2 ^ (mantBits fmt + fmt.ebits) else 0) + ex * 2 ^ mantBits fmt + mant = b
    at h1 h2 h3
  unfold ofBits
  simp only [h1, h2, h3]
  cases s <;> simp

/-! ### encoding canonical magnitudes -/

theorem toBits_zero (fmt : Fmt) (s : Bool) :
    toBits fmt (.fin s 0) = (if s then 2 ^ (mantBits fmt + fmt.ebits) else 0)
      + 0 * 2 ^ mantBits fmt + 0 := by
  unfold toBits; simp

theorem toBits_sub (fmt : Fmt) (s : Bool) (n : Nat) (hn0 : 0 < n)
    (hn : n < 2 ^ mantBits fmt) :
    toBits fmt (.fin s ((n : ℚ) * pow2 (fmt.emin - (mantBits fmt : Int)))) =
      (if s then 2 ^ (mantBits fmt + fmt.ebits) else 0) + 0 * 2 ^ mantBits fmt + n := by
  have hpt := pow2_pos (fmt.emin - (mantBits fmt : Int))
  have hnq : (0 : ℚ) < n := by exact_mod_cast hn0
  have hx0 : (n : ℚ) * pow2 (fmt.emin - (mantBits fmt : Int)) ≠ 0 := (mul_pos hnq hpt).ne'
  have hlog : ilog2 ((n : ℚ) * pow2 (fmt.emin - (mantBits fmt : Int))) < fmt.emin := by
    apply pow2_lt_pow2_iff.mp
    refine lt_of_le_of_lt (pow2_ilog2_le _ (mul_pos hnq hpt)) ?_
    have : pow2 fmt.emin = (2 : ℚ) ^ mantBits fmt * pow2 (fmt.emin - (mantBits fmt : Int)) := by
      rw [← pow2_natCast, ← pow2_add]; congr 1; ring
    rw [this]
    have : (n : ℚ) < 2 ^ mantBits fmt := by exact_mod_cast hn
    exact mul_lt_mul_of_pos_right this hpt
  have hfl : ((n : ℚ) * pow2 (fmt.emin - (mantBits fmt : Int)) /
      pow2 (fmt.emin - (mantBits fmt : Int))).floor.toNat = n := by
    rw [mul_div_cancel_right₀ _ hpt.ne']
    show ⌊(n : ℚ)⌋.toNat = n
    rw [Int.floor_natCast]; simp
  unfold toBits
  simp only [hx0, if_false, hlog, if_true, hfl]
  ring

theorem toBits_norm (fmt : Fmt) (s : Bool) (n : Nat) (e : Int)
    (hn1 : 2 ^ mantBits fmt ≤ n) (hn2 : n < 2 * 2 ^ mantBits fmt) (he : fmt.emin ≤ e) :
    toBits fmt (.fin s ((n : ℚ) * pow2 (e - (mantBits fmt : Int)))) =
      (if s then 2 ^ (mantBits fmt + fmt.ebits) else 0)
        + (e + bias fmt).toNat * 2 ^ mantBits fmt + (n - 2 ^ mantBits fmt) := by
  have hpt := pow2_pos (e - (mantBits fmt : Int))
  have hn0 : 0 < n := lt_of_lt_of_le (Nat.pos_of_ne_zero (by positivity)) hn1
  have hnq : (0 : ℚ) < n := by exact_mod_cast hn0
  have hx0 : (n : ℚ) * pow2 (e - (mantBits fmt : Int)) ≠ 0 := (mul_pos hnq hpt).ne'
  have hpe : pow2 e = (2 : ℚ) ^ mantBits fmt * pow2 (e - (mantBits fmt : Int)) := by
    rw [← pow2_natCast, ← pow2_add]; congr 1; ring
  have hlog : ilog2 ((n : ℚ) * pow2 (e - (mantBits fmt : Int))) = e := by
    apply ilog2_eq_of_bracket
    · rw [hpe]
      have : (2 : ℚ) ^ mantBits fmt ≤ n := by exact_mod_cast hn1
      exact mul_le_mul_of_nonneg_right this hpt.le
    · rw [pow2_succ, hpe]
      have : (n : ℚ) < 2 * 2 ^ mantBits fmt := by exact_mod_cast hn2
      have := mul_lt_mul_of_pos_right this hpt
      linarith
  have hfl : ((n : ℚ) * pow2 (e - (mantBits fmt : Int)) /
      pow2 (e - (mantBits fmt : Int))).floor.toNat = n := by
    rw [mul_div_cancel_right₀ _ hpt.ne']
    show ⌊(n : ℚ)⌋.toNat = n
    rw [Int.floor_natCast]; simp
  unfold toBits
  simp only [hx0, if_false, hlog, not_lt.mpr he, hfl]

/-! ### the round trip -/

theorem ofBits_toBits_canon (fmt : Fmt) (hg : fmt.Good) (s : Bool) (m : ℚ) (hc : Canon fmt m) :
    ofBits fmt (toBits fmt (.fin s m)) = .fin s m := by
  have hebits := hg.ebits_ge
  have hB : 2 ^ fmt.ebits = 2 * 2 ^ (fmt.ebits - 1) := by
    rw [← Nat.pow_succ']; congr 1; omega
  have hB1 : 0 < 2 ^ (fmt.ebits - 1) := Nat.pos_of_ne_zero (by positivity)
  have hB2 : 2 ≤ 2 ^ (fmt.ebits - 1) := by
    calc 2 = 2 ^ 1 := rfl
      _ ≤ 2 ^ (fmt.ebits - 1) := Nat.pow_le_pow_right (by norm_num) (by omega)
  have hA : 0 < 2 ^ mantBits fmt := Nat.pos_of_ne_zero (by positivity)
  rcases hc with h0 | ⟨n, hn0, hn, hm⟩ | ⟨n, e, hn1, hn2, he1, he2, hm⟩
  · subst h0
    rw [toBits_zero, ofBits_mk fmt s 0 0 (by omega) hA]
    have : ¬ (0 = 2 ^ fmt.ebits - 1) := by omega
    simp [this]
  · subst hm
    rw [toBits_sub fmt s n hn0 hn, ofBits_mk fmt s 0 n (by omega) hn]
    have : ¬ (0 = 2 ^ fmt.ebits - 1) := by omega
    simp [this]
  · subst hm
    have hemax := hg.emax_eq
    have hemin := hg.emin_eq
    rw [toBits_norm fmt s n e hn1 hn2 he1]
    unfold bias
    generalize hX : (e + fmt.emax).toNat = X
    have hX' : (X : Int) = e + fmt.emax := by omega
    have hXlt : X < 2 ^ fmt.ebits := by omega
    rw [ofBits_mk fmt s X (n - 2 ^ mantBits fmt) hXlt (by omega)]
    have h1 : ¬ (X = 2 ^ fmt.ebits - 1) := by omega
    have h2 : ¬ (X = 0) := by omega
    rw [if_neg h1, if_neg h2]
    have h3 : 2 ^ mantBits fmt + (n - 2 ^ mantBits fmt) = n := by omega
    have h4 : (X : Int) - bias fmt - (mantBits fmt : Int) = e - (mantBits fmt : Int) := by
      unfold bias; omega
    rw [h3, h4]

theorem ofBits_toBits_rmv (fmt : Fmt) (hg : fmt.Good) (s : Bool) (y : ℚ) (hy : 0 ≤ y)
    (h : rmv fmt y < omega fmt) :
    ofBits fmt (toBits fmt (.fin s (rmv fmt y))) = .fin s (rmv fmt y) :=
  ofBits_toBits_canon fmt hg s _ (rmv_canon fmt hg y hy h)

/-! ### the encoding fits the storage width -/

private theorem mk_lt (fmt : Fmt) (s : Bool) (ex mant : Nat) (hex : ex < 2 ^ fmt.ebits)
    (hm : mant < 2 ^ mantBits fmt) :
    (if s then 2 ^ (mantBits fmt + fmt.ebits) else 0) + ex * 2 ^ mantBits fmt + mant
      < 2 ^ totalBits fmt := by
  have e1 : 2 ^ totalBits fmt = 2 * (2 ^ mantBits fmt * 2 ^ fmt.ebits) := by
    unfold totalBits; rw [Nat.pow_add, Nat.pow_add]; ring
  have e2 : (if s then 2 ^ (mantBits fmt + fmt.ebits) else 0) ≤ 2 ^ mantBits fmt * 2 ^ fmt.ebits := by
    cases s <;> simp [Nat.pow_add]
  have e3 : (ex + 1) * 2 ^ mantBits fmt ≤ 2 ^ fmt.ebits * 2 ^ mantBits fmt :=
    Nat.mul_le_mul_right _ hex
  rw [e1]
  nlinarith

theorem toBits_lt_canon (fmt : Fmt) (hg : fmt.Good) (s : Bool) (m : ℚ) (hc : Canon fmt m) :
    toBits fmt (.fin s m) < 2 ^ totalBits fmt := by
  have hebits := hg.ebits_ge
  have hB : 2 ^ fmt.ebits = 2 * 2 ^ (fmt.ebits - 1) := by
    rw [← Nat.pow_succ']; congr 1; omega
  have hB1 : 0 < 2 ^ (fmt.ebits - 1) := Nat.pos_of_ne_zero (by positivity)
  have hA : 0 < 2 ^ mantBits fmt := Nat.pos_of_ne_zero (by positivity)
  rcases hc with h0 | ⟨n, hn0, hn, hm⟩ | ⟨n, e, hn1, hn2, he1, he2, hm⟩
  · subst h0
    rw [toBits_zero]; exact mk_lt fmt s 0 0 (by omega) hA
  · subst hm
    rw [toBits_sub fmt s n hn0 hn]; exact mk_lt fmt s 0 n (by omega) hn
  · subst hm
    have hemax := hg.emax_eq
    have hemin := hg.emin_eq
    rw [toBits_norm fmt s n e hn1 hn2 he1]
    unfold bias
    exact mk_lt fmt s _ _ (by omega) (by omega)

theorem toBits_lt (fmt : Fmt) (hg : fmt.Good) (s : Bool) (y : ℚ) (hy : 0 ≤ y)
    (h : rmv fmt y < omega fmt) :
    toBits fmt (.fin s (rmv fmt y)) < 2 ^ totalBits fmt :=
  toBits_lt_canon fmt hg s _ (rmv_canon fmt hg y hy h)

end Rtcm.SoftFloat

#print axioms Rtcm.SoftFloat.ofBits_toBits_rmv
#print axioms Rtcm.SoftFloat.toBits_lt
