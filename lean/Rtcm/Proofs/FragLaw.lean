import Rtcm.Proofs.MsmCodec
/-!
# The fragment law and decoder locality by induction over the layout

`lawKind f`: the layout is built from data fields, Latin-1 strings, MSM data segments and the list
combinators (`seq`, `lenMiddle`, `vecWithLen`, `grid16`) — everything except the three bias lists and
the 1029 text field, whose laws carry side conditions (clean input, byte alignment) and are attached
to their four table rows separately (`SpecialRows.lean`).
-/
namespace Rtcm.FragLaw
open Rtcm.Bits Rtcm.Schema Rtcm.Interp Rtcm.CurLaws Rtcm.Text Rtcm.WF Rtcm.DecLocal Rtcm.CodecLaw

/-- fragment kinds with an unconditional codec law -/
def lawKind : Frag → Bool
  | .df _ => true
  | .str _ _ => true
  | .text1029 => false
  | .bias1059 _ _ => false
  | .bias1065 _ _ => false
  | .bias1230 => false
  | .seq fs => lawFields fs
  | .lenMiddle f1 _ f2 e _ => lawFields f1 && lawFields f2 && lawKind e
  | .vecWithLen e _ _ => lawKind e
  | .grid16 e => lawKind e
  | .msm _ _ _ => true
where lawFields : Fields → Bool
  | .nil => true
  | .cons _ f rest => lawKind f && lawFields rest

mutual
theorem decFrag_local (cfg : Cfg) : ∀ (f : Frag), WFFrag f = true → lawKind f = true →
    Local (decFrag cfg f)
  | .df s, hw, _ => by
    unfold WFFrag at hw
    refine (df_local cfg s (NoPanic.widths_of_wf hw)).congr ?_
    intro c; rw [decFrag]
  | .str cap lenBits, hw, _ => by
    unfold WFFrag at hw
    simp only [Bool.and_eq_true, decide_eq_true_eq] at hw
    refine (localG_map (strDecode_local cfg cap lenBits hw.1 hw.2) (fun b => [Tok.bytes b])).congr ?_
    intro c; rw [decFrag]
    cases strDecode cfg cap lenBits c with
    | ok r => rfl
    | err e => rfl
    | panic w => rfl
  | .text1029, _, hs => by simp [lawKind] at hs
  | .bias1059 _ _, _, hs => by simp [lawKind] at hs
  | .bias1065 _ _, _, hs => by simp [lawKind] at hs
  | .bias1230, _, hs => by simp [lawKind] at hs
  | .msm tbl sat sig, hw, _ => by
    unfold WFFrag at hw
    simp only [Bool.and_eq_true] at hw
    exact MsmCodec.msm_local cfg tbl sat sig (NoPanic.widthsAll_of_wfSpecs hw.1.2)
      (NoPanic.widthsAll_of_wfSpecs hw.2)
  | .seq fs, hw, hs => by
    unfold WFFrag at hw
    unfold lawKind at hs
    refine (decFields_local cfg fs hw hs).congr ?_
    intro c; rw [decFrag]
  | .grid16 e, hw, hs => by
    unfold WFFrag at hw
    unfold lawKind at hs
    refine (local_repeat (decFrag_local cfg e hw hs) 16).congr ?_
    intro c; rw [decFrag]
  | .vecWithLen e cap lenBits, hw, hs => by
    unfold WFFrag at hw
    unfold lawKind at hs
    simp only [Bool.and_eq_true, decide_eq_true_eq] at hw
    have he := decFrag_local cfg e hw.2 hs
    refine (localG_guard (parseF_localG cfg ⟨.u, 16⟩ (by decide) (by decide) hw.1.1 hw.1.2)
      (fun n => localG_map (local_repeat he n) (fun te => Tok.count n :: te))
      (fun n => n > cap) .capacityExceeded).congr ?_
    intro c; rw [decFrag]
    unfold parseF
    cases parse cfg ⟨.u, 16⟩ c.data c.off lenBits with
    | ok r =>
      obtain ⟨n, o⟩ := r
      simp only
      split
      · rfl
      · cases decRepeat (decFrag cfg e) n { c with off := o } with
        | ok r2 => rfl
        | err e => rfl
        | panic w => rfl
    | err e => rfl
    | panic w => rfl
  | .lenMiddle f1 l f2 e cap, hw, hs => by
    unfold WFFrag at hw
    unfold lawKind at hs
    simp only [Bool.and_eq_true] at hw hs
    obtain ⟨⟨⟨hw1, hwl⟩, hw2⟩, hwe⟩ := hw
    obtain ⟨⟨hs1, hs2⟩, hse⟩ := hs
    have L1 := decFields_local cfg f1 hw1 hs1
    have Ll := df_local cfg l (NoPanic.widths_of_wf (NoPanic.wf_of_wfCount hwl))
    have L2 := decFields_local cfg f2 hw2 hs2
    have Le := decFrag_local cfg e hwe hse
    intro D o t c' h
    rw [decFrag] at h
    split at h
    · next t1 c1 e1 =>
      split at h
      · next n c2 e2 =>
        split at h
        · next t2 c3 e3 =>
          split at h
          · cases h
          · next hcap =>
            split at h
            · next te c4 e4 =>
              simp only [Res.ok.injEq, Prod.mk.injEq] at h
              obtain ⟨rfl, rfl⟩ := h
              obtain ⟨d1, m1, l1⟩ := localG_of_data L1 e1
              obtain ⟨dl, ml, ll⟩ := localG_of_data Ll e2
              obtain ⟨d2, m2, l2⟩ := localG_of_data L2 e3
              obtain ⟨de, me, le⟩ := localG_of_data (local_repeat Le n.toNat) e4
              simp only at d1 m1 l1
              refine ⟨by rw [de, d2, dl, d1], by omega, ?_⟩
              intro D' hb hb' hf ha
              rw [decFrag]
              rw [d1] at ll dl
              rw [dl] at l2 d2
              rw [d2] at le
              rw [l1 D' hb hb' (by omega) (ha.mono (Nat.le_refl _) (by omega))]
              simp only
              rw [ll D' hb hb' (by omega) (ha.mono (by omega) (by omega))]
              simp only
              rw [l2 D' hb hb' (by omega) (ha.mono (by omega) (by omega))]
              simp only
              rw [if_neg hcap, le D' hb hb' hf (ha.mono (by omega) (Nat.le_refl _))]
            · cases h
            · cases h
        · cases h
        · cases h
      · cases h
      · cases h
      · cases h
    · cases h
    · cases h
theorem decFields_local (cfg : Cfg) : ∀ (fs : Fields), WFFields fs = true →
    lawKind.lawFields fs = true → Local (decFields cfg fs)
  | .nil, _, _ => by
    refine (localG_pure []).congr ?_
    intro c; rw [decFields]
  | .cons _ f rest, hw, hs => by
    unfold WFFields at hw
    unfold lawKind.lawFields at hs
    simp only [Bool.and_eq_true] at hw hs
    refine (localG_bind (decFrag_local cfg f hw.1 hs.1) (fun _ => decFields_local cfg rest hw.2 hs.2)
      (· ++ ·)).congr ?_
    intro c; rw [decFields]
    cases decFrag cfg f c with
    | ok r =>
      obtain ⟨t, c1⟩ := r
      simp only
      cases decFields cfg rest c1 with
      | ok r2 => rfl
      | err e => rfl
      | panic w => rfl
    | err e => rfl
    | panic w => rfl
end


mutual
theorem encFrag_law (cfg : Cfg) (glo : SigTable) : ∀ (f : Frag), WFFrag f = true →
    Size.countsFit f = true → C15.countFieldsPlain f = true → lawKind f = true →
    Law (encFrag cfg glo f) (decFrag cfg f)
  | .df s, hw, _, _, _ => by
    unfold WFFrag at hw
    refine (df_law cfg s hw).congr ?_ ?_
    · intro ts c; rw [encFrag]
    · intro c; rw [decFrag]
  | .str cap lenBits, hw, hcf, _, _ => by
    unfold WFFrag at hw
    unfold Size.countsFit at hcf
    simp only [Bool.and_eq_true, decide_eq_true_eq] at hw hcf
    exact str_law cfg glo cap lenBits hw.1 hw.2 hcf.1
  | .text1029, _, _, _, hs => by simp [lawKind] at hs
  | .bias1059 _ _, _, _, _, hs => by simp [lawKind] at hs
  | .bias1065 _ _, _, _, _, hs => by simp [lawKind] at hs
  | .bias1230, _, _, _, hs => by simp [lawKind] at hs
  | .msm tbl sat sig, hw, _, _, _ => by
    unfold WFFrag at hw
    simp only [Bool.and_eq_true] at hw
    exact MsmCodec.msm_law cfg glo tbl hw.1.1 sat sig hw.1.2 hw.2
  | .seq fs, hw, hcf, hcp, hs => by
    unfold WFFrag at hw
    unfold Size.countsFit at hcf
    unfold C15.countFieldsPlain at hcp
    unfold lawKind at hs
    refine (encFields_law cfg glo fs hw hcf hcp hs).congr ?_ ?_
    · intro ts c; rw [encFrag]
    · intro c; rw [decFrag]
  | .grid16 e, hw, hcf, hcp, hs => by
    unfold WFFrag at hw
    unfold Size.countsFit at hcf
    unfold C15.countFieldsPlain at hcp
    unfold lawKind at hs
    refine (law_repeat (encFrag_law cfg glo e hw hcf hcp hs) (decFrag_local cfg e hw hs) 16).congr ?_ ?_
    · intro ts c; rw [encFrag]
    · intro c; rw [decFrag]
  | .vecWithLen e cap lenBits, hw, hcf, hcp, hs => by
    have hw0 := hw
    unfold WFFrag at hw
    unfold Size.countsFit at hcf
    unfold C15.countFieldsPlain at hcp
    unfold lawKind at hs
    simp only [Bool.and_eq_true, decide_eq_true_eq] at hw hcf hcp
    obtain ⟨⟨h1, h16⟩, hwe⟩ := hw
    obtain ⟨⟨hcap, _⟩, hcfe⟩ := hcf
    have LR := law_repeat (encFrag_law cfg glo e hwe hcfe hcp.2 hs) (decFrag_local cfg e hwe hs)
    intro ts c c' rest hg hfit hok h
    have hext : NoPanic.Ext c c' := by
      have := NoPanic.encFrag_es cfg glo _ hw0 ts c hg
      rw [h] at this
      exact this
    unfold encFrag at h
    split at h
    · next n rest0 =>
      split at h
      · cases h
      · next hncap =>
        split at h
        · next d o hp =>
          have hlt : n < 2 ^ lenBits := by omega
          have h216 : 2 ^ lenBits ≤ 2 ^ 16 := Nat.pow_le_pow_right (by decide) h16
          have h65536 : n % 65536 = n := Nat.mod_eq_of_lt (by omega)
          rw [h65536] at hp
          have hputF : putF cfg ⟨.u, 16⟩ n lenBits c = .ok ⟨d, o⟩ := by
            unfold putF; rw [hp]
          obtain ⟨e1, hoff, hrd⟩ := putF_law cfg ⟨.u, 16⟩ (by decide) (by decide) h1 h16 hg
            (show n < 2 ^ 16 by omega) hputF
          have x1 := ext_of_curExt e1
          obtain ⟨⟨pre, hsuf⟩, x2, nts, d2, r2, fx2⟩ :=
            LR n rest0 ⟨d, o⟩ c' rest x1.good (x1.fit hfit) hok.tail h
          refine ⟨⟨.count n :: pre, by rw [hsuf]; rfl⟩, hext, .count n :: nts, ?_, ?_, ?_⟩
          · have hpr := hrd c'.data x2.len (fun g _ hg => x2.keep g hg)
            rw [readValue_wireValue_u 16 lenBits n hlt] at hpr
            have hparse := parse_of_parseF hpr
            unfold decFrag
            simp only
            rw [hparse]
            simp only
            rw [if_neg hncap]
            have e : ({ data := c'.data, off := c.off } : Cur) = ⟨c'.data, c.off⟩ := rfl
            simp only at d2
            rw [d2]
          · intro rest'
            simp only [List.cons_append]
            unfold encFrag
            simp only
            rw [if_neg hncap, h65536, hp]
            exact r2 rest'
          · intro c0 t0 c0' r h0 hts
            obtain ⟨n0, o0, ps, _, _, _, _, hrep0, rfl⟩ := C15.vec_decode_count cfg e cap lenBits c0 c0' t0 h0
            simp only [List.cons_append, List.cons.injEq, Tok.count.injEq] at hts
            obtain ⟨rfl, rfl⟩ := hts
            obtain ⟨rfl, rfl⟩ := fx2 _ _ _ r hrep0 rfl
            exact ⟨rfl, rfl⟩
        · cases h
        · cases h
    · cases h
  | .lenMiddle f1 l f2 e cap, hw, hcf, hcp, hs => by
    have hw0 := hw
    unfold WFFrag at hw
    unfold Size.countsFit at hcf
    unfold C15.countFieldsPlain at hcp
    unfold lawKind at hs
    simp only [Bool.and_eq_true, decide_eq_true_eq] at hw hcf hcp hs
    obtain ⟨⟨⟨hw1, hwl⟩, hw2⟩, hwe⟩ := hw
    obtain ⟨⟨⟨⟨⟨⟨hcap, _⟩, _⟩, _⟩, hcf1⟩, hcf2⟩, hcfe⟩ := hcf
    obtain ⟨⟨⟨⟨⟨⟨⟨⟨hk, _⟩, _⟩, _⟩, _⟩, _⟩, hcp1⟩, hcp2⟩, hcpe⟩ := hcp
    obtain ⟨⟨hs1, hs2⟩, hse⟩ := hs
    have L1 := encFields_law cfg glo f1 hw1 hcf1 hcp1 hs1
    have L2 := encFields_law cfg glo f2 hw2 hcf2 hcp2 hs2
    have LR := law_repeat (encFrag_law cfg glo e hwe hcfe hcpe hse) (decFrag_local cfg e hwe hse)
    have l1 := decFields_local cfg f1 hw1 hs1
    have l2 := decFields_local cfg f2 hw2 hs2
    have hwfl := NoPanic.wf_of_wfCount hwl
    have ll := df_local cfg l (NoPanic.widths_of_wf hwfl)
    intro ts c c4 rest hg hfit hok h
    have hext : NoPanic.Ext c c4 := by
      have := NoPanic.encFrag_es cfg glo _ hw0 ts c hg
      rw [h] at this
      exact this
    unfold encFrag at h
    split at h
    · next c1 ts1 e1 =>
      split at h
      · next n ts2 =>
        split at h
        · cases h
        · next hncap =>
          split at h
          · next c2 tsx el =>
            split at h
            · next c3 ts3 e2 =>
              obtain ⟨⟨pre1, hsuf1⟩, x1, nt1, d1, r1, fx1⟩ := L1 ts c c1 _ hg hfit hok e1
              have hok1 : TokOK (.count n :: ts2) := by rw [hsuf1] at hok; exact hok.suffix
              have xl : NoPanic.Ext c1 c2 := by
                have := NoPanic.dfEncode_es cfg l [.int n] c1 (NoPanic.widths_of_wf hwfl) x1.good
                rw [el] at this
                exact this
              obtain ⟨dl, rl⟩ := count_law cfg l hwl hk (show n < 2 ^ l.len by omega) x1.good el
              have hf1 := x1.fit hfit
              have hfl := xl.fit hf1
              obtain ⟨⟨pre2, hsuf2⟩, x2, nt2, d2, r2, fx2⟩ := L2 ts2 c2 c3 ts3 xl.good hfl hok1.tail e2
              have hok3 : TokOK ts3 := by have := hok1.tail; rw [hsuf2] at this; exact this.suffix
              have hf3 := x2.fit hfl
              obtain ⟨⟨pre3, hsuf3⟩, x3, nte, d3, r3, fx3⟩ := LR n ts3 c3 c4 rest x2.good hf3 hok3 h
              refine ⟨⟨pre1 ++ .count n :: (pre2 ++ pre3), ?_⟩, hext,
                nt1 ++ [.count n] ++ nt2 ++ nte, ?_, ?_, ?_⟩
              · rw [hsuf1, hsuf2, hsuf3]
                simp only [List.append_assoc, List.cons_append]
              · unfold decFrag
                rw [read_after l1 ((xl.trans x2).trans x3) x1.good hf1 d1]
                simp only
                rw [read_after ll (x2.trans x3) xl.good hfl dl]
                simp only
                rw [read_after l2 x3 x2.good hf3 d2]
                simp only [Int.toNat_natCast]
                rw [if_neg hncap]
                rw [d3]
              · intro rest'
                unfold encFrag
                have e : nt1 ++ [Tok.count n] ++ nt2 ++ nte ++ rest'
                    = nt1 ++ (Tok.count n :: (nt2 ++ (nte ++ rest'))) := by
                  simp only [List.append_assoc, List.cons_append, List.nil_append]
                rw [e, r1]
                simp only
                rw [if_neg hncap, el]
                simp only
                rw [r2]
                simp only
                exact r3 rest'
              · intro c0 t0 c0' r h0 hts
                obtain ⟨t1, t2, ca, cb, cc, n0, ps, ha, hb, hc, _, hsteps, _, rfl⟩ :=
                  C15.lenMiddle_decode_count cfg f1 f2 l e cap c0 c0' t0 h0
                have hrep0 := decRepeat_of_steps hsteps
                have e0 : t1 ++ [Tok.count n0.toNat] ++ t2 ++ ps.flatten ++ r
                    = t1 ++ (Tok.count n0.toNat :: (t2 ++ (ps.flatten ++ r))) := by
                  simp only [List.append_assoc, List.cons_append, List.nil_append]
                rw [e0] at hts
                obtain ⟨rfl, hts1⟩ := fx1 c0 t1 ca _ ha hts
                simp only [List.cons.injEq, Tok.count.injEq] at hts1
                obtain ⟨rfl, rfl⟩ := hts1
                obtain ⟨rfl, rfl⟩ := fx2 cb t2 cc _ hc rfl
                obtain ⟨rfl, rfl⟩ := fx3 cc _ c0' r hrep0 rfl
                exact ⟨rfl, rfl⟩
            · cases h
            · cases h
          · cases h
          · cases h
      · cases h
    · cases h
    · cases h
theorem encFields_law (cfg : Cfg) (glo : SigTable) : ∀ (fs : Fields), WFFields fs = true →
    Size.countsFitFields fs = true → C15.countFieldsPlainFields fs = true →
    lawKind.lawFields fs = true → Law (encFields cfg glo fs) (decFields cfg fs)
  | .nil, _, _, _, _ => by
    refine law_nil.congr ?_ ?_
    · intro ts c; rw [encFields]
    · intro c; rw [decFields]
  | .cons _ f rest, hw, hcf, hcp, hs => by
    unfold WFFields at hw
    unfold Size.countsFitFields at hcf
    unfold C15.countFieldsPlainFields at hcp
    unfold lawKind.lawFields at hs
    simp only [Bool.and_eq_true] at hw hcf hcp hs
    refine (law_seq (encFrag_law cfg glo f hw.1 hcf.1 hcp.1 hs.1)
      (encFields_law cfg glo rest hw.2 hcf.2 hcp.2 hs.2) (decFrag_local cfg f hw.1 hs.1)).congr ?_ ?_
    · intro ts c
      rw [encFields]
      cases encFrag cfg glo f ts c with
      | ok r => rfl
      | err e => rfl
      | panic w => rfl
    · intro c
      rw [decFields]
      cases decFrag cfg f c with
      | ok r =>
        obtain ⟨t, c1⟩ := r
        simp only
        cases decFields cfg rest c1 with
        | ok r2 => rfl
        | err e => rfl
        | panic w => rfl
      | err e => rfl
      | panic w => rfl
end


/-! ### what the decoders return denotes a Rust value (`TokOK`) -/

theorem TokOK.nil : TokOK [] := fun _ h => by cases h

theorem TokOK.append {a b : List Tok} (ha : TokOK a) (hb : TokOK b) : TokOK (a ++ b) := by
  intro t ht
  rcases List.mem_append.mp ht with h | h
  · exact ha t h
  · exact hb t h

theorem TokOK.cons {t : Tok} {ts : List Tok} (ht : tokOK t = true) (hs : TokOK ts) : TokOK (t :: ts) := by
  intro x hx
  rcases List.mem_cons.mp hx with rfl | h
  · exact ht
  · exact hs x h

theorem df_tokOK {cfg : Cfg} {s : DfSpec} {c c' : Cur} {t : List Tok}
    (h : Df.decode cfg s c = .ok (t, c')) : TokOK t := by
  unfold Df.decode at h
  split at h
  · simp only at h
    split at h
    · next tk hq =>
      have hsh : tokOK tk = true := by
        rcases MsmCodec.dequantise_shape hq with ⟨b, rfl⟩ | ⟨z, rfl⟩ <;> rfl
      split at h
      · split at h
        · simp only [Res.ok.injEq, Prod.mk.injEq] at h
          rw [← h.1]; exact TokOK.cons rfl TokOK.nil
        · simp only [Res.ok.injEq, Prod.mk.injEq] at h
          rw [← h.1]; exact TokOK.cons rfl (TokOK.cons hsh TokOK.nil)
      · simp only [Res.ok.injEq, Prod.mk.injEq] at h
        rw [← h.1]; exact TokOK.cons hsh TokOK.nil
    · cases h
    · cases h
  · cases h
  · cases h

theorem parseU8_lt {cfg : Cfg} {c c' : Cur} {v : Nat} (h : parseU cfg 8 8 c = .ok (v, c')) : v < 256 := by
  obtain ⟨D, o⟩ := c
  rw [parseU_eq] at h
  by_cases hfit : o + 8 ≤ 8 * D.length
  · rw [parseF_at cfg ⟨.u, 8⟩ (by decide) (by decide) (by decide) (by decide) D o hfit] at h
    simp only [Res.ok.injEq, Prod.mk.injEq] at h
    rw [← h.1]
    exact fieldValue_lt D o 8
  · rw [parseF_overflow cfg ⟨.u, 8⟩ D o (by omega)] at h
    cases h

theorem parseBytes_lt (cfg : Cfg) : ∀ (n : Nat) (c c' : Cur) (bs : List Nat),
    parseBytes cfg n c = .ok (bs, c') → ∀ x ∈ bs, x < 256 := by
  intro n
  induction n with
  | zero =>
    intro c c' bs h
    simp only [parseBytes, Res.ok.injEq, Prod.mk.injEq] at h
    rw [← h.1]; simp
  | succ n ih =>
    intro c c' bs h
    rw [parseBytes] at h
    split at h
    · next b c1 e1 =>
      split at h
      · next bs1 c2 e2 =>
        simp only [Res.ok.injEq, Prod.mk.injEq] at h
        rw [← h.1]
        intro x hx
        rcases List.mem_cons.mp hx with rfl | hx
        · exact parseU8_lt e1
        · exact ih _ _ _ e2 x hx
      · cases h
      · cases h
    · cases h
    · cases h

theorem decRepeat_tokOK {d : Dec} (hd : ∀ c t c', d c = .ok (t, c') → TokOK t) :
    ∀ n c t c', decRepeat d n c = .ok (t, c') → TokOK t := by
  intro n
  induction n with
  | zero =>
    intro c t c' h
    simp only [decRepeat, Res.ok.injEq, Prod.mk.injEq] at h
    rw [← h.1]; exact TokOK.nil
  | succ n ih =>
    intro c t c' h
    rw [decRepeat] at h
    split at h
    · next t1 c1 e1 =>
      split at h
      · next t2 c2 e2 =>
        simp only [Res.ok.injEq, Prod.mk.injEq] at h
        rw [← h.1]
        exact TokOK.append (hd _ _ _ e1) (ih _ _ _ e2)
      · cases h
      · cases h
    · cases h
    · cases h

theorem flatten_tokOK {cfg : Cfg} {fs : List (String × DfSpec)} {row : List (List Tok)}
    (h : List.Forall₂ (fun (f : String × DfSpec) t => MsmCodec.DecOut cfg f.2 t) fs row) : TokOK row.flatten := by
  induction h with
  | nil => exact TokOK.nil
  | cons hab _ ih =>
    obtain ⟨_, _, hd⟩ := hab
    rw [List.flatten_cons]
    exact TokOK.append (df_tokOK hd) ih

theorem msm_tokOK {cfg : Cfg} {tbl : SigTable} {satFields sigFields : List (String × DfSpec)} {c c' : Cur}
    {t : List Tok} (h : decFrag cfg (.msm tbl satFields sigFields) c = .ok (t, c')) : TokOK t := by
  rw [decFrag] at h
  split at h
  · next sats sigs c2 e =>
    simp only [Res.ok.injEq, Prod.mk.injEq] at h
    obtain ⟨rfl, _⟩ := h
    have hP : MsmCodec.decodeP cfg tbl satFields sigFields c = .ok ((sats, sigs), c2) := by
      unfold MsmCodec.decodeP; rw [e]
    have rowOK : ∀ (fs : List (String × DfSpec)) (cols : List (List (List Tok))) (n i : Nat), i < n →
        List.Forall₂ (fun (f : String × DfSpec) col => col.length = n ∧ ∀ t ∈ col, MsmCodec.DecOut cfg f.2 t)
          fs cols → TokOK (Msm.rowOf cols i).flatten := by
      intro fs cols n i hi hall
      apply flatten_tokOK (cfg := cfg) (fs := fs)
      unfold Msm.rowOf
      rw [List.forall₂_map_right_iff]
      refine hall.imp ?_
      intro f col ⟨hl, hg⟩
      apply hg
      rw [List.getD_eq_getElem?_getD, List.getElem?_eq_getElem (by omega)]
      exact List.getElem_mem _
    rcases MsmCodec.decodeP_shape cfg tbl satFields sigFields c c2 sats sigs hP with ⟨rfl, rfl⟩ |
      ⟨sm, gm, cm, c3', sc, c4', cs, gc, e4', e5', e6', rfl, rfl⟩
    · intro x hx
      simp [satToks, sigToks] at hx
      rcases hx with rfl | rfl <;> rfl
    · have E4 := MsmCodec.decColumns_entries cfg _ satFields _ _ _ e4'
      have E6 := MsmCodec.decColumns_entries cfg _ sigFields _ _ _ e6'
      have hF := MsmLaws.lookupSigs_ok tbl _ _ e5'
      apply TokOK.append
      · unfold satToks
        apply TokOK.cons rfl
        intro x hx
        rw [List.mem_flatMap] at hx
        obtain ⟨r, hr, hx⟩ := hx
        unfold MsmCodec.mkSats at hr
        obtain ⟨i, hi, rfl⟩ := List.mem_map.mp hr
        rw [List.mem_range] at hi
        rcases List.mem_cons.mp hx with rfl | hx
        · rfl
        · exact rowOK satFields sc _ i hi E4 x hx
      · unfold sigToks
        apply TokOK.cons rfl
        intro x hx
        rw [List.mem_flatMap] at hx
        obtain ⟨r, hr, hx⟩ := hx
        unfold MsmCodec.mkSigs at hr
        obtain ⟨i, hi, rfl⟩ := List.mem_map.mp hr
        rw [List.mem_range, ← hF.length_eq] at hi
        rcases List.mem_cons.mp hx with rfl | hx
        · rfl
        · rcases List.mem_cons.mp hx with rfl | hx
          · rfl
          · exact rowOK sigFields gc _ i hi E6 x hx
  · cases h
  · cases h

mutual
theorem decFrag_tokOK (cfg : Cfg) : ∀ (f : Frag), lawKind f = true →
    ∀ c t c', decFrag cfg f c = .ok (t, c') → TokOK t
  | .df s, _ => by
    intro c t c' h
    rw [decFrag] at h
    exact df_tokOK h
  | .str cap lenBits, _ => by
    intro c t c' h
    rw [decFrag] at h
    split at h
    · next b c1 e =>
      simp only [Res.ok.injEq, Prod.mk.injEq] at h
      rw [← h.1]
      apply TokOK.cons _ TokOK.nil
      unfold strDecode at e
      split at e
      · split at e
        · cases e
        · split at e
          · next bs c2 e2 =>
            simp only [Res.ok.injEq, Prod.mk.injEq] at e
            rw [← e.1]
            simp only [tokOK, List.all_eq_true, decide_eq_true_eq, List.mem_map]
            rintro x ⟨y, hy, rfl⟩
            have := parseBytes_lt cfg _ _ _ _ e2 y hy
            unfold pushNorm
            split <;> omega
          · cases e
          · cases e
      · cases e
      · cases e
    · cases h
    · cases h
  | .text1029, hs => by simp [lawKind] at hs
  | .bias1059 _ _, hs => by simp [lawKind] at hs
  | .bias1065 _ _, hs => by simp [lawKind] at hs
  | .bias1230, hs => by simp [lawKind] at hs
  | .msm tbl sat sig, _ => fun c t c' h => msm_tokOK h
  | .seq fs, hs => by
    unfold lawKind at hs
    intro c t c' h
    rw [decFrag] at h
    exact decFields_tokOK cfg fs hs c t c' h
  | .grid16 e, hs => by
    unfold lawKind at hs
    intro c t c' h
    rw [decFrag] at h
    exact decRepeat_tokOK (decFrag_tokOK cfg e hs) 16 c t c' h
  | .vecWithLen e cap lenBits, hs => by
    unfold lawKind at hs
    intro c t c' h
    obtain ⟨n, o, ps, _, _, _, _, hrep, rfl⟩ := C15.vec_decode_count cfg e cap lenBits c c' t h
    exact TokOK.cons rfl (decRepeat_tokOK (decFrag_tokOK cfg e hs) n _ _ _ hrep)
  | .lenMiddle f1 l f2 e cap, hs => by
    unfold lawKind at hs
    simp only [Bool.and_eq_true] at hs
    intro c t c' h
    obtain ⟨t1, t2, ca, cb, cc, n0, ps, ha, _, hc, _, hsteps, _, rfl⟩ :=
      C15.lenMiddle_decode_count cfg f1 f2 l e cap c c' t h
    have hrep := decRepeat_of_steps hsteps
    exact TokOK.append (TokOK.append (TokOK.append (decFields_tokOK cfg f1 hs.1.1 _ _ _ ha)
      (TokOK.cons rfl TokOK.nil)) (decFields_tokOK cfg f2 hs.1.2 _ _ _ hc))
      (decRepeat_tokOK (decFrag_tokOK cfg e hs.2) _ _ _ _ hrep)
theorem decFields_tokOK (cfg : Cfg) : ∀ (fs : Fields), lawKind.lawFields fs = true →
    ∀ c t c', decFields cfg fs c = .ok (t, c') → TokOK t
  | .nil, _ => by
    intro c t c' h
    simp only [decFields, Res.ok.injEq, Prod.mk.injEq] at h
    rw [← h.1]; exact TokOK.nil
  | .cons _ f rest, hs => by
    unfold lawKind.lawFields at hs
    simp only [Bool.and_eq_true] at hs
    intro c t c' h
    rw [decFields] at h
    split at h
    · next t1 c1 e1 =>
      split at h
      · next t2 c2 e2 =>
        simp only [Res.ok.injEq, Prod.mk.injEq] at h
        rw [← h.1]
        exact TokOK.append (decFrag_tokOK cfg f hs.1 _ _ _ e1) (decFields_tokOK cfg rest hs.2 _ _ _ e2)
      · cases h
      · cases h
    · cases h
    · cases h
end

end Rtcm.FragLaw
