import Rtcm.Model.Frame
/-!
Helper lemmas about `frameNew`: characterisation and stability under appended bytes.
-/
namespace Rtcm

theorem byteAt_append_left (d e : List UInt8) (i : Nat) (h : i < d.length) :
    byteAt (d ++ e) i = byteAt d i := by
  unfold byteAt
  simp [List.getD_eq_getElem?_getD, List.getElem?_append_left h]

theorem lenField_append (d e : List UInt8) (h : 3 ≤ d.length) :
    lenField (d ++ e) = lenField d := by
  unfold lenField
  rw [byteAt_append_left d e 1 (by omega), byteAt_append_left d e 2 (by omega)]

theorem be24_append (d e : List UInt8) (i : Nat) (h : i + 3 ≤ d.length) :
    be24 (d ++ e) i = be24 d i := by
  unfold be24
  rw [byteAt_append_left d e i (by omega), byteAt_append_left d e (i+1) (by omega),
      byteAt_append_left d e (i+2) (by omega)]

/-- Full characterisation of acceptance and of the accepted frame's attributes. -/
theorem frameNew_ok_iff (d : List UInt8) (f : Frame) :
    frameNew d = .ok f ↔
      (6 ≤ d.length ∧ byteAt d 0 = 0xd3 ∧ lenField d + 6 ≤ d.length ∧
       be24 d (lenField d + 3) = crc24q (d.take (lenField d + 3)) ∧
       f = { frameData := d.take (lenField d + 6)
             data := (d.drop 3).take (lenField d)
             crc := be24 d (lenField d + 3)
             number := if 2 ≤ lenField d then some ((byteAt d 3 <<< 4) ||| (byteAt d 4 >>> 4))
                       else none }) := by
  unfold frameNew
  by_cases h1 : d.length < 6
  · simp [h1]; omega
  · by_cases h2 : byteAt d 0 = 0xd3
    · by_cases h3 : d.length < lenField d + 6
      · simp [h1, h2, h3]; omega
      · by_cases h4 : be24 d (lenField d + 3) = crc24q (d.take (lenField d + 3))
        · simp only [h1, h2, h3, h4, ↓reduceIte, ne_eq, not_true_eq_false, Except.ok.injEq]
          constructor
          · intro h; subst h
            exact ⟨by omega, trivial, by omega, trivial, rfl⟩
          · intro h; exact h.2.2.2.2.symm
        · simp [h1, h2, h3, h4]
    · simp [h1, h2]

theorem frameNew_incomplete_iff (d : List UInt8) :
    frameNew d = .error .incomplete ↔
      (d.length < 6 ∨ (byteAt d 0 = 0xd3 ∧ d.length < lenField d + 6)) := by
  unfold frameNew
  by_cases h1 : d.length < 6
  · simp [h1]
  · by_cases h2 : byteAt d 0 = 0xd3
    · by_cases h3 : d.length < lenField d + 6
      · simp [h1, h2, h3]
      · by_cases h4 : be24 d (lenField d + 3) = crc24q (d.take (lenField d + 3))
        · simp [h1, h2, h3, h4]
        · simp [h1, h2, h3, h4]
    · simp [h1, h2]

theorem frameNew_notValid_iff (d : List UInt8) :
    frameNew d = .error .notValid ↔
      (6 ≤ d.length ∧ (byteAt d 0 ≠ 0xd3 ∨
        (lenField d + 6 ≤ d.length ∧
          be24 d (lenField d + 3) ≠ crc24q (d.take (lenField d + 3))))) := by
  unfold frameNew
  by_cases h1 : d.length < 6
  · simp [h1]; omega
  · by_cases h2 : byteAt d 0 = 0xd3
    · by_cases h3 : d.length < lenField d + 6
      · simp [h1, h2, h3]; omega
      · by_cases h4 : be24 d (lenField d + 3) = crc24q (d.take (lenField d + 3))
        · simp [h1, h2, h3, h4]
        · simp [h1, h2, h3, h4]; omega
    · simp [h1, h2]; omega

/-- An accepted frame stays accepted, with the very same attributes, whatever follows it. -/
theorem frameNew_append_ok (d e : List UInt8) (f : Frame) (h : frameNew d = .ok f) :
    frameNew (d ++ e) = .ok f := by
  rw [frameNew_ok_iff] at h ⊢
  obtain ⟨h6, hp, hl, hc, hf⟩ := h
  have hL : lenField (d ++ e) = lenField d := lenField_append d e (by omega)
  rw [hL]
  refine ⟨by simp; omega, ?_, by simp; omega, ?_, ?_⟩
  · rw [byteAt_append_left d e 0 (by omega)]; exact hp
  · rw [be24_append d e _ (by omega), List.take_append_of_le_length (by omega)]; exact hc
  · rw [hf, be24_append d e _ (by omega), List.take_append_of_le_length (by omega),
        byteAt_append_left d e 3 (by omega), byteAt_append_left d e 4 (by omega)]
    congr 1
    rw [List.drop_append_of_le_length (by omega), List.take_append_of_le_length (by simp; omega)]

/-- A rejected complete candidate stays rejected whatever follows it. -/
theorem frameNew_append_notValid (d e : List UInt8) (h : frameNew d = .error .notValid) :
    frameNew (d ++ e) = .error .notValid := by
  rw [frameNew_notValid_iff] at h ⊢
  obtain ⟨h6, h⟩ := h
  refine ⟨by simp; omega, ?_⟩
  rw [byteAt_append_left d e 0 (by omega)]
  rcases h with h | ⟨hl, hc⟩
  · exact Or.inl h
  · right
    have hL : lenField (d ++ e) = lenField d := lenField_append d e (by omega)
    rw [hL, be24_append d e _ (by omega), List.take_append_of_le_length (by omega)]
    exact ⟨by simp; omega, hc⟩

/-- If a slice is accepted and the accepted frame lies inside a prefix, the prefix alone is
accepted with the same attributes. -/
theorem frameNew_prefix_ok (a b : List UInt8) (x : Frame) (h : frameNew (a ++ b) = .ok x)
    (hl : lenField (a ++ b) + 6 ≤ a.length) : frameNew a = .ok x := by
  rw [frameNew_ok_iff] at h ⊢
  obtain ⟨h6, hp, hle, hc, hf⟩ := h
  have hL : lenField (a ++ b) = lenField a := lenField_append a b (by omega)
  rw [hL] at hl hle hc hf
  rw [byteAt_append_left a b 0 (by omega)] at hp
  rw [be24_append a b _ (by omega), List.take_append_of_le_length (by omega)] at hc
  rw [be24_append a b _ (by omega), List.take_append_of_le_length (by omega),
      byteAt_append_left a b 3 (by omega), byteAt_append_left a b 4 (by omega),
      List.drop_append_of_le_length (by omega),
      List.take_append_of_le_length (by simp; omega)] at hf
  exact ⟨by omega, hp, hl, hc, hf⟩

theorem frameNew_ok_frameLen (d : List UInt8) (f : Frame) (h : frameNew d = .ok f) :
    f.frameLen = lenField d + 6 ∧ f.frameLen ≤ d.length ∧ 6 ≤ f.frameLen ∧
      f.frameData = d.take f.frameLen := by
  rw [frameNew_ok_iff] at h
  obtain ⟨h6, hp, hl, hc, hf⟩ := h
  subst hf
  simp only [Frame.frameLen, List.length_take]
  have : min (lenField d + 6) d.length = lenField d + 6 := by omega
  rw [this]
  exact ⟨rfl, hl, by omega, rfl⟩

end Rtcm
