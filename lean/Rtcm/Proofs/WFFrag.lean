import Rtcm.Model.Interp
import Rtcm.Proofs.DfWf
import Rtcm.Props.C18
/-!
# Decidable well-formedness of a message layout (`WFFrag`)

Mathlib-free on purpose: `WFFrag` is evaluated by the kernel (`decide +kernel`) over the regenerated
message table. It collects exactly the static facts the no-panic arguments of C02 / C09 use:

* every `df!` leaf, every MSM satellite / signal field and every `msg_len_middle!` count field
  satisfies `DfWf.wf` (carrier width 8/16/32/64, `1 ≤ len ≤ w`, integer decode arithmetic stays inside
  the `dt` on the whole carrier range, float constants finite …);
* the count prefix of a `df_88591_string_with_len!` is 1..=8 bits wide (it is read into a `u8`), that
  of a `frag_vec_with_len!` 1..=16 bits (read into a `u16`);
* a `msg_len_middle!` count field is an integer field without scaling, bias or invalid marker (so that
  it decodes to exactly one integer token);
* the signal table of an MSM segment satisfies `C18.tableOk` (identifiers within 2..=32: the shift
  `1 << (32 - id)` of the encoder is in range).
-/
namespace Rtcm.WF
open Rtcm.Schema

def wfSpecs (fs : List (String × DfSpec)) : Bool := fs.all fun p => DfWf.wf p.2

/-- the count field of a `msg_len_middle!` -/
def wfCount (l : DfSpec) : Bool :=
  DfWf.wf l && !l.dt.isFloat && l.res.isNone && l.bias.isNone && l.inv.isNone

mutual
def WFFrag : Frag → Bool
  | .df s => DfWf.wf s
  | .str _ lenBits => decide (1 ≤ lenBits) && decide (lenBits ≤ 8)
  | .text1029 => true
  | .bias1059 _ _ => true
  | .bias1065 _ _ => true
  | .bias1230 => true
  | .seq fs => WFFields fs
  | .lenMiddle f1 l f2 e _ => WFFields f1 && wfCount l && WFFields f2 && WFFrag e
  | .vecWithLen e _ lenBits => decide (1 ≤ lenBits) && decide (lenBits ≤ 16) && WFFrag e
  | .grid16 e => WFFrag e
  | .msm tbl sat sig => C18.tableOk tbl && wfSpecs sat && wfSpecs sig
def WFFields : Fields → Bool
  | .nil => true
  | .cons _ f rest => WFFrag f && WFFields rest
end

end Rtcm.WF
