import Rtcm.Props.C08
import Rtcm.Model.Bias
/-!
# The bias quantiser inverts the bias dequantiser on the integer grid

`quantBias res (dequantBias res sv) = ofInt 16 sv` for every `sv` the field can carry, by reduction to the
generic `df!` round trip (C08) for a synthetic field specification with the same arithmetic.
-/
namespace Rtcm.BiasFloat
open Rtcm.Bits Rtcm.Schema Rtcm.SoftFloat Rtcm.Bias Rtcm.Df

/-- the synthetic `df!` row: `f32` datum on an `i16` carrier, `res` as given, rounding on -/
def spec (len : Nat) (m : Nat) : DfSpec :=
  { id := "bias", dt := .f32, it := ⟨.i, 16⟩, len := len, res := some (.dec m (-2)), bias := none,
    round := some true, inv := none, cap := none }

theorem wf14 : DfWf.wf (spec 14 1) = true := by decide +kernel
theorem wf16 : DfWf.wf (spec 16 2) = true := by decide +kernel

theorem half_round : roundMag binary32 (1 / 2) = some (1 / 2) := by decide +kernel

theorem evalF_001 : evalF binary32 (.dec 1 (-2)) = res001 := by decide +kernel
theorem evalF_002 : evalF binary32 (.dec 2 (-2)) = res002 := by decide +kernel
theorem round_half_pos : SoftFloat.round binary32 (1 / 2) = .fin false (1 / 2) := by decide +kernel
theorem round_half_neg : SoftFloat.round binary32 (-(1 / 2)) = .fin true (1 / 2) := by decide +kernel
theorem trunc_half_pos : truncRat (F.fin false (1 / 2)).toRat = 0 := by decide +kernel
theorem trunc_half_neg : truncRat (F.fin true (1 / 2)).toRat = 0 := by decide +kernel

/-- the two ways of adding the rounding half (`ge`/`add ±½` in `df!`, `gt`/`add`/`sub` in the bias code)
give the same integer -/
theorem half_step (b : F) (lo hi : Int) (hlo : lo ≤ 0) (hhi : 0 ≤ hi) :
    toIntSat (add binary32 b (if ge b zero then .fin false (1 / 2) else .fin true (1 / 2))) lo hi =
    toIntSat (if gt b zero then add binary32 b (.fin false (1 / 2)) else sub binary32 b (.fin false (1 / 2))) lo hi := by
  cases b with
  | nan => rfl
  | inf s => cases s <;> rfl
  | fin s x =>
    have hz' : (F.fin false 0).toRat = 0 := by decide +kernel
    have hge : ge (.fin s x) zero = decide ((0 : ℚ) ≤ (F.fin s x).toRat) := by
      simp only [ge, zero, hz']
    have hgt : gt (.fin s x) zero = decide ((0 : ℚ) < (F.fin s x).toRat) := by
      simp only [gt, zero, hz']
    rcases lt_trichotomy (0 : ℚ) (F.fin s x).toRat with h | h | h
    · have h1 : ge (.fin s x) zero = true := by rw [hge]; simpa using le_of_lt h
      have h2 : gt (.fin s x) zero = true := by rw [hgt]; simpa using h
      simp only [h1, h2, if_true]
    · have h1 : ge (.fin s x) zero = true := by rw [hge]; simpa using le_of_eq h
      have h2 : gt (.fin s x) zero = false := by rw [hgt]; simpa using (le_of_eq h.symm)
      simp only [h1, h2, if_true, Bool.false_eq_true, if_false, sub, neg, Bool.not_false]
      have e1 : add binary32 (.fin s x) (.fin false (1 / 2)) = .fin false (1 / 2) := by
        simp only [add, roundSum, ← h]
        rw [if_neg (by decide +kernel)]
        have : (0 : ℚ) + (F.fin false (1 / 2)).toRat = 1 / 2 := by decide +kernel
        rw [this]
        exact round_half_pos
      have e2 : add binary32 (.fin s x) (.fin true (1 / 2)) = .fin true (1 / 2) := by
        simp only [add, roundSum, ← h]
        rw [if_neg (by decide +kernel)]
        have : (0 : ℚ) + (F.fin true (1 / 2)).toRat = -(1 / 2) := by decide +kernel
        rw [this]
        exact round_half_neg
      rw [e1, e2]
      simp only [toIntSat, trunc_half_pos, trunc_half_neg]
    · have h1 : ge (.fin s x) zero = false := by rw [hge]; simpa using h
      have h2 : gt (.fin s x) zero = false := by rw [hgt]; simpa using le_of_lt h
      simp only [h1, h2, Bool.false_eq_true, if_false, sub, neg, Bool.not_false]

/-- the bias quantiser is the `df!` quantiser of the synthetic row -/
theorem quantBias_eq (len m : Nat) (res : F) (hres : evalF binary32 (.dec m (-2)) = res) (bits : Nat) :
    Df.quantise (spec len m) (.flt bits) = .ok (quantBias res bits) := by
  have hcr : Df.carrierRange ⟨.i, 16⟩ = (-32768, 32767) := by decide +kernel
  unfold Df.quantise quantBias
  simp only [spec, DT.isFloat, if_true, Df.fmtOf, Bias.f32]
  simp only [hres, hcr]
  rw [half_step _ (-32768) 32767 (by decide) (by decide)]
  rfl

/-- the bias dequantiser is the `df!` dequantiser of the synthetic row -/
theorem dequantBias_eq (cfg : Cfg) (len m : Nat) (res : F) (hres : evalF binary32 (.dec m (-2)) = res) (sv : Int) :
    Df.dequantise cfg (spec len m) sv = .ok (.flt (dequantBias res sv)) := by
  unfold Df.dequantise dequantBias
  simp only [spec, DT.isFloat, if_true, Df.fmtOf, Bias.f32]
  rw [hres]

/-- round trip on the 14-bit grid (1059 / 1065) -/
theorem quant_dequant_14 (sv : Int) (h : -8192 ≤ sv ∧ sv ≤ 8191) :
    quantBias res001 (dequantBias res001 sv) = ofInt 16 sv := by
  have hr : DfWf.InRange (spec 14 1) sv := by
    unfold DfWf.InRange DfWf.svLo DfWf.svHi
    simp only [spec]
    omega
  obtain ⟨t, h1, h2⟩ := C08.df_value_roundtrip ⟨true⟩ (spec 14 1) sv wf14 hr
  rw [dequantBias_eq ⟨true⟩ 14 1 res001 evalF_001] at h1
  injection h1 with h1
  subst h1
  rw [quantBias_eq 14 1 res001 evalF_001] at h2
  injection h2

/-- round trip on the 16-bit grid (1230) -/
theorem quant_dequant_16 (sv : Int) (h : -32768 ≤ sv ∧ sv ≤ 32767) :
    quantBias res002 (dequantBias res002 sv) = ofInt 16 sv := by
  have hr : DfWf.InRange (spec 16 2) sv := by
    unfold DfWf.InRange DfWf.svLo DfWf.svHi
    simp only [spec]
    omega
  obtain ⟨t, h1, h2⟩ := C08.df_value_roundtrip ⟨true⟩ (spec 16 2) sv wf16 hr
  rw [dequantBias_eq ⟨true⟩ 16 2 res002 evalF_002] at h1
  injection h1 with h1
  subst h1
  rw [quantBias_eq 16 2 res002 evalF_002] at h2
  injection h2

end Rtcm.BiasFloat
