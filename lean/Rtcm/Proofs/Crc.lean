import Rtcm.Model.Crc
/-!
CRC-24Q: range of the remainder and linearity of the long division over GF(2).
Core Lean only.
-/
namespace Rtcm

theorem crcG_lt : crcG < 2 ^ 25 := by decide
theorem crcG_bit24 : crcG.testBit 24 = true := by decide

theorem crcStep_lt (s : Nat) (b : Bool) (h : s < 2 ^ 24) : crcStep s b < 2 ^ 24 := by
  unfold crcStep
  have ht : 2 * s + (if b then 1 else 0) < 2 ^ 25 := by cases b <;> simp <;> omega
  generalize (2 * s + if b = true then 1 else 0) = t at ht
  simp only
  split
  · next h24 =>
    apply Nat.lt_pow_two_of_testBit
    intro i hi
    rw [Nat.testBit_xor]
    by_cases h' : i = 24
    · subst h'; rw [h24, crcG_bit24]; rfl
    · have hi' : 25 ≤ i := by omega
      have h1 : t.testBit i = false :=
        Nat.testBit_lt_two_pow (Nat.lt_of_lt_of_le ht (Nat.pow_le_pow_right (by decide) hi'))
      have h2 : crcG.testBit i = false :=
        Nat.testBit_lt_two_pow (Nat.lt_of_lt_of_le crcG_lt (Nat.pow_le_pow_right (by decide) hi'))
      rw [h1, h2]; rfl
  · next h24 =>
    apply Nat.lt_pow_two_of_testBit
    intro i hi
    by_cases h' : i = 24
    · subst h'; simpa using h24
    · have hi' : 25 ≤ i := by omega
      exact Nat.testBit_lt_two_pow (Nat.lt_of_lt_of_le ht (Nat.pow_le_pow_right (by decide) hi'))

theorem crcRem_lt (s : Nat) (bits : List Bool) (h : s < 2 ^ 24) : crcRem s bits < 2 ^ 24 := by
  induction bits generalizing s with
  | nil => simpa [crcRem]
  | cons b bs ih =>
    simp only [crcRem, List.foldl_cons]
    exact ih _ (crcStep_lt s b h)

theorem crcRemBytes_lt (s : Nat) (d : List UInt8) (h : s < 2 ^ 24) : crcRemBytes s d < 2 ^ 24 := by
  induction d generalizing s with
  | nil => simpa [crcRemBytes]
  | cons b bs ih =>
    simp only [crcRemBytes, List.foldl_cons]
    exact ih _ (crcRem_lt s _ h)

theorem crc24q_lt (d : List UInt8) : crc24q d < 2 ^ 24 :=
  crcRem_lt _ _ (crcRemBytes_lt 0 d (by decide))

theorem crcRem_append (s : Nat) (a b : List Bool) : crcRem s (a ++ b) = crcRem (crcRem s a) b := by
  simp [crcRem, List.foldl_append]

theorem crcRemBytes_eq_bits (s : Nat) (d : List UInt8) :
    crcRemBytes s d = crcRem s (bitsOfBytes d) := by
  induction d generalizing s with
  | nil => rfl
  | cons b bs ih =>
    simp only [crcRemBytes, List.foldl_cons, bitsOfBytes, List.flatMap_cons]
    rw [crcRem_append]
    exact ih _

theorem crcRemBytes_append (s : Nat) (a b : List UInt8) :
    crcRemBytes s (a ++ b) = crcRemBytes (crcRemBytes s a) b := by
  simp [crcRemBytes, List.foldl_append]

/-- the bit-list form of the definition: remainder of the message followed by 24 zero bits -/
theorem crc24q_eq_bits (d : List UInt8) :
    crc24q d = crcRem 0 (bitsOfBytes d ++ List.replicate 24 false) := by
  rw [crcRem_append, ← crcRemBytes_eq_bits]; rfl

/-! ### Linearity -/

theorem two_mul_add_bit_xor (s s' : Nat) (b b' : Bool) :
    2 * (s ^^^ s') + (if (b != b') then 1 else 0)
      = (2 * s + (if b then 1 else 0)) ^^^ (2 * s' + (if b' then 1 else 0)) := by
  have h : ∀ (x : Nat) (c : Bool), (2 * x + (if c then 1 else 0)) / 2 = x := by
    intro x c; cases c <;> simp <;> omega
  have h0 : ∀ (x : Nat) (c : Bool), (2 * x + (if c then 1 else 0)) % 2 = (if c then 1 else 0) := by
    intro x c; cases c <;> simp <;> omega
  apply Nat.eq_of_testBit_eq
  intro i
  cases i with
  | zero =>
    simp only [Nat.testBit_zero]
    have e : ∀ a b : Nat, (a ^^^ b) % 2 = (a % 2) ^^^ (b % 2) := by
      intro a b; simpa using Nat.xor_mod_two_pow (a := a) (b := b) (n := 1)
    rw [e, h0, h0, h0]
    cases b <;> cases b' <;> rfl
  | succ i =>
    rw [Nat.testBit_add_one, Nat.testBit_add_one, Nat.xor_div_two, h, h, h]

theorem crcStep_linear (s s' : Nat) (b b' : Bool) :
    crcStep (s ^^^ s') (b != b') = crcStep s b ^^^ crcStep s' b' := by
  unfold crcStep
  simp only [two_mul_add_bit_xor, Nat.testBit_xor]
  generalize (2 * s + if b = true then 1 else 0) = t
  generalize (2 * s' + if b' = true then 1 else 0) = t'
  cases h : t.testBit 24 <;> cases h' : t'.testBit 24 <;> simp
  all_goals (apply Nat.eq_of_testBit_eq; intro i; simp only [Nat.testBit_xor];
             cases t.testBit i <;> cases t'.testBit i <;> cases crcG.testBit i <;> rfl)

/-- xor of two equally long bit strings -/
def xorBits (a e : List Bool) : List Bool := List.zipWith (· != ·) a e

theorem crcRem_linear (s s' : Nat) (a e : List Bool) (h : a.length = e.length) :
    crcRem (s ^^^ s') (xorBits a e) = crcRem s a ^^^ crcRem s' e := by
  induction a generalizing s s' e with
  | nil => cases e <;> simp_all [crcRem, xorBits]
  | cons x xs ih =>
    cases e with
    | nil => simp at h
    | cons y ys =>
      simp only [xorBits, List.zipWith_cons_cons, crcRem, List.foldl_cons]
      have := ih (crcStep s x) (crcStep s' y) ys (by simpa using h)
      simp only [crcRem, xorBits] at this
      rw [← this, crcStep_linear]

end Rtcm
