import Rtcm.Proofs.DfFloat
/-!
# Float fields: quantisation of an arbitrary finite input (C11)
-/
namespace Rtcm.DfLaws
open Rtcm.Bits Rtcm.Schema Rtcm.SoftFloat Rtcm.Df Rtcm.DfWf

/-- `fl(res)` of a float field (1 if absent / not a finite positive float) -/
def resVal (s : DfSpec) : ℚ := (fconst (fmtOf s.dt) s.res 1).getD 1
/-- `fl(bias)` of a float field (0 if absent) -/
def biasVal (s : DfSpec) : ℚ := (fconst (fmtOf s.dt) s.bias 0).getD 0

theorem wfFlt_spec' {s : DfSpec} (h : wfFlt s = true) : ∃ re, FltOK s re (resVal s) (biasVal s) := by
  obtain ⟨re, r, b, ok⟩ := wfFlt_spec h
  have hr : resVal s = r := by
    unfold resVal fconst
    rw [ok.res_eq]; simp only [ok.res_val]; rfl
  have hb : biasVal s = b := by
    unfold biasVal fconst
    rcases hbi : s.bias with _ | be
    · simp only [Option.getD_some]; exact (ok.bias_none hbi).symm
    · simp only [(ok.bias_some be hbi).1]; rfl
  rw [hr, hb]
  exact ⟨re, ok⟩

/-- any finite datum read from a bit pattern has a non-negative magnitude -/
theorem ofBits_val (fmt : Fmt) (bits : Nat) (h : (ofBits fmt bits).isFinite = true) :
    (ofBits fmt bits).Val (ofBits fmt bits).toRat := by
  unfold ofBits at h ⊢
  simp only at h ⊢
  split_ifs at h ⊢ with h1 h2 h3
  · simp [F.isFinite] at h
  · simp [F.isFinite] at h
  · exact ⟨_, _, rfl, mul_nonneg (by positivity) (pow2_pos _).le, rfl⟩
  · exact ⟨_, _, rfl, mul_nonneg (by positivity) (pow2_pos _).le, rfl⟩

theorem truncRat_nonneg_bounds {w : ℚ} (h : 0 ≤ w) :
    (truncRat w : ℚ) ≤ w ∧ w < (truncRat w : ℚ) + 1 := by
  unfold truncRat
  rw [if_neg (not_lt.mpr h)]
  exact ⟨floor_le' w, lt_floor_add_one' w⟩

theorem truncRat_nonpos_bounds {w : ℚ} (h : w ≤ 0) :
    w ≤ (truncRat w : ℚ) ∧ (truncRat w : ℚ) < w + 1 := by
  unfold truncRat
  split_ifs with h0
  · have a := floor_le' (-w)
    have c := lt_floor_add_one' (-w)
    push_cast
    constructor <;> linarith
  · have : w = 0 := le_antisymm h (not_lt.mp h0)
    subst this
    have : (0 : ℚ).floor = 0 := by
      show ⌊(0 : ℚ)⌋ = 0
      exact Int.floor_zero
    rw [this]; norm_num

section chain11
variable {fmt : Fmt} {len : Nat} {r b : ℚ}

/-- encode side on an arbitrary input `v` with `t = (v - b)/r`, `|t| ≤ K`: no overflow anywhere and
the integer produced is within `1/2 + δ` of `t` -/
theorem quant_chain (ok : NumOK fmt len r b) (hasBias : Bool) (hb : hasBias = false → b = 0)
    (v t : ℚ) (ht : v - b = t * r) (hK : |t| ≤ (num fmt len r b).K) :
    NoOvf fmt (v - b) ∧ NoOvf fmt (qd fmt hasBias b v / r) ∧
    NoOvf fmt (qq fmt hasBias r b v + qh (qq fmt hasBias r b v)) ∧
    |(qk fmt hasBias r b v : ℚ) - t| ≤ 1 / 2 + deltaNum (num fmt len r b) := by
  have hr := ok.r_pos
  have hb0 := ok.b_nonneg
  have hu := ur_pos fmt
  have hdq := ok.hdq
  rw [num_u] at hdq
  have hs1 : |v - b| ≤ (num fmt len r b).M1 := by
    rw [ht, num_M1, abs_mul, abs_of_pos hr]
    exact mul_le_mul_of_nonneg_right hK hr.le
  obtain ⟨no1, e1, a1⟩ := ok.ok1.step hs1
  have hM1u := mul_nonneg ok.ok1.nonneg hu.le
  have hd : |qd fmt hasBias b v - (v - b)| ≤ (num fmt len r b).M1 * ur fmt ∧
      |qd fmt hasBias b v| ≤ (num fmt len r b).M1 * (1 + ur fmt) := by
    cases hasBias
    · have hb' : b = 0 := hb rfl
      simp only [qd, Bool.false_eq_true, if_false]
      rw [show v - (v - b) = 0 by rw [hb']; ring, abs_zero]
      refine ⟨hM1u, ?_⟩
      have hv : |v| ≤ (num fmt len r b).M1 := by
        have : v - b = v := by rw [hb']; ring
        rwa [this] at hs1
      linarith
    · simpa [qd] using ⟨e1, a1⟩
  unfold qk qw qq
  generalize qd fmt hasBias b v = d at hd ⊢
  obtain ⟨hd1, hd2⟩ := hd
  have hs6 : |d / r| ≤ (num fmt len r b).M6 := by
    rw [num_M6, abs_div, abs_of_pos hr]
    exact div_le_div_of_nonneg_right hd2 hr.le
  obtain ⟨no6, e6, -⟩ := ok.ok6.step hs6
  have hdt : |d / r - t| ≤ ur fmt * (num fmt len r b).M1 / r := by
    have : d / r - t = (d - (v - b)) / r := by rw [ht]; field_simp
    rw [this, abs_div, abs_of_pos hr]
    exact div_le_div_of_nonneg_right (by linarith) hr.le
  have hqt : |rnd fmt (d / r) - t| ≤ (num fmt len r b).dq := by
    rw [num_dq]
    have a := abs_le.mp e6
    have c := abs_le.mp hdt
    rw [abs_le]
    constructor <;> linarith [a.1, a.2, c.1, c.2]
  generalize rnd fmt (d / r) = q at hqt ⊢
  have hM5pos : 0 ≤ (num fmt len r b).M5 := ok.ok5.nonneg
  have hdqlt : (num fmt len r b).dq < 1 / 2 := by nlinarith
  have hqt' := abs_le.mp hqt
  have hK' := abs_le.mp hK
  have hs5 : |q + qh q| ≤ (num fmt len r b).M5 := by
    rw [num_M5]
    unfold qh
    split_ifs <;> (rw [abs_le]; constructor <;> linarith [hqt'.1, hqt'.2, hK'.1, hK'.2])
  obtain ⟨no5, e5, -⟩ := ok.ok5.step hs5
  refine ⟨no1, no6, no5, ?_⟩
  have e5' := abs_le.mp e5
  unfold deltaNum
  rw [num_u]
  by_cases hq0 : 0 ≤ q
  · have hh : qh q = 1 / 2 := by unfold qh; rw [if_pos hq0]
    rw [hh] at e5'
    have hw0 : 0 ≤ rnd fmt (q + qh q) := rnd_nonneg fmt (by rw [hh]; linarith)
    rw [hh] at hw0 ⊢
    generalize rnd fmt (q + 1 / 2) = w at e5' hw0 ⊢
    obtain ⟨b1, b2⟩ := truncRat_nonneg_bounds hw0
    rw [abs_le]
    constructor <;> linarith [e5'.1, e5'.2, hqt'.1, hqt'.2]
  · have hh : qh q = -(1 / 2) := by unfold qh; rw [if_neg hq0]
    rw [hh] at e5'
    have hw0 : rnd fmt (q + qh q) ≤ 0 := rnd_nonpos fmt (by rw [hh]; linarith [not_le.mp hq0])
    rw [hh] at hw0 ⊢
    generalize rnd fmt (q + -(1 / 2)) = w at e5' hw0 ⊢
    obtain ⟨b1, b2⟩ := truncRat_nonpos_bounds hw0
    rw [abs_le]
    constructor <;> linarith [e5'.1, e5'.2, hqt'.1, hqt'.2]

/-- the model integer is monotone in the input value -/
theorem qk_mono (hp : 1 ≤ fmt.p) (hr : 0 < r) (hasBias : Bool) {v v' : ℚ} (h : v ≤ v') :
    qk fmt hasBias r b v ≤ qk fmt hasBias r b v' := by
  have hd : qd fmt hasBias b v ≤ qd fmt hasBias b v' := by
    unfold qd
    cases hasBias
    · simpa using h
    · simp only [if_true]; exact rnd_mono fmt hp (by linarith)
  have hq : qq fmt hasBias r b v ≤ qq fmt hasBias r b v' := by
    unfold qq
    exact rnd_mono fmt hp (div_le_div_of_nonneg_right hd hr.le)
  unfold qk qw
  generalize qq fmt hasBias r b v = q at hq ⊢
  generalize qq fmt hasBias r b v' = q' at hq ⊢
  apply truncRat_mono
  apply rnd_mono fmt hp
  unfold qh
  split_ifs with h1 h2 h2
  · linarith
  · exact absurd (le_trans h1 hq) h2
  · linarith
  · linarith

end chain11

/-- integers strictly within distance 1 of `t` are its floor or its ceiling -/
theorem floor_or_ceil_of_abs_lt_one {k : Int} {t : ℚ} (h : |(k : ℚ) - t| < 1) :
    k = ⌊t⌋ ∨ k = ⌈t⌉ := by
  obtain ⟨h1, h2⟩ := abs_lt.mp h
  by_cases hk : (k : ℚ) ≤ t
  · left
    symm
    rw [Int.floor_eq_iff]
    constructor <;> linarith
  · right
    symm
    rw [Int.ceil_eq_iff]
    constructor <;> linarith [not_le.mp hk]

end Rtcm.DfLaws
