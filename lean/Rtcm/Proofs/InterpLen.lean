import Rtcm.Model.Interp
/-!
# Every encoder of the interpreter preserves the buffer length (helper lemmas for C12)

Core Lean only. Outline:
* `Res.bind_eq_ok`: inversion of a successful monadic bind;
* `Bits.putLoop_length`, `Bits.put_length`: `put` keeps the buffer length, unconditionally
  (no hypothesis on `len`, `off`, the carrier or the build profile);
* leaf encoders: `Df.encode_length`, `Text.putU_length`, `putBytes_length`, `strEncode_length`,
  `text1029Encode_length`, `Bias.encode_length`, `Bias.encode1230_length`, `Msm.encode_length`;
* the interpreter, by mutual structural induction over `Frag` / `Fields`:
  `Interp.encFrag_length`, `Interp.encFields_length`, with `Interp.encRepeat_length` generic in the
  element encoder.
-/
namespace Rtcm

theorem Res.bind_eq_ok {α β} {r : Res α} {f : α → Res β} {b : β} (h : (r >>= f) = .ok b) :
    ∃ a, r = .ok a ∧ f a = .ok b := by
  cases r with
  | ok a => exact ⟨a, rfl, h⟩
  | err e => simp at h
  | panic w => simp at h

namespace Bits

theorem putLoop_length (cfg : Cfg) (it : IT) (s : Setup) (value : Nat) :
    ∀ (ds : List Nat) (i lenlft : Nat) (out : List Nat),
      putLoop cfg it s value i lenlft ds = .ok out → out.length = ds.length := by
  intro ds
  induction ds with
  | nil =>
    intro i l out h
    simp only [putLoop, Res.ok.injEq] at h
    subst h; rfl
  | cons d ds ih =>
    intro i l out h
    unfold putLoop at h
    split at h
    · obtain ⟨r, _, h⟩ := Res.bind_eq_ok h
      obtain ⟨rest, hrest, h⟩ := Res.bind_eq_ok h
      simp only [Res.ok.injEq] at h
      subst h
      simp [ih _ _ _ hrest]
    · simp only [Res.ok.injEq] at h
      subst h; rfl

/-- `Assembler::put` never changes the length of the buffer -/
theorem put_length {cfg : Cfg} {it : IT} {data : List Nat} {off v len : Nat} {d' : List Nat} {o : Nat}
    (h : put cfg it data off v len = .ok (d', o)) : d'.length = data.length := by
  unfold put at h
  split at h
  · simp at h
  split at h
  · simp at h
  obtain ⟨value, _, h⟩ := Res.bind_eq_ok h
  obtain ⟨s, _, h⟩ := Res.bind_eq_ok h
  obtain ⟨tail, ht, h⟩ := Res.bind_eq_ok h
  simp only [Res.ok.injEq, Prod.mk.injEq] at h
  obtain ⟨h, _⟩ := h
  subst h
  have := putLoop_length _ _ _ _ _ _ _ _ ht
  simp only [List.length_append, List.length_take, this, List.length_drop]
  omega

end Bits

/-- `c'` has the same buffer length as `c` -/
abbrev SameLen (c c' : Cur) : Prop := c'.data.length = c.data.length

namespace Text
open Rtcm.Bits

theorem putU_length {cfg : Cfg} {w v len : Nat} {c c' : Cur} (h : putU cfg w v len c = .ok c') :
    c'.data.length = c.data.length := by
  unfold putU at h
  split at h
  · next d o hp =>
    simp only [Res.ok.injEq] at h
    subst h
    exact put_length hp
  · simp at h
  · simp at h

theorem putBytes_length (cfg : Cfg) : ∀ (bs : List Nat) (c c' : Cur),
    putBytes cfg bs c = .ok c' → c'.data.length = c.data.length := by
  intro bs
  induction bs with
  | nil => intro c c' h; simp only [putBytes, Res.ok.injEq] at h; subst h; rfl
  | cons b bs ih =>
    intro c c' h
    unfold putBytes at h
    split at h
    · next c1 h1 => rw [ih _ _ h, putU_length h1]
    · simp at h
    · simp at h

theorem strEncode_length {cfg : Cfg} {lenBits : Nat} {bytes : List Nat} {c c' : Cur}
    (h : strEncode cfg lenBits bytes c = .ok c') : c'.data.length = c.data.length := by
  unfold strEncode at h
  split at h
  · next c1 h1 => rw [putBytes_length _ _ _ _ h, putU_length h1]
  · simp at h
  · simp at h

theorem text1029Encode_length {cfg : Cfg} {bytes : List Nat} {c c' : Cur}
    (h : text1029Encode cfg bytes c = .ok c') : c'.data.length = c.data.length := by
  unfold text1029Encode at h
  simp only [] at h
  split at h
  · simp at h
  split at h
  · next c1 h1 =>
    split at h
    · next c2 h2 => rw [putBytes_length _ _ _ _ h, putU_length h2, putU_length h1]
    · simp at h
    · simp at h
  · simp at h
  · simp at h

end Text

namespace Df
open Rtcm.Bits

theorem encode_length {cfg : Cfg} {s : Schema.DfSpec} {toks : List Tok} {c c' : Cur} {ts' : List Tok}
    (h : Df.encode cfg s toks c = .ok (c', ts')) : c'.data.length = c.data.length := by
  unfold Df.encode at h
  simp only [] at h
  repeat' split at h
  all_goals first
    | (simp at h; done)
    | (simp only [Res.ok.injEq, Prod.mk.injEq] at h
       obtain ⟨h, _⟩ := h
       subst h
       exact put_length ‹_›)

end Df

namespace Msm
open Rtcm.Text

theorem encColumn_length (cfg : Cfg) (s : Schema.DfSpec) (j : Nat) :
    ∀ (rows : List (List (List Tok))) (c c' : Cur),
      encColumn cfg s j rows c = .ok c' → c'.data.length = c.data.length := by
  intro rows
  induction rows with
  | nil => intro c c' h; simp only [encColumn, Res.ok.injEq] at h; subst h; rfl
  | cons r rows ih =>
    intro c c' h
    unfold encColumn at h
    split at h
    · next c1 _ h1 => rw [ih _ _ h, Df.encode_length h1]
    · simp at h
    · simp at h

theorem encColumns_length (cfg : Cfg) (rows : List (List (List Tok))) :
    ∀ (fs : List (String × Schema.DfSpec)) (j : Nat) (c c' : Cur),
      encColumns cfg rows j fs c = .ok c' → c'.data.length = c.data.length := by
  intro fs
  induction fs with
  | nil => intro j c c' h; simp only [encColumns, Res.ok.injEq] at h; subst h; rfl
  | cons f fs ih =>
    intro j c c' h
    obtain ⟨nm, s⟩ := f
    unfold encColumns at h
    split at h
    · next c1 h1 => rw [ih _ _ _ h, encColumn_length _ _ _ _ _ _ h1]
    · simp at h
    · simp at h

theorem encode_length {cfg : Cfg} {tbl : Schema.SigTable} {satFields sigFields : List (String × Schema.DfSpec)}
    {sats : List SatRow} {sigs : List SigRow} {c c' : Cur}
    (h : Msm.encode cfg tbl satFields sigFields sats sigs c = .ok c') :
    c'.data.length = c.data.length := by
  unfold Msm.encode at h
  split at h
  · split at h
    · next c1 h1 => rw [putU_length h, putU_length h1]
    · simp at h
    · simp at h
  · split at h
    · next c1 h1 =>
      split at h
      · next c2 h2 =>
        split at h
        · next c3 h3 =>
          simp only [] at h
          split at h
          · next c4 h4 =>
            rw [encColumns_length _ _ _ _ _ _ h, encColumns_length _ _ _ _ _ _ h4, putU_length h3,
              putU_length h2, putU_length h1]
          · simp at h
          · simp at h
        · simp at h
        · simp at h
      · simp at h
      · simp at h
    · simp at h
    · simp at h
  · simp at h
  · simp at h

end Msm

namespace Bias
open Rtcm.Text

theorem putI16_length {cfg : Cfg} {v len : Nat} {c c' : Cur} (h : putI16 cfg v len c = .ok c') :
    c'.data.length = c.data.length := by
  unfold putI16 at h
  split at h
  · next d o hp =>
    simp only [Res.ok.injEq] at h
    subst h
    exact Bits.put_length hp
  · simp at h
  · simp at h

theorem encEntries_length (cfg : Cfg) (p : Params) : ∀ (es : List Entry) (c c' : Cur),
    encEntries cfg p es c = .ok c' → c'.data.length = c.data.length := by
  intro es
  induction es with
  | nil => intro c c' h; simp only [encEntries, Res.ok.injEq] at h; subst h; rfl
  | cons e es ih =>
    intro c c' h
    unfold encEntries at h
    split at h
    · split at h
      · next c1 h1 =>
        split at h
        · next c2 h2 => rw [ih _ _ h, putI16_length h2, putU_length h1]
        · simp at h
        · simp at h
      · simp at h
      · simp at h
    · exact ih _ _ h

theorem encSats_length (cfg : Cfg) (p : Params) (v : List Entry) : ∀ (ss : List Nat) (c c' : Cur),
    encSats cfg p v ss c = .ok c' → c'.data.length = c.data.length := by
  intro ss
  induction ss with
  | nil => intro c c' h; simp only [encSats, Res.ok.injEq] at h; subst h; rfl
  | cons s ss ih =>
    intro c c' h
    unfold encSats at h
    split at h
    · next c1 h1 =>
      simp only [] at h
      split at h
      · simp at h
      split at h
      · next c2 h2 =>
        split at h
        · next c3 h3 => rw [ih _ _ h, encEntries_length _ _ _ _ _ h3, putU_length h2, putU_length h1]
        · simp at h
        · simp at h
      · simp at h
      · simp at h
    · simp at h
    · simp at h

theorem encode_length {cfg : Cfg} {p : Params} {v : List Entry} {c c' : Cur}
    (h : Bias.encode cfg p v c = .ok c') : c'.data.length = c.data.length := by
  unfold Bias.encode at h
  split at h
  · simp at h
  simp only [] at h
  split at h
  · simp at h
  split at h
  · next c1 h1 => rw [encSats_length _ _ _ _ _ _ h, putU_length h1]
  · simp at h
  · simp at h

theorem enc1230Biases_length (cfg : Cfg) : ∀ (es : List Entry) (c c' : Cur),
    enc1230Biases cfg es c = .ok c' → c'.data.length = c.data.length := by
  intro es
  induction es with
  | nil => intro c c' h; simp only [enc1230Biases, Res.ok.injEq] at h; subst h; rfl
  | cons e es ih =>
    intro c c' h
    unfold enc1230Biases at h
    split at h
    · next c1 h1 => rw [ih _ _ h, putI16_length h1]
    · simp at h
    · simp at h

theorem encode1230_length {cfg : Cfg} {gloTbl : Schema.SigTable} {v : List Entry} {c c' : Cur}
    (h : Bias.encode1230 cfg gloTbl v c = .ok c') : c'.data.length = c.data.length := by
  unfold Bias.encode1230 at h
  simp only [] at h
  split at h
  · simp at h
  split at h
  · split at h
    · next c1 h1 => rw [enc1230Biases_length _ _ _ _ h, putU_length h1]
    · simp at h
    · simp at h
  · simp at h
  · simp at h

end Bias

namespace Interp
open Rtcm.Schema Rtcm.Text

theorem lift_ok {α} {r : Res α} {k : α → Res (Cur × List Tok)} {x : Cur × List Tok}
    (h : lift r k = .ok x) : ∃ a, r = .ok a ∧ k a = .ok x := by
  cases r with
  | ok a => exact ⟨a, rfl, h⟩
  | err e => simp [lift] at h
  | panic w => simp [lift] at h

/-- `encRepeat` preserves the buffer length if the element encoder does -/
theorem encRepeat_length {f : Enc}
    (hf : ∀ ts c c' ts', f ts c = .ok (c', ts') → c'.data.length = c.data.length) :
    ∀ (n : Nat) (ts : List Tok) (c c' : Cur) (ts' : List Tok),
      encRepeat f n ts c = .ok (c', ts') → c'.data.length = c.data.length := by
  intro n
  induction n with
  | zero =>
    intro ts c c' ts' h
    simp only [encRepeat, Res.ok.injEq, Prod.mk.injEq] at h
    rw [← h.1]
  | succ n ih =>
    intro ts c c' ts' h
    unfold encRepeat at h
    split at h
    · next c1 ts1 h1 => rw [ih _ _ _ _ h, hf _ _ _ _ h1]
    · simp at h
    · simp at h

mutual
/-- every fragment encoder preserves the length of the buffer -/
theorem encFrag_length (cfg : Cfg) (glo : SigTable) : ∀ (f : Frag) (ts : List Tok) (c c' : Cur) (ts' : List Tok),
    encFrag cfg glo f ts c = .ok (c', ts') → c'.data.length = c.data.length
  | .df s, ts, c, c', ts', h => by
    unfold encFrag at h
    exact Df.encode_length h
  | .str cap lenBits, ts, c, c', ts', h => by
    unfold encFrag at h
    split at h
    · split at h
      · simp at h
      · obtain ⟨c1, h1, h2⟩ := lift_ok h
        simp only [Res.ok.injEq, Prod.mk.injEq] at h2
        rw [← h2.1]
        exact strEncode_length h1
    · simp at h
  | .text1029, ts, c, c', ts', h => by
    unfold encFrag at h
    split at h
    · split at h
      · simp at h
      · obtain ⟨c1, h1, h2⟩ := lift_ok h
        simp only [Res.ok.injEq, Prod.mk.injEq] at h2
        rw [← h2.1]
        exact text1029Encode_length h1
    · simp at h
  | .bias1059 cap tbl, ts, c, c', ts', h => by
    unfold encFrag at h
    split at h
    · split at h
      · simp at h
      · split at h
        · obtain ⟨c1, h1, h2⟩ := lift_ok h
          simp only [Res.ok.injEq, Prod.mk.injEq] at h2
          rw [← h2.1]
          exact Bias.encode_length h1
        · simp at h
    · simp at h
  | .bias1065 cap tbl, ts, c, c', ts', h => by
    unfold encFrag at h
    split at h
    · split at h
      · simp at h
      · split at h
        · obtain ⟨c1, h1, h2⟩ := lift_ok h
          simp only [Res.ok.injEq, Prod.mk.injEq] at h2
          rw [← h2.1]
          exact Bias.encode_length h1
        · simp at h
    · simp at h
  | .bias1230, ts, c, c', ts', h => by
    unfold encFrag at h
    split at h
    · split at h
      · simp at h
      · split at h
        · obtain ⟨c1, h1, h2⟩ := lift_ok h
          simp only [Res.ok.injEq, Prod.mk.injEq] at h2
          rw [← h2.1]
          exact Bias.encode1230_length h1
        · simp at h
    · simp at h
  | .seq fs, ts, c, c', ts', h => by
    unfold encFrag at h
    exact encFields_length cfg glo fs ts c c' ts' h
  | .lenMiddle f1 lenDf f2 elem cap, ts, c, c', ts', h => by
    unfold encFrag at h
    split at h
    · next c1 ts1 h1 =>
      split at h
      · split at h
        · simp at h
        · split at h
          · next c2 _ h2 =>
            split at h
            · next c3 ts3 h3 =>
              rw [encRepeat_length (encFrag_length cfg glo elem) _ _ _ _ _ h,
                encFields_length cfg glo f2 _ _ _ _ h3, Df.encode_length h2,
                encFields_length cfg glo f1 _ _ _ _ h1]
            · simp at h
            · simp at h
          · simp at h
          · simp at h
      · simp at h
    · simp at h
    · simp at h
  | .vecWithLen elem cap lenBits, ts, c, c', ts', h => by
    unfold encFrag at h
    split at h
    · split at h
      · simp at h
      · split at h
        · next d o hp =>
          rw [encRepeat_length (encFrag_length cfg glo elem) _ _ _ _ _ h]
          exact Bits.put_length hp
        · simp at h
        · simp at h
    · simp at h
  | .grid16 elem, ts, c, c', ts', h => by
    unfold encFrag at h
    exact encRepeat_length (encFrag_length cfg glo elem) _ _ _ _ _ h
  | .msm tbl satFields sigFields, ts, c, c', ts', h => by
    unfold encFrag at h
    split at h
    · split at h
      · simp at h
      · split at h
        · split at h
          · simp at h
          · split at h
            · obtain ⟨c1, h1, h2⟩ := lift_ok h
              simp only [Res.ok.injEq, Prod.mk.injEq] at h2
              rw [← h2.1]
              exact Msm.encode_length h1
            · simp at h
        · simp at h
    · simp at h
theorem encFields_length (cfg : Cfg) (glo : SigTable) : ∀ (fs : Fields) (ts : List Tok) (c c' : Cur) (ts' : List Tok),
    encFields cfg glo fs ts c = .ok (c', ts') → c'.data.length = c.data.length
  | .nil, ts, c, c', ts', h => by
    unfold encFields at h
    simp only [Res.ok.injEq, Prod.mk.injEq] at h
    rw [← h.1]
  | .cons _ f rest, ts, c, c', ts', h => by
    unfold encFields at h
    split at h
    · next c1 ts1 h1 =>
      rw [encFields_length cfg glo rest _ _ _ _ h, encFrag_length cfg glo f _ _ _ _ h1]
    · simp at h
    · simp at h
end

end Interp

end Rtcm
