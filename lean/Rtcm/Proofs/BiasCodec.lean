import Rtcm.Proofs.SpecialRows
import Rtcm.Proofs.BiasFloat
import Rtcm.Props.C16
/-!
# The codec law for the bias lists (`.bias1230`, `.bias1059`, `.bias1065`)
-/
namespace Rtcm.BiasCodec
open Rtcm.Bits Rtcm.Schema Rtcm.Interp Rtcm.CurLaws Rtcm.Text Rtcm.WF Rtcm.DecLocal Rtcm.CodecLaw
open Rtcm.SpecialRows Rtcm.Bias Rtcm.BiasLaws Rtcm.Bias1230Laws Rtcm.BiasFloat

/-! ### token splitter -/

/-- the tokens of the entries, without the leading count -/
def entryToks (withSat : Bool) (es : List Entry) : List Tok :=
  es.flatMap fun e => (if withSat then [Tok.int e.sat] else []) ++ [.sig e.band e.attr, .flt e.bias]

theorem biasToks_eq (withSat : Bool) (es : List Entry) :
    biasToks withSat es = .count es.length :: entryToks withSat es := rfl

theorem takeBias_spec (withSat : Bool) : ∀ (n : Nat) (ts : List Tok) (es : List Entry) (r : List Tok),
    takeBias withSat n ts = some (es, r) →
    es.length = n ∧ (∃ pre, ts = pre ++ r) ∧ (withSat = false → ∀ e ∈ es, e.sat = 0) := by
  intro n
  induction n with
  | zero =>
    intro ts es r h
    simp only [takeBias, Option.some.injEq, Prod.mk.injEq] at h
    obtain ⟨rfl, rfl⟩ := h
    exact ⟨rfl, ⟨[], rfl⟩, fun _ _ h => by cases h⟩
  | succ n ih =>
    intro ts es r h
    have step : ∀ (sat : Nat) (rest : List Tok),
        (match rest with
          | .sig b a :: .flt bits :: rest' =>
            match takeBias withSat n rest' with
            | some (es, r) => some (({ sat := sat, band := b, attr := a, bias := bits } : Entry) :: es, r)
            | none => none
          | _ => none) = some (es, r) →
        es.length = n + 1 ∧ (∃ pre, rest = pre ++ r) ∧ (∀ e ∈ es, e.sat = sat ∨ (withSat = false → e.sat = 0)) := by
      intro sat rest hh
      split at hh
      · next b a bits rest' =>
        split at hh
        · next es1 r1 e1 =>
          simp only [Option.some.injEq, Prod.mk.injEq] at hh
          obtain ⟨rfl, rfl⟩ := hh
          obtain ⟨hl, ⟨pre, hp⟩, hs⟩ := ih _ _ _ e1
          refine ⟨by simp [hl], ⟨.sig b a :: .flt bits :: pre, by rw [hp]; rfl⟩, ?_⟩
          intro e he
          rcases List.mem_cons.mp he with rfl | he
          · exact Or.inl rfl
          · exact Or.inr (fun hw => hs hw e he)
        · cases hh
      · cases hh
    cases withSat with
    | true =>
      simp only [takeBias, if_true] at h
      split at h
      · next s rest =>
        obtain ⟨hl, ⟨pre, hp⟩, _⟩ := step s.toNat rest h
        exact ⟨hl, ⟨.int s :: pre, by rw [hp]; rfl⟩, fun hw => by cases hw⟩
      · cases h
    | false =>
      simp only [takeBias, Bool.false_eq_true, if_false] at h
      obtain ⟨hl, hp, hs⟩ := step 0 ts h
      refine ⟨hl, hp, fun _ e he => ?_⟩
      rcases hs e he with h0 | h0
      · exact h0
      · exact h0 rfl

theorem takeBias_entryToks (withSat : Bool) : ∀ (es : List Entry) (r : List Tok),
    (withSat = false → ∀ e ∈ es, e.sat = 0) →
    takeBias withSat es.length (entryToks withSat es ++ r) = some (es, r) := by
  intro es
  induction es with
  | nil => intro r _; rfl
  | cons e es ih =>
    intro r hs
    have ih' := ih r (fun hw x hx => hs hw x (List.mem_cons_of_mem _ hx))
    cases withSat with
    | true =>
      simp only [entryToks, List.flatMap_cons, if_true, List.length_cons, takeBias, List.cons_append,
        List.nil_append, List.append_assoc, Int.toNat_natCast]
      simp only [entryToks, if_true, List.cons_append, List.nil_append] at ih'
      rw [ih']
    | false =>
      have h0 : e.sat = 0 := hs rfl e (List.mem_cons_self ..)
      simp only [entryToks, List.flatMap_cons, Bool.false_eq_true, if_false, List.length_cons, takeBias,
        List.cons_append, List.nil_append, List.append_assoc]
      simp only [entryToks, Bool.false_eq_true, if_false, List.nil_append] at ih'
      rw [ih']
      simp only [Option.some.injEq, Prod.mk.injEq, List.cons.injEq, and_true]
      cases e
      simp only at h0
      subst h0
      rfl

/-! ### 1230: GLONASS code-phase biases -/

theorem toInt_ofInt_16 (sv : Int) (h : -32768 ≤ sv ∧ sv ≤ 32767) : toInt 16 (ofInt 16 sv) = sv := by
  unfold toInt ofInt
  have e : ((2 ^ 16 : Nat) : Int) = 65536 := by decide
  have e2 : (2 : Nat) ^ (16 - 1) = 32768 := by decide
  rw [e, e2]
  split <;> omega

theorem firstBad_false_rec : ∀ (l : List Entry), firstBad1230 l = false →
    ∀ e ∈ l, (maskBit1230 e.band e.attr).isSome = true := by
  intro l
  induction l with
  | nil => intro _ e he; cases he
  | cons x xs ih =>
    intro h e he
    simp only [firstBad1230, Bool.or_eq_false_iff] at h
    rcases List.mem_cons.mp he with rfl | he
    · cases hm : maskBit1230 e.band e.attr with
      | none => rw [hm] at h; simp at h
      | some _ => rfl
    · exact ih h.2 e he

theorem encode1230_ok_rec {cfg : Cfg} {t : SigTable} {v : List Entry} {c c' : Cur}
    (h : encode1230 cfg t v c = .ok c') : ∀ e ∈ v, key e ∈ tkeys := by
  unfold encode1230 at h
  dsimp only at h
  split at h
  · cases h
  · next hfb =>
    simp only [Bool.not_eq_true] at hfb
    intro e he
    have hperm := sortBy_perm (fun a b : Entry => Sig.cmp t (a.band, a.attr) (b.band, b.attr) != .gt) v
    exact (maskBit_isSome_iff _ _).mp (firstBad_false_rec _ hfb e (hperm.mem_iff.mpr he))

/-- a list already in mask order is left alone by the sort -/
theorem sortBy_of_sublist (t : SigTable) (hg : Glo1230Ok t) (l : List Entry)
    (hs : (l.map key).Sublist tkeys) : Sig.sortBy (le1230 t) l = l := by
  have hnd : (l.map key).Nodup := hs.nodup (by decide)
  have hrec : ∀ e ∈ l, key e ∈ tkeys := fun e he => hs.subset (List.mem_map_of_mem he)
  rw [sorted_eq_slots t hg l hrec hnd]
  exact filterMap_find_of_sublist tkeys l (by decide) hs

theorem key_norm1230 (e : Entry) : key (norm1230 e) = key e := rfl

theorem quant_norm1230 (e : Entry) :
    quantBias res002 (norm1230 e).bias = quantBias res002 e.bias := by
  unfold norm1230
  simp only
  have hq := quantBias_lt res002 e.bias
  have hr : -32768 ≤ toInt 16 (quantBias res002 e.bias) ∧ toInt 16 (quantBias res002 e.bias) ≤ 32767 := by
    unfold toInt
    have e2 : (2 : Nat) ^ (16 - 1) = 32768 := by decide
    have e3 : ((2 ^ 16 : Nat) : Int) = 65536 := by decide
    have : quantBias res002 e.bias < 65536 := hq
    rw [e2, e3]
    split <;> omega
  rw [quant_dequant_16 _ hr, ofInt_toInt hq]

theorem mask1230_congr : ∀ (l l' : List Entry), l.map key = l'.map key → mask1230 l = mask1230 l' := by
  intro l
  induction l with
  | nil =>
    intro l' h
    cases l' with
    | nil => rfl
    | cons _ _ => simp at h
  | cons e es ih =>
    intro l' h
    cases l' with
    | nil => simp at h
    | cons e' es' =>
      simp only [List.map_cons, List.cons.injEq, key, Prod.mk.injEq] at h
      simp only [mask1230]
      rw [h.1.1, h.1.2, ih es' h.2]

theorem firstBad_congr : ∀ (l l' : List Entry), l.map key = l'.map key → firstBad1230 l = firstBad1230 l' := by
  intro l
  induction l with
  | nil =>
    intro l' h
    cases l' with
    | nil => rfl
    | cons _ _ => simp at h
  | cons e es ih =>
    intro l' h
    cases l' with
    | nil => simp at h
    | cons e' es' =>
      simp only [List.map_cons, List.cons.injEq, key, Prod.mk.injEq] at h
      simp only [firstBad1230]
      rw [h.1.1, h.1.2, ih es' h.2]

theorem enc1230Biases_norm (cfg : Cfg) : ∀ (l : List Entry) (c : Cur),
    enc1230Biases cfg (l.map norm1230) c = enc1230Biases cfg l c := by
  intro l
  induction l with
  | nil => intro c; rfl
  | cons e es ih =>
    intro c
    simp only [List.map_cons, enc1230Biases]
    rw [quant_norm1230]
    cases putI16 cfg (quantBias res002 e.bias) 16 c with
    | ok c1 => exact ih c1
    | err x => rfl
    | panic w => rfl

theorem map_key_norm (l : List Entry) : (l.map norm1230).map key = l.map key := by
  rw [List.map_map]; rfl

/-- a list in mask order and its normal form are encoded identically -/
theorem encode1230_norm (cfg : Cfg) (t : SigTable) (hg : Glo1230Ok t) (l : List Entry)
    (hs : (l.map key).Sublist tkeys) (c : Cur) :
    encode1230 cfg t (l.map norm1230) c = encode1230 cfg t l c := by
  have hle : (fun a b : Entry => Sig.cmp t (a.band, a.attr) (b.band, b.attr) != .gt) = le1230 t := rfl
  unfold encode1230
  dsimp only
  rw [hle, sortBy_of_sublist t hg l hs,
    sortBy_of_sublist t hg (l.map norm1230) (by rw [map_key_norm]; exact hs),
    firstBad_congr _ l (map_key_norm l), mask1230_congr _ l (map_key_norm l)]
  split
  · rfl
  · cases mask1230 l with
    | ok m =>
      simp only
      cases putU cfg 8 m 4 c with
      | ok c1 => exact enc1230Biases_norm cfg l c1
      | err x => rfl
      | panic w => rfl
    | err x => rfl
    | panic w => rfl

/-- the encoder only looks at the sorted list -/
theorem encode1230_sorted (cfg : Cfg) (t : SigTable) (hg : Glo1230Ok t) (v : List Entry)
    (hrec : ∀ e ∈ v, key e ∈ tkeys) (hnd : (v.map key).Nodup) (c : Cur) :
    encode1230 cfg t (Sig.sortBy (le1230 t) v) c = encode1230 cfg t v c := by
  have hle : (fun a b : Entry => Sig.cmp t (a.band, a.attr) (b.band, b.attr) != .gt) = le1230 t := rfl
  unfold encode1230
  dsimp only
  rw [hle, sortBy_of_sublist t hg _ (sorted_sublist t hg v hrec hnd)]

/-! ### 1230: what the decoder returns; locality -/

theorem parseI16_localG (cfg : Cfg) {len : Nat} (h1 : 1 ≤ len) (h16 : len ≤ 16) : LocalG (parseI16 cfg len) := by
  refine (localG_map (parseF_localG cfg ⟨.i, 16⟩ (by decide) (by decide) h1 h16) (toInt 16)).congr ?_
  intro c
  unfold parseI16 parseF
  cases parse cfg ⟨.i, 16⟩ c.data c.off len with
  | ok r => rfl
  | err e => rfl
  | panic w => rfl

theorem localG_ite' {α : Type} (p : Prop) [Decidable p] {A B : Cur → Res (α × Cur)}
    (hA : LocalG A) (hB : LocalG B) : LocalG (fun c => if p then A c else B c) := by
  by_cases h : p
  · simp only [h, if_true]; exact hA
  · simp only [h, if_false]; exact hB

theorem dec1230Loop_local (cfg : Cfg) (mask : Nat) : ∀ T, LocalG (dec1230Loop cfg mask T) := by
  intro T
  induction T with
  | nil => exact localG_pure []
  | cons r T ih =>
    obtain ⟨⟨b, a⟩, bit⟩ := r
    refine (localG_ite' (mask &&& bit ≠ 0)
      (localG_bind (parseI16_localG cfg (len := 16) (by decide) (by decide)) (fun _ => ih)
        (fun sv es => ({ sat := 0, band := b, attr := a, bias := dequantBias res002 sv } : Entry) :: es))
      ih).congr ?_
    intro c
    rw [dec1230Loop]
    split
    · cases parseI16 cfg 16 c with
      | ok r =>
        obtain ⟨sv, c1⟩ := r
        simp only
        cases dec1230Loop cfg mask T c1 with
        | ok r2 => rfl
        | err e => rfl
        | panic w => rfl
      | err e => rfl
      | panic w => rfl
    · rfl

theorem decode1230_local (cfg : Cfg) : LocalG (decode1230 cfg) := by
  refine (localG_then (parseU_localG cfg (w := 8) (len := 4) (by decide) (by decide) (by decide) (by decide))
    (fun mask => dec1230Loop_local cfg mask gloTable1230)).congr ?_
  intro c
  unfold decode1230
  cases parseU cfg 8 4 c with
  | ok r => rfl
  | err e => rfl
  | panic w => rfl

theorem bias1230_local (cfg : Cfg) : Local (decFrag cfg .bias1230) := by
  refine (localG_map (decode1230_local cfg) (biasToks false)).congr ?_
  intro c; rw [decFrag]
  cases decode1230 cfg c with
  | ok r => rfl
  | err e => rfl
  | panic w => rfl

theorem dec1230Loop_out (cfg : Cfg) (mask : Nat) : ∀ (T : List ((Nat × Nat) × Nat)) (c : Cur) (es : List Entry)
    (c' : Cur), dec1230Loop cfg mask T c = .ok (es, c') →
    (es.map key).Sublist (T.map (·.1)) ∧ ∀ e ∈ es, norm1230 e = e := by
  intro T
  induction T with
  | nil =>
    intro c es c' h
    simp only [dec1230Loop, Res.ok.injEq, Prod.mk.injEq] at h
    obtain ⟨rfl, _⟩ := h
    exact ⟨List.Sublist.slnil, fun _ h => by cases h⟩
  | cons r T ih =>
    intro c es c' h
    obtain ⟨⟨b, a⟩, bit⟩ := r
    rw [dec1230Loop] at h
    split at h
    · split at h
      · next sv c1 e1 =>
        split at h
        · next es1 c2 e2 =>
          simp only [Res.ok.injEq, Prod.mk.injEq] at h
          obtain ⟨rfl, _⟩ := h
          obtain ⟨hs, hn⟩ := ih _ _ _ e2
          refine ⟨?_, ?_⟩
          · simp only [List.map_cons]
            exact hs.cons₂ _
          · intro e he
            rcases List.mem_cons.mp he with rfl | he
            · have hr := NoPanic.parseI16_range cfg 16 c (by decide) (by decide) sv c1 e1
              unfold norm1230
              simp only
              rw [quant_dequant_16 sv hr, toInt_ofInt_16 sv hr]
            · exact hn e he
        · cases h
        · cases h
      · cases h
      · cases h
    · obtain ⟨hs, hn⟩ := ih _ _ _ h
      exact ⟨hs.cons _, hn⟩

theorem decode1230_out {cfg : Cfg} {c c' : Cur} {es : List Entry} (h : decode1230 cfg c = .ok (es, c')) :
    (es.map key).Sublist tkeys ∧ (∀ e ∈ es, norm1230 e = e) ∧ ∀ e ∈ es, e.sat = 0 := by
  unfold decode1230 at h
  split at h
  · obtain ⟨h1, h2⟩ := dec1230Loop_out cfg _ _ _ _ _ h
    refine ⟨h1, h2, ?_⟩
    intro e he
    rw [← h2 e he]
    rfl
  · cases h
  · cases h

/-! ### 1230: the law -/

/-- clean input of a 1230 list: no signal listed twice -/
def Clean1230 (ts : List Tok) : Prop :=
  ∀ n rest es r, ts = .count n :: rest → takeBias false n rest = some (es, r) → (es.map key).Nodup

theorem map_norm_id {l : List Entry} (h : ∀ e ∈ l, norm1230 e = e) : l.map norm1230 = l := by
  conv => rhs; rw [← List.map_id l]
  exact List.map_congr_left (fun e he => by rw [h e he]; rfl)

theorem bias1230_law (cfg : Cfg) (glo : SigTable) (hg : Glo1230Ok glo) :
    LawX (encFrag cfg glo .bias1230) (decFrag cfg .bias1230) (fun _ => True) Clean1230 Eq := by
  intro ts c c' rest hgood hfit _ hok hC h
  clear hok
  have hext : NoPanic.Ext c c' := by
    have := NoPanic.encFrag_es cfg glo .bias1230 (by unfold WFFrag; rfl) ts c hgood
    rw [h] at this
    exact this
  unfold encFrag at h
  split at h
  · next n rest0 =>
    split at h
    · cases h
    · next hn =>
      split at h
      · next es rest' et =>
        obtain ⟨c2, henc, hk⟩ := lift_ok h
        simp only [Res.ok.injEq, Prod.mk.injEq] at hk
        obtain ⟨rfl, rfl⟩ := hk
        obtain ⟨hl, ⟨pre, hp⟩, hs0⟩ := takeBias_spec false _ _ _ _ et
        have hnd : (es.map key).Nodup := hC n rest0 es rest' rfl et
        have hrec := encode1230_ok_rec henc
        obtain ⟨_, _, hdec⟩ := encode1230_decode cfg glo hg es hrec hnd c c2 hgood henc
        have hdec' := hdec c2.data rfl (AgreeOn.rfl' _ _ _)
        have hsub := sorted_sublist glo hg es hrec hnd
        have hperm := sortBy_perm (le1230 glo) es
        refine ⟨⟨.count n :: pre, by rw [hp]; rfl⟩, hext,
          biasToks false ((Sig.sortBy (le1230 glo) es).map norm1230), ?_, ?_, ?_⟩
        · rw [decFrag, hdec']
        · intro rest''
          rw [biasToks_eq, List.cons_append]
          unfold encFrag
          simp only [List.length_map]
          rw [hperm.length_eq, hl, if_neg hn]
          have := takeBias_entryToks false ((Sig.sortBy (le1230 glo) es).map norm1230) rest''
            (fun _ e he => by
              obtain ⟨x, _, rfl⟩ := List.mem_map.mp he
              rfl)
          simp only [List.length_map, hperm.length_eq, hl] at this
          rw [this]
          simp only
          rw [encode1230_norm cfg glo hg _ hsub, encode1230_sorted cfg glo hg es hrec hnd, henc]
          rfl
        · intro c0 t0 c0' r h0 hts
          rw [decFrag] at h0
          split at h0
          · next es0 cc e0 =>
            simp only [Res.ok.injEq, Prod.mk.injEq] at h0
            obtain ⟨rfl, _⟩ := h0
            obtain ⟨hsub0, hnorm0, hsat0⟩ := decode1230_out e0
            rw [biasToks_eq, List.cons_append] at hts
            simp only [List.cons.injEq, Tok.count.injEq] at hts
            obtain ⟨rfl, rfl⟩ := hts
            rw [takeBias_entryToks false es0 r (fun _ => hsat0)] at et
            simp only [Option.some.injEq, Prod.mk.injEq] at et
            obtain ⟨rfl, rfl⟩ := et
            refine ⟨?_, rfl⟩
            rw [sortBy_of_sublist glo hg _ hsub0, map_norm_id hnorm0]
          · cases h0
          · cases h0
      · cases h
  · cases h

/-- what the 1230 decoder returns is clean -/
theorem clean1230_of_decoded {cfg : Cfg} {c0 c0' : Cur} {t0 : List Tok}
    (h : decFrag cfg .bias1230 c0 = .ok (t0, c0')) : Clean1230 t0 := by
  rw [decFrag] at h
  split at h
  · next es0 cc e0 =>
    simp only [Res.ok.injEq, Prod.mk.injEq] at h
    obtain ⟨rfl, _⟩ := h
    obtain ⟨hsub0, _, hsat0⟩ := decode1230_out e0
    intro n rest es r hts et
    rw [biasToks_eq] at hts
    simp only [List.cons.injEq, Tok.count.injEq] at hts
    obtain ⟨rfl, rfl⟩ := hts
    have := takeBias_entryToks false es0 [] (fun _ => hsat0)
    rw [List.append_nil] at this
    rw [this] at et
    simp only [Option.some.injEq, Prod.mk.injEq] at et
    obtain ⟨rfl, _⟩ := et
    exact hsub0.nodup (by decide)
  · cases h
  · cases h

/-! ### 1059 / 1065: the 14-bit bias field -/

/-- the readings of a 14-bit two's-complement field on an `i16` carrier -/
theorem read14_range (x : Nat) (hx : x < 2 ^ 14) :
    -8192 ≤ toInt 16 (readValue ⟨.i, 16⟩ 14 x) ∧ toInt 16 (readValue ⟨.i, 16⟩ 14 x) ≤ 8191 := by
  have hr := NoPanic.readValue_inRange
    { id := "", dt := .i16, it := ⟨.i, 16⟩, len := 14, res := none, bias := none, round := none,
      inv := none, cap := none } x (by decide) (by decide) hx
  unfold DfWf.InRange DfWf.svLo DfWf.svHi Df.carrierVal IT.signed at hr
  simp only [] at hr
  rw [if_pos (by decide)] at hr
  have e : (2 : Int) ^ (14 - 1) = 8192 := by decide
  rw [e] at hr
  omega

theorem wire14_lt (q : Nat) : wire14 q < 2 ^ 16 :=
  readValue_lt ⟨.i, 16⟩ (by decide) (by decide) (wireValue_lt ⟨.i, 16⟩ (by decide) q)

theorem wire14_range (q : Nat) : -8192 ≤ toInt 16 (wire14 q) ∧ toInt 16 (wire14 q) ≤ 8191 :=
  read14_range _ (wireValue_lt ⟨.i, 16⟩ (by decide) q)

/-- the normal form of an entry is written with the same 14 wire bits as the entry -/
theorem quant_norm14 (e : Entry) :
    quantBias res001 (norm14 e).bias = wire14 (quantBias res001 e.bias) := by
  unfold norm14
  simp only
  rw [quant_dequant_14 _ (wire14_range _), ofInt_toInt (wire14_lt _)]

theorem wire_norm14 (e : Entry) :
    wireValue ⟨.i, 16⟩ 14 (quantBias res001 (norm14 e).bias)
      = wireValue ⟨.i, 16⟩ 14 (quantBias res001 e.bias) := by
  rw [quant_norm14]
  unfold wire14
  exact wireValue_readValue ⟨.i, 16⟩ (by decide) (by decide) (wireValue_lt ⟨.i, 16⟩ (by decide) _)
    (fun h => by cases h)

theorem putI16_norm14 (cfg : Cfg) (e : Entry) {c c' : Cur} (hg : NoPanic.Good c)
    (h : putI16 cfg (quantBias res001 e.bias) 14 c = .ok c') :
    putI16 cfg (quantBias res001 (norm14 e).bias) 14 c = .ok c' := by
  unfold putI16 at h ⊢
  split at h
  · next d o hp =>
    simp only [Res.ok.injEq] at h
    subst h
    rw [put_congr_wire cfg ⟨.i, 16⟩ (by decide) (by decide) (by decide) (by decide) hg
      (quantBias_lt _ _) (quantBias_lt _ _) (wire_norm14 e).symm hp]
  · cases h
  · cases h

theorem encEntries_norm14 (cfg : Cfg) (p : Params) : ∀ (es : List Entry) (c c' : Cur), NoPanic.Good c →
    encEntries cfg p es c = .ok c' → encEntries cfg p (es.map norm14) c = .ok c' := by
  intro es
  induction es with
  | nil => intro c c' _ h; exact h
  | cons e es ih =>
    intro c c' hg h
    simp only [List.map_cons, encEntries] at h ⊢
    have hb : (norm14 e).band = e.band := rfl
    have ha : (norm14 e).attr = e.attr := rfl
    rw [hb, ha]
    cases hsid : Sig.toId p.tbl e.band e.attr with
    | none =>
      rw [hsid] at h
      exact ih c c' hg h
    | some sid =>
      rw [hsid] at h
      simp only at h ⊢
      cases e1 : putU cfg 8 sid 5 c with
      | ok c1 =>
        rw [e1] at h
        simp only at h ⊢
        have g1 : NoPanic.Good c1 := by
          have := NoPanic.putU_es cfg 8 sid 5 c (by decide) (by decide) (by decide) (by decide) hg
          rw [e1] at this; exact this.good
        cases e2 : putI16 cfg (quantBias res001 e.bias) 14 c1 with
        | ok c2 =>
          rw [e2] at h
          simp only at h
          have g2 : NoPanic.Good c2 := by
            have := NoPanic.putI16_es cfg (quantBias res001 e.bias) 14 c1 (by decide) (by decide) g1
            rw [e2] at this; exact this.good
          rw [putI16_norm14 cfg e g1 e2]
          exact ih c2 c' g2 h
        | err x => rw [e2] at h; cases h
        | panic w => rw [e2] at h; cases h
      | err x => rw [e1] at h; cases h
      | panic w => rw [e1] at h; cases h

/-! ### 1059 / 1065: regrouping -/

theorem flatMap_single {α β : Type} : ∀ (l : List α), l.Nodup → ∀ (s : α), s ∈ l → ∀ (g : α → List β),
    (∀ a ∈ l, a ≠ s → g a = []) → l.flatMap g = g s := by
  intro l
  induction l with
  | nil => intro _ s hs; cases hs
  | cons x xs ih =>
    intro hnd s hs g hg
    rw [List.nodup_cons] at hnd
    rw [List.flatMap_cons]
    rcases List.mem_cons.mp hs with rfl | hs'
    · have : xs.flatMap g = [] := by
        rw [List.flatMap_eq_nil_iff]
        intro a ha
        exact hg a (List.mem_cons_of_mem _ ha) (fun h => hnd.1 (h ▸ ha))
      rw [this, List.append_nil]
    · have hx : g x = [] := hg x (List.mem_cons_self ..) (fun h => hnd.1 (h ▸ hs'))
      rw [hx, List.nil_append]
      exact ih hnd.2 s hs' g (fun a ha => hg a (List.mem_cons_of_mem _ ha))

theorem grouped_filter (p : Params) (f : Entry → Entry) (hf : ∀ e, (f e).sat = e.sat) (v : List Entry)
    (s : Nat) (hs : s ∈ satsOf p v) :
    (C16.grouped p f v).filter (fun e => e.sat == s) = (v.filter (fun e => e.sat == s)).map f := by
  unfold C16.grouped
  rw [List.filter_flatMap]
  rw [flatMap_single (satsOf p v) (satsOf_nodup p v) s hs]
  · rw [List.filter_eq_self]
    intro e he
    obtain ⟨x, hx, rfl⟩ := List.mem_map.mp he
    have := (List.mem_filter.mp hx).2
    simp only [beq_iff_eq] at this ⊢
    rw [hf]; exact this
  · intro a _ hne
    rw [List.filter_eq_nil_iff]
    intro e he
    obtain ⟨x, hx, rfl⟩ := List.mem_map.mp he
    have := (List.mem_filter.mp hx).2
    simp only [beq_iff_eq] at this ⊢
    rw [hf, this]; exact hne

theorem mem_grouped (p : Params) (f : Entry → Entry) (v : List Entry) (hc : ∀ e ∈ v, e.sat ≤ p.maxSat)
    (e : Entry) : e ∈ C16.grouped p f v ↔ ∃ x ∈ v, f x = e := by
  rw [(C16.grouped_perm p f v hc).mem_iff, List.mem_map]

theorem satsOf_grouped (p : Params) (f : Entry → Entry) (hf : ∀ e, (f e).sat = e.sat) (v : List Entry)
    (hc : ∀ e ∈ v, e.sat ≤ p.maxSat) : satsOf p (C16.grouped p f v) = satsOf p v := by
  unfold satsOf
  apply List.filter_congr
  intro s _
  rw [Bool.eq_iff_iff, List.any_eq_true, List.any_eq_true]
  constructor
  · rintro ⟨e, he, hes⟩
    obtain ⟨x, hx, rfl⟩ := (mem_grouped p f v hc e).mp he
    exact ⟨x, hx, by rw [← hf]; exact hes⟩
  · rintro ⟨x, hx, hxs⟩
    exact ⟨f x, (mem_grouped p f v hc _).mpr ⟨x, hx, rfl⟩, by rw [hf]; exact hxs⟩

theorem checkSats_grouped (p : Params) (f : Entry → Entry) (hf : ∀ e, (f e).sat = e.sat) (v : List Entry)
    (hc : ∀ e ∈ v, e.sat ≤ p.maxSat) : checkSats p (C16.grouped p f v) = true := by
  rw [checkSats_iff]
  intro e he
  obtain ⟨x, hx, rfl⟩ := (mem_grouped p f v hc e).mp he
  rw [hf]; exact hc x hx

theorem encSats_norm (cfg : Cfg) (p : Params) (h1 : 1 ≤ p.satBits) (h8 : p.satBits ≤ 8) (v v' : List Entry) :
    ∀ (ss : List Nat) (c c' : Cur), NoPanic.Good c →
      (∀ s ∈ ss, v'.filter (fun e => e.sat == s) = (v.filter (fun e => e.sat == s)).map norm14) →
      encSats cfg p v ss c = .ok c' → encSats cfg p v' ss c = .ok c' := by
  intro ss
  induction ss with
  | nil => intro c c' _ _ h; exact h
  | cons s ss ih =>
    intro c c' hg hv h
    simp only [encSats] at h ⊢
    rw [hv s (List.mem_cons_self ..)]
    have hnum : (((v.filter fun e => e.sat == s).map norm14).filter
        fun e => (Sig.toId p.tbl e.band e.attr).isSome).length
        = ((v.filter fun e => e.sat == s).filter fun e => (Sig.toId p.tbl e.band e.attr).isSome).length := by
      rw [List.filter_map, List.length_map]
      rfl
    rw [hnum]
    cases e1 : putU cfg 8 s p.satBits c with
    | ok c1 =>
      rw [e1] at h
      simp only at h ⊢
      have g1 : NoPanic.Good c1 := by
        have := NoPanic.putU_es cfg 8 s p.satBits c (by decide) (by decide) h1 h8 hg
        rw [e1] at this; exact this.good
      split at h
      · cases h
      · next hn =>
        rw [if_neg hn]
        cases e2 : putU cfg 8 ((v.filter fun e => e.sat == s).filter
            fun e => (Sig.toId p.tbl e.band e.attr).isSome).length 5 c1 with
        | ok c2 =>
          rw [e2] at h
          simp only at h ⊢
          have g2 : NoPanic.Good c2 := by
            have := NoPanic.putU_es cfg 8 ((v.filter fun e => e.sat == s).filter
              fun e => (Sig.toId p.tbl e.band e.attr).isSome).length 5 c1 (by decide) (by decide) (by decide)
              (by decide) g1
            rw [e2] at this; exact this.good
          cases e3 : encEntries cfg p (v.filter fun e => e.sat == s) c2 with
          | ok c3 =>
            rw [e3] at h
            simp only at h
            rw [encEntries_norm14 cfg p _ c2 c3 g2 e3]
            simp only
            have g3 : NoPanic.Good c3 := by
              have := NoPanic.encEntries_es cfg p (v.filter fun e => e.sat == s) c2 g2
              rw [e3] at this; exact this.good
            exact ih c3 c' g3 (fun x hx => hv x (List.mem_cons_of_mem _ hx)) h
          | err x => rw [e3] at h; cases h
          | panic w => rw [e3] at h; cases h
        | err x => rw [e2] at h; cases h
        | panic w => rw [e2] at h; cases h
    | err x => rw [e1] at h; cases h
    | panic w => rw [e1] at h; cases h

/-- the regrouped normal form is encoded to the same bits -/
theorem encode_grouped (cfg : Cfg) (p : Params) (h1 : 1 ≤ p.satBits) (h8 : p.satBits ≤ 8) (v : List Entry)
    (c c' : Cur) (hg : NoPanic.Good c) (h : encode cfg p v c = .ok c') :
    encode cfg p (C16.grouped p norm14 v) c = .ok c' := by
  have hf : ∀ e, (norm14 e).sat = e.sat := fun _ => rfl
  unfold encode at h ⊢
  split at h
  · cases h
  · next hcs =>
    simp only [Bool.not_eq_true', Bool.not_eq_false] at hcs
    have hc := (checkSats_iff p v).mp hcs
    rw [checkSats_grouped p norm14 hf v hc]
    simp only [Bool.not_true, Bool.false_eq_true, if_false] at h ⊢
    rw [satsOf_grouped p norm14 hf v hc]
    split at h
    · cases h
    · next hsn =>
      rw [if_neg hsn]
      cases e1 : putU cfg 8 (satsOf p v).length 6 c with
      | ok c1 =>
        rw [e1] at h
        simp only at h ⊢
        have g1 : NoPanic.Good c1 := by
          have := NoPanic.putU_es cfg 8 (satsOf p v).length 6 c (by decide) (by decide) (by decide)
            (by decide) hg
          rw [e1] at this; exact this.good
        exact encSats_norm cfg p h1 h8 v _ _ c1 c' g1
          (fun s hs => grouped_filter p norm14 hf v s hs) h
      | err x => rw [e1] at h; cases h
      | panic w => rw [e1] at h; cases h

/-! ### 1059 / 1065: the decoder (locality, what it returns) -/

/-- one step of `decBiases` after the signal identifier has been read -/
def bStep (cfg : Cfg) (p : Params) (sat n : Nat) (acc : List Entry) (sid : Nat) : Cur → Res (List Entry × Cur) :=
  match Sig.toSig p.tbl sid with
  | some (b, a) => fun c1 =>
    match parseI16 cfg 14 c1 with
    | .ok (sv, c2) =>
      if acc.length ≥ p.cap then .err .capacityExceeded
      else decBiases cfg p sat n
        (acc ++ [{ sat := sat, band := b, attr := a, bias := dequantBias res001 sv }]) c2
    | .err e => .err e
    | .panic w => .panic w
  | none => decBiases cfg p sat n acc

theorem decBiases_local (cfg : Cfg) (p : Params) (sat : Nat) :
    ∀ (n : Nat) (acc : List Entry), LocalG (decBiases cfg p sat n acc) := by
  intro n
  induction n with
  | zero => intro acc; exact localG_pure acc
  | succ n ih =>
    intro acc
    refine (localG_then (d2 := bStep cfg p sat n acc)
      (parseU_localG cfg (w := 8) (len := 5) (by decide) (by decide) (by decide) (by decide)) ?_).congr ?_
    · intro sid
      unfold bStep
      cases Sig.toSig p.tbl sid with
      | none => exact ih acc
      | some ba =>
        obtain ⟨b, a⟩ := ba
        refine (localG_guard (parseI16_localG cfg (len := 14) (by decide) (by decide))
          (fun sv => ih (acc ++ [{ sat := sat, band := b, attr := a, bias := dequantBias res001 sv }]))
          (fun _ => acc.length ≥ p.cap) .capacityExceeded).congr ?_
        intro c
        simp only
        cases parseI16 cfg 14 c with
        | ok r => rfl
        | err e => rfl
        | panic w => rfl
    · intro c
      rw [decBiases]
      cases parseU cfg 8 5 c with
      | ok r =>
        obtain ⟨sid, c1⟩ := r
        simp only [bStep]
        cases Sig.toSig p.tbl sid with
        | none => rfl
        | some ba => obtain ⟨b, a⟩ := ba; rfl
      | err e => rfl
      | panic w => rfl

theorem decSats_local (cfg : Cfg) (p : Params) (h1 : 1 ≤ p.satBits) (h8 : p.satBits ≤ 8) :
    ∀ (n : Nat) (acc : List Entry), LocalG (decSats cfg p n acc) := by
  intro n
  induction n with
  | zero => intro acc; exact localG_pure acc
  | succ n ih =>
    intro acc
    refine (localG_then (parseU_localG cfg (w := 8) (len := p.satBits) (by decide) (by decide) h1 h8)
      (fun sat => localG_then
        (parseU_localG cfg (w := 8) (len := 5) (by decide) (by decide) (by decide) (by decide))
        (fun num => localG_then (decBiases_local cfg p sat num acc) (fun acc' => ih acc')))).congr ?_
    intro c
    rw [decSats]
    cases parseU cfg 8 p.satBits c with
    | ok r =>
      obtain ⟨sat, c1⟩ := r
      simp only
      cases parseU cfg 8 5 c1 with
      | ok r2 =>
        obtain ⟨num, c2⟩ := r2
        simp only
        cases decBiases cfg p sat num acc c2 with
        | ok r3 => rfl
        | err e => rfl
        | panic w => rfl
      | err e => rfl
      | panic w => rfl
    | err e => rfl
    | panic w => rfl

theorem biasDecode_local (cfg : Cfg) (p : Params) (h1 : 1 ≤ p.satBits) (h8 : p.satBits ≤ 8) :
    LocalG (Bias.decode cfg p) := by
  refine (localG_then (parseU_localG cfg (w := 8) (len := 6) (by decide) (by decide) (by decide) (by decide))
    (fun n => decSats_local cfg p h1 h8 n [])).congr ?_
  intro c
  unfold Bias.decode
  cases parseU cfg 8 6 c with
  | ok r => rfl
  | err e => rfl
  | panic w => rfl

/-- an entry as the decoder returns it: recognised signal, bias on the 14-bit grid -/
def DecEntry (p : Params) (e : Entry) : Prop := C16.recognised p e = true ∧ norm14 e = e

theorem toId_isSome_of_toSig {tbl : SigTable} {sid b a : Nat} (h : Sig.toSig tbl sid = some (b, a)) :
    (Sig.toId tbl b a).isSome = true := by
  unfold Sig.toSig at h
  rw [Option.map_eq_some_iff] at h
  obtain ⟨r, hf, hr⟩ := h
  have hm := List.mem_of_find?_eq_some hf
  unfold Sig.toId
  rw [Option.isSome_map, List.find?_isSome]
  refine ⟨r, hm, ?_⟩
  rw [hr]
  simp

theorem parseI16_range14 {cfg : Cfg} {c c' : Cur} {sv : Int} (h : parseI16 cfg 14 c = .ok (sv, c')) :
    -8192 ≤ sv ∧ sv ≤ 8191 := by
  unfold parseI16 at h
  rcases NoPanic.parse_total cfg ⟨.i, 16⟩ c.data c.off 14 (by decide) (by decide) (by decide) (by decide)
    with hp | hp
  · rw [hp] at h; cases h
  · rw [hp] at h
    simp only [Res.ok.injEq, Prod.mk.injEq] at h
    rw [← h.1]
    exact read14_range _ (fieldValue_lt _ _ _)

theorem norm14_dequant (sat b a : Nat) (sv : Int) (h : -8192 ≤ sv ∧ sv ≤ 8191) :
    norm14 { sat := sat, band := b, attr := a, bias := dequantBias res001 sv }
      = { sat := sat, band := b, attr := a, bias := dequantBias res001 sv } := by
  unfold norm14
  simp only
  rw [quant_dequant_14 sv h]
  have h16 : toInt 16 (ofInt 16 sv) = sv := toInt_ofInt_16 sv (by omega)
  rw [wire14_of_fits (ofInt_lt' 16 sv) (by rw [h16]; omega), h16]

theorem decBiases_out (cfg : Cfg) (p : Params) (sat : Nat) : ∀ (n : Nat) (acc : List Entry) (c : Cur)
    (es : List Entry) (c' : Cur), decBiases cfg p sat n acc c = .ok (es, c') →
    (∀ e ∈ acc, DecEntry p e) → ∀ e ∈ es, DecEntry p e := by
  intro n
  induction n with
  | zero =>
    intro acc c es c' h hacc
    simp only [decBiases, Res.ok.injEq, Prod.mk.injEq] at h
    rw [← h.1]; exact hacc
  | succ n ih =>
    intro acc c es c' h hacc
    rw [decBiases] at h
    split at h
    · next sid c1 _ =>
      split at h
      · next b a hsig =>
        split at h
        · next sv c2 e2 =>
          split at h
          · cases h
          · refine ih _ _ _ _ h ?_
            intro e he
            rcases List.mem_append.mp he with he | he
            · exact hacc e he
            · simp only [List.mem_singleton] at he
              subst he
              exact ⟨toId_isSome_of_toSig hsig, norm14_dequant _ _ _ _ (parseI16_range14 e2)⟩
        · cases h
        · cases h
      · exact ih _ _ _ _ h hacc
    · cases h
    · cases h

theorem decSats_out (cfg : Cfg) (p : Params) : ∀ (n : Nat) (acc : List Entry) (c : Cur)
    (es : List Entry) (c' : Cur), decSats cfg p n acc c = .ok (es, c') →
    (∀ e ∈ acc, DecEntry p e) → ∀ e ∈ es, DecEntry p e := by
  intro n
  induction n with
  | zero =>
    intro acc c es c' h hacc
    simp only [decSats, Res.ok.injEq, Prod.mk.injEq] at h
    rw [← h.1]; exact hacc
  | succ n ih =>
    intro acc c es c' h hacc
    rw [decSats] at h
    split at h
    · split at h
      · split at h
        · next acc' c3 hb => exact ih _ _ _ _ h (decBiases_out cfg p _ _ _ _ _ _ hb hacc)
        · cases h
        · cases h
      · cases h
      · cases h
    · cases h
    · cases h

theorem biasDecode_out {cfg : Cfg} {p : Params} {c c' : Cur} {es : List Entry}
    (h : Bias.decode cfg p c = .ok (es, c')) : ∀ e ∈ es, DecEntry p e := by
  unfold Bias.decode at h
  split at h
  · exact decSats_out cfg p _ _ _ _ _ h (fun _ h => by cases h)
  · cases h
  · cases h

/-! ### 1059 / 1065: the law -/

/-- clean input of a 1059/1065 list: every entry's signal is in the table -/
def CleanBias (p : Params) (ts : List Tok) : Prop :=
  ∀ n rest es r, ts = .count n :: rest → takeBias true n rest = some (es, r) →
    ∀ e ∈ es, C16.recognised p e = true

/-- the decoded list comes back regrouped by ascending satellite -/
def RelBias (p : Params) (t0 nt : List Tok) : Prop :=
  ∃ es, t0 = biasToks true es ∧ nt = biasToks true (C16.grouped p id es)

/-- the 1059/1065 fragment encoder, generic in the parameters -/
def biasE (cfg : Cfg) (p : Params) : Enc := fun ts c =>
  match ts with
  | .count n :: rest =>
    if n > p.cap then .panic "tokens: list longer than capacity"
    else match takeBias true n rest with
      | some (es, rest') => lift (Bias.encode cfg p es c) fun c' => .ok (c', rest')
      | none => .panic "tokens: bias entries expected"
  | _ => .panic "tokens: count expected"

def biasD (cfg : Cfg) (p : Params) : Dec := fun c =>
  match Bias.decode cfg p c with
  | .ok (es, c') => .ok (biasToks true es, c')
  | .err e => .err e
  | .panic w => .panic w

theorem biasD_local (cfg : Cfg) (p : Params) (h1 : 1 ≤ p.satBits) (h8 : p.satBits ≤ 8) :
    Local (biasD cfg p) := by
  refine (localG_map (biasDecode_local cfg p h1 h8) (biasToks true)).congr ?_
  intro c
  unfold biasD
  cases Bias.decode cfg p c with
  | ok r => rfl
  | err e => rfl
  | panic w => rfl

theorem bias_law (cfg : Cfg) (p : Params) (hp : ParamsOk p) :
    LawX (biasE cfg p) (biasD cfg p) (fun _ => True) (CleanBias p) (RelBias p) := by
  intro ts c c' rest hgood hfit _ hok hC h
  clear hok
  unfold biasE at h
  split at h
  · next n rest0 =>
    split at h
    · cases h
    · next hn =>
      split at h
      · next es rest' et =>
        obtain ⟨c2, henc, hk⟩ := lift_ok h
        simp only [Res.ok.injEq, Prod.mk.injEq] at hk
        obtain ⟨rfl, rfl⟩ := hk
        obtain ⟨hl, ⟨pre, hpre⟩, _⟩ := takeBias_spec true _ _ _ _ et
        have hrec := hC n rest0 es rest' rfl et
        obtain ⟨hdec, hperm, _, hext⟩ := C16.bias_encode_ok_decodes_same_multiset cfg p hp es hrec
          (by omega) c c2 hgood henc
        have hlen : (C16.grouped p norm14 es).length = es.length := by
          rw [hperm.length_eq, List.length_map]
        refine ⟨⟨.count n :: pre, by rw [hpre]; rfl⟩, ext_of_curExt hext,
          biasToks true (C16.grouped p norm14 es), ?_, ?_, ?_⟩
        · unfold biasD
          have e : ({ data := c2.data, off := c.off } : Cur) = { c2 with off := c.off } := rfl
          rw [e, hdec]
        · intro rest''
          rw [biasToks_eq, List.cons_append]
          unfold biasE
          simp only
          rw [hlen, hl, if_neg hn]
          have := takeBias_entryToks true (C16.grouped p norm14 es) rest'' (fun h => by cases h)
          rw [hlen, hl] at this
          rw [this]
          simp only
          rw [encode_grouped cfg p hp.satBits1 hp.satBits8 es c c2 hgood henc]
          rfl
        · intro c0 t0 c0' r h0 hts
          unfold biasD at h0
          split at h0
          · next es0 cc e0 =>
            simp only [Res.ok.injEq, Prod.mk.injEq] at h0
            obtain ⟨rfl, _⟩ := h0
            have hout := biasDecode_out e0
            rw [biasToks_eq, List.cons_append] at hts
            simp only [List.cons.injEq, Tok.count.injEq] at hts
            obtain ⟨rfl, rfl⟩ := hts
            rw [takeBias_entryToks true es0 r (fun h => by cases h)] at et
            simp only [Option.some.injEq, Prod.mk.injEq] at et
            obtain ⟨rfl, rfl⟩ := et
            refine ⟨⟨es0, rfl, ?_⟩, rfl⟩
            rw [C16.grouped_congr p norm14 id es0 (fun e he => (hout e he).2)]
          · cases h0
          · cases h0
      · cases h
  · cases h

/-- what the 1059/1065 decoder returns is clean -/
theorem cleanBias_of_decoded {cfg : Cfg} {p : Params} {c0 c0' : Cur} {t0 : List Tok}
    (h : biasD cfg p c0 = .ok (t0, c0')) : CleanBias p t0 := by
  unfold biasD at h
  split at h
  · next es0 cc e0 =>
    simp only [Res.ok.injEq, Prod.mk.injEq] at h
    obtain ⟨rfl, _⟩ := h
    have hout := biasDecode_out e0
    intro n rest es r hts et
    rw [biasToks_eq] at hts
    simp only [List.cons.injEq, Tok.count.injEq] at hts
    obtain ⟨rfl, rfl⟩ := hts
    have := takeBias_entryToks true es0 [] (fun h => by cases h)
    rw [List.append_nil] at this
    rw [this] at et
    simp only [Option.some.injEq, Prod.mk.injEq] at et
    obtain ⟨rfl, _⟩ := et
    exact fun e he => (hout e he).1
  · cases h
  · cases h

theorem frag1059_E (cfg : Cfg) (glo : SigTable) (cap : Nat) (tbl : SigTable) (ts : List Tok) (c : Cur) :
    encFrag cfg glo (.bias1059 cap tbl) ts c = biasE cfg (params1059 cap tbl) ts c := by
  unfold encFrag biasE
  cases ts with
  | nil => rfl
  | cons t rest =>
    cases t with
    | count n =>
      simp only
      by_cases hn : n > cap
      · rw [if_pos hn, if_pos (show n > (params1059 cap tbl).cap from hn)]
      · rw [if_neg hn, if_neg (show ¬ n > (params1059 cap tbl).cap from hn)]
        cases takeBias true n rest with
        | none => rfl
        | some r => rfl
    | _ => rfl
theorem frag1059_D (cfg : Cfg) (cap : Nat) (tbl : SigTable) (c : Cur) :
    decFrag cfg (.bias1059 cap tbl) c = biasD cfg (params1059 cap tbl) c := by
  rw [decFrag]; rfl
theorem frag1065_E (cfg : Cfg) (glo : SigTable) (cap : Nat) (tbl : SigTable) (ts : List Tok) (c : Cur) :
    encFrag cfg glo (.bias1065 cap tbl) ts c = biasE cfg (params1065 cap tbl) ts c := by
  unfold encFrag biasE
  cases ts with
  | nil => rfl
  | cons t rest =>
    cases t with
    | count n =>
      simp only
      by_cases hn : n > cap
      · rw [if_pos hn, if_pos (show n > (params1065 cap tbl).cap from hn)]
      · rw [if_neg hn, if_neg (show ¬ n > (params1065 cap tbl).cap from hn)]
        cases takeBias true n rest with
        | none => rfl
        | some r => rfl
    | _ => rfl
theorem frag1065_D (cfg : Cfg) (cap : Nat) (tbl : SigTable) (c : Cur) :
    decFrag cfg (.bias1065 cap tbl) c = biasD cfg (params1065 cap tbl) c := by
  rw [decFrag]; rfl

/-! ### 1059 / 1065 without the clean-input hypothesis: unrecognised signals are dropped -/

/-- the entry's signal is in the table (the test `encEntries` makes) -/
abbrev recg (p : Params) (e : Entry) : Bool := (Sig.toId p.tbl e.band e.attr).isSome

theorem encEntries_filter (cfg : Cfg) (p : Params) : ∀ (es : List Entry) (c : Cur),
    encEntries cfg p es c = encEntries cfg p (es.filter (recg p)) c := by
  intro es
  induction es with
  | nil => intro c; rfl
  | cons e es ih =>
    intro c
    cases hsid : Sig.toId p.tbl e.band e.attr with
    | none =>
      have hr : recg p e = false := by simp [recg, hsid]
      rw [List.filter_cons_of_neg (by simp [hr])]
      simp only [encEntries, hsid]
      exact ih c
    | some sid =>
      have hr : recg p e = true := by simp [recg, hsid]
      rw [List.filter_cons_of_pos hr]
      simp only [encEntries, hsid]
      cases putU cfg 8 sid 5 c with
      | ok c1 =>
        simp only
        cases putI16 cfg (quantBias res001 e.bias) 14 c1 with
        | ok c2 => exact ih c2
        | err x => rfl
        | panic w => rfl
      | err x => rfl
      | panic w => rfl

theorem encSats_filter (cfg : Cfg) (p : Params) (v : List Entry) : ∀ (ss : List Nat) (c : Cur),
    encSats cfg p v ss c = encSats cfg p (v.filter (recg p)) ss c := by
  intro ss
  induction ss with
  | nil => intro c; rfl
  | cons s ss ih =>
    intro c
    have hm : (v.filter (recg p)).filter (fun e => e.sat == s)
        = (v.filter fun e => e.sat == s).filter (recg p) := by
      rw [List.filter_filter, List.filter_filter]
      apply List.filter_congr
      intro e _
      exact Bool.and_comm _ _
    have hnum : ((v.filter (recg p)).filter fun e => e.sat == s).filter
          (fun e => (Sig.toId p.tbl e.band e.attr).isSome)
        = (v.filter fun e => e.sat == s).filter fun e => (Sig.toId p.tbl e.band e.attr).isSome := by
      rw [hm, List.filter_filter]
      apply List.filter_congr
      intro e _
      exact Bool.and_self _
    have henc : ∀ c2, encEntries cfg p ((v.filter (recg p)).filter fun e => e.sat == s) c2
        = encEntries cfg p (v.filter fun e => e.sat == s) c2 := by
      intro c2
      rw [hm, ← encEntries_filter]
    rw [encSats, encSats]
    simp only [hnum, henc]
    cases putU cfg 8 s p.satBits c with
    | ok c1 =>
      simp only
      split
      · rfl
      · cases putU cfg 8 ((v.filter fun e => e.sat == s).filter
            fun e => (Sig.toId p.tbl e.band e.attr).isSome).length 5 c1 with
        | ok c2 =>
          simp only
          cases encEntries cfg p (v.filter fun e => e.sat == s) c2 with
          | ok c3 => exact ih c3
          | err x => rfl
          | panic w => rfl
        | err x => rfl
        | panic w => rfl
    | err x => rfl
    | panic w => rfl

/-- what comes back from a 1059/1065 frame, whatever the input: per ascending satellite, the recognised
entries in their order, on the 14-bit grid -/
def backList (p : Params) (v : List Entry) : List Entry :=
  (satsOf p v).flatMap fun s => ((v.filter (recg p)).filter fun e => e.sat == s).map norm14

theorem encode_decode_any (cfg : Cfg) (p : Params) (hp : ParamsOk p) (v : List Entry)
    (hcap : v.length ≤ p.cap) (c c' : Cur) (hg : Good c) (h : encode cfg p v c = .ok c') :
    Ext c c' ∧ decode cfg p ⟨c'.data, c.off⟩ = .ok (backList p v, c') := by
  unfold encode at h
  split at h
  · cases h
  · next hcs =>
    simp only [Bool.not_eq_true', Bool.not_eq_false] at hcs
    dsimp only at h
    split at h
    · cases h
    · next hsn =>
      have hlt := satsOf_length_lt p hp v hsn
      cases h1 : putU cfg 8 (satsOf p v).length 6 c with
      | err x => rw [h1] at h; cases h
      | panic x => rw [h1] at h; cases h
      | ok c1 =>
        rw [h1] at h
        simp only at h
        obtain ⟨e1, o1, r1⟩ := putU_law cfg (len := 6) (by decide) (by decide) hg hlt h1
        rw [encSats_filter] at h
        obtain ⟨e2, r2⟩ := encSats_law cfg p hp (v.filter (recg p))
          (fun e he => (List.mem_filter.mp he).2) (satsOf p v) c1 c' e1.good e1.fit
          (fun s hs => Nat.lt_of_le_of_lt ((mem_satsOf p v s).mp hs).1 hp.maxSat) h
        refine ⟨e1.trans e2, ?_⟩
        unfold decode
        rw [r1 c'.data e2.len (e2.agree_left (AgreeOn.rfl' _ _ _))]
        simp only
        have hlen : ((satsOf p v).flatMap fun s => (v.filter (recg p)).filter fun e => e.sat == s).length
            ≤ p.cap := by
          have h1 := (flatMap_filter_perm (v.filter (recg p)) (satsOf p v) (satsOf_nodup p v)).length_eq
          rw [h1]
          exact Nat.le_trans (List.length_filter_le _ _) (Nat.le_trans (List.length_filter_le _ _) hcap)
        have := r2 c'.data [] rfl ((AgreeOn.rfl' c'.data c.off c'.off).mono e1.le (Nat.le_refl _))
          (by simp only [List.length_nil]; omega)
        rw [this]
        simp [backList]

/-- a list laid out per ascending satellite is its own regrouping -/
theorem grouped_backList (p : Params) (v : List Entry) (hc : ∀ e ∈ v, e.sat ≤ p.maxSat) :
    C16.grouped p id (backList p v) = backList p v := by
  -- abbreviations
  have hX : ∀ s, ∀ e ∈ ((v.filter (recg p)).filter fun e => e.sat == s).map norm14, e.sat = s := by
    intro s e he
    obtain ⟨x, hx, rfl⟩ := List.mem_map.mp he
    have := (List.mem_filter.mp hx).2
    show x.sat = s
    simpa using this
  have hmemL : ∀ e, e ∈ backList p v ↔ ∃ s ∈ satsOf p v,
      e ∈ ((v.filter (recg p)).filter fun e => e.sat == s).map norm14 := by
    intro e; unfold backList; rw [List.mem_flatMap]
  -- satellites of the laid-out list
  have hsub : ∀ s, s ∈ satsOf p (backList p v) ↔
      s ∈ satsOf p v ∧ ((v.filter (recg p)).filter fun e => e.sat == s).map norm14 ≠ [] := by
    intro s
    rw [mem_satsOf]
    constructor
    · rintro ⟨_, e, he, hes⟩
      obtain ⟨s', hs', he'⟩ := (hmemL e).mp he
      have := hX s' e he'
      rw [hes] at this
      subst this
      exact ⟨hs', List.ne_nil_of_mem he'⟩
    · rintro ⟨hs, hne⟩
      obtain ⟨e, he⟩ := List.exists_mem_of_ne_nil _ hne
      exact ⟨((mem_satsOf p v s).mp hs).1, e, (hmemL e).mpr ⟨s, hs, he⟩, hX s e he⟩
  have hfil : ∀ s ∈ satsOf p v, (backList p v).filter (fun e => e.sat == s)
      = ((v.filter (recg p)).filter fun e => e.sat == s).map norm14 := by
    intro s hs
    unfold backList
    rw [List.filter_flatMap, flatMap_single (satsOf p v) (satsOf_nodup p v) s hs]
    · rw [List.filter_eq_self]
      intro e he
      simpa using hX s e he
    · intro a _ hne
      rw [List.filter_eq_nil_iff]
      intro e he
      have := hX a e he
      simp only [beq_iff_eq]
      rw [this]; exact hne
  have hsats : satsOf p (backList p v) = (satsOf p v).filter
      (fun s => !(((v.filter (recg p)).filter fun e => e.sat == s).map norm14).isEmpty) := by
    apply List.Perm.eq_of_pairwise (le := (· < ·))
    · intro a b _ _ h1 h2; omega
    · exact List.Pairwise.sublist List.filter_sublist List.pairwise_lt_range
    · exact List.Pairwise.sublist List.filter_sublist
        (List.Pairwise.sublist List.filter_sublist List.pairwise_lt_range)
    · rw [List.perm_ext_iff_of_nodup (satsOf_nodup p _) ((satsOf_nodup p v).sublist List.filter_sublist)]
      intro s
      rw [hsub s, List.mem_filter]
      simp [List.isEmpty_iff]
  unfold C16.grouped
  rw [hsats]
  have hid : ∀ l : List Entry, l.map id = l := List.map_id
  simp only [hid]
  -- regrouping the satellites that have entries, then dropping the empty groups, is the same list
  have : ∀ (l : List Nat), (∀ s ∈ l, s ∈ satsOf p v) →
      (l.filter (fun s => !(((v.filter (recg p)).filter fun e => e.sat == s).map norm14).isEmpty)).flatMap
        (fun s => (backList p v).filter fun e => e.sat == s)
      = l.flatMap fun s => ((v.filter (recg p)).filter fun e => e.sat == s).map norm14 := by
    intro l
    induction l with
    | nil => intro _; rfl
    | cons s l ih =>
      intro hl
      have ih' := ih (fun x hx => hl x (List.mem_cons_of_mem _ hx))
      cases hE : (((v.filter (recg p)).filter fun e => e.sat == s).map norm14).isEmpty with
      | true =>
        rw [List.filter_cons_of_neg (by rw [hE]; decide), List.flatMap_cons, ih']
        rw [List.isEmpty_iff] at hE
        rw [hE, List.nil_append]
      | false =>
        rw [List.filter_cons_of_pos (by rw [hE]; decide), List.flatMap_cons, List.flatMap_cons, ih',
          hfil s (hl s (List.mem_cons_self ..))]
  exact this (satsOf p v) (fun _ h => h)

/-- the tokens a 1059/1065 frame decodes to carry a list that is its own regrouping -/
def QBias (p : Params) (nt : List Tok) : Prop := ∃ L, nt = biasToks true L ∧ C16.grouped p id L = L

theorem bias_lawW (cfg : Cfg) (p : Params) (hp : ParamsOk p) :
    LawW (biasE cfg p) (biasD cfg p) (fun _ => True) (QBias p) := by
  intro ts c c' rest hgood hfit _ h
  unfold biasE at h
  split at h
  · next n rest0 =>
    split at h
    · cases h
    · next hn =>
      split at h
      · next es rest' et =>
        obtain ⟨c2, henc, hk⟩ := lift_ok h
        simp only [Res.ok.injEq, Prod.mk.injEq] at hk
        obtain ⟨rfl, rfl⟩ := hk
        obtain ⟨hl, _, _⟩ := takeBias_spec true _ _ _ _ et
        obtain ⟨hext, hdec⟩ := encode_decode_any cfg p hp es (by omega) c c2 hgood henc
        obtain ⟨hsat, _, _⟩ := C16.bias_no_silent_loss cfg p hp.satNum es c c2 henc
        refine ⟨ext_of_curExt hext, biasToks true (backList p es), c2, ?_, rfl, Nat.le_refl _,
          ⟨backList p es, rfl, grouped_backList p es hsat⟩⟩
        unfold biasD
        rw [hdec]
      · cases h
  · cases h

/-! ### 1230 without the clean-input hypothesis: the decoder still accepts the frame -/

theorem enc1230Biases_ext (cfg : Cfg) : ∀ (l : List Entry) (c c' : Cur), NoPanic.Good c →
    enc1230Biases cfg l c = .ok c' → NoPanic.Ext c c' ∧ c'.off = c.off + 16 * l.length := by
  intro l
  induction l with
  | nil =>
    intro c c' hg h
    simp only [enc1230Biases, Res.ok.injEq] at h
    subst h
    exact ⟨NoPanic.Ext.refl hg, by simp⟩
  | cons e es ih =>
    intro c c' hg h
    rw [enc1230Biases] at h
    split at h
    · next c1 e1 =>
      rw [putI16_eq] at e1
      obtain ⟨x1, o1, _⟩ := putF_law cfg ⟨.i, 16⟩ (by decide) (by decide) (by decide) (by decide) hg
        (quantBias_lt _ _) e1
      obtain ⟨x2, o2⟩ := ih c1 c' x1.good h
      exact ⟨(ext_of_curExt x1).trans x2, by rw [o2, o1, List.length_cons]; omega⟩
    · cases h
    · cases h

/-- number of mask positions set -/
def cnt1230 (mask : Nat) (T : List ((Nat × Nat) × Nat)) : Nat := (T.filter fun r => mask &&& r.2 != 0).length

theorem dec1230Loop_total (cfg : Cfg) (mask : Nat) : ∀ (T : List ((Nat × Nat) × Nat)) (D : List Nat) (o : Nat),
    o + 16 * cnt1230 mask T ≤ 8 * D.length →
    ∃ es, dec1230Loop cfg mask T ⟨D, o⟩ = .ok (es, ⟨D, o + 16 * cnt1230 mask T⟩) := by
  intro T
  induction T with
  | nil => intro D o _; exact ⟨[], by simp [dec1230Loop, cnt1230]⟩
  | cons r T ih =>
    intro D o hroom
    obtain ⟨⟨b, a⟩, bit⟩ := r
    rw [dec1230Loop]
    by_cases hb : mask &&& bit ≠ 0
    · have hc : cnt1230 mask (((b, a), bit) :: T) = cnt1230 mask T + 1 := by
        unfold cnt1230
        rw [List.filter_cons_of_pos (by simpa using hb)]
        simp
      rw [hc] at hroom ⊢
      rw [if_pos hb]
      have hp := parseF_at cfg ⟨.i, 16⟩ (by decide) (by decide) (len := 16) (by decide) (by decide) D o
        (by omega)
      rw [parseI16_of_parseF hp]
      simp only
      obtain ⟨es, he⟩ := ih D (o + 16) (by omega)
      rw [he]
      exact ⟨_, by simp only [Res.ok.injEq, Prod.mk.injEq, Cur.mk.injEq, true_and]; exact ⟨rfl, by omega⟩⟩
    · have hc : cnt1230 mask (((b, a), bit) :: T) = cnt1230 mask T := by
        unfold cnt1230
        rw [List.filter_cons_of_neg (by simpa using hb)]
      rw [hc] at hroom ⊢
      rw [if_neg hb]
      exact ih D o hroom

theorem cnt1230_le (l : List Entry) (m : Nat) (hm : mask1230 l = .ok m) : cnt1230 m gloTable1230 ≤ l.length := by
  obtain ⟨_, hbits⟩ := mask1230_spec l m hm
  unfold cnt1230
  have h1 : (gloTable1230.filter fun r => m &&& r.2 != 0).length
      = ((gloTable1230.filter fun r => m &&& r.2 != 0).map (·.1)).length := by simp
  rw [h1]
  have hnd : ((gloTable1230.filter fun r => m &&& r.2 != 0).map (·.1)).Nodup :=
    (List.Nodup.sublist (List.Sublist.map _ List.filter_sublist) (by decide : (gloTable1230.map (·.1)).Nodup))
  have hsub : ((gloTable1230.filter fun r => m &&& r.2 != 0).map (·.1)) ⊆ l.map key := by
    intro k hk
    obtain ⟨r, hr, rfl⟩ := List.mem_map.mp hk
    obtain ⟨hr1, hr2⟩ := List.mem_filter.mp hr
    exact (hbits r hr1).mp (by simpa using hr2)
  have := (List.subperm_of_subset hnd hsub).length_le
  simpa using this

theorem bias1230_lawW (cfg : Cfg) (glo : SigTable) :
    LawW (encFrag cfg glo .bias1230) (decFrag cfg .bias1230) (fun _ => True) (fun _ => True) := by
  intro ts c c' rest hgood hfit _ h
  have hext : NoPanic.Ext c c' := by
    have := NoPanic.encFrag_es cfg glo .bias1230 (by unfold WFFrag; rfl) ts c hgood
    rw [h] at this
    exact this
  refine ⟨hext, ?_⟩
  unfold encFrag at h
  split at h
  · next n rest0 =>
    split at h
    · cases h
    · split at h
      · next es rest' et =>
        obtain ⟨c2, henc, hk⟩ := lift_ok h
        simp only [Res.ok.injEq, Prod.mk.injEq] at hk
        obtain ⟨rfl, rfl⟩ := hk
        unfold encode1230 at henc
        dsimp only at henc
        split at henc
        · cases henc
        · split at henc
          · next m hm =>
            split at henc
            · next c1 e1 =>
              obtain ⟨hm16, _⟩ := mask1230_spec _ m hm
              obtain ⟨x2, o2⟩ := enc1230Biases_ext cfg _ c1 c2
                (by
                  have := NoPanic.putU_es cfg 8 m 4 c (by decide) (by decide) (by decide) (by decide) hgood
                  rw [e1] at this; exact this.good) henc
              obtain ⟨x1, p1⟩ := MsmCodec.putU_read cfg (w := 8) (len := 4) (by decide) (by decide) (by decide)
                (by decide) hm16 hgood e1 x2
              have hcnt := cnt1230_le _ m hm
              have hfit2 := x2.fit (x1.fit hfit)
              obtain ⟨out, hd⟩ := dec1230Loop_total cfg m gloTable1230 c2.data c1.off (by omega)
              refine ⟨biasToks false out, ⟨c2.data, c1.off + 16 * cnt1230 m gloTable1230⟩, ?_, rfl,
                by simp only; omega, trivial⟩
              rw [decFrag]
              unfold decode1230
              rw [p1]
              simp only
              rw [hd]
            · cases henc
            · cases henc
          · cases henc
          · cases henc
      · cases h
  · cases h

theorem entryToks_inj : ∀ (L es : List Entry), entryToks true L = entryToks true es → L = es := by
  intro L
  induction L with
  | nil =>
    intro es h
    cases es with
    | nil => rfl
    | cons e es => simp [entryToks] at h
  | cons a L ih =>
    intro es h
    cases es with
    | nil => simp [entryToks] at h
    | cons e es =>
      simp only [entryToks, List.flatMap_cons, if_true, List.cons_append, List.nil_append,
        List.cons.injEq, Tok.int.injEq, Tok.sig.injEq, Tok.flt.injEq, Int.natCast_inj] at h
      obtain ⟨h1, ⟨h2, h3⟩, h4, h5⟩ := h
      have := ih es (by simpa [entryToks] using h5)
      subst this
      cases a; cases e
      simp only at h1 h2 h3 h4
      subst h1 h2 h3 h4
      rfl

/-- a decoded 1059/1065 message whose bias list is its own regrouping comes back unchanged -/
theorem regroup_fixed (p : Params) {nt toks' : List Tok} (hq : QDfs (QBias p) nt)
    (hr : RelDfs (RelBias p) nt toks') : toks' = nt := by
  obtain ⟨hdr, tl, hnc, rfl, L, rfl, hL⟩ := hq
  obtain ⟨hdr2, tl2, tl2', hnc2, e1, rfl, es, rfl, rfl⟩ := hr
  rw [biasToks_eq, biasToks_eq] at e1
  obtain ⟨rfl, hlen, hent⟩ := split_at_count hdr hdr2 _ _ _ _ hnc hnc2 e1
  have := entryToks_inj L es hent
  subst this
  rw [hL]

/-! ### sufficient conditions for the clean-input predicates -/

theorem cleanBias_biasToks (p : Params) (es : List Entry) (h : ∀ e ∈ es, C16.recognised p e = true) :
    CleanBias p (biasToks true es) := by
  intro n rest es' r hts et
  rw [biasToks_eq] at hts
  simp only [List.cons.injEq, Tok.count.injEq] at hts
  obtain ⟨rfl, rfl⟩ := hts
  have := takeBias_entryToks true es [] (fun h => by cases h)
  rw [List.append_nil] at this
  rw [this] at et
  simp only [Option.some.injEq, Prod.mk.injEq] at et
  rw [← et.1]; exact h

theorem clean1230_biasToks (es : List Entry) (hs : ∀ e ∈ es, e.sat = 0) (hnd : (es.map key).Nodup) :
    Clean1230 (biasToks false es) := by
  intro n rest es' r hts et
  rw [biasToks_eq] at hts
  simp only [List.cons.injEq, Tok.count.injEq] at hts
  obtain ⟨rfl, rfl⟩ := hts
  have := takeBias_entryToks false es [] (fun _ => hs)
  rw [List.append_nil] at this
  rw [this] at et
  simp only [Option.some.injEq, Prod.mk.injEq] at et
  rw [← et.1]; exact hnd

end Rtcm.BiasCodec
