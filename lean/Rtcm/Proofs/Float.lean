import Rtcm.Model.SoftFloat
import Mathlib.Data.Rat.Floor
import Mathlib.Algebra.Order.Floor.Ring
import Mathlib.Algebra.Order.Field.Power
import Mathlib.Tactic.Linarith
import Mathlib.Tactic.NormNum
import Mathlib.Tactic.Positivity
import Mathlib.Tactic.FieldSimp
import Mathlib.Tactic.Ring
import Mathlib.Tactic.Push
/-!
# Facts about the soft-float model (`Rtcm.SoftFloat`): powers of two, `ilog2`, `rneInt`,
`roundMag`, `round`: absolute / relative error, exactness on representable values, sign symmetry.
-/
namespace Rtcm.SoftFloat

/-! ### `pow2` -/

theorem pow2_eq (e : Int) : pow2 e = (2 : ℚ) ^ e := by
  unfold pow2
  split
  · next h =>
    obtain ⟨n, rfl⟩ := Int.eq_ofNat_of_zero_le h
    simp
  · next h =>
    obtain ⟨n, hn⟩ : ∃ n : Nat, e = -(n : Int) := ⟨(-e).toNat, by omega⟩
    subst hn
    simp [zpow_neg]

theorem pow2_pos (e : Int) : 0 < pow2 e := by rw [pow2_eq]; positivity

theorem pow2_ne (e : Int) : pow2 e ≠ 0 := (pow2_pos e).ne'

theorem pow2_add (a b : Int) : pow2 (a + b) = pow2 a * pow2 b := by
  simp only [pow2_eq]; exact zpow_add₀ (by norm_num) a b

theorem pow2_sub (a b : Int) : pow2 (a - b) = pow2 a / pow2 b := by
  simp only [pow2_eq]; exact zpow_sub₀ (by norm_num) a b

theorem pow2_zero : pow2 0 = 1 := by simp [pow2_eq]

theorem pow2_one : pow2 1 = 2 := by simp [pow2_eq]

theorem pow2_neg_one : pow2 (-1) = 1 / 2 := by simp [pow2_eq]

theorem pow2_natCast (n : Nat) : pow2 (n : Int) = (2 : ℚ) ^ n := by
  rw [pow2_eq, zpow_natCast]

theorem pow2_neg (a : Int) : pow2 (-a) = 1 / pow2 a := by
  simp only [pow2_eq, zpow_neg, one_div]

theorem pow2_le_pow2 {a b : Int} (h : a ≤ b) : pow2 a ≤ pow2 b := by
  simp only [pow2_eq]; exact zpow_le_zpow_right₀ (by norm_num) h

theorem pow2_lt_pow2 {a b : Int} (h : a < b) : pow2 a < pow2 b := by
  simp only [pow2_eq]; exact zpow_lt_zpow_right₀ (by norm_num) h

theorem pow2_lt_pow2_iff {a b : Int} : pow2 a < pow2 b ↔ a < b := by
  constructor
  · intro h
    by_contra hc
    exact absurd (pow2_le_pow2 (not_lt.mp hc)) (not_le.mpr h)
  · exact pow2_lt_pow2

theorem pow2_le_pow2_iff {a b : Int} : pow2 a ≤ pow2 b ↔ a ≤ b := by
  constructor
  · intro h
    by_contra hc
    exact absurd (pow2_lt_pow2 (not_le.mp hc)) (not_lt.mpr h)
  · exact pow2_le_pow2

theorem pow2_succ (a : Int) : pow2 (a + 1) = 2 * pow2 a := by
  rw [pow2_add, pow2_one]; ring

/-! ### `ilog2` -/

private theorem rat_eq_toNat_div (x : ℚ) (hx : 0 < x) : x = (x.num.toNat : ℚ) / (x.den : ℚ) := by
  have hn : 0 < x.num := Rat.num_pos.mpr hx
  conv_lhs => rw [← Rat.num_div_den x]
  congr 1
  have : (x.num.toNat : Int) = x.num := Int.toNat_of_nonneg hn.le
  exact_mod_cast this.symm

theorem pow2_ilog2_le (x : ℚ) (hx : 0 < x) : pow2 (ilog2 x) ≤ x := by
  unfold ilog2
  simp only
  split
  · have hn : 0 < x.num := Rat.num_pos.mpr hx
    have hn' : x.num.toNat ≠ 0 := by omega
    have h1 : 2 ^ Nat.log2 x.num.toNat ≤ x.num.toNat := Nat.log2_self_le hn'
    have h2 : x.den < 2 ^ (Nat.log2 x.den + 1) := Nat.lt_log2_self
    rw [pow2_eq]
    have hx' := rat_eq_toNat_div x hx
    set a := Nat.log2 x.num.toNat
    set b := Nat.log2 x.den
    have hd : (0:ℚ) < x.den := by exact_mod_cast x.den_pos
    rw [hx', le_div_iff₀ hd]
    have : ((a:Int) - (b:Int) - 1) = (a:Int) - ((b:Int) + 1) := by ring
    rw [this, zpow_sub₀ (by norm_num : (2:ℚ) ≠ 0)]
    have hb : (0:ℚ) < 2 ^ ((b:Int)+1) := by positivity
    rw [div_mul_eq_mul_div, div_le_iff₀ hb]
    have h1' : ((2:ℚ)^(a:Int)) ≤ x.num.toNat := by
      rw [zpow_natCast]; exact_mod_cast h1
    have h2' : (x.den:ℚ) ≤ 2^((b:Int)+1) := by
      have : ((b:Int)+1) = ((b+1 : Nat) : Int) := by push_cast; ring
      rw [this, zpow_natCast]; exact_mod_cast h2.le
    have hpos : (0:ℚ) ≤ 2^(a:Int) := by positivity
    calc (2:ℚ)^(a:Int) * x.den ≤ (2:ℚ)^(a:Int) * 2^((b:Int)+1) := by gcongr
      _ ≤ x.num.toNat * 2^((b:Int)+1) := by gcongr
  · next h => exact not_lt.mp h

theorem lt_pow2_ilog2_succ (x : ℚ) (hx : 0 < x) : x < pow2 (ilog2 x + 1) := by
  unfold ilog2
  simp only
  split
  · next h => simpa using h
  · have hn : 0 < x.num := Rat.num_pos.mpr hx
    have h1 : x.num.toNat < 2 ^ (Nat.log2 x.num.toNat + 1) := Nat.lt_log2_self
    have h2 : 2 ^ Nat.log2 x.den ≤ x.den := Nat.log2_self_le x.den_pos.ne'
    rw [pow2_eq]
    have hx' := rat_eq_toNat_div x hx
    set a := Nat.log2 x.num.toNat
    set b := Nat.log2 x.den
    have hd : (0:ℚ) < x.den := by exact_mod_cast x.den_pos
    rw [hx', div_lt_iff₀ hd]
    have : ((a:Int) - (b:Int) + 1) = ((a:Int) + 1) - (b:Int) := by ring
    rw [this, zpow_sub₀ (by norm_num : (2:ℚ) ≠ 0)]
    have hb : (0:ℚ) < 2 ^ (b:Int) := by positivity
    rw [div_mul_eq_mul_div, lt_div_iff₀ hb]
    have h1' : (x.num.toNat : ℚ) < (2:ℚ)^((a:Int)+1) := by
      have : ((a:Int)+1) = ((a+1 : Nat) : Int) := by push_cast; ring
      rw [this, zpow_natCast]; exact_mod_cast h1
    have h2' : (2:ℚ)^(b:Int) ≤ x.den := by
      rw [zpow_natCast]; exact_mod_cast h2
    have hpos : (0:ℚ) < 2^((a:Int)+1) := by positivity
    calc (x.num.toNat : ℚ) * 2^(b:Int) < (2:ℚ)^((a:Int)+1) * 2^(b:Int) := by gcongr
      _ ≤ (2:ℚ)^((a:Int)+1) * x.den := by gcongr

/-- `ilog2` is characterised by its bracketing property -/
theorem ilog2_eq_of_bracket (x : ℚ) (e : Int) (h1 : pow2 e ≤ x) (h2 : x < pow2 (e + 1)) :
    ilog2 x = e := by
  have hx : 0 < x := lt_of_lt_of_le (pow2_pos e) h1
  have a1 := pow2_ilog2_le x hx
  have a2 := lt_pow2_ilog2_succ x hx
  have b1 : e < ilog2 x + 1 := pow2_lt_pow2_iff.mp (lt_of_le_of_lt h1 a2)
  have b2 : ilog2 x < e + 1 := pow2_lt_pow2_iff.mp (lt_of_le_of_lt a1 h2)
  omega

theorem ilog2_mono {x y : ℚ} (hx : 0 < x) (hxy : x ≤ y) : ilog2 x ≤ ilog2 y := by
  have hy : 0 < y := lt_of_lt_of_le hx hxy
  have a1 := pow2_ilog2_le x hx
  have a2 := lt_pow2_ilog2_succ y hy
  have : ilog2 x < ilog2 y + 1 := pow2_lt_pow2_iff.mp (lt_of_le_of_lt (le_trans a1 hxy) a2)
  omega

/-! ### `rneInt` -/

theorem floor_le' (q : ℚ) : (q.floor : ℚ) ≤ q := Int.floor_le q
theorem lt_floor_add_one' (q : ℚ) : q < (q.floor : ℚ) + 1 := Int.lt_floor_add_one q

theorem rneInt_err (q : ℚ) : |(rneInt q : ℚ) - q| ≤ 1 / 2 := by
  unfold rneInt
  simp only
  have hfl := floor_le' q
  have hfl2 := lt_floor_add_one' q
  split_ifs with h1 h2 h3
  · rw [abs_le]; constructor <;> linarith
  · rw [abs_le]; constructor <;> push_cast <;> linarith
  · rw [abs_le]; constructor <;> linarith
  · rw [abs_le]; constructor <;> push_cast <;> linarith

theorem rneInt_intCast (n : Int) : rneInt (n : ℚ) = n := by
  unfold rneInt
  have : (n : ℚ).floor = n := by
    show ⌊(n : ℚ)⌋ = n
    exact Int.floor_intCast n
  simp [this]

/-- `rneInt` never crosses an integer -/
theorem rneInt_le_of_le_int {q : ℚ} {n : Int} (h : q ≤ n) : rneInt q ≤ n := by
  unfold rneInt
  simp only
  have hfl := floor_le' q
  have hfl2 := lt_floor_add_one' q
  have hfn : q.floor ≤ n := by
    have : (q.floor : ℚ) ≤ n := le_trans hfl h
    exact_mod_cast this
  split_ifs with h1 h2 h3
  · exact hfn
  · -- q > floor + 1/2, q ≤ n so floor + 1 ≤ n
    by_contra hc
    have : n = q.floor := by omega
    subst this
    linarith
  · exact hfn
  · by_contra hc
    have : n = q.floor := by omega
    subst this
    have : q - (q.floor : ℚ) = 1/2 := le_antisymm (not_lt.mp h2) (not_lt.mp h1)
    linarith

theorem rneInt_ge_of_ge_int {q : ℚ} {n : Int} (h : (n : ℚ) ≤ q) : n ≤ rneInt q := by
  unfold rneInt
  simp only
  have hnf : n ≤ q.floor := Int.le_floor.mpr h
  split_ifs <;> omega

theorem rneInt_mono {a b : ℚ} (h : a ≤ b) : rneInt a ≤ rneInt b := by
  by_cases hfl : a.floor < b.floor
  · -- an integer separates them
    have h1 : rneInt a ≤ a.floor + 1 := by
      apply rneInt_le_of_le_int
      push_cast; exact (lt_floor_add_one' a).le
    have h2 : b.floor ≤ rneInt b := rneInt_ge_of_ge_int (floor_le' b)
    omega
  · have hfe : a.floor = b.floor := by
      have : a.floor ≤ b.floor := Int.floor_le_floor h
      omega
    unfold rneInt
    simp only
    rw [hfe]
    have hab : a - (b.floor : ℚ) ≤ b - (b.floor : ℚ) := by linarith
    split_ifs <;> first | omega | (exfalso; linarith)


/-! ### `roundMag` -/

/-- exponent of the unit in the last place used by `roundMag` for `x` -/
def texp (fmt : Fmt) (x : ℚ) : Int := max (ilog2 x) fmt.emin - ((fmt.p : Int) - 1)

/-- the value `roundMag` computes before the overflow test -/
def rmv (fmt : Fmt) (x : ℚ) : ℚ := (rneInt (x / pow2 (texp fmt x)) : ℚ) * pow2 (texp fmt x)

/-- unit roundoff `2^-p` -/
def ur (fmt : Fmt) : ℚ := pow2 (-(fmt.p : Int))

/-- overflow threshold `2^(emax+1)` -/
def omega (fmt : Fmt) : ℚ := pow2 (fmt.emax + 1)

theorem ur_pos (fmt : Fmt) : 0 < ur fmt := pow2_pos _
theorem omega_pos (fmt : Fmt) : 0 < omega fmt := pow2_pos _

@[simp] theorem rmv_zero (fmt : Fmt) : rmv fmt 0 = 0 := by
  unfold rmv
  have : rneInt ((0 : ℚ) / pow2 (texp fmt 0)) = 0 := by
    rw [zero_div]; exact_mod_cast rneInt_intCast 0
  rw [this]; simp

theorem roundMag_eq (fmt : Fmt) (x : ℚ) :
    roundMag fmt x = if omega fmt ≤ rmv fmt x then none else some (rmv fmt x) := by
  unfold roundMag
  by_cases hx : x = 0
  · subst hx
    have : ¬ omega fmt ≤ 0 := not_le.mpr (omega_pos fmt)
    simp [this]
  · simp only [hx, if_false]
    rfl

theorem roundMag_of_lt (fmt : Fmt) (x : ℚ) (h : rmv fmt x < omega fmt) :
    roundMag fmt x = some (rmv fmt x) := by
  rw [roundMag_eq, if_neg (not_le.mpr h)]

theorem rmv_nonneg (fmt : Fmt) {x : ℚ} (hx : 0 ≤ x) : 0 ≤ rmv fmt x := by
  unfold rmv
  have h0 : (0 : ℚ) ≤ x / pow2 (texp fmt x) := div_nonneg hx (pow2_pos _).le
  have : (0 : Int) ≤ rneInt (x / pow2 (texp fmt x)) := rneInt_ge_of_ge_int (by exact_mod_cast h0)
  have h1 : (0 : ℚ) ≤ (rneInt (x / pow2 (texp fmt x)) : ℚ) := by exact_mod_cast this
  exact mul_nonneg h1 (pow2_pos _).le

/-- absolute error: half a unit in the last place -/
theorem rmv_abs_err (fmt : Fmt) (x : ℚ) : |rmv fmt x - x| ≤ pow2 (texp fmt x) / 2 := by
  unfold rmv
  set t := texp fmt x
  have hpt : 0 < pow2 t := pow2_pos t
  set q := x / pow2 t with hq
  have hxq : x = q * pow2 t := by rw [hq]; field_simp
  have e1 : (rneInt q : ℚ) * pow2 t - x = ((rneInt q : ℚ) - q) * pow2 t := by
    conv_lhs => rw [hxq]
    ring
  rw [e1, abs_mul, abs_of_pos hpt]
  have := rneInt_err q
  calc |(rneInt q : ℚ) - q| * pow2 t ≤ (1/2) * pow2 t := by gcongr
    _ = pow2 t / 2 := by ring

theorem pow2_max (a b : Int) : pow2 (max a b) = max (pow2 a) (pow2 b) := by
  rcases le_total a b with h | h
  · rw [max_eq_right h, max_eq_right (pow2_le_pow2 h)]
  · rw [max_eq_left h, max_eq_left (pow2_le_pow2 h)]

theorem half_ulp_eq (fmt : Fmt) (x : ℚ) :
    pow2 (texp fmt x) / 2 = max (pow2 (ilog2 x)) (pow2 fmt.emin) * ur fmt := by
  unfold texp ur
  rw [← pow2_max]
  have : max (ilog2 x) fmt.emin - ((fmt.p : Int) - 1)
      = max (ilog2 x) fmt.emin + (-(fmt.p : Int)) + 1 := by ring
  rw [this, pow2_succ, pow2_add]
  ring

/-- absolute error against a magnitude bound `M` in the normal range -/
theorem rmv_err_le (fmt : Fmt) {x M : ℚ} (hx : 0 ≤ x) (hM : x ≤ M) (hn : pow2 fmt.emin ≤ M) :
    |rmv fmt x - x| ≤ M * ur fmt := by
  rcases hx.eq_or_lt with h0 | hpos
  · subst h0
    simp only [rmv_zero, sub_zero, abs_zero]
    exact mul_nonneg (le_trans (pow2_pos _).le hn) (ur_pos fmt).le
  · refine le_trans (rmv_abs_err fmt x) ?_
    rw [half_ulp_eq]
    have h1 : pow2 (ilog2 x) ≤ M := le_trans (pow2_ilog2_le x hpos) hM
    exact mul_le_mul_of_nonneg_right (max_le h1 hn) (ur_pos fmt).le

/-- relative error in the normal range -/
theorem rmv_rel_err (fmt : Fmt) {x : ℚ} (hn : pow2 fmt.emin ≤ x) :
    |rmv fmt x - x| ≤ x * ur fmt :=
  rmv_err_le fmt (le_trans (pow2_pos _).le hn) le_rfl hn

theorem rmv_le_of_le (fmt : Fmt) {x M : ℚ} (hx : 0 ≤ x) (hM : x ≤ M) (hn : pow2 fmt.emin ≤ M) :
    rmv fmt x ≤ M * (1 + ur fmt) := by
  have := abs_le.mp (rmv_err_le fmt hx hM hn)
  linarith [this.2]

/-- values `n·2^t` with `n < 2^p`, `t ≥ emin-p+1` are fixed points of rounding -/
theorem rmv_exact' (fmt : Fmt) (n : Nat) (t : Int) (x : ℚ) (hxdef : x = (n : ℚ) * pow2 t)
    (hn : n < 2 ^ fmt.p) (ht : fmt.emin - ((fmt.p : Int) - 1) ≤ t) : rmv fmt x = x := by
  rcases Nat.eq_zero_or_pos n with h0 | hpos
  · subst h0; simp [hxdef]
  have hx : 0 < x := by
    rw [hxdef]; exact mul_pos (by exact_mod_cast hpos) (pow2_pos t)
  have hlt : x < pow2 ((fmt.p : Int) + t) := by
    rw [hxdef, pow2_add, pow2_natCast]
    have : (n : ℚ) < 2 ^ fmt.p := by exact_mod_cast hn
    exact mul_lt_mul_of_pos_right this (pow2_pos t)
  have hil : ilog2 x < (fmt.p : Int) + t :=
    pow2_lt_pow2_iff.mp (lt_of_le_of_lt (pow2_ilog2_le x hx) hlt)
  have hte : texp fmt x ≤ t := by
    unfold texp
    rcases le_total (ilog2 x) fmt.emin with h | h
    · rw [max_eq_right h]; exact ht
    · rw [max_eq_left h]; omega
  obtain ⟨d, hd⟩ : ∃ d : Nat, t = texp fmt x + d := ⟨(t - texp fmt x).toNat, by omega⟩
  unfold rmv
  generalize texp fmt x = tx at hd
  have hne := pow2_ne tx
  have hq : x / pow2 tx = (((n * 2 ^ d : Nat) : Int) : ℚ) := by
    rw [hxdef, hd, pow2_add, pow2_natCast]
    field_simp
    push_cast; ring
  rw [hq, rneInt_intCast, hxdef, hd, pow2_add, pow2_natCast]
  push_cast; ring

theorem rmv_exact (fmt : Fmt) (n : Nat) (t : Int) (hn : n < 2 ^ fmt.p)
    (ht : fmt.emin - ((fmt.p : Int) - 1) ≤ t) : rmv fmt ((n : ℚ) * pow2 t) = (n : ℚ) * pow2 t :=
  rmv_exact' fmt n t _ rfl hn ht

/-- integers below `2^p` are exactly representable -/
theorem rmv_natCast (fmt : Fmt) (hemin : fmt.emin ≤ (fmt.p : Int) - 1) (n : Nat)
    (hn : n < 2 ^ fmt.p) : rmv fmt (n : ℚ) = n := by
  have := rmv_exact fmt n 0 hn (by omega)
  simpa [pow2_zero] using this

/-! ### signed rounding on values -/

/-- `round` on rational values (sign symmetric) -/
def rnd (fmt : Fmt) (y : ℚ) : ℚ := if y < 0 then - rmv fmt (-y) else rmv fmt y

theorem rnd_of_nonneg (fmt : Fmt) {y : ℚ} (h : 0 ≤ y) : rnd fmt y = rmv fmt y := by
  unfold rnd; rw [if_neg (not_lt.mpr h)]

theorem rnd_neg_of_nonneg (fmt : Fmt) {y : ℚ} (h : 0 ≤ y) : rnd fmt (-y) = - rmv fmt y := by
  unfold rnd
  rcases h.eq_or_lt with h0 | hpos
  · subst h0; simp
  · rw [if_pos (by linarith), neg_neg]

theorem rnd_neg (fmt : Fmt) (y : ℚ) : rnd fmt (-y) = - rnd fmt y := by
  rcases le_total 0 y with h | h
  · rw [rnd_neg_of_nonneg fmt h, rnd_of_nonneg fmt h]
  · have h' : 0 ≤ -y := by linarith
    have : y = -(-y) := by ring
    rw [rnd_of_nonneg fmt h']
    conv_rhs => rw [this, rnd_neg_of_nonneg fmt h']
    ring

@[simp] theorem rnd_zero (fmt : Fmt) : rnd fmt 0 = 0 := by
  rw [rnd_of_nonneg fmt le_rfl, rmv_zero]

theorem rnd_nonneg (fmt : Fmt) {y : ℚ} (h : 0 ≤ y) : 0 ≤ rnd fmt y := by
  rw [rnd_of_nonneg fmt h]; exact rmv_nonneg fmt h

theorem rnd_nonpos (fmt : Fmt) {y : ℚ} (h : y ≤ 0) : rnd fmt y ≤ 0 := by
  have h' : 0 ≤ -y := by linarith
  have : y = -(-y) := by ring
  rw [this, rnd_neg_of_nonneg fmt h']
  linarith [rmv_nonneg fmt h']

theorem abs_rnd (fmt : Fmt) (y : ℚ) : |rnd fmt y| = rmv fmt |y| := by
  rcases le_total 0 y with h | h
  · rw [abs_of_nonneg h, rnd_of_nonneg fmt h, abs_of_nonneg (rmv_nonneg fmt h)]
  · have h' : 0 ≤ -y := by linarith
    have e : y = -(-y) := by ring
    rw [abs_of_nonpos h]
    conv_lhs => rw [e, rnd_neg_of_nonneg fmt h', abs_neg, abs_of_nonneg (rmv_nonneg fmt h')]

theorem rnd_err_le (fmt : Fmt) {y M : ℚ} (hM : |y| ≤ M) (hn : pow2 fmt.emin ≤ M) :
    |rnd fmt y - y| ≤ M * ur fmt := by
  rcases le_total 0 y with h | h
  · rw [rnd_of_nonneg fmt h]
    rw [abs_of_nonneg h] at hM
    exact rmv_err_le fmt h hM hn
  · have h' : 0 ≤ -y := by linarith
    have e : y = -(-y) := by ring
    rw [abs_of_nonpos h] at hM
    have := rmv_err_le fmt h' hM hn
    conv_lhs => rw [e, rnd_neg_of_nonneg fmt h']
    rw [show -rmv fmt (-y) - - -y = -(rmv fmt (-y) - -y) by ring, abs_neg]
    exact this

/-- no overflow when rounding `y` -/
def NoOvf (fmt : Fmt) (y : ℚ) : Prop := rmv fmt |y| < omega fmt

theorem noOvf_of_le (fmt : Fmt) {y M : ℚ} (hM : |y| ≤ M) (hn : pow2 fmt.emin ≤ M)
    (hO : M * (1 + ur fmt) < omega fmt) : NoOvf fmt y :=
  lt_of_le_of_lt (rmv_le_of_le fmt (abs_nonneg y) hM hn) hO

theorem abs_rnd_le (fmt : Fmt) {y M : ℚ} (hM : |y| ≤ M) (hn : pow2 fmt.emin ≤ M) :
    |rnd fmt y| ≤ M * (1 + ur fmt) := by
  rw [abs_rnd]; exact rmv_le_of_le fmt (abs_nonneg y) hM hn

/-! ### `F`-level operations on finite data -/

/-- `a` is finite with magnitude `≥ 0` and signed value `v` -/
def F.Val (a : F) (v : ℚ) : Prop := ∃ s m, a = .fin s m ∧ 0 ≤ m ∧ v = if s then -m else m

theorem F.Val.toRat {a : F} {v : ℚ} (h : a.Val v) : a.toRat = v := by
  obtain ⟨s, m, rfl, _, rfl⟩ := h; rfl

theorem F.Val.isFinite {a : F} {v : ℚ} (h : a.Val v) : a.isFinite = true := by
  obtain ⟨s, m, rfl, _, rfl⟩ := h; rfl

theorem val_fin_false {m : ℚ} (h : 0 ≤ m) : (F.fin false m).Val m := ⟨false, m, rfl, h, rfl⟩

theorem round_eq (fmt : Fmt) (y : ℚ) (h : NoOvf fmt y) :
    round fmt y = .fin (decide (y < 0)) (rmv fmt |y|) := by
  unfold round
  have : (if y < 0 then -y else y) = |y| := by
    split_ifs with hy
    · rw [abs_of_neg hy]
    · rw [abs_of_nonneg (not_lt.mp hy)]
  simp only [this]
  rw [roundMag_of_lt fmt _ h]

theorem round_val (fmt : Fmt) (y : ℚ) (h : NoOvf fmt y) : (round fmt y).Val (rnd fmt y) := by
  rw [round_eq fmt y h]
  refine ⟨_, _, rfl, rmv_nonneg fmt (abs_nonneg y), ?_⟩
  by_cases hy : y < 0
  · simp only [hy, decide_true, if_true]
    rw [abs_of_neg hy]; unfold rnd; rw [if_pos hy]
  · simp only [hy, decide_false]
    rw [abs_of_nonneg (not_lt.mp hy), rnd_of_nonneg fmt (not_lt.mp hy)]; rfl

private theorem signed_rnd (fmt : Fmt) (s : Bool) {z : ℚ} (hz : 0 ≤ z) :
    rnd fmt (if s then -z else z) = if s then - rmv fmt z else rmv fmt z := by
  cases s
  · simpa using rnd_of_nonneg fmt hz
  · simpa using rnd_neg_of_nonneg fmt hz

theorem F.Val.mul {fmt : Fmt} {a b : F} {va vb : ℚ} (ha : a.Val va) (hb : b.Val vb)
    (h : NoOvf fmt (va * vb)) : (SoftFloat.mul fmt a b).Val (rnd fmt (va * vb)) := by
  obtain ⟨s, x, rfl, hx, rfl⟩ := ha
  obtain ⟨t, y, rfl, hy, rfl⟩ := hb
  have hxy : 0 ≤ x * y := mul_nonneg hx hy
  have e : (if s then -x else x) * (if t then -y else y) = if (s != t) then -(x * y) else x * y := by
    cases s <;> cases t <;> simp
  have habs : |(if s then -x else x) * (if t then -y else y)| = x * y := by
    rw [e]; cases (s != t) <;> simp [abs_of_nonneg hxy]
  unfold NoOvf at h
  rw [habs] at h
  unfold SoftFloat.mul
  simp only [roundMag_of_lt fmt _ h]
  refine ⟨_, _, rfl, rmv_nonneg fmt hxy, ?_⟩
  rw [e, signed_rnd fmt _ hxy]

theorem F.Val.div {fmt : Fmt} {a b : F} {va vb : ℚ} (ha : a.Val va) (hb : b.Val vb)
    (hb0 : vb ≠ 0) (h : NoOvf fmt (va / vb)) :
    (SoftFloat.div fmt a b).Val (rnd fmt (va / vb)) := by
  obtain ⟨s, x, rfl, hx, rfl⟩ := ha
  obtain ⟨t, y, rfl, hy, rfl⟩ := hb
  have hy0 : y ≠ 0 := by
    intro h0; apply hb0; subst h0; cases t <;> simp
  have hxy : 0 ≤ x / y := div_nonneg hx hy
  have e : (if s then -x else x) / (if t then -y else y) = if (s != t) then -(x / y) else x / y := by
    cases s <;> cases t <;> simp [neg_div, div_neg]
  have habs : |(if s then -x else x) / (if t then -y else y)| = x / y := by
    rw [e]; cases (s != t) <;> simp [abs_of_nonneg hxy]
  unfold NoOvf at h
  rw [habs] at h
  unfold SoftFloat.div
  simp only [hy0, if_false, roundMag_of_lt fmt _ h]
  refine ⟨_, _, rfl, rmv_nonneg fmt hxy, ?_⟩
  rw [e, signed_rnd fmt _ hxy]

theorem F.Val.add {fmt : Fmt} {a b : F} {va vb : ℚ} (ha : a.Val va) (hb : b.Val vb)
    (h : NoOvf fmt (va + vb)) : (SoftFloat.add fmt a b).Val (rnd fmt (va + vb)) := by
  obtain ⟨s, x, rfl, hx, rfl⟩ := ha
  obtain ⟨t, y, rfl, hy, rfl⟩ := hb
  have key : ∀ A : ℚ, NoOvf fmt A → ∀ bz,
      (if A = 0 then F.fin bz 0 else round fmt A).Val (rnd fmt A) := by
    intro A hA bz
    by_cases h0 : A = 0
    · rw [if_pos h0, h0]; exact ⟨_, 0, rfl, le_rfl, by simp⟩
    · rw [if_neg h0]; exact round_val fmt _ hA
  exact key _ h _

theorem F.Val.neg {a : F} {va : ℚ} (ha : a.Val va) : (SoftFloat.neg a).Val (-va) := by
  obtain ⟨s, x, rfl, hx, rfl⟩ := ha
  refine ⟨!s, x, rfl, hx, ?_⟩
  cases s <;> simp

theorem F.Val.sub {fmt : Fmt} {a b : F} {va vb : ℚ} (ha : a.Val va) (hb : b.Val vb)
    (h : NoOvf fmt (va - vb)) : (SoftFloat.sub fmt a b).Val (rnd fmt (va - vb)) := by
  unfold SoftFloat.sub
  rw [sub_eq_add_neg] at h ⊢
  exact F.Val.add ha hb.neg h

theorem F.Val.ge {a b : F} {va vb : ℚ} (ha : a.Val va) (hb : b.Val vb) :
    SoftFloat.ge a b = decide (vb ≤ va) := by
  obtain ⟨s, x, rfl, hx, rfl⟩ := ha
  obtain ⟨t, y, rfl, hy, rfl⟩ := hb
  rfl

theorem F.Val.toIntSat {a : F} {va : ℚ} (ha : a.Val va) (lo hi : Int) :
    SoftFloat.toIntSat a lo hi =
      (if truncRat va < lo then lo else if hi < truncRat va then hi else truncRat va) := by
  obtain ⟨s, x, rfl, hx, rfl⟩ := ha
  rfl

/-- the IEEE interchange-format relations between the parameters -/
structure Fmt.Good (fmt : Fmt) : Prop where
  p_ge : 2 ≤ fmt.p
  ebits_ge : 2 ≤ fmt.ebits
  emax_eq : fmt.emax + 1 = ((2 ^ (fmt.ebits - 1) : Nat) : Int)
  emin_eq : fmt.emin = 1 - fmt.emax

theorem good_binary32 : binary32.Good := ⟨by decide, by decide, by decide, by decide⟩
theorem good_binary64 : binary64.Good := ⟨by decide, by decide, by decide, by decide⟩

theorem zero_val : zero.Val 0 := ⟨false, 0, rfl, le_rfl, by simp⟩


/-! ### explicit forms (sign and magnitude) -/

theorem mul_fin_eq (fmt : Fmt) (s t : Bool) (x y : ℚ) (h : rmv fmt (x * y) < omega fmt) :
    SoftFloat.mul fmt (.fin s x) (.fin t y) = .fin (s != t) (rmv fmt (x * y)) := by
  unfold SoftFloat.mul
  simp only [roundMag_of_lt fmt _ h]

/-- adding a non-negative float with a non-negative exact sum: result has sign `+` -/
theorem add_fin_false (fmt : Fmt) {a : F} {va y : ℚ} (ha : a.Val va) (hs : 0 ≤ va + y)
    (h : NoOvf fmt (va + y)) :
    SoftFloat.add fmt a (.fin false y) = .fin false (rmv fmt (va + y)) := by
  obtain ⟨s, x, rfl, hx, rfl⟩ := ha
  have key : ∀ A : ℚ, 0 ≤ A → NoOvf fmt A → ∀ bz, bz = false →
      (if A = 0 then F.fin bz 0 else round fmt A) = .fin false (rmv fmt A) := by
    intro A hA0 hA bz hbz
    by_cases h0 : A = 0
    · rw [if_pos h0, h0, hbz, rmv_zero]
    · rw [if_neg h0, round_eq fmt A hA, abs_of_nonneg hA0]
      simp [not_lt.mpr hA0]
  have := key _ hs h (s && false && x == 0 && y == 0) (by simp)
  exact this

theorem natAbs_cast_abs (z : Int) : ((z.natAbs : ℕ) : ℚ) = |(z : ℚ)| := by
  rw [Nat.cast_natAbs, Int.cast_abs]

theorem ofInt_eq (fmt : Fmt) (hemin : fmt.emin ≤ (fmt.p : Int) - 1)
    (hpe : (fmt.p : Int) ≤ fmt.emax + 1) (z : Int) (hz : z.natAbs < 2 ^ fmt.p) :
    ofInt fmt z = .fin (decide ((z : ℚ) < 0)) ((z.natAbs : ℕ) : ℚ) := by
  unfold ofInt
  have hex : rmv fmt |(z : ℚ)| = ((z.natAbs : ℕ) : ℚ) := by
    rw [← natAbs_cast_abs]; exact rmv_natCast fmt hemin _ hz
  have hno : NoOvf fmt (z : ℚ) := by
    unfold NoOvf omega
    rw [hex]
    have h1 : ((z.natAbs : ℕ) : ℚ) < (2 : ℚ) ^ fmt.p := by exact_mod_cast hz
    have h2 : (2 : ℚ) ^ fmt.p ≤ pow2 (fmt.emax + 1) := by
      rw [← pow2_natCast]; exact pow2_le_pow2 hpe
    linarith
  rw [round_eq fmt _ hno, hex]

theorem ofInt_val (fmt : Fmt) (hemin : fmt.emin ≤ (fmt.p : Int) - 1)
    (hpe : (fmt.p : Int) ≤ fmt.emax + 1) (z : Int) (hz : z.natAbs < 2 ^ fmt.p) :
    (ofInt fmt z).Val (z : ℚ) := by
  rw [ofInt_eq fmt hemin hpe z hz]
  refine ⟨_, _, rfl, by positivity, ?_⟩
  rw [natAbs_cast_abs]
  by_cases h : (z : ℚ) < 0
  · simp [h, abs_of_neg h]
  · simp [h, abs_of_nonneg (not_lt.mp h)]

/-- rounding a value in the normal range does not produce zero -/
theorem rmv_pos (fmt : Fmt) (hp : 1 ≤ fmt.p) {x : ℚ} (hn : pow2 fmt.emin ≤ x) : 0 < rmv fmt x := by
  have hx : 0 < x := lt_of_lt_of_le (pow2_pos _) hn
  have h := abs_le.mp (rmv_rel_err fmt hn)
  have hu : ur fmt ≤ 1 / 2 := by
    unfold ur
    rw [← pow2_neg_one]
    exact pow2_le_pow2 (by omega)
  nlinarith [h.1]

end Rtcm.SoftFloat
