import Rtcm.Props.C07
import Rtcm.Proofs.WFFrag
/-!
# Helper lemmas for C09: the body encoder's only panics are token-shape rejections

* `put_total`: `Bits.put` with `1 ≤ len ≤ w` on a byte buffer answers `BufferOverflow` or succeeds,
  for EVERY value pattern (the panicking operations of the packer — `usize` subtractions and shift
  amounts — depend on the geometry only); on success the buffer keeps its length, stays a byte
  buffer and every bit outside the field is unchanged;
* `Ext c c'`: cursor `c'` extends `c` (what every successful encoder step guarantees);
* `ES r c`: outcome `r` of an encoder step started at `c` is an error, a `tokens…` panic, or a
  success extending `c`;
* leaves (`Df.encode`, text, bias lists, MSM segment) and combinators by mutual structural induction.
-/
namespace Rtcm.NoPanic
open Rtcm.Bits Rtcm.Schema Rtcm.Df Rtcm.Text Rtcm.Interp Rtcm.WF
set_option linter.unusedSimpArgs false

/-! ### `Bits.put` for arbitrary values -/

theorem signFixRev_ok (cfg : Cfg) (it : IT) {len : Nat} (v : Nat) (h1 : 1 ≤ len) (hlw : len ≤ it.w) :
    ∃ value, signFixRev cfg it v len = .ok value := by
  obtain ⟨kind, w⟩ := it
  simp only at hlw
  have hl1 : len - 1 < w := by omega
  cases kind
  · exact ⟨v, rfl⟩
  · exact ⟨v, rfl⟩
  · simp only [signFixRev, subU_ok cfg h1, shl_one cfg hl1, Res.bind_ok, shl_allOnes cfg hl1]
    split
    · exact ⟨_, rfl⟩
    · split <;> exact ⟨_, rfl⟩

/-- inside-the-field test for bit `t` of byte `j` -/
def inField (off len j t : Nat) : Prop := t < 8 ∧ off ≤ 8 * j + 7 - t ∧ 8 * j + 7 - t < off + len

theorem putStep_ok (cfg : Cfg) (it : IT) {off len i d : Nat} (value : Nat) (hd : d < 256) (h1 : 1 ≤ len)
    (hlw : len ≤ it.w) (hw8 : 8 ≤ it.w) (hi : i < dlenOf off len) :
    ∃ d', putStep cfg it (setupOf off len) value i (off + len - max off (8 * (off / 8 + i))) d
        = .ok (d', off + len - min (off + len) (8 * (off / 8 + i + 1))) ∧
      ∀ t, ¬ inField off len (off / 8 + i) t → d'.testBit t = d.testBit t := by
  obtain ⟨bset, nbits, bpos, hg, hb, hn, hp⟩ := byteGeom_spec cfg h1 hi
  have hdl : dlenOf off len = (off + len - 1) / 8 - off / 8 + 1 := rfl
  unfold putStep
  rw [hg]
  have hsub : nbits ≤ off + len - max off (8 * (off / 8 + i)) := by omega
  have hL : off + len - max off (8 * (off / 8 + i)) - nbits
      = off + len - min (off + len) (8 * (off / 8 + i + 1)) := by omega
  simp only [Res.bind_ok, subU_ok cfg hsub, hL]
  have hd8 : ∀ t, 8 ≤ t → d.testBit t = false := fun t h => testBit_false_of_lt_256 hd h
  by_cases hl : i + 1 = dlenOf off len
  · rw [if_pos hl] at hp
    have hz : off + len - min (off + len) (8 * (off / 8 + i + 1)) = 0 := by omega
    have hge : bpos ≥ off + len - min (off + len) (8 * (off / 8 + i + 1)) := by omega
    have hk : bpos - 0 < it.w := by omega
    simp only [hz] at hge ⊢
    simp only [if_pos hge, subU_ok cfg hge, Res.bind_ok, shl_ok cfg value hk]
    refine ⟨_, rfl, ?_⟩
    intro t hC
    unfold inField at hC
    have := hd8 t
    simp only [valCast, Nat.testBit_or, Nat.testBit_and, Nat.testBit_xor, testBit_255,
      testBit_mod256, hb, hC, decide_false]
    grind
  · rw [if_neg hl] at hp
    have hlt : ¬ bpos ≥ off + len - min (off + len) (8 * (off / 8 + i + 1)) := by omega
    have hle : bpos ≤ off + len - min (off + len) (8 * (off / 8 + i + 1)) := by omega
    have hk : off + len - min (off + len) (8 * (off / 8 + i + 1)) - bpos < it.w := by omega
    simp only [if_neg hlt, subU_ok cfg hle, Res.bind_ok, shr_ok cfg it.signed value hk]
    refine ⟨_, rfl, ?_⟩
    intro t hC
    unfold inField at hC
    have := hd8 t
    simp only [valCast, Nat.testBit_or, Nat.testBit_and, Nat.testBit_xor, testBit_255,
      testBit_mod256, hb, hC, decide_false]
    grind

theorem putStep_ok_lt (cfg : Cfg) (it : IT) {off len i d : Nat} (value : Nat) (hd : d < 256) (h1 : 1 ≤ len)
    (hlw : len ≤ it.w) (hw8 : 8 ≤ it.w) (hi : i < dlenOf off len) :
    ∃ d', putStep cfg it (setupOf off len) value i (off + len - max off (8 * (off / 8 + i))) d
        = .ok (d', off + len - min (off + len) (8 * (off / 8 + i + 1))) ∧ d' < 256 ∧
      ∀ t, ¬ inField off len (off / 8 + i) t → d'.testBit t = d.testBit t := by
  obtain ⟨d', h, hk⟩ := putStep_ok cfg it value hd h1 hlw hw8 hi
  refine ⟨d', h, ?_, hk⟩
  apply lt_256_of_testBit
  intro t ht
  rw [hk t (by unfold inField; omega)]
  exact testBit_false_of_lt_256 hd ht

theorem putLoop_ok (cfg : Cfg) (it : IT) {off len : Nat} (value : Nat) (h1 : 1 ≤ len)
    (hlw : len ≤ it.w) (hw8 : 8 ≤ it.w) :
    ∀ (ds : List Nat) (i : Nat), (∀ d ∈ ds, d < 256) → i ≤ dlenOf off len →
      dlenOf off len - i ≤ ds.length →
      ∃ out, putLoop cfg it (setupOf off len) value i
          (off + len - max off (8 * (off / 8 + i))) ds = .ok out ∧
        out.length = ds.length ∧ (∀ d ∈ out, d < 256) ∧
        ∀ j t, ¬ inField off len (off / 8 + i + j) t →
          (out.getD j 0).testBit t = (ds.getD j 0).testBit t := by
  have hdl : dlenOf off len = (off + len - 1) / 8 - off / 8 + 1 := rfl
  intro ds
  induction ds with
  | nil =>
    intro i _ hi hl
    exact ⟨[], rfl, rfl, (fun _ h => by cases h), fun _ _ _ => rfl⟩
  | cons d ds ih =>
    intro i hb hi hl
    unfold putLoop
    have hs : (setupOf off len).dlen = dlenOf off len := rfl
    rw [hs]
    by_cases hlt : i < dlenOf off len
    · rw [if_pos hlt]
      obtain ⟨d', hd', hd'lt, hbits⟩ := putStep_ok_lt cfg it (d := d) value (hb d (by simp)) h1 hlw hw8 hlt
      rw [hd']
      simp only [Res.bind_ok]
      have hL : off + len - min (off + len) (8 * (off / 8 + i + 1))
          = off + len - max off (8 * (off / 8 + (i + 1))) := by omega
      rw [hL]
      obtain ⟨rest, hr, hrl, hrlt, hrb⟩ := ih (i + 1) (fun x hx => hb x (by simp [hx])) (by omega)
        (by simp only [List.length_cons] at hl; omega)
      rw [hr]
      simp only [Res.bind_ok]
      refine ⟨_, rfl, by simp [hrl], ?_, ?_⟩
      · intro x hx
        rcases List.mem_cons.mp hx with rfl | hx
        · exact hd'lt
        · exact hrlt x hx
      · intro j t hC
        cases j with
        | zero => simpa using hbits t (by simpa using hC)
        | succ j =>
          simp only [List.getD_cons_succ]
          apply hrb j t
          have e : off / 8 + (i + 1) + j = off / 8 + i + (j + 1) := by omega
          rw [e]; exact hC
    · rw [if_neg hlt]
      exact ⟨_, rfl, rfl, hb, fun _ _ _ => rfl⟩

/-- `Bits.put` is total for `1 ≤ len ≤ w` on byte buffers, whatever the value pattern -/
theorem put_total (cfg : Cfg) (it : IT) (data : List Nat) (off v len : Nat)
    (hw8 : 8 ≤ it.w) (hw64 : it.w ≤ 64) (h1 : 1 ≤ len) (hlw : len ≤ it.w)
    (hdata : ∀ d ∈ data, d < 256) :
    (put cfg it data off v len = .err .bufferOverflow) ∨
    ∃ data', put cfg it data off v len = .ok (data', off + len) ∧ off + len ≤ 8 * data.length ∧
      data'.length = data.length ∧ (∀ d ∈ data', d < 256) ∧
      ∀ g, g < off → bitAt data' g = bitAt data g := by
  by_cases hov : data.length * 8 < off + len
  · exact Or.inl (C07.put_overflow_error cfg it data off v len hov)
  right
  have hfit : off + len ≤ 8 * data.length := by omega
  obtain ⟨value, hsf⟩ := signFixRev_ok cfg it v h1 hlw
  have hdl : dlenOf off len = (off + len - 1) / 8 - off / 8 + 1 := rfl
  unfold put
  rw [if_neg (by omega), if_neg (by omega), hsf, setup_ok cfg h1 (by omega)]
  simp only [Res.bind_ok]
  have hsti : (setupOf off len).sti = off / 8 := rfl
  rw [hsti]
  have hL : len = off + len - max off (8 * (off / 8 + 0)) := by omega
  obtain ⟨out, ho, hol, holt, hob⟩ := putLoop_ok cfg it (off := off) value h1 hlw hw8 (data.drop (off / 8)) 0
    (fun d hd => hdata d (List.mem_of_mem_drop hd)) (by omega)
    (by simp only [List.length_drop]; omega)
  rw [← hL] at ho
  rw [ho]
  simp only [Res.bind_ok]
  refine ⟨_, rfl, hfit, ?_, ?_, ?_⟩
  · simp only [List.length_append, List.length_take, hol, List.length_drop]
    omega
  · intro d hd
    rcases List.mem_append.mp hd with hd | hd
    · exact hdata d (List.mem_of_mem_take hd)
    · exact holt d hd
  · intro g hg
    unfold bitAt
    rw [getD_take_append_drop (by omega)]
    split
    · rfl
    · rw [hob]
      · congr 1
        simp only [List.getD_eq_getElem?_getD, List.getElem?_drop]
        congr 2
        omega
      · unfold inField
        omega

/-! ### outcome specifications -/

/-- the panic is a token-shape rejection of the model, not a modelled Rust panic -/
def TokPanic (w : String) : Prop := w.startsWith "tokens" = true

/-- the buffer is a byte buffer -/
def Good (c : Cur) : Prop := ∀ d ∈ c.data, d < 256

/-- `c'` extends `c`: byte buffer of the same length, cursor advanced and still inside the buffer,
every bit before the old cursor unchanged -/
structure Ext (c c' : Cur) : Prop where
  good : Good c'
  len : c'.data.length = c.data.length
  mono : c.off ≤ c'.off
  fit : c.off ≤ 8 * c.data.length → c'.off ≤ 8 * c'.data.length
  keep : ∀ g, g < c.off → bitAt c'.data g = bitAt c.data g

theorem Ext.refl {c : Cur} (h : Good c) : Ext c c := ⟨h, rfl, Nat.le_refl _, id, fun _ _ => rfl⟩

theorem Ext.trans {a b c : Cur} (h1 : Ext a b) (h2 : Ext b c) : Ext a c :=
  ⟨h2.good, h2.len.trans h1.len, Nat.le_trans h1.mono h2.mono, fun h => h2.fit (h1.fit h),
   fun g hg => (h2.keep g (Nat.lt_of_lt_of_le hg h1.mono)).trans (h1.keep g hg)⟩

/-- outcome of an encoder step returning a cursor -/
def ESC (r : Res Cur) (c : Cur) : Prop :=
  match r with
  | .ok c' => Ext c c'
  | .err _ => True
  | .panic w => TokPanic w

/-- outcome of an encoder step returning a cursor and the remaining tokens -/
def ES (r : Res (Cur × List Tok)) (c : Cur) : Prop :=
  match r with
  | .ok (c', _) => Ext c c'
  | .err _ => True
  | .panic w => TokPanic w

theorem ESC.trans {a b : Cur} {r : Res Cur} (h1 : Ext a b) (h2 : ESC r b) : ESC r a := by
  cases r with
  | ok c => exact Ext.trans h1 h2
  | err e => trivial
  | panic w => exact h2

theorem ES.trans {a b : Cur} {r : Res (Cur × List Tok)} (h1 : Ext a b) (h2 : ES r b) : ES r a := by
  cases r with
  | ok x => obtain ⟨c, ts⟩ := x; exact Ext.trans h1 h2
  | err e => trivial
  | panic w => exact h2

theorem lift_es {r : Res Cur} {c : Cur} (rest : List Tok) (h : ESC r c) :
    ES (lift r fun c' => .ok (c', rest)) c := by
  cases r with
  | ok c' => exact h
  | err e => trivial
  | panic w => exact h

/-- `Bits.put` as a cursor step -/
theorem put_ext (cfg : Cfg) (it : IT) (c : Cur) (v len : Nat)
    (hw8 : 8 ≤ it.w) (hw64 : it.w ≤ 64) (h1 : 1 ≤ len) (hlw : len ≤ it.w) (hc : Good c) :
    put cfg it c.data c.off v len = .err .bufferOverflow ∨
    ∃ d o, put cfg it c.data c.off v len = .ok (d, o) ∧ Ext c { data := d, off := o } := by
  rcases put_total cfg it c.data c.off v len hw8 hw64 h1 hlw hc with h | ⟨d, h, hfit, hl, hg, hk⟩
  · exact Or.inl h
  · exact Or.inr ⟨d, _, h, ⟨hg, hl, Nat.le_add_right _ _, fun _ => by simpa [hl] using hfit, hk⟩⟩

theorem putU_es (cfg : Cfg) (w v len : Nat) (c : Cur)
    (hw8 : 8 ≤ w) (hw64 : w ≤ 64) (h1 : 1 ≤ len) (hlw : len ≤ w) (hc : Good c) :
    ESC (putU cfg w v len c) c := by
  unfold putU
  rcases put_ext cfg ⟨.u, w⟩ c v len hw8 hw64 h1 hlw hc with h | ⟨d, o, h, he⟩ <;> rw [h]
  · trivial
  · exact he

/-! ### `Df.encode` -/

theorem tokPanic_lit1 : TokPanic "tokens: float expected" := by unfold TokPanic; decide +kernel
theorem tokPanic_lit2 : TokPanic "tokens: integer expected" := by unfold TokPanic; decide +kernel
theorem tokPanic_lit3 : TokPanic "tokens: optional expected" := by unfold TokPanic; decide +kernel
theorem tokPanic_lit4 : TokPanic "tokens: value expected" := by unfold TokPanic; decide +kernel

theorem quantise_panic (s : DfSpec) (v : Tok) (w : String) (h : quantise s v = .panic w) :
    TokPanic w := by
  unfold quantise at h
  split at h
  · split at h
    · simp only [] at h
      rcases hb : s.bias with _ | b
      · simp only [hb] at h
        cases h
      · simp only [hb] at h
        split at h
        · cases h
        · cases h
        · next hh => split at hh <;> cases hh
    · cases h; exact tokPanic_lit1
  · split at h
    · rcases hb : s.bias with _ | b
      · simp only [hb] at h
        cases h
      · simp only [hb] at h
        split at h
        · cases h
        · cases h
        · next hh =>
          split at hh
          · split at hh <;> cases hh
          · cases hh
    · cases h; exact tokPanic_lit2

/-- the widths of a field: what `DfWf.wfBasic` guarantees -/
def Widths (s : DfSpec) : Prop := 8 ≤ s.it.w ∧ s.it.w ≤ 64 ∧ 1 ≤ s.len ∧ s.len ≤ s.it.w

theorem widths_of_wf {s : DfSpec} (h : DfWf.wf s = true) : Widths s := by
  unfold DfWf.wf DfWf.wfBasic at h
  simp only [Bool.and_eq_true, Bool.or_eq_true, decide_eq_true_eq, beq_iff_eq] at h
  unfold Widths
  omega

theorem dfEncode_es (cfg : Cfg) (s : DfSpec) (ts : List Tok) (c : Cur) (hs : Widths s) (hc : Good c) :
    ES (Df.encode cfg s ts c) c := by
  obtain ⟨hw8, hw64, h1, hlw⟩ := hs
  have key : ∀ (p : Nat) (rest : List Tok),
      ES (match Bits.put cfg s.it c.data c.off p s.len with
          | .ok (d, o) => .ok ({ data := d, off := o }, rest)
          | .err e => .err e
          | .panic w => .panic w) c := by
    intro p rest
    rcases put_ext cfg s.it c p s.len hw8 hw64 h1 hlw hc with h | ⟨d, o, h, he⟩ <;> rw [h]
    · trivial
    · exact he
  unfold Df.encode
  simp only []
  split
  · split
    · exact key _ _
    · split
      · exact key _ _
      · trivial
      · next w hw => exact quantise_panic _ _ _ hw
    · exact tokPanic_lit3
  · split
    · split
      · exact key _ _
      · trivial
      · next w hw => exact quantise_panic _ _ _ hw
    · exact tokPanic_lit4

/-! ### text -/

theorem putBytes_es (cfg : Cfg) (bs : List Nat) (c : Cur) (hc : Good c) : ESC (putBytes cfg bs c) c := by
  induction bs generalizing c with
  | nil => exact Ext.refl hc
  | cons b bs ih =>
    unfold putBytes
    have h := putU_es cfg 8 b 8 c (by omega) (by omega) (by omega) (by omega) hc
    split
    · next c' hp =>
      rw [hp] at h
      exact ESC.trans h (ih c' h.good)
    · trivial
    · next q hq => rw [hq] at h; exact h

theorem strEncode_es (cfg : Cfg) (lenBits : Nat) (bytes : List Nat) (c : Cur) (h1 : 1 ≤ lenBits)
    (h8 : lenBits ≤ 8) (hc : Good c) : ESC (strEncode cfg lenBits bytes c) c := by
  unfold strEncode
  have h := putU_es cfg 8 (bytes.length % 256) lenBits c (by omega) (by omega) h1 h8 hc
  split
  · next c' hp =>
    rw [hp] at h
    exact ESC.trans h (putBytes_es cfg bytes c' h.good)
  · trivial
  · next q hq => rw [hq] at h; exact h

theorem text1029Encode_es (cfg : Cfg) (bytes : List Nat) (c : Cur) (hc : Good c) :
    ESC (text1029Encode cfg bytes c) c := by
  unfold text1029Encode
  simp only []
  split
  · trivial
  · have h := putU_es cfg 8 (charCount bytes) 7 c (by omega) (by omega) (by omega) (by omega) hc
    split
    · next c1 hp =>
      rw [hp] at h
      have h2 := putU_es cfg 8 bytes.length 8 c1 (by omega) (by omega) (by omega) (by omega) h.good
      split
      · next c2 hp2 =>
        rw [hp2] at h2
        exact ESC.trans h (ESC.trans h2 (putBytes_es cfg bytes c2 h2.good))
      · trivial
      · next q hq => rw [hq] at h2; exact h2
    · trivial
    · next q hq => rw [hq] at h; exact h

/-! ### bias lists -/

theorem putI16_es (cfg : Cfg) (v len : Nat) (c : Cur) (h1 : 1 ≤ len) (h16 : len ≤ 16) (hc : Good c) :
    ESC (Bias.putI16 cfg v len c) c := by
  unfold Bias.putI16
  rcases put_ext cfg ⟨.i, 16⟩ c v len (by decide) (by decide) h1 h16 hc with h | ⟨d, o, h, he⟩ <;> rw [h]
  · trivial
  · exact he

theorem encEntries_es (cfg : Cfg) (p : Bias.Params) (es : List Bias.Entry) (c : Cur) (hc : Good c) :
    ESC (Bias.encEntries cfg p es c) c := by
  induction es generalizing c with
  | nil => exact Ext.refl hc
  | cons e es ih =>
    unfold Bias.encEntries
    split
    · next sid _ =>
      have h := putU_es cfg 8 sid 5 c (by omega) (by omega) (by omega) (by omega) hc
      split
      · next c1 hp =>
        rw [hp] at h
        have h2 := putI16_es cfg (Bias.quantBias Bias.res001 e.bias) 14 c1 (by omega) (by omega) h.good
        split
        · next c2 hp2 =>
          rw [hp2] at h2
          exact ESC.trans h (ESC.trans h2 (ih c2 h2.good))
        · trivial
        · next q hq => rw [hq] at h2; exact h2
      · trivial
      · next q hq => rw [hq] at h; exact h
    · exact ih c hc

theorem encSats_es (cfg : Cfg) (p : Bias.Params) (h1 : 1 ≤ p.satBits) (h8 : p.satBits ≤ 8)
    (v : List Bias.Entry) (ss : List Nat) (c : Cur) (hc : Good c) :
    ESC (Bias.encSats cfg p v ss c) c := by
  induction ss generalizing c with
  | nil => exact Ext.refl hc
  | cons s ss ih =>
    unfold Bias.encSats
    have h := putU_es cfg 8 s p.satBits c (by omega) (by omega) h1 h8 hc
    split
    · next c1 hp =>
      rw [hp] at h
      simp only []
      split
      · trivial
      · have h2 := putU_es cfg 8
          ((v.filter fun e => e.sat == s).filter fun e => (Sig.toId p.tbl e.band e.attr).isSome).length
          5 c1 (by omega) (by omega) (by omega) (by omega) h.good
        split
        · next c2 hp2 =>
          rw [hp2] at h2
          have h3 := encEntries_es cfg p (v.filter fun e => e.sat == s) c2 h2.good
          split
          · next c3 hp3 =>
            rw [hp3] at h3
            exact ESC.trans h (ESC.trans h2 (ESC.trans h3 (ih c3 h3.good)))
          · trivial
          · next q hq => rw [hq] at h3; exact h3
        · trivial
        · next q hq => rw [hq] at h2; exact h2
    · trivial
    · next q hq => rw [hq] at h; exact h

theorem biasEncode_es (cfg : Cfg) (p : Bias.Params) (h1 : 1 ≤ p.satBits) (h8 : p.satBits ≤ 8)
    (v : List Bias.Entry) (c : Cur) (hc : Good c) : ESC (Bias.encode cfg p v c) c := by
  unfold Bias.encode
  split
  · trivial
  · simp only []
    split
    · trivial
    · have h := putU_es cfg 8 (Bias.satsOf p v).length 6 c (by omega) (by omega) (by omega) (by omega) hc
      split
      · next c1 hp =>
        rw [hp] at h
        exact ESC.trans h (encSats_es cfg p h1 h8 v _ c1 h.good)
      · trivial
      · next q hq => rw [hq] at h; exact h

theorem enc1230Biases_es (cfg : Cfg) (es : List Bias.Entry) (c : Cur) (hc : Good c) :
    ESC (Bias.enc1230Biases cfg es c) c := by
  induction es generalizing c with
  | nil => exact Ext.refl hc
  | cons e es ih =>
    unfold Bias.enc1230Biases
    have h := putI16_es cfg (Bias.quantBias Bias.res002 e.bias) 16 c (by omega) (by omega) hc
    split
    · next c1 hp =>
      rw [hp] at h
      exact ESC.trans h (ih c1 h.good)
    · trivial
    · next q hq => rw [hq] at h; exact h

theorem mask1230_np (es : List Bias.Entry) : ∀ w, Bias.mask1230 es ≠ .panic w := by
  induction es with
  | nil => intro w h; cases h
  | cons e es ih =>
    intro w
    unfold Bias.mask1230
    split
    · split
      · intro h; cases h
      · next r hne =>
        intro h
        exact ih w h
    · intro h; cases h

theorem encode1230_es (cfg : Cfg) (glo : SigTable) (v : List Bias.Entry) (c : Cur) (hc : Good c) :
    ESC (Bias.encode1230 cfg glo v c) c := by
  unfold Bias.encode1230
  simp only []
  split
  · trivial
  · split
    · next m _ =>
      have h := putU_es cfg 8 m 4 c (by omega) (by omega) (by omega) (by omega) hc
      split
      · next c1 hp =>
        rw [hp] at h
        exact ESC.trans h (enc1230Biases_es cfg _ c1 h.good)
      · trivial
      · next q hq => rw [hq] at h; exact h
    · trivial
    · next q hq => exact absurd hq (mask1230_np _ q)

/-! ### MSM segment -/

theorem tableOk_ids {tbl : SigTable} (h : C18.tableOk tbl = true) (band attr sid : Nat)
    (hs : Sig.toId tbl band attr = some sid) : 2 ≤ sid ∧ sid ≤ 32 := by
  have hm := C18.toId_mem tbl band attr sid hs
  unfold C18.tableOk at h
  simp only [Bool.and_eq_true, List.all_eq_true, decide_eq_true_eq] at h
  exact h.2 _ hm

theorem foldl_satMask_stuck (sats : List Msm.SatRow) (r : Res Nat) (hr : ∀ m, r ≠ .ok m) :
    sats.foldl Msm.satMaskStep r = r := by
  induction sats with
  | nil => rfl
  | cons s ss ih =>
    simp only [List.foldl_cons]
    have : Msm.satMaskStep r s = r := by
      unfold Msm.satMaskStep
      split
      · next m => exact absurd rfl (hr m)
      · rfl
    rw [this, ih]

theorem satMaskStep_ok (m : Nat) (s : Msm.SatRow) :
    Msm.satMaskStep (.ok m) s =
      if 0 < s.id ∧ s.id ≤ 64 then
        (if m &&& 2 ^ (64 - s.id) > 0 then .err .duplicateSatellite else .ok (m ||| 2 ^ (64 - s.id)))
      else .err .invalidSatelliteId := rfl

theorem sigStep_ok (tbl : SigTable) (a : Msm.SigAcc) (s : Msm.SigRow) :
    Msm.sigStep tbl (.ok a) s =
      if 0 < s.sat ∧ s.sat ≤ 64 then
        match Sig.toId tbl s.band s.attr with
        | some sid =>
          if sid > 32 ∨ sid = 0 then .panic "sig_id outside 1..=32: 32 - sig_id / 1 << 32 overflows"
          else .ok { sigMask := a.sigMask ||| 2 ^ (32 - sid), satSigMask := a.satSigMask ||| 2 ^ (64 - s.sat),
                     cells := a.cells ++ [(s.sat, sid)] }
        | none => .err .invalidSignalId
      else .err .invalidSatelliteId := rfl

theorem foldl_satMask (sats : List Msm.SatRow) (m : Nat) :
    (∀ w, sats.foldl Msm.satMaskStep (.ok m) ≠ .panic w) ∧
    ∀ m', sats.foldl Msm.satMaskStep (.ok m) = .ok m' →
      (sats = [] → m' = m) ∧ (sats ≠ [] ∨ m ≠ 0 → m' ≠ 0) := by
  induction sats generalizing m with
  | nil =>
    refine ⟨(fun w h => by cases h), fun m' h => ?_⟩
    cases h
    exact ⟨fun _ => rfl, fun h => h.resolve_left (fun h => h rfl)⟩
  | cons s ss ih =>
    simp only [List.foldl_cons]
    rw [satMaskStep_ok]
    split
    · split
      · rw [foldl_satMask_stuck _ _ (fun _ h => by cases h)]
        exact ⟨(fun w h => by cases h), fun m' h => by cases h⟩
      · obtain ⟨a, b⟩ := ih (m ||| 2 ^ (64 - s.id))
        refine ⟨a, fun m' h => ?_⟩
        refine ⟨(fun h => by cases h), fun _ => ?_⟩
        apply (b m' h).2
        right
        intro h0
        have := (Nat.or_eq_zero_iff.mp h0).2
        have := Nat.two_pow_pos (64 - s.id)
        omega
    · rw [foldl_satMask_stuck _ _ (fun _ h => by cases h)]
      exact ⟨(fun w h => by cases h), fun m' h => by cases h⟩

theorem foldl_sig_stuck (tbl : SigTable) (sigs : List Msm.SigRow) (r : Res Msm.SigAcc)
    (hr : ∀ m, r ≠ .ok m) : sigs.foldl (Msm.sigStep tbl) r = r := by
  induction sigs with
  | nil => rfl
  | cons s ss ih =>
    simp only [List.foldl_cons]
    have : Msm.sigStep tbl r s = r := by
      unfold Msm.sigStep
      split
      · next m => exact absurd rfl (hr m)
      · rfl
    rw [this, ih]

/-- some bit below 32 is set -/
def HasBit32 (m : Nat) : Prop := ∃ i, i < 32 ∧ m.testBit i = true

theorem foldl_sig (tbl : SigTable) (htbl : C18.tableOk tbl = true) (sigs : List Msm.SigRow)
    (a : Msm.SigAcc) :
    (∀ w, sigs.foldl (Msm.sigStep tbl) (.ok a) ≠ .panic w) ∧
    ∀ a', sigs.foldl (Msm.sigStep tbl) (.ok a) = .ok a' →
      (sigs = [] → a' = a) ∧ (sigs ≠ [] ∨ a.satSigMask ≠ 0 → a'.satSigMask ≠ 0) ∧
      (sigs ≠ [] ∨ HasBit32 a.sigMask → HasBit32 a'.sigMask) := by
  induction sigs generalizing a with
  | nil =>
    refine ⟨(fun w h => by cases h), fun a' h => ?_⟩
    cases h
    exact ⟨fun _ => rfl, fun h => h.resolve_left (fun h => h rfl), fun h => h.resolve_left (fun h => h rfl)⟩
  | cons s ss ih =>
    simp only [List.foldl_cons]
    rw [sigStep_ok]
    split
    · split
      · next sid hsid =>
        obtain ⟨hs2, hs32⟩ := tableOk_ids htbl _ _ _ hsid
        rw [if_neg (by omega)]
        obtain ⟨x, y⟩ := ih ⟨a.sigMask ||| 2 ^ (32 - sid), a.satSigMask ||| 2 ^ (64 - s.sat),
          a.cells ++ [(s.sat, sid)]⟩
        refine ⟨x, fun a' h => ?_⟩
        obtain ⟨_, y2, y3⟩ := y a' h
        refine ⟨(fun h => by cases h), fun _ => ?_, fun _ => ?_⟩
        · apply y2
          right
          intro h0
          have := (Nat.or_eq_zero_iff.mp h0).2
          have := Nat.two_pow_pos (64 - s.sat)
          omega
        · apply y3
          right
          refine ⟨32 - sid, by omega, ?_⟩
          simp [Nat.testBit_or, Nat.testBit_two_pow_self]
      · rw [foldl_sig_stuck _ _ _ (fun _ h => by cases h)]
        exact ⟨(fun w h => by cases h), fun m' h => by cases h⟩
    · rw [foldl_sig_stuck _ _ _ (fun _ h => by cases h)]
      exact ⟨(fun w h => by cases h), fun m' h => by cases h⟩

theorem foldl_cell_np (satMask sigMask sigLen cellLen : Nat) (cells : List (Nat × Nat)) (r : Res Nat)
    (hr : ∀ w, r ≠ .panic w) :
    ∀ w, cells.foldl (Msm.cellStep satMask sigMask sigLen cellLen) r ≠ .panic w := by
  induction cells generalizing r with
  | nil => exact hr
  | cons x xs ih =>
    simp only [List.foldl_cons]
    apply ih
    intro w
    unfold Msm.cellStep
    split
    · simp only []
      split <;> (intro h; cases h)
    · next hne =>
      exact hr w

theorem popcount_pos {m : Nat} (h : HasBit32 m) : 1 ≤ Msm.popcount 32 m := by
  obtain ⟨i, hi, hb⟩ := h
  unfold Msm.popcount
  apply List.length_pos_of_mem (a := i)
  simp [List.mem_filter, hi, hb]

theorem masks_spec (tbl : SigTable) (htbl : C18.tableOk tbl = true) (sats : List Msm.SatRow)
    (sigs : List Msm.SigRow) :
    (∀ w, Msm.masks tbl sats sigs ≠ .panic w) ∧
    ∀ a b c cellLen, Msm.masks tbl sats sigs = .ok (some (a, b, c, cellLen)) →
      1 ≤ cellLen ∧ cellLen ≤ 64 := by
  unfold Msm.masks
  split
  · exact ⟨(fun w h => by cases h), fun _ _ _ _ h => by cases h⟩
  · next hne =>
    obtain ⟨s1, s2⟩ := foldl_satMask sats 0
    split
    · next satMask hsat =>
      obtain ⟨g1, g2⟩ := foldl_sig tbl htbl sigs { sigMask := 0, satSigMask := 0, cells := [] }
      split
      · next acc hsig =>
        split
        · exact ⟨(fun w h => by cases h), fun _ _ _ _ h => by cases h⟩
        · next hmask =>
          simp only []
          split
          · exact ⟨(fun w h => by cases h), fun _ _ _ _ h => by cases h⟩
          · next hle =>
            have hcn := foldl_cell_np satMask acc.sigMask (Msm.popcount 32 acc.sigMask)
              (Msm.popcount 32 acc.sigMask * sats.length) acc.cells (.ok 0) (fun w h => by cases h)
            split
            · refine ⟨(fun w h => by cases h), fun a b c cellLen h => ?_⟩
              injection h with h
              injection h with h
              simp only [Prod.mk.injEq] at h
              obtain ⟨-, -, -, rfl⟩ := h
              refine ⟨?_, by omega⟩
              obtain ⟨k1, k2⟩ := s2 satMask hsat
              obtain ⟨l1, l2, l3⟩ := g2 acc hsig
              have hm : satMask = acc.satSigMask := Decidable.of_not_not hmask
              have hsats : sats ≠ [] := by
                intro h0
                have e0 := k1 h0
                have hsigs : sigs ≠ [] := by
                  intro h1; apply hne; simp [h0, h1]
                have := l2 (Or.inl hsigs)
                omega
              have hsigs : sigs ≠ [] := by
                intro h1
                have e1 := l1 h1
                have := k2 (Or.inl hsats)
                rw [hm, e1] at this
                exact this rfl
              have hp := popcount_pos (l3 (Or.inl hsigs))
              have hl : 1 ≤ sats.length := List.length_pos_iff.mpr hsats
              exact Nat.mul_le_mul hp hl
            · exact ⟨(fun w h => by cases h), fun _ _ _ _ h => by cases h⟩
            · next q hq => exact absurd hq (hcn q)
      · exact ⟨(fun w h => by cases h), fun _ _ _ _ h => by cases h⟩
      · next q hq => exact absurd hq (g1 q)
    · exact ⟨(fun w h => by cases h), fun _ _ _ _ h => by cases h⟩
    · next q hq => exact absurd hq (s1 q)


/-- every field spec of the list has admissible widths -/
def WidthsAll (fs : List (String × DfSpec)) : Prop := ∀ p ∈ fs, Widths p.2

theorem widthsAll_of_wfSpecs {fs : List (String × DfSpec)} (h : wfSpecs fs = true) : WidthsAll fs := by
  unfold wfSpecs at h
  intro p hp
  exact widths_of_wf (List.all_eq_true.mp h p hp)

theorem encColumn_es (cfg : Cfg) (s : DfSpec) (hs : Widths s) (j : Nat) (rows : List (List (List Tok)))
    (c : Cur) (hc : Good c) : ESC (Msm.encColumn cfg s j rows c) c := by
  induction rows generalizing c with
  | nil => exact Ext.refl hc
  | cons row rows ih =>
    unfold Msm.encColumn
    have h := dfEncode_es cfg s (row.getD j []) c hs hc
    split
    · next c' _ hp =>
      rw [hp] at h
      exact ESC.trans h (ih c' h.good)
    · trivial
    · next q hq => rw [hq] at h; exact h

theorem encColumns_es (cfg : Cfg) (rows : List (List (List Tok))) (j : Nat)
    (fs : List (String × DfSpec)) (hfs : WidthsAll fs) (c : Cur) (hc : Good c) :
    ESC (Msm.encColumns cfg rows j fs c) c := by
  induction fs generalizing c j with
  | nil => exact Ext.refl hc
  | cons f fs ih =>
    obtain ⟨name, s⟩ := f
    unfold Msm.encColumns
    have h := encColumn_es cfg s (hfs (name, s) (by simp)) j rows c hc
    split
    · next c' hp =>
      rw [hp] at h
      exact ESC.trans h (ih (j + 1) (fun p hp => hfs p (by simp [hp])) c' h.good)
    · trivial
    · next q hq => rw [hq] at h; exact h

theorem msmEncode_es (cfg : Cfg) (tbl : SigTable) (htbl : C18.tableOk tbl = true)
    (satFields sigFields : List (String × DfSpec)) (hsat : WidthsAll satFields)
    (hsig : WidthsAll sigFields) (sats : List Msm.SatRow) (sigs : List Msm.SigRow) (c : Cur)
    (hc : Good c) : ESC (Msm.encode cfg tbl satFields sigFields sats sigs c) c := by
  obtain ⟨mnp, mlen⟩ := masks_spec tbl htbl sats sigs
  unfold Msm.encode
  split
  · have h := putU_es cfg 64 0 64 c (by omega) (by omega) (by omega) (by omega) hc
    split
    · next c1 hp =>
      rw [hp] at h
      exact ESC.trans h (putU_es cfg 32 0 32 c1 (by omega) (by omega) (by omega) (by omega) h.good)
    · trivial
    · next q hq => rw [hq] at h; exact h
  · next satMask sigMask cellMask cellLen hm =>
    obtain ⟨hl1, hl64⟩ := mlen _ _ _ _ hm
    have h := putU_es cfg 64 satMask 64 c (by omega) (by omega) (by omega) (by omega) hc
    split
    · next c1 hp =>
      rw [hp] at h
      have h2 := putU_es cfg 32 sigMask 32 c1 (by omega) (by omega) (by omega) (by omega) h.good
      split
      · next c2 hp2 =>
        rw [hp2] at h2
        have h3 := putU_es cfg 64 cellMask cellLen c2 (by omega) (by omega) hl1 hl64 h2.good
        split
        · next c3 hp3 =>
          rw [hp3] at h3
          simp only []
          have h4 := encColumns_es cfg
            ((Sig.sortBy (fun a b : Msm.SatRow => decide (a.id ≤ b.id)) sats).map (·.fields)) 0 satFields
            hsat c3 h3.good
          split
          · next c4 hp4 =>
            rw [hp4] at h4
            exact ESC.trans h (ESC.trans h2 (ESC.trans h3 (ESC.trans h4
              (encColumns_es cfg _ 0 sigFields hsig c4 h4.good))))
          · trivial
          · next q hq => rw [hq] at h4; exact h4
        · trivial
        · next q hq => rw [hq] at h3; exact h3
      · trivial
      · next q hq => rw [hq] at h2; exact h2
    · trivial
    · next q hq => rw [hq] at h; exact h
  · trivial
  · next q hq => exact absurd hq (mnp q)

/-! ### combinators -/

theorem encRepeat_es (f : Enc) (hf : ∀ ts c, Good c → ES (f ts c) c) (n : Nat) (ts : List Tok) (c : Cur)
    (hc : Good c) : ES (encRepeat f n ts c) c := by
  induction n generalizing ts c with
  | zero => exact Ext.refl hc
  | succ n ih =>
    unfold encRepeat
    have h := hf ts c hc
    split
    · next c' ts' hp =>
      rw [hp] at h
      exact ES.trans h (ih ts' c' h.good)
    · trivial
    · next q hq => rw [hq] at h; exact h

/-- close a goal `ES (.panic "tokens…") c` / `TokPanic "tokens…"` for a literal -/
macro "tokp" : tactic => `(tactic| (show TokPanic _; unfold TokPanic; decide +kernel))

theorem wf_of_wfCount {l : DfSpec} (h : wfCount l = true) : DfWf.wf l = true := by
  unfold wfCount at h
  simp only [Bool.and_eq_true] at h
  exact h.1.1.1.1

mutual
theorem encFrag_es (cfg : Cfg) (glo : SigTable) :
    ∀ (f : Frag), WFFrag f = true → ∀ ts c, Good c → ES (encFrag cfg glo f ts c) c
  | .df s, hw, ts, c, hc => by
    unfold WFFrag at hw
    unfold encFrag
    exact dfEncode_es cfg s ts c (widths_of_wf hw) hc
  | .str cap lenBits, hw, ts, c, hc => by
    unfold WFFrag at hw
    simp only [Bool.and_eq_true, decide_eq_true_eq] at hw
    unfold encFrag
    split
    · next b rest =>
      split
      · tokp
      · exact lift_es rest (strEncode_es cfg lenBits (b.map pushNorm) c hw.1 hw.2 hc)
    · tokp
  | .text1029, _, ts, c, hc => by
    unfold encFrag
    split
    · next b rest =>
      split
      · tokp
      · exact lift_es rest (text1029Encode_es cfg b c hc)
    · tokp
  | .bias1059 cap tbl, _, ts, c, hc => by
    unfold encFrag
    split
    · next n rest =>
      split
      · tokp
      · split
        · next es rest' _ =>
          exact lift_es rest' (biasEncode_es cfg (params1059 cap tbl) (by show 1 ≤ 6; omega)
            (by show 6 ≤ 8; omega) es c hc)
        · tokp
    · tokp
  | .bias1065 cap tbl, _, ts, c, hc => by
    unfold encFrag
    split
    · next n rest =>
      split
      · tokp
      · split
        · next es rest' _ =>
          exact lift_es rest' (biasEncode_es cfg (params1065 cap tbl) (by show 1 ≤ 5; omega)
            (by show 5 ≤ 8; omega) es c hc)
        · tokp
    · tokp
  | .bias1230, _, ts, c, hc => by
    unfold encFrag
    split
    · next n rest =>
      split
      · tokp
      · split
        · next es rest' _ => exact lift_es rest' (encode1230_es cfg glo es c hc)
        · tokp
    · tokp
  | .seq fs, hw, ts, c, hc => by
    unfold WFFrag at hw
    unfold encFrag
    exact encFields_es cfg glo fs hw ts c hc
  | .lenMiddle f1 l f2 e cap, hw, ts, c, hc => by
    unfold WFFrag at hw
    simp only [Bool.and_eq_true] at hw
    obtain ⟨⟨⟨h1, hl⟩, h2⟩, he⟩ := hw
    unfold encFrag
    have a1 := encFields_es cfg glo f1 h1 ts c hc
    split
    · next c1 ts1 hp1 =>
      rw [hp1] at a1
      split
      · next n ts2 =>
        split
        · tokp
        · have a2 := dfEncode_es cfg l [.int n] c1 (widths_of_wf (wf_of_wfCount hl)) a1.good
          split
          · next c2 _ hp2 =>
            rw [hp2] at a2
            have a3 := encFields_es cfg glo f2 h2 ts2 c2 a2.good
            split
            · next c3 ts3 hp3 =>
              rw [hp3] at a3
              exact ES.trans a1 (ES.trans a2 (ES.trans a3
                (encRepeat_es _ (encFrag_es cfg glo e he) n ts3 c3 a3.good)))
            · trivial
            · next q hq => rw [hq] at a3; exact a3
          · trivial
          · next q hq => rw [hq] at a2; exact a2
      · tokp
    · trivial
    · next q hq => rw [hq] at a1; exact a1
  | .vecWithLen e cap lenBits, hw, ts, c, hc => by
    unfold WFFrag at hw
    simp only [Bool.and_eq_true, decide_eq_true_eq] at hw
    obtain ⟨⟨h1, h16⟩, he⟩ := hw
    unfold encFrag
    split
    · next n rest =>
      split
      · tokp
      · rcases put_ext cfg ⟨.u, 16⟩ c (n % 65536) lenBits (by decide) (by decide) h1 h16 hc with
          h | ⟨d, o, h, hext⟩ <;> rw [h]
        · trivial
        · exact ES.trans hext (encRepeat_es _ (encFrag_es cfg glo e he) n rest _ hext.good)
    · tokp
  | .grid16 e, hw, ts, c, hc => by
    unfold WFFrag at hw
    unfold encFrag
    exact encRepeat_es _ (encFrag_es cfg glo e hw) 16 ts c hc
  | .msm tbl sat sig, hw, ts, c, hc => by
    unfold WFFrag at hw
    simp only [Bool.and_eq_true] at hw
    unfold encFrag
    split
    · next ns rest =>
      split
      · tokp
      · split
        · next sats ng rest2 _ =>
          split
          · tokp
          · split
            · next sigs rest3 _ =>
              exact lift_es rest3 (msmEncode_es cfg tbl hw.1.1 sat sig (widthsAll_of_wfSpecs hw.1.2)
                (widthsAll_of_wfSpecs hw.2) sats sigs c hc)
            · tokp
        · tokp
    · tokp
theorem encFields_es (cfg : Cfg) (glo : SigTable) :
    ∀ (fs : Fields), WFFields fs = true → ∀ ts c, Good c → ES (encFields cfg glo fs ts c) c
  | .nil, _, ts, c, hc => by
    unfold encFields
    exact Ext.refl hc
  | .cons _ f rest, hw, ts, c, hc => by
    unfold WFFields at hw
    simp only [Bool.and_eq_true] at hw
    unfold encFields
    have a1 := encFrag_es cfg glo f hw.1 ts c hc
    split
    · next c' ts' hp =>
      rw [hp] at a1
      exact ES.trans a1 (encFields_es cfg glo rest hw.2 ts' c' a1.good)
    · trivial
    · next q hq => rw [hq] at a1; exact a1
end

end Rtcm.NoPanic
