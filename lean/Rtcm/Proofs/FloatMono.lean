import Rtcm.Proofs.Float
/-!
# Monotonicity of the soft-float rounding (`rmv`, `rnd`) and of `truncRat`
-/
namespace Rtcm.SoftFloat

private theorem two_pow_mul_pow2 (p : Nat) (e : Int) :
    (((2 ^ p : Nat) : Int) : ℚ) * pow2 (e - ((p : Int) - 1)) = pow2 (e + 1) := by
  have h : ((2 ^ p : Nat) : Int) = (2 : Int) ^ p := by push_cast; rfl
  rw [h]
  push_cast
  rw [← pow2_natCast, ← pow2_add]
  congr 1; ring

private theorem two_pow_pred_mul_pow2 (p : Nat) (hp : 1 ≤ p) (e : Int) :
    (((2 ^ (p - 1) : Nat) : Int) : ℚ) * pow2 (e - ((p : Int) - 1)) = pow2 e := by
  have h : ((2 ^ (p - 1) : Nat) : Int) = (2 : Int) ^ (p - 1) := by push_cast; rfl
  rw [h]
  push_cast
  rw [← pow2_natCast, ← pow2_add]
  congr 1
  have : ((p - 1 : Nat) : Int) = (p : Int) - 1 := by omega
  rw [this]; ring

/-- the rounded value stays below the next power of two -/
theorem rmv_le_pow2_succ (fmt : Fmt) {x : ℚ} (hx : 0 < x) :
    rmv fmt x ≤ pow2 (max (ilog2 x) fmt.emin + 1) := by
  unfold rmv texp
  generalize he : max (ilog2 x) fmt.emin = e
  have hle : ilog2 x ≤ e := by rw [← he]; exact le_max_left _ _
  have hpt := pow2_pos (e - ((fmt.p : Int) - 1))
  have h1 : x ≤ pow2 (e + 1) :=
    le_trans (lt_pow2_ilog2_succ x hx).le (pow2_le_pow2 (by omega))
  have h2 : x / pow2 (e - ((fmt.p : Int) - 1)) ≤ (((2 ^ fmt.p : Nat) : Int) : ℚ) := by
    rw [div_le_iff₀ hpt, two_pow_mul_pow2]; exact h1
  have h3 := rneInt_le_of_le_int h2
  have h4 : (rneInt (x / pow2 (e - ((fmt.p : Int) - 1))) : ℚ)
      ≤ (((2 ^ fmt.p : Nat) : Int) : ℚ) := by exact_mod_cast h3
  calc (rneInt (x / pow2 (e - ((fmt.p : Int) - 1))) : ℚ) * pow2 (e - ((fmt.p : Int) - 1))
      ≤ (((2 ^ fmt.p : Nat) : Int) : ℚ) * pow2 (e - ((fmt.p : Int) - 1)) :=
        mul_le_mul_of_nonneg_right h4 hpt.le
    _ = pow2 (e + 1) := two_pow_mul_pow2 _ _

/-- in the normal range the rounded value stays above the enclosing power of two -/
theorem pow2_ilog2_le_rmv (fmt : Fmt) (hp : 1 ≤ fmt.p) {y : ℚ} (hy : 0 < y)
    (hn : fmt.emin ≤ ilog2 y) : pow2 (ilog2 y) ≤ rmv fmt y := by
  unfold rmv texp
  rw [max_eq_left hn]
  have hle := pow2_ilog2_le y hy
  generalize ilog2 y = e at *
  have hpt := pow2_pos (e - ((fmt.p : Int) - 1))
  have h2 : (((2 ^ (fmt.p - 1) : Nat) : Int) : ℚ) ≤ y / pow2 (e - ((fmt.p : Int) - 1)) := by
    rw [le_div_iff₀ hpt, two_pow_pred_mul_pow2 _ hp]; exact hle
  have h3 := rneInt_ge_of_ge_int h2
  have h4 : (((2 ^ (fmt.p - 1) : Nat) : Int) : ℚ)
      ≤ (rneInt (y / pow2 (e - ((fmt.p : Int) - 1))) : ℚ) := by exact_mod_cast h3
  calc pow2 e = (((2 ^ (fmt.p - 1) : Nat) : Int) : ℚ) * pow2 (e - ((fmt.p : Int) - 1)) :=
        (two_pow_pred_mul_pow2 _ hp _).symm
    _ ≤ _ := mul_le_mul_of_nonneg_right h4 hpt.le

theorem rmv_mono (fmt : Fmt) (hp : 1 ≤ fmt.p) {x y : ℚ} (hx : 0 ≤ x) (hxy : x ≤ y) :
    rmv fmt x ≤ rmv fmt y := by
  rcases hx.eq_or_lt with h0 | hpos
  · subst h0; rw [rmv_zero]; exact rmv_nonneg fmt hxy
  have hy : 0 < y := lt_of_lt_of_le hpos hxy
  have hil := ilog2_mono hpos hxy
  by_cases hee : max (ilog2 x) fmt.emin = max (ilog2 y) fmt.emin
  · have ht : texp fmt x = texp fmt y := by unfold texp; rw [hee]
    unfold rmv
    rw [ht]
    have hpt := pow2_pos (texp fmt y)
    have h1 : x / pow2 (texp fmt y) ≤ y / pow2 (texp fmt y) :=
      div_le_div_of_nonneg_right hxy hpt.le
    have h2 := rneInt_mono h1
    have h3 : (rneInt (x / pow2 (texp fmt y)) : ℚ) ≤ (rneInt (y / pow2 (texp fmt y)) : ℚ) := by
      exact_mod_cast h2
    exact mul_le_mul_of_nonneg_right h3 hpt.le
  · have hlt : max (ilog2 x) fmt.emin < max (ilog2 y) fmt.emin := by
      have : max (ilog2 x) fmt.emin ≤ max (ilog2 y) fmt.emin := max_le_max_right _ hil
      omega
    have hn : fmt.emin < ilog2 y := by
      rcases le_total (ilog2 y) fmt.emin with h | h
      · exfalso
        rw [max_eq_right h, max_eq_right (le_trans hil h)] at hlt
        exact lt_irrefl _ hlt
      · rw [max_eq_left h] at hlt
        exact lt_of_le_of_lt (le_max_right _ _) hlt
    have hey : max (ilog2 y) fmt.emin = ilog2 y := max_eq_left hn.le
    rw [hey] at hlt
    calc rmv fmt x ≤ pow2 (max (ilog2 x) fmt.emin + 1) := rmv_le_pow2_succ fmt hpos
      _ ≤ pow2 (ilog2 y) := pow2_le_pow2 (by omega)
      _ ≤ rmv fmt y := pow2_ilog2_le_rmv fmt hp hy hn.le

theorem rnd_mono (fmt : Fmt) (hp : 1 ≤ fmt.p) {x y : ℚ} (hxy : x ≤ y) :
    rnd fmt x ≤ rnd fmt y := by
  rcases le_total 0 x with hx | hx
  · rw [rnd_of_nonneg fmt hx, rnd_of_nonneg fmt (le_trans hx hxy)]
    exact rmv_mono fmt hp hx hxy
  · rcases le_total 0 y with hy | hy
    · exact le_trans (rnd_nonpos fmt hx) (rnd_nonneg fmt hy)
    · have hx' : 0 ≤ -x := by linarith
      have hy' : 0 ≤ -y := by linarith
      have ex : x = -(-x) := by ring
      have ey : y = -(-y) := by ring
      rw [ex, ey, rnd_neg_of_nonneg fmt hx', rnd_neg_of_nonneg fmt hy']
      have := rmv_mono fmt hp hy' (by linarith : -y ≤ -x)
      linarith

theorem truncRat_mono {x y : ℚ} (hxy : x ≤ y) : truncRat x ≤ truncRat y := by
  unfold truncRat
  split_ifs with h1 h2 h2
  · have hyx : -y ≤ -x := by linarith
    have : (-y).floor ≤ (-x).floor := by
      show ⌊-y⌋ ≤ ⌊-x⌋
      exact Int.floor_le_floor hyx
    omega
  · have hx0 : 0 ≤ -x := by linarith
    have a : 0 ≤ (-x).floor := by
      show 0 ≤ ⌊-x⌋
      exact Int.floor_nonneg.mpr hx0
    have b : 0 ≤ y.floor := by
      show 0 ≤ ⌊y⌋
      exact Int.floor_nonneg.mpr (not_lt.mp h2)
    omega
  · exfalso; linarith
  · show ⌊x⌋ ≤ ⌊y⌋
    exact Int.floor_le_floor hxy

/-- rounding never crosses a representable value (here: an integer below 2^p) -/
theorem rmv_le_natCast (fmt : Fmt) (hp : 1 ≤ fmt.p) (hemin : fmt.emin ≤ (fmt.p : Int) - 1)
    {x : ℚ} (hx : 0 ≤ x) (n : Nat) (hn : n < 2 ^ fmt.p) (h : x ≤ n) : rmv fmt x ≤ n := by
  have := rmv_mono fmt hp hx h
  rwa [rmv_natCast fmt hemin n hn] at this

theorem natCast_le_rmv (fmt : Fmt) (hp : 1 ≤ fmt.p) (hemin : fmt.emin ≤ (fmt.p : Int) - 1)
    {x : ℚ} (n : Nat) (hn : n < 2 ^ fmt.p) (h : (n : ℚ) ≤ x) : (n : ℚ) ≤ rmv fmt x := by
  have := rmv_mono fmt hp (Nat.cast_nonneg n) h
  rwa [rmv_natCast fmt hemin n hn] at this

end Rtcm.SoftFloat

#print axioms Rtcm.SoftFloat.rmv_mono
#print axioms Rtcm.SoftFloat.rnd_mono
#print axioms Rtcm.SoftFloat.truncRat_mono
#print axioms Rtcm.SoftFloat.rmv_le_natCast
#print axioms Rtcm.SoftFloat.natCast_le_rmv
