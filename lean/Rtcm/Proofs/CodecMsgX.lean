import Rtcm.Proofs.CodecMsg
import Rtcm.Proofs.SpecialRows
/-!
# From `LawX` to frames (rows whose law has side conditions)
-/
namespace Rtcm.CodecMsgX
open Rtcm.Message Rtcm.Schema Rtcm.Interp Rtcm.WF Rtcm.CodecLaw Rtcm.DecLocal Rtcm.BuildShape Rtcm.Bits
open Rtcm.CodecMsg Rtcm.SpecialRows

theorem normal_form_of_lawX (cfg : Cfg) (tbl : List MsgRow) (htbl : ∀ row ∈ tbl, WFFrag row.frag = true)
    (glo : SigTable) (n : Nat) (hn : n < 4096) (toks : List Tok) (fr : List Nat) (row : MsgRow)
    (hrow : findRow tbl n = some row) {P : Nat → Prop} {C : List Tok → Prop} {R : List Tok → List Tok → Prop}
    (hlaw : LawX (encFrag cfg glo row.frag) (decFrag cfg row.frag) P C R) (hP : P 12)
    (hloc : Local (decFrag cfg row.frag)) (hok : TokOK toks) (hC : C toks)
    (h : (Builder.new.build cfg tbl glo (.typed n toks)).2 = .ok fr) :
    ∃ f nt, frameNew (fr.map UInt8.ofNat) = .ok f ∧ decodeFrame cfg tbl f = .ok (.typed n nt) ∧
      (Builder.new.build cfg tbl glo (.typed n nt)).2 = .ok fr := by
  obtain ⟨row', w1, c, hrow', hgood, hwl, hput, henc, hE, hhi, rfl⟩ :=
    build_new_shape cfg tbl htbl glo n toks fr h
  rw [hrow] at hrow'
  injection hrow' with hrow'
  subst hrow'
  obtain ⟨_, _, nt, hdec, hre, _⟩ :=
    hlaw toks ⟨w1, 12⟩ c [] hgood (by show 12 ≤ 8 * w1.length; omega) hP hok hC henc
  have hcl : c.data.length = 1023 := by have := hE.len; simp only at this; rw [this, hwl]
  obtain ⟨f, hf, hd⟩ := decode_built cfg tbl n row c nt hrow hn hE.good hcl hE.mono hhi
    (number_survives cfg n hn w1 c hput hE) hloc c (Nat.le_refl _) hdec
  refine ⟨f, nt, hf, hd, ?_⟩
  have := hre []
  rw [List.append_nil] at this
  exact build_new_eq cfg tbl glo n nt row w1 c hrow hput this hcl hhi

theorem fixpoint_of_lawX (cfg : Cfg) (tbl : List MsgRow) (htbl : ∀ row ∈ tbl, WFFrag row.frag = true)
    (glo : SigTable) (n : Nat) (hn : n < 4096) (toks : List Tok) (fr : List Nat) (row : MsgRow)
    (hrow : findRow tbl n = some row) {P : Nat → Prop} {C : List Tok → Prop} {R : List Tok → List Tok → Prop}
    (hlaw : LawX (encFrag cfg glo row.frag) (decFrag cfg row.frag) P C R) (hP : P 12)
    (hloc : Local (decFrag cfg row.frag)) (hok : TokOK toks) (hC : C toks)
    (hdec0 : ∃ c0 c0', decFrag cfg row.frag c0 = .ok (toks, c0'))
    (h : (Builder.new.build cfg tbl glo (.typed n toks)).2 = .ok fr) :
    ∃ f nt, frameNew (fr.map UInt8.ofNat) = .ok f ∧ decodeFrame cfg tbl f = .ok (.typed n nt) ∧ R toks nt := by
  obtain ⟨row', w1, c, hrow', hgood, hwl, hput, henc, hE, hhi, rfl⟩ :=
    build_new_shape cfg tbl htbl glo n toks fr h
  rw [hrow] at hrow'
  injection hrow' with hrow'
  subst hrow'
  obtain ⟨_, _, nt, hdec, _, hfix⟩ :=
    hlaw toks ⟨w1, 12⟩ c [] hgood (by show 12 ≤ 8 * w1.length; omega) hP hok hC henc
  obtain ⟨c0, c0', h0⟩ := hdec0
  obtain ⟨hR, _⟩ := hfix c0 toks c0' [] h0 (List.append_nil _).symm
  have hcl : c.data.length = 1023 := by have := hE.len; simp only at this; rw [this, hwl]
  obtain ⟨f, hf, hd⟩ := decode_built cfg tbl n row c nt hrow hn hE.good hcl hE.mono hhi
    (number_survives cfg n hn w1 c hput hE) hloc c (Nat.le_refl _) hdec
  exact ⟨f, nt, hf, hd, hR⟩

/-- from the weak law: a built frame decodes to a message of the same type whose tokens satisfy `Q` -/
theorem decodes_of_lawW (cfg : Cfg) (tbl : List MsgRow) (htbl : ∀ row ∈ tbl, WFFrag row.frag = true)
    (glo : SigTable) (n : Nat) (hn : n < 4096) (toks : List Tok) (fr : List Nat) (row : MsgRow)
    (hrow : findRow tbl n = some row) {P : Nat → Prop} {Q : List Tok → Prop}
    (hlaw : LawW (encFrag cfg glo row.frag) (decFrag cfg row.frag) P Q) (hP : P 12)
    (hloc : Local (decFrag cfg row.frag))
    (h : (Builder.new.build cfg tbl glo (.typed n toks)).2 = .ok fr) :
    ∃ f nt, frameNew (fr.map UInt8.ofNat) = .ok f ∧ decodeFrame cfg tbl f = .ok (.typed n nt) ∧ Q nt := by
  obtain ⟨row', w1, c, hrow', hgood, hwl, hput, henc, hE, hhi, rfl⟩ :=
    build_new_shape cfg tbl htbl glo n toks fr h
  rw [hrow] at hrow'
  injection hrow' with hrow'
  subst hrow'
  obtain ⟨_, nt, c'', hdec, hdata, hstop, hq⟩ :=
    hlaw toks ⟨w1, 12⟩ c [] hgood (by show 12 ≤ 8 * w1.length; omega) hP henc
  have hcl : c.data.length = 1023 := by have := hE.len; simp only at this; rw [this, hwl]
  obtain ⟨f, hf, hd⟩ := decode_built cfg tbl n row c nt hrow hn hE.good hcl hE.mono hhi
    (number_survives cfg n hn w1 c hput hE) hloc c'' hstop hdec
  exact ⟨f, nt, hf, hd, hq⟩

theorem lawW_seq {cfg : Cfg} {glo : SigTable} {fs : Fields} {P : Nat → Prop} {Q : List Tok → Prop}
    (h : LawW (encFields cfg glo fs) (decFields cfg fs) P Q) :
    LawW (encFrag cfg glo (.seq fs)) (decFrag cfg (.seq fs)) P Q := by
  refine h.congr ?_ ?_
  · intro ts c; rw [encFrag]
  · intro c; rw [decFrag]

/-- `msg!` around a field list -/
theorem lawX_seq {cfg : Cfg} {glo : SigTable} {fs : Fields} {P : Nat → Prop} {C : List Tok → Prop}
    {R : List Tok → List Tok → Prop} (h : LawX (encFields cfg glo fs) (decFields cfg fs) P C R) :
    LawX (encFrag cfg glo (.seq fs)) (decFrag cfg (.seq fs)) P C R := by
  refine h.congr ?_ ?_
  · intro ts c; rw [encFrag]
  · intro c; rw [decFrag]

theorem local_seq_frag {cfg : Cfg} {fs : Fields} (h : Local (decFields cfg fs)) :
    Local (decFrag cfg (.seq fs)) := by
  refine h.congr ?_
  intro c; rw [decFrag]

theorem cleanDfs_true : ∀ (ss : List (String × DfSpec)) (ts : List Tok), CleanDfs ss (fun _ => True) ts := by
  intro ss
  induction ss with
  | nil => intro _; trivial
  | cons f ss ih =>
    intro ts
    obtain ⟨n, s⟩ := f
    intro t r _
    exact ih r

theorem relDfs_eq {t0 nt : List Tok} (h : RelDfs Eq t0 nt) : nt = t0 := by
  obtain ⟨hdr, tl, tl', _, rfl, rfl, rfl⟩ := h
  rfl

end Rtcm.CodecMsgX
