import Rtcm.Proofs.CurLaws
import Rtcm.Proofs.WFFrag
import Rtcm.Proofs.NoPanicEnc
import Rtcm.Proofs.InterpList
/-!
# Decoders are local

A successful decode keeps the buffer, only moves the cursor forward, and depends only on the bits
between the old and the new cursor: from ANY byte buffer `D'` that has room up to the new cursor and
carries the same bits on `[o, o')`, the decoder returns the same tokens and stops at the same offset
(`Local`).  In particular the buffer may be SHORTER than the one the frame was written into — this
is how the 1023-byte window of the builder is cut down to the payload of the frame.

`Local` composes (`decFields`, `decRepeat`), so that the fragment-level codec law (`CodecLaw.lean`)
only has to speak about decoding from the buffer the encoder left.
-/
namespace Rtcm.DecLocal
open Rtcm.Bits Rtcm.Schema Rtcm.Interp Rtcm.CurLaws Rtcm.Text Rtcm.WF

/-- a byte buffer -/
def Bytes (D : List Nat) : Prop := ∀ d ∈ D, d < 256

/-- locality of a reader returning a value and the new cursor -/
def LocalG {α : Type} (d : Cur → Res (α × Cur)) : Prop :=
  ∀ D o t c', d ⟨D, o⟩ = .ok (t, c') → c'.data = D ∧ o ≤ c'.off ∧
    ∀ D', Bytes D → Bytes D' → c'.off ≤ 8 * D'.length → AgreeOn D' D o c'.off →
      d ⟨D', o⟩ = .ok (t, ⟨D', c'.off⟩)

/-- locality of a decoder -/
abbrev Local (d : Dec) : Prop := LocalG d

/-! ### one field -/

/-- a successful `parse` of a field of sane widths fits, and reads the same from an agreeing buffer -/
theorem parse_local (cfg : Cfg) (it : IT) (hw8 : 8 ≤ it.w) (hw64 : it.w ≤ 64) {len : Nat}
    (h1 : 1 ≤ len) (hlw : len ≤ it.w) {D : List Nat} {o v o1 : Nat}
    (h : parse cfg it D o len = .ok (v, o1)) :
    o1 = o + len ∧ o + len ≤ 8 * D.length ∧
    ∀ D', o + len ≤ 8 * D'.length → AgreeOn D' D o (o + len) →
      parse cfg it D' o len = .ok (v, o + len) := by
  by_cases hfit : o + len ≤ 8 * D.length
  · have hp := C07.parse_bits cfg it D o len hw8 hw64 h1 hlw hfit
    rw [hp] at h
    simp only [Res.ok.injEq, Prod.mk.injEq] at h
    obtain ⟨rfl, rfl⟩ := h
    refine ⟨rfl, hfit, ?_⟩
    intro D' hfit' ha
    rw [C07.parse_bits cfg it D' o len hw8 hw64 h1 hlw hfit', fieldValue_congr ha]
  · rw [C07.parse_overflow_error cfg it D o len (by omega)] at h
    cases h

theorem parseF_local (cfg : Cfg) (it : IT) (hw8 : 8 ≤ it.w) (hw64 : it.w ≤ 64) {len : Nat}
    (h1 : 1 ≤ len) (hlw : len ≤ it.w) {D : List Nat} {o v : Nat} {c1 : Cur}
    (h : parseF cfg it len ⟨D, o⟩ = .ok (v, c1)) :
    c1 = ⟨D, o + len⟩ ∧ o + len ≤ 8 * D.length ∧
    ∀ D', o + len ≤ 8 * D'.length → AgreeOn D' D o (o + len) →
      parseF cfg it len ⟨D', o⟩ = .ok (v, ⟨D', o + len⟩) := by
  unfold parseF at h
  split at h
  · next v' o1 hp =>
    simp only [Res.ok.injEq, Prod.mk.injEq] at h
    obtain ⟨rfl, rfl⟩ := h
    obtain ⟨rfl, hfit, hloc⟩ := parse_local cfg it hw8 hw64 h1 hlw hp
    refine ⟨rfl, hfit, ?_⟩
    intro D' hf ha
    unfold parseF
    simp only
    rw [hloc D' hf ha]
  · cases h
  · cases h

theorem parseU_local (cfg : Cfg) {w : Nat} (hw8 : 8 ≤ w) (hw64 : w ≤ 64) {len : Nat}
    (h1 : 1 ≤ len) (hlw : len ≤ w) {D : List Nat} {o v : Nat} {c1 : Cur}
    (h : parseU cfg w len ⟨D, o⟩ = .ok (v, c1)) :
    c1 = ⟨D, o + len⟩ ∧ o + len ≤ 8 * D.length ∧
    ∀ D', o + len ≤ 8 * D'.length → AgreeOn D' D o (o + len) →
      parseU cfg w len ⟨D', o⟩ = .ok (v, ⟨D', o + len⟩) :=
  parseF_local cfg ⟨.u, w⟩ hw8 hw64 h1 hlw h

/-! ### `Df.decode` -/

theorem df_local (cfg : Cfg) (s : DfSpec) (hs : NoPanic.Widths s) : Local (Df.decode cfg s) := by
  obtain ⟨hw8, hw64, h1, hlw⟩ := hs
  intro D o t c' h
  unfold Df.decode at h
  simp only at h
  split at h
  · next p o1 hp =>
    obtain ⟨rfl, hfit, hloc⟩ := parse_local cfg s.it hw8 hw64 h1 hlw hp
    have key : ∀ D' : List Nat, parse cfg s.it D' o s.len = .ok (p, o + s.len) →
        ∀ tt cc, Df.decode cfg s ⟨D, o⟩ = .ok (tt, cc) →
          cc = ⟨D, o + s.len⟩ ∧ Df.decode cfg s ⟨D', o⟩ = .ok (tt, ⟨D', o + s.len⟩) := by
      intro D' hp' tt cc hd
      unfold Df.decode at hd ⊢
      simp only at hd ⊢
      rw [hp] at hd
      rw [hp']
      simp only at hd ⊢
      cases hq : Df.dequantise cfg s (Df.carrierVal s.it p) with
      | ok tk =>
        rw [hq] at hd
        simp only at hd ⊢
        cases hi : s.inv with
        | none =>
          rw [hi] at hd
          simp only [Res.ok.injEq, Prod.mk.injEq] at hd
          obtain ⟨rfl, rfl⟩ := hd
          exact ⟨rfl, rfl⟩
        | some inv =>
          rw [hi] at hd
          simp only at hd ⊢
          split at hd
          · next heq =>
            rw [if_pos heq]
            simp only [Res.ok.injEq, Prod.mk.injEq] at hd
            obtain ⟨rfl, rfl⟩ := hd
            exact ⟨rfl, rfl⟩
          · next hne =>
            rw [if_neg hne]
            simp only [Res.ok.injEq, Prod.mk.injEq] at hd
            obtain ⟨rfl, rfl⟩ := hd
            exact ⟨rfl, rfl⟩
      | err e => rw [hq] at hd; cases hd
      | panic w => rw [hq] at hd; cases hd
    have hd : Df.decode cfg s ⟨D, o⟩ = .ok (t, c') := by
      unfold Df.decode
      simp only
      rw [hp]
      exact h
    obtain ⟨rfl, -⟩ := key D hp t c' hd
    refine ⟨rfl, Nat.le_add_right _ _, ?_⟩
    intro D' _ _ hf ha
    exact (key D' (hloc D' hf ha) t _ hd).2
  · cases h
  · cases h

/-! ### composition -/

theorem localG_pure {α : Type} (a : α) : LocalG (fun c => .ok (a, c)) := by
  intro D o t c' h
  simp only [Res.ok.injEq, Prod.mk.injEq] at h
  obtain ⟨rfl, rfl⟩ := h
  exact ⟨rfl, Nat.le_refl _, fun D' _ _ _ _ => rfl⟩

/-- sequencing two local readers (the second may depend on the value read by the first) -/
theorem localG_bind {α β γ : Type} {d1 : Cur → Res (α × Cur)} {d2 : α → Cur → Res (β × Cur)}
    (h1 : LocalG d1) (h2 : ∀ a, LocalG (d2 a)) (g : α → β → γ) :
    LocalG (fun c =>
      match d1 c with
      | .ok (t, c') =>
        match d2 t c' with
        | .ok (ts, c'') => .ok (g t ts, c'')
        | .err e => .err e
        | .panic w => .panic w
      | .err e => .err e
      | .panic w => .panic w) := by
  intro D o t c' h
  simp only at h
  split at h
  · next t1 c1 e1 =>
    split at h
    · next t2 c2 e2 =>
      simp only [Res.ok.injEq, Prod.mk.injEq] at h
      obtain ⟨rfl, rfl⟩ := h
      obtain ⟨hd1, hm1, l1⟩ := h1 D o t1 c1 e1
      obtain ⟨D1, o1⟩ := c1
      simp only at hd1 hm1 l1
      subst hd1
      obtain ⟨hd2, hm2, l2⟩ := h2 t1 D1 o1 t2 c2 e2
      refine ⟨hd2, Nat.le_trans hm1 hm2, ?_⟩
      intro D' hb hb' hf ha
      simp only
      rw [l1 D' hb hb' (by omega) (ha.mono (Nat.le_refl _) hm2)]
      simp only
      rw [l2 D' hb hb' hf (ha.mono hm1 (Nat.le_refl _))]
    · cases h
    · cases h
  · cases h
  · cases h

/-- post-processing of the value keeps locality -/
theorem localG_map {α β : Type} {d : Cur → Res (α × Cur)} (hd : LocalG d) (g : α → β) :
    LocalG (fun c =>
      match d c with
      | .ok (t, c') => .ok (g t, c')
      | .err e => .err e
      | .panic w => .panic w) := by
  intro D o t c' h
  simp only at h
  split at h
  · next t1 c1 e1 =>
    simp only [Res.ok.injEq, Prod.mk.injEq] at h
    obtain ⟨rfl, rfl⟩ := h
    obtain ⟨h1, h2, h3⟩ := hd D o t1 c1 e1
    refine ⟨h1, h2, ?_⟩
    intro D' hb hb' hf ha
    simp only
    rw [h3 D' hb hb' hf ha]
  · cases h
  · cases h

/-- a guard on the value read so far -/
theorem localG_guard {α β : Type} {d1 : Cur → Res (α × Cur)} {d2 : α → Cur → Res (β × Cur)}
    (h1 : LocalG d1) (h2 : ∀ a, LocalG (d2 a)) (p : α → Prop) [DecidablePred p] (e0 : RtcmError) :
    LocalG (fun c =>
      match d1 c with
      | .ok (t, c') => if p t then .err e0 else d2 t c'
      | .err e => .err e
      | .panic w => .panic w) := by
  intro D o t c' h
  simp only at h
  split at h
  · next t1 c1 e1 =>
    split at h
    · cases h
    · next hp =>
      obtain ⟨hd1, hm1, l1⟩ := h1 D o t1 c1 e1
      obtain ⟨D1, o1⟩ := c1
      simp only at hd1 hm1 l1
      subst hd1
      obtain ⟨hd2, hm2, l2⟩ := h2 t1 D1 o1 t c' h
      refine ⟨hd2, Nat.le_trans hm1 hm2, ?_⟩
      intro D' hb hb' hf ha
      simp only
      rw [l1 D' hb hb' (by omega) (ha.mono (Nat.le_refl _) hm2)]
      simp only
      rw [if_neg hp, l2 D' hb hb' hf (ha.mono hm1 (Nat.le_refl _))]
  · cases h
  · cases h

theorem LocalG.congr {α : Type} {d d' : Cur → Res (α × Cur)} (h : LocalG d') (e : ∀ c, d c = d' c) :
    LocalG d := by
  have : d = d' := funext e
  rw [this]; exact h

theorem local_repeat {d : Dec} (hd : Local d) : ∀ n, Local (decRepeat d n) := by
  intro n
  induction n with
  | zero => exact localG_pure []
  | succ n ih =>
    refine (localG_bind hd (fun _ => ih) (· ++ ·)).congr ?_
    intro c
    rw [decRepeat]
    cases d c with
    | ok r =>
      obtain ⟨t, c1⟩ := r
      simp only
      cases decRepeat d n c1 with
      | ok r2 => rfl
      | err e => rfl
      | panic w => rfl
    | err e => rfl
    | panic w => rfl

theorem parseF_localG (cfg : Cfg) (it : IT) (hw8 : 8 ≤ it.w) (hw64 : it.w ≤ 64) {len : Nat}
    (h1 : 1 ≤ len) (hlw : len ≤ it.w) : LocalG (parseF cfg it len) := by
  intro D o v c1 h
  obtain ⟨rfl, _, hl⟩ := parseF_local cfg it hw8 hw64 h1 hlw h
  exact ⟨rfl, Nat.le_add_right _ _, fun D' _ _ hf ha => hl D' hf ha⟩

theorem parseU_localG (cfg : Cfg) {w : Nat} (hw8 : 8 ≤ w) (hw64 : w ≤ 64) {len : Nat}
    (h1 : 1 ≤ len) (hlw : len ≤ w) : LocalG (parseU cfg w len) := by
  intro D o v c1 h
  obtain ⟨rfl, _, hl⟩ := parseU_local cfg hw8 hw64 h1 hlw h
  exact ⟨rfl, Nat.le_add_right _ _, fun D' _ _ hf ha => hl D' hf ha⟩

/-! ### strings -/

theorem parseBytes_local (cfg : Cfg) : ∀ n, LocalG (parseBytes cfg n) := by
  intro n
  induction n with
  | zero => exact localG_pure []
  | succ n ih =>
    refine (localG_bind (parseU_localG cfg (w := 8) (len := 8) (by decide) (by decide) (by decide)
      (by decide)) (fun _ => ih) (· :: ·)).congr ?_
    intro c
    rw [parseBytes]
    cases parseU cfg 8 8 c with
    | ok r =>
      obtain ⟨t, c1⟩ := r
      simp only
      cases parseBytes cfg n c1 with
      | ok r2 => rfl
      | err e => rfl
      | panic w => rfl
    | err e => rfl
    | panic w => rfl

theorem strDecode_local (cfg : Cfg) (cap lenBits : Nat) (h1 : 1 ≤ lenBits) (h8 : lenBits ≤ 8) :
    LocalG (strDecode cfg cap lenBits) := by
  refine (localG_guard (parseU_localG cfg (w := 8) (by decide) (by decide) h1 h8)
    (fun len => localG_map (parseBytes_local cfg len) (fun bs => bs.map pushNorm))
    (fun len => len > cap) .capacityExceeded).congr ?_
  intro c
  rw [strDecode]
  cases parseU cfg 8 lenBits c with
  | ok r =>
    obtain ⟨t, c1⟩ := r
    simp only
    split
    · rfl
    · cases parseBytes cfg t c1 with
      | ok r2 => rfl
      | err e => rfl
      | panic w => rfl
  | err e => rfl
  | panic w => rfl

/-- continuing with a reader that depends on the value read -/
theorem localG_then {α β : Type} {d1 : Cur → Res (α × Cur)} {d2 : α → Cur → Res (β × Cur)}
    (h1 : LocalG d1) (h2 : ∀ a, LocalG (d2 a)) :
    LocalG (fun c =>
      match d1 c with
      | .ok (t, c') => d2 t c'
      | .err e => .err e
      | .panic w => .panic w) := by
  intro D o t c' h
  simp only at h
  split at h
  · next t1 c1 e1 =>
    obtain ⟨hd1, hm1, l1⟩ := h1 D o t1 c1 e1
    obtain ⟨D1, o1⟩ := c1
    simp only at hd1 hm1 l1
    subst hd1
    obtain ⟨hd2, hm2, l2⟩ := h2 t1 D1 o1 t c' h
    refine ⟨hd2, Nat.le_trans hm1 hm2, ?_⟩
    intro D' hb hb' hf ha
    simp only
    rw [l1 D' hb hb' (by omega) (ha.mono (Nat.le_refl _) hm2)]
    simp only
    rw [l2 D' hb hb' hf (ha.mono hm1 (Nat.le_refl _))]
  · cases h
  · cases h

theorem localG_err {α : Type} (e : RtcmError) : LocalG (fun _ => (.err e : Res (α × Cur))) := by
  intro D o t c' h; cases h

theorem localG_panic {α : Type} (w : String) : LocalG (fun _ => (.panic w : Res (α × Cur))) := by
  intro D o t c' h; cases h

theorem localG_of_data {α : Type} {d : Cur → Res (α × Cur)} (h : LocalG d) {c : Cur} {t : α} {c' : Cur}
    (e : d c = .ok (t, c')) : c'.data = c.data ∧ c.off ≤ c'.off ∧
    ∀ D', Bytes c.data → Bytes D' → c'.off ≤ 8 * D'.length → AgreeOn D' c.data c.off c'.off →
      d ⟨D', c.off⟩ = .ok (t, ⟨D', c'.off⟩) := by
  obtain ⟨D, o⟩ := c
  exact h D o t c' e

end Rtcm.DecLocal
