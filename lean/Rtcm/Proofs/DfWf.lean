import Rtcm.Model.Df
/-!
# Decidable well-formedness of a `df!` row (`DfWf.wf`)

Import-free of Mathlib on purpose: everything here is evaluated by the kernel
(`decide +kernel`) over the generated table, in exact `Int` / `Rat` arithmetic.
-/
namespace Rtcm.DfWf
open Rtcm.Bits Rtcm.Schema Rtcm.SoftFloat Rtcm.Df

/-- structural well-formedness of a `df!` row -/
def wfBasic (s : DfSpec) : Bool :=
  decide (1 ≤ s.len) && decide (s.len ≤ s.it.w) &&
  (s.it.w == 8 || s.it.w == 16 || s.it.w == 32 || s.it.w == 64)

/-- smallest signed carrier reading `Bits.parse` can return for the field -/
def svLo (s : DfSpec) : Int :=
  match s.it.kind with
  | .u => 0
  | .i => -(2 ^ (s.len - 1))
  | .sm => -(2 ^ (s.len - 1)) + 1

/-- largest signed carrier reading `Bits.parse` can return for the field -/
def svHi (s : DfSpec) : Int :=
  match s.it.kind with
  | .u => 2 ^ s.len - 1
  | .i => 2 ^ (s.len - 1) - 1
  | .sm => 2 ^ (s.len - 1) - 1

/-- the signed carrier readings of a `len`-bit field of the row's kind -/
def InRange (s : DfSpec) (sv : Int) : Prop := svLo s ≤ sv ∧ sv ≤ svHi s

instance (s : DfSpec) (sv : Int) : Decidable (InRange s sv) := by
  unfold InRange; exact instDecidableAnd

def optI (e : Option FExpr) (dflt : Int) : Int :=
  match e with
  | some e => evalI e
  | none => dflt

/-- integer `dt`: decode is overflow-free on the whole carrier range, and the encoder's
subtraction / division invert it exactly -/
def wfInt (s : DfSpec) : Bool :=
  let r := optI s.res 1
  let b := optI s.bias 0
  decide (0 < r) &&
  decide ((dtRange s.dt).1 ≤ svLo s) && decide (svHi s ≤ (dtRange s.dt).2) &&
  decide ((dtRange s.dt).1 ≤ svLo s * r) && decide (svHi s * r ≤ (dtRange s.dt).2) &&
  decide ((dtRange s.dt).1 ≤ svLo s * r + b) && decide (svHi s * r + b ≤ (dtRange s.dt).2) &&
  (s.bias.isNone || decide (0 ≤ svLo s)) &&
  (s.dt.intInfo.2 == 8 || s.dt.intInfo.2 == 16 || s.dt.intInfo.2 == 32 || s.dt.intInfo.2 == 64)

/-- value of a `res` / `bias` constant of a float field: must be a finite, non-negative float -/
def fconst (fmt : Fmt) (e : Option FExpr) (dflt : Rat) : Option Rat :=
  match e with
  | none => some dflt
  | some e =>
    match evalF fmt e with
    | .fin false m => some m
    | _ => none

/-- The explicit rational quantities of the rounding-error argument for one float field:
`u = 2^-p`, `K = 2^len`, `r = fl(res)`, `b = fl(bias)` (0 if absent).
Decode: `y1 = fl(k·r)`, `x = fl(y1 + b)`. Encode: `d = fl(x - b)`, `q = fl(d / r)`,
`w = fl(q ± 1/2)`. -/
structure Num where
  u : Rat
  K : Rat
  /-- `|k·r| ≤ M1` -/
  M1 : Rat
  /-- `|y1 + b| ≤ M2` -/
  M2 : Rat
  /-- `|x - b| ≤ M3` -/
  M3 : Rat
  /-- `|d - k·r| ≤ D` -/
  D : Rat
  /-- `|d / r| ≤ M4` -/
  M4 : Rat
  /-- `|q - k| ≤ E` -/
  E : Rat
  /-- `|q ± 1/2| ≤ M5` -/
  M5 : Rat
  /-- C11: `|fl(v - b) / r| ≤ M6` for `|v - b| ≤ K·r` -/
  M6 : Rat
  /-- C11: `|q - t| ≤ dq` for `t = (v - b)/r`, `|t| ≤ K` -/
  dq : Rat

def num (fmt : Fmt) (len : Nat) (r b : Rat) : Num :=
  let u := pow2 (-(fmt.p : Int))
  let K : Rat := ((2 ^ len : Nat) : Rat)
  let M1 := K * r
  let M2 := M1 * (1 + u) + b
  let M3 := M2 * (1 + u) + b
  let D := u * (M3 + M2 + M1)
  let M4 := (M1 + D) / r
  let E := D / r + u * M4
  let M5 := K + 1
  let M6 := M1 * (1 + u) / r
  let dq := u * M6 + u * M1 / r
  { u, K, M1, M2, M3, D, M4, E, M5, M6, dq }

/-- magnitude bound `M` lies in the normal range and rounding anything below it cannot overflow -/
def okMag (fmt : Fmt) (M : Rat) : Bool :=
  decide (pow2 fmt.emin ≤ M) && decide (M * (1 + pow2 (-(fmt.p : Int))) < pow2 (fmt.emax + 1))

/-- the numeric side conditions of a float field with constants `r`, `b`
(`roundMag fmt b = some b`: the bias constant is a value of the format) -/
def wfNum (fmt : Fmt) (len : Nat) (r b : Rat) : Bool :=
  let n := num fmt len r b
  decide (0 < r) && decide (0 ≤ b) && decide (pow2 fmt.emin ≤ r) &&
  decide (roundMag fmt b = some b) &&
  okMag fmt n.M1 && okMag fmt n.M2 && okMag fmt n.M3 && okMag fmt n.M4 && okMag fmt n.M5 &&
  okMag fmt n.M6 &&
  decide (n.E + n.u * n.M5 < 1 / 2) && decide (n.dq + n.u * n.M5 < 1 / 2)

/-- float `dt` -/
def wfFlt (s : DfSpec) : Bool :=
  let fmt := fmtOf s.dt
  decide (s.len < fmt.p) && s.res.isSome && (s.round == some true) &&
  (s.bias.isNone || s.it.kind == .u) &&
  match fconst fmt s.res 1, fconst fmt s.bias 0 with
  | some r, some b => wfNum fmt s.len r b
  | _, _ => false

/-- the `inv` marker is one of the readings the field can carry -/
def wfInv (s : DfSpec) : Bool :=
  match s.inv with
  | some v => decide (svLo s ≤ v) && decide (v ≤ svHi s)
  | none => true

/-- well-formedness of a `df!` row -/
def wf (s : DfSpec) : Bool :=
  wfBasic s && wfInv s && (if s.dt.isFloat then wfFlt s else wfInt s)

/-- C11 slack: `|k - t| ≤ 1/2 + delta s` -/
def deltaNum (n : Num) : Rat := n.dq + n.u * n.M5

/-- C11 slack: `|value(dequantise k) - v| ≤ r/2 + slackNum` -/
def slackNum (n : Num) (r : Rat) : Rat := deltaNum n * r + n.u * (n.M1 + n.M2)

end Rtcm.DfWf
