import Rtcm.Proofs.Frame
import Rtcm.Proofs.Crc
/-!
Every payload of length 0..=1023, wrapped by `mkFrame` with any reserved bits, is accepted,
and the accepted frame reports exactly that payload and checksum, whatever follows it.
-/
namespace Rtcm

theorem testBit_mod256 (x t : Nat) : (x % 256).testBit t = (decide (t < 8) && x.testBit t) := by
  have : (256 : Nat) = 2 ^ 8 := by decide
  rw [this, Nat.testBit_mod_two_pow]

theorem testBit_3 (t : Nat) : (3 : Nat).testBit t = decide (t < 2) := by
  have : (3 : Nat) = 2 ^ 2 - 1 := by decide
  rw [this, Nat.testBit_two_pow_sub_one]

theorem be24_join (c : Nat) (h : c < 2 ^ 24) :
    (((c >>> 16) % 256) <<< 16) ||| (((c >>> 8) % 256) <<< 8) ||| (c % 256) = c := by
  apply Nat.eq_of_testBit_eq
  intro i
  simp only [Nat.testBit_or, Nat.testBit_shiftLeft, testBit_mod256, Nat.testBit_shiftRight]
  by_cases h24 : i < 24
  · by_cases h16 : 16 ≤ i
    · have e : 16 + (i - 16) = i := by omega
      have h1 : i - 16 < 8 := by omega
      have h2 : ¬ (i - 8 < 8) := by omega
      have h3 : ¬ (i < 8) := by omega
      simp [h16, e, h1, h2, h3]
    · by_cases h8 : 8 ≤ i
      · have e : 8 + (i - 8) = i := by omega
        have h2 : (i - 8 < 8) := by omega
        have h3 : ¬ (i < 8) := by omega
        simp [h16, h8, e, h2, h3]
      · have h3 : (i < 8) := by omega
        simp [h16, h8, h3]
  · have : c.testBit i = false :=
      Nat.testBit_lt_two_pow (Nat.lt_of_lt_of_le h (Nat.pow_le_pow_right (by decide : 2 > 0) (by omega)))
    have h1 : ¬ (i - 16 < 8) := by omega
    have h2 : ¬ (i - 8 < 8) := by omega
    have h3 : ¬ (i < 8) := by omega
    simp [this, h1, h2, h3]

theorem header_len (r L : Nat) (hL : L < 1024) :
    ((((r <<< 2) ||| (L >>> 8)) % 256 &&& 3) <<< 8) ||| (L % 256) = L := by
  apply Nat.eq_of_testBit_eq
  intro i
  simp only [Nat.testBit_or, Nat.testBit_and, Nat.testBit_shiftLeft, testBit_mod256,
    Nat.testBit_shiftRight, testBit_3]
  by_cases h8 : i < 8
  · have : ¬ (8 ≤ i) := by omega
    simp [h8, this]
  · by_cases h10 : i < 10
    · have e : 8 + (i - 8) = i := by omega
      have h1 : i - 8 < 8 := by omega
      have h2 : i - 8 < 2 := by omega
      have h3 : ¬ (2 ≤ i - 8) := by omega
      have h4 : 8 ≤ i := by omega
      simp [h8, h1, h2, h3, h4, e]
    · have : L.testBit i = false :=
        Nat.testBit_lt_two_pow
          (Nat.lt_of_lt_of_le hL (Nat.pow_le_pow_right (by decide : 2 > 0) (by omega : 10 ≤ i)))
      have h2 : ¬ (i - 8 < 2) := by omega
      simp [this, h2, h8]

theorem byteAt_append_right (d e : List UInt8) (i : Nat) :
    byteAt (d ++ e) (d.length + i) = byteAt e i := by
  unfold byteAt
  simp [List.getD_eq_getElem?_getD, List.getElem?_append_right]

theorem byteAt_append_right' (d e : List UInt8) (i : Nat) (h : d.length ≤ i) :
    byteAt (d ++ e) i = byteAt e (i - d.length) := by
  have := byteAt_append_right d e (i - d.length)
  rwa [Nat.add_sub_cancel' h] at this

theorem lenField_header (r L : Nat) (hL : L < 1024) (rest : List UInt8) :
    lenField (frameHeader r L ++ rest) = L := by
  rw [lenField_append _ _ (by simp [frameHeader])]
  simp only [lenField, frameHeader, byteAt, List.getD_cons_succ, List.getD_cons_zero,
    UInt8.toNat_ofNat']
  have h2 : L % 256 % 2 ^ 8 = L % 256 := by omega
  have h1 : ((r % 64) <<< 2 ||| L >>> 8) % 2 ^ 8 = ((r % 64) <<< 2 ||| L >>> 8) % 256 := by rfl
  rw [h1, h2]
  exact header_len (r % 64) L hL

theorem be24_crcBytes (pre sfx : List UInt8) (c : Nat) (h : c < 2 ^ 24) :
    be24 (pre ++ (crcBytes c ++ sfx)) pre.length = c := by
  unfold be24
  have e0 : byteAt (pre ++ (crcBytes c ++ sfx)) pre.length = (c >>> 16) % 256 := by
    have := byteAt_append_right pre (crcBytes c ++ sfx) 0
    simp only [Nat.add_zero] at this
    rw [this]; simp [byteAt, crcBytes]
  have e1 : byteAt (pre ++ (crcBytes c ++ sfx)) (pre.length + 1) = (c >>> 8) % 256 := by
    rw [byteAt_append_right]; simp [byteAt, crcBytes]
  have e2 : byteAt (pre ++ (crcBytes c ++ sfx)) (pre.length + 2) = c % 256 := by
    rw [byteAt_append_right]; simp [byteAt, crcBytes]
  rw [e0, e1, e2]
  exact be24_join c h

/-- The frame that `frameNew` reports for `mkFrame resv payload`. -/
def mkFrameResult (resv : Nat) (payload : List UInt8) : Frame :=
  { frameData := mkFrame resv payload
    data := payload
    crc := crc24q (frameHeader resv payload.length ++ payload)
    number := if 2 ≤ payload.length
              then some ((byteAt payload 0 <<< 4) ||| (byteAt payload 1 >>> 4)) else none }

theorem frameNew_mkFrame (resv : Nat) (payload sfx : List UInt8) (hL : payload.length ≤ 1023) :
    frameNew (mkFrame resv payload ++ sfx) = .ok (mkFrameResult resv payload) := by
  have hbody : mkFrame resv payload ++ sfx =
      (frameHeader resv payload.length ++ payload) ++
        (crcBytes (crc24q (frameHeader resv payload.length ++ payload)) ++ sfx) := by
    simp [mkFrame]
  have hlen : lenField (mkFrame resv payload ++ sfx) = payload.length := by
    rw [hbody, List.append_assoc]
    exact lenField_header resv payload.length (by omega) _
  have hbl : (frameHeader resv payload.length ++ payload).length = payload.length + 3 := by
    simp [frameHeader]
  rw [frameNew_ok_iff, hlen]
  have htake3 : (mkFrame resv payload ++ sfx).take (payload.length + 3) =
      frameHeader resv payload.length ++ payload := by
    rw [hbody, List.take_append_of_le_length (by omega), List.take_of_length_le (by omega)]
  have hbe : be24 (mkFrame resv payload ++ sfx) (payload.length + 3) =
      crc24q (frameHeader resv payload.length ++ payload) := by
    rw [hbody, ← hbl]
    exact be24_crcBytes _ _ _ (crc24q_lt _)
  have hml : (mkFrame resv payload).length = payload.length + 6 := by
    simp [mkFrame, frameHeader, crcBytes]
  refine ⟨by simp; omega, ?_, by simp; omega, ?_, ?_⟩
  · rw [byteAt_append_left _ _ 0 (by omega)]
    simp [mkFrame, frameHeader, byteAt]
  · rw [hbe, htake3]
  · unfold mkFrameResult
    rw [hbe]
    have h1 : (mkFrame resv payload ++ sfx).take (payload.length + 6) = mkFrame resv payload := by
      rw [List.take_append_of_le_length (by omega), List.take_of_length_le (by omega)]
    have h2 : ((mkFrame resv payload ++ sfx).drop 3).take payload.length = payload := by
      rw [hbody]
      simp [frameHeader]
    have hh : (frameHeader resv payload.length).length = 3 := rfl
    rw [h1, h2]
    congr 1
    by_cases h2l : 2 ≤ payload.length
    · have h3 : byteAt (mkFrame resv payload ++ sfx) 3 = byteAt payload 0 := by
        rw [hbody, List.append_assoc, byteAt_append_right' _ _ 3 (by rw [hh]; omega), hh,
          byteAt_append_left _ _ _ (by omega)]
      have h4 : byteAt (mkFrame resv payload ++ sfx) 4 = byteAt payload 1 := by
        rw [hbody, List.append_assoc, byteAt_append_right' _ _ 4 (by rw [hh]; omega), hh,
          byteAt_append_left _ _ _ (by omega)]
      rw [h3, h4]
    · simp [h2l]

end Rtcm
