import Rtcm.Model.Bits
/-!
# Helper lemmas for C07: the bit packer (`put` / `parse`) at bit level

Core Lean only. Outline:
* `testBit` helpers; `subU`/`shl`/`shr` take their non-panicking branch (`subU_ok`, `shl_ok`,
  `shr_ok`); arithmetic vs logical shift (`testBit_shrRaw`);
* loop geometry: `setup_ok`, `byteGeom_spec` (mask, bit count, `bpos` of byte `i` in closed form);
* `putStep_spec` (per-byte lemma, `lenlft` invariant), `putLoop_spec` (list induction),
  `put_of_signFixRev` (whole buffer, byte-level closed form `specBit`);
* `parseStep_spec`, `parseLoop_spec`, `testBit_fieldValue`, `parse_eq_signFix`;
* masks of `sign_fix`/`sign_fix_rev`: `signFix_eq`, `signFixRev_spec`;
* specification-side round trip: `Representable`, `readValue_wireValue`;
* meaning of `wireValue`: `wireValue_i_eq`, `wireValue_sm_eq`.

Loop invariant: at loop index `i` (byte `off/8 + i`) `lenlft = off + len - max off (8*(off/8+i))`,
after the step `lenlft = off + len - min (off+len) (8*(off/8+i+1))`.
-/
namespace Rtcm.Bits
set_option linter.unusedSimpArgs false

/-! ### `testBit` helpers -/

theorem testBit_mod256 (x t : Nat) : (x % 256).testBit t = (decide (t < 8) && x.testBit t) := by
  have : (256 : Nat) = 2 ^ 8 := by decide
  rw [this, Nat.testBit_mod_two_pow]

theorem testBit_255 (t : Nat) : (255 : Nat).testBit t = decide (t < 8) := by
  have : (255 : Nat) = 2 ^ 8 - 1 := by decide
  rw [this, Nat.testBit_two_pow_sub_one]

theorem lt_256_of_testBit {x : Nat} (h : ∀ t, 8 ≤ t → x.testBit t = false) : x < 256 := by
  have : (256 : Nat) = 2 ^ 8 := by decide
  rw [this]
  exact Nat.lt_pow_two_of_testBit x (fun i hi => by simp [h i hi])

theorem testBit_false_of_lt_256 {x t : Nat} (hx : x < 256) (ht : 8 ≤ t) : x.testBit t = false := by
  apply Nat.testBit_lt_two_pow
  calc x < 2 ^ 8 := hx
    _ ≤ 2 ^ t := Nat.pow_le_pow_right (by decide) ht

/-! ### The primitive operations take their non-panicking branch -/

theorem subU_ok (cfg : Cfg) {a b : Nat} (h : b ≤ a) : subU cfg a b = .ok (a - b) := by
  simp [subU, h]

theorem shl_ok (cfg : Cfg) {w k : Nat} (p : Nat) (h : k < w) :
    shl cfg w p k = .ok ((p <<< k) % 2 ^ w) := by
  simp [shl, h]

theorem shr_ok (cfg : Cfg) (sg : Bool) {w k : Nat} (p : Nat) (h : k < w) :
    shr cfg sg w p k = .ok (shrRaw sg w p k) := by
  simp [shr, h]

theorem testBit_shl (w p k t : Nat) :
    ((p <<< k) % 2 ^ w).testBit t = (decide (t < w) && (decide (k ≤ t) && p.testBit (t - k))) := by
  rw [Nat.testBit_mod_two_pow, Nat.testBit_shiftLeft]

theorem ofInt_natCast {w p : Nat} (hp : p < 2 ^ w) : ofInt w (p : Int) = p := by
  unfold ofInt
  rw [← Int.natCast_emod, Int.toNat_natCast, Nat.mod_eq_of_lt hp]

theorem ofInt_negSucc {w m : Nat} (hm : m < 2 ^ w) : ofInt w (Int.negSucc m) = 2 ^ w - (m + 1) := by
  unfold ofInt
  have hpos : (0 : Int) < ((2 ^ w : Nat) : Int) := by
    have := Nat.two_pow_pos w
    omega
  rw [Int.negSucc_emod _ hpos, ← Int.natCast_emod, Nat.mod_eq_of_lt hm]
  omega

/-- arithmetic and logical right shift agree on the bits that stay inside the carrier -/
theorem testBit_shrRaw (sg : Bool) {w p k t : Nat} (hp : p < 2 ^ w) (h : t + k < w) :
    (shrRaw sg w p k).testBit t = p.testBit (t + k) := by
  unfold shrRaw
  cases sg
  · simp [Nat.testBit_shiftRight, Nat.add_comm]
  · simp only [if_true]
    unfold toInt
    split
    · -- non-negative
      rw [← Int.natCast_shiftRight, ofInt_natCast, Nat.testBit_shiftRight, Nat.add_comm]
      exact Nat.lt_of_le_of_lt (Nat.shiftRight_le _ _) hp
    · have e : (p : Int) - ((2 ^ w : Nat) : Int) = Int.negSucc (2 ^ w - (p + 1)) := by
        omega
      have hn : 2 ^ w - (p + 1) < 2 ^ w := by omega
      rw [e, Int.negSucc_shiftRight, ofInt_negSucc (Nat.lt_of_le_of_lt (Nat.shiftRight_le _ _) hn),
        Nat.testBit_two_pow_sub_succ (Nat.lt_of_le_of_lt (Nat.shiftRight_le _ _) hn),
        Nat.testBit_shiftRight, Nat.testBit_two_pow_sub_succ hp]
      have : t < w := by omega
      simp [this, Nat.add_comm]
      omega

/-! ### Geometry of the loop and the per-byte lemma for `put` -/

/-- number of bytes touched by the field -/
def dlenOf (off len : Nat) : Nat := (off + len - 1) / 8 - off / 8 + 1

/-- the prologue values in closed form -/
def setupOf (off len : Nat) : Setup :=
  { lhSt := off % 8, rhEn := (8 - (off + len) % 8) % 8, sti := off / 8, dlen := dlenOf off len }

theorem setup_ok (cfg : Cfg) {off len : Nat} (h1 : 1 ≤ len) (h64 : len ≤ 64) :
    setup cfg off len = .ok (setupOf off len) := by
  unfold setup
  have ha : 1 ≤ off + len := by omega
  have hb : off / 8 ≤ (off + len - 1) / 8 := by omega
  simp only [subU_ok cfg ha, subU_ok cfg hb, Res.bind_ok, setupOf, dlenOf]
  have : ((off + len - 1) / 8 - off / 8 + 1) % 2 ^ usizeBits = (off + len - 1) / 8 - off / 8 + 1 := by
    apply Nat.mod_eq_of_lt
    have : (2:Nat) ^ usizeBits = 18446744073709551616 := by decide
    omega
  rw [this]

theorem pure_eq_ok {α} (a : α) : (pure a : Res α) = .ok a := rfl

theorem byteGeom_spec (cfg : Cfg) {off len i : Nat} (h1 : 1 ≤ len)
    (hi : i < dlenOf off len) :
    ∃ bset nbits bpos, byteGeom cfg (setupOf off len) i = .ok (bset, nbits, bpos) ∧
      (∀ t, bset.testBit t =
        decide (t < 8 ∧ off ≤ 8 * (off / 8 + i) + 7 - t ∧ 8 * (off / 8 + i) + 7 - t < off + len)) ∧
      nbits = min (off + len) (8 * (off / 8 + i + 1)) - max off (8 * (off / 8 + i)) ∧
      bpos = (if i + 1 = dlenOf off len then (8 - (off + len) % 8) % 8 else 0) := by
  simp only [setupOf, dlenOf] at hi ⊢
  unfold byteGeom
  simp only []
  have hd : 1 ≤ (off + len - 1) / 8 - off / 8 + 1 := by omega
  rw [subU_ok cfg hd]
  have h8 : off % 8 ≤ 8 := by omega
  by_cases h0 : i = 0 <;> by_cases hl : i + 1 = (off + len - 1) / 8 - off / 8 + 1
  · have hl' : i = (off + len - 1) / 8 - off / 8 + 1 - 1 := by omega
    have h9 : (8 - (off + len) % 8) % 8 ≤ 8 - off % 8 := by omega
    simp only [if_pos h0, if_pos hl', subU_ok cfg h8, subU_ok cfg h9, Res.bind_ok, pure_eq_ok]
    refine ⟨_, _, _, rfl, ?_, ?_, (if_pos hl).symm⟩
    · intro t
      simp only [Nat.testBit_and, testBit_255, testBit_mod256, Nat.testBit_shiftLeft,
        Nat.testBit_shiftRight]
      grind
    · omega
  · have hl' : ¬ i = (off + len - 1) / 8 - off / 8 + 1 - 1 := by omega
    simp only [if_pos h0, if_neg hl', subU_ok cfg h8, Res.bind_ok, pure_eq_ok]
    refine ⟨_, _, _, rfl, ?_, ?_, (if_neg hl).symm⟩
    · intro t
      simp only [Nat.testBit_and, testBit_255, testBit_mod256, Nat.testBit_shiftLeft,
        Nat.testBit_shiftRight]
      grind
    · omega
  · have hl' : i = (off + len - 1) / 8 - off / 8 + 1 - 1 := by omega
    have h9 : (8 - (off + len) % 8) % 8 ≤ 8 := by omega
    simp only [if_neg h0, if_pos hl', subU_ok cfg h9, Res.bind_ok, pure_eq_ok]
    refine ⟨_, _, _, rfl, ?_, ?_, (if_pos hl).symm⟩
    · intro t
      simp only [Nat.testBit_and, testBit_255, testBit_mod256, Nat.testBit_shiftLeft,
        Nat.testBit_shiftRight]
      grind
    · omega
  · have hl' : ¬ i = (off + len - 1) / 8 - off / 8 + 1 - 1 := by omega
    simp only [if_neg h0, if_neg hl', Res.bind_ok, pure_eq_ok]
    refine ⟨_, _, _, rfl, ?_, ?_, (if_neg hl).symm⟩
    · intro t
      simp only [Nat.testBit_and, testBit_255, testBit_mod256, Nat.testBit_shiftLeft,
        Nat.testBit_shiftRight]
      grind
    · omega

/-- bit `t` of byte `j` after the field `value` (low `len` bits) has been written at `off` -/
def specBit (off len value d j t : Nat) : Bool :=
  if t < 8 ∧ off ≤ 8 * j + 7 - t ∧ 8 * j + 7 - t < off + len
  then value.testBit (off + len - 1 - (8 * j + 7 - t)) else d.testBit t

theorem putStep_spec (cfg : Cfg) (it : IT) {off len i value d : Nat} (hd : d < 256) (h1 : 1 ≤ len)
    (hlw : len ≤ it.w) (hw8 : 8 ≤ it.w) (hv : value < 2 ^ it.w)
    (hi : i < dlenOf off len) :
    ∃ d', putStep cfg it (setupOf off len) value i (off + len - max off (8 * (off / 8 + i))) d
        = .ok (d', off + len - min (off + len) (8 * (off / 8 + i + 1))) ∧
      ∀ t, d'.testBit t = specBit off len value d (off / 8 + i) t := by
  obtain ⟨bset, nbits, bpos, hg, hb, hn, hp⟩ := byteGeom_spec cfg h1 hi
  have hdl : dlenOf off len = (off + len - 1) / 8 - off / 8 + 1 := rfl
  unfold putStep
  rw [hg]
  have hsub : nbits ≤ off + len - max off (8 * (off / 8 + i)) := by omega
  have hL : off + len - max off (8 * (off / 8 + i)) - nbits
      = off + len - min (off + len) (8 * (off / 8 + i + 1)) := by omega
  simp only [Res.bind_ok, subU_ok cfg hsub, hL]
  by_cases hl : i + 1 = dlenOf off len
  · rw [if_pos hl] at hp
    have hz : off + len - min (off + len) (8 * (off / 8 + i + 1)) = 0 := by omega
    have hge : bpos ≥ off + len - min (off + len) (8 * (off / 8 + i + 1)) := by omega
    have hk : bpos - 0 < it.w := by omega
    simp only [hz] at hge ⊢
    simp only [if_pos hge, subU_ok cfg hge, Res.bind_ok, shl_ok cfg value hk]
    refine ⟨_, rfl, ?_⟩
    intro t
    simp only [specBit, valCast, Nat.testBit_or, Nat.testBit_and, Nat.testBit_xor, testBit_255,
      testBit_mod256, testBit_shl, hb]
    have hd8 : 8 ≤ t → d.testBit t = false := fun h => testBit_false_of_lt_256 hd h
    grind
  · rw [if_neg hl] at hp
    have hlt : ¬ bpos ≥ off + len - min (off + len) (8 * (off / 8 + i + 1)) := by omega
    have hle : bpos ≤ off + len - min (off + len) (8 * (off / 8 + i + 1)) := by omega
    have hk : off + len - min (off + len) (8 * (off / 8 + i + 1)) - bpos < it.w := by omega
    simp only [if_neg hlt, subU_ok cfg hle, Res.bind_ok, shr_ok cfg it.signed value hk]
    refine ⟨_, rfl, ?_⟩
    intro t
    have hd8 : 8 ≤ t → d.testBit t = false := fun h => testBit_false_of_lt_256 hd h
    simp only [specBit, valCast, Nat.testBit_or, Nat.testBit_and, Nat.testBit_xor, testBit_255,
      testBit_mod256, hb]
    by_cases hC : t < 8 ∧ off ≤ 8 * (off / 8 + i) + 7 - t ∧ 8 * (off / 8 + i) + 7 - t < off + len
    · have hs := testBit_shrRaw it.signed hv (t := t)
        (k := off + len - min (off + len) (8 * (off / 8 + i + 1)) - bpos) (by omega)
      have he : t + (off + len - min (off + len) (8 * (off / 8 + i + 1)) - bpos)
          = off + len - 1 - (8 * (off / 8 + i) + 7 - t) := by omega
      rw [he] at hs
      simp only [hs, if_pos hC, hC, decide_true, and_self]
      grind
    · simp only [if_neg hC, hC, decide_false]
      grind

theorem specBit_outside {off len value d j t : Nat}
    (h : 8 * j + 8 ≤ off ∨ off + len ≤ 8 * j) : specBit off len value d j t = d.testBit t := by
  unfold specBit
  rw [if_neg]
  omega

theorem putLoop_spec (cfg : Cfg) (it : IT) {off len value : Nat} (h1 : 1 ≤ len)
    (hlw : len ≤ it.w) (hw8 : 8 ≤ it.w) (hv : value < 2 ^ it.w) :
    ∀ (ds : List Nat) (i : Nat), (∀ d ∈ ds, d < 256) → i ≤ dlenOf off len →
      dlenOf off len - i ≤ ds.length →
      ∃ out, putLoop cfg it (setupOf off len) value i
          (off + len - max off (8 * (off / 8 + i))) ds = .ok out ∧
        out.length = ds.length ∧
        ∀ j t, (out.getD j 0).testBit t = specBit off len value (ds.getD j 0) (off / 8 + i + j) t := by
  have hdl : dlenOf off len = (off + len - 1) / 8 - off / 8 + 1 := rfl
  intro ds
  induction ds with
  | nil =>
    intro i _ hi hl
    refine ⟨[], rfl, rfl, ?_⟩
    intro j t
    rw [specBit_outside]
    simp only [List.length_nil] at hl
    omega
  | cons d ds ih =>
    intro i hb hi hl
    unfold putLoop
    have hs : (setupOf off len).dlen = dlenOf off len := rfl
    rw [hs]
    by_cases hlt : i < dlenOf off len
    · rw [if_pos hlt]
      obtain ⟨d', hd', hbits⟩ := putStep_spec cfg it (d := d) (hb d (by simp)) h1 hlw hw8 hv hlt
      rw [hd']
      simp only [Res.bind_ok]
      have hL : off + len - min (off + len) (8 * (off / 8 + i + 1))
          = off + len - max off (8 * (off / 8 + (i + 1))) := by omega
      rw [hL]
      obtain ⟨rest, hr, hrl, hrb⟩ := ih (i + 1) (fun x hx => hb x (by simp [hx])) (by omega)
        (by simp only [List.length_cons] at hl; omega)
      rw [hr]
      simp only [Res.bind_ok]
      refine ⟨_, rfl, by simp [hrl], ?_⟩
      intro j t
      cases j with
      | zero => simpa using hbits t
      | succ j =>
        simp only [List.getD_cons_succ]
        rw [hrb j t]
        congr 1
        omega
    · rw [if_neg hlt]
      refine ⟨_, rfl, rfl, ?_⟩
      intro j t
      rw [specBit_outside]
      omega

theorem getD_take_append_drop {data out : List Nat} {s j : Nat} (hs : s ≤ data.length) :
    (data.take s ++ out).getD j 0 = if j < s then data.getD j 0 else out.getD (j - s) 0 := by
  simp only [List.getD_eq_getElem?_getD, List.getElem?_append, List.length_take,
    Nat.min_eq_left hs]
  split
  · rw [List.getElem?_take, if_pos ‹_›]
  · rfl

/-- the part of `put` after `sign_fix_rev`: byte-level closed form of the new buffer -/
theorem put_of_signFixRev (cfg : Cfg) (it : IT) {data : List Nat} {off v len value : Nat}
    (hw8 : 8 ≤ it.w) (hw64 : it.w ≤ 64) (h1 : 1 ≤ len) (hlw : len ≤ it.w)
    (hdata : ∀ d ∈ data, d < 256) (hfit : off + len ≤ 8 * data.length)
    (hsf : signFixRev cfg it v len = .ok value) (hv : value < 2 ^ it.w) :
    ∃ data', put cfg it data off v len = .ok (data', off + len) ∧ data'.length = data.length ∧
      ∀ j t, (data'.getD j 0).testBit t = specBit off len value (data.getD j 0) j t := by
  have hdl : dlenOf off len = (off + len - 1) / 8 - off / 8 + 1 := rfl
  unfold put
  rw [if_neg (by omega), if_neg (by omega), hsf, setup_ok cfg h1 (by omega)]
  simp only [Res.bind_ok]
  have hsti : (setupOf off len).sti = off / 8 := rfl
  rw [hsti]
  have hL : len = off + len - max off (8 * (off / 8 + 0)) := by omega
  obtain ⟨out, ho, hol, hob⟩ := putLoop_spec cfg it (off := off) h1 hlw hw8 hv (data.drop (off / 8)) 0
    (fun d hd => hdata d (List.mem_of_mem_drop hd)) (by omega)
    (by simp only [List.length_drop]; omega)
  rw [← hL] at ho
  rw [ho]
  simp only [Res.bind_ok]
  refine ⟨_, rfl, ?_, ?_⟩
  · simp only [List.length_append, List.length_take, hol, List.length_drop]
    omega
  · intro j t
    rw [getD_take_append_drop (by omega)]
    split
    · rw [specBit_outside]
      omega
    · rw [hob]
      have : off / 8 + 0 + (j - off / 8) = j := by omega
      rw [this]
      congr 1
      simp only [List.getD_eq_getElem?_getD, List.getElem?_drop]
      congr 2

/-! ### `parse` -/

theorem parseStep_spec (cfg : Cfg) (it : IT) {off len i : Nat} (d val : Nat) (h1 : 1 ≤ len)
    (hlw : len ≤ it.w) (hw8 : 8 ≤ it.w) (hi : i < dlenOf off len) :
    ∃ val', parseStep cfg it (setupOf off len) i (off + len - max off (8 * (off / 8 + i))) d val
        = .ok (val', off + len - min (off + len) (8 * (off / 8 + i + 1))) ∧
      ∀ m, val'.testBit m = (val.testBit m ||
        (decide (off + len - min (off + len) (8 * (off / 8 + i + 1)) ≤ m ∧
                 m < off + len - max off (8 * (off / 8 + i))) &&
          d.testBit (7 - (off + len - 1 - m) % 8))) := by
  obtain ⟨bset, nbits, bpos, hg, hb, hn, hp⟩ := byteGeom_spec cfg h1 hi
  have hdl : dlenOf off len = (off + len - 1) / 8 - off / 8 + 1 := rfl
  unfold parseStep
  rw [hg]
  have hsub : nbits ≤ off + len - max off (8 * (off / 8 + i)) := by omega
  have hL : off + len - max off (8 * (off / 8 + i)) - nbits
      = off + len - min (off + len) (8 * (off / 8 + i + 1)) := by omega
  simp only [Res.bind_ok, subU_ok cfg hsub, hL, u8Cast]
  by_cases hl : i + 1 = dlenOf off len
  · rw [if_pos hl] at hp
    have hz : off + len - min (off + len) (8 * (off / 8 + i + 1)) = 0 := by omega
    have hge : bpos ≥ off + len - min (off + len) (8 * (off / 8 + i + 1)) := by omega
    have hk : bpos - 0 < 8 := by omega
    simp only [hz] at hge ⊢
    simp only [if_pos hge, subU_ok cfg hge, Res.bind_ok, shr_ok cfg false _ hk]
    refine ⟨_, rfl, ?_⟩
    intro m
    simp only [shrRaw, Nat.testBit_or, Nat.testBit_and, Nat.testBit_shiftRight, hb,
      Bool.false_eq_true, if_false]
    by_cases hm : m < off + len - max off (8 * (off / 8 + i))
    · have e1 : bpos - 0 + m = 7 - (off + len - 1 - m) % 8 := by omega
      rw [e1]
      grind
    · have : ¬ (bpos - 0 + m < 8 ∧ off ≤ 8 * (off / 8 + i) + 7 - (bpos - 0 + m) ∧ 
         8 * (off / 8 + i) + 7 - (bpos - 0 + m) < off + len) := by omega
      grind
  · rw [if_neg hl] at hp
    have hlt : ¬ bpos ≥ off + len - min (off + len) (8 * (off / 8 + i + 1)) := by omega
    have hle : bpos ≤ off + len - min (off + len) (8 * (off / 8 + i + 1)) := by omega
    have hk : off + len - min (off + len) (8 * (off / 8 + i + 1)) - bpos < it.w := by omega
    simp only [if_neg hlt, subU_ok cfg hle, Res.bind_ok, shl_ok cfg _ hk]
    refine ⟨_, rfl, ?_⟩
    intro m
    simp only [Nat.testBit_or, Nat.testBit_and, testBit_shl, hb]
    by_cases hm : off + len - min (off + len) (8 * (off / 8 + i + 1)) ≤ m ∧
                 m < off + len - max off (8 * (off / 8 + i))
    · have e1 : m - (off + len - min (off + len) (8 * (off / 8 + i + 1)) - bpos)
          = 7 - (off + len - 1 - m) % 8 := by omega
      rw [e1]
      have e2 : m < it.w := by omega
      have e3 : off + len - min (off + len) (8 * (off / 8 + i + 1)) - bpos ≤ m := by omega
      have e4 : 7 - (off + len - 1 - m) % 8 < 8 ∧ off ≤ 8 * (off / 8 + i) + 7 - (7 - (off + len - 1 - m) % 8) ∧
          8 * (off / 8 + i) + 7 - (7 - (off + len - 1 - m) % 8) < off + len := by omega
      simp only [e2, e3, e4, hm, decide_true, and_self, Bool.true_and, Bool.and_true]
    · have : ¬ (m < it.w ∧ off + len - min (off + len) (8 * (off / 8 + i + 1)) - bpos ≤ m ∧
          m - (off + len - min (off + len) (8 * (off / 8 + i + 1)) - bpos) < 8 ∧
          off ≤ 8 * (off / 8 + i) + 7 - (m - (off + len - min (off + len) (8 * (off / 8 + i + 1)) - bpos)) ∧
          8 * (off / 8 + i) + 7 - (m - (off + len - min (off + len) (8 * (off / 8 + i + 1)) - bpos)) < off + len) := by
        omega
      grind

theorem parseLoop_spec (cfg : Cfg) (it : IT) {off len : Nat} (h1 : 1 ≤ len)
    (hlw : len ≤ it.w) (hw8 : 8 ≤ it.w) :
    ∀ (ds : List Nat) (i val : Nat), i ≤ dlenOf off len → dlenOf off len - i ≤ ds.length →
      ∃ val', parseLoop cfg it (setupOf off len) i
          (off + len - max off (8 * (off / 8 + i))) val ds = .ok val' ∧
        ∀ m, val'.testBit m = (val.testBit m ||
          (decide (m < off + len - max off (8 * (off / 8 + i))) &&
            (ds.getD ((off + len - 1 - m) / 8 - (off / 8 + i)) 0).testBit
              (7 - (off + len - 1 - m) % 8))) := by
  have hdl : dlenOf off len = (off + len - 1) / 8 - off / 8 + 1 := rfl
  intro ds
  induction ds with
  | nil =>
    intro i val hi hl
    refine ⟨val, rfl, ?_⟩
    intro m
    simp only [List.length_nil] at hl
    have : ¬ m < off + len - max off (8 * (off / 8 + i)) := by omega
    simp [this]
  | cons d ds ih =>
    intro i val hi hl
    unfold parseLoop
    have hs : (setupOf off len).dlen = dlenOf off len := rfl
    rw [hs]
    by_cases hlt : i < dlenOf off len
    · rw [if_pos hlt]
      obtain ⟨val1, hv1, hbits⟩ := parseStep_spec cfg it d val h1 hlw hw8 hlt
      rw [hv1]
      simp only [Res.bind_ok]
      have hL : off + len - min (off + len) (8 * (off / 8 + i + 1))
          = off + len - max off (8 * (off / 8 + (i + 1))) := by omega
      rw [hL]
      obtain ⟨val', hr, hrb⟩ := ih (i + 1) val1 (by omega)
        (by simp only [List.length_cons] at hl; omega)
      rw [hr]
      refine ⟨_, rfl, ?_⟩
      intro m
      rw [hrb m, hbits m, hL]
      by_cases hm1 : m < off + len - max off (8 * (off / 8 + (i + 1)))
      · have e : (off + len - 1 - m) / 8 - (off / 8 + i)
            = ((off + len - 1 - m) / 8 - (off / 8 + (i + 1))) + 1 := by omega
        have hm2 : m < off + len - max off (8 * (off / 8 + i)) := by omega
        have hm3 : ¬ (off + len - max off (8 * (off / 8 + (i + 1))) ≤ m) := by omega
        rw [e, List.getD_cons_succ]
        simp [hm1, hm2, hm3]
      · by_cases hm2 : m < off + len - max off (8 * (off / 8 + i))
        · have e : (off + len - 1 - m) / 8 - (off / 8 + i) = 0 := by omega
          have hm3 : off + len - max off (8 * (off / 8 + (i + 1))) ≤ m := by omega
          rw [e]
          simp [hm1, hm2, hm3]
        · simp [hm1, hm2]
    · rw [if_neg hlt]
      refine ⟨val, rfl, ?_⟩
      intro m
      have : ¬ m < off + len - max off (8 * (off / 8 + i)) := by omega
      simp [this]

theorem fieldValue_succ (data : List Nat) (off len : Nat) :
    fieldValue data off (len + 1)
      = 2 * fieldValue data off len + (if bitAt data (off + len) then 1 else 0) := by
  simp [fieldValue, List.range_succ, List.foldl_append]

theorem testBit_two_mul_add_bit (a : Nat) (b : Bool) (m : Nat) :
    (2 * a + (if b then 1 else 0)).testBit m = if m = 0 then b else a.testBit (m - 1) := by
  cases m with
  | zero => cases b <;> simp [Nat.testBit_zero] <;> omega
  | succ m =>
    simp only [Nat.testBit_succ, Nat.add_sub_cancel]
    have : (2 * a + (if b then 1 else 0)) / 2 = a := by cases b <;> simp <;> omega
    rw [this]; simp

theorem testBit_fieldValue (data : List Nat) (off len m : Nat) :
    (fieldValue data off len).testBit m = (decide (m < len) && bitAt data (off + len - 1 - m)) := by
  induction len generalizing m with
  | zero => simp [fieldValue]
  | succ len ih =>
    rw [fieldValue_succ, testBit_two_mul_add_bit]
    split
    · next h => subst h; simp
    · next h =>
      rw [ih]
      have e : off + len - 1 - (m - 1) = off + (len + 1) - 1 - m := by omega
      rw [e]
      congr 1
      simp; omega

theorem fieldValue_lt (data : List Nat) (off len : Nat) : fieldValue data off len < 2 ^ len := by
  apply Nat.lt_pow_two_of_testBit
  intro i hi
  rw [testBit_fieldValue]
  simp; omega

theorem parseLoop_fieldValue (cfg : Cfg) (it : IT) {data : List Nat} {off len : Nat}
    (hw8 : 8 ≤ it.w) (h1 : 1 ≤ len) (hlw : len ≤ it.w) (hfit : off + len ≤ 8 * data.length) :
    parseLoop cfg it (setupOf off len) 0 len 0 (data.drop (off / 8))
      = .ok (fieldValue data off len) := by
  have hdl : dlenOf off len = (off + len - 1) / 8 - off / 8 + 1 := rfl
  have hL : len = off + len - max off (8 * (off / 8 + 0)) := by omega
  obtain ⟨val', hv, hb⟩ := parseLoop_spec cfg it (off := off) h1 hlw hw8 (data.drop (off / 8)) 0 0
    (by omega) (by simp only [List.length_drop]; omega)
  rw [← hL] at hv hb
  rw [hv]
  congr 1
  apply Nat.eq_of_testBit_eq
  intro m
  rw [hb, testBit_fieldValue, Nat.zero_testBit, Bool.false_or]
  by_cases hm : m < len
  · simp only [hm, decide_true, Bool.true_and, bitAt, List.getD_eq_getElem?_getD, List.getElem?_drop]
    congr 3
    omega
  · simp [hm]

/-- `parse` is `sign_fix` applied to the number formed by the field's bits -/
theorem parse_eq_signFix (cfg : Cfg) (it : IT) {data : List Nat} {off len : Nat}
    (hw8 : 8 ≤ it.w) (hw64 : it.w ≤ 64) (h1 : 1 ≤ len) (hlw : len ≤ it.w)
    (hfit : off + len ≤ 8 * data.length) :
    parse cfg it data off len
      = (signFix cfg it (fieldValue data off len) len >>= fun v => .ok (v, off + len)) := by
  unfold parse
  rw [if_neg (by omega), if_neg (by omega), setup_ok cfg h1 (by omega)]
  simp only [Res.bind_ok]
  have hsti : (setupOf off len).sti = off / 8 := rfl
  rw [hsti, parseLoop_fieldValue cfg it hw8 h1 hlw hfit]
  rfl

/-! ### masks used by `sign_fix` / `sign_fix_rev` -/

theorem and_two_pow_eq_zero_iff (x k : Nat) : x &&& 2 ^ k = 0 ↔ x.testBit k = false := by
  constructor
  · intro h
    have := congrArg (fun y => y.testBit k) h
    simpa [Nat.testBit_and, Nat.testBit_two_pow] using this
  · intro h
    apply Nat.eq_of_testBit_eq
    intro j
    simp only [Nat.testBit_and, Nat.testBit_two_pow, Nat.zero_testBit]
    by_cases hj : k = j
    · subst hj; simp [h]
    · simp [hj]

theorem testBit_two_pow_sub_two_pow {w k : Nat} (hk : k ≤ w) (t : Nat) :
    (2 ^ w - 2 ^ k).testBit t = (decide (k ≤ t) && decide (t < w)) := by
  have hle : 2 ^ k ≤ 2 ^ w := Nat.pow_le_pow_right (by decide) hk
  have hpos := Nat.two_pow_pos k
  have e : 2 ^ w - 2 ^ k = 2 ^ w - ((2 ^ k - 1) + 1) := by omega
  rw [e, Nat.testBit_two_pow_sub_succ (by omega), Nat.testBit_two_pow_sub_one]
  by_cases h1 : t < w <;> by_cases h2 : t < k <;> simp [h1, h2] <;> omega

theorem shl_one (cfg : Cfg) {w k : Nat} (hk : k < w) : shl cfg w 1 k = .ok (2 ^ k) := by
  rw [shl, if_pos hk, Nat.one_shiftLeft, Nat.mod_eq_of_lt (Nat.pow_lt_pow_right (by decide) hk)]

theorem shl_allOnes (cfg : Cfg) {w k : Nat} (hk : k < w) :
    shl cfg w (allOnes w) k = .ok (2 ^ w - 2 ^ k) := by
  rw [shl, if_pos hk]
  congr 1
  apply Nat.eq_of_testBit_eq
  intro t
  rw [testBit_two_pow_sub_two_pow (by omega), Nat.testBit_mod_two_pow, Nat.testBit_shiftLeft,
    allOnes, Nat.testBit_two_pow_sub_one]
  by_cases h1 : t < w <;> by_cases h2 : k ≤ t <;> simp [h1, h2] <;> omega

theorem notW_mask {w k : Nat} (hk : k ≤ w) : notW w (2 ^ w - 2 ^ k) = 2 ^ k - 1 := by
  apply Nat.eq_of_testBit_eq
  intro t
  rw [notW, allOnes, Nat.testBit_xor, testBit_two_pow_sub_two_pow hk, Nat.testBit_two_pow_sub_one,
    Nat.testBit_two_pow_sub_one]
  by_cases h1 : t < w <;> by_cases h2 : k ≤ t <;> simp [h1, h2] <;> omega

theorem or_mask_eq_add {w k x : Nat} (hk : k ≤ w) (hx : x < 2 ^ k) :
    x ||| (2 ^ w - 2 ^ k) = x + (2 ^ w - 2 ^ k) := by
  have e : 2 ^ w - 2 ^ k = 2 ^ k * (2 ^ (w - k) - 1) := by
    rw [Nat.mul_sub, ← Nat.pow_add, Nat.mul_one]
    congr 2; omega
  rw [e, Nat.or_comm, Nat.add_comm, Nat.two_pow_add_eq_or_of_lt hx]

/-- `sign_fix` computes `readValue` (no panic) -/
theorem signFix_eq (cfg : Cfg) (it : IT) {len x : Nat} (h1 : 1 ≤ len) (hlw : len ≤ it.w)
    (hx : x < 2 ^ len) : signFix cfg it x len = .ok (readValue it len x) := by
  obtain ⟨kind, w⟩ := it
  simp only at hlw
  have hl1 : len - 1 < w := by omega
  cases kind
  · rfl
  · simp only [signFix, readValue, subU_ok cfg h1, shl_one cfg hl1, Res.bind_ok,
      and_two_pow_eq_zero_iff]
    by_cases hb : x.testBit (len - 1) = true
    · by_cases hw : len = w
      · simp [hb, hw]
      · have hlt : len < w := by omega
        simp only [hb, hw, Bool.true_eq_false, or_self, if_false, shl_allOnes cfg hlt, Res.bind_ok,
          ne_eq, not_false_eq_true, and_self, if_true, or_mask_eq_add hlw hx]
    · simp [hb]
  · simp only [signFix, readValue, subU_ok cfg h1, shl_one cfg hl1, Res.bind_ok,
      and_two_pow_eq_zero_iff]
    by_cases hb : x.testBit (len - 1) = true
    · simp only [hb, Bool.true_eq_false, if_false, shl_allOnes cfg hl1, Res.bind_ok, if_true,
        notW_mask (Nat.le_of_lt hl1), Nat.and_two_pow_sub_one_eq_mod]
    · simp [hb]

theorem wireValue_lt (it : IT) {len : Nat} (h1 : 1 ≤ len) (v : Nat) :
    wireValue it len v < 2 ^ len := by
  have hpos := Nat.two_pow_pos len
  have e : 2 ^ len = 2 ^ (len - 1) + 2 ^ (len - 1) := by
    have : len = (len - 1) + 1 := by omega
    rw [this, Nat.pow_succ]; simp; omega
  obtain ⟨kind, w⟩ := it
  cases kind
  · exact Nat.mod_lt _ hpos
  · exact Nat.mod_lt _ hpos
  · simp only [wireValue]
    split
    · have := Nat.mod_lt (negW w v) (Nat.two_pow_pos (len - 1))
      split <;> omega
    · exact Nat.mod_lt _ hpos

/-- `sign_fix_rev` does not panic; the low `len` bits of its result are `wireValue` -/
theorem signFixRev_spec (cfg : Cfg) (it : IT) {len v : Nat} (h1 : 1 ≤ len) (hlw : len ≤ it.w)
    (hv : v < 2 ^ it.w) :
    ∃ value, signFixRev cfg it v len = .ok value ∧ value < 2 ^ it.w ∧
      value % 2 ^ len = wireValue it len v := by
  obtain ⟨kind, w⟩ := it
  simp only at hlw hv
  have hl1 : len - 1 < w := by omega
  cases kind
  · exact ⟨v, rfl, hv, rfl⟩
  · exact ⟨v, rfl, hv, rfl⟩
  · simp only [signFixRev, wireValue, subU_ok cfg h1, shl_one cfg hl1, Res.bind_ok,
      and_two_pow_eq_zero_iff]
    by_cases hb : v.testBit (len - 1) = true
    · simp only [hb, Bool.true_eq_false, if_false, shl_allOnes cfg hl1, Res.bind_ok, if_true,
        notW_mask (Nat.le_of_lt hl1), Nat.and_two_pow_sub_one_eq_mod]
      have hm := Nat.mod_lt (negW w v) (Nat.two_pow_pos (len - 1))
      have e : 2 ^ len = 2 ^ (len - 1) + 2 ^ (len - 1) := by
        have : len = (len - 1) + 1 := by omega
        rw [this, Nat.pow_succ]; simp; omega
      have hle : 2 ^ len ≤ 2 ^ w := Nat.pow_le_pow_right (by decide) hlw
      by_cases hz : negW w v % 2 ^ (len - 1) = 0
      · simp only [hz, if_true]
        exact ⟨0, rfl, Nat.two_pow_pos w, Nat.zero_mod _⟩
      · simp only [hz, if_false]
        have hor : negW w v % 2 ^ (len - 1) ||| 2 ^ (len - 1)
            = 2 ^ (len - 1) + negW w v % 2 ^ (len - 1) := by
          have := Nat.two_pow_add_eq_or_of_lt hm 1
          rw [Nat.mul_one] at this
          rw [this, Nat.or_comm]
        rw [hor]
        refine ⟨_, rfl, by omega, Nat.mod_eq_of_lt (by omega)⟩
    · simp only [hb, Bool.false_eq_true, if_false, if_true]
      exact ⟨v, rfl, hv, rfl⟩

/-! ### Round trip on the specification side -/

/-- the values a `len`-bit field of kind `it.kind` can carry:
U: `0 ≤ v < 2^len`; I: `-2^(len-1) ≤ v < 2^(len-1)`; SM: `|v| < 2^(len-1)` -/
def Representable (it : IT) (len v : Nat) : Prop :=
  match it.kind with
  | .u => v < 2 ^ len
  | .i => -((2 ^ (len - 1) : Nat) : Int) ≤ toInt it.w v ∧ toInt it.w v < ((2 ^ (len - 1) : Nat) : Int)
  | .sm => -((2 ^ (len - 1) : Nat) : Int) < toInt it.w v ∧ toInt it.w v < ((2 ^ (len - 1) : Nat) : Int)

theorem two_pow_pred_add {len : Nat} (h1 : 1 ≤ len) : 2 ^ len = 2 ^ (len - 1) + 2 ^ (len - 1) := by
  have : len = (len - 1) + 1 := by omega
  rw [this, Nat.pow_succ]; simp; omega

theorem testBit_top {k x : Nat} (h1 : 2 ^ k ≤ x) (h2 : x < 2 ^ k + 2 ^ k) : x.testBit k = true := by
  have e : x = 2 ^ k + (x - 2 ^ k) := by omega
  rw [e, Nat.testBit_two_pow_add_eq, Nat.testBit_lt_two_pow (by omega)]
  rfl

/-- signed range in `Nat` terms -/
theorem toInt_range {w len v : Nat} (h1 : 1 ≤ len) (hlw : len ≤ w) (hv : v < 2 ^ w) :
    (-((2 ^ (len - 1) : Nat) : Int) ≤ toInt w v ∧ toInt w v < ((2 ^ (len - 1) : Nat) : Int))
      ↔ (v < 2 ^ (len - 1) ∨ 2 ^ w - 2 ^ (len - 1) ≤ v) := by
  have hw := two_pow_pred_add (len := w) (by omega)
  have hle : 2 ^ (len - 1) ≤ 2 ^ (w - 1) := Nat.pow_le_pow_right (by decide) (by omega)
  unfold toInt
  split <;> omega

theorem toInt_range' {w len v : Nat} (h1 : 1 ≤ len) (hlw : len ≤ w) (hv : v < 2 ^ w) :
    (-((2 ^ (len - 1) : Nat) : Int) < toInt w v ∧ toInt w v < ((2 ^ (len - 1) : Nat) : Int))
      ↔ (v < 2 ^ (len - 1) ∨ 2 ^ w - 2 ^ (len - 1) < v) := by
  have hw := two_pow_pred_add (len := w) (by omega)
  have hle : 2 ^ (len - 1) ≤ 2 ^ (w - 1) := Nat.pow_le_pow_right (by decide) (by omega)
  unfold toInt
  split <;> omega

theorem sub_mod_two_pow {w len c : Nat} (hlw : len ≤ w) (hc1 : 1 ≤ c) (hc : c ≤ 2 ^ len) :
    (2 ^ w - c) % 2 ^ len = 2 ^ len - c := by
  have e : 2 ^ w = 2 ^ len * 2 ^ (w - len) := by rw [← Nat.pow_add]; congr 1; omega
  have hq := Nat.two_pow_pos (w - len)
  have e2 : 2 ^ w - c = (2 ^ len - c) + 2 ^ len * (2 ^ (w - len) - 1) := by
    rw [Nat.mul_sub, Nat.mul_one, ← e]
    have : 2 ^ len ≤ 2 ^ w := Nat.pow_le_pow_right (by decide) hlw
    omega
  rw [e2, Nat.add_mul_mod_self_left, Nat.mod_eq_of_lt (by omega)]

theorem readValue_wireValue (it : IT) {len v : Nat} (h1 : 1 ≤ len) (hlw : len ≤ it.w)
    (hv : v < 2 ^ it.w) (hr : Representable it len v) :
    readValue it len (wireValue it len v) = v := by
  obtain ⟨kind, w⟩ := it
  simp only at hlw hv
  have hL := two_pow_pred_add h1
  have hLW : 2 ^ len ≤ 2 ^ w := Nat.pow_le_pow_right (by decide) hlw
  have hP := Nat.two_pow_pos (len - 1)
  cases kind
  · simp only [Representable] at hr
    simp only [readValue, wireValue, Nat.mod_eq_of_lt hr]
  · simp only [Representable] at hr
    rw [toInt_range h1 hlw hv] at hr
    simp only [readValue, wireValue]
    by_cases hw : len = w
    · subst hw
      simp [Nat.mod_eq_of_lt hv]
    · rcases hr with hr | hr
      · have e1 : v % 2 ^ len = v := Nat.mod_eq_of_lt (by omega)
        have e2 : v.testBit (len - 1) = false := Nat.testBit_lt_two_pow hr
        simp [e1, e2]
      · have e1 : v % 2 ^ len = 2 ^ len - (2 ^ w - v) := by
          have := sub_mod_two_pow (c := 2 ^ w - v) hlw (by omega) (by omega)
          rwa [show 2 ^ w - (2 ^ w - v) = v from by omega] at this
        have e2 : (2 ^ len - (2 ^ w - v)).testBit (len - 1) = true :=
          testBit_top (by omega) (by omega)
        simp only [e1, e2, ne_eq, hw, not_false_eq_true, and_self, if_true]
        omega
  · simp only [Representable] at hr
    rw [toInt_range' h1 hlw hv] at hr
    simp only [readValue, wireValue]
    rcases hr with hr | hr
    · have e1 : v % 2 ^ len = v := Nat.mod_eq_of_lt (by omega)
      have e2 : v.testBit (len - 1) = false := Nat.testBit_lt_two_pow hr
      simp [e1, e2]
    · have e0 : v.testBit (len - 1) = true := by
        have e : v = 2 ^ w - ((2 ^ w - v - 1) + 1) := by omega
        rw [e, Nat.testBit_two_pow_sub_succ (by omega), Nat.testBit_lt_two_pow (by omega)]
        simp; omega
      have e1 : negW w v = 2 ^ w - v := by
        unfold negW; exact Nat.mod_eq_of_lt (by omega)
      have e2 : (2 ^ w - v) % 2 ^ (len - 1) = 2 ^ w - v := Nat.mod_eq_of_lt (by omega)
      have e3 : ¬ (2 ^ w - v = 0) := by omega
      have e4 : (2 ^ (len - 1) + (2 ^ w - v)).testBit (len - 1) = true := by
        rw [Nat.testBit_two_pow_add_eq, Nat.testBit_lt_two_pow (by omega)]; rfl
      have e5 : (2 ^ (len - 1) + (2 ^ w - v)) % 2 ^ (len - 1) = 2 ^ w - v := by
        rw [Nat.add_mod_left, e2]
      have e6 : negW w (2 ^ w - v) = v := by
        unfold negW; rw [Nat.mod_eq_of_lt (by omega)]; omega
      simp only [e0, e1, e2, e3, e4, e5, e6, if_true, if_false]

/-! ### Meaning of `wireValue` in terms of the signed reading -/

/-- the wire bits of a signed (`I`) field are the two's complement of its signed reading -/
theorem wireValue_i_eq (w : Nat) {len v : Nat} (hlw : len ≤ w) :
    ((wireValue ⟨.i, w⟩ len v : Nat) : Int) = toInt w v % ((2 ^ len : Nat) : Int) := by
  simp only [wireValue]
  have e : (2 ^ w : Nat) = 2 ^ len * 2 ^ (w - len) := by rw [← Nat.pow_add]; congr 1; omega
  unfold toInt
  split
  · rw [Int.natCast_emod]
  · rw [e, Int.natCast_mul, Int.sub_mul_emod_self_left, Int.natCast_emod]

/-- the wire bits of a sign-magnitude (`SM`) field: sign bit, then the magnitude -/
theorem wireValue_sm_eq (w : Nat) {len v : Nat} (h1 : 1 ≤ len) (hlw : len ≤ w) (hv : v < 2 ^ w)
    (hr : Representable ⟨.sm, w⟩ len v) :
    ((wireValue ⟨.sm, w⟩ len v : Nat) : Int) =
      if toInt w v < 0 then ((2 ^ (len - 1) : Nat) : Int) + -(toInt w v) else toInt w v := by
  simp only [Representable] at hr
  have hr' := (toInt_range' h1 hlw hv).1 hr
  have hL := two_pow_pred_add h1
  have hW := two_pow_pred_add (len := w) (by omega)
  have hle : 2 ^ (len - 1) ≤ 2 ^ (w - 1) := Nat.pow_le_pow_right (by decide) (by omega)
  have hP := Nat.two_pow_pos (len - 1)
  simp only [wireValue]
  rcases hr' with h | h
  · have e1 : v % 2 ^ len = v := Nat.mod_eq_of_lt (by omega)
    have e2 : v.testBit (len - 1) = false := Nat.testBit_lt_two_pow h
    have e3 : toInt w v = v := by unfold toInt; rw [if_pos (by omega)]
    simp only [e1, e2, e3]
    simp
    omega
  · have e0 : v.testBit (len - 1) = true := by
      have e : v = 2 ^ w - ((2 ^ w - v - 1) + 1) := by omega
      rw [e, Nat.testBit_two_pow_sub_succ (by omega), Nat.testBit_lt_two_pow (by omega)]
      simp; omega
    have e1 : negW w v = 2 ^ w - v := by
      unfold negW; exact Nat.mod_eq_of_lt (by omega)
    have e2 : (2 ^ w - v) % 2 ^ (len - 1) = 2 ^ w - v := Nat.mod_eq_of_lt (by omega)
    have e3 : ¬ (2 ^ w - v = 0) := by omega
    have e4 : toInt w v = (v : Int) - ((2 ^ w : Nat) : Int) := by
      unfold toInt; rw [if_neg (by omega)]
    simp only [e0, e1, e2, e3, e4, if_true, if_false]
    have : (v : Int) - ((2 ^ w : Nat) : Int) < 0 := by omega
    rw [if_pos this]
    omega

end Rtcm.Bits
