import Rtcm.Proofs.DecLocal
import Rtcm.Proofs.WireIdem
import Rtcm.Proofs.NoPanicDec
import Rtcm.Proofs.InterpFrame
import Rtcm.Props.C08
import Rtcm.Props.C15
import Rtcm.Props.C17
/-!
# The codec law for fragments: what the encoder writes, the decoder reads back as a normal form,
and the normal form re-encodes to exactly the same bits

`Law E D` (an encoder `E`, a decoder `D`): whenever `E ts c = .ok (c', rest)` on a byte buffer,
* `NoPanic.Ext c c'` (same length, bytes stay bytes, cursor forward and inside, bits before `c.off`
  untouched),
* `D` run on the buffer the encoder left, from the old cursor, succeeds with some tokens `nt` and stops
  exactly at `c'`,
* `E (nt ++ rest') c = .ok (c', rest')` for every `rest'`: the normal form is accepted, consumes exactly
  its own tokens and produces the same buffer and cursor, bit for bit,
* fixed point: if the tokens consumed were themselves produced by `D` (from any buffer whatsoever:
  `ts = t0 ++ r` with `D c0 = .ok (t0, _)`), then `nt = t0` and exactly `t0` was consumed.

Reading back from other buffers (later writes, the truncated payload) is `DecLocal.Local`.
-/
namespace Rtcm.CodecLaw
open Rtcm.Bits Rtcm.Schema Rtcm.Interp Rtcm.CurLaws Rtcm.Text Rtcm.WF Rtcm.DecLocal

abbrev Fit (c : Cur) : Prop := c.off ≤ 8 * c.data.length

/-- a token that a Rust value can give rise to: byte strings consist of bytes -/
def tokOK : Tok → Bool
  | .bytes b => b.all (· < 256)
  | _ => true

/-- the token stream denotes a Rust message value as far as byte strings go -/
def TokOK (ts : List Tok) : Prop := ∀ t ∈ ts, tokOK t = true

theorem TokOK.suffix {pre rest : List Tok} (h : TokOK (pre ++ rest)) : TokOK rest :=
  fun t ht => h t (List.mem_append_right _ ht)

/-- the codec law for an encoder / decoder pair -/
def Law (E : Enc) (Dd : Dec) : Prop :=
  ∀ ts c c' rest, NoPanic.Good c → Fit c → TokOK ts → E ts c = .ok (c', rest) →
    (∃ pre, ts = pre ++ rest) ∧ NoPanic.Ext c c' ∧
    ∃ nt, Dd ⟨c'.data, c.off⟩ = .ok (nt, c') ∧ (∀ rest', E (nt ++ rest') c = .ok (c', rest')) ∧
      ∀ c0 t0 c0' r, Dd c0 = .ok (t0, c0') → ts = t0 ++ r → nt = t0 ∧ rest = r

/-! ### data fields -/

theorem quantise_lt {s : DfSpec} {v : Tok} {p : Nat} (h : Df.quantise s v = .ok p) : p < 2 ^ s.it.w := by
  unfold Df.quantise at h
  split at h
  · split at h
    · simp only at h
      split at h
      · simp only [Res.ok.injEq] at h
        rw [← h]; exact ofInt_lt' _ _
      · cases h
      · cases h
    · cases h
  · split at h
    · simp only at h
      split at h
      · simp only [Res.ok.injEq] at h
        rw [← h]; exact ofInt_lt' _ _
      · cases h
      · cases h
    · cases h

/-- a successful `Df.encode` is one `put` of a carrier pattern -/
theorem encode_shape {cfg : Cfg} {s : DfSpec} {ts rest : List Tok} {c c' : Cur}
    (h : Df.encode cfg s ts c = .ok (c', rest)) :
    (∃ pre, ts = pre ++ rest) ∧
    ∃ p, p < 2 ^ s.it.w ∧ put cfg s.it c.data c.off p s.len = .ok (c'.data, c'.off) := by
  have key : ∀ (p : Nat) (r : List Tok), p < 2 ^ s.it.w →
      (match put cfg s.it c.data c.off p s.len with
        | .ok (d, o) => Res.ok (({ data := d, off := o } : Cur), r)
        | .err e => .err e
        | .panic w => .panic w) = .ok (c', rest) →
      r = rest ∧ ∃ p, p < 2 ^ s.it.w ∧ put cfg s.it c.data c.off p s.len = .ok (c'.data, c'.off) := by
    intro p r hp hh
    split at hh
    · next d o e =>
      simp only [Res.ok.injEq, Prod.mk.injEq] at hh
      obtain ⟨rfl, rfl⟩ := hh
      exact ⟨rfl, p, hp, e⟩
    · cases hh
    · cases hh
  unfold Df.encode at h
  simp only [] at h
  split at h
  · split at h
    · obtain ⟨rfl, hk⟩ := key _ _ (ofInt_lt' _ _) h
      exact ⟨⟨[_], rfl⟩, hk⟩
    · split at h
      · next p hq =>
        obtain ⟨rfl, hk⟩ := key _ _ (quantise_lt hq) h
        exact ⟨⟨[_, _], rfl⟩, hk⟩
      · cases h
      · cases h
    · cases h
  · split at h
    · split at h
      · next p hq =>
        obtain ⟨rfl, hk⟩ := key _ _ (quantise_lt hq) h
        exact ⟨⟨[_], rfl⟩, hk⟩
      · cases h
      · cases h
    · cases h

/-- two patterns with the same wire value are written identically -/
theorem put_congr_wire (cfg : Cfg) (it : IT) (hw8 : 8 ≤ it.w) (hw64 : it.w ≤ 64) {len : Nat}
    (h1 : 1 ≤ len) (hlw : len ≤ it.w) {data : List Nat} (hd : ∀ d ∈ data, d < 256) {off p q : Nat}
    (hp : p < 2 ^ it.w) (hq : q < 2 ^ it.w) (hwv : wireValue it len p = wireValue it len q)
    {d' : List Nat} {o : Nat} (h : put cfg it data off p len = .ok (d', o)) :
    put cfg it data off q len = .ok (d', o) := by
  by_cases hfit : off + len ≤ 8 * data.length
  · obtain ⟨d1, e1, l1, b1, s1⟩ := C07.put_spec cfg it data off p len hw8 hw64 h1 hlw hd hfit hp
    obtain ⟨d2, e2, l2, b2, s2⟩ := C07.put_spec cfg it data off q len hw8 hw64 h1 hlw hd hfit hq
    rw [e1] at h
    simp only [Res.ok.injEq, Prod.mk.injEq] at h
    obtain ⟨rfl, rfl⟩ := h
    rw [e2]
    have : d2 = d1 := by
      apply bytes_ext (by rw [l1, l2]) b2 b1
      intro g
      rw [s1, s2]
      unfold wireBit
      rw [hwv]
    rw [this]
  · rw [C07.put_overflow_error cfg it data off p len (by omega)] at h
    cases h

theorem carrier_back (it : IT) {x : Nat} (hx : x < 2 ^ it.w) : ofInt it.w (Df.carrierVal it x) = x := by
  unfold Df.carrierVal
  split
  · exact ofInt_toInt hx
  · exact ofInt_natCast hx

theorem parse_of_parseF {cfg : Cfg} {it : IT} {len : Nat} {D : List Nat} {o v o' : Nat}
    (h : parseF cfg it len ⟨D, o⟩ = .ok (v, ⟨D, o'⟩)) : parse cfg it D o len = .ok (v, o') := by
  unfold parseF at h
  simp only at h
  split at h
  · next v1 o1 e =>
    simp only [Res.ok.injEq, Prod.mk.injEq, Cur.mk.injEq, true_and] at h
    obtain ⟨rfl, rfl⟩ := h
    exact e
  · cases h
  · cases h

/-- a successful `Df.decode` has parsed the reading of some `len`-bit wire value -/
theorem decode_parse {cfg : Cfg} {s : DfSpec} (hw8 : 8 ≤ s.it.w) (hw64 : s.it.w ≤ 64) (h1 : 1 ≤ s.len)
    (hlw : s.len ≤ s.it.w) {c0 c0' : Cur} {t0 : List Tok} (h : Df.decode cfg s c0 = .ok (t0, c0')) :
    ∃ q o, parse cfg s.it c0.data c0.off s.len = .ok (q, o) ∧
      ∃ y, y < 2 ^ s.len ∧ q = readValue s.it s.len y := by
  by_cases hfit : c0.off + s.len ≤ 8 * c0.data.length
  · exact ⟨_, _, C07.parse_bits cfg s.it c0.data c0.off s.len hw8 hw64 h1 hlw hfit, _,
      fieldValue_lt _ _ _, rfl⟩
  · unfold Df.decode at h
    rw [C07.parse_overflow_error cfg s.it c0.data c0.off s.len (by omega)] at h
    cases h

/-- the tokens `Df.decode` returns are a function of the parsed pattern -/
theorem decode_tokens_fn {cfg : Cfg} {s : DfSpec} {c1 c1' c2 c2' : Cur} {t1 t2 : List Tok} {p o1 o2 : Nat}
    (h1 : Df.decode cfg s c1 = .ok (t1, c1')) (h2 : Df.decode cfg s c2 = .ok (t2, c2'))
    (p1 : parse cfg s.it c1.data c1.off s.len = .ok (p, o1))
    (p2 : parse cfg s.it c2.data c2.off s.len = .ok (p, o2)) : t1 = t2 := by
  unfold Df.decode at h1 h2
  rw [p1] at h1
  rw [p2] at h2
  simp only at h1 h2
  cases hq : Df.dequantise cfg s (Df.carrierVal s.it p) with
  | ok tk =>
    rw [hq] at h1 h2
    simp only at h1 h2
    cases hi : s.inv with
    | none =>
      rw [hi] at h1 h2
      simp only [Res.ok.injEq, Prod.mk.injEq] at h1 h2
      rw [← h1.1, ← h2.1]
    | some inv =>
      rw [hi] at h1 h2
      simp only at h1 h2
      split at h1
      · next heq =>
        rw [if_pos heq] at h2
        simp only [Res.ok.injEq, Prod.mk.injEq] at h1 h2
        rw [← h1.1, ← h2.1]
      · next hne =>
        rw [if_neg hne] at h2
        simp only [Res.ok.injEq, Prod.mk.injEq] at h1 h2
        rw [← h1.1, ← h2.1]
  | err e => rw [hq] at h1; cases h1
  | panic w => rw [hq] at h1; cases h1

/-- the law for one data field (no hypothesis on the tokens) -/
theorem df_core (cfg : Cfg) (s : DfSpec) (hw : DfWf.wf s = true) (ts : List Tok) (c c' : Cur)
    (rest : List Tok) (hg : NoPanic.Good c) (h : Df.encode cfg s ts c = .ok (c', rest)) :
    (∃ pre, ts = pre ++ rest) ∧ NoPanic.Ext c c' ∧
    ∃ nt, Df.decode cfg s ⟨c'.data, c.off⟩ = .ok (nt, c') ∧
      (∀ rest', Df.encode cfg s (nt ++ rest') c = .ok (c', rest')) ∧
      ∀ c0 t0 c0' r, Df.decode cfg s c0 = .ok (t0, c0') → ts = t0 ++ r → nt = t0 ∧ rest = r := by
  have hW := NoPanic.widths_of_wf hw
  obtain ⟨hw8, hw64, h1, hlw⟩ := hW
  have hext : NoPanic.Ext c c' := by
    have := NoPanic.dfEncode_es cfg s ts c ⟨hw8, hw64, h1, hlw⟩ hg
    rw [h] at this
    exact this
  obtain ⟨hsuf, p0, hp0, hput⟩ := encode_shape h
  refine ⟨hsuf, hext, ?_⟩
  have hputF : putF cfg s.it p0 s.len c = .ok c' := by
    unfold putF
    rw [hput]
  obtain ⟨_, hoff, hrd⟩ := putF_law cfg s.it hw8 hw64 h1 hlw hg hp0 hputF
  have hparseF := hrd c'.data rfl (AgreeOn.rfl' _ _ _)
  generalize hx : readValue s.it s.len (wireValue s.it s.len p0) = x at hparseF
  have hparse : parse cfg s.it c'.data c.off s.len = .ok (x, c'.off) := by
    unfold parseF at hparseF
    simp only at hparseF
    split at hparseF
    · next v o e =>
      simp only [Res.ok.injEq, Prod.mk.injEq, Cur.mk.injEq, true_and] at hparseF
      obtain ⟨rfl, rfl⟩ := hparseF
      exact e
    · cases hparseF
    · cases hparseF
  have hwl := wireValue_lt s.it h1 p0
  have hxlt : x < 2 ^ s.it.w := by rw [← hx]; exact readValue_lt s.it h1 hlw hwl
  have hr : DfWf.InRange s (Df.carrierVal s.it x) := by
    rw [← hx]; exact NoPanic.readValue_inRange s _ h1 hlw hwl
  have hwx : wireValue s.it s.len x = wireValue s.it s.len p0 := by
    rw [← hx]
    exact wireValue_readValue s.it h1 hlw hwl (fun hk => wireValue_ne_negZero s.it h1 p0 hk)
  have hputx : put cfg s.it c.data c.off x s.len = .ok (c'.data, c'.off) :=
    put_congr_wire cfg s.it hw8 hw64 h1 hlw hg hp0 hxlt hwx.symm hput
  obtain ⟨nt, hdec, _⟩ := C08.df_decode_encode cfg s ⟨c'.data, c.off⟩ c x c'.off [] hw hparse hr
  refine ⟨nt, hdec, ?_, ?_⟩
  · intro rest'
    obtain ⟨nt', hdec', henc⟩ := C08.df_decode_encode cfg s ⟨c'.data, c.off⟩ c x c'.off rest' hw hparse hr
    rw [hdec] at hdec'
    simp only [Res.ok.injEq, Prod.mk.injEq, and_true] at hdec'
    subst hdec'
    rw [henc, carrier_back s.it hxlt]
    unfold DfLaws.putPat
    rw [hputx]
  · -- fixed point
    intro c0 t0 c0' r hd0 hts
    obtain ⟨q, o0, hp0', hq⟩ := decode_parse hw8 hw64 h1 hlw hd0
    obtain ⟨y, hy, rfl⟩ := hq
    have hqlt : readValue s.it s.len y < 2 ^ s.it.w := readValue_lt s.it h1 hlw hy
    have hr0 : DfWf.InRange s (Df.carrierVal s.it (readValue s.it s.len y)) :=
      NoPanic.readValue_inRange s _ h1 hlw hy
    obtain ⟨t0', hd0', henc0⟩ := C08.df_decode_encode cfg s c0 c _ o0 r hw hp0' hr0
    rw [hd0] at hd0'
    simp only [Res.ok.injEq, Prod.mk.injEq] at hd0'
    obtain ⟨rfl, _⟩ := hd0'
    rw [hts, henc0, carrier_back s.it hqlt] at h
    unfold DfLaws.putPat at h
    split at h
    · next d o e =>
      simp only [Res.ok.injEq, Prod.mk.injEq] at h
      obtain ⟨rfl, rfl⟩ := h
      refine ⟨?_, rfl⟩
      -- the pattern read back is the one the original decoder had read
      have hputF' : putF cfg s.it (readValue s.it s.len y) s.len c = .ok ⟨d, o⟩ := by
        unfold putF; rw [e]
      obtain ⟨_, _, hrd'⟩ := putF_law cfg s.it hw8 hw64 h1 hlw hg hqlt hputF'
      have hp2 := parse_of_parseF (hrd' d rfl (AgreeOn.rfl' _ _ _))
      rw [readValue_idem s.it h1 hlw hy] at hp2
      simp only at hparse
      rw [hparse] at hp2
      simp only [Res.ok.injEq, Prod.mk.injEq] at hp2
      obtain ⟨rfl, _⟩ := hp2
      exact decode_tokens_fn hdec hd0 hparse hp0'
    · cases h
    · cases h

theorem df_law (cfg : Cfg) (s : DfSpec) (hw : DfWf.wf s = true) :
    Law (Df.encode cfg s) (Df.decode cfg s) :=
  fun ts c c' rest hg _ _ h => df_core cfg s hw ts c c' rest hg h

/-! ### composition -/

theorem Law.congr {E E' : Enc} {Dd Dd' : Dec} (h : Law E' Dd') (hE : ∀ ts c, E ts c = E' ts c)
    (hD : ∀ c, Dd c = Dd' c) : Law E Dd := by
  have e1 : E = E' := funext fun ts => funext fun c => hE ts c
  have e2 : Dd = Dd' := funext hD
  rw [e1, e2]; exact h

/-- what was decoded from the buffer an encoder left is still decoded after later writes -/
theorem read_after {α : Type} {Dd : Cur → Res (α × Cur)} (l : LocalG Dd) {o : Nat} {c1 c2 : Cur} {nt : α}
    (e12 : NoPanic.Ext c1 c2) (hg1 : NoPanic.Good c1) (hfit1 : Fit c1)
    (hd : Dd ⟨c1.data, o⟩ = .ok (nt, c1)) : Dd ⟨c2.data, o⟩ = .ok (nt, ⟨c2.data, c1.off⟩) := by
  obtain ⟨_, _, loc⟩ := l c1.data o nt c1 hd
  refine loc c2.data hg1 e12.good ?_ ?_
  · have := e12.len
    unfold Fit at hfit1
    omega
  · intro g _ hg
    exact e12.keep g hg

theorem law_nil : Law (fun ts c => .ok (c, ts)) (fun c => .ok ([], c)) := by
  intro ts c c' rest hg hfit _ h
  simp only [Res.ok.injEq, Prod.mk.injEq] at h
  obtain ⟨rfl, rfl⟩ := h
  refine ⟨⟨[], rfl⟩, NoPanic.Ext.refl hg, [], rfl, fun _ => rfl, ?_⟩
  intro c0 t0 c0' r h0 hts
  simp only [Res.ok.injEq, Prod.mk.injEq] at h0
  obtain ⟨rfl, _⟩ := h0
  exact ⟨rfl, hts⟩

theorem law_seq {E1 E2 : Enc} {D1 D2 : Dec} (h1 : Law E1 D1) (h2 : Law E2 D2) (l1 : Local D1) :
    Law (fun ts c =>
          match E1 ts c with
          | .ok (c', ts') => E2 ts' c'
          | .err e => .err e
          | .panic w => .panic w)
        (fun c =>
          match D1 c with
          | .ok (t, c') =>
            match D2 c' with
            | .ok (ts, c'') => .ok (t ++ ts, c'')
            | .err e => .err e
            | .panic w => .panic w
          | .err e => .err e
          | .panic w => .panic w) := by
  intro ts c c2 rest hg hfit hok h
  simp only at h
  split at h
  · next c1 ts1 e1 =>
    obtain ⟨⟨pre1, hs1⟩, x1, nt1, d1, r1, fx1⟩ := h1 ts c c1 ts1 hg hfit hok e1
    have hok1 : TokOK ts1 := by rw [hs1] at hok; exact hok.suffix
    have hfit1 : Fit c1 := x1.fit hfit
    obtain ⟨⟨pre2, hs2⟩, x2, nt2, d2, r2, fx2⟩ := h2 ts1 c1 c2 rest x1.good hfit1 hok1 h
    refine ⟨⟨pre1 ++ pre2, by rw [hs1, hs2, List.append_assoc]⟩, x1.trans x2, nt1 ++ nt2, ?_, ?_, ?_⟩
    · simp only
      rw [read_after l1 x2 x1.good hfit1 d1]
      simp only
      rw [d2]
    · intro rest'
      simp only
      rw [List.append_assoc, r1 (nt2 ++ rest')]
      simp only
      exact r2 rest'
    · intro c0 t0 c0' r h0 hts
      simp only at h0
      split at h0
      · next ta ca ea =>
        split at h0
        · next tb cb eb =>
          simp only [Res.ok.injEq, Prod.mk.injEq] at h0
          obtain ⟨rfl, rfl⟩ := h0
          rw [List.append_assoc] at hts
          obtain ⟨rfl, rfl⟩ := fx1 c0 ta ca (tb ++ r) ea hts
          obtain ⟨rfl, rfl⟩ := fx2 ca tb cb r eb rfl
          exact ⟨rfl, rfl⟩
        · cases h0
        · cases h0
      · cases h0
      · cases h0
  · cases h
  · cases h

theorem law_repeat {E : Enc} {Dd : Dec} (h : Law E Dd) (l : Local Dd) :
    ∀ n, Law (encRepeat E n) (decRepeat Dd n) := by
  intro n
  induction n with
  | zero =>
    refine law_nil.congr ?_ ?_
    · intro ts c; rw [encRepeat]
    · intro c; rw [decRepeat]
  | succ n ih =>
    refine (law_seq h ih l).congr ?_ ?_
    · intro ts c
      rw [encRepeat]
      cases E ts c with
      | ok r => rfl
      | err e => rfl
      | panic w => rfl
    · intro c
      rw [decRepeat]
      cases Dd c with
      | ok r =>
        obtain ⟨t, c1⟩ := r
        simp only
        cases decRepeat Dd n c1 with
        | ok r2 => rfl
        | err e => rfl
        | panic w => rfl
      | err e => rfl
      | panic w => rfl

/-! ### Latin-1 descriptor strings -/

theorem pushNorm_idem (x : Nat) : pushNorm (pushNorm x) = pushNorm x := by
  unfold pushNorm
  split <;> simp_all

theorem str_law (cfg : Cfg) (glo : SigTable) (cap lenBits : Nat) (h1 : 1 ≤ lenBits) (h8 : lenBits ≤ 8)
    (hcap : cap < 2 ^ lenBits) :
    Law (encFrag cfg glo (.str cap lenBits)) (decFrag cfg (.str cap lenBits)) := by
  intro ts c c' rest hg hfit hok h
  have hext : NoPanic.Ext c c' := by
    have := NoPanic.encFrag_es cfg glo (.str cap lenBits)
      (by unfold WFFrag; simp [h1, h8]) ts c hg
    rw [h] at this
    exact this
  unfold encFrag at h
  split at h
  · next b rest0 =>
    split at h
    · cases h
    · next hlen =>
      obtain ⟨c2, hstr, hk⟩ := lift_ok h
      simp only [Res.ok.injEq, Prod.mk.injEq] at hk
      obtain ⟨rfl, rfl⟩ := hk
      have hb : ∀ x ∈ b.map pushNorm, 1 ≤ x ∧ x ≤ 255 := by
        intro x hx
        obtain ⟨y, hy, rfl⟩ := List.mem_map.mp hx
        have := hok (.bytes b) (List.mem_cons_self ..)
        simp only [tokOK, List.all_eq_true, decide_eq_true_eq] at this
        have hy' := this y hy
        unfold pushNorm
        split <;> omega
      obtain ⟨hdec, _, _⟩ := C17.str_roundtrip cfg cap lenBits h1 h8 hcap (b.map pushNorm) hb
        (by simp only [List.length_map]; omega) c c2 hg hstr
      refine ⟨⟨[_], rfl⟩, hext, [.bytes (b.map pushNorm)], ?_, ?_, ?_⟩
      · rw [decFrag]
        have e : ({ data := c2.data, off := c.off } : Cur) = { c2 with off := c.off } := rfl
        rw [e, hdec]
      · intro rest'
        simp only [List.cons_append, List.nil_append]
        rw [encFrag]
        simp only [List.length_map, List.map_map]
        rw [if_neg hlen]
        have : (pushNorm ∘ pushNorm) = pushNorm := funext pushNorm_idem
        rw [this, hstr]
        rfl
      · intro c0 t0 c0' r h0 hts
        rw [decFrag] at h0
        split at h0
        · next b0 cc e0 =>
          simp only [Res.ok.injEq, Prod.mk.injEq] at h0
          obtain ⟨rfl, _⟩ := h0
          simp only [List.cons_append, List.nil_append, List.cons.injEq, Tok.bytes.injEq] at hts
          obtain ⟨rfl, rfl⟩ := hts
          refine ⟨?_, rfl⟩
          -- `b0` is the image of `pushNorm`
          unfold strDecode at e0
          split at e0
          · split at e0
            · cases e0
            · split at e0
              · next bs c'' _ =>
                simp only [Res.ok.injEq, Prod.mk.injEq] at e0
                obtain ⟨rfl, _⟩ := e0
                rw [List.map_map]
                have : (pushNorm ∘ pushNorm) = pushNorm := funext pushNorm_idem
                rw [this]
              · cases e0
              · cases e0
          · cases e0
          · cases e0
        · cases h0
        · cases h0
  · cases h

/-! ### the count field of a `msg_len_middle!` -/

theorem count_law (cfg : Cfg) (l : DfSpec) (hc : wfCount l = true) (hk : l.it.kind = .u) {n : Nat}
    (hn : n < 2 ^ l.len) {c1 c2 : Cur} {r : List Tok} (hg : NoPanic.Good c1)
    (h : Df.encode cfg l [.int n] c1 = .ok (c2, r)) :
    Df.decode cfg l ⟨c2.data, c1.off⟩ = .ok ([.int n], c2) ∧
    ∀ r', Df.encode cfg l (.int n :: r') c1 = .ok (c2, r') := by
  have hwf := NoPanic.wf_of_wfCount hc
  obtain ⟨hw8, hw64, h1, hlw⟩ := NoPanic.widths_of_wf hwf
  unfold wfCount at hc
  simp only [Bool.and_eq_true, Bool.not_eq_true', Option.isNone_iff_eq_none] at hc
  obtain ⟨⟨⟨⟨-, hfl⟩, hres⟩, hbias⟩, hinv⟩ := hc
  have hpw : 2 ^ l.len ≤ 2 ^ l.it.w := Nat.pow_le_pow_right (by decide) hlw
  have hv : n < 2 ^ l.it.w := by omega
  have henc : ∀ r', Df.encode cfg l (.int n :: r') c1 = DfLaws.putPat cfg l c1 n r' := by
    intro r'
    have := DfLaws.encode_ord cfg l (.int n) r' c1 n hinv
      (by simp only [Df.quantise, hfl, hbias, hres, Bool.false_eq_true, if_false, ofInt_natCast hv])
    exact this
  rw [henc []] at h
  unfold DfLaws.putPat at h
  split at h
  · next d o hp =>
    simp only [Res.ok.injEq, Prod.mk.injEq] at h
    obtain ⟨rfl, rfl⟩ := h
    have hfit : c1.off + l.len ≤ 8 * c1.data.length := by
      rcases Nat.lt_or_ge (8 * c1.data.length) (c1.off + l.len) with hlt | hge
      · rw [C07.put_overflow_error cfg l.it c1.data c1.off n l.len (by omega)] at hp
        cases hp
      · exact hge
    have ho : o = c1.off + l.len := by
      obtain ⟨d', e, _⟩ := C07.put_spec cfg l.it c1.data c1.off n l.len hw8 hw64 h1 hlw hg hfit hv
      rw [hp] at e
      simp only [Res.ok.injEq, Prod.mk.injEq] at e
      exact e.2
    subst ho
    have hrep : Representable l.it l.len n := by
      simp only [Representable, hk]; exact hn
    have hparse := C07.parse_put cfg l.it c1.data c1.off n l.len hw8 hw64 h1 hlw hg hfit hv hrep d _ hp
    refine ⟨?_, ?_⟩
    · obtain ⟨hb, hi, hk'⟩ : DfWf.wfBasic l = true ∧ DfWf.wfInv l = true ∧ DfWf.wfInt l = true := by
        unfold DfWf.wf at hwf
        simp only [Bool.and_eq_true, hfl, Bool.false_eq_true, if_false] at hwf
        exact ⟨hwf.1.1, hwf.1.2, hwf.2⟩
      unfold DfWf.wfInt at hk'
      simp only [Bool.and_eq_true, decide_eq_true_eq] at hk'
      have hlo : (Df.dtRange l.dt).1 ≤ DfWf.svLo l := hk'.1.1.1.1.1.1.1.2
      have hhi : DfWf.svHi l ≤ (Df.dtRange l.dt).2 := hk'.1.1.1.1.1.1.2
      have e0 : DfWf.svLo l = 0 := by unfold DfWf.svLo; rw [hk]
      have e1 : DfWf.svHi l = 2 ^ l.len - 1 := by unfold DfWf.svHi; rw [hk]
      have hcv : Df.carrierVal l.it n = (n : Int) := by
        unfold Df.carrierVal IT.signed
        rw [hk]; rfl
      have hwrap : Df.wrapDT l.dt (n : Int) = n := by
        apply DfLaws.wrapDT_eq
        · rw [e0] at hlo; omega
        · rw [e1] at hhi
          have : ((n : Int)) ≤ 2 ^ l.len - 1 := by
            have : (n : Int) < ((2 ^ l.len : Nat) : Int) := by exact_mod_cast hn
            simp only [Nat.cast_pow, Nat.cast_ofNat] at this
            omega
          omega
      unfold Df.decode
      simp only
      rw [hparse]
      simp only [Df.dequantise, hfl, hres, hbias, hinv, hcv, hwrap, Bool.false_eq_true, if_false]
    · intro r'
      rw [henc r']
      unfold DfLaws.putPat
      rw [hp]
  · cases h
  · cases h

/-! ### the fragment law for the simple kinds -/

theorem ext_of_curExt {c c' : Cur} (e : CurLaws.Ext c c') : NoPanic.Ext c c' :=
  ⟨e.good, e.len, e.le, fun _ => e.fit, fun g hg => e.keep g (Or.inl hg)⟩

theorem TokOK.tail {t : Tok} {ts : List Tok} (h : TokOK (t :: ts)) : TokOK ts :=
  fun x hx => h x (List.mem_cons_of_mem _ hx)

end Rtcm.CodecLaw
