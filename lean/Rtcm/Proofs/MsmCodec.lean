import Rtcm.Proofs.CodecLaw
import Rtcm.Props.C10
/-!
# The codec law for the MSM data segment (`.msm`)
-/
namespace Rtcm.MsmCodec
open Rtcm.Bits Rtcm.Schema Rtcm.Interp Rtcm.CurLaws Rtcm.Text Rtcm.WF Rtcm.DecLocal Rtcm.CodecLaw Rtcm.Msm

/-! ### locality of the MSM decoder -/

theorem decColumn_local (cfg : Cfg) (s : DfSpec) (hs : NoPanic.Widths s) :
    ∀ n, LocalG (decColumn cfg s n) := by
  intro n
  induction n with
  | zero => exact localG_pure []
  | succ n ih =>
    refine (localG_bind (df_local cfg s hs) (fun _ => ih) (· :: ·)).congr ?_
    intro c
    rw [decColumn]
    cases Df.decode cfg s c with
    | ok r =>
      obtain ⟨t, c1⟩ := r
      simp only
      cases decColumn cfg s n c1 with
      | ok r2 => rfl
      | err e => rfl
      | panic w => rfl
    | err e => rfl
    | panic w => rfl

theorem decColumns_local (cfg : Cfg) (n : Nat) :
    ∀ (fs : List (String × DfSpec)), NoPanic.WidthsAll fs → LocalG (decColumns cfg n fs) := by
  intro fs
  induction fs with
  | nil => intro _; exact localG_pure []
  | cons f fs ih =>
    intro hw
    obtain ⟨nm, s⟩ := f
    refine (localG_bind (decColumn_local cfg s (hw (nm, s) (List.mem_cons_self ..)) n)
      (fun _ => ih (fun p hp => hw p (List.mem_cons_of_mem _ hp))) (· :: ·)).congr ?_
    intro c
    rw [decColumns]
    cases decColumn cfg s n c with
    | ok r =>
      obtain ⟨t, c1⟩ := r
      simp only
      cases decColumns cfg n fs c1 with
      | ok r2 => rfl
      | err e => rfl
      | panic w => rfl
    | err e => rfl
    | panic w => rfl

/-- `Msm.decode` with the two row lists paired, so that it has the shape of a reader -/
def decodeP (cfg : Cfg) (tbl : SigTable) (satFields sigFields : List (String × DfSpec)) (c : Cur) :
    Res ((List SatRow × List SigRow) × Cur) :=
  match Msm.decode cfg tbl satFields sigFields c with
  | .ok (sats, sigs, c') => .ok ((sats, sigs), c')
  | .err e => .err e
  | .panic w => .panic w

theorem localG_ite {α : Type} (p : Prop) [Decidable p] {A B : Cur → Res (α × Cur)}
    (hA : p → LocalG A) (hB : ¬ p → LocalG B) : LocalG (fun c => if p then A c else B c) := by
  by_cases h : p
  · simp only [h, if_true]; exact hA h
  · simp only [h, if_false]; exact hB h

/-- the rows the decoder assembles -/
def mkSats (satIds : List Nat) (satCols : List (List (List Tok))) : List SatRow :=
  (List.range satIds.length).map fun i => ({ id := satIds.getD i 0, fields := rowOf satCols i } : SatRow)

def mkSigs (cellSigs : List (Nat × Nat × Nat)) (sigCols : List (List (List Tok))) : List SigRow :=
  (List.range cellSigs.length).map fun i =>
    let (sat, b, a) := cellSigs.getD i (0, 0, 0)
    ({ sat := sat, band := b, attr := a, fields := rowOf sigCols i } : SigRow)

/-- the part of the decoder after the three masks -/
def decRows (cfg : Cfg) (tbl : SigTable) (satFields sigFields : List (String × DfSpec))
    (satMask sigMask cellMask : Nat) (c3 : Cur) : Res ((List SatRow × List SigRow) × Cur) :=
  match decColumns cfg (maskIds 64 satMask).length satFields c3 with
  | .ok (satCols, c4) =>
    match lookupSigs tbl (cellIds (maskIds 64 satMask) (maskIds 32 sigMask) cellMask) with
    | .ok cellSigs =>
      match decColumns cfg (cellIds (maskIds 64 satMask) (maskIds 32 sigMask) cellMask).length sigFields c4 with
      | .ok (sigCols, c5) => .ok ((mkSats (maskIds 64 satMask) satCols, mkSigs cellSigs sigCols), c5)
      | .err e => .err e
      | .panic w => .panic w
    | .err e => .err e
    | .panic w => .panic w
  | .err e => .err e
  | .panic w => .panic w

theorem decRows_local (cfg : Cfg) (tbl : SigTable) (satFields sigFields : List (String × DfSpec))
    (hsat : NoPanic.WidthsAll satFields) (hsig : NoPanic.WidthsAll sigFields)
    (satMask sigMask cellMask : Nat) :
    LocalG (decRows cfg tbl satFields sigFields satMask sigMask cellMask) := by
  cases hl : lookupSigs tbl (cellIds (maskIds 64 satMask) (maskIds 32 sigMask) cellMask) with
  | ok cellSigs =>
    refine (localG_bind (decColumns_local cfg (maskIds 64 satMask).length satFields hsat)
      (fun _ => decColumns_local cfg
        (cellIds (maskIds 64 satMask) (maskIds 32 sigMask) cellMask).length sigFields hsig)
      (fun satCols sigCols => (mkSats (maskIds 64 satMask) satCols, mkSigs cellSigs sigCols))).congr ?_
    intro c
    unfold decRows
    rw [hl]
    cases decColumns cfg (maskIds 64 satMask).length satFields c with
    | ok r =>
      obtain ⟨t, c1⟩ := r
      simp only
      cases decColumns cfg (cellIds (maskIds 64 satMask) (maskIds 32 sigMask) cellMask).length sigFields c1 with
      | ok r2 => rfl
      | err e => rfl
      | panic w => rfl
    | err e => rfl
    | panic w => rfl
  | err e =>
    intro D o t c' h
    unfold decRows at h
    rw [hl] at h
    split at h <;> cases h
  | panic w =>
    intro D o t c' h
    unfold decRows at h
    rw [hl] at h
    split at h <;> cases h

/-- `decodeP` in terms of `decRows` -/
theorem decodeP_eq (cfg : Cfg) (tbl : SigTable) (satFields sigFields : List (String × DfSpec)) (c : Cur) :
    decodeP cfg tbl satFields sigFields c =
      match parseU cfg 64 64 c with
      | .ok (satMask, c1) =>
        match parseU cfg 32 32 c1 with
        | .ok (sigMask, c2) =>
          if satMask = 0 ∧ sigMask = 0 then .ok (([], []), c2)
          else if popcount 64 satMask * popcount 32 sigMask > 64 ∨ popcount 64 satMask * popcount 32 sigMask = 0
            then .err .invalidSatelliteSignalCount
          else
            match parseU cfg 64 (popcount 64 satMask * popcount 32 sigMask) c2 with
            | .ok (cellMask, c3) => decRows cfg tbl satFields sigFields satMask sigMask cellMask c3
            | .err e => .err e
            | .panic w => .panic w
        | .err e => .err e
        | .panic w => .panic w
      | .err e => .err e
      | .panic w => .panic w := by
  unfold decodeP Msm.decode
  cases parseU cfg 64 64 c with
  | ok r =>
    obtain ⟨satMask, c1⟩ := r
    simp only
    cases parseU cfg 32 32 c1 with
    | ok r2 =>
      obtain ⟨sigMask, c2⟩ := r2
      simp only
      by_cases hz : satMask = 0 ∧ sigMask = 0
      · simp only [if_pos hz]
      · simp only [if_neg hz]
        by_cases hg : popcount 64 satMask * popcount 32 sigMask > 64 ∨
            popcount 64 satMask * popcount 32 sigMask = 0
        · simp only [if_pos hg]
        · simp only [if_neg hg]
          cases parseU cfg 64 (popcount 64 satMask * popcount 32 sigMask) c2 with
          | ok r3 =>
            obtain ⟨cellMask, c3⟩ := r3
            simp only
            unfold decRows mkSats mkSigs
            cases decColumns cfg (maskIds 64 satMask).length satFields c3 with
            | ok r4 =>
              obtain ⟨satCols, c4⟩ := r4
              simp only
              cases lookupSigs tbl (cellIds (maskIds 64 satMask) (maskIds 32 sigMask) cellMask) with
              | ok cellSigs =>
                simp only
                cases decColumns cfg (cellIds (maskIds 64 satMask) (maskIds 32 sigMask) cellMask).length
                  sigFields c4 with
                | ok r5 => rfl
                | err e => rfl
                | panic w => rfl
              | err e => rfl
              | panic w => rfl
            | err e => rfl
            | panic w => rfl
          | err e => rfl
          | panic w => rfl
    | err e => rfl
    | panic w => rfl
  | err e => rfl
  | panic w => rfl

theorem decodeP_local (cfg : Cfg) (tbl : SigTable) (satFields sigFields : List (String × DfSpec))
    (hsat : NoPanic.WidthsAll satFields) (hsig : NoPanic.WidthsAll sigFields) :
    LocalG (decodeP cfg tbl satFields sigFields) := by
  refine (localG_then (parseU_localG cfg (w := 64) (len := 64) (by decide) (by decide) (by decide) (by decide))
    (fun satMask => localG_then
      (parseU_localG cfg (w := 32) (len := 32) (by decide) (by decide) (by decide) (by decide))
      (fun sigMask => localG_ite (satMask = 0 ∧ sigMask = 0) (fun _ => localG_pure ([], []))
        (fun _ => localG_ite (popcount 64 satMask * popcount 32 sigMask > 64 ∨
              popcount 64 satMask * popcount 32 sigMask = 0)
          (fun _ => localG_err .invalidSatelliteSignalCount)
          (fun hg => localG_then
            (parseU_localG cfg (w := 64) (len := popcount 64 satMask * popcount 32 sigMask) (by decide)
              (by decide) (by omega) (by omega))
            (fun cellMask => decRows_local cfg tbl satFields sigFields hsat hsig satMask sigMask cellMask)))))).congr ?_
  intro c
  rw [decodeP_eq]
  cases parseU cfg 64 64 c with
  | ok r =>
    obtain ⟨satMask, c1⟩ := r
    simp only
    cases parseU cfg 32 32 c1 with
    | ok r2 =>
      obtain ⟨sigMask, c2⟩ := r2
      simp only
      by_cases hz : satMask = 0 ∧ sigMask = 0
      · simp only [if_pos hz]
      · simp only [if_neg hz]
        by_cases hg : popcount 64 satMask * popcount 32 sigMask > 64 ∨
            popcount 64 satMask * popcount 32 sigMask = 0
        · simp only [if_pos hg]
        · simp only [if_neg hg]
          cases parseU cfg 64 (popcount 64 satMask * popcount 32 sigMask) c2 with
          | ok r3 => rfl
          | err e => rfl
          | panic w => rfl
    | err e => rfl
    | panic w => rfl
  | err e => rfl
  | panic w => rfl

/-- locality of the `.msm` fragment decoder -/
theorem msm_local (cfg : Cfg) (tbl : SigTable) (satFields sigFields : List (String × DfSpec))
    (hsat : NoPanic.WidthsAll satFields) (hsig : NoPanic.WidthsAll sigFields) :
    Local (decFrag cfg (.msm tbl satFields sigFields)) := by
  refine (localG_map (decodeP_local cfg tbl satFields sigFields hsat hsig)
    (fun p => satToks p.1 ++ sigToks p.2)).congr ?_
  intro c
  rw [decFrag]
  unfold decodeP
  cases Msm.decode cfg tbl satFields sigFields c with
  | ok r => obtain ⟨a, b, c1⟩ := r; rfl
  | err e => rfl
  | panic w => rfl

/-! ### what the field decoder returns is accepted by the token splitter -/

/-- the tokens `t` are exactly what `takeDf` splits off -/
def GoodTok (s : DfSpec) (t : List Tok) : Prop := ∀ rest, takeDf s (t ++ rest) = some (t, rest)

theorem dequantise_shape {cfg : Cfg} {s : DfSpec} {sv : Int} {t : Tok} (h : Df.dequantise cfg s sv = .ok t) :
    (∃ b, t = .flt b) ∨ (∃ z, t = .int z) := by
  unfold Df.dequantise at h
  split at h
  · simp only [Res.ok.injEq] at h
    exact Or.inl ⟨_, h.symm⟩
  · simp only at h
    split at h
    · split at h
      · split at h
        · simp only [Res.ok.injEq] at h; exact Or.inr ⟨_, h.symm⟩
        · cases h
        · cases h
      · simp only [Res.ok.injEq] at h; exact Or.inr ⟨_, h.symm⟩
    · cases h
    · cases h

theorem goodTok_of_decode {cfg : Cfg} {s : DfSpec} {c c' : Cur} {t : List Tok}
    (h : Df.decode cfg s c = .ok (t, c')) : GoodTok s t := by
  unfold Df.decode at h
  split at h
  · next p o hp =>
    simp only at h
    split at h
    · next tk hq =>
      have hsh := dequantise_shape hq
      split at h
      · next inv hi =>
        split at h
        · simp only [Res.ok.injEq, Prod.mk.injEq] at h
          obtain ⟨rfl, _⟩ := h
          intro rest
          simp [takeDf, hi]
        · simp only [Res.ok.injEq, Prod.mk.injEq] at h
          obtain ⟨rfl, _⟩ := h
          intro rest
          simp [takeDf, hi]
      · next hi =>
        simp only [Res.ok.injEq, Prod.mk.injEq] at h
        obtain ⟨rfl, _⟩ := h
        intro rest
        rcases hsh with ⟨b, rfl⟩ | ⟨z, rfl⟩ <;> simp [takeDf, hi]
    · cases h
    · cases h
  · cases h
  · cases h

/-! ### the column law -/

theorem encColumn_law (cfg : Cfg) (s : DfSpec) (hw : DfWf.wf s = true) (j : Nat) :
    ∀ (rows : List (List (List Tok))) (c c' : Cur), NoPanic.Good c → Fit c →
      encColumn cfg s j rows c = .ok c' →
      NoPanic.Ext c c' ∧ ∃ col : List (List Tok),
        decColumn cfg s rows.length ⟨c'.data, c.off⟩ = .ok (col, c') ∧ col.length = rows.length ∧
        (∀ t ∈ col, GoodTok s t) ∧
        (∀ rows' : List (List (List Tok)), rows'.map (·.getD j []) = col →
          encColumn cfg s j rows' c = .ok c') ∧
        ((∀ row ∈ rows, ∃ c0 c0', Df.decode cfg s c0 = .ok (row.getD j [], c0')) →
          col = rows.map (·.getD j [])) := by
  have hW := NoPanic.widths_of_wf hw
  intro rows
  induction rows with
  | nil =>
    intro c c' hg hfit h
    simp only [encColumn, Res.ok.injEq] at h
    subst h
    refine ⟨NoPanic.Ext.refl hg, [], rfl, rfl, by simp, ?_, fun _ => rfl⟩
    intro rows' hr
    simp only [List.map_eq_nil_iff] at hr
    subst hr
    rfl
  | cons row rows ih =>
    intro c c' hg hfit h
    rw [encColumn] at h
    split at h
    · next c1 r1 e1 =>
      obtain ⟨_, x1, nt, d1, r1', fx1⟩ := df_core cfg s hw _ c c1 r1 hg e1
      have hf1 := x1.fit hfit
      obtain ⟨x2, col, d2, hl, hgt, r2, fx2⟩ := ih c1 c' x1.good hf1 h
      refine ⟨x1.trans x2, nt :: col, ?_, by simp [hl], ?_, ?_, ?_⟩
      · simp only [List.length_cons]
        rw [decColumn, read_after (df_local cfg s hW) x2 x1.good hf1 d1]
        simp only
        rw [d2]
      · intro t ht
        rcases List.mem_cons.mp ht with rfl | ht
        · exact goodTok_of_decode d1
        · exact hgt t ht
      · intro rows' hr
        cases rows' with
        | nil => simp at hr
        | cons r' rs' =>
          simp only [List.map_cons, List.cons.injEq] at hr
          rw [encColumn, hr.1]
          have := r1' []
          rw [List.append_nil] at this
          rw [this]
          exact r2 rs' hr.2
      · intro hdec
        obtain ⟨c0, c0', h0⟩ := hdec row (List.mem_cons_self ..)
        obtain ⟨rfl, _⟩ := fx1 c0 _ c0' [] h0 (List.append_nil _).symm
        rw [fx2 (fun r hr => hdec r (List.mem_cons_of_mem _ hr))]
        rfl
    · cases h
    · cases h

theorem encColumns_law (cfg : Cfg) (rows : List (List (List Tok))) :
    ∀ (fs : List (String × DfSpec)) (j : Nat) (c c' : Cur), wfSpecs fs = true → NoPanic.Good c → Fit c →
      encColumns cfg rows j fs c = .ok c' →
      NoPanic.Ext c c' ∧ ∃ cols : List (List (List Tok)),
        decColumns cfg rows.length fs ⟨c'.data, c.off⟩ = .ok (cols, c') ∧
        List.Forall₂ (fun (f : String × DfSpec) col => col.length = rows.length ∧ ∀ t ∈ col, GoodTok f.2 t)
          fs cols ∧
        (∀ rows' : List (List (List Tok)),
          (∀ k (hk : k < cols.length), rows'.map (·.getD (j + k) []) = cols[k]) →
          encColumns cfg rows' j fs c = .ok c') ∧
        ((∀ row ∈ rows, ∀ k (hk : k < fs.length), ∃ c0 c0',
            Df.decode cfg fs[k].2 c0 = .ok (row.getD (j + k) [], c0')) →
          ∀ k (hk : k < cols.length), cols[k] = rows.map (·.getD (j + k) [])) := by
  intro fs
  induction fs with
  | nil =>
    intro j c c' _ hg hfit h
    simp only [encColumns, Res.ok.injEq] at h
    subst h
    exact ⟨NoPanic.Ext.refl hg, [], rfl, List.Forall₂.nil, fun _ _ => rfl,
      fun _ k hk => absurd hk (by simp)⟩
  | cons f fs ih =>
    intro j c c' hw hg hfit h
    obtain ⟨nm, s⟩ := f
    unfold wfSpecs at hw
    simp only [List.all_cons, Bool.and_eq_true] at hw
    have hws : DfWf.wf s = true := hw.1
    rw [encColumns] at h
    split at h
    · next c1 e1 =>
      obtain ⟨x1, col, d1, hl, hgt, r1, fx1⟩ := encColumn_law cfg s hws j rows c c1 hg hfit e1
      have hf1 := x1.fit hfit
      obtain ⟨x2, cols, d2, hall, r2, fx2⟩ := ih (j + 1) c1 c' hw.2 x1.good hf1 h
      refine ⟨x1.trans x2, col :: cols, ?_, List.Forall₂.cons ⟨hl, hgt⟩ hall, ?_, ?_⟩
      · rw [decColumns, read_after (decColumn_local cfg s (NoPanic.widths_of_wf hws) rows.length) x2 x1.good hf1 d1]
        simp only
        rw [d2]
      · intro rows' hr
        have h0 := hr 0 (Nat.zero_lt_succ _)
        simp only [Nat.add_zero, List.getElem_cons_zero] at h0
        rw [encColumns, r1 rows' h0]
        simp only
        apply r2 rows'
        intro k hk
        have := hr (k + 1) (by simp only [List.length_cons]; omega)
        simp only [List.getElem_cons_succ] at this
        rw [← this]
        congr 2
        funext r
        congr 1
        omega
      · intro hdec k hk
        cases k with
        | zero =>
          simp only [List.getElem_cons_zero, Nat.add_zero]
          apply fx1
          intro row hrow
          have := hdec row hrow 0 (Nat.zero_lt_succ _)
          simpa using this
        | succ k =>
          simp only [List.getElem_cons_succ]
          have hk' : k < cols.length := by simpa using hk
          have := fx2 (fun row hrow k' hk' => by
            have := hdec row hrow (k' + 1) (by simp only [List.length_cons]; omega)
            simp only [List.getElem_cons_succ] at this
            have e : j + 1 + k' = j + (k' + 1) := by omega
            rw [e]
            exact this) k hk'
          rw [this]
          congr 2
          funext r
          congr 1
          omega
    · cases h
    · cases h

/-! ### token splitters: suffix property and inverse of `satToks` / `sigToks` -/

theorem takeDf_suffix {s : DfSpec} {ts t rest : List Tok} (h : takeDf s ts = some (t, rest)) :
    ts = t ++ rest := by
  unfold takeDf at h
  split at h
  · split at h
    · simp only [Option.some.injEq, Prod.mk.injEq] at h
      obtain ⟨rfl, rfl⟩ := h; rfl
    · cases h
  · split at h
    · simp only [Option.some.injEq, Prod.mk.injEq] at h
      obtain ⟨rfl, rfl⟩ := h; rfl
    · cases h
  · split at h
    · cases h
    · simp only [Option.some.injEq, Prod.mk.injEq] at h
      obtain ⟨rfl, rfl⟩ := h; rfl
  · cases h

theorem takeFields_suffix : ∀ (fs : List (String × DfSpec)) (ts : List Tok) (row : List (List Tok))
    (rest : List Tok), takeFields fs ts = some (row, rest) → ts = row.flatten ++ rest := by
  intro fs
  induction fs with
  | nil =>
    intro ts row rest h
    simp only [takeFields, Option.some.injEq, Prod.mk.injEq] at h
    obtain ⟨rfl, rfl⟩ := h; rfl
  | cons f fs ih =>
    intro ts row rest h
    obtain ⟨nm, s⟩ := f
    rw [takeFields] at h
    split at h
    · next t r1 e1 =>
      split at h
      · next tt r2 e2 =>
        simp only [Option.some.injEq, Prod.mk.injEq] at h
        obtain ⟨rfl, rfl⟩ := h
        rw [takeDf_suffix e1, ih _ _ _ e2]
        simp
      · cases h
    · cases h

theorem takeSats_spec (fs : List (String × DfSpec)) : ∀ (n : Nat) (ts : List Tok) (rows : List SatRow)
    (rest : List Tok), takeSats fs n ts = some (rows, rest) →
    rows.length = n ∧ ∃ pre, ts = pre ++ rest := by
  intro n
  induction n with
  | zero =>
    intro ts rows rest h
    simp only [takeSats, Option.some.injEq, Prod.mk.injEq] at h
    obtain ⟨rfl, rfl⟩ := h
    exact ⟨rfl, [], rfl⟩
  | succ n ih =>
    intro ts rows rest h
    cases ts with
    | nil => simp [takeSats] at h
    | cons t ts1 =>
      cases t with
      | int id =>
        simp only [takeSats] at h
        split at h
        · next f r1 e1 =>
          split at h
          · next rows1 r2 e2 =>
            simp only [Option.some.injEq, Prod.mk.injEq] at h
            obtain ⟨rfl, rfl⟩ := h
            have hs := takeFields_suffix _ _ _ _ e1
            obtain ⟨hl, pre, hp⟩ := ih _ _ _ e2
            exact ⟨by simp [hl], .int id :: (f.flatten ++ pre), by rw [hs, hp]; simp⟩
          · cases h
        · cases h
      | _ => simp [takeSats] at h

theorem takeSigs_spec (fs : List (String × DfSpec)) : ∀ (n : Nat) (ts : List Tok) (rows : List SigRow)
    (rest : List Tok), takeSigs fs n ts = some (rows, rest) →
    rows.length = n ∧ ∃ pre, ts = pre ++ rest := by
  intro n
  induction n with
  | zero =>
    intro ts rows rest h
    simp only [takeSigs, Option.some.injEq, Prod.mk.injEq] at h
    obtain ⟨rfl, rfl⟩ := h
    exact ⟨rfl, [], rfl⟩
  | succ n ih =>
    intro ts rows rest h
    cases ts with
    | nil => simp [takeSigs] at h
    | cons t ts1 =>
      cases t with
      | int id =>
        cases ts1 with
        | nil => simp [takeSigs] at h
        | cons t2 ts2 =>
          cases t2 with
          | sig b a =>
            simp only [takeSigs] at h
            split at h
            · next f r1 e1 =>
              split at h
              · next rows1 r2 e2 =>
                simp only [Option.some.injEq, Prod.mk.injEq] at h
                obtain ⟨rfl, rfl⟩ := h
                have hs := takeFields_suffix _ _ _ _ e1
                obtain ⟨hl, pre, hp⟩ := ih _ _ _ e2
                exact ⟨by simp [hl], .int id :: .sig b a :: (f.flatten ++ pre), by rw [hs, hp]; simp⟩
              · cases h
            · cases h
          | _ => simp [takeSigs] at h
      | _ => simp [takeSigs] at h

/-- a row of field tokens every one of which the splitter accepts -/
def GoodRow (fs : List (String × DfSpec)) (row : List (List Tok)) : Prop :=
  List.Forall₂ (fun (f : String × DfSpec) t => GoodTok f.2 t) fs row

theorem takeFields_flatten : ∀ (fs : List (String × DfSpec)) (row : List (List Tok)) (rest : List Tok),
    GoodRow fs row → takeFields fs (row.flatten ++ rest) = some (row, rest) := by
  intro fs row rest h
  induction h with
  | nil => rfl
  | @cons f t fs' row' hft _ ih =>
    obtain ⟨nm, s⟩ := f
    rw [takeFields]
    simp only [List.flatten_cons, List.append_assoc]
    rw [hft (row'.flatten ++ rest)]
    simp only
    rw [ih]

theorem takeSats_satToks (fs : List (String × DfSpec)) : ∀ (rows : List SatRow) (rest : List Tok),
    (∀ r ∈ rows, GoodRow fs r.fields) →
    takeSats fs rows.length ((rows.flatMap fun r => .int r.id :: r.fields.flatten) ++ rest)
      = some (rows, rest) := by
  intro rows
  induction rows with
  | nil => intro rest _; rfl
  | cons r rows ih =>
    intro rest hg
    simp only [List.length_cons, List.flatMap_cons, List.cons_append, List.append_assoc, takeSats]
    rw [takeFields_flatten fs r.fields _ (hg r (List.mem_cons_self ..))]
    simp only
    rw [ih rest (fun x hx => hg x (List.mem_cons_of_mem _ hx))]
    simp only [Int.toNat_natCast]

theorem takeSigs_sigToks (fs : List (String × DfSpec)) : ∀ (rows : List SigRow) (rest : List Tok),
    (∀ r ∈ rows, GoodRow fs r.fields) →
    takeSigs fs rows.length
        ((rows.flatMap fun r => .int r.sat :: .sig r.band r.attr :: r.fields.flatten) ++ rest)
      = some (rows, rest) := by
  intro rows
  induction rows with
  | nil => intro rest _; rfl
  | cons r rows ih =>
    intro rest hg
    simp only [List.length_cons, List.flatMap_cons, List.cons_append, List.append_assoc, takeSigs]
    rw [takeFields_flatten fs r.fields _ (hg r (List.mem_cons_self ..))]
    simp only
    rw [ih rest (fun x hx => hg x (List.mem_cons_of_mem _ hx))]
    simp only [Int.toNat_natCast]

/-! ### the masks depend on the row keys only -/

def key3 (g : SigRow) : Nat × Nat × Nat := (g.sat, g.band, g.attr)

theorem satFold_key : ∀ (sats sats' : List SatRow), sats.map (·.id) = sats'.map (·.id) →
    ∀ a, sats.foldl satMaskStep a = sats'.foldl satMaskStep a := by
  intro sats
  induction sats with
  | nil =>
    intro sats' h a
    cases sats' with
    | nil => rfl
    | cons _ _ => simp at h
  | cons r rs ih =>
    intro sats' h a
    cases sats' with
    | nil => simp at h
    | cons r' rs' =>
      simp only [List.map_cons, List.cons.injEq] at h
      simp only [List.foldl_cons]
      have : satMaskStep a r = satMaskStep a r' := by
        unfold satMaskStep
        rw [h.1]
      rw [this]
      exact ih rs' h.2 _

theorem sigFold_key (tbl : SigTable) : ∀ (sigs sigs' : List SigRow), sigs.map key3 = sigs'.map key3 →
    ∀ a, sigs.foldl (sigStep tbl) a = sigs'.foldl (sigStep tbl) a := by
  intro sigs
  induction sigs with
  | nil =>
    intro sigs' h a
    cases sigs' with
    | nil => rfl
    | cons _ _ => simp at h
  | cons r rs ih =>
    intro sigs' h a
    cases sigs' with
    | nil => simp at h
    | cons r' rs' =>
      simp only [List.map_cons, List.cons.injEq, key3, Prod.mk.injEq] at h
      simp only [List.foldl_cons]
      have : sigStep tbl a r = sigStep tbl a r' := by
        unfold sigStep
        rw [h.1.1, h.1.2.1, h.1.2.2]
      rw [this]
      exact ih rs' h.2 _

theorem masks_key_congr (tbl : SigTable) (sats sats' : List SatRow) (sigs sigs' : List SigRow)
    (hs : sats.map (·.id) = sats'.map (·.id)) (hg : sigs.map key3 = sigs'.map key3) :
    masks tbl sats sigs = masks tbl sats' sigs' := by
  have l1 : sats.length = sats'.length := by simpa using congrArg List.length hs
  have l2 : sigs.length = sigs'.length := by simpa using congrArg List.length hg
  unfold masks
  rw [satFold_key sats sats' hs, sigFold_key tbl sigs sigs' hg, l1, l2]

theorem sigLe_key (tbl : SigTable) (a b a' b' : SigRow) (ha : key3 a = key3 a') (hb : key3 b = key3 b') :
    sigLe tbl a b = sigLe tbl a' b' := by
  simp only [key3, Prod.mk.injEq] at ha hb
  unfold sigLe
  rw [ha.1, ha.2.1, ha.2.2, hb.1, hb.2.1, hb.2.2]

theorem pairwise_of_map_eq {α β : Type} (k : α → β) (R : α → α → Prop) (S : β → β → Prop)
    (hRS : ∀ a b, R a b ↔ S (k a) (k b)) : ∀ (l l' : List α), l.map k = l'.map k →
    l.Pairwise R → l'.Pairwise R := by
  intro l l' h hp
  have h1 : (l.map k).Pairwise S := by
    rw [List.pairwise_map]
    exact hp.imp (fun h => (hRS _ _).mp h)
  rw [h, List.pairwise_map] at h1
  exact h1.imp (fun h => (hRS _ _).mpr h)

/-! ### the rows the decoder assembles -/

theorem mkSats_length (ids : List Nat) (cols : List (List (List Tok))) : (mkSats ids cols).length = ids.length := by
  simp [mkSats]

theorem mkSigs_length (cs : List (Nat × Nat × Nat)) (cols : List (List (List Tok))) :
    (mkSigs cs cols).length = cs.length := by
  simp [mkSigs]

theorem mkSats_ids (ids : List Nat) (cols : List (List (List Tok))) : (mkSats ids cols).map (·.id) = ids := by
  unfold mkSats
  rw [List.map_map]
  exact MsmLaws.map_range_getD ids 0

theorem mkSigs_keys (cs : List (Nat × Nat × Nat)) (cols : List (List (List Tok))) :
    (mkSigs cs cols).map key3 = cs := by
  unfold mkSigs
  rw [List.map_map]
  have : (key3 ∘ fun i => match cs.getD i (0, 0, 0) with
      | (sat, b, a) => ({ sat := sat, band := b, attr := a, fields := rowOf cols i } : SigRow))
      = fun i => cs.getD i (0, 0, 0) := by
    funext i
    simp only [Function.comp, key3]
  rw [this]
  exact MsmLaws.map_range_getD cs (0, 0, 0)

theorem mkSats_fields (ids : List Nat) (cols : List (List (List Tok))) :
    (mkSats ids cols).map (·.fields) = (List.range ids.length).map (rowOf cols) := by
  unfold mkSats
  rw [List.map_map]
  rfl

theorem mkSigs_fields (cs : List (Nat × Nat × Nat)) (cols : List (List (List Tok))) :
    (mkSigs cs cols).map (·.fields) = (List.range cs.length).map (rowOf cols) := by
  unfold mkSigs
  rw [List.map_map]
  rfl

/-- column `k` of the rows cut out of a column-major table is that column -/
theorem rows_column (n : Nat) (cols : List (List (List Tok))) (k : Nat) (hk : k < cols.length)
    (hl : cols[k].length = n) :
    ((List.range n).map (rowOf cols)).map (·.getD (0 + k) []) = cols[k] := by
  rw [List.map_map, Nat.zero_add]
  have : ((fun x : List (List Tok) => x.getD k []) ∘ rowOf cols) = fun i => cols[k].getD i [] := by
    funext i
    simp only [Function.comp, rowOf, List.getD_eq_getElem?_getD, List.getElem?_map,
      List.getElem?_eq_getElem hk, Option.map_some, Option.getD_some]
  rw [this, ← hl]
  exact MsmLaws.map_range_getD cols[k] []

theorem goodRow_rowOf (fs : List (String × DfSpec)) (cols : List (List (List Tok))) (n i : Nat) (hi : i < n)
    (h : List.Forall₂ (fun (f : String × DfSpec) col => col.length = n ∧ ∀ t ∈ col, GoodTok f.2 t) fs cols) :
    GoodRow fs (rowOf cols i) := by
  unfold GoodRow rowOf
  rw [List.forall₂_map_right_iff]
  refine h.imp ?_
  intro f col ⟨hl, hg⟩
  apply hg
  rw [List.getD_eq_getElem?_getD, List.getElem?_eq_getElem (by omega)]
  exact List.getElem_mem _

theorem forall₂_col_length {fs : List (String × DfSpec)} {cols : List (List (List Tok))} {n : Nat}
    (h : List.Forall₂ (fun (f : String × DfSpec) col => col.length = n ∧ ∀ t ∈ col, GoodTok f.2 t) fs cols)
    (k : Nat) (hk : k < cols.length) : cols[k].length = n := by
  induction h generalizing k with
  | nil => simp at hk
  | cons hab _ ih =>
    cases k with
    | zero => exact hab.1
    | succ k => exact ih k (by simpa using hk)

theorem forall₂_get {α β : Type} {R : α → β → Prop} {l1 : List α} {l2 : List β} (h : List.Forall₂ R l1 l2)
    (k : Nat) (h1 : k < l1.length) (h2 : k < l2.length) : R l1[k] l2[k] := by
  induction h generalizing k with
  | nil => simp at h1
  | cons hab _ ih =>
    cases k with
    | zero => exact hab
    | succ k => exact ih k (by simpa using h1) (by simpa using h2)

theorem forall₂_col_length' {γ : Type} {P : γ → List (List Tok) → Prop} {fs : List γ}
    {cols : List (List (List Tok))} {n : Nat}
    (h : List.Forall₂ (fun f col => col.length = n ∧ P f col) fs cols)
    (k : Nat) (hk : k < cols.length) : cols[k].length = n :=
  (forall₂_get h k (by rw [h.length_eq]; exact hk) hk).1

theorem putU_read (cfg : Cfg) {w len v : Nat} (hw8 : 8 ≤ w) (hw64 : w ≤ 64) (h1 : 1 ≤ len) (hlw : len ≤ w)
    (hv : v < 2 ^ len) {c c1 c' : Cur} (hg : NoPanic.Good c) (h : putU cfg w v len c = .ok c1)
    (x : NoPanic.Ext c1 c') :
    NoPanic.Ext c c1 ∧ parseU cfg w len ⟨c'.data, c.off⟩ = .ok (v, ⟨c'.data, c1.off⟩) := by
  rw [putU_eq] at h
  have hv' : v < 2 ^ w := Nat.lt_of_lt_of_le hv (Nat.pow_le_pow_right (by decide) hlw)
  obtain ⟨e, _, r⟩ := putF_law cfg ⟨.u, w⟩ hw8 hw64 h1 hlw hg hv' h
  refine ⟨ext_of_curExt e, ?_⟩
  have := r c'.data x.len (fun g _ hg => x.keep g hg)
  rw [readValue_wireValue_u w len v hv] at this
  rw [parseU_eq]
  exact this

/-! ### what a successful MSM decode returns -/

/-- `t` is something the field decoder can return -/
def DecOut (cfg : Cfg) (s : DfSpec) (t : List Tok) : Prop := ∃ c0 c0', Df.decode cfg s c0 = .ok (t, c0')

theorem decColumn_entries (cfg : Cfg) (s : DfSpec) : ∀ (n : Nat) (c : Cur) (col : List (List Tok)) (c' : Cur),
    decColumn cfg s n c = .ok (col, c') → col.length = n ∧ ∀ t ∈ col, DecOut cfg s t := by
  intro n
  induction n with
  | zero =>
    intro c col c' h
    simp only [decColumn, Res.ok.injEq, Prod.mk.injEq] at h
    obtain ⟨rfl, _⟩ := h
    exact ⟨rfl, by simp⟩
  | succ n ih =>
    intro c col c' h
    rw [decColumn] at h
    split at h
    · next t c1 e1 =>
      split at h
      · next ts c2 e2 =>
        simp only [Res.ok.injEq, Prod.mk.injEq] at h
        obtain ⟨rfl, _⟩ := h
        obtain ⟨hl, hm⟩ := ih _ _ _ e2
        refine ⟨by simp [hl], ?_⟩
        intro x hx
        rcases List.mem_cons.mp hx with rfl | hx
        · exact ⟨_, _, e1⟩
        · exact hm x hx
      · cases h
      · cases h
    · cases h
    · cases h

theorem decColumns_entries (cfg : Cfg) (n : Nat) : ∀ (fs : List (String × DfSpec)) (c : Cur)
    (cols : List (List (List Tok))) (c' : Cur), decColumns cfg n fs c = .ok (cols, c') →
    List.Forall₂ (fun (f : String × DfSpec) col => col.length = n ∧ ∀ t ∈ col, DecOut cfg f.2 t) fs cols := by
  intro fs
  induction fs with
  | nil =>
    intro c cols c' h
    simp only [decColumns, Res.ok.injEq, Prod.mk.injEq] at h
    obtain ⟨rfl, _⟩ := h
    exact List.Forall₂.nil
  | cons f fs ih =>
    intro c cols c' h
    obtain ⟨nm, s⟩ := f
    rw [decColumns] at h
    split at h
    · next col c1 e1 =>
      split at h
      · next cs c2 e2 =>
        simp only [Res.ok.injEq, Prod.mk.injEq] at h
        obtain ⟨rfl, _⟩ := h
        exact List.Forall₂.cons (decColumn_entries cfg s n _ _ _ e1) (ih _ _ _ e2)
      · cases h
      · cases h
    · cases h
    · cases h

/-- the shape of a successful MSM decode -/
theorem decodeP_shape (cfg : Cfg) (tbl : SigTable) (satFields sigFields : List (String × DfSpec))
    (c0 c0' : Cur) (sats : List SatRow) (sigs : List SigRow)
    (h : decodeP cfg tbl satFields sigFields c0 = .ok ((sats, sigs), c0')) :
    (sats = [] ∧ sigs = []) ∨
    ∃ satMask sigMask cellMask c3 satCols c4 cellSigs sigCols,
      decColumns cfg (maskIds 64 satMask).length satFields c3 = .ok (satCols, c4) ∧
      lookupSigs tbl (cellIds (maskIds 64 satMask) (maskIds 32 sigMask) cellMask) = .ok cellSigs ∧
      decColumns cfg (cellIds (maskIds 64 satMask) (maskIds 32 sigMask) cellMask).length sigFields c4
        = .ok (sigCols, c0') ∧
      sats = mkSats (maskIds 64 satMask) satCols ∧ sigs = mkSigs cellSigs sigCols := by
  rw [decodeP_eq] at h
  split at h
  · next satMask c1 _ =>
    split at h
    · next sigMask c2 _ =>
      split at h
      · simp only [Res.ok.injEq, Prod.mk.injEq] at h
        exact Or.inl ⟨h.1.1.symm, h.1.2.symm⟩
      · split at h
        · cases h
        · split at h
          · next cellMask c3 _ =>
            right
            unfold decRows at h
            split at h
            · next satCols c4 e4 =>
              split at h
              · next cellSigs e5 =>
                split at h
                · next sigCols c5 e6 =>
                  simp only [Res.ok.injEq, Prod.mk.injEq] at h
                  obtain ⟨⟨rfl, rfl⟩, rfl⟩ := h
                  exact ⟨satMask, sigMask, cellMask, c3, satCols, c4, cellSigs, sigCols, e4, e5, e6, rfl, rfl⟩
                · cases h
                · cases h
              · cases h
              · cases h
            · cases h
            · cases h
          · cases h
          · cases h
    · cases h
    · cases h
  · cases h
  · cases h

theorem map_eq_of_forall₂ {α β : Type} (R : α → β → Prop) (f : β → α) :
    ∀ (l1 : List α) (l2 : List β), List.Forall₂ R l1 l2 → (∀ a b, b ∈ l2 → R a b → f b = a) →
    l2.map f = l1 := by
  intro l1 l2 h
  induction h with
  | nil => intro _; rfl
  | @cons a b l1 l2 hab _ ih =>
    intro hf
    rw [List.map_cons, hf a b (List.mem_cons_self ..) hab,
      ih (fun a' b' hb' => hf a' b' (List.mem_cons_of_mem _ hb'))]

/-- with distinct descriptors, the identifier of a descriptor looked up by identifier is that identifier -/
theorem toId_of_toSig (tbl : SigTable) (hT : C18.tableOk tbl = true) (i j b a : Nat)
    (h1 : Sig.toSig tbl i = some (b, a)) (h2 : Sig.toId tbl b a = some j) : j = i := by
  simp only [C18.tableOk, Bool.and_eq_true, decide_eq_true_eq] at hT
  have hm2 := C18.toId_mem tbl b a j h2
  unfold Sig.toSig at h1
  rw [Option.map_eq_some_iff] at h1
  obtain ⟨r, hf, hr⟩ := h1
  have hm1 := List.mem_of_find?_eq_some hf
  have hp := List.find?_some hf
  simp only [beq_iff_eq] at hp
  have := C18.nodup_map_inj (·.2) tbl hT.1.2 r (j, b, a) hm1 hm2 hr
  rw [this] at hp
  exact hp

/-- rows returned by the decoder are in the order the encoder writes them -/
theorem sortBy_decoded (tbl : SigTable) (hT : C18.tableOk tbl = true) (sats : List SatRow)
    (sigs : List SigRow) (P : MsmLaws.Pre tbl sats sigs) (h1 : (sats.map (·.id)).Pairwise (· < ·))
    (cells : List (Nat × Nat)) (hc : cells.Pairwise MsmLaws.lexLt)
    (hf : List.Forall₂ (fun (c : Nat × Nat) (k : Nat × Nat × Nat) => k.1 = c.1 ∧ Sig.toSig tbl c.2 = some k.2)
      cells (sigs.map key3)) :
    Sig.sortBy (fun a b : SatRow => a.id ≤ b.id) sats = sats ∧ Sig.sortBy (sigLe tbl) sigs = sigs := by
  obtain ⟨u1, u2⟩ := C10.sorted_rows_unique tbl hT sats sigs P
  constructor
  · apply u1 _ (List.Perm.refl _)
    rw [List.pairwise_map] at h1
    exact h1.imp (fun h => Nat.le_of_lt h)
  · apply u2 _ (List.Perm.refl _)
    rw [List.forall₂_map_right_iff] at hf
    have hmap : sigs.map (MsmLaws.cellOf tbl) = cells := by
      apply map_eq_of_forall₂ _ _ _ _ hf
      intro cell g hg ⟨hs, hsig⟩
      obtain ⟨i, hi⟩ := P.sig_known g hg
      have := toId_of_toSig tbl hT cell.2 i g.band g.attr hsig hi
      unfold MsmLaws.cellOf MsmLaws.sigIdOf
      rw [hi]
      simp only [Option.getD_some, key3] at hs ⊢
      rw [this, hs]
    rw [← hmap, List.pairwise_map] at hc
    refine hc.imp_of_mem ?_
    intro a b ha hb hlex
    obtain ⟨ia, hia⟩ := P.sig_known a ha
    obtain ⟨ib, hib⟩ := P.sig_known b hb
    rw [MsmLaws.sigLe_iff]
    unfold MsmLaws.lexLt MsmLaws.cellOf MsmLaws.sigIdOf at hlex
    rw [hia, hib] at hlex
    simp only [Option.getD_some] at hlex
    rcases hlex with h | ⟨h, h'⟩
    · exact Or.inl h
    · refine Or.inr ⟨h, ?_⟩
      rw [C18.cmp_matches_id_order tbl (a.band, a.attr) (b.band, b.attr) ia ib hia hib]
      intro hgt
      rw [Nat.compare_eq_gt] at hgt
      omega

/-! ### the law at the level of `Msm.encode` / `Msm.decode` -/

theorem wfSpecs_widths {fs : List (String × DfSpec)} (h : wfSpecs fs = true) : NoPanic.WidthsAll fs :=
  NoPanic.widthsAll_of_wfSpecs h

theorem msm_encode_law (cfg : Cfg) (tbl : SigTable) (hT : C18.tableOk tbl = true)
    (satFields sigFields : List (String × DfSpec)) (hsat : wfSpecs satFields = true)
    (hsig : wfSpecs sigFields = true) (sats : List SatRow) (sigs : List SigRow) (c c' : Cur)
    (hg : NoPanic.Good c) (hfit : Fit c)
    (h : Msm.encode cfg tbl satFields sigFields sats sigs c = .ok c') :
    ∃ sats_d sigs_d, decodeP cfg tbl satFields sigFields ⟨c'.data, c.off⟩ = .ok ((sats_d, sigs_d), c') ∧
      sats_d.length = sats.length ∧ sigs_d.length = sigs.length ∧
      (∀ r ∈ sats_d, GoodRow satFields r.fields) ∧ (∀ r ∈ sigs_d, GoodRow sigFields r.fields) ∧
      Msm.encode cfg tbl satFields sigFields sats_d sigs_d c = .ok c' ∧
      (∀ c0 c0', decodeP cfg tbl satFields sigFields c0 = .ok ((sats, sigs), c0') →
        sats_d = sats ∧ sigs_d = sigs) := by
  rcases C10.masks_classification tbl hT sats sigs with ⟨rfl, rfl, hm⟩ | ⟨P, v, hm⟩ | ⟨_, _, e, _, hm⟩
  · -- the all-empty segment
    have h0 := h
    unfold Msm.encode at h
    rw [hm] at h
    simp only at h
    split at h
    · next c1 e1 =>
      obtain ⟨x2, p2⟩ := putU_read cfg (w := 32) (len := 32) (v := 0) (by decide) (by decide) (by decide)
        (by decide) (by decide) (c := c1) (c' := c') (by
          have := NoPanic.putU_es cfg 64 0 64 c (by decide) (by decide) (by decide) (by decide) hg
          rw [e1] at this
          exact this.good) h (NoPanic.Ext.refl (by
          have g1 : NoPanic.Good c1 := by
            have := NoPanic.putU_es cfg 64 0 64 c (by decide) (by decide) (by decide) (by decide) hg
            rw [e1] at this
            exact this.good
          have := NoPanic.putU_es cfg 32 0 32 c1 (by decide) (by decide) (by decide) (by decide) g1
          rw [h] at this
          exact this.good))
      obtain ⟨x1, p1⟩ := putU_read cfg (w := 64) (len := 64) (v := 0) (by decide) (by decide) (by decide)
        (by decide) (by decide) hg e1 x2
      refine ⟨[], [], ?_, rfl, rfl, by simp, by simp, h0, fun _ _ _ => ⟨rfl, rfl⟩⟩
      rw [decodeP_eq, p1]
      simp only
      rw [p2]
      simp only [and_self, if_true]
    · cases h
    · cases h
  · -- the preconditions hold
    obtain ⟨satMask, sigMask, cellMask, cellLen⟩ := v
    have S := C10.masks_spec tbl hT sats sigs P _ _ _ _ hm
    obtain ⟨hz, hlen, hS, -, hC, hL⟩ := C10.decode_inverts_masks tbl hT sats sigs P _ _ _ _ hm
    have h0 := h
    unfold Msm.encode at h
    rw [hm] at h
    simp only at h
    split at h
    · next c1 e1 =>
      split at h
      · next c2 e2 =>
        split at h
        · next c3 e3 =>
          split at h
          · next c4 e4 =>
            have g1 : NoPanic.Good c1 := by
              have := NoPanic.putU_es cfg 64 satMask 64 c (by decide) (by decide) (by decide) (by decide) hg
              rw [e1] at this; exact this.good
            have x01 : NoPanic.Ext c c1 := by
              have := NoPanic.putU_es cfg 64 satMask 64 c (by decide) (by decide) (by decide) (by decide) hg
              rw [e1] at this; exact this
            have x12 : NoPanic.Ext c1 c2 := by
              have := NoPanic.putU_es cfg 32 sigMask 32 c1 (by decide) (by decide) (by decide) (by decide) g1
              rw [e2] at this; exact this
            have x23 : NoPanic.Ext c2 c3 := by
              have := NoPanic.putU_es cfg 64 cellMask cellLen c2 (by decide) (by decide) S.cellLen_pos
                S.cellLen_le x12.good
              rw [e3] at this; exact this
            have f1 := x01.fit hfit
            have f2 := x12.fit f1
            have f3 := x23.fit f2
            obtain ⟨x34, satCols, d4, hall4, r4, fx4⟩ := encColumns_law cfg _ satFields 0 c3 c4 hsat x23.good f3 e4
            have f4 := x34.fit f3
            obtain ⟨x45, sigCols, d5, hall5, r5, fx5⟩ := encColumns_law cfg _ sigFields 0 c4 c' hsig x34.good f4 h
            obtain ⟨_, p1⟩ := putU_read cfg (w := 64) (len := 64) (by decide) (by decide) (by decide)
              (by decide) S.sat_lt hg e1 (((x12.trans x23).trans x34).trans x45)
            obtain ⟨_, p2⟩ := putU_read cfg (w := 32) (len := 32) (by decide) (by decide) (by decide)
              (by decide) S.sig_lt g1 e2 ((x23.trans x34).trans x45)
            obtain ⟨_, p3⟩ := putU_read cfg (w := 64) (len := cellLen) (by decide) (by decide) S.cellLen_pos
              S.cellLen_le S.cell_lt x12.good e3 (x34.trans x45)
            -- lengths
            have hn4 : (maskIds 64 satMask).length =
                ((Sig.sortBy (fun a b : SatRow => a.id ≤ b.id) sats).map (·.fields)).length := by
              rw [hS]; simp
            have hn5 : (cellIds (maskIds 64 satMask) (maskIds 32 sigMask) cellMask).length =
                ((Sig.sortBy (sigLe tbl) sigs).map (·.fields)).length := by
              rw [hC]; simp
            have hps : (Sig.sortBy (fun a b : SatRow => a.id ≤ b.id) sats).length = sats.length :=
              (MsmLaws.sortBy_perm _ sats).length_eq
            have hpg : (Sig.sortBy (sigLe tbl) sigs).length = sigs.length :=
              (MsmLaws.sortBy_perm _ sigs).length_eq
            -- the decoded rows
            refine ⟨mkSats (maskIds 64 satMask) satCols,
              mkSigs ((Sig.sortBy (sigLe tbl) sigs).map fun g => (g.sat, g.band, g.attr)) sigCols,
              ?_, ?_, ?_, ?_, ?_, ?_, ?_⟩
            · rw [decodeP_eq, p1]
              simp only
              rw [p2]
              simp only
              rw [if_neg hz, hlen, if_neg (by have := S.cellLen_pos; have := S.cellLen_le; omega), p3]
              simp only
              unfold decRows
              rw [hn4, read_after (decColumns_local cfg _ satFields (wfSpecs_widths hsat)) x45 x34.good f4 d4]
              simp only
              rw [hL]
              simp only
              rw [hn5, d5]
            · rw [mkSats_length, hS]; simp [hps]
            · rw [mkSigs_length]; simp [hpg]
            · intro r hr
              unfold mkSats at hr
              obtain ⟨i, hi, rfl⟩ := List.mem_map.mp hr
              simp only
              rw [List.mem_range, hn4] at hi
              exact goodRow_rowOf satFields satCols _ i hi hall4
            · intro r hr
              unfold mkSigs at hr
              obtain ⟨i, hi, rfl⟩ := List.mem_map.mp hr
              simp only
              rw [List.mem_range] at hi
              have hi' : i < ((Sig.sortBy (sigLe tbl) sigs).map (·.fields)).length := by
                simpa using hi
              exact goodRow_rowOf sigFields sigCols _ i hi' hall5
            · -- re-encoding the decoded rows
              have hk1 : (mkSats (maskIds 64 satMask) satCols).map (·.id)
                  = (Sig.sortBy (fun a b : SatRow => a.id ≤ b.id) sats).map (·.id) := by
                rw [mkSats_ids, hS]
              have hk2 : (mkSigs ((Sig.sortBy (sigLe tbl) sigs).map fun g => (g.sat, g.band, g.attr)) sigCols).map key3
                  = (Sig.sortBy (sigLe tbl) sigs).map key3 := by
                rw [mkSigs_keys]; rfl
              have hm' : masks tbl (mkSats (maskIds 64 satMask) satCols)
                  (mkSigs ((Sig.sortBy (sigLe tbl) sigs).map fun g => (g.sat, g.band, g.attr)) sigCols)
                  = .ok (some (satMask, sigMask, cellMask, cellLen)) := by
                rw [masks_key_congr tbl _ _ _ _ hk1 hk2,
                  C10.perm_invariant tbl hT sats _ sigs _ P (MsmLaws.sortBy_perm _ sats)
                    (MsmLaws.sortBy_perm _ sigs), hm]
              have Pd := (C10.masks_ok_iff_pre tbl hT _ _).mp ⟨_, hm'⟩
              obtain ⟨u1, u2⟩ := C10.sorted_rows_unique tbl hT _ _ Pd
              have hT' := MsmLaws.tableOk_of_bool tbl hT
              have s1 : Sig.sortBy (fun a b : SatRow => a.id ≤ b.id) (mkSats (maskIds 64 satMask) satCols)
                  = mkSats (maskIds 64 satMask) satCols := by
                apply u1 _ (List.Perm.refl _)
                have : ((mkSats (maskIds 64 satMask) satCols).map (·.id)).Pairwise (· < ·) := by
                  rw [mkSats_ids]; exact MsmLaws.maskIds_sorted _ _
                rw [List.pairwise_map] at this
                exact this.imp (fun h => Nat.le_of_lt h)
              have s2 : Sig.sortBy (sigLe tbl)
                    (mkSigs ((Sig.sortBy (sigLe tbl) sigs).map fun g => (g.sat, g.band, g.attr)) sigCols)
                  = mkSigs ((Sig.sortBy (sigLe tbl) sigs).map fun g => (g.sat, g.band, g.attr)) sigCols := by
                apply u2 _ (List.Perm.refl _)
                refine pairwise_of_map_eq key3 (fun a b => sigLe tbl a b = true)
                  (fun ka kb => sigLe tbl ⟨ka.1, ka.2.1, ka.2.2, []⟩ ⟨kb.1, kb.2.1, kb.2.2, []⟩ = true) ?_
                  _ _ hk2.symm
                  (MsmLaws.sortBy_sorted (sigLe tbl) (MsmLaws.sigLe_total tbl hT'.ids_nodup)
                    (MsmLaws.sigLe_trans tbl hT'.ids_nodup) sigs)
                intro a b
                rw [sigLe_key tbl a b ⟨a.sat, a.band, a.attr, []⟩ ⟨b.sat, b.band, b.attr, []⟩ rfl rfl]
                exact Iff.rfl
              unfold Msm.encode
              rw [hm']
              simp only
              rw [e1]
              simp only
              rw [e2]
              simp only
              rw [e3]
              simp only
              rw [s1, s2, mkSats_fields, mkSigs_fields]
              rw [r4 _ (fun k hk => by
                rw [hn4]
                exact rows_column _ satCols k hk (forall₂_col_length hall4 k hk))]
              simp only
              apply r5
              intro k hk
              have := rows_column ((Sig.sortBy (sigLe tbl) sigs).map (·.fields)).length sigCols k hk
                (forall₂_col_length hall5 k hk)
              simpa using this
            · -- fixed point: the rows were themselves decoded
              intro c0 c0' hd0
              rcases decodeP_shape cfg tbl satFields sigFields c0 c0' sats sigs hd0 with ⟨hs0, _⟩ |
                ⟨satMask0, sigMask0, cellMask0, c30, satCols0, c40, cellSigs0, sigCols0, e40, e50, e60, hsats, hsigs⟩
              · exact absurd hs0 P.nonempty
              · have E4 := decColumns_entries cfg _ satFields _ _ _ e40
                have E6 := decColumns_entries cfg _ sigFields _ _ _ e60
                have hF := MsmLaws.lookupSigs_ok tbl _ _ e50
                have hcl : cellSigs0.length =
                    (cellIds (maskIds 64 satMask0) (maskIds 32 sigMask0) cellMask0).length := hF.length_eq.symm
                have hsrt := sortBy_decoded tbl hT sats sigs P
                  (by rw [hsats, mkSats_ids]; exact MsmLaws.maskIds_sorted _ _)
                  (cellIds (maskIds 64 satMask0) (maskIds 32 sigMask0) cellMask0)
                  (MsmLaws.cellIds_sorted _ _ _ (MsmLaws.maskIds_sorted _ _) (MsmLaws.maskIds_sorted _ _))
                  (by rw [hsigs, mkSigs_keys]; exact hF)
                obtain ⟨ss1, ss2⟩ := hsrt
                -- satellites
                have hids : maskIds 64 satMask = maskIds 64 satMask0 := by
                  rw [hS, ss1, hsats, mkSats_ids]
                have hrows4 : (Sig.sortBy (fun a b : SatRow => a.id ≤ b.id) sats).map (·.fields)
                    = (List.range (maskIds 64 satMask0).length).map (rowOf satCols0) := by
                  rw [ss1, hsats, mkSats_fields]
                have hlen4 : satCols.length = satCols0.length := by
                  rw [← hall4.length_eq, ← E4.length_eq]
                have hcols4 : satCols = satCols0 := by
                  apply List.ext_getElem hlen4
                  intro k hk hk0
                  have hk1 : k < satFields.length := by rw [hall4.length_eq]; exact hk
                  rw [fx4 ?_ k hk, hrows4]
                  · exact rows_column _ satCols0 k hk0 (forall₂_col_length' E4 k hk0)
                  · intro row hrow k' hk'
                    rw [hrows4] at hrow
                    obtain ⟨i, hi, rfl⟩ := List.mem_map.mp hrow
                    rw [List.mem_range] at hi
                    have hk0' : k' < satCols0.length := by rw [← E4.length_eq]; exact hk'
                    have hcl' := forall₂_col_length' E4 k' hk0'
                    have : (rowOf satCols0 i).getD (0 + k') [] = (satCols0[k'])[i]'(by omega) := by
                      simp only [rowOf, Nat.zero_add, List.getD_eq_getElem?_getD, List.getElem?_map,
                        List.getElem?_eq_getElem hk0', Option.map_some, Option.getD_some,
                        List.getElem?_eq_getElem (show i < satCols0[k'].length by omega)]
                    rw [this]
                    exact (forall₂_get E4 k' hk' hk0').2 _ (List.getElem_mem _)
                -- signals
                have hkeys : (Sig.sortBy (sigLe tbl) sigs).map (fun g => (g.sat, g.band, g.attr)) = cellSigs0 := by
                  rw [ss2, hsigs]; exact mkSigs_keys _ _
                have hrows5 : (Sig.sortBy (sigLe tbl) sigs).map (·.fields)
                    = (List.range cellSigs0.length).map (rowOf sigCols0) := by
                  rw [ss2, hsigs, mkSigs_fields]
                have hlen5 : sigCols.length = sigCols0.length := by
                  rw [← hall5.length_eq, ← E6.length_eq]
                have hcols5 : sigCols = sigCols0 := by
                  apply List.ext_getElem hlen5
                  intro k hk hk0
                  rw [fx5 ?_ k hk, hrows5]
                  · exact rows_column _ sigCols0 k hk0 (by rw [forall₂_col_length' E6 k hk0, hcl])
                  · intro row hrow k' hk'
                    rw [hrows5] at hrow
                    obtain ⟨i, hi, rfl⟩ := List.mem_map.mp hrow
                    rw [List.mem_range] at hi
                    have hk0' : k' < sigCols0.length := by rw [← E6.length_eq]; exact hk'
                    have hcl' := forall₂_col_length' E6 k' hk0'
                    have : (rowOf sigCols0 i).getD (0 + k') [] = (sigCols0[k'])[i]'(by omega) := by
                      simp only [rowOf, Nat.zero_add, List.getD_eq_getElem?_getD, List.getElem?_map,
                        List.getElem?_eq_getElem hk0', Option.map_some, Option.getD_some,
                        List.getElem?_eq_getElem (show i < sigCols0[k'].length by omega)]
                    rw [this]
                    exact (forall₂_get E6 k' hk' hk0').2 _ (List.getElem_mem _)
                constructor
                · rw [hids, hcols4, hsats]
                · rw [hkeys, hcols5, hsigs]
          · cases h
          · cases h
        · cases h
        · cases h
      · cases h
      · cases h
    · cases h
    · cases h
  · unfold Msm.encode at h
    rw [hm] at h
    cases h

/-! ### the fragment law -/

theorem msm_law (cfg : Cfg) (glo tbl : SigTable) (hT : C18.tableOk tbl = true)
    (satFields sigFields : List (String × DfSpec)) (hsat : wfSpecs satFields = true)
    (hsig : wfSpecs sigFields = true) :
    Law (encFrag cfg glo (.msm tbl satFields sigFields)) (decFrag cfg (.msm tbl satFields sigFields)) := by
  intro ts c c' rest hg hfit hok h
  clear hok
  have hext : NoPanic.Ext c c' := by
    have := NoPanic.encFrag_es cfg glo (.msm tbl satFields sigFields)
      (by unfold WFFrag; simp [hT, hsat, hsig]) ts c hg
    rw [h] at this
    exact this
  unfold encFrag at h
  split at h
  · next ns rest0 =>
    split at h
    · cases h
    · next hns =>
      split at h
      · next sats ng rest2 e1 =>
        split at h
        · cases h
        · next hng =>
          split at h
          · next sigs rest3 e2 =>
            obtain ⟨c2, henc, hk⟩ := lift_ok h
            simp only [Res.ok.injEq, Prod.mk.injEq] at hk
            obtain ⟨rfl, rfl⟩ := hk
            obtain ⟨hl1, pre1, hp1⟩ := takeSats_spec _ _ _ _ _ e1
            obtain ⟨hl2, pre2, hp2⟩ := takeSigs_spec _ _ _ _ _ e2
            obtain ⟨sats_d, sigs_d, hdec, hld1, hld2, hg1, hg2, hre, hfix⟩ :=
              msm_encode_law cfg tbl hT satFields sigFields hsat hsig sats sigs c c2 hg hfit henc
            refine ⟨⟨.count ns :: (pre1 ++ .count ng :: pre2), ?_⟩, hext, satToks sats_d ++ sigToks sigs_d,
              ?_, ?_, ?_⟩
            · rw [hp1, hp2]; simp
            · rw [decFrag]
              unfold decodeP at hdec
              split at hdec
              · next a b c3 e3 =>
                simp only [Res.ok.injEq, Prod.mk.injEq] at hdec
                obtain ⟨⟨rfl, rfl⟩, rfl⟩ := hdec
                rw [e3]
              · cases hdec
              · cases hdec
            · intro rest'
              unfold encFrag
              simp only [satToks, sigToks, List.cons_append, List.append_assoc]
              rw [if_neg (by omega), takeSats_satToks satFields sats_d _ hg1]
              simp only
              rw [if_neg (by omega), takeSigs_sigToks sigFields sigs_d _ hg2]
              simp only
              rw [hre]
              rfl
            · intro c0 t0 c0' r h0 hts
              rw [decFrag] at h0
              split at h0
              · next sats0 sigs0 c0'' e0 =>
                simp only [Res.ok.injEq, Prod.mk.injEq] at h0
                obtain ⟨rfl, rfl⟩ := h0
                have hP0 : decodeP cfg tbl satFields sigFields c0 = .ok ((sats0, sigs0), c0'') := by
                  unfold decodeP; rw [e0]
                -- the decoded rows are accepted by the splitters
                have hgood0 : (∀ r ∈ sats0, GoodRow satFields r.fields) ∧ (∀ r ∈ sigs0, GoodRow sigFields r.fields) := by
                  rcases decodeP_shape cfg tbl satFields sigFields c0 c0'' sats0 sigs0 hP0 with ⟨rfl, rfl⟩ |
                    ⟨sm, gm, cm, c3', sc, c4', cs, gc, e4', e5', e6', rfl, rfl⟩
                  · exact ⟨by simp, by simp⟩
                  · have E4 := decColumns_entries cfg _ satFields _ _ _ e4'
                    have E6 := decColumns_entries cfg _ sigFields _ _ _ e6'
                    have hF := MsmLaws.lookupSigs_ok tbl _ _ e5'
                    constructor
                    · intro r hr
                      unfold mkSats at hr
                      obtain ⟨i, hi, rfl⟩ := List.mem_map.mp hr
                      rw [List.mem_range] at hi
                      exact goodRow_rowOf satFields sc _ i hi
                        (E4.imp (fun _ _ h => ⟨h.1, fun t ht => by
                          obtain ⟨_, _, hd⟩ := h.2 t ht; exact goodTok_of_decode hd⟩))
                    · intro r hr
                      unfold mkSigs at hr
                      obtain ⟨i, hi, rfl⟩ := List.mem_map.mp hr
                      rw [List.mem_range, ← hF.length_eq] at hi
                      exact goodRow_rowOf sigFields gc _ i hi
                        (E6.imp (fun _ _ h => ⟨h.1, fun t ht => by
                          obtain ⟨_, _, hd⟩ := h.2 t ht; exact goodTok_of_decode hd⟩))
                simp only [satToks, sigToks, List.cons_append, List.append_assoc, List.cons.injEq,
                  Tok.count.injEq] at hts
                obtain ⟨rfl, rfl⟩ := hts
                rw [takeSats_satToks satFields sats0 _ hgood0.1] at e1
                simp only [Option.some.injEq, Prod.mk.injEq, List.cons.injEq, Tok.count.injEq] at e1
                obtain ⟨rfl, rfl, rfl⟩ := e1
                rw [takeSigs_sigToks sigFields sigs0 _ hgood0.2] at e2
                simp only [Option.some.injEq, Prod.mk.injEq] at e2
                obtain ⟨rfl, rfl⟩ := e2
                obtain ⟨rfl, rfl⟩ := hfix c0 c0'' hP0
                exact ⟨rfl, rfl⟩
              · cases h0
              · cases h0
          · cases h
      · cases h
  · cases h

end Rtcm.MsmCodec
