import Rtcm.Proofs.BiasLaws
/-!
# Writer / reader agreement for the GLONASS code-phase bias list (1230)

Sorting (insertion sort by `Ord for GloSigId`), the 4-bit signal mask, the bias fields.
-/
namespace Rtcm.Bias1230Laws
open Rtcm.Bits Rtcm.Text Rtcm.Bias Rtcm.CurLaws Rtcm.BiasLaws Rtcm.Schema

/-! ### insertion sort -/

section sort
variable {α : Type} (le : α → α → Bool)

theorem insertBy_perm (x : α) : ∀ l : List α, (Sig.insertBy le x l).Perm (x :: l)
  | [] => List.Perm.refl _
  | y :: ys => by
    simp only [Sig.insertBy]
    split
    · exact List.Perm.refl _
    · exact ((insertBy_perm x ys).cons y).trans (List.Perm.swap x y ys)

theorem sortBy_perm : ∀ l : List α, (Sig.sortBy le l).Perm l
  | [] => List.Perm.refl _
  | x :: xs => (insertBy_perm le x _).trans ((sortBy_perm xs).cons x)

variable (P : α → Prop) (r : α → Nat)
  (hle : ∀ a b, P a → P b → (le a b = true ↔ r a ≤ r b))
include hle

theorem insertBy_pairwise (x : α) (hx : P x) :
    ∀ l : List α, (∀ y ∈ l, P y) → l.Pairwise (fun a b => r a ≤ r b) →
      (Sig.insertBy le x l).Pairwise (fun a b => r a ≤ r b)
  | [], _, _ => by simp [Sig.insertBy]
  | y :: ys, hP, hs => by
    have hy := hP y (by simp)
    rw [List.pairwise_cons] at hs
    simp only [Sig.insertBy]
    split
    · next hxy =>
      have hxy' := (hle x y hx hy).mp hxy
      refine List.Pairwise.cons ?_ (List.Pairwise.cons hs.1 hs.2)
      intro z hz
      rcases List.mem_cons.mp hz with rfl | hz
      · exact hxy'
      · exact Nat.le_trans hxy' (hs.1 z hz)
    · next hxy =>
      have hyx : r y ≤ r x := by
        have := (hle x y hx hy).not.mp hxy
        omega
      refine List.Pairwise.cons ?_
        (insertBy_pairwise x hx ys (fun z hz => hP z (by simp [hz])) hs.2)
      intro z hz
      rcases List.mem_cons.mp ((insertBy_perm le x ys).mem_iff.mp hz) with rfl | hz
      · exact hyx
      · exact hs.1 z hz

theorem sortBy_pairwise :
    ∀ l : List α, (∀ y ∈ l, P y) → (Sig.sortBy le l).Pairwise (fun a b => r a ≤ r b)
  | [], _ => List.Pairwise.nil
  | x :: xs, hP => by
    simp only [Sig.sortBy]
    apply insertBy_pairwise le P r hle x (hP x (by simp))
    · intro y hy
      exact hP y (by simp [(sortBy_perm le xs).mem_iff.mp hy])
    · exact sortBy_pairwise xs (fun y hy => hP y (by simp [hy]))

end sort

/-- a list that is strictly increasing for a rank along which `T` is strictly increasing, and
whose members all belong to `T`, is a sublist of `T` -/
theorem sublist_of_rank {β : Type} (r : β → Nat) :
    ∀ (T ks : List β), T.Pairwise (fun a b => r a < r b) → ks.Pairwise (fun a b => r a < r b) →
      (∀ k ∈ ks, k ∈ T) → ks.Sublist T := by
  intro T
  induction T with
  | nil =>
    intro ks _ _ hm
    cases ks with
    | nil => exact List.Sublist.slnil
    | cons k _ => exact absurd (hm k (by simp)) (by simp)
  | cons t ts ih =>
    intro ks hT hks hm
    rw [List.pairwise_cons] at hT
    cases ks with
    | nil => exact List.nil_sublist _
    | cons k ks' =>
      rw [List.pairwise_cons] at hks
      rcases List.mem_cons.mp (hm k (by simp)) with rfl | hk
      · refine List.Sublist.cons_cons _ (ih ks' hT.2 hks.2 ?_)
        intro k' hk'
        rcases List.mem_cons.mp (hm k' (by simp [hk'])) with rfl | h
        · exact absurd (hks.1 _ hk') (Nat.lt_irrefl _)
        · exact h
      · refine List.Sublist.cons _ (ih (k :: ks') hT.2 (List.pairwise_cons.mpr hks) ?_)
        intro k' hk'
        rcases List.mem_cons.mp hk' with rfl | hk''
        · exact hk
        · rcases List.mem_cons.mp (hm k' (by simp [hk''])) with rfl | h
          · have h1 := hT.1 k hk
            have h2 := hks.1 _ hk''
            omega
          · exact h

/-! ### the 1230 list -/

def key (e : Entry) : Nat × Nat := (e.band, e.attr)

/-- the entry as it comes back from a 1230 frame: no satellite, bias on the 0.02 m grid -/
def norm1230 (e : Entry) : Entry :=
  { sat := 0, band := e.band, attr := e.attr,
    bias := dequantBias res002 (toInt 16 (quantBias res002 e.bias)) }

theorem maskBit_cases {b a m : Nat} (h : maskBit1230 b a = some m) :
    ((b, a), m) ∈ gloTable1230 := by
  unfold maskBit1230 at h
  rw [Option.map_eq_some_iff] at h
  obtain ⟨r, hf, rfl⟩ := h
  have hm := List.mem_of_find?_eq_some hf
  have hp := List.find?_some hf
  simp only [beq_iff_eq] at hp
  rw [← hp]
  exact hm

theorem maskBit_isSome_iff (b a : Nat) :
    (maskBit1230 b a).isSome = true ↔ (b, a) ∈ gloTable1230.map (·.1) := by
  unfold maskBit1230
  rw [Option.isSome_map, List.find?_isSome]
  simp only [beq_iff_eq, List.mem_map]

/-- the mask has exactly the bits of the signals present -/
theorem mask1230_spec : ∀ (l : List Entry) (m : Nat), mask1230 l = .ok m →
    m < 2 ^ 4 ∧ ∀ r ∈ gloTable1230, (m &&& r.2 ≠ 0 ↔ r.1 ∈ l.map key) := by
  intro l
  induction l with
  | nil =>
    intro m h
    simp only [mask1230, Res.ok.injEq] at h
    subst h
    exact ⟨by decide, fun r _ => by simp⟩
  | cons e es ih =>
    intro m h
    simp only [mask1230] at h
    split at h
    · next b hb =>
      split at h
      · next m' hm' =>
        simp only [Res.ok.injEq] at h
        subst h
        obtain ⟨hlt, hbits⟩ := ih m' hm'
        have hmem := maskBit_cases hb
        have hb16 : b < 2 ^ 4 := by
          simp only [gloTable1230, List.mem_cons, Prod.mk.injEq, List.mem_nil_iff, or_false] at hmem
          rcases hmem with ⟨_, rfl⟩ | ⟨_, rfl⟩ | ⟨_, rfl⟩ | ⟨_, rfl⟩ <;> decide
        refine ⟨Nat.or_lt_two_pow hlt hb16, ?_⟩
        intro r hr
        have hkey : (b &&& r.2 ≠ 0 ↔ r.1 = key e) := by
          obtain ⟨sat, band, attr, bias⟩ := e
          simp only [gloTable1230, List.mem_cons, Prod.mk.injEq, List.mem_nil_iff, or_false] at hmem
          simp only [gloTable1230, List.mem_cons, List.mem_nil_iff, or_false] at hr
          simp only [key]
          rcases hmem with ⟨⟨rfl, rfl⟩, rfl⟩ | ⟨⟨rfl, rfl⟩, rfl⟩ | ⟨⟨rfl, rfl⟩, rfl⟩ |
            ⟨⟨rfl, rfl⟩, rfl⟩ <;> rcases hr with rfl | rfl | rfl | rfl <;> decide
        rw [Nat.and_or_distrib_right, Ne, Nat.or_eq_zero_iff, not_and_or, List.map_cons,
          List.mem_cons]
        rw [show (¬ m' &&& r.2 = 0) = (m' &&& r.2 ≠ 0) from rfl,
          show (¬ b &&& r.2 = 0) = (b &&& r.2 ≠ 0) from rfl, hbits r hr, hkey]
        exact Or.comm
      · next hne => exact (hne _ h).elim
    · cases h

theorem mask1230_ok : ∀ (l : List Entry), (∀ e ∈ l, (maskBit1230 e.band e.attr).isSome = true) →
    ∃ m, mask1230 l = .ok m := by
  intro l
  induction l with
  | nil => intro _; exact ⟨0, rfl⟩
  | cons e es ih =>
    intro h
    obtain ⟨b, hb⟩ := Option.isSome_iff_exists.mp (h e (by simp))
    obtain ⟨m, hm⟩ := ih (fun x hx => h x (by simp [hx]))
    exact ⟨m ||| b, by simp [mask1230, hb, hm]⟩

theorem firstBad_false : ∀ (l : List Entry),
    (∀ e ∈ l, (maskBit1230 e.band e.attr).isSome = true) → firstBad1230 l = false := by
  intro l
  induction l with
  | nil => intro _; rfl
  | cons e es ih =>
    intro h
    have h1 := h e (by simp)
    simp only [firstBad1230, ih (fun x hx => h x (by simp [hx])), Bool.or_false]
    cases hm : maskBit1230 e.band e.attr with
    | none => rw [hm] at h1; cases h1
    | some _ => rfl

theorem wire16 (q : Nat) (hq : q < 2 ^ 16) :
    readValue ⟨.i, 16⟩ 16 (wireValue ⟨.i, 16⟩ 16 q) = q :=
  readValue_wireValue ⟨.i, 16⟩ (by decide) (by decide) hq
    ((toInt_range (w := 16) (len := 16) (by decide) (by decide) hq).mpr (by
      show q < 32768 ∨ 65536 - 32768 ≤ q
      omega))

/-- writer / reader agreement of the bias fields, reader driven by the mask over (a suffix of)
the fixed signal order -/
theorem dec1230Loop_law (cfg : Cfg) (mask : Nat) :
    ∀ (T : List ((Nat × Nat) × Nat)) (l : List Entry) (c c' : Cur), Good c →
      c.off ≤ 8 * c.data.length → (T.map (·.1)).Nodup → (l.map key).Sublist (T.map (·.1)) →
      (∀ r ∈ T, (mask &&& r.2 ≠ 0 ↔ r.1 ∈ l.map key)) →
      enc1230Biases cfg l c = .ok c' →
      Ext c c' ∧ c'.off = c.off + 16 * l.length ∧
      ∀ D, D.length = c'.data.length → AgreeOn D c'.data c.off c'.off →
        dec1230Loop cfg mask T ⟨D, c.off⟩ = .ok (l.map norm1230, ⟨D, c'.off⟩) := by
  intro T
  induction T with
  | nil =>
    intro l c c' hg hfit _ hsub _ h
    have : l = [] := by simpa using hsub
    subst this
    simp only [enc1230Biases, Res.ok.injEq] at h
    subst h
    exact ⟨Ext.refl hg hfit, by simp, fun D _ _ => by simp [dec1230Loop]⟩
  | cons r rest ih =>
    intro l c c' hg hfit hnd hsub hmask h
    obtain ⟨⟨b, a⟩, bit⟩ := r
    simp only [List.map_cons, List.nodup_cons] at hnd
    simp only [List.map_cons] at hsub
    have hrest : ∀ l' : List Entry, (∀ k, k ∈ l'.map key → k ∈ l.map key) →
        (∀ k, k ∈ l.map key → k ≠ (b, a) → k ∈ l'.map key) →
        ∀ r' ∈ rest, (mask &&& r'.2 ≠ 0 ↔ r'.1 ∈ l'.map key) := by
      intro l' h1 h2 r' hr'
      rw [hmask r' (by simp [hr'])]
      constructor
      · intro hk
        apply h2 _ hk
        intro heq
        exact hnd.1 (heq ▸ List.mem_map_of_mem (f := (·.1)) hr')
      · exact h1 _
    by_cases hm : (b, a) ∈ l.map key
    · -- the head signal is present: it is the first entry
      have hbit : mask &&& bit ≠ 0 := (hmask ((b, a), bit) (by simp)).mpr hm
      rcases List.sublist_cons_iff.mp hsub with hs | ⟨ks, hks, hs⟩
      · exact absurd (hs.subset hm) hnd.1
      · obtain ⟨e, l', rfl, hke, rfl⟩ := List.map_eq_cons_iff.mp hks
        simp only [enc1230Biases] at h
        cases h1 : putI16 cfg (quantBias res002 e.bias) 16 c with
        | err x => rw [h1] at h; cases h
        | panic x => rw [h1] at h; cases h
        | ok c1 =>
          rw [h1] at h
          simp only at h
          obtain ⟨e1, o1, r1⟩ := putF_law cfg ⟨.i, 16⟩ (by decide) (by decide) (len := 16)
            (by decide) (by decide) hg (quantBias_lt _ _) h1
          have hnotin : (b, a) ∉ l'.map key := fun hin => hnd.1 (hs.subset hin)
          obtain ⟨e2, o2, r2⟩ := ih l' c1 c' e1.good e1.fit hnd.2 hs
            (hrest l' (fun k hk => by simp [hk]) (fun k hk hne => by
              rcases List.mem_cons.mp hk with rfl | hk
              · exact absurd hke hne
              · exact hk)) h
          refine ⟨e1.trans e2, by simp only [o1, o2, List.length_cons]; omega, ?_⟩
          intro D hD ha
          simp only [dec1230Loop, if_pos hbit]
          rw [parseI16_of_parseF (r1 D (hD.trans e2.len) (e2.agree_left ha))]
          simp only
          rw [r2 D hD (ha.mono e1.le (Nat.le_refl _)), wire16 _ (quantBias_lt _ _)]
          simp only [key, Prod.mk.injEq] at hke
          simp [norm1230, hke.1, hke.2]
    · -- the head signal is absent: the reader skips it
      have hbit : ¬ mask &&& bit ≠ 0 := fun hb => hm ((hmask ((b, a), bit) (by simp)).mp hb)
      rcases List.sublist_cons_iff.mp hsub with hs | ⟨ks, hks, _⟩
      · obtain ⟨e2, o2, r2⟩ := ih l c c' hg hfit hnd.2 hs
          (hrest l (fun _ hk => hk) (fun _ hk _ => hk)) h
        refine ⟨e2, o2, ?_⟩
        intro D hD ha
        simp only [dec1230Loop, if_neg hbit]
        exact r2 D hD ha
      · exact absurd (by rw [hks]; simp) hm

/-! ### the whole 1230 list -/

/-- the GLONASS MSM table (consulted by `Ord for GloSigId`) recognises the four 1230 signals and
orders them as the mask does: 1C < 1P < 2C < 2P -/
def Glo1230Ok (t : SigTable) : Prop :=
  ∃ i0 i1 i2 i3, Sig.toId t 1 67 = some i0 ∧ Sig.toId t 1 80 = some i1 ∧
    Sig.toId t 2 67 = some i2 ∧ Sig.toId t 2 80 = some i3 ∧ i0 < i1 ∧ i1 < i2 ∧ i2 < i3

def rank (t : SigTable) (k : Nat × Nat) : Nat := (Sig.toId t k.1 k.2).getD 0

def tkeys : List (Nat × Nat) := gloTable1230.map (·.1)

theorem tkeys_eq : tkeys = [(1, 67), (1, 80), (2, 67), (2, 80)] := rfl

/-- the comparison the 1230 encoder sorts by -/
def le1230 (t : SigTable) (a b : Entry) : Bool :=
  Sig.cmp t (a.band, a.attr) (b.band, b.attr) != .gt

theorem le1230_iff (t : SigTable) (hg : Glo1230Ok t) (a b : Entry) (ha : key a ∈ tkeys)
    (hb : key b ∈ tkeys) : le1230 t a b = true ↔ rank t (key a) ≤ rank t (key b) := by
  obtain ⟨i0, i1, i2, i3, h0, h1, h2, h3, _⟩ := hg
  have hrec : ∀ k ∈ tkeys, ∃ i, Sig.toId t k.1 k.2 = some i := by
    intro k hk
    simp only [tkeys_eq, List.mem_cons, List.mem_nil_iff, or_false] at hk
    rcases hk with rfl | rfl | rfl | rfl
    exacts [⟨_, h0⟩, ⟨_, h1⟩, ⟨_, h2⟩, ⟨_, h3⟩]
  obtain ⟨ia, hia⟩ := hrec _ ha
  obtain ⟨ib, hib⟩ := hrec _ hb
  simp only [key] at hia hib
  simp only [le1230, Sig.cmp, hia, hib, rank, key, Option.getD_some, bne_iff_ne, ne_eq,
    Nat.compare_eq_gt]
  omega

theorem rank_tkeys (t : SigTable) (hg : Glo1230Ok t) :
    tkeys.Pairwise (fun a b => rank t a < rank t b) := by
  obtain ⟨i0, i1, i2, i3, h0, h1, h2, h3, _, _, _⟩ := hg
  simp only [tkeys_eq, List.pairwise_cons, List.mem_cons, List.mem_nil_iff, or_false, rank]
  refine ⟨?_, ?_, ?_, ?_, List.Pairwise.nil⟩
  · rintro k (rfl | rfl | rfl) <;> simp [h0, h1, h2, h3] <;> omega
  · rintro k (rfl | rfl) <;> simp [h1, h2, h3] <;> omega
  · rintro k rfl; simp [h2, h3]; omega
  · intro k hk; cases hk

theorem rank_inj (t : SigTable) (hg : Glo1230Ok t) (a b : Nat × Nat) (ha : a ∈ tkeys)
    (hb : b ∈ tkeys) (h : rank t a = rank t b) : a = b := by
  obtain ⟨i0, i1, i2, i3, h0, h1, h2, h3, _, _, _⟩ := hg
  simp only [tkeys_eq, List.mem_cons, List.mem_nil_iff, or_false] at ha hb
  rcases ha with rfl | rfl | rfl | rfl <;> rcases hb with rfl | rfl | rfl | rfl <;>
    first
    | rfl
    | (simp only [rank, h0, h1, h2, h3, Option.getD_some] at h; omega)

/-- the sorted list carries the signals in mask order, each at most once -/
theorem sorted_sublist (t : SigTable) (hg : Glo1230Ok t) (v : List Entry)
    (hrec : ∀ e ∈ v, key e ∈ tkeys) (hnd : (v.map key).Nodup) :
    ((Sig.sortBy (le1230 t) v).map key).Sublist tkeys := by
  have hperm := sortBy_perm (le1230 t) v
  have hmem : ∀ e ∈ Sig.sortBy (le1230 t) v, key e ∈ tkeys :=
    fun e he => hrec e (hperm.mem_iff.mp he)
  apply sublist_of_rank (rank t) tkeys _ (rank_tkeys t hg)
  · rw [List.pairwise_map]
    have h1 := sortBy_pairwise (le1230 t) (fun e => key e ∈ tkeys) (fun e => rank t (key e))
      (fun a b ha hb => le1230_iff t hg a b ha hb) v hrec
    have h2 : (Sig.sortBy (le1230 t) v).Pairwise (fun a b => key a ≠ key b) := by
      have : ((Sig.sortBy (le1230 t) v).map key).Nodup := (hperm.map key).nodup_iff.mpr hnd
      exact List.pairwise_map.mp this
    refine (h1.and h2).imp_of_mem ?_
    intro a b ha hb hab
    have hne : rank t (key a) ≠ rank t (key b) :=
      fun he => hab.2 (rank_inj t hg _ _ (hmem a ha) (hmem b hb) he)
    omega
  · intro k hk
    obtain ⟨e, he, rfl⟩ := List.mem_map.mp hk
    exact hmem e he

theorem encode1230_decode (cfg : Cfg) (t : SigTable) (hg : Glo1230Ok t) (v : List Entry)
    (hrec : ∀ e ∈ v, key e ∈ tkeys) (hnd : (v.map key).Nodup)
    (c c' : Cur) (hgood : Good c) (h : encode1230 cfg t v c = .ok c') :
    Ext c c' ∧ c'.off = c.off + 4 + 16 * v.length ∧
    ∀ D, D.length = c'.data.length → AgreeOn D c'.data c.off c'.off →
      decode1230 cfg ⟨D, c.off⟩ = .ok ((Sig.sortBy (le1230 t) v).map norm1230, ⟨D, c'.off⟩) := by
  have hperm := sortBy_perm (le1230 t) v
  have hsome : ∀ e ∈ Sig.sortBy (le1230 t) v, (maskBit1230 e.band e.attr).isSome = true :=
    fun e he => (maskBit_isSome_iff _ _).mpr (hrec e (hperm.mem_iff.mp he))
  have hsub := sorted_sublist t hg v hrec hnd
  have hle : (fun a b : Entry => Sig.cmp t (a.band, a.attr) (b.band, b.attr) != .gt)
      = le1230 t := rfl
  unfold encode1230 at h
  dsimp only at h
  rw [hle, firstBad_false _ hsome] at h
  simp only [Bool.false_eq_true, if_false] at h
  obtain ⟨m, hm⟩ := mask1230_ok _ hsome
  obtain ⟨hm16, hbits⟩ := mask1230_spec _ m hm
  rw [hm] at h
  simp only at h
  cases h1 : putU cfg 8 m 4 c with
  | err x => rw [h1] at h; cases h
  | panic x => rw [h1] at h; cases h
  | ok c1 =>
    rw [h1] at h
    simp only at h
    obtain ⟨e1, o1, r1⟩ := putU_law cfg (len := 4) (by decide) (by decide) hgood hm16 h1
    obtain ⟨e2, o2, r2⟩ := dec1230Loop_law cfg m gloTable1230 _ c1 c' e1.good e1.fit
      (by decide) hsub hbits h
    refine ⟨e1.trans e2, by rw [o2, o1, hperm.length_eq], ?_⟩
    intro D hD ha
    unfold decode1230
    rw [r1 D (hD.trans e2.len) (e2.agree_left ha)]
    simp only
    rw [r2 D hD (ha.mono e1.le (Nat.le_refl _))]

theorem enc1230Biases_total (cfg : Cfg) :
    ∀ (l : List Entry) (c : Cur), Good c →
      (∃ c', enc1230Biases cfg l c = .ok c') ∨ enc1230Biases cfg l c = .err .bufferOverflow := by
  intro l
  induction l with
  | nil => intro c _; exact Or.inl ⟨c, rfl⟩
  | cons e es ih =>
    intro c hg
    simp only [enc1230Biases]
    rcases putF_cases cfg ⟨.i, 16⟩ (by decide) (by decide) (len := 16) (by decide) (by decide) hg
      (quantBias_lt res002 e.bias) with ⟨_, c1, h1, _, e1, _⟩ | ⟨_, h1⟩
    · rw [putI16_eq, h1]
      exact ih c1 e1.good
    · rw [putI16_eq, h1]
      exact Or.inr rfl

theorem firstBad_true : ∀ (l : List Entry),
    (∃ e ∈ l, (maskBit1230 e.band e.attr).isSome = false) → firstBad1230 l = true := by
  intro l
  induction l with
  | nil => rintro ⟨e, he, _⟩; cases he
  | cons x xs ih =>
    rintro ⟨e, he, hn⟩
    simp only [firstBad1230, Bool.or_eq_true]
    rcases List.mem_cons.mp he with rfl | he
    · left
      cases hm : maskBit1230 e.band e.attr with
      | none => rfl
      | some _ => rw [hm] at hn; cases hn
    · exact Or.inr (ih ⟨e, he, hn⟩)

/-- the 1230 encoder never panics; an unrecognised signal is InvalidSignalId -/
theorem encode1230_total (cfg : Cfg) (t : SigTable) (v : List Entry) (c : Cur) (hgood : Good c) :
    (∃ c', encode1230 cfg t v c = .ok c') ∨ encode1230 cfg t v c = .err .invalidSignalId ∨
      encode1230 cfg t v c = .err .bufferOverflow := by
  have hle : (fun a b : Entry => Sig.cmp t (a.band, a.attr) (b.band, b.attr) != .gt)
      = le1230 t := rfl
  unfold encode1230
  dsimp only
  rw [hle]
  by_cases hall : ∀ e ∈ Sig.sortBy (le1230 t) v, (maskBit1230 e.band e.attr).isSome = true
  · rw [firstBad_false _ hall]
    simp only [Bool.false_eq_true, if_false]
    obtain ⟨m, hm⟩ := mask1230_ok _ hall
    obtain ⟨hm16, _⟩ := mask1230_spec _ m hm
    rw [hm]
    simp only
    rcases putF_cases cfg ⟨.u, 8⟩ (by decide) (by decide) (len := 4) (by decide) (by decide) hgood
      (Nat.lt_of_lt_of_le hm16 (by decide)) with ⟨_, c1, h1, _, e1, _⟩ | ⟨_, h1⟩
    · rw [putU_eq, h1]
      simp only
      rcases enc1230Biases_total cfg (Sig.sortBy (le1230 t) v) c1 e1.good with h2 | h2
      · exact Or.inl h2
      · exact Or.inr (Or.inr h2)
    · rw [putU_eq, h1]
      exact Or.inr (Or.inr rfl)
  · have : firstBad1230 (Sig.sortBy (le1230 t) v) = true := by
      apply firstBad_true
      simp only [not_forall] at hall
      obtain ⟨e, he, hn⟩ := hall
      exact ⟨e, he, by simpa using hn⟩
    rw [this]
    exact Or.inr (Or.inl rfl)

theorem dec1230Loop_length (cfg : Cfg) (mask : Nat) :
    ∀ (T : List ((Nat × Nat) × Nat)) (c : Cur) (es : List Entry) (c' : Cur),
      dec1230Loop cfg mask T c = .ok (es, c') → es.length ≤ T.length := by
  intro T
  induction T with
  | nil =>
    intro c es c' h
    simp only [dec1230Loop, Res.ok.injEq, Prod.mk.injEq] at h
    rw [← h.1]
    exact Nat.le_refl _
  | cons r rest ih =>
    intro c es c' h
    obtain ⟨⟨b, a⟩, bit⟩ := r
    simp only [dec1230Loop] at h
    split at h
    · split at h
      · split at h
        · next es' c2 hd =>
          simp only [Res.ok.injEq, Prod.mk.injEq] at h
          rw [← h.1]
          have := ih _ _ _ hd
          simp only [List.length_cons]
          omega
        · cases h
        · cases h
      · cases h
      · cases h
    · have := ih _ _ _ h
      simp only [List.length_cons]
      omega

/-! ### the decoded order, explicitly: one slot per mask position -/

theorem find_key_unique : ∀ (l : List Entry), (l.map key).Nodup → ∀ e ∈ l,
    l.find? (fun x => key x == key e) = some e := by
  intro l
  induction l with
  | nil => intro _ e he; cases he
  | cons x xs ih =>
    intro hnd e he
    simp only [List.map_cons, List.nodup_cons] at hnd
    rcases List.mem_cons.mp he with rfl | he'
    · simp
    · have hne : key x ≠ key e := fun h => hnd.1 (h ▸ List.mem_map_of_mem he')
      rw [List.find?_cons_of_neg (by simpa using hne)]
      exact ih hnd.2 e he'

theorem find_key_perm {l v : List Entry} (hp : l.Perm v) (hnd : (v.map key).Nodup)
    (k : Nat × Nat) : v.find? (fun x => key x == k) = l.find? (fun x => key x == k) := by
  have hndl : (l.map key).Nodup := (hp.map key).nodup_iff.mpr hnd
  cases hl : l.find? (fun x => key x == k) with
  | some e =>
    have hm := List.mem_of_find?_eq_some hl
    have hk := List.find?_some hl
    simp only [beq_iff_eq] at hk
    rw [← hk]
    exact find_key_unique v hnd e (hp.mem_iff.mp hm)
  | none =>
    rw [List.find?_eq_none] at hl ⊢
    intro x hx
    exact hl x (hp.mem_iff.mpr hx)

theorem filterMap_find_of_sublist :
    ∀ (T : List (Nat × Nat)) (l : List Entry), T.Nodup → (l.map key).Sublist T →
      T.filterMap (fun k => l.find? (fun x => key x == k)) = l := by
  intro T
  induction T with
  | nil =>
    intro l _ hs
    have : l = [] := by simpa using hs
    subst this
    rfl
  | cons k T ih =>
    intro l hnd hs
    rw [List.nodup_cons] at hnd
    rcases List.sublist_cons_iff.mp hs with hs' | ⟨ks, hks, hs'⟩
    · have hnone : l.find? (fun x => key x == k) = none := by
        rw [List.find?_eq_none]
        intro x hx hk
        simp only [beq_iff_eq] at hk
        exact hnd.1 (hs'.subset (hk ▸ List.mem_map_of_mem hx))
      rw [List.filterMap_cons, hnone]
      exact ih l hnd.2 hs'
    · obtain ⟨e, l', rfl, hke, rfl⟩ := List.map_eq_cons_iff.mp hks
      have hsome : (e :: l').find? (fun x => key x == k) = some e := by
        rw [List.find?_cons_of_pos]; simpa using hke
      have hrest : T.filterMap (fun k' => (e :: l').find? (fun x => key x == k'))
          = T.filterMap (fun k' => l'.find? (fun x => key x == k')) := by
        apply List.filterMap_congr
        intro k' hk'
        have hne : key e ≠ k' := fun h => hnd.1 (hke ▸ h ▸ hk')
        rw [List.find?_cons_of_neg (by simpa using hne)]
      rw [List.filterMap_cons, hsome]
      simp only
      rw [hrest, ih l' hnd.2 hs']

/-- the sorted list is: for each mask position in order, the entry of `v` carrying that signal -/
theorem sorted_eq_slots (t : SigTable) (hg : Glo1230Ok t) (v : List Entry)
    (hrec : ∀ e ∈ v, key e ∈ tkeys) (hnd : (v.map key).Nodup) :
    Sig.sortBy (le1230 t) v = tkeys.filterMap (fun k => v.find? (fun x => key x == k)) := by
  have hperm := sortBy_perm (le1230 t) v
  have hsub := sorted_sublist t hg v hrec hnd
  rw [← filterMap_find_of_sublist tkeys _ (by decide) hsub]
  apply List.filterMap_congr
  intro k _
  exact (find_key_perm hperm hnd k).symm

end Rtcm.Bias1230Laws
