import Rtcm.Proofs.FragLaw
import Rtcm.Props.C17
/-!
# Laws with side conditions, and the four table rows that need them

`LawX E D P C R`: the codec law for inputs satisfying a clean-input predicate `C` on the tokens, started at a
cursor whose offset satisfies `P`, with the fixed-point clause relaxed to a relation `R` between the tokens a
decoder produced and the tokens decoded after re-encoding them (`Eq` except for the 1059/1065 bias lists,
which come back regrouped by satellite).

`dfsThen ss nm leaf`: a `msg!` layout consisting of data fields `ss` followed by one final fragment — the
shape of the rows 1029 (text), 1059, 1065, 1230 (bias lists).
-/
namespace Rtcm.SpecialRows
open Rtcm.Bits Rtcm.Schema Rtcm.Interp Rtcm.CurLaws Rtcm.Text Rtcm.WF Rtcm.DecLocal Rtcm.CodecLaw

def LawX (E : Enc) (Dd : Dec) (P : Nat → Prop) (C : List Tok → Prop) (R : List Tok → List Tok → Prop) : Prop :=
  ∀ ts c c' rest, NoPanic.Good c → Fit c → P c.off → TokOK ts → C ts → E ts c = .ok (c', rest) →
    (∃ pre, ts = pre ++ rest) ∧ NoPanic.Ext c c' ∧
    ∃ nt, Dd ⟨c'.data, c.off⟩ = .ok (nt, c') ∧ (∀ rest', E (nt ++ rest') c = .ok (c', rest')) ∧
      ∀ c0 t0 c0' r, Dd c0 = .ok (t0, c0') → ts = t0 ++ r → R t0 nt ∧ rest = r

theorem LawX.of_law {E : Enc} {Dd : Dec} (h : Law E Dd) : LawX E Dd (fun _ => True) (fun _ => True) Eq := by
  intro ts c c' rest hg hfit _ hok _ he
  obtain ⟨a, b, nt, d, r, fx⟩ := h ts c c' rest hg hfit hok he
  refine ⟨a, b, nt, d, r, ?_⟩
  intro c0 t0 c0' r' h0 hts
  obtain ⟨h1, h2⟩ := fx c0 t0 c0' r' h0 hts
  exact ⟨h1.symm, h2⟩

theorem LawX.mono {E : Enc} {Dd : Dec} {P P' : Nat → Prop} {C C' : List Tok → Prop}
    {R R' : List Tok → List Tok → Prop} (h : LawX E Dd P C R) (hP : ∀ o, P' o → P o) (hC : ∀ ts, C' ts → C ts)
    (hR : ∀ a b, R a b → R' a b) : LawX E Dd P' C' R' := by
  intro ts c c' rest hg hfit hp hok hc he
  obtain ⟨a, b, nt, d, r, fx⟩ := h ts c c' rest hg hfit (hP _ hp) hok (hC _ hc) he
  refine ⟨a, b, nt, d, r, ?_⟩
  intro c0 t0 c0' r' h0 hts
  obtain ⟨h1, h2⟩ := fx c0 t0 c0' r' h0 hts
  exact ⟨hR _ _ h1, h2⟩

/-- data fields, then one final fragment -/
def dfsThen : List (String × DfSpec) → String → Frag → Fields
  | [], nm, leaf => .cons nm leaf .nil
  | (n, s) :: ss, nm, leaf => .cons n (.df s) (dfsThen ss nm leaf)

/-- the clean-input predicate of the final fragment, applied to what remains after the data fields -/
def CleanDfs : List (String × DfSpec) → (List Tok → Prop) → List Tok → Prop
  | [], C, ts => C ts
  | (_, s) :: ss, C, ts => ∀ t r, takeDf s ts = some (t, r) → CleanDfs ss C r

/-- header tokens: no list count among them (data fields decode to `int`/`flt`/`absent`/`present`) -/
def NoCount (hdr : List Tok) : Prop := ∀ t ∈ hdr, ∀ n, t ≠ .count n

theorem NoCount.nil : NoCount [] := fun _ h => by cases h

theorem NoCount.append {a b : List Tok} (ha : NoCount a) (hb : NoCount b) : NoCount (a ++ b) := by
  intro t ht
  rcases List.mem_append.mp ht with h | h
  · exact ha t h
  · exact hb t h

theorem df_noCount {cfg : Cfg} {s : DfSpec} {c c' : Cur} {t : List Tok}
    (h : Df.decode cfg s c = .ok (t, c')) : NoCount t := by
  unfold Df.decode at h
  split at h
  · simp only at h
    split at h
    · next tk hq =>
      have hsh : ∀ n, tk ≠ .count n := by
        intro n
        rcases MsmCodec.dequantise_shape hq with ⟨b, rfl⟩ | ⟨z, rfl⟩ <;> intro hh <;> cases hh
      split at h
      · split at h
        · simp only [Res.ok.injEq, Prod.mk.injEq] at h
          rw [← h.1]
          intro t ht n
          simp only [List.mem_singleton] at ht
          subst ht
          intro hh; cases hh
        · simp only [Res.ok.injEq, Prod.mk.injEq] at h
          rw [← h.1]
          intro t ht n
          simp only [List.mem_cons, List.not_mem_nil, or_false] at ht
          rcases ht with rfl | rfl
          · intro hh; cases hh
          · exact hsh n
      · simp only [Res.ok.injEq, Prod.mk.injEq] at h
        rw [← h.1]
        intro t ht n
        simp only [List.mem_singleton] at ht
        subst ht
        exact hsh n
    · cases h
    · cases h
  · cases h
  · cases h

/-- the first list count of a token stream determines where the header ends -/
theorem split_at_count : ∀ (h1 h2 : List Tok) (a b : Nat) (x y : List Tok), NoCount h1 → NoCount h2 →
    h1 ++ .count a :: x = h2 ++ .count b :: y → h1 = h2 ∧ a = b ∧ x = y := by
  intro h1
  induction h1 with
  | nil =>
    intro h2 a b x y _ hn2 h
    cases h2 with
    | nil =>
      simp only [List.nil_append, List.cons.injEq, Tok.count.injEq] at h
      exact ⟨rfl, h.1, h.2⟩
    | cons t h2 =>
      simp only [List.nil_append, List.cons_append, List.cons.injEq] at h
      exact absurd h.1.symm (hn2 t (List.mem_cons_self ..) a)
  | cons t h1 ih =>
    intro h2 a b x y hn1 hn2 h
    cases h2 with
    | nil =>
      simp only [List.nil_append, List.cons_append, List.cons.injEq] at h
      exact absurd h.1 (hn1 t (List.mem_cons_self ..) b)
    | cons t2 h2 =>
      simp only [List.cons_append, List.cons.injEq] at h
      obtain ⟨e1, e2, e3⟩ := ih h2 a b x y (fun u hu => hn1 u (List.mem_cons_of_mem _ hu))
        (fun u hu => hn2 u (List.mem_cons_of_mem _ hu)) h.2
      exact ⟨by rw [h.1, e1], e2, e3⟩

/-- the relation of the final fragment, behind a common header -/
def RelDfs (R : List Tok → List Tok → Prop) (t0 nt : List Tok) : Prop :=
  ∃ hdr tl tl', NoCount hdr ∧ t0 = hdr ++ tl ∧ nt = hdr ++ tl' ∧ R tl tl'

theorem quantise_tok {s : DfSpec} {v : Tok} {p : Nat} (h : Df.quantise s v = .ok p) :
    (∃ b, v = .flt b) ∨ (∃ z, v = .int z) := by
  unfold Df.quantise at h
  split at h
  · split at h
    · exact Or.inl ⟨_, rfl⟩
    · cases h
  · split at h
    · exact Or.inr ⟨_, rfl⟩
    · cases h

/-- a successful field encode consumed exactly what `takeDf` splits off -/
theorem encode_takeDf {cfg : Cfg} {s : DfSpec} {ts rest : List Tok} {c c' : Cur}
    (h : Df.encode cfg s ts c = .ok (c', rest)) : ∃ t, takeDf s ts = some (t, rest) := by
  have key : ∀ (p : Nat) (r : List Tok),
      (match put cfg s.it c.data c.off p s.len with
        | .ok (d, o) => Res.ok (({ data := d, off := o } : Cur), r)
        | .err e => .err e
        | .panic w => .panic w) = .ok (c', rest) → r = rest := by
    intro p r hh
    split at hh
    · simp only [Res.ok.injEq, Prod.mk.injEq] at hh
      exact hh.2
    · cases hh
    · cases hh
  unfold Df.encode at h
  simp only [] at h
  split at h
  · next inv hi =>
    split at h
    · have := key _ _ h; subst this
      exact ⟨[.absent], by simp [takeDf, hi]⟩
    · split at h
      · next v _ _ _ _ =>
        have := key _ _ h; subst this
        exact ⟨[.present, v], by simp [takeDf, hi]⟩
      · cases h
      · cases h
    · cases h
  · next hi =>
    split at h
    · next v rest0 =>
      split at h
      · next p hq =>
        have := key _ _ h; subst this
        refine ⟨[v], ?_⟩
        rcases quantise_tok hq with ⟨b, rfl⟩ | ⟨z, rfl⟩ <;> simp [takeDf, hi]
      · cases h
      · cases h
    · cases h

/-- a data field occupies exactly `len` bits -/
theorem df_off {cfg : Cfg} {s : DfSpec} (hw : DfWf.wf s = true) {ts rest : List Tok} {c c' : Cur}
    (hg : NoPanic.Good c) (h : Df.encode cfg s ts c = .ok (c', rest)) : c'.off = c.off + s.len := by
  obtain ⟨hw8, hw64, h1, hlw⟩ := NoPanic.widths_of_wf hw
  obtain ⟨_, p0, hp0, hput⟩ := encode_shape h
  have hputF : putF cfg s.it p0 s.len c = .ok c' := by unfold putF; rw [hput]
  exact (putF_law cfg s.it hw8 hw64 h1 hlw hg hp0 hputF).2.1

theorem LawX.congr {E E' : Enc} {Dd Dd' : Dec} {P : Nat → Prop} {C : List Tok → Prop}
    {R : List Tok → List Tok → Prop} (h : LawX E' Dd' P C R) (hE : ∀ ts c, E ts c = E' ts c)
    (hD : ∀ c, Dd c = Dd' c) : LawX E Dd P C R := by
  have e1 : E = E' := funext fun ts => funext fun c => hE ts c
  have e2 : Dd = Dd' := funext hD
  rw [e1, e2]; exact h

theorem law_dfsThen (cfg : Cfg) (glo : SigTable) (nm : String) (leaf : Frag) (P : Nat → Prop)
    (C : List Tok → Prop) (R : List Tok → List Tok → Prop)
    (hleaf : LawX (encFrag cfg glo leaf) (decFrag cfg leaf) P C R) :
    ∀ (ss : List (String × DfSpec)), wfSpecs ss = true →
      LawX (encFields cfg glo (dfsThen ss nm leaf)) (decFields cfg (dfsThen ss nm leaf))
        (fun o => P (o + Size.sumLens ss)) (CleanDfs ss C) (RelDfs R) := by
  intro ss
  induction ss with
  | nil =>
    intro _ ts c c' rest hg hfit hP hok hC he
    simp only [dfsThen] at he ⊢
    rw [encFields] at he
    split at he
    · next c1 ts1 e1 =>
      simp only [encFields, Res.ok.injEq, Prod.mk.injEq] at he
      obtain ⟨rfl, rfl⟩ := he
      have hP' : P c.off := by simpa [Size.sumLens] using hP
      obtain ⟨a, b, nt, d, r, fx⟩ := hleaf ts c c1 ts1 hg hfit hP' hok hC e1
      refine ⟨a, b, nt, ?_, ?_, ?_⟩
      · rw [decFields, d]
        simp only [decFields, List.append_nil]
      · intro rest'
        rw [encFields, r rest']
        simp only [encFields]
      · intro c0 t0 c0' r' h0 hts
        rw [decFields] at h0
        split at h0
        · next ta ca ea =>
          simp only [decFields, List.append_nil, Res.ok.injEq, Prod.mk.injEq] at h0
          obtain ⟨rfl, _⟩ := h0
          obtain ⟨h1, h2⟩ := fx c0 ta ca r' ea hts
          exact ⟨⟨[], ta, nt, NoCount.nil, rfl, rfl, h1⟩, h2⟩
        · cases h0
        · cases h0
    · cases he
    · cases he
  | cons f ss ih =>
    intro hw ts c c2 rest hg hfit hP hok hC he
    obtain ⟨n, s⟩ := f
    unfold wfSpecs at hw
    simp only [List.all_cons, Bool.and_eq_true] at hw
    have hws : DfWf.wf s = true := hw.1
    simp only [dfsThen] at he ⊢
    rw [encFields] at he
    split at he
    · next c1 ts1 e1 =>
      rw [encFrag] at e1
      obtain ⟨⟨pre1, hs1⟩, x1, nt1, d1, r1, fx1⟩ := df_core cfg s hws ts c c1 ts1 hg e1
      have hoff := df_off hws hg e1
      have hf1 := x1.fit hfit
      have hok1 : TokOK ts1 := by rw [hs1] at hok; exact hok.suffix
      obtain ⟨t, htk⟩ := encode_takeDf e1
      have hC1 : CleanDfs ss C ts1 := hC t ts1 htk
      have hP1 : P (c1.off + Size.sumLens ss) := by
        have e : c.off + Size.sumLens ((n, s) :: ss) = c1.off + Size.sumLens ss := by
          simp only [Size.sumLens, List.map_cons, List.sum_cons]
          omega
        rw [← e]; exact hP
      obtain ⟨⟨pre2, hs2⟩, x2, nt2, d2, r2, fx2⟩ := ih hw.2 ts1 c1 c2 rest x1.good hf1 hP1 hok1 hC1 he
      refine ⟨⟨pre1 ++ pre2, by rw [hs1, hs2, List.append_assoc]⟩, x1.trans x2, nt1 ++ nt2, ?_, ?_, ?_⟩
      · rw [decFields, decFrag,
          read_after (df_local cfg s (NoPanic.widths_of_wf hws)) x2 x1.good hf1 d1]
        simp only
        rw [d2]
      · intro rest'
        rw [encFields, encFrag, List.append_assoc, r1 (nt2 ++ rest')]
        simp only
        exact r2 rest'
      · intro c0 t0 c0' r' h0 hts
        rw [decFields, decFrag] at h0
        split at h0
        · next ta ca ea =>
          split at h0
          · next tb cb eb =>
            simp only [Res.ok.injEq, Prod.mk.injEq] at h0
            obtain ⟨rfl, rfl⟩ := h0
            rw [List.append_assoc] at hts
            obtain ⟨rfl, rfl⟩ := fx1 c0 ta ca (tb ++ r') ea hts
            obtain ⟨⟨hdr, tl, tl', hnc, rfl, rfl, hR⟩, rfl⟩ := fx2 ca tb cb r' eb rfl
            exact ⟨⟨nt1 ++ hdr, tl, tl', (df_noCount ea).append hnc, by simp, by simp, hR⟩, rfl⟩
          · cases h0
          · cases h0
        · cases h0
        · cases h0
    · cases he
    · cases he

/-- locality for the same shape -/
theorem local_dfsThen (cfg : Cfg) (nm : String) (leaf : Frag) (hleaf : Local (decFrag cfg leaf)) :
    ∀ (ss : List (String × DfSpec)), wfSpecs ss = true → Local (decFields cfg (dfsThen ss nm leaf)) := by
  intro ss
  induction ss with
  | nil =>
    intro _
    refine (localG_bind hleaf (fun _ => localG_pure ([] : List Tok)) (· ++ ·)).congr ?_
    intro c
    simp only [dfsThen]
    rw [decFields]
    cases decFrag cfg leaf c with
    | ok r => obtain ⟨t, c1⟩ := r; simp only [decFields]
    | err e => rfl
    | panic w => rfl
  | cons f ss ih =>
    intro hw
    obtain ⟨n, s⟩ := f
    unfold wfSpecs at hw
    simp only [List.all_cons, Bool.and_eq_true] at hw
    refine (localG_bind (df_local cfg s (NoPanic.widths_of_wf hw.1)) (fun _ => ih hw.2) (· ++ ·)).congr ?_
    intro c
    simp only [dfsThen]
    rw [decFields, decFrag]
    cases Df.decode cfg s c with
    | ok r =>
      obtain ⟨t, c1⟩ := r
      simp only
      cases decFields cfg (dfsThen ss nm leaf) c1 with
      | ok r2 => rfl
      | err e => rfl
      | panic w => rfl
    | err e => rfl
    | panic w => rfl

/-! ### the weak law: the decoder accepts what the encoder wrote -/

/-- the weak law (no hypothesis on the tokens): the decoder accepts the buffer the encoder left, reading
no further than the encoder wrote, and what it returns satisfies `Q` -/
def LawW (E : Enc) (Dd : Dec) (P : Nat → Prop) (Q : List Tok → Prop) : Prop :=
  ∀ ts c c' rest, NoPanic.Good c → Fit c → P c.off → E ts c = .ok (c', rest) →
    NoPanic.Ext c c' ∧
    ∃ nt c'', Dd ⟨c'.data, c.off⟩ = .ok (nt, c'') ∧ c''.data = c'.data ∧ c''.off ≤ c'.off ∧ Q nt

theorem LawW.congr {E E' : Enc} {Dd Dd' : Dec} {P : Nat → Prop} {Q : List Tok → Prop}
    (h : LawW E' Dd' P Q) (hE : ∀ ts c, E ts c = E' ts c) (hD : ∀ c, Dd c = Dd' c) : LawW E Dd P Q := by
  have e1 : E = E' := funext fun ts => funext fun c => hE ts c
  have e2 : Dd = Dd' := funext hD
  rw [e1, e2]; exact h

/-- the postcondition of the final fragment, behind the header tokens -/
def QDfs (Q : List Tok → Prop) (nt : List Tok) : Prop := ∃ hdr tl, NoCount hdr ∧ nt = hdr ++ tl ∧ Q tl

theorem lawW_dfsThen (cfg : Cfg) (glo : SigTable) (nm : String) (leaf : Frag) (P : Nat → Prop)
    (Q : List Tok → Prop) (hleaf : LawW (encFrag cfg glo leaf) (decFrag cfg leaf) P Q) :
    ∀ (ss : List (String × DfSpec)), wfSpecs ss = true →
      LawW (encFields cfg glo (dfsThen ss nm leaf)) (decFields cfg (dfsThen ss nm leaf))
        (fun o => P (o + Size.sumLens ss)) (QDfs Q) := by
  intro ss
  induction ss with
  | nil =>
    intro _ ts c c' rest hg hfit hP he
    simp only [dfsThen] at he ⊢
    rw [encFields] at he
    split at he
    · next c1 ts1 e1 =>
      simp only [encFields, Res.ok.injEq, Prod.mk.injEq] at he
      obtain ⟨rfl, rfl⟩ := he
      have hP' : P c.off := by simpa [Size.sumLens] using hP
      obtain ⟨b, nt, c'', d, h1, h2, hq⟩ := hleaf ts c c1 ts1 hg hfit hP' e1
      refine ⟨b, nt, c'', ?_, h1, h2, ⟨[], nt, NoCount.nil, rfl, hq⟩⟩
      rw [decFields, d]
      simp only [decFields, List.append_nil]
    · cases he
    · cases he
  | cons f ss ih =>
    intro hw ts c c2 rest hg hfit hP he
    obtain ⟨n, s⟩ := f
    unfold wfSpecs at hw
    simp only [List.all_cons, Bool.and_eq_true] at hw
    have hws : DfWf.wf s = true := hw.1
    simp only [dfsThen] at he ⊢
    rw [encFields] at he
    split at he
    · next c1 ts1 e1 =>
      rw [encFrag] at e1
      obtain ⟨_, x1, nt1, d1, _, _⟩ := df_core cfg s hws ts c c1 ts1 hg e1
      have hoff := df_off hws hg e1
      have hf1 := x1.fit hfit
      have hP1 : P (c1.off + Size.sumLens ss) := by
        have e : c.off + Size.sumLens ((n, s) :: ss) = c1.off + Size.sumLens ss := by
          simp only [Size.sumLens, List.map_cons, List.sum_cons]
          omega
        rw [← e]; exact hP
      obtain ⟨x2, nt2, c'', d2, h1, h2, ⟨hdr, tl, hnc, rfl, hq⟩⟩ := ih hw.2 ts1 c1 c2 rest x1.good hf1 hP1 he
      refine ⟨x1.trans x2, nt1 ++ (hdr ++ tl), c'', ?_, h1, h2,
        ⟨nt1 ++ hdr, tl, (df_noCount d1).append hnc, by simp, hq⟩⟩
      rw [decFields, decFrag,
        read_after (df_local cfg s (NoPanic.widths_of_wf hws)) x2 x1.good hf1 d1]
      simp only
      rw [d2]
    · cases he
    · cases he

/-! ### the 1029 text field -/

theorem byte_eq_of_agree {D D' : List Nat} (hb : DecLocal.Bytes D) (hb' : DecLocal.Bytes D') {lo hi j : Nat}
    (ha : AgreeOn D' D lo hi) (h1 : lo ≤ 8 * j) (h2 : 8 * j + 8 ≤ hi) (hj : j < D.length) (hj' : j < D'.length) :
    D'[j] = D[j] := by
  apply Nat.eq_of_testBit_eq
  intro t
  by_cases ht : t < 8
  · have := ha (8 * j + (7 - t)) (by omega) (by omega)
    unfold bitAt at this
    have e1 : (8 * j + (7 - t)) / 8 = j := by omega
    have e2 : 7 - (8 * j + (7 - t)) % 8 = t := by omega
    rw [e1, e2] at this
    simpa [List.getD_eq_getElem?_getD, List.getElem?_eq_getElem hj, List.getElem?_eq_getElem hj'] using this
  · rw [testBit_false_of_lt_256 (hb' _ (List.getElem_mem hj')) (by omega),
      testBit_false_of_lt_256 (hb _ (List.getElem_mem hj)) (by omega)]

theorem text_local (cfg : Cfg) : LocalG (text1029Decode cfg) := by
  intro D o t c' h
  unfold text1029Decode at h
  split at h
  · next v1 c1 e1 =>
    obtain ⟨rfl, hf1, l1⟩ := parseU_local cfg (w := 8) (len := 7) (by decide) (by decide) (by decide)
      (by decide) e1
    split at h
    · next len c2 e2 =>
      obtain ⟨rfl, hf2, l2⟩ := parseU_local cfg (w := 8) (len := 8) (by decide) (by decide) (by decide)
        (by decide) e2
      simp only at h
      split at h
      · cases h
      · next hlen =>
        split at h
        · next hv =>
          simp only [Res.ok.injEq, Prod.mk.injEq] at h
          obtain ⟨rfl, rfl⟩ := h
          simp only [List.length_drop] at hlen
          refine ⟨rfl, by simp only; omega, ?_⟩
          intro D' hb hb' hf ha
          simp only at hf ha
          unfold text1029Decode
          rw [l1 D' (by omega) (ha.mono (Nat.le_refl _) (by omega))]
          simp only
          rw [l2 D' (by omega) (ha.mono (by omega) (by omega))]
          simp only
          have hk : ((D'.drop ((o + 7 + 8) / 8)).take len) = ((D.drop ((o + 7 + 8) / 8)).take len) := by
            apply List.ext_getElem
            · simp only [List.length_take, List.length_drop]; omega
            · intro i hi hi'
              simp only [List.length_take, List.length_drop] at hi hi'
              simp only [List.getElem_take, List.getElem_drop]
              exact byte_eq_of_agree hb hb' ha (by omega) (by omega) (by omega) (by omega)
          rw [if_neg (by simp only [List.length_drop]; omega), hk, if_pos hv]
        · cases h
    · cases h
    · cases h
  · cases h
  · cases h

theorem text_frag_local (cfg : Cfg) : Local (decFrag cfg .text1029) := by
  refine (localG_map (text_local cfg) (fun b => [Tok.bytes b])).congr ?_
  intro c; rw [decFrag]
  cases text1029Decode cfg c with
  | ok r => rfl
  | err e => rfl
  | panic w => rfl

theorem text_law (cfg : Cfg) (glo : SigTable) :
    LawX (encFrag cfg glo .text1029) (decFrag cfg .text1029) (fun o => (o + 15) % 8 = 0) (fun _ => True) Eq := by
  intro ts c c' rest hg hfit hP hok _ h
  have hext : NoPanic.Ext c c' := by
    have := NoPanic.encFrag_es cfg glo .text1029 (by unfold WFFrag; rfl) ts c hg
    rw [h] at this
    exact this
  unfold encFrag at h
  split at h
  · next b rest0 =>
    split at h
    · cases h
    · next hcond =>
      obtain ⟨c2, htxt, hk⟩ := lift_ok h
      simp only [Res.ok.injEq, Prod.mk.injEq] at hk
      obtain ⟨rfl, rfl⟩ := hk
      have hb : ∀ x ∈ b, x < 256 := by
        have := hok (.bytes b) (List.mem_cons_self ..)
        simpa [tokOK] using this
      have hutf : validUtf8 b = true := by
        cases hvb : validUtf8 b with
        | true => rfl
        | false => exact absurd (Or.inr (by simp [hvb])) hcond
      obtain ⟨hdec, _, _⟩ := C17.text_1029_roundtrip cfg b hb hutf c c2 hg hP htxt
      refine ⟨⟨[_], rfl⟩, hext, [.bytes b], ?_, ?_, ?_⟩
      · rw [decFrag]
        have e : ({ data := c2.data, off := c.off } : Cur) = { c2 with off := c.off } := rfl
        rw [e, hdec]
      · intro rest'
        simp only [List.cons_append, List.nil_append]
        rw [encFrag]
        rw [if_neg hcond, htxt]
        rfl
      · intro c0 t0 c0' r h0 hts
        rw [decFrag] at h0
        split at h0
        · next b0 cc e0 =>
          simp only [Res.ok.injEq, Prod.mk.injEq] at h0
          obtain ⟨rfl, _⟩ := h0
          simp only [List.cons_append, List.nil_append, List.cons.injEq, Tok.bytes.injEq] at hts
          obtain ⟨rfl, rfl⟩ := hts
          exact ⟨rfl, rfl⟩
        · cases h0
        · cases h0
  · cases h

/-! ### decoded tokens denote Rust values -/

theorem tokOK_dfsThen (cfg : Cfg) (nm : String) (leaf : Frag)
    (hleaf : ∀ c t c', DecLocal.Bytes c.data → decFrag cfg leaf c = .ok (t, c') → TokOK t) :
    ∀ (ss : List (String × DfSpec)), wfSpecs ss = true → ∀ c t c', DecLocal.Bytes c.data →
      decFields cfg (dfsThen ss nm leaf) c = .ok (t, c') → TokOK t := by
  intro ss
  induction ss with
  | nil =>
    intro _ c t c' hb h
    simp only [dfsThen] at h
    rw [decFields] at h
    split at h
    · next ta ca ea =>
      simp only [decFields, List.append_nil, Res.ok.injEq, Prod.mk.injEq] at h
      rw [← h.1]
      exact hleaf c ta ca hb ea
    · cases h
    · cases h
  | cons f ss ih =>
    intro hw c t c' hb h
    obtain ⟨n, s⟩ := f
    unfold wfSpecs at hw
    simp only [List.all_cons, Bool.and_eq_true] at hw
    simp only [dfsThen] at h
    rw [decFields, decFrag] at h
    split at h
    · next ta ca ea =>
      split at h
      · next tb cb eb =>
        simp only [Res.ok.injEq, Prod.mk.injEq] at h
        rw [← h.1]
        have hd := (localG_of_data (df_local cfg s (NoPanic.widths_of_wf hw.1)) ea).1
        exact FragLaw.TokOK.append (FragLaw.df_tokOK ea) (ih hw.2 ca tb cb (by rw [hd]; exact hb) eb)
      · cases h
      · cases h
    · cases h
    · cases h

theorem text_tokOK (cfg : Cfg) : ∀ c t c', DecLocal.Bytes c.data → decFrag cfg .text1029 c = .ok (t, c') →
    TokOK t := by
  intro c t c' hb h
  rw [decFrag] at h
  split at h
  · next b c1 e =>
    simp only [Res.ok.injEq, Prod.mk.injEq] at h
    rw [← h.1]
    apply FragLaw.TokOK.cons _ FragLaw.TokOK.nil
    obtain ⟨D, o⟩ := c
    unfold text1029Decode at e
    split at e
    · next v1 ca e1 =>
      obtain ⟨rfl, _, _⟩ := parseU_local cfg (w := 8) (len := 7) (by decide) (by decide) (by decide)
        (by decide) e1
      split at e
      · next len cb e2 =>
        obtain ⟨rfl, _, _⟩ := parseU_local cfg (w := 8) (len := 8) (by decide) (by decide) (by decide)
          (by decide) e2
        simp only at e
        split at e
        · cases e
        · split at e
          · simp only [Res.ok.injEq, Prod.mk.injEq] at e
            rw [← e.1]
            simp only [tokOK, List.all_eq_true, decide_eq_true_eq]
            intro x hx
            exact hb x (List.mem_of_mem_drop (List.mem_of_mem_take hx))
          · cases e
      · cases e
      · cases e
    · cases e
    · cases e
  · cases h
  · cases h

theorem bytes_map_toNat (l : List UInt8) : DecLocal.Bytes (l.map (·.toNat)) := by
  intro x hx
  obtain ⟨y, _, rfl⟩ := List.mem_map.mp hx
  exact y.toNat_lt

/-! ### what was decoded is clean if the final fragment's tokens are -/

theorem cleanDfs_of_decoded (cfg : Cfg) (nm : String) (leaf : Frag) (C : List Tok → Prop)
    (hleaf : ∀ c t c', decFrag cfg leaf c = .ok (t, c') → C t) :
    ∀ (ss : List (String × DfSpec)) c t c', decFields cfg (dfsThen ss nm leaf) c = .ok (t, c') →
      CleanDfs ss C t := by
  intro ss
  induction ss with
  | nil =>
    intro c t c' h
    simp only [dfsThen] at h
    rw [decFields] at h
    split at h
    · next ta ca ea =>
      simp only [decFields, List.append_nil, Res.ok.injEq, Prod.mk.injEq] at h
      rw [← h.1]
      exact hleaf c ta ca ea
    · cases h
    · cases h
  | cons f ss ih =>
    intro c t c' h
    obtain ⟨n, s⟩ := f
    simp only [dfsThen] at h
    rw [decFields, decFrag] at h
    split at h
    · next ta ca ea =>
      split at h
      · next tb cb eb =>
        simp only [Res.ok.injEq, Prod.mk.injEq] at h
        rw [← h.1]
        intro t' r ht
        rw [MsmCodec.goodTok_of_decode ea tb] at ht
        simp only [Option.some.injEq, Prod.mk.injEq] at ht
        rw [← ht.2]
        exact ih ca tb cb eb
      · cases h
      · cases h
    · cases h
    · cases h

/-- a convenient sufficient condition: split the header tokens off with `Interp.takeFields` -/
theorem cleanDfs_of_takeFields (C : List Tok → Prop) : ∀ (ss : List (String × DfSpec)) (ts : List Tok)
    (row : List (List Tok)) (rest : List Tok), takeFields ss ts = some (row, rest) → C rest →
    CleanDfs ss C ts := by
  intro ss
  induction ss with
  | nil =>
    intro ts row rest h hc
    simp only [takeFields, Option.some.injEq, Prod.mk.injEq] at h
    rw [h.2]; exact hc
  | cons f ss ih =>
    intro ts row rest h hc
    obtain ⟨n, s⟩ := f
    rw [takeFields] at h
    split at h
    · next t r1 e1 =>
      split at h
      · next tt r2 e2 =>
        simp only [Option.some.injEq, Prod.mk.injEq] at h
        intro t' r' ht
        rw [e1] at ht
        simp only [Option.some.injEq, Prod.mk.injEq] at ht
        rw [← ht.2]
        exact ih r1 tt r2 e2 (by rw [h.2]; exact hc)
      · cases h
    · cases h

end Rtcm.SpecialRows
