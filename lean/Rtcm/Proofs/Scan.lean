import Rtcm.Model.Scan
import Rtcm.Proofs.Frame
/-!
Helper lemmas about the scanner, the iterator and the drain loop.
-/
namespace Rtcm

/-- Position `j` of `d` cannot begin a deliverable or pending frame: it is not a preamble byte,
or the candidate starting there is complete and rejected. -/
def DeadAt (d : List UInt8) (j : Nat) : Prop :=
  d.getD j 0 ≠ 0xd3 ∨ frameNew (d.drop j) = .error .notValid

theorem deadAt_cons_succ (b : UInt8) (rest : List UInt8) (j : Nat) :
    DeadAt (b :: rest) (j + 1) ↔ DeadAt rest j := by
  simp [DeadAt]

/-- Whatever is appended, a dead position never begins an accepted frame. -/
theorem DeadAt.never_ok {d : List UInt8} {j : Nat} (h : DeadAt d j) (hj : j < d.length)
    (e : List UInt8) (f : Frame) : frameNew ((d ++ e).drop j) ≠ .ok f := by
  have hd : (d ++ e).drop j = d.drop j ++ e := List.drop_append_of_le_length (by omega)
  rw [hd]
  rcases h with h | h
  · intro hok
    rw [frameNew_ok_iff] at hok
    apply h
    have h0 : byteAt (d.drop j ++ e) 0 = 0xd3 := hok.2.1
    have hlen : 0 < (d.drop j).length := by simp; omega
    rw [byteAt_append_left _ _ 0 hlen] at h0
    unfold byteAt at h0
    have : (d.drop j).getD 0 0 = d.getD j 0 := by
      simp [List.getD_eq_getElem?_getD]
    rw [this] at h0
    exact UInt8.toNat_inj.mp (by simpa using h0)
  · rw [frameNew_append_notValid _ e h]; simp

theorem scan_consumed_le (d : List UInt8) : (scan d).1 ≤ d.length := by
  induction d with
  | nil => simp [scan]
  | cons b rest ih =>
    unfold scan
    split
    · split
      · next f hf =>
        have := (frameNew_ok_frameLen _ _ hf).2.1
        simpa using this
      · simp
      · simp; omega
    · simp; omega

/-- Shape of a scan that delivers a frame. -/
theorem scan_some (d : List UInt8) (c : Nat) (f : Frame) (h : scan d = (c, some f)) :
    ∃ i, i < d.length ∧ d.getD i 0 = 0xd3 ∧ frameNew (d.drop i) = .ok f ∧ c = i + f.frameLen ∧
      ∀ j, j < i → DeadAt d j := by
  induction d generalizing c with
  | nil => simp [scan] at h
  | cons b rest ih =>
    unfold scan at h
    split at h
    · next hb =>
      split at h
      · next f' hf =>
        simp only [Prod.mk.injEq, Option.some.injEq] at h
        obtain ⟨rfl, rfl⟩ := h
        exact ⟨0, by simp, by simp [hb], by simpa using hf, by simp, by intro j hj; omega⟩
      · simp at h
      · next hnv =>
        simp only [Prod.mk.injEq] at h
        obtain ⟨hc, hf⟩ := h
        obtain ⟨i, hi, hd3, hok, hci, hdead⟩ := ih (scan rest).1 (by rw [← hf])
        refine ⟨i + 1, by simp; omega, by simpa using hd3, by simpa using hok, by omega, ?_⟩
        intro j hj
        cases j with
        | zero => right; simpa using hnv
        | succ j => rw [deadAt_cons_succ]; exact hdead j (by omega)
    · next hb =>
      simp only [Prod.mk.injEq] at h
      obtain ⟨hc, hf⟩ := h
      obtain ⟨i, hi, hd3, hok, hci, hdead⟩ := ih (scan rest).1 (by rw [← hf])
      refine ⟨i + 1, by simp; omega, by simpa using hd3, by simpa using hok, by omega, ?_⟩
      intro j hj
      cases j with
      | zero => left; simpa using hb
      | succ j => rw [deadAt_cons_succ]; exact hdead j (by omega)

/-- Shape of a scan that delivers nothing. -/
theorem scan_none (d : List UInt8) (c : Nat) (h : scan d = (c, none)) :
    c ≤ d.length ∧ (∀ j, j < c → DeadAt d j) ∧
      (c = d.length ∨ (d.getD c 0 = 0xd3 ∧ frameNew (d.drop c) = .error .incomplete)) := by
  induction d generalizing c with
  | nil => simp [scan] at h; subst h; simp
  | cons b rest ih =>
    unfold scan at h
    split at h
    · next hb =>
      split at h
      · simp at h
      · next hinc =>
        simp only [Prod.mk.injEq, and_true] at h
        subst h
        exact ⟨by simp, by intro j hj; omega, Or.inr ⟨by simp [hb], by simpa using hinc⟩⟩
      · next hnv =>
        simp only [Prod.mk.injEq] at h
        obtain ⟨hc, hf⟩ := h
        obtain ⟨hle, hdead, hend⟩ := ih (scan rest).1 (by rw [← hf])
        subst hc
        refine ⟨by simp; omega, ?_, ?_⟩
        · intro j hj
          cases j with
          | zero => right; simpa using hnv
          | succ j => rw [deadAt_cons_succ]; exact hdead j (by omega)
        · rcases hend with h | h
          · left; simp; omega
          · right; simpa using h
    · next hb =>
      simp only [Prod.mk.injEq] at h
      obtain ⟨hc, hf⟩ := h
      obtain ⟨hle, hdead, hend⟩ := ih (scan rest).1 (by rw [← hf])
      subst hc
      refine ⟨by simp; omega, ?_, ?_⟩
      · intro j hj
        cases j with
        | zero => left; simpa using hb
        | succ j => rw [deadAt_cons_succ]; exact hdead j (by omega)
      · rcases hend with h | h
        · left; simp; omega
        · right; simpa using h

/-- A delivered frame is still delivered, with the same consumed count, after appending. -/
theorem scan_append_some (d e : List UInt8) (c : Nat) (f : Frame) (h : scan d = (c, some f)) :
    scan (d ++ e) = (c, some f) := by
  induction d generalizing c with
  | nil => simp [scan] at h
  | cons b rest ih =>
    unfold scan at h
    rw [List.cons_append]
    unfold scan
    split at h
    · next hb =>
      simp only [hb, ↓reduceIte]
      split at h
      · next f' hf =>
        have := frameNew_append_ok _ e _ hf
        rw [List.cons_append, hb] at this
        rw [this]; exact h
      · simp at h
      · next hnv =>
        have := frameNew_append_notValid _ e hnv
        rw [List.cons_append, hb] at this
        rw [this]
        simp only [Prod.mk.injEq] at h
        obtain ⟨hc, hf⟩ := h
        have := ih (scan rest).1 (by rw [← hf])
        simp only [this, hc]
    · next hb =>
      simp only [hb, ↓reduceIte]
      simp only [Prod.mk.injEq] at h
      obtain ⟨hc, hf⟩ := h
      have := ih (scan rest).1 (by rw [← hf])
      simp only [this, hc]

/-- Bytes consumed without a frame are dead: after appending, the scanner skips them again and
continues exactly as it would on the remaining buffer. -/
theorem scan_append_none (d e : List UInt8) (c : Nat) (h : scan d = (c, none)) :
    scan (d ++ e) = ((scan (d.drop c ++ e)).1 + c, (scan (d.drop c ++ e)).2) := by
  induction d generalizing c with
  | nil => simp [scan] at h; subst h; simp
  | cons b rest ih =>
    unfold scan at h
    split at h
    · next hb =>
      split at h
      · simp at h
      · simp only [Prod.mk.injEq, and_true] at h
        subst h; simp
      · next hnv =>
        simp only [Prod.mk.injEq] at h
        obtain ⟨hc, hf⟩ := h
        have hi := ih (scan rest).1 (by rw [← hf])
        have hnv' := frameNew_append_notValid _ e hnv
        rw [List.cons_append, hb] at hnv'
        subst hc
        rw [List.cons_append]
        conv => lhs; unfold scan
        simp only [hb, ↓reduceIte, hnv', List.drop_succ_cons]
        rw [hi]; simp only [Nat.add_assoc]
    · next hb =>
      simp only [Prod.mk.injEq] at h
      obtain ⟨hc, hf⟩ := h
      have hi := ih (scan rest).1 (by rw [← hf])
      subst hc
      rw [List.cons_append]
      conv => lhs; unfold scan
      simp only [hb, ↓reduceIte, List.drop_succ_cons]
      rw [hi]; simp only [Nat.add_assoc]

theorem scan_some_pos (d : List UInt8) (c : Nat) (f : Frame) (h : scan d = (c, some f)) :
    6 ≤ c ∧ c ≤ d.length := by
  obtain ⟨i, hi, _, hok, hc, _⟩ := scan_some d c f h
  have hl := frameNew_ok_frameLen _ _ hok
  have : (d.drop i).length = d.length - i := by simp
  constructor <;> omega

/-! ### drain -/

theorem drain_fuel (fuel : Nat) (buf : List UInt8) (h : buf.length < fuel) :
    drain fuel buf = drain (buf.length + 1) buf := by
  induction fuel using Nat.strongRecOn generalizing buf with
  | _ fuel ih =>
    cases fuel with
    | zero => omega
    | succ fuel =>
      simp only [drain]
      rcases hs : scan buf with ⟨c, _ | f⟩
      · simp
      · simp only
        have hp := scan_some_pos buf c f hs
        have hlen : (buf.drop c).length < buf.length := by simp; omega
        rw [ih fuel (by omega) (buf.drop c) (by omega)]
        rw [ih buf.length (by omega) (buf.drop c) hlen]

theorem drainAll_unfold (buf : List UInt8) :
    drainAll buf = match scan buf with
      | (c, some f) => (f :: (drainAll (buf.drop c)).1, (drainAll (buf.drop c)).2)
      | (c, none) => ([], buf.drop c) := by
  have hd : drainAll buf = drain (buf.length + 1) buf := rfl
  rw [hd, drain]
  rcases hs : scan buf with ⟨c, _ | f⟩
  · simp
  · simp only
    have hp := scan_some_pos buf c f hs
    have hlen : (buf.drop c).length < buf.length := by simp; omega
    rw [drain_fuel buf.length (buf.drop c) hlen]
    rfl

theorem drainAll_rem_le (buf : List UInt8) : (drainAll buf).2.length ≤ buf.length := by
  induction h : buf.length using Nat.strongRecOn generalizing buf with
  | _ n ih =>
    rw [drainAll_unfold]
    rcases hs : scan buf with ⟨c, _ | f⟩
    · simp; omega
    · simp only
      have hp := scan_some_pos buf c f hs
      have hlen : (buf.drop c).length < buf.length := by simp; omega
      have := ih (buf.drop c).length (by omega) (buf.drop c) rfl
      omega

/-- Draining a buffer, appending, and draining again delivers what draining the concatenation
delivers, and leaves the same remainder. -/
theorem drainAll_append (a b : List UInt8) :
    drainAll (a ++ b) =
      ((drainAll a).1 ++ (drainAll ((drainAll a).2 ++ b)).1, (drainAll ((drainAll a).2 ++ b)).2) := by
  induction h : a.length using Nat.strongRecOn generalizing a with
  | _ n ih =>
    rw [drainAll_unfold a]
    rcases hs : scan a with ⟨c, _ | f⟩
    · -- no frame in `a`: the consumed bytes are dead
      simp only [List.nil_append]
      have hcle : c ≤ a.length := by have := scan_consumed_le a; rw [hs] at this; exact this
      have hsa := scan_append_none a b c hs
      rw [drainAll_unfold (a ++ b), hsa, drainAll_unfold (a.drop c ++ b)]
      have hdrop : ∀ k, (a ++ b).drop (k + c) = (a.drop c ++ b).drop k := by
        intro k
        rw [Nat.add_comm, ← List.drop_drop, List.drop_append_of_le_length hcle]
      rcases hs2 : scan (a.drop c ++ b) with ⟨c', _ | f'⟩
      · simp only; rw [hdrop]
      · simp only; rw [hdrop]
    · simp only
      have hp := scan_some_pos a c f hs
      have hsa := scan_append_some a b c f hs
      rw [drainAll_unfold (a ++ b), hsa]
      simp only
      have hdrop : (a ++ b).drop c = a.drop c ++ b := List.drop_append_of_le_length hp.2
      rw [hdrop]
      have hlen : (a.drop c).length < n := by simp; omega
      rw [ih (a.drop c).length hlen (a.drop c) rfl]
      simp

/-- Bytes consumed without a frame may be dropped before more data arrives: draining gives the same. -/
theorem drainAll_skip_dead (a b : List UInt8) (c : Nat) (hs : scan a = (c, none)) :
    drainAll (a ++ b) = drainAll (a.drop c ++ b) := by
  have hcle : c ≤ a.length := by have := scan_consumed_le a; rw [hs] at this; exact this
  have hsa := scan_append_none a b c hs
  rw [drainAll_unfold (a ++ b), hsa, drainAll_unfold (a.drop c ++ b)]
  have hdrop : ∀ k, (a ++ b).drop (k + c) = (a.drop c ++ b).drop k := by
    intro k
    rw [Nat.add_comm, ← List.drop_drop, List.drop_append_of_le_length hcle]
  rcases hs2 : scan (a.drop c ++ b) with ⟨c', _ | f'⟩
  · simp only; rw [hdrop]
  · simp only; rw [hdrop]

/-- A delivered frame may be taken out before more data arrives. -/
theorem drainAll_take_frame (a b : List UInt8) (c : Nat) (f : Frame) (hs : scan a = (c, some f)) :
    drainAll (a ++ b) = (f :: (drainAll (a.drop c ++ b)).1, (drainAll (a.drop c ++ b)).2) := by
  have hp := scan_some_pos a c f hs
  have hsa := scan_append_some a b c f hs
  rw [drainAll_unfold (a ++ b), hsa]
  simp only
  rw [List.drop_append_of_le_length hp.2]

/-! ### iterator -/

theorem collect_eq_drain (fuel : Nat) (d : List UInt8) (i : Nat) (hi : i ≤ d.length) :
    (IterState.collect fuel { data := d, index := i }).1 = (drain fuel (d.drop i)).1 ∧
    (IterState.collect fuel { data := d, index := i }).2.data = d ∧
    (IterState.collect fuel { data := d, index := i }).2.index ≤ d.length ∧
    d.drop (IterState.collect fuel { data := d, index := i }).2.index = (drain fuel (d.drop i)).2 := by
  induction fuel generalizing i with
  | zero => simp [IterState.collect, drain, hi]
  | succ fuel ih =>
    simp only [IterState.collect, drain, IterState.next]
    by_cases hge : i ≥ d.length
    · have : i = d.length := by omega
      subst this
      simp [scan]
    · simp only [hge, ↓reduceIte]
      rcases hs : scan (d.drop i) with ⟨c, _ | f⟩
      · simp only
        have hcle : c ≤ (d.drop i).length := by
          have := scan_consumed_le (d.drop i); rw [hs] at this; exact this
        simp only [List.length_drop] at hcle
        refine ⟨trivial, trivial, by omega, ?_⟩
        rw [List.drop_drop]
      · simp only
        have hp := scan_some_pos _ c f hs
        simp only [List.length_drop] at hp
        have := ih (i + c) (by omega)
        rw [List.drop_drop]
        refine ⟨by rw [this.1], this.2.1, this.2.2.1, this.2.2.2⟩

end Rtcm
