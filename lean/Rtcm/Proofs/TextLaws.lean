import Rtcm.Proofs.CurLaws
/-!
# Text fields: UTF-8 validity of `ArrayString::from`, byte-string writer / reader agreement
-/
namespace Rtcm.TextLaws
open Rtcm.Bits Rtcm.Text Rtcm.CurLaws

/-! ### `utf8Enc` is core Lean's `String.utf8EncodeChar` -/

/-- a Unicode scalar value: `< 0x110000` and not a surrogate -/
def Scalar (c : Nat) : Prop := c < 0x110000 ∧ ¬ (0xD800 ≤ c ∧ c ≤ 0xDFFF)

theorem scalar_valid {c : Nat} (h : Scalar c) : c.isValidChar := by
  unfold Nat.isValidChar
  unfold Scalar at h
  omega

theorem val_ofNat {c : Nat} (h : Scalar c) : (Char.ofNat c).val.toNat = c := by
  have hv := scalar_valid h
  have hlt : c < UInt32.size := by
    unfold Scalar at h
    simp only [UInt32.size]
    omega
  simp only [Char.ofNat, hv, dite_true, Char.ofNatAux]
  rfl

theorem utf8Enc_eq {c : Nat} (h : Scalar c) :
    (utf8Enc c).map UInt8.ofNat = String.utf8EncodeChar (Char.ofNat c) := by
  unfold String.utf8EncodeChar
  simp only [val_ofNat h]
  unfold utf8Enc
  have h' := h
  unfold Scalar at h'
  by_cases h1 : c < 0x80
  · have h1' : c ≤ 0x7f := by omega
    rw [if_pos h1, if_pos h1']
    rfl
  · have h1' : ¬ c ≤ 0x7f := by omega
    rw [if_neg h1, if_neg h1']
    by_cases h2 : c < 0x800
    · have h2' : c ≤ 0x7ff := by omega
      rw [if_pos h2, if_pos h2']
      have e1 : c / 64 % 0x20 = c / 64 := Nat.mod_eq_of_lt (by omega)
      simp only [List.map_cons, List.map_nil, e1, Nat.add_comm]
    · have h2' : ¬ c ≤ 0x7ff := by omega
      rw [if_neg h2, if_neg h2']
      by_cases h3 : c < 0x10000
      · have h3' : c ≤ 0xffff := by omega
        rw [if_pos h3, if_pos h3']
        have e1 : c / 4096 % 0x10 = c / 4096 := Nat.mod_eq_of_lt (by omega)
        simp only [List.map_cons, List.map_nil, e1, Nat.add_comm]
      · have h3' : ¬ c ≤ 0xffff := by omega
        rw [if_neg h3, if_neg h3']
        have e1 : c / 262144 % 0x08 = c / 262144 := Nat.mod_eq_of_lt (by omega)
        simp only [List.map_cons, List.map_nil, e1, Nat.add_comm]

theorem toByteArray_list_eq (bs : List UInt8) : bs.toByteArray = ByteArray.mk bs.toArray := by
  have := List.data_toByteArray (l := bs)
  cases h : bs.toByteArray with
  | mk d => rw [h] at this; simp_all

theorem flatMap_utf8Enc_eq (l : List Nat) (h : ∀ c ∈ l, Scalar c) :
    (l.flatMap utf8Enc).map UInt8.ofNat = (l.map Char.ofNat).flatMap String.utf8EncodeChar := by
  induction l with
  | nil => rfl
  | cons c cs ih =>
    simp only [List.flatMap_cons, List.map_append, List.map_cons]
    rw [utf8Enc_eq (h c (by simp)), ih (fun x hx => h x (by simp [hx]))]

/-- the bytes of UTF-8-encoded scalar values are valid UTF-8 in the sense of core Lean's verified
validator -/
theorem validUtf8_flatMap (l : List Nat) (h : ∀ c ∈ l, Scalar c) :
    validUtf8 (l.flatMap utf8Enc) = true := by
  unfold validUtf8
  rw [ByteArray.validateUTF8_eq_true_iff]
  refine .intro (l.map Char.ofNat) ?_
  unfold toByteArray List.utf8Encode
  rw [flatMap_utf8Enc_eq l h, toByteArray_list_eq]

/-! ### byte strings on the cursor -/

theorem putBytes_law (cfg : Cfg) :
    ∀ (bs : List Nat) (c c' : Cur), Good c → c.off ≤ 8 * c.data.length → (∀ b ∈ bs, b < 256) →
      putBytes cfg bs c = .ok c' →
      Ext c c' ∧ c'.off = c.off + 8 * bs.length ∧
      ∀ D, D.length = c'.data.length → AgreeOn D c'.data c.off c'.off →
        parseBytes cfg bs.length ⟨D, c.off⟩ = .ok (bs, ⟨D, c'.off⟩) := by
  intro bs
  induction bs with
  | nil =>
    intro c c' hg hfit _ h
    simp only [putBytes, Res.ok.injEq] at h
    subst h
    exact ⟨Ext.refl hg hfit, by simp, fun D _ _ => by simp [parseBytes]⟩
  | cons b bs ih =>
    intro c c' hg hfit hb h
    simp only [putBytes] at h
    cases h1 : putU cfg 8 b 8 c with
    | err x => rw [h1] at h; cases h
    | panic x => rw [h1] at h; cases h
    | ok c1 =>
      rw [h1] at h
      simp only at h
      obtain ⟨e1, o1, r1⟩ := putU_law cfg (len := 8) (by decide) (by decide) hg
        (hb b (by simp)) h1
      obtain ⟨e2, o2, r2⟩ := ih c1 c' e1.good e1.fit (fun x hx => hb x (by simp [hx])) h
      refine ⟨e1.trans e2, by simp only [o1, o2, List.length_cons]; omega, ?_⟩
      intro D hD ha
      simp only [List.length_cons, parseBytes]
      rw [r1 D (hD.trans e2.len) (e2.agree_left ha)]
      simp only
      rw [r2 D hD (ha.mono e1.le (Nat.le_refl _))]

/-- with room, writing bytes succeeds -/
theorem putBytes_ok (cfg : Cfg) :
    ∀ (bs : List Nat) (c : Cur), Good c → (∀ b ∈ bs, b < 256) →
      c.off + 8 * bs.length ≤ 8 * c.data.length → ∃ c', putBytes cfg bs c = .ok c' := by
  intro bs
  induction bs with
  | nil => intro c _ _ _; exact ⟨c, rfl⟩
  | cons b bs ih =>
    intro c hg hb hroom
    simp only [List.length_cons] at hroom
    simp only [putBytes]
    rcases putF_cases cfg ⟨.u, 8⟩ (by decide) (by decide) (len := 8) (by decide) (by decide) hg
      (hb b (by simp)) with ⟨_, c1, h1, o1, e1, _⟩ | ⟨hno, _⟩
    · rw [putU_eq, h1]
      simp only
      exact ih c1 e1.good (fun x hx => hb x (by simp [hx])) (by rw [o1, e1.len]; omega)
    · omega

/-- without room, writing bytes reports BufferOverflow (never panics) -/
theorem putBytes_total (cfg : Cfg) :
    ∀ (bs : List Nat) (c : Cur), Good c → (∀ b ∈ bs, b < 256) →
      (∃ c', putBytes cfg bs c = .ok c') ∨ putBytes cfg bs c = .err .bufferOverflow := by
  intro bs
  induction bs with
  | nil => intro c _ _; exact Or.inl ⟨c, rfl⟩
  | cons b bs ih =>
    intro c hg hb
    simp only [putBytes]
    rcases putF_cases cfg ⟨.u, 8⟩ (by decide) (by decide) (len := 8) (by decide) (by decide) hg
      (hb b (by simp)) with ⟨_, c1, h1, o1, e1, _⟩ | ⟨_, h1⟩
    · rw [putU_eq, h1]
      simp only
      exact ih c1 e1.good (fun x hx => hb x (by simp [hx]))
    · rw [putU_eq, h1]
      exact Or.inr rfl

/-! ### `df_88591_string_with_len!` -/

theorem map_pushNorm_eq (b : List Nat) (hb : ∀ x ∈ b, 1 ≤ x ∧ x ≤ 255) : b.map pushNorm = b := by
  conv => rhs; rw [← List.map_id b]
  apply List.map_congr_left
  intro x hx
  have := (hb x hx).1
  simp only [pushNorm, id]
  rw [if_neg (by omega)]

theorem strEncode_law (cfg : Cfg) (cap lenBits : Nat) (h1 : 1 ≤ lenBits) (h8 : lenBits ≤ 8)
    (hcap : cap < 2 ^ lenBits) (b : List Nat) (hb : ∀ x ∈ b, 1 ≤ x ∧ x ≤ 255)
    (hlen : b.length ≤ cap) (c c' : Cur) (hg : Good c)
    (h : strEncode cfg lenBits b c = .ok c') :
    Ext c c' ∧ c'.off = c.off + lenBits + 8 * b.length ∧
    ∀ D, D.length = c'.data.length → AgreeOn D c'.data c.off c'.off →
      strDecode cfg cap lenBits ⟨D, c.off⟩ = .ok (b, ⟨D, c'.off⟩) := by
  have hlt : b.length < 2 ^ lenBits := by omega
  have h256 : b.length % 256 = b.length := by
    apply Nat.mod_eq_of_lt
    have : 2 ^ lenBits ≤ 2 ^ 8 := Nat.pow_le_pow_right (by decide) h8
    omega
  unfold strEncode at h
  rw [h256] at h
  cases hp : putU cfg 8 b.length lenBits c with
  | err x => rw [hp] at h; cases h
  | panic x => rw [hp] at h; cases h
  | ok c1 =>
    rw [hp] at h
    simp only at h
    obtain ⟨e1, o1, r1⟩ := putU_law cfg h1 h8 hg hlt hp
    obtain ⟨e2, o2, r2⟩ := putBytes_law cfg b c1 c' e1.good e1.fit
      (fun x hx => by have := (hb x hx).2; omega) h
    refine ⟨e1.trans e2, by rw [o2, o1], ?_⟩
    intro D hD ha
    unfold strDecode
    rw [r1 D (hD.trans e2.len) (e2.agree_left ha)]
    simp only
    rw [if_neg (by omega), r2 D hD (ha.mono e1.le (Nat.le_refl _))]
    simp only [map_pushNorm_eq b hb]

theorem strEncode_ok (cfg : Cfg) (lenBits : Nat) (h1 : 1 ≤ lenBits) (h8 : lenBits ≤ 8)
    (b : List Nat) (hb : ∀ x ∈ b, x < 256) (hlen : b.length < 2 ^ lenBits) (c : Cur) (hg : Good c)
    (hroom : c.off + lenBits + 8 * b.length ≤ 8 * c.data.length) :
    ∃ c', strEncode cfg lenBits b c = .ok c' := by
  have h256 : b.length % 256 = b.length := by
    apply Nat.mod_eq_of_lt
    have : 2 ^ lenBits ≤ 2 ^ 8 := Nat.pow_le_pow_right (by decide) h8
    omega
  unfold strEncode
  rw [h256]
  have hv : b.length < 2 ^ (8 : Nat) :=
    Nat.lt_of_lt_of_le hlen (Nat.pow_le_pow_right (by decide) h8)
  rcases putF_cases cfg ⟨.u, 8⟩ (by decide) (by decide) h1 h8 hg hv
    with ⟨_, c1, hp, o1, e1, _⟩ | ⟨hno, _⟩
  · rw [putU_eq, hp]
    simp only
    exact putBytes_ok cfg b c1 e1.good hb (by rw [o1, e1.len]; omega)
  · omega

/-! ### byte-aligned reads are the buffer bytes (for the 1029 text, read with `par.data()`) -/

theorem fieldValue_byte (D : List Nat) (k : Nat) (hk : k < D.length) (hd : D[k] < 256) :
    fieldValue D (8 * k) 8 = D[k] := by
  apply Nat.eq_of_testBit_eq
  intro m
  rw [testBit_fieldValue]
  by_cases hm : m < 8
  · have e1 : (8 * k + 8 - 1 - m) / 8 = k := by omega
    have e2 : 7 - (8 * k + 8 - 1 - m) % 8 = m := by omega
    simp only [hm, decide_true, Bool.true_and, bitAt, e1, e2]
    rw [List.getD_eq_getElem?_getD, List.getElem?_eq_getElem hk]
    rfl
  · simp only [hm, decide_false, Bool.false_and]
    exact (testBit_false_of_lt_256 hd (by omega)).symm

theorem parseBytes_aligned (cfg : Cfg) (D : List Nat) (hD : ∀ d ∈ D, d < 256) :
    ∀ (n k : Nat), 8 * k + 8 * n ≤ 8 * D.length →
      parseBytes cfg n ⟨D, 8 * k⟩ = .ok ((D.drop k).take n, ⟨D, 8 * k + 8 * n⟩) := by
  intro n
  induction n with
  | zero => intro k _; simp [parseBytes]
  | succ n ih =>
    intro k hfit
    have hk : k < D.length := by omega
    simp only [parseBytes]
    rw [parseU_eq, parseF_at cfg ⟨.u, 8⟩ (by decide) (by decide) (len := 8) (by decide) (by decide)
      D (8 * k) (by omega)]
    simp only
    have e : 8 * k + 8 = 8 * (k + 1) := by omega
    rw [e, ih (k + 1) (by omega)]
    simp only [readValue, fieldValue_byte D k hk (hD _ (List.getElem_mem hk))]
    rw [List.drop_eq_getElem_cons hk, List.take_succ_cons]
    have e2 : 8 * (k + 1) + 8 * n = 8 * k + 8 * (n + 1) := by omega
    rw [e2]

/-- the 1029 text field: writer / reader agreement.  The reader takes whole bytes from
`offset / 8`, so the cursor after the two count fields must be byte-aligned. -/
theorem text1029_law (cfg : Cfg) (b : List Nat) (hb : ∀ x ∈ b, x < 256)
    (hutf : validUtf8 b = true) (c c' : Cur) (hg : Good c) (hal : (c.off + 15) % 8 = 0)
    (h : text1029Encode cfg b c = .ok c') :
    Ext c c' ∧ c'.off = c.off + 15 + 8 * b.length ∧
    ∀ D, D.length = c'.data.length → (∀ d ∈ D, d < 256) → AgreeOn D c'.data c.off c'.off →
      text1029Decode cfg ⟨D, c.off⟩ = .ok (b, ⟨D, c'.off⟩) := by
  unfold text1029Encode at h
  dsimp only at h
  split at h
  · cases h
  · next hlim =>
    have hl255 : b.length ≤ 255 := by omega
    have hc127 : charCount b ≤ 127 := by omega
    cases h1 : putU cfg 8 (charCount b) 7 c with
    | err x => rw [h1] at h; cases h
    | panic x => rw [h1] at h; cases h
    | ok c1 =>
      rw [h1] at h
      simp only at h
      cases h2 : putU cfg 8 b.length 8 c1 with
      | err x => rw [h2] at h; cases h
      | panic x => rw [h2] at h; cases h
      | ok c2 =>
        rw [h2] at h
        simp only at h
        obtain ⟨e1, o1, r1⟩ := putU_law cfg (len := 7) (by decide) (by decide) hg
          (by show _ < 128; omega) h1
        obtain ⟨e2, o2, r2⟩ := putU_law cfg (len := 8) (by decide) (by decide) e1.good
          (by show _ < 256; omega) h2
        obtain ⟨e3, o3, r3⟩ := putBytes_law cfg b c2 c' e2.good e2.fit hb h
        have e12 := e1.trans e2
        refine ⟨e12.trans e3, by rw [o3, o2, o1], ?_⟩
        intro D hD hDg ha
        have hD2 : D.length = c2.data.length := hD.trans e3.len
        have hD1 : D.length = c1.data.length := hD2.trans e2.len
        have a2 : AgreeOn D c2.data c.off c2.off := e3.agree_left ha
        have a1 : AgreeOn D c1.data c.off c1.off := e2.agree_left a2
        have hpb := r3 D hD (ha.mono e12.le (Nat.le_refl _))
        -- the bytes sit at byte index `(c.off + 15) / 8`
        have hc2 : c2.off = 8 * ((c.off + 15) / 8) := by rw [o2, o1]; omega
        have hfit3 := e3.fit
        have hroom : 8 * ((c.off + 15) / 8) + 8 * b.length ≤ 8 * D.length := by
          rw [hD, ← hc2, ← o3]; exact hfit3
        rw [hc2, parseBytes_aligned cfg D hDg b.length _ hroom] at hpb
        simp only [Res.ok.injEq, Prod.mk.injEq] at hpb
        unfold text1029Decode
        rw [r1 D hD1 a1]
        simp only
        rw [r2 D hD2 (a2.mono e1.le (Nat.le_refl _))]
        simp only
        have hdiv : c2.off / 8 = (c.off + 15) / 8 := by rw [hc2]; omega
        rw [hdiv, if_neg (by simp only [List.length_drop]; omega), hpb.1, if_pos hutf]
        simp only [text1029Decode.arrayStringFrom255, o3]
        congr 3
        omega

end Rtcm.TextLaws
