import Rtcm.Proofs.WFFrag
import Rtcm.Gen.Messages
/-!
# Every layout of the regenerated message table is well formed

Kernel evaluation (`decide +kernel`) of the Boolean predicate `WF.WFFrag` over all rows of
`Gen.messageTable`; shared by C02 and C09. Mathlib-free.
-/
namespace Rtcm.WF
open Rtcm.Schema

theorem table_wfFrag : Gen.messageTable.all (fun r => WFFrag r.frag) = true := by decide +kernel

theorem wfFrag_of_mem {row : MsgRow} (h : row ∈ Gen.messageTable) : WFFrag row.frag = true :=
  List.all_eq_true.mp table_wfFrag row h

end Rtcm.WF
